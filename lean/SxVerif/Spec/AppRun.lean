/-
Spec of what a USER of `sx socks | elastic | docker --json` observes at the process boundary, written from the
property statements (C08, C09, C10), not from the code:

  C08  "Each probe that detects a service yields exactly one output record and each failed probe exactly one
        error record … everything detected before completion is printed before the program exits (with the
        exit delay at its default or larger)."
  C09  "… the record carries the probed address and port."
  C10  "… the record's host, port and scheme are those of the probed target …"
  C09  "the probe finishes within the connect timeout plus three data timeouts (… plus scheduling slack)"
  C10  "each probe ends within its configured timeout per request (plus slack)"

The ground truth of a run is the list of targets with the behaviour the harness scripted for each of them
(component `e2eapp`).  Everything here is a predicate on observed output: the records on stdout, the error
records on stderr, the wall time of the process.
-/
namespace SxVerif.Spec.AppRun

/-- what the scripted endpoint does -/
inductive Beh where
  | ok        -- answers the probe positively (socks `05 00`; elastic: a JSON object on `GET /`; docker: `/info` object)
  | neg       -- socks only: answers with two other bytes (`05 ff`): a negative answer, not a failure
  | refused   -- nothing listens: the connection is refused
  | tarpit    -- accepts the connection and never answers
  | garbage   -- answers with something that is not the protocol, or closes without a word
  | drop      -- the SYN is never answered (filtered host)
  | badline   -- not an endpoint at all: a target-list line that names no valid target (bad address, bad port, not
              -- JSON): one error record, never a probe (C13), and the scan goes on with the next line
  deriving Repr, DecidableEq

structure Target where
  host : String      -- `a.b.c.d:port` as given to the command
  beh : Beh
  excluded : Bool    -- named by `--exclude`: not a target of the scan at all
  deriving Repr

/-- the probe of this target detects the service -/
def detects (t : Target) : Bool := !t.excluded && t.beh == .ok

/-- the probe of this target fails: there is no answer to decide on -/
def fails (t : Target) : Bool :=
  !t.excluded && (t.beh == .refused || t.beh == .tarpit || t.beh == .garbage || t.beh == .drop || t.beh == .badline)

/-- identity of the record of a detected target: scan type, scheme, and the probed host:port in the form the
    result type documents (socks: `ip` + `port`; elastic: `host`; docker: `host` = `tcp://ip:port`) -/
def recordOf (cmd proto : String) (t : Target) : String :=
  if cmd == "socks" then s!"socks||{t.host}"
  else if cmd == "docker" then s!"docker|{proto}|tcp://{t.host}"
  else s!"{cmd}|{proto}|{t.host}"

def sortS (l : List String) : List String := (l.toArray.qsort (· < ·)).toList

/-- the one observation the property allows for a run that is not interrupted: the records are those of the
    detecting probes (one each, as a multiset), one error record per failed probe, every detecting target was
    asked its primary question exactly once, nothing was sent to an excluded target, exit status 0 -/
def expected (cmd proto : String) (ts : List Target) : String :=
  let recs := sortS ((ts.filter detects).map (recordOf cmd proto))
  let seen := sortS ((ts.filter detects).map (fun t => s!"{t.host}*1"))
  let errs := (ts.filter fails).length
  s!"rec={",".intercalate recs};err={errs};seen={",".intercalate seen};x=0;exit=0"

def holds (cmd proto : String) (ts : List Target) (observed : String) : Bool := observed == expected cmd proto ts

/-- number of timeouts a single probe may take against an endpoint that never answers: socks connect + 3 data
    timeouts (C09); elastic: the fatal first request, docker: one deadline per probe (C10) -/
def timeouts (cmd : String) : Nat := if cmd == "socks" then 4 else 1

/-- wall time (µs) of a whole run against ONE endpoint that never answers, timeout `tMs` -/
def timeOK (cmd : String) (tMs exitMs slackMs us : Nat) : Bool :=
  decide (us ≤ (timeouts cmd * tMs + exitMs + slackMs) * 1000)

/-- C16 at the process boundary: a run that is not interrupted does not end before its exit delay has passed -/
def delayOK (exitMs us : Nat) : Bool := decide (exitMs * 1000 ≤ us)

end SxVerif.Spec.AppRun
