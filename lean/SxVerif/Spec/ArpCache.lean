/-
Spec of C11, from the statement: a cache file is a list of lines; a line that is a JSON object with an
`ip` string in dotted-quad (or `::ffff:`-mapped) form and a `mac` string in `xx:xx:xx:xx:xx:xx` form maps
that address to that MAC, the last line for an address wins; a probe goes to the entry of its own
destination, else to the gateway MAC, else it becomes an error.  Independent of Model/ArpCache: own field
lookup, own decimal / hex reading (by splitting at the separators).
-/
import SxVerif.Spec.Json

namespace SxVerif.Spec.ArpCache
open SxVerif.Spec.Json

def splitAt (sep : Char) : List Char → List (List Char)
  | [] => [[]]
  | c :: t =>
    if c = sep then [] :: splitAt sep t
    else match splitAt sep t with
      | h :: r => (c :: h) :: r
      | [] => [[c]]

def octet (f : List Char) : Option Nat :=
  if canonNat f && natOfDigits f ≤ 255 then some (natOfDigits f) else none

def dotted (s : List Char) : Option Nat :=
  match (splitAt '.' s).map octet with
  | [some a, some b, some c, some d] => some (((a * 256 + b) * 256 + c) * 256 + d)
  | _ => none

def addrOf (s : List Char) : Option Nat :=
  if [':', ':', 'f', 'f', 'f', 'f', ':'].isPrefixOf s then dotted (s.drop 7) else dotted s

def hexPair (f : List Char) : Option Nat :=
  match f with
  | [a, b] => (match hexVal a, hexVal b with | some x, some y => some (x * 16 + y) | _, _ => none)
  | _ => none

def macOf (s : List Char) : Option Nat :=
  let gs := (splitAt ':' s).map hexPair
  if gs.length = 6 ∧ gs.all Option.isSome then some (gs.foldl (fun acc g => acc * 256 + g.getD 0) 0) else none

/-- last string member with that key -/
def lastStr (key : Key) (kvs : List (Key × JVal)) : Option (List Char) :=
  kvs.foldl (fun acc kv => if kv.1 = key then (match kv.2 with | .str s => some s | _ => acc) else acc) none

/-- what a plainly well-formed cache line says -/
def lineSays (line : List Char) : Option (Nat × Nat) :=
  match readObject line with
  | none => none
  | some kvs =>
    match (lastStr (k "ip") kvs).bind addrOf, (lastStr (k "mac") kvs).bind macOf with
    | some a, some m => some (a, m)
    | _, _ => none

/-- last line for the address wins -/
def lookup (entries : List (Nat × Nat)) (a : Nat) : Option Nat :=
  entries.foldl (fun acc e => if e.1 = a then some e.2 else acc) none

inductive Outcome where
  | mac (m : Nat)      -- probe addressed to m
  | noMac              -- replaced by an error
  | passErr            -- was an error request already
  deriving Repr, DecidableEq

def expect (entries : List (Nat × Nat)) (gw : Option Nat) (req : Option Nat) : Outcome :=
  match req with
  | none => .passErr
  | some a =>
    match lookup entries a with
    | some m => .mac m
    | none => match gw with | some g => .mac g | none => .noMac

/-- the property on an observed run: `obs = none` = the loader refused the file.  The statement speaks about
    files of plainly well-formed lines; on other files it is silent. -/
def holds (lines : List (List Char)) (gw : Option Nat) (reqs : List (Option Nat)) (obs : Option (List Outcome)) : Bool :=
  let says := lines.map lineSays
  if says.all Option.isSome then
    match obs with
    | none => false
    | some outs => outs == reqs.map (expect (says.filterMap id) gw)
  else true

end SxVerif.Spec.ArpCache
