/-
Spec of C08 / C16 / C12 on what is OBSERVED from the real engine, written from the property text, not
from the transition system: per-request counts of probes, output records and error records, and the
order/time facts the harness measures.
-/
namespace SxVerif.Spec.Engine

/-- what a generated target is, as the harness scripted it -/
inductive Kind where
  | result     -- the probe detects a service
  | none       -- the probe finds nothing
  | error      -- the probe fails
  | errReq     -- the generator produced an error entry (bad target line): no probe, one error record
  deriving DecidableEq, Repr

def Kind.ofChar : Char → Option Kind
  | 'r' => some .result | 'n' => some .none | 'e' => some .error | 'x' => some .errReq | _ => Option.none

def probes : Kind → Nat
  | .errReq => 0
  | _ => 1

def records : Kind → Nat
  | .result => 1
  | _ => 0

def errors : Kind → Nat
  | .error | .errReq => 1
  | _ => 0

/-- observation of one complete (uncancelled) scan -/
structure Obs where
  sc : List Nat          -- per target: number of `Scan` calls
  pr : List Nat          -- per target: number of output records
  er : List Nat          -- per target: number of error records
  fifo : Option Bool     -- records were printed in the order they were handed to `Put` (if measured)
  doneok : Bool          -- when completion was signalled every probe had returned
  conc : Bool            -- never more than W probes at once
  ret : Bool             -- the scan call returned
  early : Bool           -- it returned / cancelled before completion + exit delay
  panic : Bool
  deriving Repr

/-- C08 on a complete run: each target probed exactly once (error entries never), each detection
    exactly one record, each failure exactly one error record, completion after all probes, everything
    printed before return, which is not before the exit delay is over. -/
def holds (kinds : List Kind) (o : Obs) : Bool :=
  o.sc == kinds.map probes && o.pr == kinds.map records && o.er == kinds.map errors &&
  o.fifo != some false && o.doneok && o.conc && o.ret && !o.early && !o.panic

/-- the early-return path of `Start` (the generator refuses the range): one error, no probe, completion -/
def holdsGenErr (o : Obs) : Bool :=
  o.sc == [] && o.pr == [] && o.er == [1] && o.doneok && o.ret && !o.early && !o.panic

/-! ### C16: exit delay -/

structure DelayObs where
  delay : Nat                   -- configured exit delay (ms)
  slack : Nat                   -- tolerated lateness (ms), generous
  results : List (Nat × Nat)    -- (ms after completion at which the reply arrives, id)
  parent : Option Nat           -- Ctrl-C at this many ms after completion
  tCancel : Nat                 -- ms after completion at which the engine saw its ctx cancelled
  tRet : Nat                    -- ms after completion at which the scan call returned
  printed : List Nat            -- ids of the records in the output, in order
  lines : Bool                  -- output is a sequence of complete records
  ret : Bool
  panic : Bool
  deriving Repr

/-- replies that arrive clearly inside the delay (the harness keeps away from the boundary) -/
def DelayObs.due (o : DelayObs) : List Nat :=
  -- A Ctrl-C inside the delay may drop records that are still queued (the logger's select may take the
  -- ctx branch: C12 only promises complete records, and C16's theorem is for runs without Ctrl-C), so
  -- replies are DUE only when the delay ran its course.  The margin to the end of the delay is 20 %,
  -- at least 120 ms (scheduling under load).
  match o.parent with
  | some p => if p < o.delay then [] else
      (o.results.filter fun (t, _) => 10 * t ≤ 8 * o.delay && t + 120 ≤ o.delay).map (·.2)
  | none => (o.results.filter fun (t, _) => 10 * t ≤ 8 * o.delay && t + 120 ≤ o.delay).map (·.2)

def subsetOnce (a b : List Nat) : Bool := a.all fun x => a.count x == 1 && b.contains x

def holdsDelay (o : DelayObs) : Bool :=
  o.ret && !o.panic && o.lines &&
  -- not before the delay is over, unless the parent fired (then not before the parent)
  (match o.parent with
   | some p => (if p < o.delay then p ≤ o.tCancel + 1 else o.delay ≤ o.tCancel + 1)
   | none => o.delay ≤ o.tCancel + 1) &&
  -- … and then it does exit, within bounded time
  (let limit := match o.parent with
     | some p => min p o.delay
     | none => o.delay
   o.tCancel ≤ limit + o.slack && o.tRet ≤ limit + o.slack && o.tCancel ≤ o.tRet + 1) &&
  -- every reply inside the delay is reported; nothing is reported twice or invented
  o.due.all (fun v => o.printed.contains v) &&
  subsetOnce o.printed (o.results.map (·.2))

/-! ### C12: cancellation -/

structure CancelObs where
  kinds : List Kind
  sc : List Nat
  pr : List Nat
  er : List Nat
  tRet : Nat          -- ms between the cancellation and the return of the scan call
  bound : Nat         -- ms allowed (longest probe latency + generous slack)
  lines : Bool        -- output is a sequence of complete records
  outIds : List Nat   -- ids parsed from the output lines
  ret : Bool
  panic : Bool
  deriving Repr

def le2 (f : Kind → Nat) : List Kind → List Nat → Bool
  | [], [] => true
  | k :: ks, n :: ns => n ≤ f k && le2 f ks ns
  | _, _ => false

/-- under cancellation nothing may be lost silently *before* it was produced twice or invented: every
    count stays within the complete-run count, a record implies its probe, the call returns in time,
    no crash, only complete records -/
def holdsCancel (o : CancelObs) : Bool :=
  o.ret && !o.panic && o.lines && o.tRet ≤ o.bound &&
  le2 probes o.kinds o.sc && le2 records o.kinds o.pr && le2 errors o.kinds o.er &&
  (List.zip o.pr o.sc).all (fun (p, s) => p ≤ s) &&
  (List.zip (List.zip o.kinds o.er) o.sc).all (fun ((k, e), s) => k == .errReq || e ≤ s) &&
  o.pr == (List.range o.kinds.length).map (fun i => o.outIds.count i)

end SxVerif.Spec.Engine
