/-
Spec of the payload syntax (C18): Go's interpreted-string escapes, written as "tokenise, then map each
token through a table" — a different arrangement from the byte loop in `Model/Parse.lean`.
-/
import SxVerif.Model.Parse

namespace SxVerif.Spec.Payload
open SxVerif.Parse

inductive Tok where
  | lit (c : Char)                 -- an ordinary byte
  | simple (c : Char)              -- \a \b \f \n \r \t \v \\ \"
  | hex (digits : List Char)       -- \xHH
  | oct (digits : List Char)       -- \ooo
  | uni (digits : List Char)       -- \uXXXX, \UXXXXXXXX
  | bad
  deriving Repr, DecidableEq

def tokenize : Nat → List Char → List Tok
  | 0, _ => [.bad]
  | _, [] => []
  | f + 1, '\\' :: 'x' :: a :: b :: r => .hex [a, b] :: tokenize f r
  | f + 1, '\\' :: 'u' :: a :: b :: c :: d :: r => .uni [a, b, c, d] :: tokenize f r
  | f + 1, '\\' :: 'U' :: a :: b :: c :: d :: e :: g :: h :: i :: r => .uni [a, b, c, d, e, g, h, i] :: tokenize f r
  | f + 1, '\\' :: e :: r =>
    if "abfnrtv\\\"".toList.contains e then .simple e :: tokenize f r
    else if '0' ≤ e && e ≤ '7' then
      match r with
      | a :: b :: r' => .oct [e, a, b] :: tokenize f r'
      | _ => [.bad]
    else [.bad]
  | _, ['\\'] => [.bad]
  | f + 1, c :: r => if c == '"' || c == '\n' then [.bad] else .lit c :: tokenize f r

def simpleTable : List (Char × Nat) :=
  [('a', 7), ('b', 8), ('f', 12), ('n', 10), ('r', 13), ('t', 9), ('v', 11), ('\\', 92), ('"', 34)]

def numeral (base : Nat) (ds : List Char) : Option Nat :=
  ds.foldl (fun acc c => match acc, hexVal c with
    | some v, some d => if d < base then some (v * base + d) else none
    | _, _ => none) (some 0)

def tokBytes : Tok → Option (List Char)
  | .lit c => some [c]
  | .simple c => (simpleTable.find? (·.1 == c)).map (fun e => [Char.ofNat e.2])
  | .hex ds => (numeral 16 ds).map (fun v => [Char.ofNat v])
  | .oct ds => (numeral 8 ds).bind (fun v => if v ≤ 255 then some [Char.ofNat v] else none)
  | .uni ds => (numeral 16 ds).bind (fun v => if validRune v then some (encodeRune v) else none)
  | .bad => none

/-- the bytes a payload string denotes; `none` = not a payload (bad escape, raw quote/newline, or not
    UTF-8 text) -/
def denote (p : List Char) : Option (List Char) :=
  if !validUTF8 p then none
  else ((tokenize (p.length + 1) p).mapM tokBytes).map List.flatten

end SxVerif.Spec.Payload
