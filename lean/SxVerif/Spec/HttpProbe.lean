/-
Spec of C10, written from the property statement, not from the code.

"An endpoint is reported by the elastic scan iff it answered GET / over the chosen scheme with a body that
parses as a JSON object, and by the docker scan iff its /info API call succeeded with a JSON object; the
record's host, port and scheme are those of the probed target, and a failing secondary request never
suppresses or falsifies the record.  For every server behaviour … each probe ends within its configured
timeout per request (plus slack) with an error or no record."

Readings fixed here (each one is a judgement, recorded in the registry entry):
* "it answered": the PROBED TARGET's own answer, i.e. the first hop of the exchange.  A redirect to
  another endpoint is an answer of the target (a 30x response with its own body), the body served by the
  other endpoint is not.
* "a body that parses as a JSON object": the whole body is one JSON text (RFC 8259: ws value ws) whose
  value is an object.  `null`, arrays, scalars, truncated or non-JSON text, an object followed by anything
  but white space, and a body that never ends are not.  204 / 304 answers have no body.
* elastic: the status code is not part of the statement (a 404 with an object body counts).
* docker: "its /info API call succeeded" = the answer has a status the API client counts as success
  (200..399) and the object fits the API's `Info` schema.
* "answered" means: before the deadline that applies to the request (elastic: per request; docker: one
  deadline per probe, the negotiation ping comes first).
-/
import SxVerif.Model.HttpProbe

namespace SxVerif.Spec.HttpProbe
open SxVerif.HttpProbe

/-- slack added to the measured duration (scheduling, TLS handshakes, loopback latency), in ms -/
def slack : Nat := 400

def isJsonObject : BodyClass → Bool
  | .object | .objectEmpty | .objectWs | .objectIllTyped => true
  | _ => false

def fitsSchema : BodyClass → Bool
  | .objectIllTyped => false
  | _ => true

def hasBody (status : Nat) : Bool := 200 ≤ status && status != 204 && status != 304

/-- the body, as a whole, parses as a JSON object -/
def bodyIsObject (status : Nat) (s : Stream) : Bool :=
  hasBody status && isJsonObject s.cls && s.ending == .eof

def shown (s : Stream) : Field :=
  if s.cls == .objectEmpty then .obj none else .obj (some s.id)

/-- elastic: what the target served for a request, if it is a JSON object delivered before the
    deadline `T` (time `t0` already spent) -/
def servedObject (T t0 : Nat) : Exchange → Option Field
  | .resp _ status delay body :: _ =>
    if t0 + delay < T && bodyIsObject status body then some (shown body) else none
  | _ => none

/-- docker records hold typed structs: `{}` shows as the zero struct (`.null`) -/
def shownStruct (s : Stream) : Field :=
  if s.cls == .objectEmpty then .null else .obj (some s.id)

def apiSuccess (status : Nat) : Bool := 200 ≤ status && status < 400

/-- docker: the same, for an API call -/
def servedApiObject (T t0 : Nat) : Exchange → Option Field
  | .resp _ status delay body :: _ =>
    if t0 + delay < T && apiSuccess status && bodyIsObject status body && fitsSchema body.cls
    then some (shownStruct body) else none
  | _ => none

/-- the JSON object the target itself SENT first in answer to a request, whatever follows it and whatever
    the status: the weakest reading of "a secondary request never falsifies the record" — a secondary
    value that is shown was sent by the probed target (not by another endpoint, not invented) -/
def sentObject (struct : Bool) : Exchange → Option Field
  | .resp _ status _ body :: _ =>
    if hasBody status && (isJsonObject body.cls || body.cls == .objectTrailing)
    then some (if struct then shownStruct body else shown body) else none
  | _ => none

/-- the secondary value never falsifies the record: it is absent or what the target sent -/
def secondOk (sent : Option Field) (f : Field) : Bool :=
  f == .null || sent == some f

/-- observers of a scan outcome -/
def reported : ScanOut → Bool
  | .record _ => true
  | .err => false

/-- decision + primary fields (scheme, host:port, main info) -/
def primary : ScanOut → Option (String × String × Field)
  | .record r => some (r.proto, r.host, r.info)
  | .err => none

def elasticHolds (scheme ip : String) (T : Nat) (x1 x2 : Exchange) (obs : ScanOut) (ms : Nat) : Bool :=
  match obs, servedObject T 0 x1 with
  | .err, none => ms ≤ T + slack
  | .record r, some f =>
    r.proto == scheme && r.host == ip ++ ":P" && r.info == f && secondOk (sentObject false x2) r.second
      && ms ≤ 2 * T + slack
  | _, _ => false

/-- time at which the version negotiation that precedes the first API call is over (HEAD /_ping, then
    GET /_ping unless the HEAD was answered 200 or 500); only what the target does matters -/
def negotiationEnd (T : Nat) : Exchange → Nat
  | .resp _ status delay body :: _ =>
    if T ≤ delay then T
    else if status == 200 || status == 500 then delay
    else if T ≤ 2 * delay then T
    else if body.ending == .stall && hasBody status then T
    else 2 * delay
  | .hstall :: _ | .phstall :: _ => T
  | _ => 0

def dockerHolds (scheme ip : String) (T : Nat) (ping info ver : Exchange) (obs : ScanOut) (ms : Nat) : Bool :=
  let t0 := negotiationEnd T ping
  match obs, servedApiObject T t0 info with
  | .err, none => ms ≤ T + slack
  | .record r, some f =>
    r.proto == scheme && r.host == "tcp://" ++ ip ++ ":P" && r.info == f
      && secondOk (sentObject true ver) r.second
      && ms ≤ T + slack
  | _, _ => false

end SxVerif.Spec.HttpProbe
