/-
Spec side of C04, executable: what an observed output of the iterator must look like.
Independent of the model: it only looks at the list of numbers that came out.
-/
namespace SxVerif.Spec.RangeIter

/-- `l` is a rearrangement of `1..n` (decided by sorting) -/
def isPerm1N (l : List Nat) (n : Nat) : Bool :=
  let a := l.toArray.qsort (· < ·)
  a.size == n && (List.range n).all (fun i => a[i]! == i + 1)

/-- a prefix of such a rearrangement: all in range, no repeats -/
def isPrefix1N (l : List Nat) (n : Nat) : Bool :=
  let a := l.toArray.qsort (· < ·)
  l.all (fun v => 1 ≤ v && v ≤ n) &&
  (List.range (a.size - 1)).all (fun i => a[i]! < a[i+1]!)

end SxVerif.Spec.RangeIter
