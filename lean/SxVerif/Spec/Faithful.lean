/-
Spec side of C06: what a record of a given scan must be, given the frame it was emitted for.
(Separate from `Spec/Frame.lean` because it mentions the processors' `Scan` / `Record` types.)
-/
import SxVerif.Model.Proc
import SxVerif.Spec.Frame

namespace SxVerif.Spec.Frame
open SxVerif.Frame SxVerif.Proc

/-- what a record of scan `scan` must be, given the frame it was emitted for: the frame contains the
    scan's header chain and every field of the record is read from that frame -/
def Faithful (scan : Scan) (f : Bytes) (r : Record) : Prop :=
  match scan with
  | .tcp cfg => ∃ v, tcpChain cfg.vpn f = some v ∧
      r = .tcp cfg.scanType v.src v.sport (match cfg.flagsFn with | .allFlags => allFlags v.flags | .empty => "") ∧
      (cfg.filter = .synack → bit v.flags 0x02 = true ∧ bit v.flags 0x10 = true) ∧ v.src.length = 4
  | .icmp name vpn => ∃ v, icmpChain vpn f = some v ∧ r = .icmp name v.src v.ttl v.typ v.code ∧ v.src.length = 4
  | .arp => ∃ v, arpChain f = some v ∧ r = .arp v.ip v.mac ∧ v.ip.length = 4 ∧ v.mac.length = 6

end SxVerif.Spec.Frame
