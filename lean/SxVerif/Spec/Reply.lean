/-
Spec side of C03 — "a frame is reported iff it is a reply-shaped frame".

Everything here is a predicate / function of the *bytes of one frame*, the scanned range and the kind of
scan; no decoder state, no layer loop, no BPF.  It reuses the flat, offset-defined header chains of
`Spec/Frame.lean` (RFC 791 / 793 / 792 / 826).

* `WellFormedUnfragmented kind vpn f` — the hypotheses "unfragmented well-formed frame" of the property for
  a frame of the scanned protocol: Ethernet II (or raw IPv4 in vpn mode) → IPv4 (version 4, IHL ≥ 5, lengths
  consistent, options a well-delimited list, MF clear and fragment offset 0) → TCP (data offset ≥ 5 within
  the datagram, options well-delimited) or → ICMP (8 bytes), or Ethernet → ARP(1, 0x0800, 6, 4).
  Spec decisions (DESIGN §7 C03, recorded so that they are not tuned later): (c) an IPv4 TLV option of length
  exactly 2 (no data; IANA defines none) is not well-formed — gopacket refuses it; (d) trailing link-layer
  padding is allowed; total length 0 (segmentation offload) and a datagram cut short by the capture are
  read as in `Spec/Frame.lean`.
* `Shape kind range vpn f` — the reply shape proper: source address inside the target subnet when one was
  given, source port inside one of the port ranges being scanned when ports were given, byte 13 of the TCP
  header exactly 0x12 for the SYN scan (decision (a): NS is not one of "the flags SYN+ACK"), ICMP type ≠ 8.
* `fieldsOf name kind vpn f` — the record such a frame must produce (decision (b): the SYN-scan record
  carries no flag letters; the other TCP scans carry all nine, order `s a f r p u e c n`).
* `ReplyShape = WellFormedUnfragmented ∧ Shape`; `replyRecord` = `fieldsOf` when `ReplyShape`, else nothing.
-/
import SxVerif.Model.Bpf
import SxVerif.Model.Proc
import SxVerif.Model.Wiring
import SxVerif.Spec.Frame

namespace SxVerif.Spec.Reply
open SxVerif.Frame (Bytes u8 u16)
open SxVerif.Spec.Frame
open SxVerif.Bpf (Net Range)
open SxVerif.Proc (Record allFlags)

/-- what a scan listens for -/
inductive Kind where
  | tcp (synOnly : Bool)     -- `synOnly`: the SYN scan (exactly SYN+ACK, no flag letters printed)
  | icmp                     -- icmp and udp scans
  | arp
  deriving Repr, DecidableEq, Inhabited

/-- what each command listens for, from the property text: "ARP; TCP; ICMP other than echo-request for icmp
    and udp scans … and for the SYN scan exactly the flags SYN+ACK" -/
def kindOf : SxVerif.Wiring.Cmd → Kind
  | .arp => .arp
  | .icmp => .icmp
  | .udp => .icmp
  | .tcpSyn => .tcp true
  | .tcpFin => .tcp false
  | .tcpNull => .tcp false
  | .tcpXmas => .tcp false
  | .tcpFlags => .tcp false

/-- big-endian value of a byte string -/
def be (b : Bytes) : Nat := b.foldl (fun acc x => acc * 256 + x.toNat) 0

/-- the address lies in the network: equal prefixes of `bits` bits -/
def inSubnet (n : Net) (src : Bytes) : Bool := be src / 2 ^ (32 - n.bits) == n.addr / 2 ^ (32 - n.bits)

def subnetOK (r : Range) (src : Bytes) : Bool :=
  match r.subnet with
  | none => true
  | some n => inSubnet n src

def portOK (r : Range) (p : Nat) : Bool :=
  r.ports.isEmpty || r.ports.any (fun pr => decide (pr.1 ≤ p) && decide (p ≤ pr.2))

/-- an IPv4 option list without data-less TLV options (decision (c)): kind 0 ends the list, kind 1 is one
    byte, any other kind carries a length ≥ 3 that fits -/
def ipOptionsStrict : Nat → Bytes → Bool
  | 0, _ => false
  | _, [] => true
  | fuel + 1, k :: rest =>
    if k.toNat = 0 then true
    else if k.toNat = 1 then ipOptionsStrict fuel rest
    else match rest with
      | [] => false
      | l :: _ => 3 ≤ l.toNat && l.toNat ≤ rest.length + 1 && ipOptionsStrict fuel ((k :: rest).drop l.toNat)

/-- the IPv4 options of the frame (if it has an IPv4 header at the link layer's payload offset) -/
def ipOptsWF (vpn : Bool) (f : Bytes) : Bool :=
  match ipOffset vpn f with
  | none => true
  | some o =>
    match u8 f o with
    | none => true
    | some b0 =>
      let opts := (f.drop (o + 20)).take (b0 % 16 * 4 - 20)
      ipOptionsStrict (opts.length + 1) opts

def WellFormedUnfragmented (k : Kind) (vpn : Bool) (f : Bytes) : Bool :=
  match k with
  | .tcp _ => (tcpChain vpn f).isSome && ipOptsWF vpn f
  | .icmp => (icmpChain vpn f).isSome && ipOptsWF vpn f
  | .arp => (arpChain f).isSome

def Shape (k : Kind) (r : Range) (vpn : Bool) (f : Bytes) : Bool :=
  match k with
  | .tcp synOnly =>
    match tcpChain vpn f with
    | none => false
    | some v => subnetOK r v.src && portOK r v.sport && (!synOnly || v.flags % 256 == 0x12)
  | .icmp =>
    match icmpChain vpn f with
    | none => false
    | some v => subnetOK r v.src && v.typ != 8
  | .arp =>
    match arpChain f with
    | none => false
    | some v => subnetOK r v.ip

def ReplyShape (k : Kind) (r : Range) (vpn : Bool) (f : Bytes) : Bool :=
  WellFormedUnfragmented k vpn f && Shape k r vpn f

/-- the record a frame of the scanned protocol must produce; `name` is the scan name the command prints
    (the property does not fix it) -/
def fieldsOf (name : String) (k : Kind) (vpn : Bool) (f : Bytes) : Option Record :=
  match k with
  | .tcp synOnly =>
    (tcpChain vpn f).map (fun v => .tcp name v.src v.sport (if synOnly then "" else allFlags v.flags))
  | .icmp => (icmpChain vpn f).map (fun v => .icmp name v.src v.ttl v.typ v.code)
  | .arp => (arpChain f).map (fun v => .arp v.ip v.mac)

/-- what must be reported for a frame: its record when it is reply-shaped, nothing otherwise -/
def replyRecord (name : String) (k : Kind) (r : Range) (vpn : Bool) (f : Bytes) : Option Record :=
  if ReplyShape k r vpn f then fieldsOf name k vpn f else none

/-- ranges the commands can hand to a filter function: a network address without host bits (what
    `net.ParseCIDR` returns), prefix ≤ 32, 16-bit ports with `lo ≤ hi` (the port generator refuses other
    ranges, `pkg/scan/request.go` `validatePorts`) -/
def RangeOK (r : Range) : Bool :=
  (match r.subnet with
   | none => true
   | some n => decide (n.bits ≤ 32) && decide (n.addr < 4294967296) && n.addr % 2 ^ (32 - n.bits) == 0) &&
  r.ports.all (fun pr => decide (pr.1 ≤ pr.2) && decide (pr.2 ≤ 65535))

/-- segmentation offload beyond 16 bits: the frame's IPv4 header (at the link layer's payload offset) has total
    length 0 and 65536 or more bytes follow from that header on.  `Spec/Frame.lean` reads "the datagram is whatever
    was captured" modulo 65536 for such a frame (as gopacket's `uint16(len(data))` does), so for it — and only for
    it — well-formedness of the whole frame and of its captured prefix can differ.  Never true of an ARP scan. -/
def offloadWrap (k : Kind) (vpn : Bool) (f : Bytes) : Bool :=
  match k with
  | .arp => false
  | _ =>
    match ipOffset vpn f with
    | none => false
    | some o => u16 f (o + 2) == some 0 && decide (65536 ≤ f.length - o)

end SxVerif.Spec.Reply
