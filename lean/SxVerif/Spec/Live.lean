/-
Spec of C19, written from the property statement and not from the model: a predicate on what a
consumer of the live generator and the (scripted) delegate *observe*.

"In live mode the scan consists of consecutive complete passes: each pass probes every address of the
target exactly once, the next pass starts no earlier than the configured rescan interval after the
previous one ended, passes keep coming until the scan is cancelled, and cancellation ends the stream.
A pass that fails to start does not end live mode with a crash or a busy loop."

Core Lean only; shares nothing with `Model/Live.lean`.
-/
namespace SxVerif.Spec.Live

/-- a scripted delegate: call `k` delivers `n` requests (`some n`) or fails to start (`none`);
    calls beyond the script deliver empty passes -/
abbrev Script := List (Option Nat)

def passLen (sc : Script) (k : Nat) : Option Nat := sc.getD k (some 0)

/-- where the scan is cancelled (the harness realises each kind deterministically) -/
inductive Cancel where
  | afterItems (n : Nat)   -- right after the consumer received its `n`-th request
  | blocked (n : Nat)      -- the consumer stops after `n` requests; cancelled while the generator is blocked on it
  | inWait (k : Nat)       -- after `k` passes have ended and been received, during the rescan wait
  | afterFail (ms : Nat)   -- `ms` milliseconds after the first failing call of the delegate returned
  deriving Repr, DecidableEq

structure Obs where
  startErr : Bool                 -- `GenerateRequests` itself returned an error
  out : List (Nat × Nat)          -- (pass, index) of every request received from `out`, in order
  calls : Nat                     -- calls of the delegate
  closed : Bool                   -- `out` was seen closed within the harness deadline after the cancel
  starts : List Nat               -- time of each delegate call
  ends : List (Option Nat)        -- time at which each pass's channel was closed by the delegate
  deriving Repr, DecidableEq

/-- requests of pass `k` -/
def passItems (k n : Nat) : List (Nat × Nat) := (List.range n).map (fun i => (k, i))

/-- index of the first pass that fails to start, if any -/
def firstFail (sc : Script) : Option Nat := sc.findIdx? (· == none)

/-- the stream a live scan may deliver: pass 0 ++ pass 1 ++ …, up to the first pass that fails to start -/
def stream : Nat → Script → List (Nat × Nat)
  | _, [] => []
  | _, none :: _ => []
  | k, some n :: rest => passItems k n ++ stream (k + 1) rest

def total : Script → Nat
  | [] => 0
  | none :: _ => 0
  | some n :: rest => n + total rest

/-- number of requests that were certainly delivered before the cancellation -/
def delivered (sc : Script) : Cancel → Nat
  | .afterItems n => n
  | .blocked n => n
  | .inWait k => total (sc.take k)
  | .afterFail _ => total sc

/-- index + 1 of the pass that contains the `m`-th request (counting from pass `k`) -/
def passOfItem : Nat → Nat → Script → Nat
  | k, _, [] => k + 1
  | k, _, none :: _ => k + 1
  | k, m, some len :: rest => if m ≤ len then k + 1 else passOfItem (k + 1) (m - len) rest

/-- number of delegate calls that certainly happened before the cancellation ("passes keep coming") -/
def minCalls (sc : Script) : Cancel → Nat
  | .inWait k => k
  | .afterFail _ => (firstFail sc).getD 0 + 1
  | .afterItems n => passOfItem 0 n sc
  | .blocked n => passOfItem 0 n sc

def isSublist [BEq α] : List α → List α → Bool
  | [], _ => true
  | _ :: _, [] => false
  | a :: as, b :: bs => if a == b then isSublist as bs else isSublist (a :: as) bs

/-- timing: every call comes at least `rescan` after the previous call (no busy loop, also after a
    failed pass), and a call that follows a started pass comes at least `rescan` after that pass
    ended — which it must have.  Lower bounds only. -/
def timingOK (sc : Script) (rescan : Nat) (o : Obs) : Bool :=
  o.starts.length == o.calls && o.ends.length == o.calls &&
  (List.range (o.calls - 1)).all (fun j =>
    let sj := o.starts.getD j 0
    let sj1 := o.starts.getD (j + 1) 0
    decide (sj + rescan ≤ sj1) &&
    (match passLen sc j with
     | none => true
     | some _ =>
       match o.ends.getD j none with
       | none => false
       | some e => decide (sj ≤ e) && decide (e + rescan ≤ sj1)))

/-- the whole property as a predicate on what was observed -/
def holds (sc : Script) (rescan : Nat) (c : Cancel) (o : Obs) : Bool :=
  match passLen sc 0 with
  | none => o.startErr && o.out.isEmpty          -- nothing was started; the caller gets the error
  | some _ =>
    let want := stream 0 sc
    let n := delivered sc c
    !o.startErr &&
    -- complete passes, whole and in order, up to the cancel point
    decide (n ≤ o.out.length) && o.out.take n == want.take n &&
    -- whatever trickles out after the cancel is not invented, repeated or reordered
    isSublist (o.out.drop n) (want.drop n) &&
    -- passes keep coming until the cancel
    decide (minCalls sc c ≤ o.calls) &&
    -- rescan interval respected; no busy loop
    timingOK sc rescan o &&
    -- cancellation ends the stream
    o.closed

end SxVerif.Spec.Live
