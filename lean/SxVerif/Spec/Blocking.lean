/-
The hand-written side of the blocking-operation inventory: every operation of `Generated.blockingOps` that the
context does not guard, with the reason why it does not keep a cancelled scan from returning
(`Model/Blocking.lean` explains the reasons).  `Props/C12.lean` proves that this table is exactly the unguarded
part of the regenerated inventory: nothing in the tree blocks without being listed here.
-/
import SxVerif.Model.Blocking

namespace SxVerif.Blocking

def accounted : List (BlockOp × Reason) := [
  (⟨"command/config.go", "newIPFileOpener", "go", "func", "none"⟩, .spawn),
  (⟨"command/config.go", "stdinReader.Read", "recv", "s.in.loaded", "none"⟩, .inputRead),
  (⟨"command/log/unique_logger.go", "UniqueLogger.uniqResults", "go", "func", "none"⟩, .spawn),
  (⟨"command/root.go", "lockedPacketMethod.ProcessPacketData", "call", "m.mu.Lock", "none"⟩, .boundedSection),
  (⟨"command/root.go", "startScanEngine", "call", "wg.Wait", "none"⟩, .awaitsAccounted),
  (⟨"command/root.go", "startScanEngine", "go", "func", "none"⟩, .spawn),
  (⟨"command/root.go", "startScanEngine", "go", "func", "none"⟩, .spawn),
  (⟨"command/root.go", "startScanEngine", "go", "func", "none"⟩, .spawn),
  (⟨"command/root.go", "startScanEngine", "range", "errc", "none"⟩, .closesBehind),
  (⟨"command/root.go", "startScanEngine", "recv", "done", "none"⟩, .closesBehind),
  (⟨"command/root.go", "startScanEngine", "recv", "time.After(conf.exitDelay)", "none"⟩, .exitDelay),
  (⟨"pkg/packet/afpacket/readwriter.go", "Source.Close", "call", "s.mu.Lock", "none"⟩, .boundedSection),
  (⟨"pkg/packet/afpacket/readwriter.go", "Source.ReadPacketData", "call", "s.mu.Lock", "none"⟩, .boundedSection),
  (⟨"pkg/packet/afpacket/readwriter.go", "Source.SetBPFFilter", "call", "s.mu.Lock", "none"⟩, .boundedSection),
  (⟨"pkg/packet/readwriter.go", "rateLimitReadWriter.WritePacketData", "call", "rw.limiter.Take", "none"⟩, .abandoned),
  (⟨"pkg/packet/receiver.go", "receiver.ReceivePackets", "call", "time.Sleep", "none"⟩, .boundedSleep),
  (⟨"pkg/packet/receiver.go", "receiver.ReceivePackets", "go", "func", "none"⟩, .spawn),
  (⟨"pkg/packet/sender.go", "sender.SendPackets", "go", "func", "none"⟩, .spawn),
  (⟨"pkg/packet/sender.go", "sender.SendPackets", "send", "errc", "none"⟩, .abandoned),
  (⟨"pkg/packet/sender.go", "sender.SendPackets", "send", "errc", "none"⟩, .abandoned),
  (⟨"pkg/packet/sender.go", "sender.SendPackets", "send", "errc", "none"⟩, .abandoned),
  (⟨"pkg/scan/arp/cache.go", "Cache.Delete", "call", "c.mu.Lock", "none"⟩, .boundedSection),
  (⟨"pkg/scan/arp/cache.go", "Cache.Get", "call", "c.mu.RLock", "none"⟩, .boundedSection),
  (⟨"pkg/scan/arp/cache.go", "Cache.Put", "call", "c.mu.Lock", "none"⟩, .boundedSection),
  (⟨"pkg/scan/arp/cache.go", "cacheReqGenerator.GenerateRequests", "go", "func", "none"⟩, .spawn),
  (⟨"pkg/scan/arp/cache.go", "cacheReqGenerator.GenerateRequests", "range", "requests", "none"⟩, .closesBehind),
  (⟨"pkg/scan/arp/cache.go", "cacheReqGenerator.GenerateRequests", "send", "result", "none"⟩, .abandoned),
  (⟨"pkg/scan/engine.go", "GenericEngine.Start", "call", "wg.Wait", "none"⟩, .awaitsAccounted),
  (⟨"pkg/scan/engine.go", "GenericEngine.Start", "go", "e.worker", "none"⟩, .spawn),
  (⟨"pkg/scan/engine.go", "GenericEngine.Start", "go", "func", "none"⟩, .spawn),
  (⟨"pkg/scan/engine.go", "GenericEngine.Start", "send", "errc", "none"⟩, .roomReserved),
  (⟨"pkg/scan/engine.go", "mergeErrChan", "call", "wg.Wait", "none"⟩, .awaitsAccounted),
  (⟨"pkg/scan/engine.go", "mergeErrChan", "go", "func", "none"⟩, .spawn),
  (⟨"pkg/scan/engine.go", "mergeErrChan", "go", "multiplex", "none"⟩, .spawn),
  (⟨"pkg/scan/engine.go", "packetSource.Packets", "send", "out", "none"⟩, .roomReserved),
  (⟨"pkg/scan/engine.go", "rateLimitScanner.Scan", "call", "s.limiter.Take", "none"⟩, .awaitedAgainstCtx),
  (⟨"pkg/scan/engine.go", "rateLimitScanner.Scan", "go", "func", "none"⟩, .spawn),
  (⟨"pkg/scan/generator.go", "MergeBufferDataChan", "call", "wg.Wait", "none"⟩, .awaitsAccounted),
  (⟨"pkg/scan/generator.go", "MergeBufferDataChan", "go", "func", "none"⟩, .spawn),
  (⟨"pkg/scan/generator.go", "MergeBufferDataChan", "go", "multiplex", "none"⟩, .spawn),
  (⟨"pkg/scan/generator.go", "packetGenerator.Packets", "go", "func", "none"⟩, .spawn),
  (⟨"pkg/scan/request.go", "fileIPGenerator.IPs", "go", "func", "none"⟩, .spawn),
  (⟨"pkg/scan/request.go", "fileIPPortGenerator.GenerateRequests", "go", "func", "none"⟩, .spawn),
  (⟨"pkg/scan/request.go", "filterIPRequestGenerator.GenerateRequests", "go", "func", "none"⟩, .spawn),
  (⟨"pkg/scan/request.go", "ipGenerator.IPs", "go", "func", "none"⟩, .spawn),
  (⟨"pkg/scan/request.go", "ipPortGenerator.GenerateRequests", "go", "func", "none"⟩, .spawn),
  (⟨"pkg/scan/request.go", "ipPortGenerator.GenerateRequests", "range", "ips", "none"⟩, .closesBehind),
  (⟨"pkg/scan/request.go", "ipPortGenerator.GenerateRequests", "range", "ports", "none"⟩, .closesBehind),
  (⟨"pkg/scan/request.go", "ipRequestGenerator.GenerateRequests", "go", "func", "none"⟩, .spawn),
  (⟨"pkg/scan/request.go", "ipRequestGenerator.GenerateRequests", "range", "ips", "none"⟩, .closesBehind),
  (⟨"pkg/scan/request.go", "liveRequestGenerator.GenerateRequests", "go", "func", "none"⟩, .spawn),
  (⟨"pkg/scan/request.go", "portGenerator.Ports", "go", "func", "none"⟩, .spawn),
  (⟨"pkg/scan/result.go", "NewResultChan", "go", "copyChans", "none"⟩, .spawn),
  (⟨"pkg/scan/socks5/socks5.go", "Scanner.Scan", "go", "func", "none"⟩, .spawn)]

end SxVerif.Blocking
