/-
Spec of C07, written from the property statement: what must be observable at a recording writer and on
the error stream for a given request list, independent of how the pipeline is built.

  * the multiset of frames written = the multiset of frames built for the error-free requests, byte for byte
  * every failed request, build or write yields exactly one error on the error stream (plus whatever the
    receiver reported)
  * completion (`done`) is signalled only after the last frame has been handed to the wire
  * (observability) the bytes handed to the writer do not change while the writer holds them

Core Lean only.
-/
import SxVerif.Model.Pipe

namespace SxVerif.Spec.Pipe
open SxVerif.Pipe

/-- an error as seen on the stream, by its cause -/
inductive Cause where
  | request (id : Nat)     -- the request itself was an error request
  | build (id : Nat)       -- building the frame failed
  | wire (frame : Bytes)   -- handing this frame to the wire failed
  | receiver (k : Nat)
  | unknown (msg : String)
  deriving DecidableEq, Repr

/-- one request of the input: what it is, the frame that must be built for it, whether the wire refuses it -/
structure Item where
  id : Nat
  kind : Kind
  frame : Bytes
  wireFails : Bool
  deriving Repr

structure Observed where
  written : List Bytes
  errors : List Cause
  doneAfterLastWrite : Bool
  errClosed : Bool
  stable : Bool
  deriving Repr

def expectedFrames (items : List Item) : List Bytes :=
  (items.filter (·.kind = .ok)).map (·.frame)

def expectedErrors (items : List Item) (rcvK : Nat) : List Cause :=
  items.filterMap (fun it =>
    match it.kind with
    | .reqErr => some (.request it.id)
    | .fillErr => some (.build it.id)
    | .ok => if it.wireFails then some (.wire it.frame) else none)
  ++ (List.range rcvK).map .receiver

def nibble (n : Nat) : Char :=
  if n < 10 then Char.ofNat (48 + n) else Char.ofNat (87 + n)

/-- a printable key that identifies a byte string -/
def bytesKey (bs : Bytes) : String :=
  String.ofList (bs.foldr (fun b acc => nibble (b.toNat / 16) :: nibble (b.toNat % 16) :: acc) [])

def causeKey : Cause → String
  | .request id => s!"req:{id}"
  | .build id => s!"fill:{id}"
  | .wire f => s!"write:{bytesKey f}"
  | .receiver k => s!"rcv:{k}"
  | .unknown m => s!"?{m}"

def sortKeys (l : List String) : List String := l.mergeSort (fun a b => !(b < a))

/-- multiset equality (order-free): equal after sorting the keys -/
def sameMultiset (a b : List String) : Bool := sortKeys a == sortKeys b

def holds (items : List Item) (rcvK : Nat) (o : Observed) : Bool :=
  sameMultiset (o.written.map bytesKey) ((expectedFrames items).map bytesKey) &&
  sameMultiset (o.errors.map causeKey) ((expectedErrors items rcvK).map causeKey) &&
  o.doneAfterLastWrite && o.errClosed && o.stable

/-- sub-multiset: every key of `a` occurs in `b` at least as often -/
def subMultiset (a b : List String) : Bool := a.all (fun k => a.count k ≤ b.count k)

/-- cancelled runs (packet side of C12): whenever the cancellation comes, nothing panics, the error stream
    ends (within the bound the harness allows), and what did reach the wire and the error stream before and
    after the cancel is still byte-exact and at most once: a sub-multiset of the frames / errors of the
    uncancelled run; the bytes do not change while the writer holds them -/
def holdsCancel (items : List Item) (rcvK : Nat) (o : Observed) : Bool :=
  subMultiset (o.written.map bytesKey) ((expectedFrames items).map bytesKey) &&
  subMultiset (o.errors.map causeKey) ((expectedErrors items rcvK).map causeKey) &&
  o.errClosed && o.stable

end SxVerif.Spec.Pipe
