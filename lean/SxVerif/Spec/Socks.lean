/-
Spec of C09, written from the property statement (not from the code):

  "A host:port is reported as a SOCKS5 proxy iff the TCP connection succeeded and the first two bytes the
   server sends in reply to the RFC 1928 greeting (05 01 00) are 05 00; the record carries the probed
   address and port.  For every server behaviour the probe finishes within the connect timeout plus three
   data timeouts and otherwise reports nothing or an error, and it ends promptly when the scan is cancelled."

The script vocabulary (`Script`, `DialEv`, …) is shared with the model; everything else here is
independent of it: the reply is described as the sequence of *bytes with their arrival instants*, not as a
read loop.
-/
import SxVerif.Model.Socks

namespace SxVerif.Spec.Socks
open SxVerif.Socks

/-- RFC 1928 §3 reader of a version identifier/method selection message:
    VER, NMETHODS, then exactly NMETHODS method octets -/
def parseGreeting : List UInt8 → Option (UInt8 × List UInt8)
  | v :: n :: ms => if ms.length = n.toNat then some (v, ms) else none
  | _ => none

/-- "the RFC 1928 greeting (05 01 00)" -/
def rfcGreeting : List UInt8 := [5, 1, 0]

/-- instant at which the TCP connection is established and usable, if it is: the handshake completes
    before the connect timeout (0 = no connect timeout) and the socket could be set up -/
def connectedAt (dialT : Dur) (s : Script) : Option Dur :=
  match s.dial with
  | .ok d => if (dialT = 0 ∨ d < dialT) ∧ s.lingerOk then some d else none
  | _ => none

/-- time the greeting takes to be accepted for sending, if it is accepted before the data timeout -/
def greetingSentAfter (dataT : Dur) (s : Script) : Option Dur :=
  match s.write with
  | .ok d => if d < dataT then some d else none
  | _ => none

/-- The reply as the probe can see it: every byte the server sends, with the instant at which it is
    there, up to the first gap of a data timeout or more, end of stream, reset or silence.
    (`t` = instant at which the probe starts waiting for the next chunk.) -/
def arrivals (dataT : Dur) : Dur → List ReadEv → List (UInt8 × Dur)
  | _, [] => []
  | t, .data bs d :: rest =>
    if d < dataT then bs.map (fun b => (b, t + d)) ++ arrivals dataT (t + d) rest else []
  | _, _ :: _ => []

/-- `t` is not after the cancellation -/
def notAfterCancel (cancel : Option Dur) (t : Dur) : Bool :=
  match cancel with
  | some c => t ≤ c
  | none => true

/-- the first two bytes of the server's reply, if the probe gets to see them: connected, greeting sent,
    two bytes arrive — and the scan was not cancelled before the second of them was there -/
def reply (dialT dataT : Dur) (s : Script) : Option (UInt8 × UInt8) :=
  match connectedAt dialT s, greetingSentAfter dataT s with
  | some tc, some tw =>
    match arrivals dataT (tc + tw) s.reads with
    | (a, _) :: (b, t2) :: _ => if notAfterCancel s.cancel t2 then some (a, b) else none
    | _ => none
  | _, _ => none

/-- the property's decision: "the first two bytes the server sends in reply … are 05 00" -/
def shouldReport (dialT dataT : Dur) (s : Script) : Bool :=
  reply dialT dataT s == some (5, 0)

/-- "the connect timeout plus three data timeouts" -/
def bound (dialT dataT : Dur) : Dur := dialT + 3 * dataT

/-- a `Read` of a non-empty buffer on a TCP connection never returns `0, nil`
    (io.Reader contract; `poll.FD.Read` turns a 0-byte read into `io.EOF`) -/
def noEmptyChunk : List ReadEv → Bool
  | [] => true
  | .data [] _ :: _ => false
  | _ :: rest => noEmptyChunk rest

/-- what the harness observes of one real `Scan` call -/
structure Observed where
  reported : Option Target     -- ip/port of the returned record, if a record was returned
  isError : Bool               -- a non-nil error was returned
  elapsed : Dur                -- wall time of the call
  deriving Repr

/-- the whole property as a predicate on what was observed (`slack` = scheduling slack) -/
def holds (dialT dataT slack : Dur) (tgt : Target) (s : Script) (o : Observed) : Bool :=
  -- reported iff …, and the record carries the probed address and port
  (o.reported == (if shouldReport dialT dataT s then some tgt else none)) &&
  -- otherwise nothing or an error (never a record together with an error)
  !(o.reported.isSome && o.isError) &&
  -- time bound (a zero connect timeout means "none": no bound is claimed)
  (dialT == 0 || o.elapsed ≤ bound dialT dataT + slack) &&
  -- prompt end on cancellation
  (match s.cancel with
   | some c => o.elapsed ≤ c + slack
   | none => true)

end SxVerif.Spec.Socks
