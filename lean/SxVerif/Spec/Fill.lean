/-
Spec side of C05: an independent reader of probe frames at RFC 791 / 793 / 768 / 792 / 826 field
offsets, and RFC 1071 checksum validity stated arithmetically: the 16-bit one's-complement sum of all
words, checksum included, is "all ones", i.e. the plain integer sum is a positive multiple of 65535.
-/
import SxVerif.Model.Frame

namespace SxVerif.Spec.Fill
open SxVerif.Frame (Bytes u8 u16 u32)

/-- integer sum of the big-endian 16-bit words of `bs` (an odd trailing byte is padded with zero) -/
def wordSum : Bytes → Nat
  | [] => 0
  | [a] => a.toNat * 256
  | a :: b :: rest => a.toNat * 256 + b.toNat + wordSum rest

/-- RFC 1071: data (checksum field included) plus an optional pseudo-header sum checks -/
def csumValid (bs : Bytes) (pseudo : Nat := 0) : Prop :=
  0 < wordSum bs + pseudo ∧ (wordSum bs + pseudo) % 65535 = 0

instance (bs : Bytes) (p : Nat) : Decidable (csumValid bs p) := by unfold csumValid; exact inferInstance

structure IPFields where
  version : Nat
  ihl : Nat
  totalLen : Nat
  id : Nat
  flags : Nat        -- 3 bits: evil/reserved = 4, DF = 2, MF = 1
  fragOff : Nat
  ttl : Nat
  proto : Nat
  src : Bytes
  dst : Bytes
  deriving Repr, DecidableEq

/-- RFC 791 fixed header fields of the datagram `p` -/
def ipFields (p : Bytes) : Option IPFields := do
  let b0 ← u8 p 0
  let ff ← u16 p 6
  if p.length < 20 then none
  pure { version := b0 / 16, ihl := b0 % 16, totalLen := ← u16 p 2, id := ← u16 p 4, flags := ff / 8192,
         fragOff := ff % 8192, ttl := ← u8 p 8, proto := ← u8 p 9, src := (p.drop 12).take 4, dst := (p.drop 16).take 4 }

/-- pseudo-header sum of RFC 793 / 768: addresses, protocol, upper-layer length -/
def pseudoSum (src dst : Bytes) (proto len : Nat) : Nat := wordSum src + wordSum dst + proto + len

structure TCPFields where
  sport : Nat
  dport : Nat
  seq : Nat
  ack : Nat
  dataOff : Nat
  flags : Nat        -- NS<<8 | CWR ECE URG ACK PSH RST SYN FIN
  window : Nat
  urgent : Nat
  options : Bytes
  payload : Bytes
  deriving Repr, DecidableEq

def tcpFields (seg : Bytes) : Option TCPFields := do
  let w ← u16 seg 12
  if seg.length < 20 ∨ seg.length < (w / 4096) * 4 then none
  pure { sport := ← u16 seg 0, dport := ← u16 seg 2, seq := ← u32 seg 4, ack := ← u32 seg 8, dataOff := w / 4096,
         flags := w % 512, window := ← u16 seg 14, urgent := ← u16 seg 18,
         options := (seg.take ((w / 4096) * 4)).drop 20, payload := seg.drop ((w / 4096) * 4) }

structure UDPFields where
  sport : Nat
  dport : Nat
  len : Nat
  payload : Bytes
  deriving Repr, DecidableEq

def udpFields (dg : Bytes) : Option UDPFields := do
  if dg.length < 8 then none
  pure { sport := ← u16 dg 0, dport := ← u16 dg 2, len := ← u16 dg 4, payload := dg.drop 8 }

structure ICMPFields where
  typ : Nat
  code : Nat
  id : Nat
  seq : Nat
  payload : Bytes
  deriving Repr, DecidableEq

def icmpFields (m : Bytes) : Option ICMPFields := do
  if m.length < 8 then none
  pure { typ := ← u8 m 0, code := ← u8 m 1, id := ← u16 m 4, seq := ← u16 m 6, payload := m.drop 8 }

structure EthFields where
  dst : Bytes
  src : Bytes
  etherType : Nat
  payload : Bytes          -- everything after the 14-byte header, trailing padding included
  deriving Repr, DecidableEq

def ethFields (f : Bytes) : Option EthFields := do
  if f.length < 14 then none
  pure { dst := f.take 6, src := (f.drop 6).take 6, etherType := ← u16 f 12, payload := f.drop 14 }

structure ARPFields where
  htype : Nat
  ptype : Nat
  hlen : Nat
  plen : Nat
  oper : Nat
  sha : Bytes
  spa : Bytes
  tha : Bytes
  tpa : Bytes
  deriving Repr, DecidableEq

/-- RFC 826 packet for Ethernet/IPv4 -/
def arpFields (p : Bytes) : Option ARPFields := do
  if p.length < 28 then none
  pure { htype := ← u16 p 0, ptype := ← u16 p 2, hlen := ← u8 p 4, plen := ← u8 p 5, oper := ← u16 p 6,
         sha := (p.drop 8).take 6, spa := (p.drop 14).take 4, tha := (p.drop 18).take 6, tpa := (p.drop 24).take 4 }

/-- well-formed request of an IP probe: 4-byte addresses, 16-bit port and, unless the link has no
    Ethernet header (VPN mode, where the MACs are not used and may be empty), 6-byte MACs -/
structure ReqOK (vpn : Bool) (srcIP dstIP srcMAC dstMAC : Bytes) (dstPort : Nat) : Prop where
  src4 : srcIP.length = 4
  dst4 : dstIP.length = 4
  port : dstPort < 65536
  macs : vpn = false → srcMAC.length = 6 ∧ dstMAC.length = 6

/-- well-formed ARP request: 4-byte addresses and a 6-byte source MAC (the destination is broadcast) -/
structure ArpReqOK (srcIP dstIP srcMAC : Bytes) : Prop where
  src4 : srcIP.length = 4
  dst4 : dstIP.length = 4
  smac : srcMAC.length = 6

/-- the IP datagram inside a frame: the frame itself in VPN mode, else what follows the Ethernet header
    (cut to the IP datagram length, i.e. without Ethernet padding) -/
def datagram (vpn : Bool) (frame : Bytes) (len : Nat) : Bytes :=
  if vpn then frame else (frame.drop 14).take len

/-- link layer of a non-VPN frame: requested MACs, EtherType, padded to the 60-byte minimum with zeros -/
def LinkOK (frame : Bytes) (dstMAC srcMAC : Bytes) (etherType dgLen : Nat) : Prop :=
  frame.take 6 = dstMAC ∧ (frame.drop 6).take 6 = srcMAC ∧ u16 frame 12 = some etherType ∧
  frame.length = max 60 (14 + dgLen) ∧ ∀ b ∈ frame.drop (14 + dgLen), b = 0

instance (frame dstMAC srcMAC : Bytes) (etherType dgLen : Nat) : Decidable (LinkOK frame dstMAC srcMAC etherType dgLen) := by
  unfold LinkOK; exact inferInstance

/-- RFC 793 / 3168 / 3540: the bit a flag name denotes in NS<<8 | CWR ECE URG ACK PSH RST SYN FIN -/
def rfcFlagBit : String → Nat
  | "fin" => 1 | "syn" => 2 | "rst" => 4 | "psh" => 8 | "ack" => 16 | "urg" => 32 | "ece" => 64 | "cwr" => 128
  | "ns" => 256 | _ => 0

/-- the flag set a list of names denotes -/
def flagSet (names : List String) : Nat := names.foldl (fun acc n => acc ||| rfcFlagBit n) 0

end SxVerif.Spec.Fill
