/-
Spec of C17, written from the property statement: which interface and which source a scan must use on a
given host, as predicates on an observed outcome.  Networks are compared the textbook way (the first `n`
bits agree), interfaces and routes are picked with `filter` / `find?`, not with the code's loops.
-/
import SxVerif.Model.Iface

namespace SxVerif.Spec.Iface
open SxVerif.Iface

/-- the bits of a byte, most significant first -/
def byteBits (b : UInt8) : List Bool := (List.range 8).map (fun i => b.toNat.testBit (7 - i))

def bits (ip : IP) : List Bool := ip.flatMap byteBits

/-- the target's base address: its first `ones` bits, the host part cleared -/
def baseBits (t : Target) : List Bool :=
  (bits t.ip).take t.ones ++ List.replicate (32 - t.ones) false

/-- an IPv4 address of an interface whose network (its own prefix length) contains the target base -/
def onTarget (t : Target) (a : Addr) : Bool :=
  !a.v6 && (bits a.ip).take a.ones == (baseBits t).take a.ones

def addrsOn (t : Target) (i : Iface) : List Addr := i.addrs.filter (onTarget t)

/-- interfaces directly attached to the target subnet, in kernel order -/
def attachedIfaces (h : Host) (t : Target) : List Iface := h.ifaces.filter (fun i => (addrsOn t i).isEmpty == false)

def defaultRoutes (h : Host) : List Route := h.routes.filter (fun r => r.dst.isNone)

/-- the lowest-metric default route (the first one in kernel order among equals) -/
def lowestDefault (h : Host) : Option Route :=
  (defaultRoutes h).find? (fun r => (defaultRoutes h).all (fun r' => r.prio ≤ r'.prio))

/-- the interface the scan must use -/
def expectedIface (h : Host) (o : Opts) : Option Iface :=
  match o.iface with
  | some n => h.ifaces.find? (fun i => i.name == n)                      -- --iface overrides
  | none =>
    match (o.target.map (attachedIfaces h)).getD [] with
    | i :: _ => some i                                                   -- directly attached
    | [] => (lowestDefault h).bind (fun r => h.ifaces.find? (fun i => i.index == r.link))

/-- the interface address the automatic choice takes: the address on the target subnet, else the first -/
def expectedAddr (o : Opts) (i : Iface) : Option Addr :=
  match (o.target.map (fun t => addrsOn t i)).getD [] with
  | a :: _ => some a
  | [] => i.addrs.head?

/-- an IPv4 address given by the user: 4 bytes, or the 16-byte form of an IPv4 address -/
def asIPv4 (ip : IP) : Option IP :=
  if ip.length = 4 then some ip
  else if ip.length = 16 ∧ ip.take 12 = [0, 0, 0, 0, 0, 0, 0, 0, 0, 0, 0xff, 0xff] then some (ip.drop 12)
  else none

/-- the source address the scan must use (none: there is no usable IPv4 source) -/
def expectedSrc (o : Opts) (i : Iface) : Option IP :=
  match o.srcip with
  | some s => asIPv4 s                                                   -- --srcip overrides
  | none => (expectedAddr o i).bind (fun a => if a.v6 then none else some a.ip)

def expectedMAC (o : Opts) (i : Iface) : Option MAC :=
  match o.srcmac with
  | some m => some m                                                     -- --srcmac overrides
  | none => i.mac

/-- what was observed of a run of the option code -/
inductive Outcome where
  | failed                                                       -- the scan refused to start
  | chose (ifname : String) (srcIP : IP) (srcMAC : Option MAC) (vpn : Bool)
  deriving Repr, DecidableEq

/-- C17 on an observed outcome of the IP-level commands (icmp / tcp / udp) -/
def holds (h : Host) (o : Opts) (out : Outcome) : Bool :=
  match expectedIface h o with
  | none => out == .failed
  | some i =>
    match expectedSrc o i with
    | none => out == .failed
    | some s => out == .chose i.name s (expectedMAC o i) (expectedMAC o i).isNone

/-- C17 on an observed outcome of the arp command: additionally, no MAC means no ARP scan -/
def holdsArp (h : Host) (o : Opts) (started : Bool) : Bool :=
  match expectedIface h o with
  | none => !started
  | some i =>
    match expectedSrc o i, expectedMAC o i with
    | some _, some _ => started
    | _, _ => !started

/-- the directly attached interface and its address, as `GetLocalSubnetInterface` must report them -/
def holdsLocal (h : Host) (t : Target) (out : Option (String × IP)) : Bool :=
  match attachedIfaces h t with
  | [] => out == none
  | i :: _ => out == ((addrsOn t i).head?.map (fun a => (i.name, a.goIP)))

/-- the default interface, as `GetDefaultInterface` must report it (`none` = no default route;
    an unresolvable lowest-metric route must be an error) -/
def holdsDefault (h : Host) (out : Option (Option (String × Option IP))) : Bool :=
  match lowestDefault h with
  | none => out == some none
  | some r =>
    match h.ifaces.find? (fun i => i.index == r.link) with
    | none => out == none
    | some i => out == some (some (i.name, (i.addrs.head?.bind (fun a => if a.v6 then none else some a.goIP))))

/-- the gateway of an interface: that of the lowest-metric default route through it -/
def holdsGateway (h : Host) (i : Iface) (out : Option IP) : Bool :=
  let ds := (defaultRoutes h).filter (fun r => r.link == i.index)
  match ds.find? (fun r => ds.all (fun r' => r.prio ≤ r'.prio)) with
  | none => out == none
  | some r => out == r.gw

/-! ### well-formedness of a snapshot (what the Go runtime and `ip.ParseIPNet` guarantee) -/

/-- an IPv4 address entry carries 4 bytes -/
def addrWF (a : Addr) : Bool := a.v6 || a.ip.length == 4

def hostWF (h : Host) : Bool := h.ifaces.all (fun i => i.addrs.all addrWF)

/-- the parsed target is a 4-byte address (C02_parse_exact) -/
def optsWF (o : Opts) : Bool :=
  match o.target with
  | none => true
  | some t => t.ip.length == 4

/-- every default route of the main table names an interface of the snapshot (a unicast route does;
    `unreachable default` / multipath routes have no single interface) -/
def routesResolve (h : Host) : Bool :=
  (defaultRoutes h).all (fun r => h.ifaces.any (fun i => i.index == r.link))

/-- what an observer sees of the model's result -/
def outcomeOf : Except Err IPScan → Outcome
  | .error _ => .failed
  | .ok s => .chose s.range.iface.name s.range.srcIP s.range.srcMAC s.vpn

end SxVerif.Spec.Iface
