/-
Spec of C15, written from the property statement ("with a rate limit of N probes per window W, any k
consecutive probes take at least (k-1-b)·W/N to leave, b the fixed start-up burst allowance; every probe
is charged to the limiter exactly once, and receiving is never slowed by it"), not from the limiter's
code.  Everything here is a predicate on *observed* data: release times, clock readings, sleep
intervals, and the per-call event lists of a wrapper.
-/
namespace SxVerif.Spec.Limiter

/-- the start-up burst allowance `b` of the property -/
def burst : Int := 10

/-- time budget of one probe in integer nanoseconds, `⌊W/N⌋` (`W ≥ 0`, `N ≥ 1`) -/
def perProbe (N W : Int) : Int := W / N

/-- `l[i]` with a default (total access for executable predicates) -/
def nth (l : List Int) (i : Nat) : Int := l.getD i 0

/-- "any k consecutive probes take at least (k-1-b)·p to leave": for the window that starts at probe `i`
    and has `k ≥ 1` probes, `t(i+k-1) - t(i) ≥ (k-1-b)·p` -/
def windowOK (p b : Int) (t : List Int) (i k : Nat) : Bool :=
  decide (nth t (i + k - 1) - nth t i ≥ ((k : Int) - 1 - b) * p)

/-- all windows `i, k` with `k ≥ 1` and `i + k - 1 < length` -/
def rateOK (p b : Int) (t : List Int) : Bool :=
  (List.range t.length).all fun i =>
    (List.range (t.length - i)).all fun k' => windowOK p b t i (k' + 1)

/-- the same with `slack` ns of tolerance (wire timestamps: `ε`) -/
def rateOKTol (p b slack : Int) (t : List Int) : Bool :=
  (List.range t.length).all fun i =>
    (List.range (t.length - i)).all fun k' =>
      decide (nth t (i + k') - nth t i ≥ ((k' : Int) - b) * p - slack)

/-- insertion sort (the order-free reading of the property: any k probes, whichever way they are
    numbered, span at least (k-1-b)·p) -/
def insertSorted (x : Int) : List Int → List Int
  | [] => [x]
  | y :: ys => if x ≤ y then x :: y :: ys else y :: insertSorted x ys

def sort (l : List Int) : List Int := l.foldr insertSorted []

/-- the hypothesis of the theorem about the clock: every reading lies after Go's zero `time.Time`
    (the library uses the zero time as its "no request yet" mark) -/
def clockOK (nows : List Int) : Bool := nows.all (fun t => decide (0 < t))

/-- a caller is never let go before it asked, and is held (by `Sleep`) at least until its release time -/
def heldOK (nows rel sleeps : List Int) : Bool :=
  nows.length == rel.length && sleeps.length == rel.length &&
  (List.range rel.length).all fun j =>
    decide (nth nows j ≤ nth rel j) && decide (nth rel j ≤ nth nows j + nth sleeps j) && decide (0 ≤ nth sleeps j)

/-- the whole predicate on one observed limiter run: `N` probes per `W` ns, the clock readings in the
    order the limiter served them, the release times it returned and the intervals it slept -/
def holdsOrdered (N W : Int) (nows rel sleeps : List Int) : Bool :=
  !(decide (1 ≤ N) && decide (0 ≤ W) && clockOK nows) ||
  (heldOK nows rel sleeps && rateOK (perProbe N W) burst rel)

/-- the same plus the order-free reading (the probes numbered by release time instead of by the order the
    limiter served them; a consequence of the per-pair bound, `C15_any_set`) -/
def holds (N W : Int) (nows rel sleeps : List Int) : Bool :=
  holdsOrdered N W nows rel sleeps &&
  (!(decide (1 ≤ N) && decide (0 ≤ W) && clockOK nows) || rateOK (perProbe N W) burst (sort rel))

/-- sequential sender: wire times `t` of consecutive probes written by one goroutine, no tolerance,
    one unit weaker: `t(i+k-1) - t(i) ≥ (k-2-b)·p` -/
def seqWireOK (p b : Int) (t : List Int) : Bool := rateOKTol p (b + 1) 0 t

/-! ### wrappers: per call of the wrapper, the calls it made in order -/

inductive Call where
  | take        -- the limiter was charged
  | delegate    -- the wrapped object's method was called
  deriving Repr, DecidableEq

inductive Kind where
  | send        -- a frame is written / a probe is started
  | recv        -- a frame is read
  deriving Repr, DecidableEq

/-- a sending call is charged exactly once and before the frame/probe is handed on, which happens exactly
    once; a receiving call is never charged -/
def callOK : Kind × List Call → Bool
  | (.send, evs) => evs == [.take, .delegate]
  | (.recv, evs) => evs == [.delegate]

def chargedOnce (trace : List (Kind × List Call)) : Bool := trace.all callOK

/-- flat reading of the same: the calls of the whole run in order, tagged with the kind of wrapper call
    they were made in -/
def flatten (trace : List (Kind × List Call)) : List (Kind × Call) :=
  trace.flatMap (fun x => x.2.map (fun c => (x.1, c)))

/-- for every hand-over of a *sent* item, the number of `take`s made before it (starting from `n`) -/
def takesBefore : List (Kind × Call) → Nat → List Nat
  | [], _ => []
  | (_, .take) :: r, n => takesBefore r (n + 1)
  | (.send, .delegate) :: r, n => n :: takesBefore r n
  | (.recv, .delegate) :: r, n => takesBefore r n

def countTakes (l : List (Kind × Call)) : Nat := (l.filter (fun x => x.2 == .take)).length

/-- item number `j` (0-based) leaves after exactly `j+1` charges, and there are as many charges as items:
    charge `j` is the one and only charge of item `j` -/
def bijective (trace : List (Kind × List Call)) : Bool :=
  let f := flatten trace
  let tb := takesBefore f 0
  tb == List.range' 1 tb.length && countTakes f == tb.length

end SxVerif.Spec.Limiter
