/-
Spec side of C06 / C03: what it means, at fixed byte offsets, for a received frame to contain a
well-formed header chain of the scanned protocol, and which of its bytes a record must carry.
Written from RFC 791 / 793 / 792 / 826 and the property statement — no decoder state, no layer loop.
-/
import SxVerif.Model.Frame

namespace SxVerif.Spec.Frame
open SxVerif.Frame (Bytes u8 u16)

/-- RFC 791 / RFC 793 option list occupying exactly the given bytes: kind 0 ends the list (the rest is
    padding), kind 1 is a single byte, any other kind is followed by a length byte counting the whole
    option (≥ 2) that must fit -/
def optionsOK : Nat → Bytes → Bool
  | 0, _ => false
  | _, [] => true
  | fuel + 1, k :: rest =>
    if k.toNat = 0 then true
    else if k.toNat = 1 then optionsOK fuel rest
    else match rest with
      | [] => false
      | l :: _ => 2 ≤ l.toNat && l.toNat ≤ rest.length + 1 && optionsOK fuel ((k :: rest).drop l.toNat)

/-- an IPv4 header at offset `o`: header length in bytes, end of the datagram within the frame, protocol -/
structure IPv4View where
  hlen : Nat
  dgEnd : Nat
  proto : Nat
  deriving Repr, DecidableEq

def ipv4At (f : Bytes) (o : Nat) : Option IPv4View := do
  let avail := f.length - o
  if o + 20 > f.length then none
  let b0 ← u8 f o
  let tl ← u16 f (o + 2)
  let ff ← u16 f (o + 6)
  let proto ← u8 f (o + 9)
  let ihl := b0 % 16
  -- total length 0 = segmentation offload: the datagram is whatever was captured
  let tl := if tl = 0 then avail % 65536 else tl
  if b0 / 16 ≠ 4 ∨ ihl < 5 ∨ tl < 20 ∨ ihl * 4 > tl ∨ ihl * 4 > avail then none
  -- unfragmented: MF clear, offset zero
  if (ff / 8192) % 2 = 1 ∨ ff % 8192 ≠ 0 then none
  let opts := (f.drop (o + 20)).take (ihl * 4 - 20)
  if !optionsOK (opts.length + 1) opts then none
  pure { hlen := ihl * 4, dgEnd := o + min tl avail, proto := proto }

structure TcpView where
  src : Bytes
  sport : Nat
  flags : Nat        -- NS<<8 | byte 13
  deriving Repr, DecidableEq

/-- link header: Ethernet II carrying IPv4, or none in raw-IP (VPN) mode; returns the IP offset -/
def ipOffset (vpn : Bool) (f : Bytes) : Option Nat :=
  if vpn then some 0
  else if f.length ≥ 14 ∧ u16 f 12 = some 0x0800 then some 14 else none

/-- [Ethernet →] IPv4 → TCP, nothing nested in between -/
def tcpChain (vpn : Bool) (f : Bytes) : Option TcpView := do
  let o ← ipOffset vpn f
  let ip ← ipv4At f o
  if ip.proto ≠ 6 then none
  let t := o + ip.hlen
  let seg := ip.dgEnd - t
  if seg < 20 then none
  let b12 ← u8 f (t + 12)
  let b13 ← u8 f (t + 13)
  let sport ← u16 f t
  let doff := b12 / 16
  if doff < 5 ∨ doff * 4 > seg then none
  let opts := (f.drop (t + 20)).take (doff * 4 - 20)
  if !optionsOK (opts.length + 1) opts then none
  pure { src := (f.drop (o + 12)).take 4, sport := sport, flags := (b12 % 2) * 256 + b13 }

structure IcmpView where
  src : Bytes
  ttl : Nat
  typ : Nat
  code : Nat
  deriving Repr, DecidableEq

/-- [Ethernet →] IPv4 → ICMP -/
def icmpChain (vpn : Bool) (f : Bytes) : Option IcmpView := do
  let o ← ipOffset vpn f
  let ip ← ipv4At f o
  if ip.proto ≠ 1 then none
  let t := o + ip.hlen
  if ip.dgEnd - t < 8 then none
  let ttl ← u8 f (o + 8)
  let typ ← u8 f t
  let code ← u8 f (t + 1)
  pure { src := (f.drop (o + 12)).take 4, ttl := ttl, typ := typ, code := code }

structure ArpView where
  ip : Bytes
  mac : Bytes
  deriving Repr, DecidableEq

/-- Ethernet → ARP for IPv4 over Ethernet (htype 1, ptype 0x0800, hlen 6, plen 4) -/
def arpChain (f : Bytes) : Option ArpView :=
  if f.length ≥ 42 ∧ u16 f 12 = some 0x0806 ∧ u16 f 14 = some 1 ∧ u16 f 16 = some 0x0800 ∧
     u8 f 18 = some 6 ∧ u8 f 19 = some 4 then
    some { mac := (f.drop 22).take 6, ip := (f.drop 28).take 4 }
  else none

end SxVerif.Spec.Frame
