/-
Spec side of the composed statements (C01 at the wire, C13 at the error stream): how an observer reads the
target of a probe off the bytes handed to the writer — with the independent RFC readers of `Spec/Fill.lean`,
nothing of the encoders — and what "an engine run of the pass" is.
-/
import SxVerif.Model.Compose
import SxVerif.Spec.Fill
import SxVerif.Spec.Gen

namespace SxVerif.Spec.Compose
open SxVerif.Frame (Bytes)
open SxVerif.Spec.Fill SxVerif.Compose

/-- big-endian value of a byte string -/
def beNat (bs : Bytes) : Nat := bs.foldl (fun acc b => acc * 256 + b.toNat) 0

/-- an IPv4 address (either spelling) -/
def IsIPv4 : Gen.Addr → Prop
  | .v4 a _ => a < 2 ^ 32
  | .v6 _ => False

/-- the 32-bit value of an address -/
def addrVal : Gen.Addr → Nat
  | .v4 a _ => a
  | .v6 id => id

/-- length of the IP datagram a filler builds (known to the observer from the command line) -/
def dgLen : Filler → Nat
  | .tcp _ => 52
  | .udp o => 28 + o.payload.length
  | .icmp o _ _ => 28 + o.payload.length
  | .arp => 28

/-- **(destination address, destination port) read off a TCP / UDP probe frame**: RFC 791 destination field and
    the 16-bit word at offset 2 of the transport header (RFC 793 / RFC 768), behind the Ethernet header unless
    the link has none -/
def probeTarget (vpn : Bool) (fl : Filler) (frame : Bytes) : Option (Nat × Nat) :=
  let dg := datagram vpn frame (dgLen fl)
  match fl with
  | .tcp _ => do
    let ip ← ipFields dg
    let t ← tcpFields (dg.drop 20)
    pure (beNat ip.dst, t.dport)
  | .udp _ => do
    let ip ← ipFields dg
    let u ← udpFields (dg.drop 20)
    pure (beNat ip.dst, u.dport)
  | _ => none

/-- **destination address read off an ICMP probe (RFC 791 destination) or an ARP request (RFC 826 target
    protocol address)** -/
def probeAddr (vpn : Bool) (fl : Filler) (frame : Bytes) : Option Nat :=
  match fl with
  | .icmp _ _ _ => (ipFields (datagram vpn frame (dgLen fl))).map (fun ip => beNat ip.dst)
  | .arp => (arpFields (frame.drop 14)).map (fun a => beNat a.tpa)
  | _ => none

/-- the byte strings handed to `WritePacketData` in a state of the packet pipeline, in call order -/
def handed (st : Pipe.Sys) : List Bytes := st.written.map (·.1)

/-- … those whose write did not fail: what is on the wire -/
def onWire (st : Pipe.Sys) : List Bytes := (st.written.filter (fun w => !w.2)).map (·.1)

/-- the `math/rand` ranges of the fillers (C05_draws) -/
def RndOK (d : Rnd) : Prop := d.ipId < 65535 ∧ d.sport < 28232 ∧ d.seq < 2 ^ 32 ∧ d.icmpId < 65535

/-- the scan range gives a 4-byte source address and, on an Ethernet link, a 6-byte source MAC (C17) -/
def LinkOK (l : Link) : Prop := l.srcIP.length = 4 ∧ (l.vpn = false → l.srcMAC.length = 6)

/-- option values in the ranges the flag parsers enforce (C18, C05_cli_*) -/
def FillerOK : Filler → Prop
  | .tcp flags => flags < 512
  | .udp o => o.ttl < 256 ∧ o.len < 65536 ∧ o.proto < 256 ∧ o.flags < 8 ∧ o.payload.length ≤ 65507
  | .icmp o t c => (o.ttl < 256 ∧ o.len < 65536 ∧ o.proto < 256 ∧ o.flags < 8 ∧ o.payload.length ≤ 65507) ∧
      t < 256 ∧ c < 256
  | .arp => True

/-- what is observed of one engine run of the packet pipeline: the draws its `Fill` calls made, its input
    (worker count, request stream, receiver errors, writer failure pattern) and a state it reached -/
structure PacketRun where
  rnd : Nat → Rnd
  inp : Pipe.Input
  st : Pipe.Sys

/-- `o` is a finished, uncancelled engine run over the request list `rs`: draws in range, the pipeline's input
    is the embedding of `rs`, at least one worker, `st` reached by SOME interleaving of the goroutines
    (`ReachableNC`: every schedule), and the run is over — every goroutine has returned and the error stream is
    drained, or `done` has been closed (what `startScanEngine` waits for) -/
def PacketRunOf (cfg : Pipe.Cfg) (l : Link) (fl : Filler) (rs : List Gen.Req) (o : PacketRun) : Prop :=
  (∀ i, RndOK (o.rnd i)) ∧ o.inp.reqs = pipeReqs l fl o.rnd rs ∧ 0 < o.inp.n ∧
  Pipe.ReachableNC cfg o.inp o.st ∧ (Pipe.Terminated o.st ∨ o.st.done = true)

/-! ### reading the error streams (C13 composed) -/

/-- the causes of the request-error records among what the packet pipeline's error consumer received: the record
    made for the request with identity `id` carries that request's `Err` (`causeAt`); build errors, write errors
    and receiver errors are other records -/
def reqCauses (rs : List Gen.Req) (errs : List Pipe.Pkt) : List (Option Gen.Cause) :=
  errs.filterMap (fun p => match p with
    | .err (.req q) => some (causeAt rs q.id)
    | _ => none)

/-- the causes among the errors the generic engine's workers sent (identities of requests): an error entry's
    record carries its cause; the record of a failed `Scan` (an error-free request) carries none of them -/
def sentCauses (rs : List Gen.Req) (ids : List Nat) : List Gen.Cause := ids.filterMap (causeAt rs)

/-- the receiver reports receiver errors -/
def RcvErrsOK (inp : Pipe.Input) : Prop := ∀ e ∈ inp.rcvErrs, ∃ k, e = Pipe.Err.rcv k

end SxVerif.Spec.Compose
