/-
Reference behaviour of one engine run of request generation, assembled from the Spec-level pieces
(`denote`, per-line expectation, `handled`, `isExcluded`) and the MAC rule of C11 — not from the
generator model.  The driver evaluates it on the outputs observed from the real code.
-/
import SxVerif.Spec.Gen

namespace SxVerif.Spec.GenRef
open SxVerif.Gen SxVerif.Spec.Gen

/-- what the harness can see of a request -/
structure View where
  dst : Option Addr
  port : Nat
  mac : Option Nat
  cause : Option Cause
  deriving Repr, DecidableEq

def normAddr : Addr → Addr
  | .v4 a _ => .v4 a false
  | a => a

/-- C11: the cache entry of the request's own destination (last entry wins), else the gateway -/
def macFor (cache : List (Addr × Nat)) (gw : Option Nat) (a : Addr) : Option Nat :=
  match (cache.filter (fun e => normAddr e.1 == normAddr a)).getLast? with
  | some e => some e.2
  | none => gw

/-- a probe for `(a, p)` after the optional stages; `none` = dropped by the exclusion list -/
def probeView (s : Spec) (a : Addr) (p : Nat) : Option View :=
  if isExcluded s.excl a then none
  else match s.cache with
    | none => some ⟨some (normAddr a), p, none, none⟩
    | some (c, gw) =>
      match macFor c gw a with
      | some m => some ⟨some (normAddr a), p, some m, none⟩
      | none => some ⟨some (normAddr a), p, none, some .noMAC⟩

def errView (p : Nat) (c : Cause) : View := ⟨none, p, none, some c⟩

/-- pairs file, in order -/
def refPairs (s : Spec) (content : List Line) : List View :=
  (content.take (handled stopsPairs content)).filterMap (fun l =>
    match expectPair l with
    | { dst := some a, port := p, err := none, .. } => probeView s a p
    | { err := some c, .. } => some (errView 0 c)
    | _ => none)

/-- one pass over an address file for port `p` -/
def refAddrPass (s : Spec) (content : List Line) (p : Nat) : List View :=
  (content.take (handled stopsAddrs content)).filterMap (fun l =>
    match expectAddr l with
    | .ip a => probeView s a p
    | .err c => some (errView p c))

inductive Ref where
  | fail                       -- the engine run must not start
  | ok (views : List View)

/-- (address, port) commands: one engine run on `chunk` -/
def refPortRun (s : Spec) (content : Option (List Line)) (chunk : List PortRange) : Ref :=
  match s.src with
  | .subnet net =>
    if chunk.isEmpty || !chunk.all (fun r => decide (r.lo ≤ r.hi)) then .fail
    else match net with
      | none => .fail
      | some n => .ok ((portsOf chunk).flatMap (fun p => (addrsOfNet n).filterMap (fun a => probeView s a p)))
  | .file _ =>
    match content with
    | none => .fail
    | some ls =>
      if s.ports.isEmpty then .ok (refPairs s ls)
      else if chunk.isEmpty || !chunk.all (fun r => decide (r.lo ≤ r.hi)) then .fail
      else .ok ((portsOf chunk).flatMap (refAddrPass s ls))

/-- port-less commands -/
def refIpRun (s : Spec) (content : Option (List Line)) : Ref :=
  match s.src with
  | .subnet net => match net with
    | none => .fail
    | some n => .ok ((addrsOfNet n).filterMap (fun a => probeView s a 0))
  | .file _ => match content with
    | none => .fail
    | some ls => .ok (refAddrPass s ls 0)

end SxVerif.Spec.GenRef
