/-
Spec of C20, written from the property statement, not from the code: a classification table and a
closed-form description of what a receiver must have done on a given fault sequence.
-/
import SxVerif.Model.Recv

namespace SxVerif.Spec.Recv
open SxVerif.Recv

/-- the property's three kinds of failure -/
inductive Kind where
  | transient    -- would-block, timeout, connection reset: retried silently
  | broken       -- closed or broken socket: ends reading
  | unknown      -- reported once, reading continues
  deriving Repr, DecidableEq

def kindOf : Err → Kind
  | .eagain | .opEagain => .transient                 -- would-block
  | .netTimeout => .transient                         -- timeout
  | .econnreset | .sysConnreset => .transient         -- connection reset
  | .eof | .unexpectedEOF | .noProgress | .closedPipe | .shortBuffer | .ebadf | .closedFile => .broken
  | .netNoTimeout | .wrappedEOF | .other => .unknown
  | .afPoll => .unknown        -- a failed poll is neither would-block / timeout / reset nor a closed socket

def isBroken : Outcome → Bool
  | .err e => kindOf e == .broken
  | _ => false

/-- number of outcomes the receiver lives through: up to and including the first broken-socket
    outcome, but never past the cancellation point -/
def lifetime (outs : List Outcome) (cancel : Option Nat) : Nat :=
  let upToBroken := match outs.findIdx? isBroken with
    | some i => i + 1
    | none => outs.length
  match cancel with
  | some k => min k upToBroken
  | none => upToBroken

def isFrame : Outcome → Bool
  | .frame _ => true
  | _ => false

def isReported : Outcome → Bool
  | .frame procErr => procErr
  | .err e => kindOf e == .unknown

/-- positions `i < n` of `outs` satisfying `p`, in order -/
def positions (p : Outcome → Bool) (outs : List Outcome) (n : Nat) : List Nat :=
  ((outs.take n).zipIdx.filter (fun (o, _) => p o)).map (·.2)

/-- the whole property as a predicate on what was observed -/
def holds (outs : List Outcome) (cancel : Option Nat) (r : Result) : Bool :=
  let n := lifetime outs cancel
  r.processed == positions isFrame outs n &&
  r.reported == positions isReported outs n &&
  r.consumed == n

end SxVerif.Spec.Recv
