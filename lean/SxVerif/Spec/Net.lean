/-
Spec side of C02 (target parsing): what a target string *denotes*, defined by splitting and reading
decimal numbers — independently of the byte-at-a-time state machines in `Model/Net.lean`.
-/
import SxVerif.Model.Net

namespace SxVerif.Spec.Net
open SxVerif.Gen

/-- a non-empty string of ASCII digits, read as a decimal number -/
def decimal (s : List Char) : Option Nat :=
  if s.isEmpty || !s.all (fun c => '0' ≤ c && c ≤ '9') then none
  else some (s.foldl (fun n c => n * 10 + (c.toNat - 48)) 0)

/-- split at every occurrence of `sep` -/
def splitOn (sep : Char) : List Char → List (List Char)
  | [] => [[]]
  | c :: rest =>
    match splitOn sep rest with
    | [] => [[]]          -- unreachable
    | hd :: tl => if c == sep then [] :: hd :: tl else (c :: hd) :: tl

/-- `a.b.c.d` with each part a decimal number ≤ 255 -/
def quad (s : List Char) : Option Nat :=
  match (splitOn '.' s).map decimal with
  | [some a, some b, some c, some d] =>
    if a ≤ 255 ∧ b ≤ 255 ∧ c ≤ 255 ∧ d ≤ 255 then some (((a * 256 + b) * 256 + c) * 256 + d) else none
  | _ => none

/-- the IPv4 network a string denotes: a dotted quad (prefix 32) or `quad/len` with `len ≤ 32`;
    the base is the quad with its host bits cleared -/
def denote (s : List Char) : Option (Nat × Nat) :=
  match splitOn '/' s with
  | [a] => (quad a).map (fun v => (v, 32))
  | [a, m] =>
    match quad a, decimal m with
    | some v, some n => if n ≤ 32 then some (v / 2 ^ (32 - n) * 2 ^ (32 - n), n) else none
    | _, _ => none
  | _ => none

/-- canonical rendering of an IPv4 network -/
def renderNat (n : Nat) : List Char := (toString n).toList

def renderQuad (v : Nat) : List Char :=
  renderNat (v / 2 ^ 24 % 256) ++ ['.'] ++ renderNat (v / 2 ^ 16 % 256) ++ ['.'] ++
  renderNat (v / 2 ^ 8 % 256) ++ ['.'] ++ renderNat (v % 256)

def renderCIDR (v ones : Nat) : List Char := renderQuad v ++ ['/'] ++ renderNat ones

/-- `s` is a canonical rendering (`renderQuad v` or `renderCIDR v n`, `n ≤ 32`) -/
def isCanonical (s : List Char) : Bool :=
  match splitOn '/' s with
  | [a] => (quad a).any (fun v => renderQuad v == a)
  | [a, m] => (quad a).any (fun v => renderQuad v == a) && (decimal m).any (fun n => n ≤ 32 && renderNat n == m)
  | _ => false

/-- Spec verdict on an observed parse result: refusing is allowed except for canonical renderings;
    accepting is allowed only for IPv4 forms, with exactly the denoted value -/
def holds (s : List Char) (observed : Option Net) : Bool :=
  match observed with
  | none => !isCanonical s
  | some net =>
    !s.contains ':' &&
    (match denote s with
     | some (base, ones) => net.bytes == 4 && net.bits == 32 && net.ones == ones && net.base == base
     | none => false)

end SxVerif.Spec.Net
