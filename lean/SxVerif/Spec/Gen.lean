/-
Spec side of C01 / C02 / C13: what a target specification *denotes* and what a list of target-file
lines *should* turn into.  Written from the property statements; shares only the data types with the
model (`Model/Gen.lean`), none of the generator logic.
-/
import SxVerif.Model.Gen

namespace SxVerif.Spec.Gen
open SxVerif.Gen

/-- ports denoted by a list of ranges, with multiplicity (overlapping ranges count twice) -/
def portsOf (ports : List PortRange) : List Nat :=
  ports.flatMap (fun r => List.range' r.lo (r.hi + 1 - r.lo))

/-- addresses of an IPv4 network `(base, ones)`, `base` aligned -/
def addrsOfNet (net : Net) : List Addr :=
  (List.range' net.base (2 ^ (32 - net.ones))).map (fun a => Addr.v4 a false)

/-- an address is covered by the exclusion entry `(b, ones)` iff it lies in the aligned block of size
    `2^(32-ones)` that contains `b` -/
def covered (a : Nat) (e : Nat × Nat) : Prop :=
  let size := 2 ^ (32 - e.2)
  e.1 / size * size ≤ a ∧ a < e.1 / size * size + size

instance (a : Nat) (e : Nat × Nat) : Decidable (covered a e) := by unfold covered; exact inferInstance

def isExcluded (excl : Option (List (Nat × Nat))) : Addr → Bool
  | .v4 a _ => match excl with
    | some l => l.any (fun e => decide (covered a e))
    | none => false
  | .v6 _ => false

/-- a target-file line that denotes a target -/
def lineAddr : Line → Option Addr
  | .entry (some a) _ => some a
  | _ => none

def linePair : Line → Option (Addr × Nat)
  | .entry (some a) p => if 0 < p ∧ p ≤ 65535 then some (a, p.toNat) else none
  | _ => none

/-- the (address, port) pairs an (address, port) command is asked to probe, with multiplicity;
    `content` = the lines of the target file (ignored for subnet sources) -/
def denotePairs (s : Spec) (content : List Line) : List (Addr × Nat) :=
  match s.src with
  | .subnet net =>
    match net with
    | some n => (portsOf s.ports).flatMap (fun p => (addrsOfNet n).map (fun a => (a, p)))
    | none => []
  | .file _ =>
    if s.ports.isEmpty then content.filterMap linePair
    else (portsOf s.ports).flatMap (fun p => (content.filterMap lineAddr).map (fun a => (a, p)))

/-- the addresses a port-less command (arp, icmp) is asked to probe -/
def denoteAddrs (s : Spec) (content : List Line) : List Addr :=
  match s.src with
  | .subnet net => match net with
    | some n => addrsOfNet n
    | none => []
  | .file _ => content.filterMap lineAddr

/-- … minus the excluded addresses -/
def expectedPairs (s : Spec) (content : List Line) : List (Addr × Nat) :=
  (denotePairs s content).filter (fun ap => !isExcluded s.excl ap.1)

def expectedAddrs (s : Spec) (content : List Line) : List Addr :=
  (denoteAddrs s content).filter (fun a => !isExcluded s.excl a)

/-- the probes among a list of requests -/
def probes (rs : List Req) : List (Addr × Nat) :=
  rs.filterMap (fun r => match r.err, r.dst with
    | none, some a => some (a, r.port)
    | _, _ => none)

def errors (rs : List Req) : List Cause := rs.filterMap (·.err)

/-! ### well-formed specifications (C01's hypothesis) -/

def PortsOK (ports : List PortRange) : Prop :=
  ∀ r ∈ ports, 1 ≤ r.lo ∧ r.lo ≤ r.hi ∧ r.hi ≤ 65535

def NetOK (n : Net) : Prop :=
  n.bytes = 4 ∧ n.bits = 32 ∧ n.ones ≤ 32 ∧ n.base % 2 ^ (32 - n.ones) = 0 ∧ n.base + 2 ^ (32 - n.ones) ≤ 2 ^ 32

/-- every line of a pairs file denotes a pair; every line of an address file an address -/
def PairsOK (content : List Line) : Prop := ∀ l ∈ content, (linePair l).isSome
def AddrsOK (content : List Line) : Prop := ∀ l ∈ content, (lineAddr l).isSome

/-- a *valid IPv4 target specification* for the (address, port) commands.  Reading a regular file,
    or standard input through the buffering opener, yields the same `content` on every open. -/
structure PairSpecOK (s : Spec) (content : List Line) : Prop where
  ports : PortsOK s.ports
  src : match s.src with
    | .subnet net => (∃ n, net = some n ∧ NetOK n) ∧ s.ports ≠ []
    | .file openFile => (∀ k, openFile k = some content) ∧
        (if s.ports.isEmpty then PairsOK content else AddrsOK content)

structure AddrSpecOK (s : Spec) (content : List Line) : Prop where
  src : match s.src with
    | .subnet net => ∃ n, net = some n ∧ NetOK n
    | .file openFile => openFile 0 = some content ∧ AddrsOK content

/-! ### C13: per-line expectation -/

/-- what one line must become in a pairs file -/
def expectPair : Line → Req
  | .badJson => { err := some .json }
  | .tooLong => { err := some .tooLong }
  | .entry none _ => { err := some .ip }
  | .entry (some a) p => if 0 < p ∧ p ≤ 65535 then { dst := some a, port := p.toNat } else { err := some .port }

/-- … and in an address file (item form) -/
def expectAddr : Line → IpItem
  | .badJson => .err .json
  | .tooLong => .err .tooLong
  | .entry none _ => .err .ip
  | .entry (some a) _ => .ip a

/-- a generator may stop right after these lines -/
def stopsPairs : Line → Bool
  | .badJson | .tooLong => true
  | _ => false

def stopsAddrs : Line → Bool
  | .badJson | .tooLong | .entry none _ => true
  | _ => false

/-- number of lines handled: up to and including the first stopping line -/
def handled (stops : Line → Bool) (ls : List Line) : Nat :=
  match ls.findIdx? stops with
  | some i => i + 1
  | none => ls.length

/-- what an optional stage may do to one request: keep an error *as it is*; drop or keep a probe, or
    turn it into an error with the stage's own cause — never touch anything else -/
def stageOK (stage : List Req → List Req) : Prop :=
  (∀ a b, stage (a ++ b) = stage a ++ stage b) ∧
  (∀ r, r.err ≠ none → stage [r] = [r]) ∧
  (∀ r, r.err = none → stage [r] = [] ∨ (∃ r', stage [r] = [r'] ∧ r'.dst = r.dst ∧ r'.port = r.port ∧
      (r'.err = none ∨ r'.err = some .noMAC)))

end SxVerif.Spec.Gen
