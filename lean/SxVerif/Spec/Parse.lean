/-
Spec side of C18: what an option string *denotes* (by splitting and reading decimal numbers — the
same independent reader as `Spec/Net.lean`) and the canonical renderings of values.
-/
import SxVerif.Model.Parse
import SxVerif.Spec.Net

namespace SxVerif.Spec.Parse
open SxVerif.Gen SxVerif.Spec.Net

def bound (s : List Char) : Option Nat :=
  (decimal s).bind (fun p => if p ≤ 65535 then some p else none)

/-- `a` or `a-b`, bounds are the decimal numbers written, each within 0..65535 -/
def denotePortRange (s : List Char) : Option PortRange :=
  match splitOn '-' s with
  | [a] => (bound a).map (fun p => ⟨p, p⟩)
  | [a, b] => match bound a, bound b with
    | some lo, some hi => some ⟨lo, hi⟩
    | _, _ => none
  | _ => none

/-- comma-separated list of ranges -/
def denotePorts (s : List Char) : Option (List PortRange) :=
  (splitOn ',' s).mapM denotePortRange

def join (sep : Char) : List (List Char) → List Char
  | [] => []
  | [a] => a
  | a :: rest => a ++ sep :: join sep rest

/-- canonical rendering of a range (`lo` alone when `lo = hi`) and of a list -/
def renderRange (r : PortRange) : List Char :=
  if r.lo = r.hi then renderNat r.lo else renderNat r.lo ++ '-' :: renderNat r.hi

def renderPorts (rs : List PortRange) : List Char := join ',' (rs.map renderRange)

/-- count with optional sign, as a non-negative 32-bit integer (a `-` sign is therefore possible on
    zero only: `-0` is the count 0, as `strconv.ParseInt` reads it) -/
def denoteCount (s : List Char) : Option Nat :=
  match s with
  | '-' :: d => (decimal d).bind (fun n => if n = 0 then some 0 else none)
  | '+' :: d => (decimal d).bind (fun n => if n < 2 ^ 31 then some n else none)
  | d => (decimal d).bind (fun n => if n < 2 ^ 31 then some n else none)

/-- a Go duration literal starts with a sign, a digit or a dot; anything else is a bare unit and means
    one of that unit -/
def startsNumber (w : List Char) : Bool :=
  match w with
  | [] => true
  | c :: _ => "0123456789.+-".toList.contains c

/-- `count` or `count/window`: the written count per the written window (`dur` reads the window,
    default one second) -/
def denoteRate (dur : List Char → Option Int) (s : List Char) : Option (Nat × Int) :=
  match splitOn '/' s with
  | [c] => (denoteCount c).map (fun n => (n, 1000000000))
  | [c, w] =>
    match denoteCount c, dur (if startsNumber w then w else '1' :: w) with
    | some n, some d => if 0 ≤ d then some (n, d) else none
    | _, _ => none
  | _ => none

/-- `\xHH` for every byte: the canonical rendering of a payload -/
def hexDigitChar (n : Nat) : Char := if n < 10 then Char.ofNat (48 + n) else Char.ofNat (87 + n)

def renderPayload (bytes : List Char) : List Char :=
  bytes.flatMap (fun c => ['\\', 'x', hexDigitChar (c.toNat / 16), hexDigitChar (c.toNat % 16)])

/-- bits named by a list of flag names, each its own bit -/
def flagBits (table : List (String × Nat)) (names : List String) : Option Nat :=
  names.foldl (fun acc n => match acc, table.find? (fun e => e.1 == n) with
    | some v, some e => some (v ||| e.2)
    | _, _ => none) (some 0)

/-- lines of a ports / exclusion file that carry an entry: text before `#`, spaces trimmed, non-blank -/
def entryLines (data : List Char) : List (List Char) :=
  let ls := splitOn '\n' data
  let ls := match ls.getLast? with
    | some [] => ls.dropLast
    | _ => ls
  ls.filterMap (fun l =>
    let l := if l.getLast? == some '\r' then l.dropLast else l
    let l := l.takeWhile (· != '#')
    let l := ((l.dropWhile (· == ' ')).reverse.dropWhile (· == ' ')).reverse
    if l.isEmpty then none else some l)

def hasLongLine (data : List Char) : Bool :=
  (splitOn '\n' data).any (fun l => l.length ≥ 65536)

end SxVerif.Spec.Parse
