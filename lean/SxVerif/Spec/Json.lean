/-
Spec of C14, written from the property statement and RFC 8259, not from the encoders:
* `JVal` and a small JSON reader `readObject : List Char → Option (List (Key × JVal))` (whitespace between
  tokens, all escapes incl. `\uXXXX` and surrogate pairs, integers read to their value, other numbers kept
  as their literal after a grammar check);
* "is a single line";
* what a result's fields are (`fieldsOf`: documented keys, `flags`/`auth` omitted when empty), with an
  invalid byte of a Go string standing for U+FFFD (`sanitize`) and a Go map standing for its members;
* the log as a whole: one line per result, in order (`holdsLog`), first occurrences per ID for the
  de-duplicating logger.
The Model module is imported for the *data types* of results only; none of its encoders is used here.
-/
import SxVerif.Model.Json

namespace SxVerif.Spec.Json
open SxVerif.Json

abbrev Key := List Char

inductive JVal where
  | null
  | bool (b : Bool)
  | int (i : Int)                      -- a number written as a plain integer (`0`, `-12`, `65535`)
  | num (lit : List Char)              -- any other number: its literal (RFC 8259 grammar checked)
  | str (s : List Char)
  | arr (l : List JVal)
  | obj (kvs : List (Key × JVal))
  deriving Repr, Inhabited

mutual
def JVal.beq : JVal → JVal → Bool
  | .null, .null => true
  | .bool a, .bool b => a == b
  | .int a, .int b => a == b
  | .num a, .num b => a == b
  | .str a, .str b => a == b
  | .arr a, .arr b => beqList a b
  | .obj a, .obj b => beqMems a b
  | _, _ => false
def beqList : List JVal → List JVal → Bool
  | [], [] => true
  | a :: as, b :: bs => JVal.beq a b && beqList as bs
  | _, _ => false
def beqMems : List (Key × JVal) → List (Key × JVal) → Bool
  | [], [] => true
  | (k, a) :: as, (l, b) :: bs => k == l && JVal.beq a b && beqMems as bs
  | _, _ => false
end

/-! ## reader -/

def isWs (c : Char) : Bool := c == ' ' || c == '\t' || c == '\n' || c == '\r'

def skipWs : List Char → List Char
  | [] => []
  | c :: t => if isWs c then skipWs t else c :: t

def hexVal (c : Char) : Option Nat :=
  if '0' ≤ c ∧ c ≤ '9' then some (c.toNat - 48)
  else if 'a' ≤ c ∧ c ≤ 'f' then some (c.toNat - 87)
  else if 'A' ≤ c ∧ c ≤ 'F' then some (c.toNat - 55)
  else none

def hex4 (a b c d : Char) : Option Nat :=
  match hexVal a, hexVal b, hexVal c, hexVal d with
  | some w, some x, some y, some z => some (((w * 16 + x) * 16 + y) * 16 + z)
  | _, _, _, _ => none

def simpleEsc (c : Char) : Option Char :=
  if c = '"' then some '"' else if c = '\\' then some '\\' else if c = '/' then some '/'
  else if c = 'b' then some '\x08' else if c = 'f' then some '\x0c' else if c = 'n' then some '\n'
  else if c = 'r' then some '\r' else if c = 't' then some '\t' else none

def consFst (c : Char) (p : List Char × List Char) : List Char × List Char := (c :: p.1, p.2)

/-- the text after an opening quote: decoded string and what follows the closing quote.  `hi` = a high
    surrogate escape has just been read and its partner must follow. -/
def readStrBody : Option Nat → List Char → Option (List Char × List Char)
  | _, [] => none
  | hi, c :: t =>
    if c = '"' then (match hi with | none => some ([], t) | some _ => none)
    else if c = '\\' then
      match t with
      | 'u' :: a :: b :: x :: d :: t' =>
        match hex4 a b x d with
        | none => none
        | some n =>
          match hi with
          | some h =>
            if 0xDC00 ≤ n ∧ n ≤ 0xDFFF then
              (readStrBody none t').map (consFst (Char.ofNat (0x10000 + (h - 0xD800) * 0x400 + (n - 0xDC00))))
            else none
          | none =>
            if 0xD800 ≤ n ∧ n ≤ 0xDBFF then readStrBody (some n) t'
            else if 0xDC00 ≤ n ∧ n ≤ 0xDFFF then none
            else (readStrBody none t').map (consFst (Char.ofNat n))
      | e :: t' =>
        match hi, simpleEsc e with
        | none, some ch => (readStrBody none t').map (consFst ch)
        | _, _ => none
      | [] => none
    else if c.toNat < 0x20 then none
    else match hi with
      | none => (readStrBody none t).map (consFst c)
      | some _ => none

def isDigit (c : Char) : Bool := '0' ≤ c && c ≤ '9'

def isNumChar (c : Char) : Bool := isDigit c || c == '-' || c == '+' || c == '.' || c == 'e' || c == 'E'

def isNumStart (c : Char) : Bool := isDigit c || c == '-'

/-- value of a digit string (caller checks the characters) -/
def natOfDigits (ds : List Char) : Nat := ds.foldl (fun acc d => acc * 10 + (d.toNat - 48)) 0

/-- `0` or a digit string without a leading zero -/
def canonNat (ds : List Char) : Bool :=
  match ds with
  | [] => false
  | [d] => isDigit d
  | d :: _ :: _ => isDigit d && d != '0' && ds.all isDigit

/-- a number token that is a plain integer: its value (`-0` is not one: it stays a literal) -/
def readIntLit : List Char → Option Int
  | '-' :: ds => if canonNat ds && ds != ['0'] then some (-(Int.ofNat (natOfDigits ds))) else none
  | ds => if canonNat ds then some (Int.ofNat (natOfDigits ds)) else none

def expOk : List Char → Bool
  | [] => true
  | e :: t =>
    (e == 'e' || e == 'E') &&
      (match t with
       | s :: ds => if s == '+' || s == '-' then !ds.isEmpty && ds.all isDigit else (s :: ds).all isDigit
       | [] => false)

/-- RFC 8259 `number` -/
def validNumber (s : List Char) : Bool :=
  let s := match s with | '-' :: t => t | _ => s
  let ip := s.takeWhile isDigit
  let r1 := s.dropWhile isDigit
  canonNat ip &&
    (match r1 with
     | '.' :: t => !(t.takeWhile isDigit).isEmpty && expOk (t.dropWhile isDigit)
     | r => expOk r)

def readNumber (s : List Char) : Option (JVal × List Char) :=
  let tok := s.takeWhile isNumChar
  let rest := s.dropWhile isNumChar
  match readIntLit tok with
  | some i => some (.int i, rest)
  | none => if validNumber tok then some (.num tok, rest) else none

def mapFst {α β γ : Type} (f : α → γ) (p : α × β) : γ × β := (f p.1, p.2)

mutual
def readValue : Nat → List Char → Option (JVal × List Char)
  | 0, _ => none
  | f + 1, s =>
    match skipWs s with
    | [] => none
    | c :: t =>
      if isNumStart c then readNumber (c :: t)
      else if c = '"' then (readStrBody none t).map (mapFst .str)
      else if c = '[' then
        (match skipWs t with
         | [] => none
         | d :: t' => if d = ']' then some (.arr [], t') else (readElems f (d :: t')).map (mapFst .arr))
      else if c = '{' then
        (match skipWs t with
         | [] => none
         | d :: t' => if d = '}' then some (.obj [], t') else (readMems f (d :: t')).map (mapFst .obj))
      else if c = 'n' then (match t with | 'u' :: 'l' :: 'l' :: t' => some (.null, t') | _ => none)
      else if c = 't' then (match t with | 'r' :: 'u' :: 'e' :: t' => some (.bool true, t') | _ => none)
      else if c = 'f' then (match t with | 'a' :: 'l' :: 's' :: 'e' :: t' => some (.bool false, t') | _ => none)
      else none
/-- elements after `[`, up to and including the closing `]` -/
def readElems : Nat → List Char → Option (List JVal × List Char)
  | 0, _ => none
  | f + 1, s =>
    match readValue f s with
    | none => none
    | some (v, r) =>
      match skipWs r with
      | [] => none
      | c :: r' =>
        if c = ',' then (readElems f r').map (mapFst (v :: ·))
        else if c = ']' then some ([v], r')
        else none
/-- members after `{`, up to and including the closing `}` -/
def readMems : Nat → List Char → Option (List (Key × JVal) × List Char)
  | 0, _ => none
  | f + 1, s =>
    match skipWs s with
    | [] => none
    | q :: t =>
      if q = '"' then
        match readStrBody none t with
        | none => none
        | some (k, r) =>
          match skipWs r with
          | [] => none
          | c :: r1 =>
            if c = ':' then
              match readValue f r1 with
              | none => none
              | some (v, r2) =>
                match skipWs r2 with
                | [] => none
                | e :: r3 =>
                  if e = ',' then (readMems f r3).map (mapFst ((k, v) :: ·))
                  else if e = '}' then some ([(k, v)], r3)
                  else none
            else none
      else none
end

/-- a complete text that is one JSON object (nothing but whitespace after it): its members in order -/
def readObject (s : List Char) : Option (List (Key × JVal)) :=
  match readValue (s.length + 1) s with
  | some (.obj kvs, r) => if (skipWs r).isEmpty then some kvs else none
  | _ => none

def singleLine (s : List Char) : Bool := !s.contains '\n'

/-! ## what a result's fields are -/

/-- an invalid byte of a Go string stands for U+FFFD (what every UTF-8 reader makes of it) -/
def sanitize : GoStr → List Char
  | [] => []
  | .ch c :: t => c :: sanitize t
  | .bad _ :: t => '\uFFFD' :: sanitize t

mutual
/-- the JSON value a (normalised) Go value tree stands for -/
def toJ : GoVal → JVal
  | .null => .null
  | .bool b => .bool b
  | .int i => .int i
  | .num l => .num l
  | .str s => .str s
  | .arr l => .arr (toJList l)
  | .map kvs => .obj (toJMems kvs)
  | .struct kvs => .obj (toJMems kvs)
def toJList : List GoVal → List JVal
  | [] => []
  | v :: t => toJ v :: toJList t
def toJMems : List (List Char × GoVal) → List (Key × JVal)
  | [] => []
  | (k, v) :: t => (k, toJ v) :: toJMems t
end

mutual
/-- well-formed: a float literal obeys the number grammar and is not a plain integer (those are `.int`) -/
def wf : GoVal → Bool
  | .num l => validNumber l && (readIntLit l).isNone && l.all isNumChar &&
      (match l with | c :: _ => isNumStart c | [] => false)
  | .arr l => wfList l
  | .map kvs => wfMems kvs
  | .struct kvs => wfMems kvs
  | _ => true
def wfList : List GoVal → Bool
  | [] => true
  | v :: t => wf v && wfList t
def wfMems : List (List Char × GoVal) → Bool
  | [] => true
  | (_, v) :: t => wf v && wfMems t
end

/-- a server-supplied value: Go maps as the object with their members (in key order) -/
def meaning (v : GoVal) : JVal := toJ (norm v)

def k (s : String) : Key := s.toList

def fieldsOf : Result → List (Key × JVal)
  | .arp r => [(k "ip", .str (sanitize r.ip)), (k "mac", .str (sanitize r.mac)), (k "vendor", .str (sanitize r.vendor))]
  | .tcp r =>
    [(k "scan", .str (sanitize r.scan)), (k "ip", .str (sanitize r.ip)), (k "port", .int r.port.toNat)]
      ++ (if r.flags.isEmpty then [] else [(k "flags", .str (sanitize r.flags))])
  | .icmp r =>
    [(k "scan", .str (sanitize r.scan)), (k "ip", .str (sanitize r.ip)), (k "ttl", .int r.ttl.toNat),
     (k "icmp", match r.icmp with
        | none => .null
        | some (t, c) => .obj [(k "type", .int t.toNat), (k "code", .int c.toNat)])]
  | .socks r =>
    [(k "scan", .str (sanitize r.scan)), (k "version", .int r.version), (k "ip", .str (sanitize r.ip)),
     (k "port", .int r.port.toNat)] ++ (if r.auth then [(k "auth", .bool true)] else [])
  | .elastic r =>
    [(k "scan", .str (sanitize r.scan)), (k "proto", .str (sanitize r.proto)), (k "host", .str (sanitize r.host)),
     (k "info", meaning r.info), (k "indexes", meaning r.indexes)]
  | .docker r =>
    [(k "scan", .str (sanitize r.scan)), (k "proto", .str (sanitize r.proto)), (k "host", .str (sanitize r.host)),
     (k "info", meaning r.info), (k "version", meaning r.version)]

def resultWf : Result → Bool
  | .elastic r => wf r.info && wf r.indexes
  | .docker r => wf r.info && wf r.version
  | _ => true

def beqFields (a b : Option (List (Key × JVal))) : Bool :=
  match a, b with
  | some x, some y => beqMems x y
  | _, _ => false

/-- one output line (without its newline) is a faithful record of `r` -/
def holdsLine (r : Result) (obs : List Char) : Bool :=
  singleLine obs && beqFields (readObject obs) (some (fieldsOf r))

/-! ## the log as a whole -/

def linesAux : List Char → List Char → Option (List (List Char))
  | cur, [] => if cur.isEmpty then some [] else none
  | cur, c :: t => if c = '\n' then (linesAux [] t).map (cur.reverse :: ·) else linesAux (c :: cur) t

/-- the newline-terminated lines of an output (`none` if the last line is not terminated) -/
def linesOf (s : List Char) : Option (List (List Char)) := linesAux [] s

def allLines : List Result → List (List Char) → Bool
  | [], [] => true
  | r :: rs, l :: ls => holdsLine r l && allLines rs ls
  | _, _ => false

/-- elements whose key did not occur earlier in the list, in order: keep the head, drop every later
    element with the head's key, go on -/
def firstOccurrences {α κ : Type} [DecidableEq κ] (id : α → κ) : List α → List α
  | [] => []
  | r :: t => r :: (firstOccurrences id t).filter (fun q => id q ≠ id r)

/-- observed output `obs` of logging `rs` (with or without de-duplication): exactly one faithful line
    per expected result, in order, nothing else.  Identity of a host = `Result.ID()` (the property's
    "keyed by ID"; for the ARP scan, where de-duplication is wired, that is the IP text). -/
def holdsLog (uniq : Bool) (rs : List Result) (obs : List Char) : Bool :=
  let expected := if uniq then firstOccurrences Result.id rs else rs
  match linesOf obs with
  | some ls => allLines expected ls
  | none => false

end SxVerif.Spec.Json
