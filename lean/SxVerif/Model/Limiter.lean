/-
M-lim — model of `go.uber.org/ratelimit` v0.2.0 `limiter_atomic.go` (`newAtomicBased`, `atomicLimiter.Take`)
and of the two sx wrappers that put it in front of the wire (`pkg/packet/readwriter.go`
`rateLimitReadWriter`, `pkg/scan/engine.go` `rateLimitScanner`).

Time is an `Int`: nanoseconds since Go's zero `time.Time` (0001-01-01T00:00:00Z), so that
`oldState.last.IsZero()` is `last = 0`, exactly the test the code makes.  `time.Duration` is an `Int`
(nanoseconds); int64 overflow / the saturation of `Time.Sub` at ±292 years is not modelled (registry:
assumption).

`Take` is a CAS loop: read the clock, load the state, compute the new state, compare-and-swap, retry on
failure.  Only the iteration whose CAS succeeds changes the state, and it changes it as a function of
the state it loaded and the clock reading *of that iteration*; the successful CASes are totally ordered.
Hence the sequential model: one state update per `Take`, `now` = the clock reading of the successful
iteration, in CAS order.  Nothing below assumes these readings to be monotone.
-/
namespace SxVerif.Limiter

/-- `atomicLimiter.perRequest`, `atomicLimiter.maxSlack` -/
structure Cfg where
  perRequest : Int
  maxSlack : Int
  deriving Repr, DecidableEq

/-- `newAtomicBased(rate, Per(per), [WithSlack(slack)])`:
    `perRequest := config.per / time.Duration(rate)` (Go integer division truncates towards zero; a zero
    `rate` is a run-time panic "integer divide by zero" = `none`), `maxSlack := -1 * slack * perRequest`. -/
def new (rate per slack : Int) : Option Cfg :=
  if rate = 0 then none
  else
    let perRequest := Int.tdiv per rate
    some ⟨perRequest, -1 * slack * perRequest⟩

/-- the library default `slack: 10` of `buildConfig` (sx passes no `WithSlack`/`WithoutSlack`:
    `Generated/Limiter.lean`) -/
def defaultSlack : Int := 10

/-- total version used where `rate ≠ 0` is known (`rateCount > 0` at both wiring sites) -/
def cfg (rate per : Int) (slack : Int := defaultSlack) : Cfg :=
  ⟨Int.tdiv per rate, -1 * slack * Int.tdiv per rate⟩

/-- `type state struct { last time.Time; sleepFor time.Duration }` -/
structure State where
  last : Int        -- 0 = the zero `time.Time` ("no request yet")
  sleepFor : Int
  deriving Repr, DecidableEq

/-- `initialState := state{last: time.Time{}, sleepFor: 0}` -/
def State.init : State := ⟨0, 0⟩

/-- what one `Take` does besides updating the state -/
structure Out where
  release : Int     -- the returned `newState.last`: the time the caller is let go
  interval : Int    -- the argument of `t.clock.Sleep(interval)`
  deriving Repr, DecidableEq

/-- the successful iteration of the CAS loop of `Take`, as a function of the loaded state and `now` -/
def takeFull (c : Cfg) (old : State) (now : Int) : State × Out :=
  -- newState = state{last: now, sleepFor: oldState.sleepFor}
  if old.last = 0 then
    -- "If this is our first request, then we allow it."
    (⟨now, old.sleepFor⟩, ⟨now, 0⟩)
  else
    -- newState.sleepFor += t.perRequest - now.Sub(oldState.last)
    let s1 := old.sleepFor + (c.perRequest - (now - old.last))
    -- if newState.sleepFor < t.maxSlack { newState.sleepFor = t.maxSlack }
    let s2 := if s1 < c.maxSlack then c.maxSlack else s1
    -- if newState.sleepFor > 0 { newState.last = newState.last.Add(newState.sleepFor)
    --                            interval, newState.sleepFor = newState.sleepFor, 0 }
    if s2 > 0 then (⟨now + s2, 0⟩, ⟨now + s2, s2⟩)
    else (⟨now, s2⟩, ⟨now, 0⟩)

/-- `take : State → now → State × release` -/
def take (c : Cfg) (old : State) (now : Int) : State × Int :=
  let r := takeFull c old now
  (r.1, r.2.release)

/-- a run over a finite list of clock readings (what the driver executes) -/
def run (c : Cfg) : State → List Int → List Out
  | _, [] => []
  | st, now :: rest =>
    let r := takeFull c st now
    r.2 :: run c r.1 rest

/-- the same over an infinite sequence of readings (what the theorems speak about):
    the state in which the `j`-th `Take` (0-based, CAS order) finds the limiter -/
def stateAt (c : Cfg) (now : Nat → Int) : Nat → State
  | 0 => State.init
  | j + 1 => (takeFull c (stateAt c now j) (now j)).1

def outAt (c : Cfg) (now : Nat → Int) (j : Nat) : Out := (takeFull c (stateAt c now j) (now j)).2

/-- the time `Take` number `j` lets its probe go -/
def release (c : Cfg) (now : Nat → Int) (j : Nat) : Int := (outAt c now j).release

/-- the state *after* `Take` number `j` -/
def sleepForAfter (c : Cfg) (now : Nat → Int) (j : Nat) : Int := (stateAt c now (j + 1)).sleepFor

/-! ### the wrappers -/

/-- calls arriving at a wrapper from the engine -/
inductive Op where
  | send      -- `WritePacketData(pkt)` on the packet wrapper / `Scan(ctx, r)` on the scanner wrapper
  | recv      -- `ReadPacketData()` (packet wrapper only)
  deriving Repr, DecidableEq

/-- what the wrapper does, in order -/
inductive Ev where
  | take        -- `limiter.Take()`
  | delegate    -- the same method of the wrapped object, same arguments, result returned unchanged
  deriving Repr, DecidableEq

/-- `rateLimitReadWriter.WritePacketData` / `rateLimitScanner.Scan`: Take once, then delegate;
    `ReadPacketData` is the embedded delegate's method (not overridden) -/
def wrapperOp : Op → List Ev
  | .send => [.take, .delegate]
  | .recv => [.delegate]

/-- the events of a sequence of calls, each tagged with the call it belongs to -/
def wrapperRun (ops : List Op) : List (Op × List Ev) := ops.map (fun o => (o, wrapperOp o))

/-! ### T: shapes `sxfacts` reports about the wrappers and the wiring, and how the model reads them

`Generated/Limiter.lean` is plain data regenerated from the tree on every run.  `wrapperEvents` gives that
data its meaning: the ordered events a call of method `name` on the wrapper type produces.  A body is only
understood if it is a straight line of call statements (any `if`/`for`/`go`/`defer`/closure/nested call is
reported with another `kind` or a `callCount` that differs from the number of statements, and the reading
is `none`). -/

structure CallStmt where
  kind : String          -- "expr" = a call as a statement; "expr-or-cancel" = the same call made in a goroutine and
                         -- awaited against ctx.Done(); "return" = `return <one call>`; else not understood
  callee : List String   -- selector path of the call, e.g. ["rw", "limiter", "Take"]
  args : List String     -- argument expressions, source text
  deriving Repr, DecidableEq

structure MethodFacts where
  name : String
  recv : String          -- receiver variable
  params : List String   -- parameter names in order
  body : List CallStmt   -- top-level statements in order
  callCount : Nat        -- call expressions anywhere in the body (nested, closures, go/defer included)
  deriving Repr, DecidableEq

structure WrapperFacts where
  typeName : String
  embedded : List String              -- embedded (promoting) fields: type names
  fields : List (String × String)     -- named fields: (name, type)
  methods : List MethodFacts          -- every method declared on the type, anywhere in its package
  ctorName : String
  ctorParams : List (String × String) -- (name, type)
  ctorResult : String                 -- `T` when the body is `return &T{…}`, "" if it is anything else
  ctorInit : List (String × String)   -- (field, expression) of that literal
  deriving Repr, DecidableEq

structure WiringFacts where
  func : String
  guard : List String          -- condition of the `if` that installs the limiter: [lhs, operator, rhs]
  guardHasElse : Bool
  guardedStmts : Nat           -- statements in the `if` body
  target : String              -- variable assigned there
  wrapperCtor : String         -- e.g. "packet.NewRateLimitReadWriter"
  wrapped : String             -- first argument: the object being wrapped
  limiterCtor : String         -- e.g. "ratelimit.New"
  limiterArgs : List (String × List String)  -- all its arguments: (callee, its arguments) or ("", [expression])
  limiterArgPaths : List (List String)       -- selector path of the (innermost) argument of each
  targetInit : String          -- what `target` holds when the guard is false
  otherAssignments : Nat       -- further assignments to `target` in the function
  consumer : String            -- the call that receives `target` afterwards
  consumerArgs : List String
  deriving Repr, DecidableEq

/-- the field that holds the limiter: the only named field of the wrapper struct -/
def limiterField (w : WrapperFacts) : Option String :=
  match w.fields with
  | [(f, _)] => some f
  | _ => none

def stmtEvent (w : WrapperFacts) (lf : String) (m : MethodFacts) (s : CallStmt) : Option Ev :=
  if (s.kind == "expr" || s.kind == "expr-or-cancel") && s.callee == [m.recv, lf, "Take"] && s.args == [] then some .take
  else if s.kind == "return" && w.embedded.any (fun e => s.callee == [m.recv, e, m.name]) && s.args == m.params then
    some .delegate
  else none

/-- the method's `Take` is of kind "expr-or-cancel": made in a goroutine and awaited against `ctx.Done()`; when the
    scan is cancelled the method returns `nil, ctx.Err()` at once and does not delegate (the events above describe
    a call of a scan that is not cancelled) -/
def takeInterruptible (w : WrapperFacts) (name : String) : Bool :=
  match limiterField w, w.methods.filter (·.name == name) with
  | some lf, [m] => m.body.any (fun s => s.kind == "expr-or-cancel" && s.callee == [m.recv, lf, "Take"])
  | _, _ => false

def methodEvents (w : WrapperFacts) (lf : String) (m : MethodFacts) : Option (List Ev) :=
  if m.callCount == m.body.length then m.body.mapM (stmtEvent w lf m) else none

/-- the events of a call of method `name` on the wrapper; a method that the type does not declare is the
    embedded delegate's (Go method promotion) -/
def wrapperEvents (w : WrapperFacts) (name : String) : Option (List Ev) :=
  match limiterField w with
  | none => none
  | some lf =>
    match w.methods.filter (·.name == name) with
    | [] => if w.embedded.length == 1 then some [.delegate] else none
    | [m] => methodEvents w lf m
    | _ => none

/-- the constructor stores its first parameter in the embedded field and its second in the limiter field -/
def ctorOK (w : WrapperFacts) : Bool :=
  match w.ctorParams, w.embedded, limiterField w with
  | [(d, _), (l, _)], [e], some lf => w.ctorResult == w.typeName && w.ctorInit == [(e, d), (lf, l)]
  | _, _, _ => false

/-- the wiring installs the wrapper exactly when `<x>.rateCount > 0`, around the object that would be used
    otherwise, with `ratelimit.New(<x>.rateCount, ratelimit.Per(<x>.rateWindow))` and no further option, and
    hands the result (and nothing else) to `consumer` -/
def wiringOK (w : WiringFacts) (wrapperCtor consumer : String) : Bool :=
  (match w.guard, w.limiterArgs, w.limiterArgPaths with
   | [cnt, ">", "0"], [("", [cnt']), ("ratelimit.Per", [_])], [pc, pw] =>
     cnt == cnt' && pc.dropLast == pw.dropLast && pc.getLast? == some "rateCount" && pw.getLast? == some "rateWindow"
   | _, _, _ => false) &&
  !w.guardHasElse && w.guardedStmts == 1 && w.wrapperCtor == wrapperCtor && w.limiterCtor == "ratelimit.New" &&
  w.wrapped == w.targetInit && w.otherAssignments == 0 && w.consumer == consumer &&
  (w.consumerArgs.filter (· == w.target)).length == 1

end SxVerif.Limiter
