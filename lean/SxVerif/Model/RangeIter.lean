/-
M-iter — model of `pkg/scan/range.go`: `newRangeIterator`, `(*rangeIterator).Next`, `Int`.

Core-only and executable (used by the line-protocol driver).  `big.Int` arithmetic is `Nat`
arithmetic (all values are non-negative in the code: P, G, N > 0, draws ≥ 0).  The Go loops
become fuel-bounded recursion with an explicit `diverge` outcome, so that termination is a
theorem (`Props/C04.lean`: the outcome is never `diverge`) and not an artefact of the model.
-/
namespace SxVerif.RangeIter

/-- One row of `cyclicGroups`. -/
structure Group where
  P : Nat
  G : Nat
  N : Nat
  deriving Repr, DecidableEq, Inhabited

/-- `sort.Search(n, f)`: Go's binary search, verbatim
    (`i, j := 0, n; for i < j { h := int(uint(i+j) >> 1); if !f(h) { i = h + 1 } else { j = h } }; return i`).
    Fuel `n + 1` is enough because `j - i` strictly decreases (proved in `Proofs/RangeIter`). -/
def goSearchF (f : Nat → Bool) : Nat → Nat → Nat → Nat
  | 0, i, _ => i
  | k + 1, i, j =>
    if i < j then
      let m := (i + j) / 2
      if !f m then goSearchF f k (m + 1) j else goSearchF f k i m
    else i

def goSearch (f : Nat → Bool) (n : Nat) : Nat := goSearchF f (n + 1) 0 n

/-- square-and-multiply with structural fuel -/
def powModF : Nat → Nat → Nat → Nat → Nat
  | 0, _, _, m => 1 % m
  | f + 1, b, e, m =>
    if e = 0 then 1 % m
    else
      let half := powModF f b (e / 2) m
      let sq := half * half % m
      if e % 2 = 1 then sq * b % m else sq

/-- `big.Int.Exp(b, e, m)` for `e ≥ 0`, `m > 0` (`= b ^ e % m`, proved in `Proofs/RangeIter`).
    Fuel `e` is ample (the exponent halves at each step) and costs nothing: it is never unfolded
    further than the recursion goes. -/
def powMod (b e m : Nat) : Nat := powModF e b e m

/-- the iterator struct (`rangeLimit` is `limit`) -/
structure It where
  P : Nat
  G : Nat
  I : Nat
  startI : Nat
  limit : Nat
  stop : Bool
  deriving Repr, DecidableEq

/-- body of the `for {}` in `Next`; `none` = fuel exhausted (the Go loop would still be spinning) -/
def stepLoop (it : It) : Nat → Option (It × Bool)
  | 0 => none
  | fuel + 1 =>
    let I' := it.I * it.G % it.P
    if I' = it.startI then some ({ it with I := I', stop := true }, false)
    else if I' ≤ it.limit then some ({ it with I := I' }, true)
    else stepLoop { it with I := I' } fuel

/-- `(*rangeIterator).Next` -/
def It.next (it : It) (fuel : Nat) : Option (It × Bool) :=
  if it.stop then some (it, false) else stepLoop it fuel

inductive Outcome where
  | rangeSizeErr            -- `errRangeSize`
  | invalidGroupErr         -- "invalid cyclic group: …"
  | ok (l : List Nat)       -- the values handed out by `Int()` before `Next()` returned false
  | diverge                 -- some loop did not finish within its fuel
  deriving Repr, DecidableEq

inductive NewResult where
  | rangeSizeErr
  | invalidGroupErr
  | ok (it : It)
  | diverge
  deriving Repr, DecidableEq

/-- `newRangeIterator(n)` with the two `rand.Int63()` draws `r1`, `r2` made explicit. -/
def newIter (tbl : List Group) (n : Int) (r1 r2 : Nat) : NewResult :=
  if n ≤ 0 then .rangeSizeErr
  else
    let nn := n.toNat
    let idx := goSearch (fun i => decide ((tbl.getD i default).P > nn)) tbl.length
    if idx = tbl.length then .rangeSizeErr
    else
      let c := tbl.getD idx default
      let e := powMod c.N (r1 + 1) (c.P - 1)      -- N.Exp(N, randM, P-1)
      let g := powMod c.G e c.P                   -- G.Exp(G, N, P)
      let randI := powMod g (r2 + 1) c.P          -- Exp(G, randM, P)
      let it : It := { P := c.P, G := g, I := randI, startI := randI, limit := nn, stop := false }
      match it.next c.P with
      | none => .diverge
      | some (it', found) =>
        if !found && nn > 1 then .invalidGroupErr
        else .ok { it' with startI := it'.I }

/-- the consumer loop used by every caller: `for { use(it.Int()); if !it.Next() { break } }` -/
def drain (fuel : Nat) : It → Nat → Option (List Nat)
  | _, 0 => none
  | it, k + 1 =>
    match it.next fuel with
    | none => none
    | some (it', true) => (drain fuel it' k).map (it'.I :: ·)
    | some (_, false) => some []

def run (tbl : List Group) (n : Int) (r1 r2 : Nat) : Outcome :=
  match newIter tbl n r1 r2 with
  | .rangeSizeErr => .rangeSizeErr
  | .invalidGroupErr => .invalidGroupErr
  | .diverge => .diverge
  | .ok it =>
    match drain it.P it (it.limit + 1) with
    | none => .diverge
    | some l => .ok (it.I :: l)

end SxVerif.RangeIter
