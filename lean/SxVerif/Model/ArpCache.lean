/-
M-json, second half (C11): what the ARP scan prints and how the IP-level scans load it.

* `fmtIP`  = `net.IP(4 bytes).String()`, `fmtMAC` = `net.HardwareAddr(6 bytes).String()`
* `parseIP` = `net.ParseIP` for dotted-quad text and the `::ffff:a.b.c.d` spelling (go1.23
  `parseIPv4Fields`: decimal fields ≤ 255, no leading zero, exactly four); other IPv6 text is outside the
  model.  The cache key is `ip.String()`, so both spellings give the same key: the IPv4 value.
* `parseMAC` = `net.ParseMAC` (6/8/20 byte `xx:xx`, `xx-xx` and `xxxx.xxxx` forms).
* `decodeLine` = easyjson `ScanResult.UnmarshalJSON` on one line: the line must be one JSON object (the
  RFC 8259 reader of Spec/Json stands for jlexer); `ip`/`mac`/`vendor` must be strings, a `null` value
  leaves the field as it is, unknown keys are skipped with their value, a repeated key overwrites.
* `fillCache` = `arp.FillCache`: lines in order, stop with an error at the first bad line, `Put` overwrites.
* lookup and the request stage are `Gen.cacheGet` / `Gen.cacheStage` (C13's model), keyed by the address.
Core Lean only.
-/
import SxVerif.Model.Json
import SxVerif.Model.Gen
import SxVerif.Spec.Json

namespace SxVerif.ArpCache
open SxVerif.Json SxVerif.Gen
open SxVerif.Spec.Json (JVal readObject hexVal isDigit)

/-- `net.IP{a,b,c,d}.String()` -/
def fmtIP (a b c d : UInt8) : List Char :=
  natDigits a.toNat ++ '.' :: (natDigits b.toNat ++ '.' :: (natDigits c.toNat ++ '.' :: natDigits d.toNat))

def hex2 (b : UInt8) : List Char := [hexChar (b.toNat / 16), hexChar (b.toNat % 16)]

/-- `net.HardwareAddr{b0..b5}.String()` -/
def fmtMAC (b0 b1 b2 b3 b4 b5 : UInt8) : List Char :=
  hex2 b0 ++ ':' :: (hex2 b1 ++ ':' :: (hex2 b2 ++ ':' :: (hex2 b3 ++ ':' :: (hex2 b4 ++ ':' :: hex2 b5))))

/-- `parseIPv4Fields`: `fs` = fields finished so far, `val`/`dl` = value and digit count of the current one -/
def parseV4Aux : List Nat → Nat → Nat → List Char → Option (List Nat)
  | fs, val, dl, [] => if dl = 0 then none else some (fs ++ [val])
  | fs, val, dl, c :: t =>
    if isDigit c then
      if dl = 1 ∧ val = 0 then none                     -- leading zero
      else if val * 10 + (c.toNat - 48) > 255 then none
      else parseV4Aux fs (val * 10 + (c.toNat - 48)) (dl + 1) t
    else if c = '.' then
      if dl = 0 then none                                -- empty field
      else if fs.length = 3 then none                    -- too many fields
      else parseV4Aux (fs ++ [val]) 0 0 t
    else none

def parseV4 (s : List Char) : Option Nat :=
  match parseV4Aux [] 0 0 s with
  | some [a, b, c, d] => some (((a * 256 + b) * 256 + c) * 256 + d)
  | _ => none

def dropPrefix (p : List Char) (s : List Char) : Option (List Char) :=
  if p.isPrefixOf s then some (s.drop p.length) else none

/-- `net.ParseIP(s)` as the cache key it leads to (`ip.String()` of an IPv4 or v4-mapped address = the IPv4
    value); `none` = not an address.  Only colon-free text and the `::ffff:` spelling are modelled. -/
def parseIP (s : List Char) : Option Nat :=
  match dropPrefix [':', ':', 'f', 'f', 'f', 'f', ':'] s with
  | some t => parseV4 t
  | none => parseV4 s

def hexByte (a b : Char) : Option UInt8 :=
  match hexVal a, hexVal b with
  | some x, some y => some (UInt8.ofNat (x * 16 + y))
  | _, _ => none

/-- `xx<sep>xx<sep>…xx` -/
def macPairs (sep : Char) : List Char → Option (List UInt8)
  | [a, b] => (hexByte a b).map ([·])
  | a :: b :: s :: rest =>
    if s = sep then
      match hexByte a b, macPairs sep rest with
      | some x, some l => some (x :: l)
      | _, _ => none
    else none
  | _ => none

/-- `xxxx.xxxx.…` -/
def macQuads : List Char → Option (List UInt8)
  | [a, b, c, d] =>
    match hexByte a b, hexByte c d with
    | some x, some y => some [x, y]
    | _, _ => none
  | a :: b :: c :: d :: s :: rest =>
    if s = '.' then
      match hexByte a b, hexByte c d, macQuads rest with
      | some x, some y, some l => some (x :: y :: l)
      | _, _, _ => none
    else none
  | _ => none

def macLenOk (l : List UInt8) : Bool := l.length == 6 || l.length == 8 || l.length == 20

/-- `net.ParseMAC` -/
def parseMAC (s : List Char) : Option (List UInt8) :=
  match s with
  | _ :: _ :: sep :: _ =>
    if sep = ':' ∨ sep = '-' then
      match macPairs sep s with
      | some l => if macLenOk l then some l else none
      | none => none
    else
      match macQuads s with
      | some l => if macLenOk l then some l else none
      | none => none
  | _ => none

structure Entry where
  ip : List Char := []
  mac : List Char := []
  deriving Repr, DecidableEq, Inhabited

/-- the decoder loop of `easyjson…DecodeGithubComVByteCpuSxPkgScanArp` over the members of the object -/
def decodeFields : Entry → List (List Char × JVal) → Option Entry
  | e, [] => some e
  | e, (key, v) :: t =>
    match v with
    | .null => decodeFields e t                                     -- `in.IsNull()`: skip, keep the field
    | _ =>
      if key = ['i', 'p'] then
        (match v with | .str s => decodeFields { e with ip := s } t | _ => none)
      else if key = ['m', 'a', 'c'] then
        (match v with | .str s => decodeFields { e with mac := s } t | _ => none)
      else if key = ['v', 'e', 'n', 'd', 'o', 'r'] then
        (match v with | .str _ => decodeFields e t | _ => none)
      else decodeFields e t                                         -- `in.SkipRecursive()`

/-- `entry.UnmarshalJSON(line)` -/
def decodeLine (line : List Char) : Option Entry :=
  match readObject line with
  | some kvs => decodeFields {} kvs
  | none => none

abbrev Cache := List (Addr × Nat)

def macNat (l : List UInt8) : Nat := l.foldl (fun acc b => acc * 256 + b.toNat) 0

/-- one iteration of the `FillCache` loop: the `Put` it performs, or `none` = the error it returns -/
def lineEntry (line : List Char) : Option (Addr × Nat) :=
  match decodeLine line with
  | none => none
  | some e =>
    match parseIP e.ip, parseMAC e.mac with
    | some a, some m => some (.v4 a false, macNat m)
    | _, _ => none

/-- `arp.FillCache` (`none` = it returns an error and the command fails) -/
def fillCache : List (List Char) → Option Cache
  | [] => some []
  | l :: t =>
    match lineEntry l with
    | none => none
    | some kv => (fillCache t).map (kv :: ·)

/-- the line the ARP scan prints for a reply from `ip` / `mac` (vendor looked up in a table: any string) -/
def arpLine (a b c d : UInt8) (m0 m1 m2 m3 m4 m5 : UInt8) (vendor : GoStr) : List Char :=
  render (.arp ⟨ofChars (fmtIP a b c d), ofChars (fmtMAC m0 m1 m2 m3 m4 m5), vendor⟩)

def ipNat (a b c d : UInt8) : Nat := ((a.toNat * 256 + b.toNat) * 256 + c.toNat) * 256 + d.toNat

end SxVerif.ArpCache
