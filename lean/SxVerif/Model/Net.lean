/-
M-net — model of `pkg/ip/ip.go: ParseIPNet`, including the part of the Go standard library it relies
on for colon-free input (`netip.ParseAddr` → `parseIPv4Fields`, `net.ParseCIDR`, `dtoi`, go1.23).
Strings are byte strings; a byte is a `Char` with the same code (the driver maps them 1:1), which is
faithful because every byte ≥ 0x80 is just an "unexpected character" to these parsers.

Every IPv6 textual form contains ':' and is refused up front (the `fix:` for D1), so IPv6 parsing is
not modelled at all.
-/
import SxVerif.Model.Gen

namespace SxVerif.NetParse
open SxVerif.Gen

def isDigit (c : Char) : Bool := '0' ≤ c && c ≤ '9'
def digitVal (c : Char) : Nat := c.toNat - '0'.toNat

/-- `parseIPv4Fields`: state = (val, digLen, pos, fields so far); `prevDot` = previous byte was '.' or
    we are at the start -/
def v4Loop : List Char → (val digLen pos : Nat) → (fields : List Nat) → (first : Bool) → (prevDot : Bool) → Option (List Nat)
  | [], val, _, pos, fields, _, _ => if pos < 3 then none else some (fields ++ [val])
  | c :: rest, val, digLen, pos, fields, first, prevDot =>
    if isDigit c then
      if digLen == 1 && val == 0 then none          -- octet with leading zero
      else
        let val' := val * 10 + digitVal c
        if val' > 255 then none else v4Loop rest val' (digLen + 1) pos fields false false
    else if c == '.' then
      -- ".1.2.3", "1.2.3.", "1..2.3"
      if first || rest.isEmpty || prevDot then none
      else if pos == 3 then none                     -- too long
      else v4Loop rest 0 0 (pos + 1) (fields ++ [val]) false true
    else none                                        -- unexpected character

/-- `netip.ParseAddr` restricted to colon-free input: the four octets -/
def parseV4 (s : List Char) : Option (List Nat) := v4Loop s 0 0 0 [] true false

def quadVal : List Nat → Nat
  | [a, b, c, d] => ((a * 256 + b) * 256 + c) * 256 + d
  | _ => 0

/-- `dtoi`: `(n, i, ok)`; `big = 0xFFFFFF` -/
def dtoiLoop : List Char → (n i : Nat) → Nat × Nat × Bool
  | [], n, i => (n, i, i != 0)
  | c :: rest, n, i =>
    if isDigit c then
      let n' := n * 10 + digitVal c
      if n' ≥ 0xFFFFFF then (0xFFFFFF, i, false) else dtoiLoop rest n' (i + 1)
    else (n, i, i != 0)

def dtoi (s : List Char) : Nat × Nat × Bool := dtoiLoop s 0 0

def splitSlash : List Char → Option (List Char × List Char)
  | [] => none
  | c :: rest => if c == '/' then some ([], rest) else (splitSlash rest).map (fun (a, b) => (c :: a, b))

/-- `net.ParseCIDR` on colon-free input: masked base and prefix length -/
def parseCIDR (s : List Char) : Option (Nat × Nat) :=
  match splitSlash s with
  | none => none
  | some (addr, mask) =>
    match parseV4 addr with
    | none => none
    | some q =>
      let (n, i, ok) := dtoi mask
      if !ok || i != mask.length || n > 32 then none
      else
        let v := quadVal q
        some (v / 2 ^ (32 - n) * 2 ^ (32 - n), n)

/-- `ip.ParseIPNet` (after the D1 fix): `none` = `ErrInvalidAddr` -/
def parseIPNet (s : List Char) : Option Net :=
  if s.contains ':' then none
  else
    match parseCIDR s with
    | some (base, ones) => some { bytes := 4, base := base, ones := ones, bits := 32 }
    | none =>
      match parseV4 s with
      | some q => some { bytes := 4, base := quadVal q, ones := 32, bits := 32 }
      | none => none

end SxVerif.NetParse
