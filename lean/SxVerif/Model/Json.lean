/-
M-json — model of sx's JSON output path.

* Go strings are byte strings.  `decodeGo` is `utf8.DecodeRuneInString` applied repeatedly (what both
  escapers do): a string becomes a list of *pieces*, a valid scalar value or one invalid byte.
* `escEasy`  = `jwriter.Writer.String` of easyjson v0.7.7 (HTML-escaping table, `NoEscapeHTML` unset).
* `escStd`   = `encoding/json.appendString(…, escapeHTML = true)` of go1.23.
* `natDigits`/`intDigits` = `strconv.AppendUint/AppendInt(·, 10)`.
* `GoVal` = the value tree `encoding/json` walks for the server-supplied parts (`map[string]interface{}`
  of the elastic result, `types.Info` / `types.Version` of the docker result): Go maps are emitted with
  sorted keys (`norm`), structs in declaration order.
* encoders of the six result structs (seven result kinds: udp reuses `icmp.ScanResult`).
* `JSONResultWriter.Write` = one write of `render r ++ "\n"`; `LogResults` = one `Write` per result in
  channel order; `uniqResults` = pass a result iff its `ID()` was not seen before.
Core Lean only.
-/
namespace SxVerif.Json

/-! ## Go strings -/

/-- one step of ranging over a Go string: a decoded scalar value, or one byte that does not start a
    valid UTF-8 sequence (`utf8.DecodeRuneInString` returns `(RuneError, 1)`) -/
inductive Piece where
  | ch (c : Char)
  | bad (b : UInt8)
  deriving Repr, DecidableEq, Inhabited

abbrev GoStr := List Piece

def cont (b : UInt8) : Bool := 0x80 ≤ b && b ≤ 0xBF

/-- `utf8.DecodeRuneInString` on `b0 :: t`: `some (rune, rest)` for a valid sequence, `none` for
    `(RuneError, 1)`.  Accept ranges as in Go's `first`/`acceptRanges` tables:
    C2..DF | E0 A0..BF | E1..EC,EE,EF | ED 80..9F | F0 90..BF | F1..F3 | F4 80..8F; anything else
    (stray continuation, C0/C1, F5..FF, truncated, bad second byte) is invalid. -/
def decodeStep (b0 : UInt8) (t : List UInt8) : Option (Char × List UInt8) :=
  if b0 < 0x80 then some (Char.ofNat b0.toNat, t)
  else if 0xC2 ≤ b0 && b0 ≤ 0xDF then
    match t with
    | b1 :: t1 =>
      if cont b1 then some (Char.ofNat ((b0.toNat % 32) * 64 + b1.toNat % 64), t1) else none
    | [] => none
  else if 0xE0 ≤ b0 && b0 ≤ 0xEF then
    match t with
    | b1 :: b2 :: t2 =>
      let lo : UInt8 := if b0 == 0xE0 then 0xA0 else 0x80
      let hi : UInt8 := if b0 == 0xED then 0x9F else 0xBF
      if lo ≤ b1 && b1 ≤ hi && cont b2 then
        some (Char.ofNat (((b0.toNat % 16) * 64 + b1.toNat % 64) * 64 + b2.toNat % 64), t2)
      else none
    | _ => none
  else if 0xF0 ≤ b0 && b0 ≤ 0xF4 then
    match t with
    | b1 :: b2 :: b3 :: t3 =>
      let lo : UInt8 := if b0 == 0xF0 then 0x90 else 0x80
      let hi : UInt8 := if b0 == 0xF4 then 0x8F else 0xBF
      if lo ≤ b1 && b1 ≤ hi && cont b2 && cont b3 then
        some (Char.ofNat ((((b0.toNat % 8) * 64 + b1.toNat % 64) * 64 + b2.toNat % 64) * 64 + b3.toNat % 64), t3)
      else none
    | _ => none
  else none

def decodeGoF : Nat → List UInt8 → GoStr
  | 0, _ => []
  | _ + 1, [] => []
  | f + 1, b0 :: t =>
    match decodeStep b0 t with
    | some (c, rest) => .ch c :: decodeGoF f rest
    | none => .bad b0 :: decodeGoF f t

/-- ranging over a Go string (fuel = length: every step consumes at least one byte) -/
def decodeGo (bs : List UInt8) : GoStr := decodeGoF bs.length bs

/-- a valid-UTF-8 Go string is just its list of characters -/
def ofChars (s : List Char) : GoStr := s.map .ch

def GoStr.valid (s : GoStr) : Bool := s.all (fun p => match p with | .ch _ => true | .bad _ => false)

/-! ## numbers -/

def digitChar : Nat → Char
  | 0 => '0' | 1 => '1' | 2 => '2' | 3 => '3' | 4 => '4'
  | 5 => '5' | 6 => '6' | 7 => '7' | 8 => '8' | _ => '9'

def natDigitsF : Nat → Nat → List Char
  | 0, _ => []
  | f + 1, n => if n < 10 then [digitChar n] else natDigitsF f (n / 10) ++ [digitChar (n % 10)]

/-- `strconv.AppendUint(nil, n, 10)` (fuel `n+1` is never exhausted: `natDigitsF_fuel`) -/
def natDigits (n : Nat) : List Char := natDigitsF (n + 1) n

/-- `strconv.AppendInt(nil, i, 10)` -/
def intDigits : Int → List Char
  | .ofNat n => natDigits n
  | .negSucc n => '-' :: natDigits (n + 1)

/-! ## string escaping -/

def hexChar : Nat → Char
  | 0 => '0' | 1 => '1' | 2 => '2' | 3 => '3' | 4 => '4' | 5 => '5' | 6 => '6' | 7 => '7'
  | 8 => '8' | 9 => '9' | 10 => 'a' | 11 => 'b' | 12 => 'c' | 13 => 'd' | 14 => 'e' | _ => 'f'

/-- `\u00XY` -/
def u00 (c : Char) : List Char := ['\\', 'u', '0', '0', hexChar (c.toNat / 16), hexChar (c.toNat % 16)]

/-- bytes below 0x80 that need an escape under the HTML-escaping tables of both encoders -/
def needsEsc (c : Char) : Bool :=
  c.toNat < 0x20 || c == '"' || c == '\\' || c == '<' || c == '>' || c == '&'

/-- easyjson `Writer.String`, one decoded rune -/
def escEasyCh (c : Char) : List Char :=
  if c = '\t' then ['\\', 't']
  else if c = '\r' then ['\\', 'r']
  else if c = '\n' then ['\\', 'n']
  else if c = '\\' then ['\\', '\\']
  else if c = '"' then ['\\', '"']
  else if needsEsc c then u00 c
  else if c = '\u2028' then ['\\', 'u', '2', '0', '2', '8']
  else if c = '\u2029' then ['\\', 'u', '2', '0', '2', '9']
  else [c]

/-- encoding/json `appendString` with escapeHTML, one decoded rune (go ≥ 1.22 writes `\b` and `\f`) -/
def escStdCh (c : Char) : List Char :=
  if c = '\\' then ['\\', '\\']
  else if c = '"' then ['\\', '"']
  else if c = '\x08' then ['\\', 'b']
  else if c = '\x0c' then ['\\', 'f']
  else if c = '\n' then ['\\', 'n']
  else if c = '\r' then ['\\', 'r']
  else if c = '\t' then ['\\', 't']
  else if needsEsc c then u00 c
  else if c = '\u2028' then ['\\', 'u', '2', '0', '2', '8']
  else if c = '\u2029' then ['\\', 'u', '2', '0', '2', '9']
  else [c]

def ufffd : List Char := ['\\', 'u', 'f', 'f', 'f', 'd']

def escEasyPiece : Piece → List Char
  | .ch c => escEasyCh c
  | .bad _ => ufffd

def escStdPiece : Piece → List Char
  | .ch c => escStdCh c
  | .bad _ => ufffd

def escEasy : GoStr → List Char
  | [] => []
  | p :: t => escEasyPiece p ++ escEasy t

def escStd : GoStr → List Char
  | [] => []
  | p :: t => escStdPiece p ++ escStd t

def quoteEasy (s : GoStr) : List Char := '"' :: (escEasy s ++ ['"'])
def quoteStd (s : GoStr) : List Char := '"' :: (escStd s ++ ['"'])

/-! ## the value tree walked by encoding/json -/

inductive GoVal where
  | null                                   -- nil map / slice / pointer / interface
  | bool (b : Bool)
  | int (i : Int)                          -- Go integer kinds; float64 whose literal is a plain integer
  | num (lit : List Char)                  -- any other float64: the literal `floatEncoder` writes
  | str (s : List Char)                    -- always valid UTF-8 (produced by a JSON decoder)
  | arr (l : List GoVal)
  | map (kvs : List (List Char × GoVal))   -- Go map: written with keys sorted
  | struct (kvs : List (List Char × GoVal)) -- Go struct: declaration order, after omitempty
  deriving Repr, Inhabited

/-- `strings.Compare(a, b) < 0` on valid UTF-8 = lexicographic order of scalar values -/
def keyLt : List Char → List Char → Bool
  | [], [] => false
  | [], _ :: _ => true
  | _ :: _, [] => false
  | a :: as, b :: bs => a.toNat < b.toNat || (a.toNat == b.toNat && keyLt as bs)

def insertKV (kv : List Char × GoVal) : List (List Char × GoVal) → List (List Char × GoVal)
  | [] => [kv]
  | x :: t => if keyLt kv.1 x.1 then kv :: x :: t else x :: insertKV kv t

def sortKV : List (List Char × GoVal) → List (List Char × GoVal)
  | [] => []
  | kv :: t => insertKV kv (sortKV t)

mutual
/-- put every Go map into the order in which it is written -/
def norm : GoVal → GoVal
  | .arr l => .arr (normList l)
  | .map kvs => .map (sortKV (normMems kvs))
  | .struct kvs => .struct (normMems kvs)
  | v => v
def normList : List GoVal → List GoVal
  | [] => []
  | v :: t => norm v :: normList t
def normMems : List (List Char × GoVal) → List (List Char × GoVal)
  | [] => []
  | (k, v) :: t => (k, norm v) :: normMems t
end

mutual
/-- the text written for a value whose maps are already in order -/
def renderRaw : GoVal → List Char
  | .null => ['n', 'u', 'l', 'l']
  | .bool true => ['t', 'r', 'u', 'e']
  | .bool false => ['f', 'a', 'l', 's', 'e']
  | .int i => intDigits i
  | .num lit => lit
  | .str s => quoteStd (ofChars s)
  | .arr l => '[' :: (renderElems l ++ [']'])
  | .map kvs => '{' :: (renderMems kvs ++ ['}'])
  | .struct kvs => '{' :: (renderMems kvs ++ ['}'])
def renderElems : List GoVal → List Char
  | [] => []
  | [v] => renderRaw v
  | v :: w :: t => renderRaw v ++ ',' :: renderElems (w :: t)
def renderMems : List (List Char × GoVal) → List Char
  | [] => []
  | [(k, v)] => quoteStd (ofChars k) ++ ':' :: renderRaw v
  | (k, v) :: kv :: t => quoteStd (ofChars k) ++ ':' :: renderRaw v ++ ',' :: renderMems (kv :: t)
end

def renderVal (v : GoVal) : List Char := renderRaw (norm v)

/-! ## the result types -/

structure ArpResult where
  ip : GoStr
  mac : GoStr
  vendor : GoStr
  deriving Repr, Inhabited

structure TcpResult where
  scan : GoStr
  ip : GoStr
  port : UInt16
  flags : GoStr
  deriving Repr, Inhabited

/-- `icmp.ScanResult` (also the udp scan's result type) -/
structure IcmpResult where
  scan : GoStr
  ip : GoStr
  ttl : UInt8
  icmp : Option (UInt8 × UInt8)     -- `*Response`: nil, or (type, code)
  deriving Repr, Inhabited

structure SocksResult where
  scan : GoStr
  version : Int
  ip : GoStr
  port : UInt16
  auth : Bool
  deriving Repr, Inhabited

structure ElasticResult where
  scan : GoStr
  proto : GoStr
  host : GoStr
  info : GoVal
  indexes : GoVal
  deriving Repr, Inhabited

structure DockerResult where
  scan : GoStr
  proto : GoStr
  host : GoStr
  info : GoVal
  version : GoVal
  deriving Repr, Inhabited

inductive Result where
  | arp (r : ArpResult)
  | tcp (r : TcpResult)
  | icmp (r : IcmpResult)
  | socks (r : SocksResult)
  | elastic (r : ElasticResult)
  | docker (r : DockerResult)
  deriving Repr, Inhabited

def lit (s : String) : List Char := s.toList

/-- pkg/scan/arp/result_easyjson.go -/
def renderArp (r : ArpResult) : List Char :=
  lit "{\"ip\":" ++ quoteEasy r.ip ++ lit ",\"mac\":" ++ quoteEasy r.mac ++ lit ",\"vendor\":" ++ quoteEasy r.vendor
    ++ ['}']

/-- pkg/scan/tcp/result_easyjson.go (`flags` only when non-empty) -/
def renderTcp (r : TcpResult) : List Char :=
  lit "{\"scan\":" ++ quoteEasy r.scan ++ lit ",\"ip\":" ++ quoteEasy r.ip ++ lit ",\"port\":" ++ natDigits r.port.toNat
    ++ (if r.flags.isEmpty then [] else lit ",\"flags\":" ++ quoteEasy r.flags) ++ ['}']

/-- pkg/scan/icmp/result_easyjson.go -/
def renderIcmp (r : IcmpResult) : List Char :=
  lit "{\"scan\":" ++ quoteEasy r.scan ++ lit ",\"ip\":" ++ quoteEasy r.ip ++ lit ",\"ttl\":" ++ natDigits r.ttl.toNat
    ++ lit ",\"icmp\":"
    ++ (match r.icmp with
        | none => lit "null"
        | some (t, c) => lit "{\"type\":" ++ natDigits t.toNat ++ lit ",\"code\":" ++ natDigits c.toNat ++ ['}'])
    ++ ['}']

/-- pkg/scan/socks5/socks5.go: `json.Marshal` of the struct (`auth` omitempty) -/
def renderSocks (r : SocksResult) : List Char :=
  lit "{\"scan\":" ++ quoteStd r.scan ++ lit ",\"version\":" ++ intDigits r.version ++ lit ",\"ip\":" ++ quoteStd r.ip
    ++ lit ",\"port\":" ++ natDigits r.port.toNat ++ (if r.auth then lit ",\"auth\":true" else []) ++ ['}']

/-- pkg/scan/elastic/elastic.go -/
def renderElastic (r : ElasticResult) : List Char :=
  lit "{\"scan\":" ++ quoteStd r.scan ++ lit ",\"proto\":" ++ quoteStd r.proto ++ lit ",\"host\":" ++ quoteStd r.host
    ++ lit ",\"info\":" ++ renderVal r.info ++ lit ",\"indexes\":" ++ renderVal r.indexes ++ ['}']

/-- pkg/scan/docker/docker.go -/
def renderDocker (r : DockerResult) : List Char :=
  lit "{\"scan\":" ++ quoteStd r.scan ++ lit ",\"proto\":" ++ quoteStd r.proto ++ lit ",\"host\":" ++ quoteStd r.host
    ++ lit ",\"info\":" ++ renderVal r.info ++ lit ",\"version\":" ++ renderVal r.version ++ ['}']

/-- `result.MarshalJSON()` -/
def render : Result → List Char
  | .arp r => renderArp r
  | .tcp r => renderTcp r
  | .icmp r => renderIcmp r
  | .socks r => renderSocks r
  | .elastic r => renderElastic r
  | .docker r => renderDocker r

/-- `fmt.Sprintf("%s:%d", ip, port)` -/
def hostPort (ip : GoStr) (port : UInt16) : GoStr := ip ++ .ch ':' :: ofChars (natDigits port.toNat)

/-- `Result.ID()` -/
def Result.id : Result → GoStr
  | .arp r => r.ip
  | .tcp r => hostPort r.ip r.port
  | .icmp r => r.ip
  | .socks r => hostPort r.ip r.port
  | .elastic r => r.host
  | .docker r => r.host

/-! ## writer and loggers -/

/-- `JSONResultWriter.Write`: the bytes of the single `Fprintf(w, "%s\n", data)` -/
def line (r : Result) : List Char := render r ++ ['\n']

/-- `logger.LogResults` in JSON mode: the sequence of writes issued for the results received before the
    loop ends (`k` = how many were received when the context was seen cancelled; `k ≥ length` = channel
    closed) -/
def logWrites (rs : List Result) (k : Nat) : List (List Char) := (rs.take k).map line

def logOutput (rs : List Result) (k : Nat) : List Char := (logWrites rs k).flatten

/-- `uniqResults`: the `set` map as the list of IDs seen so far -/
def uniqLoop {α κ : Type} [DecidableEq κ] (id : α → κ) : List κ → List α → List α
  | _, [] => []
  | seen, r :: rs =>
    if id r ∈ seen then uniqLoop id seen rs else r :: uniqLoop id (id r :: seen) rs

def uniq {α κ : Type} [DecidableEq κ] (id : α → κ) (rs : List α) : List α := uniqLoop id [] rs

/-- `UniqueLogger.LogResults` -/
def uniqLogWrites (rs : List Result) : List (List Char) := (uniq Result.id rs).map line

end SxVerif.Json
