/-
M-iface — model of the interface / source selection of the packet commands as a pure function of a host
snapshot and the parsed flags:

  command/config.go   packetScanCmdOpts.parseRawOptions (--iface by name), getScanRange, getInterface,
                      getLocalSubnetInterface, the vpn-mode rule of ipScanCmdOpts.parseOptions, getGatewayMAC
  command/arp.go      the `SrcMAC == nil → errSrcMAC` rule of the arp command
  pkg/ip/ip.go        GetInterfaceIP, GetLocalSubnetInterface, GetLocalSubnetInterfaceIP (net.IPNet.Contains)
  pkg/ip/ip_linux.go  GetDefaultInterface, GetDefaultGatewayIP (netlink route list of the main table)

The snapshot is what `net.Interfaces`, `Interface.Addrs` and `netlink.RouteList(nil, FAMILY_V4)` report:
interfaces in kernel order, addresses per interface in kernel order (an IPv4 entry has a 4-byte mask, an
IPv6 entry a 16-byte mask), routes in dump order.  Modelled on the tree with the fixes 541085a (D15),
"default route with a preferred source", "lowest-metric default route whatever its metric" and "v4-mapped
IPv6 interface address is not an IPv4 address".
-/
namespace SxVerif.Iface

abbrev IP := List UInt8
abbrev MAC := List UInt8

/-- one entry of `Interface.Addrs()`: `ip` holds 4 bytes for an IPv4 entry and 16 for an IPv6 entry -/
structure Addr where
  ip : IP
  ones : Nat
  v6 : Bool
  deriving Repr, DecidableEq

structure Iface where
  name : String
  index : Nat
  mac : Option MAC          -- `none` = `HardwareAddr == nil` (loopback, tun)
  addrs : List Addr
  deriving Repr, DecidableEq

/-- `netlink.Route`: Dst (nil for a default route), Src (RTA_PREFSRC), Priority, LinkIndex, Gw -/
structure Route where
  dst : Option (IP × Nat)
  src : Option IP
  prio : Nat
  link : Nat
  gw : Option IP
  deriving Repr, DecidableEq

structure Host where
  ifaces : List Iface
  routes : List Route
  deriving Repr, DecidableEq

/-- the parsed target (`ip.ParseIPNet`): 4 address bytes and a prefix length (C02) -/
structure Target where
  ip : IP
  ones : Nat
  deriving Repr, DecidableEq

structure Opts where
  iface : Option String     -- --iface (name)
  srcip : Option IP         -- --srcip as the `net.IP` pflag holds (16 bytes; 4 also modelled)
  srcmac : Option MAC       -- --srcmac after net.ParseMAC
  target : Option Target    -- none = targets come from a file
  deriving Repr, DecidableEq

inductive Err where
  | srcif      -- errSrcInterface "invalid source interface"
  | srcip      -- errSrcIP "invalid source IP"
  | srcmac     -- errSrcMAC "invalid source MAC" (arp command)
  | nosuchif   -- net.InterfaceByName / InterfaceByIndex found nothing
  deriving Repr, DecidableEq

/-! ### net.IP helpers -/

def v4prefix : IP := [0, 0, 0, 0, 0, 0, 0, 0, 0, 0, 0xff, 0xff]

/-- `net.IPv4(a,b,c,d)`: the 16-byte form Go holds for an IPv4 interface address -/
def v4in6 (ip : IP) : IP := v4prefix ++ ip

/-- `IP.To4()` -/
def to4 (ip : IP) : Option IP :=
  if ip.length = 4 then some ip
  else if ip.length = 16 ∧ ip.take 12 = v4prefix then some (ip.drop 12)
  else none

/-- the `net.IP` of an address entry as Go holds it -/
def Addr.goIP (a : Addr) : IP := if a.v6 then a.ip else v4in6 a.ip

/-- one byte of `net.CIDRMask`: the top `k` bits set (`^byte(0xff >> k)`, `0xff` for k ≥ 8) -/
def maskByte (k : Nat) : UInt8 := UInt8.ofNat (256 - 2 ^ (8 - k))

/-- `net.CIDRMask(ones, 8*n)` -/
def cidrMask : Nat → Nat → List UInt8
  | _, 0 => []
  | ones, n + 1 => if ones ≥ 8 then 0xff :: cidrMask (ones - 8) n else maskByte ones :: cidrMask 0 n

/-- `IP.Mask(mask)` for equal lengths; nil otherwise -/
def maskIP (ip mask : List UInt8) : IP :=
  if ip.length = mask.length then List.zipWith (· &&& ·) ip mask else []

/-- `dstSubnet.IP.Mask(dstSubnet.Mask)` -/
def Target.base (t : Target) : IP := maskIP t.ip (cidrMask t.ones 4)

/-- `IPNet.Contains(x)` for an IPv4 entry (4-byte address, 4-byte mask) -/
def contains4 (a : Addr) (x : IP) : Bool :=
  let m := cidrMask a.ones 4
  let x' := (to4 x).getD x
  x'.length == a.ip.length && maskIP a.ip m == maskIP x' m

/-- `isIPv4Entry(ipnet) && ipnet.Contains(dstSubnetIP)` -/
def attached (base : IP) (a : Addr) : Bool := !a.v6 && contains4 a base

/-! ### pkg/ip -/

/-- loop of `GetLocalSubnetInterfaceIP` -/
def localIPLoop (base : IP) : List Addr → Option IP
  | [] => none
  | a :: rest => if attached base a then some a.goIP else localIPLoop base rest

def localSubnetInterfaceIP (i : Iface) (t : Target) : Option IP := localIPLoop t.base i.addrs

/-- loop of `GetLocalSubnetInterface` -/
def localSubnetInterface (t : Target) : List Iface → Option (Iface × IP)
  | [] => none
  | i :: rest =>
    match localSubnetInterfaceIP i t with
    | some ip => some (i, ip)
    | none => localSubnetInterface t rest

/-- `GetInterfaceIP`: the first address entry, if it is an IPv4 one -/
def interfaceIP (i : Iface) : Option IP :=
  match i.addrs with
  | [] => none
  | a :: _ => if a.v6 then none else some a.goIP

def interfaceByIndex (h : Host) (idx : Nat) : Option Iface := h.ifaces.find? (fun i => i.index == idx)
def interfaceByName (h : Host) (n : String) : Option Iface := h.ifaces.find? (fun i => i.name == n)

structure DefState where
  found : Bool
  prio : Nat
  iface : Option Iface
  ip : Option IP
  deriving Repr, DecidableEq

/-- loop of `GetDefaultInterface` -/
def defaultLoop (h : Host) : List Route → DefState → Except Err DefState
  | [], s => .ok s
  | r :: rest, s =>
    if r.dst.isNone && (!s.found || r.prio < s.prio) then
      match interfaceByIndex h r.link with
      | none => .error .nosuchif
      | some i => defaultLoop h rest ⟨true, r.prio, some i, interfaceIP i⟩
    else defaultLoop h rest s

def defaultInterface (h : Host) : Except Err (Option Iface × Option IP) :=
  match defaultLoop h h.routes ⟨false, 0, none, none⟩ with
  | .error e => .error e
  | .ok s => .ok (s.iface, s.ip)

structure GwState where
  found : Bool
  prio : Nat
  gw : Option IP
  deriving Repr, DecidableEq

/-- loop of `GetDefaultGatewayIP` -/
def gatewayLoop (idx : Nat) : List Route → GwState → GwState
  | [], s => s
  | r :: rest, s =>
    if r.dst.isNone && r.link == idx && (!s.found || r.prio < s.prio) then gatewayLoop idx rest ⟨true, r.prio, r.gw⟩
    else gatewayLoop idx rest s

def defaultGatewayIP (h : Host) (i : Iface) : Option IP := (gatewayLoop i.index h.routes ⟨false, 0, none⟩).gw

/-! ### command/config.go -/

/-- `getInterface` (with `getLocalSubnetInterface` inlined); `oif` = the interface of --iface -/
def getInterface (h : Host) (oif : Option Iface) (t : Option Target) : Except Err (Option Iface × Option IP) :=
  let viaLocal : Option (Iface × IP) :=
    match t with
    | none => none
    | some t =>
      match oif with
      | none => localSubnetInterface t h.ifaces
      | some i => (localSubnetInterfaceIP i t).map (fun ip => (i, ip))
  match viaLocal with
  | some (i, ip) => .ok (some i, some ip)
  | none =>
    match oif with
    | some i => .ok (some i, interfaceIP i)
    | none => defaultInterface h

/-- `scan.Range` (interface, source address, source MAC) -/
structure Range where
  iface : Iface
  srcIP : IP
  srcMAC : Option MAC
  deriving Repr, DecidableEq

/-- `parseRawOptions` (--iface lookup) followed by `getScanRange` -/
def scanRange (h : Host) (o : Opts) : Except Err Range :=
  let oif : Except Err (Option Iface) :=
    match o.iface with
    | none => .ok none
    | some n =>
      match interfaceByName h n with
      | none => .error .nosuchif
      | some i => .ok (some i)
  match oif with
  | .error e => .error e
  | .ok oif =>
    match getInterface h oif o.target with
    | .error e => .error e
    | .ok (none, _) => .error .srcif
    | .ok (some i, ip) =>
      let src : Option IP := match o.srcip with
        | some s => some s
        | none => ip
      match src.bind to4 with
      | none => .error .srcip
      | some s4 => .ok ⟨i, s4, match o.srcmac with | some m => some m | none => i.mac⟩

/-- what `ipScanCmdOpts.parseOptions` (icmp / tcp / udp) leaves behind -/
structure IPScan where
  range : Range
  vpn : Bool
  gw : Option IP            -- the gateway whose MAC is looked up (not in vpn mode)
  deriving Repr, DecidableEq

def ipScanOptions (h : Host) (o : Opts) : Except Err IPScan :=
  match scanRange h o with
  | .error e => .error e
  | .ok r =>
    let vpn := r.srcMAC.isNone
    .ok ⟨r, vpn, if vpn then none else (defaultGatewayIP h r.iface).bind to4⟩

/-- the option stage of the arp command -/
def arpOptions (h : Host) (o : Opts) : Except Err Range :=
  match scanRange h o with
  | .error e => .error e
  | .ok r => if r.srcMAC.isNone then .error .srcmac else .ok r

end SxVerif.Iface
