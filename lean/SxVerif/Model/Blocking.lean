/-
Blocking-operation inventory (C12; and "no goroutine the models do not know", C07/C08).

`sxfacts` lists EVERY operation in sx's own non-test code that can block a goroutine for an unbounded time
(`Generated/Blocking.lean`, regenerated on every run): channel sends / receives / ranges, the calls
Take / Sleep / Wait / Lock / RLock, and every `go` statement — each with the function it stands in and the
way it is guarded.  An operation inside a `select` that also has a `<-ctx.Done()` case (guard "ctx") or a
`default` case (guard "default") cannot keep a cancelled scan from returning.  Every OTHER operation must be
accounted for here, one by one, with the reason why the cancellation argument (Model/Engine.lean,
Model/Pipe.lean, Props/C12.lean) is not affected by it.  A new goroutine, an unguarded send, a sleep or a
limiter call that appears anywhere in the tree breaks `C12.blocking_ops_accounted` until somebody has said
which of these reasons applies — D28 (a `limiter.Take()` that ignored the context) is the defect this
inventory would have shown at once.
-/
namespace SxVerif.Blocking

structure BlockOp where
  file : String
  fn : String
  kind : String    -- "send" | "recv" | "range" | "call" | "go"
  expr : String    -- channel operand, callee, or what the `go` statement starts
  guard : String   -- "ctx" | "default" | "select" | "none"
  deriving Repr, DecidableEq

/-- why an operation that is not guarded by the context does not keep a cancelled scan from returning -/
inductive Reason where
  /-- `go f()`: starts a goroutine and goes on; the goroutine's own operations are listed under its function -/
  | spawn
  /-- receive / range on a channel whose only sender closes it on every path after cancellation
      (`closeAfterSenders`, `singleCloser` of the regenerated stage descriptors; `C12_streams_end`, `C12_packet_errc_closes`) -/
  | closesBehind
  /-- the timer of the exit delay: fires after a constant the user chose (`--exit-delay`), C16 -/
  | exitDelay
  /-- send into a channel made in the same function with room for every send of that path (capacity fact) -/
  | roomReserved
  /-- a mutex held over a bounded section with no blocking operation inside (`readSafeAgainstClose`, arp cache) -/
  | boundedSection
  /-- a constant sleep (`receiver_pause_small`: ≤ a tenth of the default exit delay) -/
  | boundedSleep
  /-- `WaitGroup.Wait` for goroutines all of whose operations are accounted for in this table or guarded -/
  | awaitsAccounted
  /-- the limiter's sleep, awaited against `ctx.Done()` by its caller (`rate_limited_probe_interruptible`) -/
  | awaitedAgainstCtx
  /-- waits for the target list on stdin to end (`-f -`): like every read of an input file it sits in a generator
      goroutine that the return path of the scan does not wait for — never in `engine.Start` itself (D29) -/
  | inputRead
  /-- may block after cancellation, in a goroutine the return path of the scan does not wait for: the packet sender
      (rate slot, full error buffer) and the ARP-cache stage behind it; the Pipe model lets them stop anywhere
      (`C12_packet_no_panic`, `C12_packet_errc_closes` hold with these goroutines stuck) -/
  | abandoned
  deriving Repr, DecidableEq

/-- operations the context guards by construction -/
def guarded (o : BlockOp) : Bool := o.guard == "ctx" || o.guard == "default"

/-- what has to be accounted for -/
def needsAccount (ops : List BlockOp) : List BlockOp := ops.filter (fun o => !guarded o)

end SxVerif.Blocking
