/-
M-probe (HTTP half) — model of `pkg/scan/elastic/elastic.go` and `pkg/scan/docker/docker.go`.

The two `Scan` methods are functions of what the probed endpoint does per request.  Everything below
`Scan` (net/http client and transport, TLS, `encoding/json`, the moby client's `Ping` / `Info` /
`ServerVersion` / `checkResponseErr` / `ensureReaderClosed`) is NOT verified: it is modelled behind the
outcome abstraction of this file and validated by the differential harness (`sxdiff httpprobe`, scripted
loopback HTTP and HTTPS endpoints).

Abstraction
* a request is answered by an `Exchange` = a chain of `Hop`s: the first hop is what the probed target does,
  a further hop exists only behind a redirect and is served by ANOTHER endpoint;
* a response body is a `Stream` = (class of the JSON text, id embedded in a served object, what the stream
  does after those bytes: end / stall for ever / go on for ever);
* time is a natural number (the harness uses milliseconds); the per-request (elastic) or per-probe
  (docker) context deadline is `T`.  A stalled step ends exactly at the deadline: this is the deadline
  hypothesis under which the time bounds are theorems (runtime behaviour of `context`, `net/http`, the
  kernel; measured by the harness with slack).
-/
namespace SxVerif.HttpProbe

/-- class of the bytes of a response body as a JSON text -/
inductive BodyClass where
  | object          -- one JSON object (may be preceded by white space), nothing after it
  | objectEmpty     -- `{}`
  | objectWs        -- one JSON object followed by white space only
  | objectTrailing  -- one complete JSON object followed by something that is not white space
  | objectIllTyped  -- a JSON object whose members do not fit docker's `types.Info` / `types.Version`
  | null            -- the literal `null`, nothing after it
  | nullTail        -- `null` followed by at least one more byte
  | array | scalar
  | truncated       -- a proper prefix of a JSON value
  | garbage         -- not JSON, recognisable at a definite byte
  | empty           -- no bytes, or white space only
  deriving Repr, DecidableEq, Inhabited

/-- what the stream does after the bytes of its class -/
inductive Ending where
  | eof       -- the body ends (Content-Length reached / last chunk / connection closed)
  | stall     -- nothing more arrives and the body is not ended
  | endless   -- filler bytes arrive for ever
  deriving Repr, DecidableEq, Inhabited

structure Stream where
  cls : BodyClass
  id : Nat
  ending : Ending
  deriving Repr, DecidableEq, Inhabited

inductive Hop where
  | refused | tlsfail          -- nothing listens / the endpoint speaks the other protocol
  | close | rst | junk         -- request read, then: connection closed / reset / non-HTTP bytes
  | hstall | phstall           -- request read, then: no response headers / part of them, for ever
  | resp (redirect : Bool) (status delay : Nat) (body : Stream)
      -- complete response headers after `delay`; `redirect` = 30x with a Location header naming the
      -- endpoint that serves the next hop of the exchange
  deriving Repr, DecidableEq, Inhabited

abbrev Exchange := List Hop

/-! ### encoding/json: `json.NewDecoder(body).Decode(&v)` -/

inductive Dec where
  | obj       -- a JSON object was decoded into `v`
  | nil       -- `null` was read: no error, `v` untouched (nil map / zero struct)
  | err       -- syntax / type / EOF error
  | timeout   -- the decoder is still waiting for bytes when the deadline fires
  deriving Repr, DecidableEq

/-- needs one byte of look-ahead after the value, which a stalled stream never delivers -/
def Dec.lookahead (e : Ending) (done : Dec) : Dec :=
  match e with
  | .stall => .timeout
  | _ => done

/-- target `map[string]interface{}` (elastic).  `Decode` reads ONE value and ignores what follows. -/
def decodeMap (s : Stream) : Dec :=
  match s.cls with
  | .object | .objectEmpty | .objectWs | .objectTrailing | .objectIllTyped => .obj
  | .null => Dec.lookahead s.ending .nil
  | .nullTail => .nil
  | .array | .garbage => .err
  | .scalar | .truncated | .empty => Dec.lookahead s.ending .err

/-- does the body END after the value just read?  elastic: `decoder.Token()` must return `io.EOF`. -/
inductive Rest where
  | ends      -- only white space up to the end of the body
  | more      -- another token or a syntax error, at once
  | never     -- no end of body before the deadline (stalled; endless filler: an upper bound on the time,
              -- junk filler is refused at once, white-space filler is read until the deadline)
  deriving Repr, DecidableEq

def restOf (s : Stream) : Rest :=
  match s.cls, s.ending with
  | .objectTrailing, _ => .more
  | .nullTail, _ => .more
  | _, .eof => .ends
  | _, .stall => .never
  | _, .endless => .never

/-- target `types.Info` / `types.Version` (docker, inside the moby client) -/
def decodeStruct (s : Stream) : Dec :=
  match s.cls with
  | .objectIllTyped => .err
  | _ => decodeMap s

/-! ### net/http: `client.Do(req)` under a context deadline -/

inductive DoRes where
  | err | timeout
  | resp (status : Nat) (body : Stream)
  deriving Repr, DecidableEq

/-- 204 / 304 / 1xx responses carry no body whatever the server writes -/
def bodyless (status : Nat) : Bool := status == 204 || status == 304 || status < 200

def noBody (s : Stream) : Stream := { s with cls := .empty, ending := .eof }

/-- `follow` = the client follows redirects (Go's default `CheckRedirect`: up to 10 hops; the harness
    generates at most 3).  `t` = time already spent under the deadline `T`. -/
def clientDo (follow : Bool) (T : Nat) : Nat → Exchange → DoRes × Nat
  | t, [] => (.err, t)
  | t, h :: rest =>
    if T ≤ t then (.timeout, t) else
    match h with
    | .refused | .tlsfail | .close | .rst | .junk => (.err, t)
    | .hstall | .phstall => (.timeout, T)
    | .resp redirect status delay body =>
      if T ≤ t + delay then (.timeout, T)
      else if follow && redirect && !rest.isEmpty then clientDo follow T (t + delay) rest
      else (.resp status (if bodyless status then noBody body else body), t + delay)

/-- does this tree follow redirects?  Both scanners set `CheckRedirect` to `http.ErrUseLastResponse`
    (repo fix b13c82f; before it the default client followed them and the record carried the body of
    another endpoint), so a 30x answer is an ordinary response with its own body. -/
def followsRedirects : Bool := false

/-! ### results -/

/-- a decoded server-supplied value as it shows in the record: `obj (some id)` = the object with that id,
    `obj none` = an object without an id (`{}`), `null` = nil map / zero struct -/
inductive Field where
  | obj (id : Option Nat)
  | null
  deriving Repr, DecidableEq, Inhabited

inductive Got where
  | val (f : Field)
  | err
  deriving Repr, DecidableEq

def fieldOf (s : Stream) : Field :=
  match s.cls with
  | .objectEmpty => .obj none
  | _ => .obj (some s.id)

/-- docker decodes into a struct: `{}` leaves it zero, which is what `.null` stands for there -/
def fieldOfStruct (s : Stream) : Field :=
  match s.cls with
  | .objectEmpty => .null
  | _ => .obj (some s.id)

structure Record where
  proto : String
  host : String
  info : Field
  second : Field     -- elastic: indexes; docker: version
  deriving Repr, DecidableEq, Inhabited

inductive ScanOut where
  | err
  | record (r : Record)
  deriving Repr, DecidableEq, Inhabited

/-! ### elastic -/

/-- `elasticClient.Get`: fresh `context.WithTimeout(ctx, dataTimeout)`, `client.Do`, `Decode(&data)`;
    the status code is not looked at.  A nil map (`null`) is an error (repo fix addd353), and so is a body
    that does not end after the object (repo fix b8b9ea2). -/
def elasticGet (T : Nat) (x : Exchange) : Got × Nat :=
  match clientDo followsRedirects T 0 x with
  | (.err, t) => (.err, t)
  | (.timeout, t) => (.err, t)
  | (.resp _ body, t) =>
    match decodeMap body with
    | .obj =>
      match restOf body with
      | .ends => (.val (fieldOf body), t)
      | .more => (.err, t)
      | .never => (.err, T)
    | .nil => (.err, t)
    | .err => (.err, t)
    | .timeout => (.err, T)

def secondField : Got → Field
  | .val f => f
  | .err => .null

/-- `Scanner.Scan` over an arbitrary `Get`: `GetInfo` (fatal), `GetIndexes` (error ignored), one after
    the other; the target's port is written `P` -/
def elasticScanWith (get : Exchange → Got × Nat) (scheme ip : String) (x1 x2 : Exchange) : ScanOut × Nat :=
  match get x1 with
  | (.err, t1) => (.err, t1)
  | (.val info, t1) =>
    let g2 := get x2
    (.record ⟨scheme, ip ++ ":P", info, secondField g2.1⟩, t1 + g2.2)

def elasticScan (scheme ip : String) (T : Nat) (x1 x2 : Exchange) : ScanOut × Nat :=
  elasticScanWith (elasticGet T) scheme ip x1 x2

/-! ### docker (moby client) -/

/-- time at which API-version negotiation is over.  `Ping`: HEAD /_ping; 200 or 500 ends it; any other
    answer or error is followed by GET /_ping (after a connection failure that request fails at once);
    `ensureReaderClosed` drains up to 512 bytes of a GET body, which blocks on a stalled one.  All errors
    are ignored by `NegotiateAPIVersion`. -/
def pingEnd (T : Nat) (ping : Exchange) : Nat :=
  match clientDo followsRedirects T 0 ping with
  | (.timeout, t) => t
  | (.resp status _, t) =>
    if status == 200 || status == 500 then t else
    match clientDo followsRedirects T t ping with
    | (.resp _ body, t') => if body.ending == .stall then T else t'
    | (_, t') => t'
  | (.err, t) =>
    match clientDo followsRedirects T t ping with
    | (.resp _ body, t') => if body.ending == .stall then T else t'
    | (_, t') => t'

/-- `cli.get` + decode: `checkResponseErr` turns a status outside 200..399 into an error after reading
    the body; `ensureReaderClosed` drains up to 512 bytes afterwards (blocks on a stalled body). -/
def dockerGet (T t0 : Nat) (x : Exchange) : Got × Nat :=
  match clientDo followsRedirects T t0 x with
  | (.err, t) => (.err, t)
  | (.timeout, t) => (.err, t)
  | (.resp status body, t) =>
    let tDrain := if body.ending == .stall then max t T else t
    if status < 200 || 400 ≤ status then (.err, tDrain)
    else
      match decodeStruct body with
      | .obj => (.val (fieldOfStruct body), tDrain)
      | .nil => (.val .null, tDrain)
      | .err => (.err, tDrain)
      | .timeout => (.err, max t T)

/-- `json.Unmarshal(body, &info)` of a COMPLETE body whose first non-blank byte is `{`: the whole input
    must be one JSON value, and it must fit `types.Info` -/
def unmarshalInfo : BodyClass → Bool
  | .object | .objectEmpty | .objectWs => true
  | _ => false

/-- `Scanner.getInfo` (repo fix 79ad514; before it `moby.Client.Info`, i.e. `dockerGet`, which reported
    `null`, trailing data and unended bodies): GET /v<negotiated>/info with the scanner's own client,
    status outside 200..399 is an error (body not read), `io.ReadAll` of at most 8 MiB + 1, first
    non-blank byte must be `{`, `json.Unmarshal` of the whole body. -/
def dockerInfoGet (T t0 : Nat) (x : Exchange) : Got × Nat :=
  match clientDo followsRedirects T t0 x with
  | (.err, t) => (.err, t)
  | (.timeout, t) => (.err, t)
  | (.resp status body, t) =>
    if status < 200 || 400 ≤ status then (.err, t)
    else
      match body.ending with
      | .stall => (.err, max t T)
      | .endless => (.err, max t T)    -- the size limit is hit some time before the deadline (upper bound)
      | .eof => if unmarshalInfo body.cls then (.val (fieldOfStruct body), t) else (.err, t)

/-- `Scanner.Scan` over arbitrary API calls (each takes its start time): negotiation, then `getInfo`
    (fatal), then `ServerVersion` (error ignored); times are absolute (one context for the probe) -/
def dockerScanWith (pingEnd : Nat) (infoGet verGet : Nat → Exchange → Got × Nat) (scheme ip : String)
    (info ver : Exchange) : ScanOut × Nat :=
  match infoGet pingEnd info with
  | (.err, t1) => (.err, t1)
  | (.val f, t1) =>
    let g2 := verGet t1 ver
    (.record ⟨scheme, "tcp://" ++ ip ++ ":P", f, secondField g2.1⟩, g2.2)

/-- `Scanner.Scan`: ONE `context.WithTimeout` for the whole probe; negotiation ping, `getInfo` (fatal),
    `ServerVersion` (moby; error ignored) -/
def dockerScan (scheme ip : String) (T : Nat) (ping info ver : Exchange) : ScanOut × Nat :=
  dockerScanWith (pingEnd T ping) (dockerInfoGet T) (dockerGet T) scheme ip info ver

/-! ### what this model assumes about the source (compared with Generated/HttpProbe.lean, which sxfacts
regenerates from the two Go files on every run; `recv` = the scanner / client, `arg1` = the request / host) -/

namespace Assumed

/-- `elasticScanWith`: GetInfo first and fatal, GetIndexes second with its error dropped -/
def elasticScanCalls : List (String × String) := [("GetInfo", "fatal"), ("GetIndexes", "dropped")]
/-- `elasticScanWith`: record = (ScanType, scanner's proto, "ip:port" of the request, the two results) -/
def elasticRecord : List (String × String) :=
  [("Host", "fmt.Sprintf(\"%s:%d\", arg1.DstIP.String(), arg1.DstPort)"), ("Indexes", "call:GetIndexes#0"),
   ("Info", "call:GetInfo#0"), ("Proto", "recv.proto"), ("ScanType", "ScanType")]
/-- the requests go to the scanner's scheme and the request's host: "/" and "/_aliases" -/
def elasticInfoURL : String := "fmt.Sprintf(\"%s://%s/\", recv.proto, arg1)"
def elasticIndexesURL : String := "fmt.Sprintf(\"%s://%s/_aliases\", recv.proto, arg1)"
/-- `elasticGet`: a fresh deadline of `dataTimeout` per request (budget restarts at 0), none per probe -/
def elasticGetDeadline : String := "recv.dataTimeout"
def elasticScanDeadline : String := ""
/-- `elasticGet`: request bound to the deadline context, one `Decode`, then `Token` for the end of the body -/
def elasticGetCalls : List String := ["WithTimeout", "NewRequestWithContext", "Do", "NewDecoder", "Decode", "Token"]
/-- `followsRedirects = false`; self-signed endpoints answer (`InsecureSkipVerify`); a connection per request -/
def client : List (String × String) :=
  [("CheckRedirect", "func{return http.ErrUseLastResponse}"), ("Transport", "&http.Transport{…}")]
def transport : List (String × String) :=
  [("DisableKeepAlives", "true"), ("MaxConnsPerHost", "1"), ("TLSClientConfig.InsecureSkipVerify", "true")]

/-- `dockerScanWith`: client construction and getInfo fatal, ServerVersion dropped -/
def dockerScanCalls : List (String × String) :=
  [("NewClientWithOpts", "fatal"), ("getInfo", "fatal"), ("ServerVersion", "dropped")]
def dockerRecord : List (String × String) :=
  [("Host", "\"tcp://\" + fmt.Sprintf(\"%s:%d\", arg1.DstIP.String(), arg1.DstPort)"), ("Info", "call:getInfo#0"),
   ("Proto", "recv.proto"), ("ScanType", "ScanType"), ("Version", "call:ServerVersion#0")]
/-- `dockerScan`: ONE deadline of `dataTimeout` for the probe, set before anything else -/
def dockerScanDeadline : String := "recv.dataTimeout"
/-- negotiation on, the scheme, the request's host, and LAST the scanner's own HTTP client: `WithHost`
    configures the transport of whatever client it finds — including the proxies of the environment
    (HTTP_PROXY, ALL_PROXY) — so the scanner's client must be installed after it, or probes would go to
    the proxy instead of the target (D27) -/
def dockerClientOpts : String :=
  "moby.WithAPIVersionNegotiation(); moby.WithScheme(recv.proto); moby.WithHost(\"tcp://\" + fmt.Sprintf(\"%s:%d\", arg1.DstIP.String(), arg1.DstPort)); moby.WithHTTPClient(recv.client)"
/-- `dockerInfoGet`: negotiation, own request under the probe's context, bounded `ReadAll`, whole-body `Unmarshal` -/
def dockerInfoCalls : List String :=
  ["NegotiateAPIVersion", "NewRequestWithContext", "Do", "ReadAll", "LimitReader", "Unmarshal"]

end Assumed

end SxVerif.HttpProbe
