/-
Descriptor vocabulary for the shape of `liveRequestGenerator.GenerateRequests`, `readRequest`,
`writeRequest` (pkg/scan/request.go) and of the `arp --live` wiring (command/arp.go).
`sxfacts` (harness/cmd/sxfacts/live.go) normalises local identifiers by role and emits values of these
types into `Generated/Live.lean`; `Props/C19.lean` decides that they are the shape `Model/Live.lean`
transcribes.  Anything unrecognised is emitted as `.other` (and as a translator problem).
Core Lean only.
-/
namespace SxVerif.Live

/-- a `case` of a `select` -/
inductive SelOp where
  | ctxDone        -- `<-ctx.Done()`
  | timerRescan    -- `<-time.After(rg.rescanTimeout)`
  | recvRequests   -- `request, ok = <-requests`
  | sendOut        -- `out <- request`
  | other
  deriving Repr, DecidableEq

/-- statements that occur in the loop -/
inductive Act where
  | ret            -- `return`
  | cont           -- `continue`
  | write          -- `writeRequest(ctx, out, request)`
  | regen          -- `requests, _ = rg.delegate.GenerateRequests(ctx, r)`  (error discarded, variable re-bound)
  | other
  deriving Repr, DecidableEq

/-- the two statements of the `for { … }` body -/
inductive LoopStmt where
  /-- `if request, ok = readRequest(ctx, requests); ok { body }` -/
  | ifRead (body : List Act)
  /-- `select { cases }` -/
  | sel (cases : List (SelOp × List Act))
  | other
  deriving Repr, DecidableEq

/-- every mention of the channel variable `requests` inside the goroutine -/
inductive ReqUse where
  | readArg        -- second argument of `readRequest`
  | rebind         -- left-hand side of the re-binding assignment
  | other          -- anything else (a send, a close, a range, …)
  deriving Repr, DecidableEq

structure LiveDesc where
  /-- first statement is `requests, err := rg.delegate.GenerateRequests(ctx, r)` -/
  passZeroFirst : Bool
  /-- followed by `if err != nil { return nil, err }` -/
  startErrReturned : Bool
  /-- `out := make(chan *Request, cap(requests))` -/
  outCapOfRequests : Bool
  /-- the goroutine's deferred calls are exactly `close(out)` -/
  defersCloseOutOnly : Bool
  /-- the loop is `for { … }` and is the goroutine's last statement -/
  loopForever : Bool
  loop : List LoopStmt
  reqUses : List ReqUse
  /-- `out` is mentioned in the goroutine only in `close(out)` and as the channel argument of `writeRequest` -/
  outOnlyClosedAndWritten : Bool
  /-- the function ends with `return out, nil` -/
  returnsOut : Bool
  /-- `NewLiveRequestGenerator(rg, d)` is `&liveRequestGenerator{rg, d}` and the struct's fields are
      `delegate`, `rescanTimeout` in this order -/
  ctorBindsRescan : Bool
  /-- body of `readRequest`: one `select` with these cases, then a bare `return` of the named results -/
  readRequest : List (SelOp × List Act)
  /-- body of `writeRequest`: one `select` with these cases -/
  writeRequest : List (SelOp × List Act)
  deriving Repr, DecidableEq

/-- the shape transcribed by `Model/Live.lean` -/
def modelledDesc : LiveDesc where
  passZeroFirst := true
  startErrReturned := true
  outCapOfRequests := true
  defersCloseOutOnly := true
  loopForever := true
  loop := [.ifRead [.write, .cont], .sel [(.ctxDone, [.ret]), (.timerRescan, [.regen])]]
  reqUses := [.readArg, .rebind]
  outOnlyClosedAndWritten := true
  returnsOut := true
  ctorBindsRescan := true
  readRequest := [(.ctxDone, []), (.recvRequests, [])]
  writeRequest := [(.ctxDone, [.ret]), (.sendOut, [])]

/-- no operation that can panic is applied to the channel variable that may be nil: it is only
    received from (inside `readRequest`) and re-bound -/
def LiveDesc.nilSafe (d : LiveDesc) : Bool := d.reqUses.all (fun u => u == .readArg || u == .rebind)

/-! ### `arp --live` wiring -/

inductive GenCtor where
  | ipRequest      -- `scan.NewIPRequestGenerator(scan.NewIPGenerator())`
  | filter         -- `scan.NewFilterIPRequestGenerator(reqgen, o.excludeIPs)`
  | live           -- `scan.NewLiveRequestGenerator(reqgen, o.liveTimeout)`
  | other
  deriving Repr, DecidableEq

inductive WireCond where
  | always
  | excludeSet     -- `o.excludeIPs != nil`
  | livePositive   -- `o.liveTimeout > 0`
  | other
  deriving Repr, DecidableEq

structure ArpWiring where
  /-- assignments to the generator variable in `newARPScanMethod`, in order -/
  rows : List (WireCond × GenCtor)
  /-- the generator variable is what `scan.NewPacketSource` receives -/
  sourceUsesIt : Bool
  /-- `getLogger`: the condition under which `logger = log.NewUniqueLogger(logger)` -/
  uniqueLoggerCond : WireCond
  /-- the `--live` flag is a duration stored in `o.liveTimeout`, default 0 -/
  liveFlagDefaultZero : Bool
  deriving Repr, DecidableEq

def modelledWiring : ArpWiring where
  rows := [(.always, .ipRequest), (.excludeSet, .filter), (.livePositive, .live)]
  sourceUsesIt := true
  uniqueLoggerCond := .livePositive
  liveFlagDefaultZero := true

end SxVerif.Live
