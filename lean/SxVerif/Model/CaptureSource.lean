/-
The capture source's lock protocol (pkg/packet/afpacket/readwriter.go), as a transition system.

`afpacket.Source` owns a memory-mapped ring.  `Close` unmaps it.  The receiver goroutine of an engine run sits in
`ReadPacketData` (in poll, which the context does not interrupt) and outlives the run, while
`startPacketScanEngine` closes the source as soon as the run is over — once per port chunk.  Before D25 was
repaired a reply that arrived at that moment was read out of unmapped memory (SIGSEGV).  The repaired code:

    Close:            lock; defer unlock; closed = true; handle.Close()            -- unmaps the ring
    ReadPacketData:   for { lock; if closed { unlock; return EOF }
                            data := handle.ReadPacketData()                        -- reads the ring, returns a COPY
                            unlock; … }

`Desc` is what `sxfacts` regenerates from the two bodies (`Generated/Wiring.lean: sourceDesc`); `modelled` is the
protocol the transition system below encodes.  Any number of readers and closers, any interleaving.
-/
namespace SxVerif.CaptureSource

/-- the steps of the two bodies, in source order -/
inductive Op where
  | lock | unlock | deferUnlock
  | setClosed                 -- `s.closed = true`
  | unmap                     -- `s.handle.Close()`
  | eofIfClosed               -- `if s.closed { s.mu.Unlock(); return nil, nil, io.EOF }`
  | readCopy                  -- `s.handle.ReadPacketData()`: reads the ring, hands out a copy
  | readZeroCopy              -- `s.handle.ZeroCopyReadPacketData()`: hands out ring memory
  | other                     -- anything else that mentions the handle
  deriving Repr, DecidableEq

structure Desc where
  read : List Op       -- one iteration of the read loop, up to the release of the lock
  close : List Op
  deriving Repr, DecidableEq

def modelled : Desc :=
  { read := [.lock, .eofIfClosed, .readCopy, .unlock],
    close := [.lock, .deferUnlock, .setClosed, .unmap] }

/-! ### the transition system of `modelled` -/

inductive Tid where
  | r (i : Nat) | c (j : Nat)
  deriving Repr, DecidableEq

/-- a reader: outside the lock, holding it before the `closed` test, holding it after the test came out
    "open", or returned with io.EOF -/
inductive RPc where
  | idle | locked | checked | eof
  deriving Repr, DecidableEq

/-- a closer: before `Lock`, holding the lock, after `closed = true`, after the unmap, returned -/
inductive CPc where
  | idle | locked | flagged | unmapped | done
  deriving Repr, DecidableEq

structure Sys where
  mu : Option Tid          -- who holds `s.mu`
  closed : Bool
  mapped : Bool            -- the ring is mapped
  fault : Bool             -- some read touched the ring while it was not mapped
  reads : Nat              -- frames handed out
  rd : Nat → RPc
  cl : Nat → CPc

def upd {α : Type} (f : Nat → α) (i : Nat) (v : α) : Nat → α := fun k => if k = i then v else f k

@[simp] theorem upd_same {α : Type} (f : Nat → α) (i : Nat) (v : α) : upd f i v i = v := by simp [upd]
theorem upd_other {α : Type} (f : Nat → α) (i k : Nat) (v : α) (h : k ≠ i) : upd f i v k = f k := by simp [upd, h]

def init : Sys :=
  { mu := none, closed := false, mapped := true, fault := false, reads := 0, rd := fun _ => .idle, cl := fun _ => .idle }

inductive Step : Sys → Sys → Prop where
  | rLock (s : Sys) (i : Nat) (h : s.rd i = .idle) (hm : s.mu = none) :
      Step s { s with mu := some (.r i), rd := upd s.rd i .locked }
  | rEof (s : Sys) (i : Nat) (h : s.rd i = .locked) (hc : s.closed = true) :
      Step s { s with mu := none, rd := upd s.rd i .eof }
  | rOpen (s : Sys) (i : Nat) (h : s.rd i = .locked) (hc : s.closed = false) :
      Step s { s with rd := upd s.rd i .checked }
  /-- the ring is read (a fault if it is not mapped), the copy handed out, the lock released -/
  | rRead (s : Sys) (i : Nat) (h : s.rd i = .checked) :
      Step s { s with mu := none, fault := s.fault || !s.mapped, reads := s.reads + 1, rd := upd s.rd i .idle }
  | cLock (s : Sys) (j : Nat) (h : s.cl j = .idle) (hm : s.mu = none) :
      Step s { s with mu := some (.c j), cl := upd s.cl j .locked }
  | cFlag (s : Sys) (j : Nat) (h : s.cl j = .locked) :
      Step s { s with closed := true, cl := upd s.cl j .flagged }
  | cUnmap (s : Sys) (j : Nat) (h : s.cl j = .flagged) :
      Step s { s with mapped := false, cl := upd s.cl j .unmapped }
  | cUnlock (s : Sys) (j : Nat) (h : s.cl j = .unmapped) :
      Step s { s with mu := none, cl := upd s.cl j .done }

inductive Reachable : Sys → Prop where
  | init : Reachable init
  | step {s t : Sys} : Reachable s → Step s t → Reachable t

/-- readers inside the lock hold it; closers inside the lock hold it; an unmapped ring is a closed source; a reader
    past the test saw the source open, and it still is; nothing has faulted -/
structure Inv (s : Sys) : Prop where
  rHold : ∀ i, s.rd i = .locked ∨ s.rd i = .checked → s.mu = some (.r i)
  cHold : ∀ j, s.cl j = .locked ∨ s.cl j = .flagged ∨ s.cl j = .unmapped → s.mu = some (.c j)
  unmappedClosed : s.mapped = false → s.closed = true
  cClosed : ∀ j, s.cl j = .flagged ∨ s.cl j = .unmapped ∨ s.cl j = .done → s.closed = true
  checkedOpen : ∀ i, s.rd i = .checked → s.closed = false
  noFault : s.fault = false

end SxVerif.CaptureSource
