/-
M-gen — model of the request generators (`pkg/scan/request.go`), the exclusion filter, the ARP-cache
stage (`pkg/scan/arp/cache.go`), the mode choice of `newIPPortGenerator` and the chunk loop of
`startPortScanEngine` (`command/root.go`).

Channels and goroutines are not modelled here (M-conc does that): a generator is the *list* of items
it sends before closing its channel when nobody cancels.  Random draws are explicit arguments, one
pair per iterator instance, so every theorem quantifies over them.
-/
import SxVerif.Model.RangeIter

namespace SxVerif.Gen
open SxVerif.RangeIter

/-- why a request carries an error instead of a probe -/
inductive Cause where
  | json          -- scan.ErrJSON        "invalid json"
  | ip            -- scan.ErrIP          "invalid ip"
  | port          -- scan.ErrPort        "invalid port"
  | tooLong       -- bufio.ErrTooLong    (line longer than the scanner buffer)
  | portRange     -- scan.ErrPortRange
  | subnet        -- scan.ErrSubnet
  | rangeSize     -- errRangeSize from the iterator
  | noMAC         -- "no destination MAC address for <ip>"
  | contains      -- error returned by the exclusion container
  | open_         -- the target file could not be opened
  | panic         -- the Go code would panic here (FillBytes on a value that does not fit)
  deriving Repr, DecidableEq, Inhabited

/-- a parsed address: IPv4 (as a number; `wide` = spelled as 16 bytes, e.g. from `net.ParseIP`) or
    some IPv6 address (opaque id) -/
inductive Addr where
  | v4 (a : Nat) (wide : Bool)
  | v6 (id : Nat)
  deriving Repr, DecidableEq, Inhabited

def Addr.same : Addr → Addr → Bool
  | .v4 a _, .v4 b _ => a == b
  | .v6 a, .v6 b => a == b
  | _, _ => false

structure Req where
  dst : Option Addr := none
  port : Nat := 0
  dstMAC : Option Nat := none
  err : Option Cause := none
  deriving Repr, DecidableEq, Inhabited

structure PortRange where
  lo : Nat
  hi : Nat
  deriving Repr, DecidableEq, Inhabited

/-- `*net.IPNet` as produced by `ip.ParseIPNet`: byte length of IP, masked base value, mask size -/
structure Net where
  bytes : Nat     -- 4 or 16
  base : Nat      -- big-endian value of IP.Mask(Mask)
  ones : Nat
  bits : Nat
  deriving Repr, DecidableEq, Inhabited

/-- one pair of `rand.Int63()` draws per iterator instance -/
abbrev Draws := Nat → Nat × Nat

/-! ### portGenerator -/

def validatePorts (ports : List PortRange) : Bool :=
  !ports.isEmpty && ports.all (fun r => decide (r.lo ≤ r.hi))

inductive PortItem where
  | port (p : Nat)
  | err (c : Cause)
  deriving Repr, DecidableEq

/-- items of one range: a permutation walk of `lo..hi`, or one error item -/
def portRangeItems (tbl : List Group) (r : PortRange) (d : Nat × Nat) : List PortItem :=
  match run tbl ((r.hi : Int) - (r.lo : Int) + 1) d.1 d.2 with
  | .ok l => l.map (fun i => .port (r.lo + i - 1))   -- Go: int64(StartPort) - 1 + i, with i ≥ 1
  | _ => [.err .rangeSize]

def portItemsFrom (tbl : List Group) (draws : Draws) : Nat → List PortRange → List PortItem
  | _, [] => []
  | k, r :: rs => portRangeItems tbl r (draws k) ++ portItemsFrom tbl draws (k + 1) rs

/-- `portGenerator.Ports`: `none` = the call itself fails with `ErrPortRange` -/
def portGen (tbl : List Group) (ports : List PortRange) (draws : Draws) : Option (List PortItem) :=
  if validatePorts ports then some (portItemsFrom tbl draws 0 ports) else none

/-! ### ipGenerator -/

inductive IpItem where
  | ip (a : Addr)
  | err (c : Cause)
  deriving Repr, DecidableEq

/-- Go `int64(1) << k` -/
def shl1 (k : Nat) : Int :=
  if k < 63 then ((2 ^ k : Nat) : Int) else if k = 63 then -((2 ^ 63 : Nat) : Int) else 0

/-- `ipGenerator.IPs`: `Except.error` = the call fails; a `panic` item = `FillBytes` would panic -/
def ipGen (tbl : List Group) (net : Option Net) (d : Nat × Nat) : Except Cause (List IpItem) :=
  match net with
  | none => .error .subnet
  | some net =>
    match run tbl (shl1 (net.bits - net.ones)) d.1 d.2 with
    | .ok l =>
      .ok (l.map (fun i =>
        let v := net.base + i - 1
        if v < 2 ^ 32 then IpItem.ip (.v4 v false) else IpItem.err .panic))
    | _ => .error .rangeSize

/-! ### target files -/

/-- what one line of a JSONL target file is, after `bufio.Scanner` and the easyjson decoder:
    `entry ip port` = decoded fine; `ip = none` = `net.ParseIP` fails on the decoded string
    (missing, `null`, empty or garbage — the entry is reset to `""`/`0` before every line) -/
inductive Line where
  | badJson
  | tooLong
  | entry (ip : Option Addr) (port : Int)
  deriving Repr, DecidableEq, Inhabited

def validPort (p : Int) : Bool := decide (0 < p) && decide (p ≤ 65535)

/-- `fileIPPortGenerator.GenerateRequests` -/
def filePairs : List Line → List Req
  | [] => []
  | .badJson :: _ => [{ err := some .json }]
  | .tooLong :: _ => [{ err := some .tooLong }]
  | .entry none _ :: rest => { err := some .ip } :: filePairs rest
  | .entry (some a) p :: rest =>
    if validPort p then { dst := some a, port := p.toNat } :: filePairs rest
    else { err := some .port } :: filePairs rest

/-- `fileIPGenerator.IPs` (stops at a bad address, too) -/
def fileIPs : List Line → List IpItem
  | [] => []
  | .badJson :: _ => [.err .json]
  | .tooLong :: _ => [.err .tooLong]
  | .entry none _ :: _ => [.err .ip]
  | .entry (some a) _ :: rest => .ip a :: fileIPs rest

/-! ### ipPortGenerator / ipRequestGenerator -/

/-- requests for one port over one pass of addresses -/
def reqsForPort (p : Nat) (ips : List IpItem) : List Req :=
  ips.map (fun
    | .ip a => { dst := some a, port := p }
    | .err c => { port := p, err := some c })

/-- the goroutine of `ipPortGenerator`: `pass k` is the outcome of the `k`-th call of `IPs`
    (call 0 happens before the loop; one more call follows every port) -/
def ipPortLoop (pass : Nat → Except Cause (List IpItem)) : List PortItem → Nat → List IpItem → List Req
  | [], _, _ => []
  | .err c :: ps, k, ips => { err := some c } :: ipPortLoop pass ps k ips
  | .port p :: ps, k, ips =>
    reqsForPort p ips ++
      (match pass (k + 1) with
       | .error c => [{ err := some c }]
       | .ok ips' => ipPortLoop pass ps (k + 1) ips')

/-- `ipPortGenerator.GenerateRequests`; `.error` = the call fails before any goroutine starts -/
def ipPortGen (ports : Option (List PortItem)) (pass : Nat → Except Cause (List IpItem)) :
    Except Cause (List Req) :=
  match ports with
  | none => .error .portRange
  | some ps =>
    match pass 0 with
    | .error c => .error c
    | .ok ips => .ok (ipPortLoop pass ps 0 ips)

/-- `ipRequestGenerator.GenerateRequests` -/
def ipReqGen (ips : Except Cause (List IpItem)) : Except Cause (List Req) :=
  ips.map (fun l => l.map (fun
    | .ip a => { dst := some a }
    | .err c => { err := some c }))

/-! ### exclusion filter and ARP-cache stage -/

/-- excluded networks: IPv4 `(base, ones)`; membership after `To4` normalisation -/
def excluded (excl : List (Nat × Nat)) : Addr → Bool
  | .v4 a _ => excl.any (fun (b, ones) => a / 2 ^ (32 - ones) == b / 2 ^ (32 - ones))
  | .v6 _ => false

/-- `filterIPRequestGenerator`: error requests pass through untouched; excluded probes are dropped -/
def filterStage (excl : List (Nat × Nat)) (rs : List Req) : List Req :=
  rs.filter (fun r =>
    match r.err, r.dst with
    | some _, _ => true
    | none, some a => !excluded excl a
    | none, none => true)

/-- ARP cache: association list keyed by `ip.String()` (so 4- and 16-byte spellings collide), last
    `Put` wins -/
def cacheGet (cache : List (Addr × Nat)) (a : Addr) : Option Nat :=
  (cache.reverse.find? (fun (k, _) => k.same a)).map (·.2)

/-- `cacheReqGenerator`: error requests pass through untouched; a probe gets the cache entry of its
    own destination, else the gateway MAC, else becomes an error -/
def cacheStage (cache : List (Addr × Nat)) (gw : Option Nat) (rs : List Req) : List Req :=
  rs.map (fun r =>
    match r.err, r.dst with
    | some _, _ => r
    | none, none => { r with err := some .noMAC }
    | none, some a =>
      match cacheGet cache a with
      | some m => { r with dstMAC := some m }
      | none =>
        match gw with
        | some g => { r with dstMAC := some g }
        | none => { r with err := some .noMAC })

/-! ### mode choice (`newIPPortGenerator`) and the chunk loop (`startPortScanEngine`) -/

/-- where the addresses come from -/
inductive Source where
  | subnet (net : Option Net)
  /-- `openFile k` = what the `k`-th open of the target file yields (`none` = open fails) -/
  | file (openFile : Nat → Option (List Line))

structure Spec where
  src : Source
  ports : List PortRange
  excl : Option (List (Nat × Nat))     -- `--exclude`
  cache : Option (List (Addr × Nat) × Option Nat)   -- ARP cache + gateway (packet scans, non-VPN)

/-- one engine run of an (address, port) command: `newIPPortGenerator` on one chunk of port ranges.
    `opens` = number of opens of the target file performed by earlier engine runs. -/
def ipPortRequests (tbl : List Group) (s : Spec) (chunk : List PortRange) (dp di : Draws) (opens : Nat) :
    Except Cause (List Req) :=
  let base : Except Cause (List Req) :=
    match s.src with
    | .subnet net =>
      ipPortGen (portGen tbl chunk dp) (fun k => ipGen tbl net (di k))
    | .file openFile =>
      if s.ports.isEmpty then
        -- ip/port pairs file
        match openFile opens with
        | none => .error .open_
        | some ls => .ok (filePairs ls)
      else
        ipPortGen (portGen tbl chunk dp)
          (fun k => match openFile (opens + k) with
            | none => .error .open_
            | some ls => .ok (fileIPs ls))
  let filtered := match s.excl with
    | some e => base.map (filterStage e)
    | none => base
  match s.cache with
  | some (c, gw) => filtered.map (cacheStage c gw)
  | none => filtered

/-- `for i := 0; i < len(Ports); i += chunkSize` with the special case for an empty list -/
def chunks (size : Nat) (emptyRunsOnce : Bool) (ports : List PortRange) : List (List PortRange) :=
  if ports.isEmpty then (if emptyRunsOnce then [[]] else [])
  else
    let rec go : Nat → List PortRange → List (List PortRange)
      | 0, _ => []
      | fuel + 1, ps => if ps.isEmpty then [] else ps.take size :: go fuel (ps.drop size)
    go ports.length ports

def portCount (chunk : List PortRange) : Nat := (chunk.map (fun r => r.hi + 1 - r.lo)).sum

/-- number of opens of the target file that one engine run performs (pairs mode: one; addresses ×
    ports mode: one up front and one after every port) -/
def opensOfRun (s : Spec) (chunk : List PortRange) : Nat :=
  match s.src with
  | .subnet _ => 0
  | .file _ => if s.ports.isEmpty then 1 else portCount chunk + 1

/-- `startPortScanEngine`: one engine run per chunk, in order; run `j` uses draw families `dp j`, `di j` -/
def portScanRuns (tbl : List Group) (s : Spec) (size : Nat) (emptyRunsOnce : Bool)
    (dp di : Nat → Draws) : List (Except Cause (List Req)) :=
  let rec go : Nat → Nat → List (List PortRange) → List (Except Cause (List Req))
    | _, _, [] => []
    | j, opens, c :: cs =>
      ipPortRequests tbl s c (dp j) (di j) opens :: go (j + 1) (opens + opensOfRun s c) cs
  go 0 0 (chunks size emptyRunsOnce s.ports)

/-- application scans (`socks`, `docker`, `elastic`): a single engine run over all ranges -/
def genericRun (tbl : List Group) (s : Spec) (dp di : Draws) : Except Cause (List Req) :=
  ipPortRequests tbl { s with cache := none } s.ports dp di 0

/-- port-less scans: `arp` (subnet only, no cache) and `icmp` (subnet or address file; cache) -/
def ipRequests (tbl : List Group) (s : Spec) (d : Nat × Nat) : Except Cause (List Req) :=
  let ips : Except Cause (List IpItem) :=
    match s.src with
    | .subnet net => ipGen tbl net d
    | .file openFile => match openFile 0 with
      | none => .error .open_
      | some ls => .ok (fileIPs ls)
  let base := ipReqGen ips
  let filtered := match s.excl with
    | some e => base.map (filterStage e)
    | none => base
  match s.cache with
  | some (c, gw) => filtered.map (cacheStage c gw)
  | none => filtered

end SxVerif.Gen
