/-
M-frame (encoding half) — model of the four `PacketFiller.Fill` implementations
(`pkg/scan/{tcp,udp,icmp,arp}`) and of the gopacket serializers they call
(`layers.{Ethernet,IPv4,TCP,UDP,ICMPv4,ARP}.SerializeTo`, `gopacket.Payload`, `SerializeLayers`
order, `checksum`, `tcpipChecksum`, `pseudoheaderChecksum`).  gopacket is modelled, not verified.

The three `math/rand` draws of a filler (IP id, source port, TCP sequence number) are explicit
arguments `rnd…` in the ranges `rand.Intn` gives them.
-/
import SxVerif.Model.Frame

namespace SxVerif.Fill
open SxVerif.Frame (Bytes)

def b8 (n : Nat) : UInt8 := UInt8.ofNat (n % 256)
def be16 (n : Nat) : Bytes := [b8 (n / 256), b8 n]
def be32 (n : Nat) : Bytes := [b8 (n / 16777216), b8 (n / 65536), b8 (n / 256), b8 n]

/-- sum of big-endian 16-bit words, a trailing odd byte counted as the high byte (`tcpipChecksum` loop) -/
def sumWords : Bytes → Nat
  | [] => 0
  | [a] => a.toNat * 256
  | a :: b :: rest => a.toNat * 256 + b.toNat + sumWords rest

/-- `for csum > 0xffff { csum = (csum >> 16) + (csum & 0xffff) }` -/
def fold16 : Nat → Nat → Nat
  | 0, c => c % 65536
  | fuel + 1, c => if c ≤ 65535 then c else fold16 fuel (c / 65536 + c % 65536)

/-- `^uint16(fold(csum))` -/
def finish (c : Nat) : Nat := 65535 - fold16 4 c

/-- `net.IP.To4` followed by gopacket's `checkIPv4Address` -/
def to4 (ip : Bytes) : Option Bytes :=
  if ip.length = 4 then some ip
  else if ip.length = 16 ∧ ip.take 12 = [0,0,0,0,0,0,0,0,0,0,0xff,0xff] then some (ip.drop 12)
  else none

inductive FillErr where
  | srcIP | dstIP | srcMAC | dstMAC
  deriving Repr, DecidableEq

structure Req where
  srcIP : Bytes
  dstIP : Bytes
  srcMAC : Bytes
  dstMAC : Bytes
  dstPort : Nat
  deriving Repr, DecidableEq

/-- `IPv4.SerializeTo` without options: `len` and `ihl` are what ends up in the fields -/
def ipv4Header (ihl len id flags ttl proto : Nat) (src dst : Bytes) : Bytes :=
  let h := [b8 (4 * 16 + ihl % 16), 0] ++ be16 len ++ be16 id ++ be16 ((flags % 8) * 8192) ++ [b8 ttl, b8 proto]
  let tl := src ++ dst
  h ++ be16 (finish (sumWords (h ++ [0, 0] ++ tl))) ++ tl

def pseudo (src dst : Bytes) (proto len : Nat) : Nat :=
  sumWords src + sumWords dst + proto + len % 65536 + len / 65536

/-- `Ethernet.SerializeTo` for an Ethernet II frame, with padding to 60 bytes -/
def ethFrame (dst src : Bytes) (etherType : Nat) (payload : Bytes) : Bytes :=
  let f := dst ++ src ++ be16 etherType ++ payload
  f ++ List.replicate (60 - f.length) 0

def withLink (vpn : Bool) (r : Req) (ip : Bytes) : Except FillErr Bytes :=
  if vpn then .ok ip
  else if r.dstMAC.length ≠ 6 then .error .dstMAC
  else if r.srcMAC.length ≠ 6 then .error .srcMAC
  else .ok (ethFrame r.dstMAC r.srcMAC 0x0800 ip)

/-- flag word of the TCP header: data offset, NS, and byte 13 -/
def tcpFlagWord (doff flags : Nat) : Nat := doff * 4096 + flags % 512

/-- bit of the 9-bit flag set that `layers.TCP.SerializeTo` (`flagsAndOffset` + byte 13) sets for a `layers.TCP`
    struct field -/
def tcpFieldBit : String → Nat
  | "FIN" => 1 | "SYN" => 2 | "RST" => 4 | "PSH" => 8 | "ACK" => 16 | "URG" => 32 | "ECE" => 64 | "CWR" => 128
  | "NS" => 256 | _ => 0

/-- what one CLI flag name contributes: its row of the regenerated table
    `(name, PacketFiller field set by tcpPacketFlagOptions[name], layers.TCP field that field feeds in Fill)` -/
def optionBit (table : List (String × String × String)) (name : String) : Nat :=
  match table.find? (fun e => e.1 == name) with
  | some e => tcpFieldBit e.2.2
  | none => 0

/-- `newTCPScanMethod`: `for _, flag := range o.tcpFlags { opts = append(opts, tcpPacketFlagOptions[flag]) }`,
    then `NewPacketFiller(opts...)` — the flag set the filler ends up with -/
def flagsOfNames (table : List (String × String × String)) (names : List String) : Nat :=
  names.foldl (fun acc n => acc ||| optionBit table n) 0

/-- `tcp.PacketFiller.Fill`: `flags` = NS<<8 | CWR ECE URG ACK PSH RST SYN FIN as set by the options;
    `rndId < 65535`, `rndPort < 28232`, `rndSeq < 2^32` -/
def fillTCP (vpn : Bool) (flags : Nat) (r : Req) (rndId rndPort rndSeq : Nat) : Except FillErr Bytes :=
  match to4 r.srcIP, to4 r.dstIP with
  | none, _ => .error .srcIP
  | _, none => .error .dstIP
  | some src, some dst =>
    -- options: MSS 1460, SACK permitted, window scale 7, three bytes of padding; data offset 8
    let opts : Bytes := [2, 4, 0x05, 0xb4, 4, 2, 3, 3, 7, 0, 0, 0]
    let pre := be16 (32768 + rndPort) ++ be16 r.dstPort ++ be32 rndSeq ++ be32 0 ++
               be16 (tcpFlagWord 8 flags) ++ be16 64240
    let post := be16 0 ++ opts
    let seg0 := pre ++ [0, 0] ++ post
    let csum := finish (pseudo src dst 6 seg0.length + sumWords seg0)
    let seg := pre ++ be16 csum ++ post
    let ip := ipv4Header 5 (20 + seg.length) (1 + rndId) 2 64 6 src dst ++ seg
    withLink vpn r ip

structure IPOpts where
  ttl : Nat
  len : Nat          -- `--iplen` (0 = computed)
  proto : Nat
  flags : Nat
  payload : Bytes
  vpn : Bool
  deriving Repr, DecidableEq

/-- `udp.PacketFiller.Fill` (after the D14 fix the UDP length is always 8 + payload) -/
def fillUDP (o : IPOpts) (r : Req) (rndId rndPort : Nat) : Except FillErr Bytes :=
  match to4 r.srcIP, to4 r.dstIP with
  | none, _ => .error .srcIP
  | _, none => .error .dstIP
  | some src, some dst =>
    let ulen := (8 + o.payload.length) % 65536
    let pre := be16 (32768 + rndPort) ++ be16 r.dstPort ++ be16 ulen
    let dg0 := pre ++ [0, 0] ++ o.payload
    let csum := finish (pseudo src dst 17 dg0.length + sumWords dg0)
    let dg := pre ++ be16 csum ++ o.payload
    let len := if o.len = 0 then (20 + dg.length) % 65536 else o.len
    withLink o.vpn r (ipv4Header 5 len (1 + rndId) o.flags o.ttl o.proto src dst ++ dg)

/-- `icmp.PacketFiller.Fill`; `rndIcmpId < 65535` -/
def fillICMP (o : IPOpts) (typ code : Nat) (r : Req) (rndId rndIcmpId : Nat) : Except FillErr Bytes :=
  match to4 r.srcIP, to4 r.dstIP with
  | none, _ => .error .srcIP
  | _, none => .error .dstIP
  | some src, some dst =>
    let pre : Bytes := [b8 typ, b8 code]
    let post := be16 (1 + rndIcmpId) ++ be16 1 ++ o.payload
    let csum := finish (sumWords (pre ++ [0, 0] ++ post))
    let msg := pre ++ be16 csum ++ post
    let len := if o.len = 0 then (20 + msg.length) % 65536 else o.len
    withLink o.vpn r (ipv4Header 5 len (1 + rndId) o.flags o.ttl o.proto src dst ++ msg)

/-- `arp.PacketFiller.Fill`: no length fixing, addresses copied as they are (`DstIP.To4()` may be nil) -/
def fillARP (r : Req) : Except FillErr Bytes :=
  if r.srcMAC.length ≠ 6 then .error .srcMAC
  else
    let tpa := (to4 r.dstIP).getD []
    let body := be16 1 ++ be16 0x0800 ++ [6, 4] ++ be16 1 ++ r.srcMAC ++ r.srcIP ++ [0, 0, 0, 0, 0, 0] ++ tpa
    .ok (ethFrame [0xff, 0xff, 0xff, 0xff, 0xff, 0xff] r.srcMAC 0x0806 body)

end SxVerif.Fill
