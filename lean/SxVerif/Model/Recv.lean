/-
M-recv — model of `pkg/packet/receiver.go`: `isTemporaryError`, `isUnrecoverableError`, and the
`ReceivePackets` loop as a fold over the sequence of outcomes of `ReadPacketData`.

An outcome is either a frame (with the verdict of `ProcessPacketData` on it) or an error drawn from an
enumerated vocabulary of Go error *values* (the harness constructs exactly these values).
-/
namespace SxVerif.Recv

/-- vocabulary of read errors (Go value in the comment) -/
inductive Err where
  | eagain          -- syscall.EAGAIN
  | econnreset      -- syscall.ECONNRESET
  | opEagain        -- &net.OpError{Err: syscall.EAGAIN}           (errors.Is unwraps)
  | sysConnreset    -- os.NewSyscallError("read", ECONNRESET)       (errors.Is unwraps)
  | netTimeout      -- a net.Error with Timeout() == true
  | netNoTimeout    -- a net.Error with Timeout() == false
  | eof             -- io.EOF
  | unexpectedEOF   -- io.ErrUnexpectedEOF
  | noProgress      -- io.ErrNoProgress
  | closedPipe      -- io.ErrClosedPipe
  | shortBuffer     -- io.ErrShortBuffer
  | ebadf           -- syscall.EBADF
  | closedFile      -- errors.New("read: use of closed file")
  | wrappedEOF      -- fmt.Errorf("read: %w", io.EOF)              (identity comparison fails)
  | afPoll          -- gopacket/afpacket.ErrPoll ("packet poll failed": poll(2) reported POLLERR, e.g. the
                    --   interface went down for a moment; the socket stays usable)
  | other           -- errors.New("boom")
  deriving Repr, DecidableEq, Inhabited

inductive Class where
  | temporary | unrecoverable | unknown
  deriving Repr, DecidableEq

/-- `errors.Is(err, EAGAIN) || errors.Is(err, ECONNRESET) || (net.Error && Timeout())` -/
def isTemporary : Err → Bool
  | .eagain | .econnreset | .opEagain | .sysConnreset | .netTimeout => true
  | _ => false

/-- `switch err { case io.EOF, …: true; default: strings.Contains(err.Error(), "use of closed file") }` -/
def isUnrecoverable : Err → Bool
  | .eof | .unexpectedEOF | .noProgress | .closedPipe | .shortBuffer | .ebadf | .closedFile => true
  | _ => false

/-- order of the tests in the loop body: temporary first, then unrecoverable, else unknown -/
def classify (e : Err) : Class :=
  if isTemporary e then .temporary
  else if isUnrecoverable e then .unrecoverable
  else .unknown

inductive Outcome where
  | frame (procErr : Bool)     -- a frame was read; `procErr` = ProcessPacketData returns an error
  | err (e : Err)
  deriving Repr, DecidableEq

structure Result where
  processed : List Nat      -- positions of frames handed to the processor, in order
  reported : List Nat       -- positions whose error was sent to the error channel, in order
  consumed : Nat            -- number of read outcomes consumed before the loop ended
  deriving Repr, DecidableEq

/-- The loop.  `pos` = index of the next read; `cancel = some k` = the context is observed cancelled
    at the loop head before read `k`.  The list running out models the socket being closed by the
    caller (the harness then returns io.EOF), i.e. the loop ends. -/
def loop (cancel : Option Nat) : Nat → List Outcome → Result
  | pos, [] => ⟨[], [], pos⟩
  | pos, o :: rest =>
    if cancel = some pos then ⟨[], [], pos⟩
    else
      match o with
      | .err e =>
        match classify e with
        | .temporary => loop cancel (pos + 1) rest
        | .unrecoverable => ⟨[], [], pos + 1⟩
        | .unknown =>
          let r := loop cancel (pos + 1) rest
          { r with reported := pos :: r.reported }
      | .frame procErr =>
        let r := loop cancel (pos + 1) rest
        { r with processed := pos :: r.processed,
                 reported := if procErr then pos :: r.reported else r.reported }

def receive (outs : List Outcome) (cancel : Option Nat) : Result := loop cancel 0 outs

end SxVerif.Recv
