/-
Stage descriptors of the generic engine / result channel / logger / `startScanEngine` as plain data.
`sxfacts` (harness/cmd/sxfacts/stages_engine.go) regenerates `Generated/StagesEngine.lean` in this
vocabulary from the Go source on every run; the side conditions below are decided on that data in
`Props/C08.lean`, `Props/C12.lean`, `Props/C16.lean`.  Enumerations (not strings) keep `decide` cheap;
anything the translator does not recognise becomes `.unknown` (and a translator problem).
-/
namespace SxVerif.StageDesc

/-- channels by role -/
inductive Ch where
  | requests | errc | done | internalResults | results | timer | unknown
  deriving DecidableEq, Repr

/-- is the blocking operation inside `select { case <-X.Done(): … }`, and which ctx is X -/
inductive Guard where
  | none        -- plain `<-c`, `c <- v`, `for … range c`
  | derived     -- the ctx created by `context.WithCancel` inside `startScanEngine`
  | command     -- the ctx of the cobra command (`signal.NotifyContext`), also held by `resultChan`
  | unknown
  deriving DecidableEq, Repr

inductive Call where
  | scan          -- `e.scanner.Scan(ctx, r)`
  | put           -- `e.results.Put(result)`
  | write         -- `l.rw.Write(l.w, result)`
  | logError      -- `logger.Error(err)`
  | wgAdd | wgDone | wgWait
  | cancel        -- the derived ctx's `cancel()`
  | goWorker      -- `go e.worker(ctx, &wg, requests, errc)`
  | withCancel    -- `ctx, cancel := context.WithCancel(ctx)`
  | goLogger | start | goController | goDrain
  | logResults    -- `logger.LogResults(ctx, engine.Results())`
  | flush         -- `bw.Flush()` (flush timer branch / deferred)
  | unknown
  deriving DecidableEq, Repr

inductive StageName where
  | startEarly    -- `Start`, branch `GenerateRequests` failed (synchronous)
  | supervisor    -- `go func()` in `Start`
  | worker        -- `GenericEngine.worker` incl. `writeError`
  | put           -- `resultChan.Put` (runs inside the worker)
  | copier        -- `copyChans` goroutine of `NewResultChan`
  | logger        -- `logger.LogResults` (run by the logger goroutine of `startScanEngine`)
  | controller    -- `go func() { defer cancel(); <-done; <-time.After(conf.exitDelay) }()`
  | drain         -- `go func() { defer wg.Done(); for err := range errc { logger.Error(err) } }()`
  | main          -- body of `startScanEngine`
  deriving DecidableEq, Repr

structure ChanOp where
  chan : Ch
  guard : Guard
  deriving DecidableEq, Repr

structure Stage where
  name : StageName
  recvs : List ChanOp
  sends : List ChanOp
  closes : List Ch          -- in EXECUTION order (deferred closes reversed)
  calls : List Call         -- in source order; deferred calls last, in execution order
  deriving DecidableEq, Repr

/-- what the controller does, in execution order -/
inductive CtlEvent where
  | recvDone | timerExitDelay | cancel | other
  deriving DecidableEq, Repr

def find? (ss : List Stage) (n : StageName) : Option Stage := ss.find? (·.name == n)

def Stage.has (s : Stage) (c : Call) : Bool := s.calls.contains c

def count (ss : List Stage) (p : Stage → Bool) : Nat := (ss.filter p).length

/-- every stage name occurs exactly once -/
def complete (ss : List Stage) : Bool :=
  [StageName.startEarly, .supervisor, .worker, .put, .copier, .logger, .controller, .drain, .main].all
    fun n => count ss (·.name == n) == 1

/-- `SingleCloser`: `errc` and `done` are closed by the supervisor only (`startEarly` is the branch of
    `Start` that never starts the supervisor), `results` by the copier only, nothing else is closed. -/
def singleCloser (ss : List Stage) : Bool :=
  ss.all fun s =>
    match s.name with
    | .startEarly | .supervisor => s.closes == [.errc, .done]     -- order: errc first, then done
    | .copier => s.closes == [.results]
    | _ => s.closes == []

/-- `CloseAfterSenders`: the only senders on `errc` are the workers (and `startEarly` before its own
    close); the supervisor closes after `wg.Wait()` over the workers it `wg.Add`ed, each worker ends
    with `wg.Done()`; the only sender on `results` is the copier, which closes it itself on return;
    `internalResults` and `requests` are never closed here; `done` carries no values. -/
def closeAfterSenders (ss : List Stage) : Bool :=
  (ss.all fun s =>
    s.sends.all fun op =>
      match op.chan with
      | .errc => s.name == .worker || s.name == .startEarly
      | .results => s.name == .copier
      | .internalResults => s.name == .put
      | _ => false) &&
  (match find? ss .supervisor with
   | some s => s.calls == [.wgAdd, .goWorker, .wgWait]
   | none => false) &&
  (match find? ss .worker with
   | some s => s.calls.getLast? == some .wgDone
   | none => false)

/-- the guards the transition system `Model/Engine.lean` assumes (which ctx ends which blocking op) -/
def guardsAsModelled (ss : List Stage) : Bool :=
  (match find? ss .worker with
   | some s => s.recvs == [⟨.requests, .derived⟩] && s.sends == [⟨.errc, .derived⟩, ⟨.errc, .derived⟩] &&
               s.has .scan && s.has .put
   | none => false) &&
  (match find? ss .put with
   | some s => s.recvs == [] && s.sends == [⟨.internalResults, .command⟩]
   | none => false) &&
  (match find? ss .copier with
   | some s => s.recvs == [⟨.internalResults, .command⟩] && s.sends == [⟨.results, .command⟩]
   | none => false) &&
  (match find? ss .logger with
   | some s => s.recvs.contains ⟨.results, .derived⟩ && s.sends == [] &&
               s.recvs.all (fun op => op == ⟨.results, .derived⟩ || op == ⟨.timer, .derived⟩) &&
               s.calls.count .write == 1
   | none => false) &&
  (match find? ss .drain with
   | some s => s.recvs == [⟨.errc, .none⟩] && s.sends == [] && s.has .logError && s.has .wgDone
   | none => false) &&
  (match find? ss .controller with
   | some s => s.recvs == [⟨.done, .none⟩, ⟨.timer, .none⟩] && s.sends == [] && s.calls == [.cancel]
   | none => false) &&
  (match find? ss .startEarly with
   | some s => s.recvs == [] && s.sends == [⟨.errc, .none⟩]
   | none => false) &&
  (match find? ss .supervisor with
   | some s => s.recvs == [] && s.sends == []
   | none => false)

/-- `GuardedOnReturnPath`: `startScanEngine` waits (`wg.Wait`) for the logger and the drain.  The drain
    needs `errc` closed, i.e. the supervisor past `wg.Wait`, i.e. every worker returned.  Every blocking
    operation of worker / `Put` / logger is guarded by a ctx that Ctrl-C cancels; the drain's only
    blocking operation is the receive on `errc` itself. -/
def guardedOnReturnPath (ss : List Stage) : Bool :=
  ([StageName.worker, .put, .logger].all fun n =>
    match find? ss n with
    | some s => (s.recvs ++ s.sends).all fun op =>
        op.guard == .derived || op.guard == .command || op.chan == .timer
    | none => false) &&
  (match find? ss .main with
   | some s => s.has .withCancel && s.has .goLogger && s.has .start && s.has .goController &&
               s.has .goDrain && s.has .wgWait && s.calls.getLast? == some .cancel &&
               -- the waited set is exactly {logger, drain}: two `wg.Add`
               s.calls.count .wgAdd == 2
   | none => false)

def controllerShape (ev : List CtlEvent) : Bool := ev == [.recvDone, .timerExitDelay, .cancel]

end SxVerif.StageDesc
