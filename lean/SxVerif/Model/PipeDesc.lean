/-
Stage descriptors of the packet pipeline (the vocabulary `sxfacts` speaks in `Generated/StagesPacket.lean`),
the configuration `cfgOf` the model `Model/Pipe.lean` is instantiated with, and the decidable side
conditions that link the generated data to the hypotheses of the theorems.

Core Lean only.
-/
import SxVerif.Model.Pipe

namespace SxVerif.Pipe.Desc
open SxVerif.Pipe

/-- role of a channel variable inside one goroutine, found structurally by the translator:
    `input` = channel-typed parameter of the enclosing function, `output` = the channel the enclosing
    function makes and returns; for the sender `errc` = the made `chan error`, `done` = the other one -/
inductive ChanRole where
  | input | output | errc | done
  deriving DecidableEq, Repr

inductive CallId where
  | newBuffer   -- packet.NewSerializeBuffer
  | fill        -- PacketFiller.Fill
  | write       -- Writer.WritePacketData
  | free        -- packet.FreeSerializeBuffer
  deriving DecidableEq, Repr

/-- one operation of a goroutine body, in source order; `guarded` = sits in a `select` that also has a
    `case <-ctx.Done()` (directly or through a helper such as writeBufToChan / writeError) -/
inductive Op where
  | recv (c : ChanRole) (guarded : Bool)
  | send (c : ChanRole) (guarded : Bool)
  | close (c : ChanRole) (deferred : Bool)
  | call (f : CallId)
  | wgDone (deferred : Bool)
  | wgWait
  deriving DecidableEq, Repr

inductive StageId where
  | worker     -- packetGenerator.Packets goroutine                 (generator.go)
  | mux        -- MergeBufferDataChan: multiplex                    (generator.go)
  | closer     -- MergeBufferDataChan: `go func(){ wg.Wait(); close(out) }`
  | sender     -- sender.SendPackets goroutine                      (packet/sender.go)
  | emux       -- mergeErrChan: multiplex                           (engine.go)
  | ecloser    -- mergeErrChan: closer
  deriving DecidableEq, Repr

structure Stage where
  id : StageId
  loops : Bool          -- body is `for { select { … } }` (or `for … range`)
  ops : List Op
  deriving DecidableEq, Repr

/-- everything the translator reports about the packet pipeline -/
structure Topology where
  stages : List Stage
  capOut : Nat                 -- packetGenerator.Packets: make(chan, capOut)
  capMergedFactor : Nat        -- MergeBufferDataChan: make(chan, len(channels)*factor)
  capMergedPerChannel : Bool   -- … the capacity expression is `len(channels) * <factor>`
  capErrc : Nat                -- sender: errc
  capDone : Nat                -- sender: done (0 = unbuffered)
  capMerr : Nat                -- mergeErrChan: out
  wgAddAll : Bool              -- MergeBufferDataChan: `wg.Add(len(channels))` before any goroutine starts
  muxPerChannel : Bool         -- … `for _, c := range channels { go multiplex(c) }`
  ewgAddAll : Bool             -- mergeErrChan: same two facts
  emuxPerChannel : Bool
  muxDropReturns : Bool        -- MergeBufferDataChan.multiplex: the ctx branch of the inner send `return`s
  workersLoop : Bool           -- packetMultiGenerator.Packets: numWorkers × `g.gen.Packets(ctx, in)` on the same
                               --   `in`, all of them (and nothing else) passed to MergeBufferDataChan, whose result is returned
  engineWiring : Bool          -- PacketEngine.Start: packets := src.Packets; done, errc1 := snd.SendPackets(ctx, packets);
                               --   errc2 := rcv.ReceivePackets(ctx); return done, mergeErrChan(ctx, errc1, errc2)
  srcErrBranch : Bool          -- packetSource.Packets: on a generator error: make(chan,1); out <- {Err: err}; close(out); return out
  poolGetInNew : Bool          -- memory.go: NewSerializeBuffer returns bufferPool.Get()
  poolClearThenPut : Bool      -- memory.go: FreeSerializeBuffer: buf.Clear() (return on error), then bufferPool.Put(buf)
  deriving DecidableEq, Repr

def stage? (t : Topology) (id : StageId) : Option Stage := t.stages.find? (·.id = id)

def opsOf (t : Topology) (id : StageId) : List Op := ((stage? t id).map (·.ops)).getD []

def recvGuards (ops : List Op) : List Bool :=
  ops.filterMap fun | .recv _ g => some g | _ => none

def sendGuards (ops : List Op) (c : ChanRole) : List Bool :=
  ops.filterMap fun | .send c' g => if c' = c then some g else none | _ => none

def callsOf (ops : List Op) : List CallId := ops.filterMap fun | .call f => some f | _ => none

def closesOf (ops : List Op) : List ChanRole := ops.filterMap fun | .close c _ => some c | _ => none

def senderCallsOf (ops : List Op) : List Call :=
  (callsOf ops).filterMap fun | .write => some Call.write | .free => some Call.free | _ => none

/-- the model's parameters, read off the descriptors -/
def cfgOf (t : Topology) : Cfg :=
  let w := opsOf t .worker
  let m := opsOf t .mux
  let s := opsOf t .sender
  let e := opsOf t .emux
  { capOut := t.capOut, capMergedPer := t.capMergedFactor, capErrc := t.capErrc, capMerr := t.capMerr,
    gWorkerRecv := (recvGuards w).all id, gWorkerSend := (sendGuards w .output).all id,
    gMuxRecv := (recvGuards m).all id, gMuxSend := (sendGuards m .output).all id,
    gSenderRecv := (recvGuards s).all id, gSenderErr := (sendGuards s .errc).all id && !(sendGuards s .errc).isEmpty,
    gEMuxRecv := (recvGuards e).all id, gEMuxSend := (sendGuards e .output).all id,
    senderCalls := senderCallsOf s,
    doneFirst := closesOf s = [.done, .errc],
    closerWaits := opsOf t .closer = [.wgWait, .close .output false],
    ecloserWaits := opsOf t .ecloser = [.wgWait, .close .output false] }

/-! ### side conditions (decidable; discharged `by decide` on the generated topology) -/

def closeCount (t : Topology) (id : StageId) (c : ChanRole) : Nat := ((closesOf (opsOf t id)).filter (· = c)).length

/-- the shape the model's processes have: each goroutine is present, is a loop where the model loops,
    receives from its one input, and the order of operations is the one the model executes -/
def ShapeOk (t : Topology) : Prop :=
  t.stages.map (·.id) = [.worker, .mux, .closer, .sender, .emux, .ecloser] ∧
  (t.stages.map (·.loops)) = [true, true, false, true, true, false] ∧
  -- worker: recv in; [send out]; newBuffer; fill; [send out]; send out
  (opsOf t .worker).filter (fun o => match o with | .close _ _ => false | _ => true) =
    [.recv .input (cfgOf t).gWorkerRecv, .send .output (cfgOf t).gWorkerSend, .call .newBuffer, .call .fill,
     .send .output (cfgOf t).gWorkerSend, .send .output (cfgOf t).gWorkerSend] ∧
  -- multiplexers: recv c; send out; wg.Done deferred
  (opsOf t .mux).filter (fun o => match o with | .wgDone _ => false | _ => true) =
    [.recv .input (cfgOf t).gMuxRecv, .send .output (cfgOf t).gMuxSend] ∧
  (opsOf t .emux).filter (fun o => match o with | .wgDone _ => false | _ => true) =
    [.recv .input (cfgOf t).gEMuxRecv, .send .output (cfgOf t).gEMuxSend] ∧
  t.muxDropReturns = true ∧
  -- sender: recv in; errc<-pkt.Err; write; errc<-err; free; errc<-err (never taken: Clear cannot fail)
  (opsOf t .sender).filter (fun o => match o with | .close _ _ => false | .call _ => false | _ => true) =
    [.recv .input (cfgOf t).gSenderRecv, .send .errc (cfgOf t).gSenderErr, .send .errc (cfgOf t).gSenderErr,
     .send .errc (cfgOf t).gSenderErr] ∧
  t.workersLoop = true ∧ t.engineWiring = true ∧ t.srcErrBranch = true ∧
  t.capMergedPerChannel = true ∧ t.capDone = 0

/-- each channel has exactly one closing site, and it is in the goroutine the model closes it from -/
def SingleCloser (t : Topology) : Prop :=
  closesOf (opsOf t .worker) = [.output] ∧ closesOf (opsOf t .mux) = [] ∧ closesOf (opsOf t .closer) = [.output] ∧
  (closesOf (opsOf t .sender) = [.done, .errc] ∨ closesOf (opsOf t .sender) = [.errc, .done]) ∧
  closesOf (opsOf t .emux) = [] ∧ closesOf (opsOf t .ecloser) = [.output]

/-- a channel is closed by its only sender after its loop (deferred), or by the WaitGroup waiter over
    all senders: Add(len(channels)) before the goroutines start, one multiplexer per channel, each with a
    deferred Done, closer = Wait then close -/
def CloseAfterSenders (t : Topology) : Prop :=
  (Op.close .output true) ∈ opsOf t .worker ∧
  (Op.close .done true) ∈ opsOf t .sender ∧ (Op.close .errc true) ∈ opsOf t .sender ∧
  t.wgAddAll = true ∧ t.muxPerChannel = true ∧ (Op.wgDone true) ∈ opsOf t .mux ∧
  ((opsOf t .mux).filter (· = Op.wgDone true)).length = 1 ∧ (Op.wgDone false) ∉ opsOf t .mux ∧
  (cfgOf t).closerWaits = true ∧
  t.ewgAddAll = true ∧ t.emuxPerChannel = true ∧ (Op.wgDone true) ∈ opsOf t .emux ∧
  ((opsOf t .emux).filter (· = Op.wgDone true)).length = 1 ∧ (Op.wgDone false) ∉ opsOf t .emux ∧
  (cfgOf t).ecloserWaits = true

/-- the sender hands the bytes to the writer before it returns the buffer to the pool -/
def FreeAfterWrite (t : Topology) : Prop := (cfgOf t).senderCalls = [.write, .free]

/-- the worker takes a buffer from the pool before it fills it; the pool functions are Get / Clear+Put -/
def GetBeforeFill (t : Topology) : Prop :=
  callsOf (opsOf t .worker) = [.newBuffer, .fill] ∧ t.poolGetInNew = true ∧ t.poolClearThenPut = true

/-- every buffered channel of the pipeline has room for at least one item (needed for progress only) -/
def CapsPositive (t : Topology) : Prop :=
  0 < t.capOut ∧ 0 < t.capMergedFactor ∧ 0 < t.capErrc ∧ 0 < t.capMerr

/-- every blocking operation of the goroutines that must finish for the merged error channel to be
    closed (the two mergeErrChan multiplexers; their closer only waits for them) is ctx-guarded -/
def GuardedOnReturnPath (t : Topology) : Prop :=
  (cfgOf t).gEMuxRecv = true ∧ (cfgOf t).gEMuxSend = true ∧
  recvGuards (opsOf t .emux) ≠ [] ∧ sendGuards (opsOf t .emux) .output ≠ []

def SideConds (t : Topology) : Prop :=
  ShapeOk t ∧ SingleCloser t ∧ CloseAfterSenders t ∧ FreeAfterWrite t ∧ GetBeforeFill t ∧ CapsPositive t ∧
  GuardedOnReturnPath t

instance (t : Topology) : Decidable (ShapeOk t) := by unfold ShapeOk; infer_instance
instance (t : Topology) : Decidable (SingleCloser t) := by unfold SingleCloser; infer_instance
instance (t : Topology) : Decidable (CloseAfterSenders t) := by unfold CloseAfterSenders; infer_instance
instance (t : Topology) : Decidable (FreeAfterWrite t) := by unfold FreeAfterWrite; infer_instance
instance (t : Topology) : Decidable (GetBeforeFill t) := by unfold GetBeforeFill; infer_instance
instance (t : Topology) : Decidable (CapsPositive t) := by unfold CapsPositive; infer_instance
instance (t : Topology) : Decidable (GuardedOnReturnPath t) := by unfold GuardedOnReturnPath; infer_instance
instance (t : Topology) : Decidable (SideConds t) := by unfold SideConds; infer_instance

/-- the topology of the tree this framework was written against (what sxfacts is expected to emit);
    used for non-vacuity examples and as the driver's configuration -/
def reference : Topology :=
  { stages := [
      { id := .worker, loops := true, ops := [.close .output true, .recv .input true, .send .output true,
          .call .newBuffer, .call .fill, .send .output true, .send .output true] },
      { id := .mux, loops := true, ops := [.wgDone true, .recv .input true, .send .output true] },
      { id := .closer, loops := false, ops := [.wgWait, .close .output false] },
      { id := .sender, loops := true, ops := [.close .done true, .close .errc true, .recv .input true,
          .send .errc false, .call .write, .send .errc false, .call .free, .send .errc false] },
      { id := .emux, loops := true, ops := [.wgDone true, .recv .input true, .send .output true] },
      { id := .ecloser, loops := false, ops := [.wgWait, .close .output false] } ],
    capOut := 100, capMergedFactor := 100, capMergedPerChannel := true, capErrc := 100, capDone := 0, capMerr := 100,
    wgAddAll := true, muxPerChannel := true, ewgAddAll := true, emuxPerChannel := true, muxDropReturns := true,
    workersLoop := true, engineWiring := true, srcErrBranch := true, poolGetInNew := true, poolClearThenPut := true }

end SxVerif.Pipe.Desc

namespace SxVerif.Pipe

/-- what the theorems need from a configuration (implied by the side conditions, see Proofs/ConcPacket) -/
structure Cfg.WF (cfg : Cfg) : Prop where
  calls : cfg.senderCalls = [.write, .free]
  closerWaits : cfg.closerWaits = true
  ecloserWaits : cfg.ecloserWaits = true

structure Cfg.CapsPos (cfg : Cfg) : Prop where
  out : 0 < cfg.capOut
  merged : 0 < cfg.capMergedPer
  errc : 0 < cfg.capErrc
  merr : 0 < cfg.capMerr

structure Cfg.ReturnGuarded (cfg : Cfg) : Prop where
  recv : cfg.gEMuxRecv = true
  send : cfg.gEMuxSend = true

end SxVerif.Pipe
