/-
M-proc — model of the three `ProcessPacketData` implementations (`pkg/scan/{tcp,icmp,arp}`; udp reuses
the icmp processor) on top of M-frame, with their persistent decoder state.
-/
import SxVerif.Model.Frame

namespace SxVerif.Proc
open SxVerif.Frame

inductive Record where
  | tcp (scanType : String) (src : Bytes) (port : Nat) (flags : String)
  | icmp (scanType : String) (src : Bytes) (ttl typ code : Nat)
  | arp (ip : Bytes) (mac : Bytes)            -- the vendor string is a table lookup on mac[0..3], opaque here
  deriving Repr, DecidableEq

inductive Out where
  | none                    -- nothing to report
  | error                   -- ProcessPacketData returns an error (the receiver reports it)
  | record (r : Record)     -- results.Put(…)
  | panic                   -- the goroutine would crash
  deriving Repr, DecidableEq

inductive TcpFilter where
  | all                     -- tcp.TrueFilter
  | synack                  -- `pkt.SYN && pkt.ACK` (tcp syn)
  deriving Repr, DecidableEq

inductive FlagsFn where
  | allFlags                -- tcp.AllFlags
  | empty                   -- tcp.EmptyFlags
  deriving Repr, DecidableEq

structure TcpCfg where
  scanType : String
  filter : TcpFilter
  flagsFn : FlagsFn
  vpn : Bool
  deriving Repr, DecidableEq

def bit (v mask : Nat) : Bool := (v / mask) % 2 = 1

/-- `tcp.AllFlags`: letters in the order s a f r p u e c n -/
def allFlags (fl : Nat) : String :=
  String.ofList ([( 0x02, 's'), (0x10, 'a'), (0x01, 'f'), (0x04, 'r'), (0x08, 'p'), (0x20, 'u'), (0x40, 'e'),
    (0x80, 'c'), (0x100, 'n')].filterMap (fun (m, c) => if bit fl m then some c else none))

def firstLayer (vpn : Bool) : LT := if vpn then .ipv4 else .ethernet

/-- `validPacket` after the fix: exactly the expected chain of layer types -/
def validChain (proto : LT) (decoded : List LT) : Bool :=
  decoded == [.ethernet, .ipv4, proto] || decoded == [.ipv4, proto]

def processTCP (cfg : TcpCfg) (st : State) (d : Bytes) : State × Out :=
  match decodeLayers [.ethernet, .ipv4, .tcp] (firstLayer cfg.vpn) st d with
  | .err st' => (st', .error)
  | .ok st' decoded =>
    if !validChain .tcp decoded || st'.ipVersion != 4 then (st', .none)
    else
      let pass := match cfg.filter with
        | .all => true
        | .synack => bit st'.tcpFlags 0x02 && bit st'.tcpFlags 0x10
      if pass then
        (st', .record (.tcp cfg.scanType st'.ipSrc st'.tcpSrcPort
          (match cfg.flagsFn with | .allFlags => allFlags st'.tcpFlags | .empty => "")))
      else (st', .none)

def processICMP (scanType : String) (vpn : Bool) (st : State) (d : Bytes) : State × Out :=
  match decodeLayers [.ethernet, .ipv4, .icmpv4] (firstLayer vpn) st d with
  | .err st' => (st', .error)
  | .ok st' decoded =>
    if !validChain .icmpv4 decoded || st'.ipVersion != 4 then (st', .none)
    else (st', .record (.icmp scanType st'.ipSrc st'.ipTTL st'.icmpType st'.icmpCode))

def processARP (st : State) (d : Bytes) : State × Out :=
  match decodeLayers [.ethernet, .arp] .ethernet st d with
  | .err st' => (st', .error)
  | .ok st' decoded =>
    if decoded != [.ethernet, .arp] then
      -- Go: `len(decoded) != 2 || decoded[1] != LayerTypeARP`; the first layer is always Ethernet
      (st', .none)
    else if st'.arpAddrType != 1 || st'.arpProtocol != 0x0800 || st'.arpHwSize != 6 || st'.arpProtSize != 4 then
      (st', .none)
    else if st'.arpSrcHw.length < 3 then (st', .panic)      -- SourceHwAddress[:3]
    else (st', .record (.arp st'.arpSrcProt st'.arpSrcHw))

/-- which processor a command wires -/
inductive Scan where
  | tcp (cfg : TcpCfg)
  | icmp (scanType : String) (vpn : Bool)     -- `icmp` and `udp`
  | arp
  deriving Repr, DecidableEq

def process : Scan → State → Bytes → State × Out
  | .tcp cfg => processTCP cfg
  | .icmp n v => processICMP n v
  | .arp => processARP

/-- a history of frames through one processor -/
def run (scan : Scan) : State → List Bytes → List Out
  | _, [] => []
  | st, f :: fs => let (st', o) := process scan st f; o :: run scan st' fs

end SxVerif.Proc
