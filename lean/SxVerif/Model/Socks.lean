/-
M-probe (SOCKS5 part) — model of `pkg/scan/socks5/socks5.go` (`Scanner.Scan`, `socksConn`) and
`pkg/scan/socks5/message.go` (`MethodRequest.WriteTo`, `MethodReply.ReadFrom`).

The probe is a straight line of blocking operations on one TCP connection:

    DialContext ─ SetLinger ─ [watchdog started] ─ Write(greeting) ─ ReadFull(2 bytes) ─ compare ─ (deferred) Close

`Scan` is modelled as a function of a *script* — what the peer does, on an absolute clock — and of the
moment (if any) at which the scan context is cancelled.  Time is `Nat` (the driver uses microseconds).

What is taken from the code, line by line:
* `net.Dialer{Timeout}`: a zero timeout means *no* deadline; otherwise the dial fails with a timeout
  once `Timeout` has elapsed.
* `socksConn.Read/Write`: a fresh deadline `now + dataTimeout` is set before EVERY call, i.e. the
  deadline is per `Read` call, not per message.  A deadline that is not in the future fails the call
  at once (`d < T` below, so `T = 0` times out even when data is ready).
* `MethodReply.ReadFrom` = `binary.Read` of a 2-byte struct = ONE `io.ReadFull(r, buf[0:2])`
  (go1.23 `encoding/binary`: `intDataSize(*struct) = 0`, so only the reflect path runs)
  = `io.ReadAtLeast`: `for n < 2 && err == nil { nn, err = r.Read(buf[n:]); n += nn }`, then
  `n ≥ 2 ⇒ nil`, `n > 0 ∧ err = EOF ⇒ ErrUnexpectedEOF`.
* the watchdog goroutine closes the connection when the context is done: the operation in flight
  returns "use of closed network connection" at that moment; a cancelled `DialContext` returns
  "operation was canceled".
* `defer conn.Close()` with `SetLinger(sec)`: on Linux `close(2)` of a socket with `SO_LINGER` on and
  a positive linger time BLOCKS (also for non-blocking sockets) until the peer has acknowledged our FIN
  or the linger time is over; with `sec = 0` it resets the connection and returns at once; with
  `sec < 0` (linger off) it returns at once.
-/
namespace SxVerif.Socks

/-- durations and instants (one unit for everything; the driver uses microseconds) -/
scoped notation "Dur" => Nat

/-- number of `Dur` units in one second (the unit of `SetLinger`'s argument) -/
def unitsPerSecond : Nat := 1000000

/-! ## Messages (message.go) -/

/-- `NewMethodRequest(ver, methods...)` then `WriteTo`: `Ver`, `NMethods = byte(len(methods))`
    (a Go conversion: it wraps modulo 256), `Methods`.  One buffer, one `Write`. -/
def greeting (ver : UInt8) (methods : List UInt8) : List UInt8 :=
  ver :: UInt8.ofNat methods.length :: methods

/-! ## Configuration, scripts, outcomes -/

structure Cfg where
  version : UInt8          -- first argument of `NewMethodRequest` in `Scan`
  methods : List UInt8     -- remaining arguments
  expectVer : UInt8        -- `reply.Ver == …`
  expectMethod : UInt8     -- `reply.Method == …`
  lingerSec : Int          -- argument of `SetLinger`
  dialTimeout : Dur        -- `dialer.Timeout` (0 = none)
  dataTimeout : Dur        -- `socksConn.timeout`
  deriving Repr

structure Target where
  ip : Nat                 -- IPv4 address as a number (rendered dotted by the driver)
  port : Nat
  deriving Repr, DecidableEq

inductive IoErr where
  | timeout                -- deadline exceeded (`net.Error` with `Timeout()`)
  | reset                  -- ECONNRESET / EPIPE
  deriving Repr, DecidableEq

inductive Err where
  | dialRefused
  | dialTimeout
  | dialCancelled          -- "operation was canceled"
  | linger                 -- `SetLinger` failed
  | write (e : IoErr)
  | read (e : IoErr)
  | eof                    -- `io.EOF`: closed before any reply byte
  | unexpectedEOF          -- `io.ErrUnexpectedEOF`: closed after one reply byte
  | closed                 -- "use of closed network connection": the watchdog closed the conn
  deriving Repr, DecidableEq

inductive Outcome where
  | reported (t : Target)  -- `&ScanResult{IP: r.DstIP.String(), Port: r.DstPort}`, nil
  | nothing                -- nil, nil
  | error (e : Err)        -- nil, err
  deriving Repr, DecidableEq

/-- what the peer does with our SYN -/
inductive DialEv where
  | ok (d : Dur)           -- handshake completes `d` after the dial started
  | refused (d : Dur)      -- RST after `d`
  | silent (giveUp : Dur)  -- never answered; the kernel itself gives up after `giveUp` (ETIMEDOUT)
  deriving Repr, DecidableEq

/-- what happens to our `Write` of the greeting -/
inductive WriteEv where
  | ok (d : Dur)           -- accepted by the kernel after `d`
  | reset (d : Dur)        -- the connection was reset: EPIPE/ECONNRESET after `d`
  | stall                  -- send buffer never drains
  deriving Repr, DecidableEq

/-- what the next `Read` call meets; `d` is measured from the start of THAT call -/
inductive ReadEv where
  | data (bs : List UInt8) (d : Dur)   -- the next bytes of the peer become readable after `d`
  | eof (d : Dur)                      -- FIN
  | reset (d : Dur)                    -- RST
  | stall                              -- nothing more ever arrives
  deriving Repr, DecidableEq

structure Script where
  dial : DialEv
  lingerOk : Bool := true
  write : WriteEv
  reads : List ReadEv           -- an exhausted list behaves like `stall`
  finAck : Option Dur           -- how long the peer takes to acknowledge our FIN (`none` = never)
  cancel : Option Dur           -- instant at which the scan context is cancelled
  deriving Repr

/-! ## Blocking operations -/

/-- `DialContext` under `dialer.Timeout`: natural result and time taken -/
def dialOp (timeout : Dur) : DialEv → Option Err × Dur
  | .ok d => if timeout ≠ 0 ∧ timeout ≤ d then (some .dialTimeout, timeout) else (none, d)
  | .refused d => if timeout ≠ 0 ∧ timeout ≤ d then (some .dialTimeout, timeout) else (some .dialRefused, d)
  | .silent g => if timeout ≠ 0 ∧ timeout ≤ g then (some .dialTimeout, timeout) else (some .dialTimeout, g)

/-- `socksConn.Write`: deadline `T` from now, then `conn.Write` -/
def writeOp (T : Dur) : WriteEv → Option IoErr × Dur
  | .ok d => if d < T then (none, d) else (some .timeout, T)
  | .reset d => if d < T then (some .reset, d) else (some .timeout, T)
  | .stall => (some .timeout, T)

inductive ReadRes where
  | bytes (bs : List UInt8)
  | eof
  | err (e : IoErr)
  deriving Repr, DecidableEq

/-- `socksConn.Read(p)` with `len p = cap`: deadline `T` from now, then `conn.Read` -/
def readOp (T : Dur) (cap : Nat) : ReadEv → ReadRes × Dur
  | .data bs d => if d < T then (.bytes (bs.take cap), d) else (.err .timeout, T)
  | .eof d => if d < T then (.eof, d) else (.err .timeout, T)
  | .reset d => if d < T then (.err .reset, d) else (.err .timeout, T)
  | .stall => (.err .timeout, T)

/-- An operation started at `t0` that would take `e`: if the context is cancelled before it is over,
    the watchdog's `conn.Close()` (or the dialer's own ctx handling) ends it at that instant. -/
def interrupted (cancel : Option Dur) (t0 e : Dur) : Option Dur :=
  match cancel with
  | some c => if c < t0 + e then some (max t0 c) else none
  | none => none

/-! ## `io.ReadFull(sconn, buf[0:size])` -/

structure ReadOut where
  res : Except Err (List UInt8)   -- the filled buffer, or ReadFull's error
  t : Dur                         -- instant of return
  calls : Nat                     -- `Read` calls issued
  caps : List Nat                 -- `len(p)` of each call, in order
  deriving Repr

/-- state of the `ReadAtLeast` loop after one `Read` call -/
inductive Step where
  | done (o : ReadOut)                                             -- the loop ends with an error
  | more (t : Dur) (got : List UInt8) (calls : Nat) (caps : List Nat)   -- `err == nil`: test `n < size` again
  deriving Repr

/-- one `Read` call of the `ReadAtLeast` loop: `nn, err = r.Read(buf[n:]); n += nn` -/
def readStep (T : Dur) (cancel : Option Dur) (size : Nat) (t : Dur) (got : List UInt8) (calls : Nat)
    (caps : List Nat) (ev : ReadEv) : Step :=
  let cap := size - got.length
  let (r, e) := readOp T cap ev
  match interrupted cancel t e with
  | some t' => .done ⟨.error .closed, t', calls + 1, caps ++ [cap]⟩
  | none =>
    match r with
    | .bytes bs => .more (t + e) (got ++ bs) (calls + 1) (caps ++ [cap])
    | .eof => .done ⟨.error (if got.isEmpty then .eof else .unexpectedEOF), t + e, calls + 1, caps ++ [cap]⟩
    | .err x => .done ⟨.error (.read x), t + e, calls + 1, caps ++ [cap]⟩

/-- the loop: `for n < size && err == nil { … }`; an exhausted script is a silent peer -/
def readLoop (T : Dur) (cancel : Option Dur) (size : Nat) :
    List ReadEv → Dur → List UInt8 → Nat → List Nat → ReadOut
  | [], t, got, calls, caps =>
    if size ≤ got.length then ⟨.ok got, t, calls, caps⟩
    else match readStep T cancel size t got calls caps .stall with
      | .done o => o
      | .more t' _ c cs => ⟨.error (.read .timeout), t', c, cs⟩   -- unreachable: a stall never yields bytes
  | ev :: rest, t, got, calls, caps =>
    if size ≤ got.length then ⟨.ok got, t, calls, caps⟩
    else match readStep T cancel size t got calls caps ev with
      | .done o => o
      | .more t' got' c cs => readLoop T cancel size rest t' got' c cs

/-! ## `Scan` -/

structure Result where
  outcome : Outcome
  elapsed : Dur                   -- instant at which `Scan` returns (the dial starts at 0)
  wrote : Option (List UInt8)     -- bytes handed to `conn.Write`, if the probe got that far
  reads : Nat                     -- `Read` calls issued
  deriving Repr, DecidableEq

/-- time the deferred `conn.Close()` blocks -/
def closeCost (cfg : Cfg) (s : Script) : Dur :=
  if 0 < cfg.lingerSec then
    match s.finAck with
    | some a => min a (cfg.lingerSec.toNat * unitsPerSecond)
    | none => cfg.lingerSec.toNat * unitsPerSecond
  else 0

/-- the decision at the end of `Scan` on the decoded `MethodReply{Ver: buf[0], Method: buf[1]}` -/
def verdict (cfg : Cfg) (tgt : Target) : List UInt8 → Outcome
  | [v, m] => if v == cfg.expectVer && m == cfg.expectMethod then .reported tgt else .nothing
  | _ => .nothing     -- unreachable: ReadFull returns exactly 2 bytes on success

def scan (cfg : Cfg) (tgt : Target) (s : Script) : Result :=
  let (dres, de) := dialOp cfg.dialTimeout s.dial
  match interrupted s.cancel 0 de with
  | some t => ⟨.error .dialCancelled, t, none, 0⟩
  | none =>
    match dres with
    | some e => ⟨.error e, de, none, 0⟩
    | none =>
      -- the connection exists from here on: every return runs the deferred Close
      let cc := closeCost cfg s
      if !s.lingerOk then ⟨.error .linger, de + cc, none, 0⟩
      else
        let g := greeting cfg.version cfg.methods
        let (wres, we) := writeOp cfg.dataTimeout s.write
        match interrupted s.cancel de we with
        | some t => ⟨.error .closed, t + cc, some g, 0⟩
        | none =>
          match wres with
          | some x => ⟨.error (.write x), de + we + cc, some g, 0⟩
          | none =>
            let r := readLoop cfg.dataTimeout s.cancel 2 s.reads (de + we) [] 0 []
            match r.res with
            | .error x => ⟨.error x, r.t + cc, some g, r.calls⟩
            | .ok buf => ⟨verdict cfg tgt buf, r.t + cc, some g, r.calls⟩

end SxVerif.Socks
