/-
M-frame (decoding half) — model of the gopacket decoders sx uses on the receive path
(`layers.Ethernet/IPv4/TCP/ICMPv4/ARP.DecodeFromBytes`, `NextLayerType`, `LayerPayload`) and of the
`DecodingLayerParser.DecodeLayers` loop with `IgnoreUnsupported = true` and `panicToError`.

gopacket is third-party: *modelled, not verified*; the correspondence harness runs the real parser.

Decoder structs are reused across frames (`rcvEth`, `rcvIP`, …): each decoder here returns the fields it
writes *even when it then fails*, exactly where the Go code assigns them, so that stale state is
representable and the property theorems can quantify over every prior state.
-/
namespace SxVerif.Frame

abbrev Bytes := List UInt8

def u8 (b : Bytes) (i : Nat) : Option Nat := (b[i]?).map (·.toNat)

def u16 (b : Bytes) (i : Nat) : Option Nat := do
  let hi ← u8 b i
  let lo ← u8 b (i + 1)
  pure (hi * 256 + lo)

def u32 (b : Bytes) (i : Nat) : Option Nat := do
  let a ← u16 b i
  let c ← u16 b (i + 2)
  pure (a * 65536 + c)

/-- the layer types that matter: the five decoders sx registers, and "anything else" -/
inductive LT where
  | ethernet | ipv4 | tcp | icmpv4 | arp
  | other (tag : Nat)        -- LayerTypeZero, Fragment, LLC, Payload, UDP, … (never registered by sx)
  deriving Repr, DecidableEq, Inhabited

/-- `EthernetType.LayerType()` restricted to registered decoders (layers/enums.go) -/
def ethNext (etherType : Nat) : LT :=
  if etherType < 0x0600 then .other 1            -- LLC
  else if etherType = 0x0800 then .ipv4
  else if etherType = 0x0806 then .arp
  else if etherType = 0x6558 then .ethernet      -- TransparentEthernetBridging
  else .other 0

/-- `IPProtocol.LayerType()` restricted to registered decoders -/
def ipNext (proto : Nat) : LT :=
  if proto = 4 ∨ proto = 94 then .ipv4           -- IPv4-in-IPv4, IPIP
  else if proto = 6 then .tcp
  else if proto = 1 then .icmpv4
  else .other 2

/-- what the persistent decoder structs hold that a record can read -/
structure State where
  ipVersion : Nat := 0
  ipSrc : Bytes := []          -- rcvIP.SrcIP (a 4-byte slice once any frame has been decoded)
  ipTTL : Nat := 0
  tcpSrcPort : Nat := 0
  tcpFlags : Nat := 0          -- NS<<8 | byte 13
  icmpType : Nat := 0
  icmpCode : Nat := 0
  arpAddrType : Nat := 0      -- big-endian rcvARP.Contents[0:2]: the hardware type as the processor reads it
  arpProtocol : Nat := 0
  arpHwSize : Nat := 0
  arpProtSize : Nat := 0
  arpSrcHw : Bytes := []
  arpSrcProt : Bytes := []
  deriving Repr, DecidableEq, Inhabited

/-- result of one `DecodeFromBytes`: updated state and, on success, next layer type and payload;
    `panic` = the Go code indexes out of range (turned into an error by `panicToError`) -/
inductive Dec where
  | ok (st : State) (next : LT) (payload : Bytes)
  | err (st : State)
  | panic (st : State)
  deriving Repr, DecidableEq

def decodeEthernet (st : State) (d : Bytes) : Dec :=
  if d.length < 14 then .err st
  else
    let et := (u16 d 12).getD 0
    let payload := d.drop 14
    if et < 0x0600 then
      -- 802.3 length field: payload trimmed to it when longer
      .ok st (ethNext et) (if payload.length > et then payload.take et else payload)
    else .ok st (ethNext et) payload

/-- option walk of the IPv4 decoder over the bytes between offset 20 and IHL*4; `true` = no error -/
def ipOptionsOK : Nat → Bytes → Bool
  | 0, _ => false
  | _, [] => true
  | fuel + 1, t :: rest =>
    if t.toNat = 0 then true                                  -- end of options
    else if t.toNat = 1 then ipOptionsOK fuel rest             -- NOP
    else match rest with
      | [] => false                                            -- len(data) < 2
      | l :: _ =>
        let len := l.toNat
        if (t :: rest).length < len then false
        else if len ≤ 2 then false
        else ipOptionsOK fuel ((t :: rest).drop len)

def decodeIPv4 (st : State) (d : Bytes) : Dec :=
  if d.length < 20 then .err st
  else
    let b0 := (u8 d 0).getD 0
    let ihl := b0 % 16
    let flagsfrags := (u16 d 6).getD 0
    let proto := (u8 d 9).getD 0
    let st := { st with ipVersion := b0 / 16, ipSrc := (d.drop 12).take 4, ipTTL := (u8 d 8).getD 0 }
    let len0 := (u16 d 2).getD 0
    let len := if len0 = 0 then d.length % 65536 else len0    -- TSO: uint16(len(data))
    if len < 20 then .err st
    else if ihl < 5 then .err st
    else if ihl * 4 > len then .err st
    else
      let d' := if d.length > len then d.take len else d
      if d.length < len ∧ ihl * 4 > d.length then .err st
      else
        let payload := d'.drop (ihl * 4)
        let opts := (d'.take (ihl * 4)).drop 20
        if !ipOptionsOK (opts.length + 1) opts then .err st
        else
          let next := if (flagsfrags / 8192) % 2 = 1 ∨ flagsfrags % 8192 ≠ 0 then LT.other 3   -- fragment
                      else ipNext proto
          .ok st next payload

/-- option walk of the TCP decoder; `true` = no error -/
def tcpOptionsOK : Nat → Bytes → Bool
  | 0, _ => false
  | _, [] => true
  | fuel + 1, k :: rest =>
    if k.toNat = 0 then true                                  -- end of option list
    else if k.toNat = 1 then tcpOptionsOK fuel rest            -- NOP
    else match rest with
      | [] => false
      | l :: _ =>
        let len := l.toNat
        if len < 2 then false
        else if len > (k :: rest).length then false
        else tcpOptionsOK fuel ((k :: rest).drop len)

def decodeTCP (st : State) (d : Bytes) : Dec :=
  if d.length < 20 then .err st
  else
    let b12 := (u8 d 12).getD 0
    let st := { st with tcpSrcPort := (u16 d 0).getD 0, tcpFlags := (b12 % 2) * 256 + (u8 d 13).getD 0 }
    let off := b12 / 16
    if off < 5 then .err st
    else if off * 4 > d.length then .err st
    else
      let opts := (d.take (off * 4)).drop 20
      if !tcpOptionsOK (opts.length + 1) opts then .err st
      else .ok st (.other 4) (d.drop (off * 4))               -- next: by port number, never registered

def decodeICMPv4 (st : State) (d : Bytes) : Dec :=
  if d.length < 8 then .err st
  else .ok { st with icmpType := (u8 d 0).getD 0, icmpCode := (u8 d 1).getD 0 } (.other 5) (d.drop 8)

/-- ARP: all length arithmetic is `uint8` in the Go code and wraps -/
def decodeARP (st : State) (d : Bytes) : Dec :=
  if d.length < 8 then .err st
  else
    let hw := (u8 d 4).getD 0
    let pr := (u8 d 5).getD 0
    -- gopacket's own `AddrType` is a `uint8` (`layers.LinkType`) and keeps only the low byte of the hardware
    -- type; no code of sx reads it any more (D18), so it is not part of the state.  `arpAddrType` is the
    -- 16-bit value at `rcvARP.Contents[0:2]`, assigned where `Contents` is: at the very end of a successful decode
    let st := { st with arpProtocol := (u16 d 2).getD 0, arpHwSize := hw, arpProtSize := pr }
    let arpLength := (8 + 2 * hw + 2 * pr) % 256
    if d.length < arpLength then .err st
    else
      -- slice bounds, each computed in uint8
      let a := (8 + hw) % 256
      let b := (8 + hw + pr) % 256
      let c := (8 + 2 * hw + pr) % 256
      -- data[8:a], data[a:b], data[b:c], data[c:arpLength], data[:arpLength], data[arpLength:]
      if 8 > a ∨ a > d.length then .panic st
      else
        let st := { st with arpSrcHw := (d.take a).drop 8 }
        if a > b ∨ b > d.length then .panic st
        else
          let st := { st with arpSrcProt := (d.take b).drop a }
          if b > c ∨ c > d.length then .panic st
          else if c > arpLength ∨ arpLength > d.length then .panic st
          else .ok { st with arpAddrType := (u16 d 0).getD 0 } (.other 5) (d.drop arpLength)

def decodeLayer (t : LT) (st : State) (d : Bytes) : Dec :=
  match t with
  | .ethernet => decodeEthernet st d
  | .ipv4 => decodeIPv4 st d
  | .tcp => decodeTCP st d
  | .icmpv4 => decodeICMPv4 st d
  | .arp => decodeARP st d
  | .other _ => .err st

/-- outcome of `DecodeLayers` -/
inductive Parsed where
  | ok (st : State) (decoded : List LT)
  | err (st : State)          -- includes recovered panics
  deriving Repr, DecidableEq

/-- the loop of `LayersDecoder`; `registered` = the decoders given to `NewDecodingLayerParser` -/
def decodeLoop (registered : List LT) : Nat → LT → State → Bytes → List LT → Parsed
  | 0, _, st, _, _ => .err st
  | fuel + 1, t, st, d, acc =>
    match decodeLayer t st d with
    | .err st' => .err st'
    | .panic st' => .err st'                              -- panicToError
    | .ok st' next payload =>
      let acc := acc ++ [t]
      if payload.isEmpty then .ok st' acc
      else if registered.contains next then decodeLoop registered fuel next st' payload acc
      else .ok st' acc                                    -- IgnoreUnsupported

/-- `parser.DecodeLayers(data, &decoded)`; every layer consumes at least 8 bytes, so `length + 1` is
    ample fuel (proved in `Proofs/Frame`) -/
def decodeLayers (registered : List LT) (first : LT) (st : State) (d : Bytes) : Parsed :=
  if !registered.contains first then .ok st []
  else decodeLoop registered (d.length + 1) first st d []

end SxVerif.Frame
