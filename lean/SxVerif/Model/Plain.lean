/-
Plain-text output (`sx …` without `--json`): `PlainResultWriter.Write` prints `result.String()` and a newline.
The `String()` methods of the four packet-level / socks result types are `fmt.Sprintf` formats with left-justified,
space-padded columns (`%-20s`, `%-5d`: the width counts runes, a longer value is not cut):

    arp    "%-20s %-20s %s"        IP, MAC, Vendor
    tcp    "%-20s %-5d %s"         IP, Port, Flags
    icmp   "%-20s %-5d %-5d %-5d"  IP, ICMP.Type, ICMP.Code, TTL      (also the udp scan's result type)
    socks  "%-20s %-5d"            IP, Port

(elastic and docker print server-controlled strings with `%s`; they are not modelled here.)  Bytes, not characters:
a Go string is a byte string, and `%s` copies it as it is.
-/
import SxVerif.Model.Json

namespace SxVerif.Plain
open SxVerif.Json

def pieceBytes : Piece → List UInt8
  | .ch c => String.utf8EncodeChar c
  | .bad b => [b]

def strBytes (s : GoStr) : List UInt8 := s.flatMap pieceBytes

def sp (n : Nat) : List UInt8 := List.replicate n 32

/-- `%-Ns`: the string, then spaces up to N runes (one piece = one rune: an invalid byte counts as one) -/
def padS (w : Nat) (s : GoStr) : List UInt8 := strBytes s ++ sp (w - s.length)

def digits (n : Nat) : List UInt8 := (natDigits n).map (fun c => c.toNat.toUInt8)

/-- `%-Nd` of an unsigned value -/
def padD (w : Nat) (n : Nat) : List UInt8 := digits n ++ sp (w - (natDigits n).length)

/-- `result.String()`; `none` where this model does not apply (elastic, docker) or where Go panics (an icmp result
    without its `ICMP` part: `r.ICMP.Type` on a nil pointer — the processors always set it) -/
def renderPlain : Result → Option (List UInt8)
  | .arp r => some (padS 20 r.ip ++ [32] ++ padS 20 r.mac ++ [32] ++ strBytes r.vendor)
  | .tcp r => some (padS 20 r.ip ++ [32] ++ padD 5 r.port.toNat ++ [32] ++ strBytes r.flags)
  | .icmp r =>
    match r.icmp with
    | some (t, c) => some (padS 20 r.ip ++ [32] ++ padD 5 t.toNat ++ [32] ++ padD 5 c.toNat ++ [32] ++ padD 5 r.ttl.toNat)
    | none => none
  | .socks r => some (padS 20 r.ip ++ [32] ++ padD 5 r.port.toNat)
  | _ => none

/-- what `PlainResultWriter.Write` hands to the sink, in one write -/
def plainLine (r : Result) : Option (List UInt8) := (renderPlain r).map (· ++ [10])

/-- the strings a result prints with `%s` -/
def plainStrings : Result → List GoStr
  | .arp r => [r.ip, r.mac, r.vendor]
  | .tcp r => [r.ip, r.flags]
  | .icmp r => [r.ip]
  | .socks r => [r.ip]
  | _ => []

end SxVerif.Plain
