/-
M-conc (generic engine instance) — a small-step interleaving semantics of

  * `GenericEngine.Start` / `GenericEngine.worker`            (pkg/scan/engine.go:192-248)
  * `resultChan` (`Put`, copy goroutine)                       (pkg/scan/result.go:26-64)
  * `logger.LogResults`                                        (command/log/logger.go:79-102)
  * `startScanEngine` (logger goroutine, controller, error drain, `wg.Wait`)   (command/root.go:187-219)

One step = one channel operation / call / timer event of ONE process (or `tick`, or `cancelCmd` = Ctrl-C).
Channels are bounded FIFOs with a closed flag.  A send on a closed channel and a close of a closed
channel set `panicked`.  A blocking operation inside `select { case <-ctx.Done(): … }` has a second,
"ctx" label which is enabled exactly when THAT ctx is cancelled (the other branch stays enabled: Go's
`select` picks any ready case).  Two contexts: the command ctx (`signal.NotifyContext`, also held by
`resultChan`) and the ctx derived from it inside `startScanEngine`.

The semantics is the partial function `next : Cfg → Sys → Label → Option Sys`; `Step s s'` is
`∃ l, next c s l = some s'`, so what the driver executes and what the theorems quantify over is the
same definition.  Ghost logs (`recvd`, `scans`, `puts`, …) only record what happened.
-/
namespace SxVerif.Engine

/-- what `Scanner.Scan` answers: `(result, nil)`, `(nil, nil)`, `(nil, err)` -/
inductive Outcome where
  | result | none | error
  deriving DecidableEq, Repr, Inhabited

/-- one request of the generator stream.  `isErr` = `r.Err != nil`; `out` = what `Scan` will answer
    for it (the oracle; arbitrary), meaningless when `isErr`. -/
structure Req where
  id : Nat
  isErr : Bool
  out : Outcome
  deriving DecidableEq, Repr, Inhabited

structure Cfg where
  W : Nat          -- `workerCount`
  capErr : Nat     -- `make(chan error, 100)`
  capRes : Nat     -- `NewResultChan(ctx, 1000)`: capacity of `internalResults` and of `results`
  delay : Nat      -- `conf.exitDelay` in clock ticks
  deriving DecidableEq, Repr

/-- program counter of one `worker` goroutine -/
inductive WPc where
  | idle                 -- at `select { <-ctx.Done() | r, ok := <-requests }`
  | got (r : Req)        -- holds an ok request: about to call / inside `Scan`
  | sendErr (r : Req)    -- inside `writeError`: `select { <-ctx.Done() | errc <- err }`
  | put (r : Req)        -- inside `Put`: `select { <-c.ctx.Done() | internalResults <- r }`
  | exited               -- returned; `wg.Done()` ran
  deriving DecidableEq, Repr, Inhabited

/-- the goroutine of `Start`: spawn loop + `wg.Wait()`, then the deferred `close(errc)`, `close(done)` -/
inductive SupPc where
  | running | closingErrc | closingDone | finished
  deriving DecidableEq, Repr

inductive CopPc where
  | idle | hold (v : Nat) | exited
  deriving DecidableEq, Repr

inductive LogPc where
  | idle | writing (v : Nat) | exited
  deriving DecidableEq, Repr

inductive DrainPc where
  | idle | logging (e : Nat) | exited
  deriving DecidableEq, Repr

/-- `go func() { defer cancel(); <-done; <-time.After(conf.exitDelay) }()` -/
inductive CtlPc where
  | waitDone | waitTimer (deadline : Nat) | fired | exited
  deriving DecidableEq, Repr

inductive MainPc where
  | waiting | returned
  deriving DecidableEq, Repr

/-- a producer outside the engine that calls `Put` while the derived ctx is live (the packet
    receiver; used by C16).  `ext = []` for the generic engine. -/
inductive ExtPc where
  | idle | hold (v : Nat)
  deriving DecidableEq, Repr

structure Sys where
  -- generator + `requests` channel: what is still to be delivered, and the closed flag
  pending : List Req
  reqClosed : Bool
  workers : List WPc
  sup : SupPc
  errc : List Nat
  errcClosed : Bool
  doneClosed : Bool
  intRes : List Nat
  cop : CopPc
  results : List Nat
  resClosed : Bool
  log : LogPc
  drain : DrainPc
  ctl : CtlPc
  main : MainPc
  cmdCtx : Bool
  derCtx : Bool
  clock : Nat
  ext : List (Nat × Nat)      -- (earliest time, value) the external producer will read
  extPc : ExtPc
  panicked : Bool
  -- ghost logs
  recvd : List Req            -- receive events on `requests`, in order
  scans : List Req            -- `Scan` calls, in order
  puts : List Nat             -- values enqueued into `internalResults`, in order
  extReads : List Nat
  extPuts : List Nat
  errSent : List Nat          -- values enqueued into `errc`, in order
  printed : List Nat          -- `Write` calls of the logger, in order
  errLogged : List Nat        -- `logger.Error` calls of the drain, in order
  doneAt : Option Nat         -- clock at `close(done)`
  cancelAt : Option Nat       -- clock at the controller's `cancel()`
  inflightAtCancel : Option Nat
  deriving Repr

inductive WAct where
  | recv | closedExit | ctxExit | scan | sendErr | sendErrCtx | put | putCtx
  deriving DecidableEq, Repr

inductive Label where
  | genClose | genDrop
  | spawn | wgWait | closeErrc | closeDone
  | worker (i : Nat) (a : WAct)
  | copRecv | copSend | copCtx
  | logRecv | logClosed | logWrite | logCtx
  | drainRecv | drainLog | drainExit
  | ctlDone | ctlTimer | ctlCancel
  | mainReturn
  | extRead | extPut | extCtx
  | tick | cancelCmd
  deriving DecidableEq, Repr

def init (reqs : List Req) (ext : List (Nat × Nat)) : Sys :=
  { pending := reqs, reqClosed := false, workers := [], sup := .running, errc := [], errcClosed := false,
    doneClosed := false, intRes := [], cop := .idle, results := [], resClosed := false, log := .idle,
    drain := .idle, ctl := .waitDone, main := .waiting, cmdCtx := false, derCtx := false, clock := 0,
    ext := ext, extPc := .idle, panicked := false,
    recvd := [], scans := [], puts := [], extReads := [], extPuts := [], errSent := [], printed := [],
    errLogged := [], doneAt := none, cancelAt := none, inflightAtCancel := none }

def WPc.isExited : WPc → Bool
  | .exited => true
  | _ => false

def copHand : CopPc → List Nat
  | .hold v => [v]
  | _ => []

def logHand : LogPc → List Nat
  | .writing v => [v]
  | _ => []

def drainHand : DrainPc → List Nat
  | .logging e => [e]
  | _ => []

def extHand : ExtPc → List Nat
  | .hold v => [v]
  | _ => []

/-- results handed to `Put` and not yet written, oldest first -/
def Sys.inflight (s : Sys) : List Nat := logHand s.log ++ s.results ++ copHand s.cop ++ s.intRes

def Sys.inflightCount (s : Sys) : Nat := s.inflight.length + (extHand s.extPc).length

/-- what the request will become after `Scan` -/
def afterScan (r : Req) : WPc :=
  match r.out with
  | .result => .put r
  | .none => .idle
  | .error => .sendErr r

/-- one step of worker with pc `w`; returns the new pc and the new shared state -/
def wstep (c : Cfg) (s : Sys) (w : WPc) : WAct → Option (WPc × Sys)
  | .recv =>
    match w, s.pending with
    | .idle, r :: rest =>
      some (if r.isErr then .sendErr r else .got r, { s with pending := rest, recvd := s.recvd ++ [r] })
    | _, _ => none
  | .closedExit =>
    match w with
    | .idle => if s.pending = [] ∧ s.reqClosed = true then some (.exited, s) else none
    | _ => none
  | .ctxExit =>
    match w with
    | .idle => if s.derCtx = true then some (.exited, s) else none
    | _ => none
  | .scan =>
    match w with
    | .got r => some (afterScan r, { s with scans := s.scans ++ [r] })
    | _ => none
  | .sendErr =>
    match w with
    | .sendErr r =>
      if s.errcClosed = true then some (.idle, { s with panicked := true })
      else if s.errc.length < c.capErr then
        some (.idle, { s with errc := s.errc ++ [r.id], errSent := s.errSent ++ [r.id] })
      else none
    | _ => none
  | .sendErrCtx =>
    match w with
    | .sendErr _ => if s.derCtx = true then some (.idle, s) else none
    | _ => none
  | .put =>
    match w with
    | .put r =>
      if s.intRes.length < c.capRes then
        some (.idle, { s with intRes := s.intRes ++ [r.id], puts := s.puts ++ [r.id] })
      else none
    | _ => none
  | .putCtx =>
    match w with
    | .put _ => if s.cmdCtx = true then some (.idle, s) else none
    | _ => none

def allExited (ws : List WPc) : Bool := ws.all WPc.isExited

def next (c : Cfg) (s : Sys) : Label → Option Sys
  -- generator: closes `requests` after the last send; after cancellation it may skip requests
  | .genClose => if s.pending = [] ∧ s.reqClosed = false then some { s with reqClosed := true } else none
  | .genDrop =>
    match s.pending with
    | _ :: rest => if s.derCtx = true then some { s with pending := rest } else none
    | [] => none
  -- Start goroutine
  | .spawn =>
    if s.sup = .running ∧ s.workers.length < c.W then some { s with workers := s.workers ++ [.idle] } else none
  | .wgWait =>
    if s.sup = .running ∧ s.workers.length = c.W ∧ allExited s.workers = true then some { s with sup := .closingErrc }
    else none
  | .closeErrc =>
    if s.sup = .closingErrc then
      (if s.errcClosed = true then some { s with panicked := true, sup := .closingDone }
       else some { s with errcClosed := true, sup := .closingDone })
    else none
  | .closeDone =>
    if s.sup = .closingDone then
      (if s.doneClosed = true then some { s with panicked := true, sup := .finished }
       else some { s with doneClosed := true, sup := .finished, doneAt := some s.clock })
    else none
  | .worker i a =>
    match s.workers[i]? with
    | some w =>
      match wstep c s w a with
      | some (w', s') => some { s' with workers := s.workers.set i w' }
      | none => none
    | none => none
  -- copy goroutine of resultChan (command ctx)
  | .copRecv =>
    match s.cop, s.intRes with
    | .idle, v :: rest => some { s with cop := .hold v, intRes := rest }
    | _, _ => none
  | .copSend =>
    match s.cop with
    | .hold v =>
      if s.resClosed = true then some { s with panicked := true, cop := .idle }
      else if s.results.length < c.capRes then some { s with results := s.results ++ [v], cop := .idle }
      else none
    | _ => none
  | .copCtx =>
    if s.cmdCtx = true ∧ s.cop ≠ .exited then
      (if s.resClosed = true then some { s with panicked := true, cop := .exited }
       else some { s with cop := .exited, resClosed := true })
    else none
  -- LogResults (derived ctx)
  | .logRecv =>
    match s.log, s.results with
    | .idle, v :: rest => some { s with log := .writing v, results := rest }
    | _, _ => none
  | .logClosed =>
    if s.log = .idle ∧ s.results = [] ∧ s.resClosed = true then some { s with log := .exited } else none
  | .logWrite =>
    match s.log with
    | .writing v => some { s with log := .idle, printed := s.printed ++ [v] }
    | _ => none
  | .logCtx => if s.log = .idle ∧ s.derCtx = true then some { s with log := .exited } else none
  -- error drain: `for err := range errc { logger.Error(err) }` (no ctx)
  | .drainRecv =>
    match s.drain, s.errc with
    | .idle, e :: rest => some { s with drain := .logging e, errc := rest }
    | _, _ => none
  | .drainLog =>
    match s.drain with
    | .logging e => some { s with drain := .idle, errLogged := s.errLogged ++ [e] }
    | _ => none
  | .drainExit =>
    if s.drain = .idle ∧ s.errc = [] ∧ s.errcClosed = true then some { s with drain := .exited } else none
  -- controller
  | .ctlDone =>
    if s.ctl = .waitDone ∧ s.doneClosed = true then some { s with ctl := .waitTimer (s.clock + c.delay) } else none
  | .ctlTimer =>
    match s.ctl with
    | .waitTimer d => if d ≤ s.clock then some { s with ctl := .fired } else none
    | _ => none
  | .ctlCancel =>
    if s.ctl = .fired then
      some { s with ctl := .exited, derCtx := true, cancelAt := some s.clock,
                    inflightAtCancel := some s.inflightCount }
    else none
  -- `wg.Wait(); return nil` + deferred `cancel()`
  | .mainReturn =>
    if s.main = .waiting ∧ s.log = .exited ∧ s.drain = .exited then some { s with main := .returned, derCtx := true }
    else none
  -- external producer (packet receiver): ctx checked before the read, `Put` guarded by the command ctx
  | .extRead =>
    match s.extPc, s.ext with
    | .idle, (t, v) :: rest =>
      if s.derCtx = false ∧ t ≤ s.clock then some { s with extPc := .hold v, ext := rest, extReads := s.extReads ++ [v] }
      else none
    | _, _ => none
  | .extPut =>
    match s.extPc with
    | .hold v =>
      if s.intRes.length < c.capRes then
        some { s with extPc := .idle, intRes := s.intRes ++ [v], puts := s.puts ++ [v], extPuts := s.extPuts ++ [v] }
      else none
    | _ => none
  | .extCtx =>
    match s.extPc with
    | .hold _ => if s.cmdCtx = true then some { s with extPc := .idle } else none
    | _ => none
  | .tick => some { s with clock := s.clock + 1 }
  | .cancelCmd => some { s with cmdCtx := true, derCtx := true }

def Step (c : Cfg) (s s' : Sys) : Prop := ∃ l, next c s l = some s'

inductive Reachable (c : Cfg) (s₀ : Sys) : Sys → Prop where
  | init : Reachable c s₀ s₀
  | step {s s' : Sys} (l : Label) : Reachable c s₀ s → next c s l = some s' → Reachable c s₀ s'

/-! ### executable scheduler (used by the driver; every state it visits is `Reachable`) -/

/-- worker labels enabled in state `s` (one pass over the workers) -/
def workerCandidates (c : Cfg) (s : Sys) : List Label :=
  let errOk := s.errcClosed || decide (s.errc.length < c.capErr)
  let putOk := decide (s.intRes.length < c.capRes)
  (s.workers.zipIdx.foldr (fun (w, i) acc =>
    match w with
    | .idle =>
      let acc := if s.derCtx then .worker i .ctxExit :: acc else acc
      match s.pending with
      | _ :: _ => .worker i .recv :: acc
      | [] => if s.reqClosed then .worker i .closedExit :: acc else acc
    | .got _ => .worker i .scan :: acc
    | .sendErr _ =>
      let acc := if s.derCtx then .worker i .sendErrCtx :: acc else acc
      if errOk then .worker i .sendErr :: acc else acc
    | .put _ =>
      let acc := if s.cmdCtx then .worker i .putCtx :: acc else acc
      if putOk then .worker i .put :: acc else acc
    | .exited => acc) [])

def fixedLabels : List Label :=
  [.genClose, .spawn, .wgWait, .closeErrc, .closeDone, .copRecv, .copSend, .copCtx, .logRecv, .logClosed,
   .logWrite, .logCtx, .drainRecv, .drainLog, .drainExit, .ctlDone, .ctlTimer, .ctlCancel, .mainReturn,
   .extRead, .extPut, .extCtx, .genDrop]

/-- enabled non-environment labels (`tick` and `cancelCmd` are the environment) -/
def enabled (c : Cfg) (s : Sys) : List Label :=
  fixedLabels.filter (fun l => (next c s l).isSome) ++ workerCandidates c s

def lcg (x : Nat) : Nat := (x * 6364136223846793005 + 1442695040888963407) % 18446744073709551616

/-- Run under a pseudo-random schedule.  `cancelAfter = some k`: the environment fires `cancelCmd`
    after `k` internal steps; `cancelAtClock = some t`: … when the clock reaches `t`.  `eager = true`: `tick` only when nothing else is enabled (logical time
    for the exit-delay scenarios); otherwise ticks are interleaved at random.  Stops when `main` has
    returned and nothing is enabled, or when the fuel is used up. -/
def run (c : Cfg) (eager : Bool) (cancelAtClock : Option Nat) : Nat → Nat → Option Nat → Nat → Sys → Sys
  | 0, _, _, _, s => s
  | fuel + 1, seed, cancelAfter, k, s =>
    if s.main = .returned then s
    else if (cancelAfter = some k ∨ (∃ t, cancelAtClock = some t ∧ t ≤ s.clock)) ∧ s.cmdCtx = false then
      match next c s .cancelCmd with
      | some s' => run c eager cancelAtClock fuel seed cancelAfter k s'
      | none => s
    else
      let en := enabled c s
      let seed' := lcg seed
      let doTick := !eager && (seed' / 65536) % 16 = 0
      if doTick then
        match next c s .tick with
        | some s' => run c eager cancelAtClock fuel seed' cancelAfter k s'
        | none => s
      else
        match en[(seed' / 65536) % en.length]? with
        | some l =>
          match next c s l with
          | some s' => run c eager cancelAtClock fuel seed' cancelAfter (k + 1) s'
          | none => s
        | none =>
          -- nothing enabled: finished, or waiting for the timer
          if s.main = .returned then s
          else match next c s .tick with
            | some s' => run c eager cancelAtClock fuel seed' cancelAfter k s'
            | none => s

end SxVerif.Engine

namespace SxVerif.Engine

/-- run an explicit schedule (list of labels); `none` if some label is not enabled -/
def exec (c : Cfg) : Sys → List Label → Option Sys
  | s, [] => some s
  | s, l :: ls =>
    match next c s l with
    | some s' => exec c s' ls
    | none => none

end SxVerif.Engine
