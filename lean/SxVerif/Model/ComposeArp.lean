/-
Link between M-proc (what the ARP processor emits) and M-json / M-arpcache (what the ARP scan prints and
`FillCache` loads): the line printed for an ARP record.  Core Lean only.
-/
import SxVerif.Model.Proc
import SxVerif.Model.ArpCache

namespace SxVerif.Compose
open SxVerif.Proc SxVerif.Json SxVerif.ArpCache

/-- the output line of `sx arp` for a record: `ScanResult{IP, MAC, Vendor}` rendered by `MarshalJSON` with
    `net.IP.String()` of a 4-byte address and `HardwareAddr.String()` of a 6-byte address (`arpLine`).
    `none`: not an ARP record, or address lengths for which those renderings are not modelled — C06 shows
    that the processor emits no such record.  The vendor string is a table lookup: any string. -/
def arpRecordLine : Record → GoStr → Option (List Char)
  | .arp [a, b, c, d] [m0, m1, m2, m3, m4, m5], vendor => some (arpLine a b c d m0 m1 m2 m3 m4 m5 vendor)
  | _, _ => none

end SxVerif.Compose
