/-
Wiring of the packet-scan commands (`command/{arp,icmp,udp,tcp,tcp_syn,tcp_fin,tcp_null,tcp_xmas}.go`):
the vocabulary in which `sxfacts` reports, per command, which BPF filter function, which processor, which
packet filter / flag printer and which vpn flag reach `startPacketScanEngine`, and the composition
`reported` of the installed filter with the processor.  The table itself is `Generated/Wiring.lean`.
-/
import SxVerif.Model.Bpf
import SxVerif.Model.Proc

namespace SxVerif.Wiring
open SxVerif.Frame SxVerif.Bpf SxVerif.Proc

/-- the eight packet-scan commands (`sx tcp` without `--flags` delegates to `tcp syn`) -/
inductive Cmd where
  | arp | icmp | udp | tcpSyn | tcpFin | tcpNull | tcpXmas | tcpFlags
  deriving Repr, DecidableEq, Inhabited

/-- which `NewScanMethod` builds the processor -/
inductive ProcKind where
  | tcp      -- tcp.NewScanMethod
  | icmp     -- icmp.NewScanMethod → icmp.NewPacketProcessor(icmp.ScanType, …)
  | udp      -- udp.NewScanMethod  → icmp.NewPacketProcessor(udp.ScanType, …)
  | arp      -- arp.NewScanMethod
  deriving Repr, DecidableEq, Inhabited

inductive Engine where
  | port     -- startPortScanEngine (one engine run per chunk of port ranges)
  | packet   -- startPacketScanEngine
  deriving Repr, DecidableEq, Inhabited

structure Row where
  cmd : Cmd
  /-- value of the `ScanType` constant the processor is constructed with ("" for arp: its record has none) -/
  scanName : String
  proc : ProcKind
  bpf : FilterFn
  /-- `withTCPPacketFilterFunc` / `withTCPPacketFlags` (tcp commands only) -/
  pktFilter : Option TcpFilter
  pktFlags : Option FlagsFn
  engine : Engine
  /-- `withPacketVPNmode(<opts>.vpnMode)` is passed: the capture socket and the filter use `DLT_IPV4` under `--vpn` -/
  bpfVpn : Bool
  /-- the same `vpnMode` option reaches the processor's constructor -/
  procVpn : Bool
  deriving Repr, DecidableEq, Inhabited

/-- link type the filter is compiled for (`afpacket.NewPacketSource(iface, conf.vpnMode)`) -/
def linkOf (row : Row) (vpn : Bool) : LinkMode := if row.bpfVpn && vpn then .rawIPv4 else .ethernet

/-- the processor a row constructs; `none` = the row lacks a component its processor needs -/
def scanOf (row : Row) (vpn : Bool) : Option Scan :=
  let v := row.procVpn && vpn
  match row.proc with
  | .tcp =>
    match row.pktFilter, row.pktFlags with
    | some flt, some fl => some (.tcp { scanType := row.scanName, filter := flt, flagsFn := fl, vpn := v })
    | _, _ => none
  | .icmp => some (.icmp row.scanName v)
  | .udp => some (.icmp row.scanName v)
  | .arp => some .arp

/-- one frame on the wire while filter `e` is installed on a socket of link type `m` and `scan` processes
    what the socket delivers, its decoder structs holding `st`: the record put on the result channel, if any -/
def reported (e : Expr) (m : LinkMode) (scan : Scan) (st : State) (f : Bytes) : Option Record :=
  if accepts e m f then
    match (process scan st f).2 with
    | .record r => some r
    | _ => none
  else none

/-- the processor's state after that frame: it only sees what the filter lets through -/
def stateAfter (e : Expr) (m : LinkMode) (scan : Scan) (st : State) (f : Bytes) : State :=
  if accepts e m f then (process scan st f).1 else st

/-- a whole capture: frames in arrival order -/
def reportedAll (e : Expr) (m : LinkMode) (scan : Scan) : State → List Bytes → List (Option Record)
  | _, [] => []
  | st, f :: fs => reported e m scan st f :: reportedAll e m scan (stateAfter e m scan st f) fs

/-! ### the capture length

The socket filter runs on the whole frame as it arrived; its return value is the number of bytes the kernel copies
into the ring (`tp_snaplen = min(frame length, return value)`), and `afpacket.TPacket.ZeroCopyReadPacketData`
hands the processor exactly those bytes.  sx compiles its filters with `maxPacketLength` as that value. -/

/-- what the socket delivers of an accepted frame when the program returns `n` -/
def captured (n : Nat) (f : Bytes) : Bytes := f.take n

/-- `reported` with the capture length: the filter sees `f`, the processor sees `captured n f` -/
def reportedSnap (e : Expr) (m : LinkMode) (n : Nat) (scan : Scan) (st : State) (f : Bytes) : Option Record :=
  if accepts e m f then
    match (process scan st (captured n f)).2 with
    | .record r => some r
    | _ => none
  else none

def stateAfterSnap (e : Expr) (m : LinkMode) (n : Nat) (scan : Scan) (st : State) (f : Bytes) : State :=
  if accepts e m f then (process scan st (captured n f)).1 else st

/-- a whole capture, each accepted frame cut to the capture length -/
def reportedAllSnap (e : Expr) (m : LinkMode) (n : Nat) (scan : Scan) : State → List Bytes → List (Option Record)
  | _, [] => []
  | st, f :: fs =>
    reportedSnap e m n scan st f :: reportedAllSnap e m n scan (stateAfterSnap e m n scan st f) fs

/-! ### from the wire to the socket

Linux removes an outer VLAN tag from a received frame before any packet socket sees it
(`__netif_receive_skb_core` → `skb_vlan_untag`): the socket filter runs on the frame *without* the tag, the ring
holds it without the tag, and the tag travels beside it (`tp_vlan_tci`, `TP_STATUS_VLAN_VALID`; gopacket hands it to
the reader as `afpacket.AncillaryVLAN`).  A tagged frame too short to hold the tag and the inner ethertype is
dropped there.  On a device without a link-layer header (tun, vpn mode) there is no such step. -/

inductive Rx where
  | dropped                                   -- never reaches a packet socket
  | frame (tagged : Bool) (f : Bytes)         -- what the socket's filter runs on, and whether a tag was removed
  deriving Repr, DecidableEq

def kernelRx (m : LinkMode) (f : Bytes) : Rx :=
  match m with
  | .rawIPv4 => .frame false f
  | .ethernet =>
    if u16 f 12 = some 0x8100 ∨ u16 f 12 = some 0x88a8 then
      if f.length < 20 then .dropped else .frame true (f.take 12 ++ f.drop 16)
    else .frame false f

/-- one frame on the wire, end to end: kernel receive path, the installed filter, the cut to the capture length,
    `afpacket.Source.ReadPacketData` (which skips frames that carried a VLAN tag iff `dropsTagged`), the processor -/
def reportedWire (dropsTagged : Bool) (e : Expr) (m : LinkMode) (n : Nat) (scan : Scan) (st : State) (f : Bytes) :
    Option Record :=
  match kernelRx m f with
  | .dropped => none
  | .frame tagged g => if tagged && dropsTagged then none else reportedSnap e m n scan st g

def stateAfterWire (dropsTagged : Bool) (e : Expr) (m : LinkMode) (n : Nat) (scan : Scan) (st : State) (f : Bytes) : State :=
  match kernelRx m f with
  | .dropped => st
  | .frame tagged g => if tagged && dropsTagged then st else stateAfterSnap e m n scan st g

def reportedAllWire (dropsTagged : Bool) (e : Expr) (m : LinkMode) (n : Nat) (scan : Scan) :
    State → List Bytes → List (Option Record)
  | _, [] => []
  | st, f :: fs =>
    reportedWire dropsTagged e m n scan st f ::
      reportedAllWire dropsTagged e m n scan (stateAfterWire dropsTagged e m n scan st f) fs

end SxVerif.Wiring
