/-
M-parse — model of the option parsers in `command/config.go` / `command/tcp.go`, including the part of
the Go standard library they rely on where that part is small and exact (`strconv.ParseUint(·,10,16)`,
`strconv.ParseInt(·,10,32)`, `strings.Split`, `strings.Trim(·," ")`, `bufio.ScanLines` with its 64 KiB
token limit, `strconv.Unquote` of a double-quoted string).  `time.ParseDuration` (floating point
inside) and `strings.ToLower` (Unicode tables) are *parameters*: the harness supplies what the real
functions return for the strings at hand.

Strings are byte strings; a byte is the `Char` with the same code (≤ 255).  Every Go index expression
(`ports[0]`, `parts[0]`, `win[0]`) is a pattern match whose impossible branch is the explicit outcome
`.panic`, so "never crashes" is a theorem and not an artefact of totality.
-/
import SxVerif.Model.Gen
import SxVerif.Model.Net

namespace SxVerif.Parse
open SxVerif.Gen SxVerif.NetParse

inductive Res (α : Type) where
  | ok (v : α)
  | err            -- the parser returns an error
  | panic          -- the Go code would panic (index out of range)
  deriving Repr, DecidableEq

/-- `strings.Split(s, sep)` for a one-byte separator: never empty -/
def split (sep : Char) : List Char → List (List Char)
  | [] => [[]]
  | c :: rest =>
    match split sep rest with
    | [] => [[]]      -- unreachable
    | hd :: tl => if c == sep then [] :: hd :: tl else (c :: hd) :: tl

def allDigits (s : List Char) : Bool := !s.isEmpty && s.all isDigit

def decVal (s : List Char) : Nat := s.foldl (fun n c => n * 10 + digitVal c) 0

/-- `strconv.ParseUint(s, 10, 16)` -/
def parseUint16 (s : List Char) : Option Nat :=
  if allDigits s && decVal s ≤ 65535 then some (decVal s) else none

/-- `strconv.ParseInt(s, 10, 32)` -/
def parseInt32 (s : List Char) : Option Int :=
  match s with
  | '+' :: d => if allDigits d && decVal d < 2 ^ 31 then some (decVal d) else none
  | '-' :: d => if allDigits d && decVal d ≤ 2 ^ 31 then some (-(decVal d : Int)) else none
  | d => if allDigits d && decVal d < 2 ^ 31 then some (decVal d) else none

/-- `parsePortRange` -/
def parsePortRange (s : List Char) : Res PortRange :=
  match split '-' s with
  | [] => .panic                                  -- ports[0] on an empty slice
  | [a] => match parseUint16 a with
    | some p => .ok ⟨p, p⟩
    | none => .err
  | [a, b] => match parseUint16 a, parseUint16 b with
    | some lo, some hi => .ok ⟨lo, hi⟩
    | _, _ => .err
  | _ => .err                                     -- more than two bounds

def collect {α} : List (Res α) → Res (List α)
  | [] => .ok []
  | .ok v :: rest => match collect rest with
    | .ok vs => .ok (v :: vs)
    | .err => .err
    | .panic => .panic
  | .err :: rest => match collect rest with      -- first error wins unless a later panic … (no panics exist)
    | .panic => .panic
    | _ => .err
  | .panic :: _ => .panic

/-- `parsePortRanges` -/
def parsePortRanges (s : List Char) : Res (List PortRange) :=
  collect ((split ',' s).map parsePortRange)

/-! ### rate limit -/

/-- `parseRateLimit`; `dur` = `time.ParseDuration` (nanoseconds, `none` = error) -/
def parseRateLimit (dur : List Char → Option Int) (s : List Char) : Res (Nat × Int) :=
  match split '/' s with
  | [] => .panic
  | parts@(cnt :: rest) =>
    if parts.length > 2 then .err
    else match parseInt32 cnt with
      | none => .err
      | some rate =>
        if rate < 0 then .err
        else match rest with
          | [] => .ok (rate.toNat, 1000000000)
          | win :: _ =>
            let win' := match win with
              | [] => win
              | c :: _ => if "0123456789.+-".toList.contains c then win else '1' :: win
            match dur win' with
            | none => .err
            | some w => if w < 0 then .err else .ok (rate.toNat, w)

/-! ### payload (`strconv.Unquote("\"" + payload + "\"")`, preceded by the UTF-8 validity check) -/

def isCont (c : Char) : Bool := 0x80 ≤ c.toNat && c.toNat ≤ 0xBF

/-- `utf8.ValidString` on bytes-as-chars -/
def validUTF8 : List Char → Bool
  | [] => true
  | c :: rest =>
    let b := c.toNat
    if b < 0x80 then validUTF8 rest
    else if 0xC2 ≤ b && b ≤ 0xDF then
      match rest with
      | c1 :: r => isCont c1 && validUTF8 r
      | _ => false
    else if 0xE0 ≤ b && b ≤ 0xEF then
      match rest with
      | c1 :: c2 :: r =>
        let lo := if b == 0xE0 then 0xA0 else 0x80
        let hi := if b == 0xED then 0x9F else 0xBF
        (lo ≤ c1.toNat && c1.toNat ≤ hi) && isCont c2 && validUTF8 r
      | _ => false
    else if 0xF0 ≤ b && b ≤ 0xF4 then
      match rest with
      | c1 :: c2 :: c3 :: r =>
        let lo := if b == 0xF0 then 0x90 else 0x80
        let hi := if b == 0xF4 then 0x8F else 0xBF
        (lo ≤ c1.toNat && c1.toNat ≤ hi) && isCont c2 && isCont c3 && validUTF8 r
      | _ => false
    else false

def hexVal (c : Char) : Option Nat :=
  if '0' ≤ c && c ≤ '9' then some (c.toNat - 48)
  else if 'a' ≤ c && c ≤ 'f' then some (c.toNat - 87)
  else if 'A' ≤ c && c ≤ 'F' then some (c.toNat - 55)
  else none

def hexRun : List Char → Option Nat
  | [] => some 0
  | cs => cs.foldl (fun acc c => match acc, hexVal c with
      | some v, some d => some (v * 16 + d)
      | _, _ => none) (some 0)

/-- `utf8.AppendRune` for a valid rune -/
def encodeRune (r : Nat) : List Char :=
  let b (n : Nat) := Char.ofNat n
  if r < 0x80 then [b r]
  else if r < 0x800 then [b (0xC0 + r / 64), b (0x80 + r % 64)]
  else if r < 0x10000 then [b (0xE0 + r / 4096), b (0x80 + r / 64 % 64), b (0x80 + r % 64)]
  else [b (0xF0 + r / 262144), b (0x80 + r / 4096 % 64), b (0x80 + r / 64 % 64), b (0x80 + r % 64)]

def validRune (r : Nat) : Bool := r < 0xD800 || (0xE000 ≤ r && r ≤ 0x10FFFF)

/-- the escape loop of `strconv.unquote` on the text between the quotes (input already valid UTF-8,
    so bytes ≥ 0x80 are copied through); `none` = `ErrSyntax` -/
def unquoteLoop : Nat → List Char → Option (List Char)
  | 0, _ => none
  | _, [] => some []
  | fuel + 1, c :: rest =>
    if c == '"' || c == '\n' then none               -- raw quote (text after it remains) / raw newline
    else if c != '\\' then (unquoteLoop fuel rest).map (c :: ·)
    else match rest with
      | [] => none
      | e :: r =>
        let simple (v : Nat) := (unquoteLoop fuel r).map (Char.ofNat v :: ·)
        if e == 'a' then simple 7 else if e == 'b' then simple 8 else if e == 'f' then simple 12
        else if e == 'n' then simple 10 else if e == 'r' then simple 13 else if e == 't' then simple 9
        else if e == 'v' then simple 11 else if e == '\\' then simple 92 else if e == '"' then simple 34
        else if e == 'x' then
          match r with
          | h1 :: h2 :: r' => match hexRun [h1, h2] with
            | some v => (unquoteLoop fuel r').map (Char.ofNat v :: ·)
            | none => none
          | _ => none
        else if e == 'u' then
          match r with
          | h1 :: h2 :: h3 :: h4 :: r' => match hexRun [h1, h2, h3, h4] with
            | some v => if validRune v then (unquoteLoop fuel r').map (encodeRune v ++ ·) else none
            | none => none
          | _ => none
        else if e == 'U' then
          match r with
          | h1 :: h2 :: h3 :: h4 :: h5 :: h6 :: h7 :: h8 :: r' => match hexRun [h1, h2, h3, h4, h5, h6, h7, h8] with
            | some v => if validRune v then (unquoteLoop fuel r').map (encodeRune v ++ ·) else none
            | none => none
          | _ => none
        else if '0' ≤ e && e ≤ '7' then
          match r with
          | o1 :: o2 :: r' =>
            if '0' ≤ o1 && o1 ≤ '7' && '0' ≤ o2 && o2 ≤ '7' then
              let v := ((e.toNat - 48) * 8 + (o1.toNat - 48)) * 8 + (o2.toNat - 48)
              if v > 255 then none else (unquoteLoop fuel r').map (Char.ofNat v :: ·)
            else none
          | _ => none
        else none                                      -- `\'` and everything else

/-- `parsePacketPayload` -/
def parsePayload (p : List Char) : Option (List Char) :=
  if !validUTF8 p then none else unquoteLoop (p.length + 1) p

/-! ### flag lists -/

/-- `parseIPFlags`; `lowered` = `strings.ToLower(input)`; `table` = the `switch` cases `(name, bit)` -/
def parseIPFlags (table : List (String × Nat)) (lowered : List Char) : Option Nat :=
  if lowered.isEmpty then some 0
  else
    (split ',' lowered).foldl (fun acc f => match acc, table.find? (fun e => e.1.toList == f) with
      | some v, some e => some (v ||| e.2)
      | _, _ => none) (some 0)

/-- `parseTCPFlags`; `names` = keys of `tcpPacketFlagOptions` -/
def parseTCPFlags (names : List String) (lowered : List Char) : Option (List String) :=
  if lowered.isEmpty then some []
  else (split ',' lowered).mapM (fun f => names.find? (fun n => n.toList == f))

/-! ### files: `bufio.Scanner` + per-line handling -/

def maxToken : Nat := 65536

/-- `bufio.ScanLines` over the whole input: the lines, and whether a line is too long for the buffer
    (`scanner.Err() == bufio.ErrTooLong`; lines after it are never seen) -/
def scanLines (data : List Char) : List (List Char) × Bool :=
  let raw := split '\n' data
  let raw := match raw.getLast? with            -- no token after a final newline / for empty input
    | some [] => raw.dropLast
    | _ => raw
  let good := raw.takeWhile (fun l => l.length < maxToken)
  (good.map (fun l => if l.getLast? == some '\r' then l.dropLast else l), good.length < raw.length)

def trimSpaces (l : List Char) : List Char :=
  ((l.dropWhile (· == ' ')).reverse.dropWhile (· == ' ')).reverse

/-- comment stripping + `strings.Trim(line, " ")`; `none` = blank, skipped -/
def cleanLine (l : List Char) : Option (List Char) :=
  let l := l.takeWhile (· != '#')
  let l := trimSpaces l
  if l.isEmpty then none else some l

/-- `parsePortsFile` -/
def parsePortsFile (data : List Char) : Res (List PortRange) :=
  let (ls, tooLong) := scanLines data
  match collect ((ls.filterMap cleanLine).map parsePortRange) with
  | .ok v => if tooLong then .err else .ok v
  | r => r

/-- `parseExcludeFile`: the excluded networks `(base, ones)` -/
def parseExcludeFile (data : List Char) : Res (List (Nat × Nat)) :=
  let (ls, tooLong) := scanLines data
  match collect ((ls.filterMap cleanLine).map (fun l => match parseIPNet l with
      | some n => Res.ok (n.base, n.ones)
      | none => .err)) with
  | .ok v => if tooLong then .err else .ok v
  | r => r

/-- a file whose reading FAILS part-way (a `Read` error other than EOF: I/O error, a directory opened as
    a file, …): `bufio.Scanner` stops, the lines delivered so far are parsed, and `scanner.Err()` — which
    both parsers consult after their loop — turns the result into an error.  `p` is the parser on what
    was delivered. -/
def withReadFault {α} (p : List Char → Res α) (delivered : List Char) : Res α :=
  match p delivered with
  | .panic => .panic
  | _ => .err

end SxVerif.Parse
