/-
M-bpf — the capture filters sx installs (`pkg/scan/{tcp,icmp,arp}/bpf.go`): an AST of exactly the
expressions those four functions can produce, `render` (the string handed to `pcap.CompileBPFFilter`)
and a denotational `accepts` that says which frames libpcap's program for that string lets through, on
`DLT_EN10MB` (normal mode) and on `DLT_IPV4` (`--vpn`: `afpacket.NewPacketSource` picks
`layers.LinkTypeIPv4`).

libpcap's compiler and the BPF interpreter are third-party: *modelled, not verified*.  The harness
component `bpf` compiles the REAL filter strings with the real libpcap and runs the program in
`golang.org/x/net/bpf`'s VM on the same frames.

Semantics (libpcap 1.10 `gencode.c`, read off the generated programs):
* every primitive is a boolean over packet loads; a load beyond the captured bytes makes the program
  `ret #0` — the whole filter rejects, not just the primitive.  `eval` is therefore three-valued:
  `none` = some load was out of range.  `and`/`or` short-circuit left to right, as the generated code does.
* `tcp`            = (IPv4 ∧ proto = 6) ∨ (IPv6 ∧ (next-header = 6 ∨ (next-header = 44 ∧ byte 40 of the IPv6 packet = 6)))
* `icmp`           = IPv4 ∧ proto = 1
* `src portrange`  = (IPv4 ∧ proto ∈ {6,17,132} ∧ fragment offset = 0 ∧ lo ≤ u16 at 4·(b0 & 15) ≤ hi)
                     ∨ (IPv6 ∧ next-header ∈ {6,17,132} ∧ lo ≤ u16 at 40 ≤ hi); bounds given in the wrong order are swapped
* `ip src net a/n` = IPv4 ∧ (src & mask = a); for n = 0 the optimiser drops the (dead) load, so no length demand
* `arp src net a/n` = ARP ∧ (u32 at offset 14 of the ARP packet & mask = a)   — offset 14 is the sender address only for hlen 6
* `tcp[k] == v`    = IPv4 ∧ `tcp` ∧ fragment offset = 0 ∧ byte (4·(b0 & 15) + k) = v   — no IPv6 branch
* `icmp[k]!=v`     likewise with `icmp`
* the fragment test is `jset #0x1fff`: only the offset, *not* the MF bit (a first fragment passes the filter)
* link type: on `DLT_EN10MB` "IPv4"/"IPv6"/"ARP" test the ethertype at offset 12 (VLAN-tagged frames fail all
  three); on `DLT_IPV4` "IPv4" is constantly true (the version nibble is NOT tested), "IPv6" and "ARP" are
  constantly false (libpcap even refuses to compile `arp`: "expression rejects all packets").
-/
import SxVerif.Model.Frame

namespace SxVerif.Bpf
open SxVerif.Frame (Bytes u8 u16 u32)

/-- link-layer header type the filter is compiled for -/
inductive LinkMode where
  | ethernet     -- DLT_EN10MB
  | rawIPv4      -- DLT_IPV4 (vpn mode)
  deriving Repr, DecidableEq, Inhabited

/-- `net.IPNet` of an IPv4 network: address as a 32-bit number, prefix length -/
structure Net where
  addr : Nat
  bits : Nat
  deriving Repr, DecidableEq, Inhabited

/-- the part of `scan.Range` the filter functions read -/
structure Range where
  subnet : Option Net := none
  ports : List (Nat × Nat) := []
  deriving Repr, DecidableEq, Inhabited

inductive Expr where
  | tcp | icmp | arp
  | ipSrcNet (n : Net)
  | arpSrcNet (n : Net)
  | srcPortrange (lo hi : Nat)
  | tcpByteEq (off val : Nat)
  | icmpByteNe (off val : Nat)
  | and (a b : Expr)
  | or (a b : Expr)
  | paren (e : Expr)
  deriving Repr, DecidableEq, Inhabited

/-! ### the four filter functions -/

def orList (mk : Nat × Nat → Expr) : Nat × Nat → List (Nat × Nat) → Expr
  | p, [] => mk p
  | p, q :: rest => .or (mk p) (orList mk q rest)

/-- `tcp.BPFFilter` -/
def tcpBPFFilter (r : Range) : Expr :=
  let e := Expr.tcp
  let e := match r.subnet with
    | none => e
    | some n => .and e (.ipSrcNet n)
  match r.ports with
  | [] => e
  | p :: ps => .and e (.paren (orList (fun pr => .srcPortrange pr.1 pr.2) p ps))

/-- `tcp.SYNACKBPFFilter` -/
def synackBPFFilter (r : Range) : Expr := .and (tcpBPFFilter r) (.tcpByteEq 13 18)

/-- `icmp.BPFFilter` (also wired by `udp`) -/
def icmpBPFFilter (r : Range) : Expr :=
  let e := Expr.and .icmp (.icmpByteNe 0 8)
  match r.subnet with
  | none => e
  | some n => .and e (.ipSrcNet n)

/-- `arp.BPFFilter` -/
def arpBPFFilter (r : Range) : Expr :=
  match r.subnet with
  | none => .arp
  | some n => .arpSrcNet n

/-- the filter functions a command can wire -/
inductive FilterFn where
  | tcp | synack | icmp | arp
  deriving Repr, DecidableEq, Inhabited

/-- `maxPacketLength` each function returns next to the string (the program's accept value) -/
def snaplen : FilterFn → Nat
  | .arp => 64
  | _ => 1518

def filterOf : FilterFn → Range → Expr
  | .tcp => tcpBPFFilter
  | .synack => synackBPFFilter
  | .icmp => icmpBPFFilter
  | .arp => arpBPFFilter

/-! ### rendering -/

/-- `net.IPNet.String()` of an IPv4 network -/
def renderNet (n : Net) : String :=
  s!"{n.addr / 16777216 % 256}.{n.addr / 65536 % 256}.{n.addr / 256 % 256}.{n.addr % 256}/{n.bits}"

def render : Expr → String
  | .tcp => "tcp"
  | .icmp => "icmp"
  | .arp => "arp"
  | .ipSrcNet n => "ip src net " ++ renderNet n
  | .arpSrcNet n => "arp src net " ++ renderNet n
  | .srcPortrange lo hi => s!"src portrange {lo}-{hi}"
  | .tcpByteEq off val => s!"tcp[{off}] == {val}"
  | .icmpByteNe off val => s!"icmp[{off}]!={val}"
  | .and a b => render a ++ " and " ++ render b
  | .or a b => render a ++ " or " ++ render b
  | .paren e => "(" ++ render e ++ ")"

/-! ### denotation -/

/-- three-valued connectives: `none` = a load was out of range, the program has already returned 0 -/
def and3 (a b : Option Bool) : Option Bool :=
  match a with
  | none => none
  | some false => some false
  | some true => b

def or3 (a b : Option Bool) : Option Bool :=
  match a with
  | none => none
  | some true => some true
  | some false => b

/-- length of the link-layer header -/
def linkLen : LinkMode → Nat
  | .ethernet => 14
  | .rawIPv4 => 0

/-- `gen_linktype`: compare the ethertype, or a constant on `DLT_IPV4` -/
def linkIs (m : LinkMode) (f : Bytes) (etherType : Nat) (onRaw : Bool) : Option Bool :=
  match m with
  | .ethernet => (u16 f 12).map (· == etherType)
  | .rawIPv4 => some onRaw

def isIP (m : LinkMode) (f : Bytes) : Option Bool := linkIs m f 0x0800 true
def isIP6 (m : LinkMode) (f : Bytes) : Option Bool := linkIs m f 0x86dd false
def isARP (m : LinkMode) (f : Bytes) : Option Bool := linkIs m f 0x0806 false

/-- byte at offset `i` of the network-layer packet equals `v` -/
def byteIs (m : LinkMode) (f : Bytes) (i v : Nat) : Option Bool := (u8 f (linkLen m + i)).map (· == v)

def byteIn (m : LinkMode) (f : Bytes) (i : Nat) (vs : List Nat) : Option Bool :=
  (u8 f (linkLen m + i)).map (fun x => vs.contains x)

/-- `gen_ipfrag`: `ldh [6]; jset #0x1fff` -/
def notLaterFragment (m : LinkMode) (f : Bytes) : Option Bool :=
  (u16 f (linkLen m + 6)).map (fun v => v % 8192 == 0)

/-- `ldxb 4*([0]&0xf)`: offset of the transport header inside the IPv4 packet -/
def ipHdrLen (m : LinkMode) (f : Bytes) : Option Nat := (u8 f (linkLen m)).map (fun b => 4 * (b % 16))

/-- netmask of a prefix length as a 32-bit number -/
def maskOf (bits : Nat) : Nat := 4294967296 - 2 ^ (32 - bits)

/-- `gen_mcmp` on a 32-bit load; with an all-zero mask the comparison is constant and the load is dead code -/
def netMatch (f : Bytes) (off : Nat) (n : Net) : Option Bool :=
  if n.bits = 0 then some (n.addr == 0)
  else (u32 f off).map (fun a => Nat.land a (maskOf n.bits) == n.addr)

/-- port comparison of `gen_portrangeatom` (bounds swapped when given in the wrong order) -/
def portIn (lo hi p : Nat) : Bool := decide (min lo hi ≤ p) && decide (p ≤ max lo hi)

def eval (m : LinkMode) (f : Bytes) : Expr → Option Bool
  | .tcp =>
    or3 (and3 (isIP m f) (byteIs m f 9 6))
        (and3 (isIP6 m f) (or3 (byteIs m f 6 6) (and3 (byteIs m f 6 44) (byteIs m f 40 6))))
  | .icmp => and3 (isIP m f) (byteIs m f 9 1)
  | .arp => isARP m f
  | .ipSrcNet n => and3 (isIP m f) (netMatch f (linkLen m + 12) n)
  | .arpSrcNet n => and3 (isARP m f) (netMatch f (linkLen m + 14) n)
  | .srcPortrange lo hi =>
    or3 (and3 (isIP m f) (and3 (byteIn m f 9 [6, 17, 132]) (and3 (notLaterFragment m f)
          (match ipHdrLen m f with
           | none => none
           | some x => (u16 f (linkLen m + x)).map (portIn lo hi)))))
        (and3 (isIP6 m f) (and3 (byteIn m f 6 [6, 17, 132]) ((u16 f (linkLen m + 40)).map (portIn lo hi))))
  | .tcpByteEq off val =>
    and3 (isIP m f) (and3 (byteIs m f 9 6) (and3 (notLaterFragment m f)
      (match ipHdrLen m f with
       | none => none
       | some x => (u8 f (linkLen m + x + off)).map (· == val))))
  | .icmpByteNe off val =>
    and3 (isIP m f) (and3 (byteIs m f 9 1) (and3 (notLaterFragment m f)
      (match ipHdrLen m f with
       | none => none
       | some x => (u8 f (linkLen m + x + off)).map (· != val))))
  | .and a b => and3 (eval m f a) (eval m f b)
  | .or a b => or3 (eval m f a) (eval m f b)
  | .paren e => eval m f e

/-- the compiled program returns non-zero (the kernel delivers the frame to the socket) -/
def accepts (e : Expr) (m : LinkMode) (f : Bytes) : Bool := eval m f e == some true

/-- `pcap.CompileBPFFilter` refuses the expression ("expression rejects all packets"): `SetBPFFilter`
    fails and the scan does not start -/
def compiles : Expr → LinkMode → Bool
  | .arp, .rawIPv4 => false
  | .arpSrcNet _, .rawIPv4 => false
  | _, _ => true

end SxVerif.Bpf
