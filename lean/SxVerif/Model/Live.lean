/-
M-live — model of `liveRequestGenerator.GenerateRequests` (`pkg/scan/request.go:363-395`) as a
small-step process with a logical clock.

```go
requests, err := rg.delegate.GenerateRequests(ctx, r)           // pass 0
if err != nil { return nil, err }
out := make(chan *Request, cap(requests))
go func() {
    defer close(out)
    for {
        if request, ok = readRequest(ctx, requests); ok {        // pc = read
            writeRequest(ctx, out, request)                      // pc = write x
            continue
        }
        select {                                                 // timer armed, then polled / parked
        case <-ctx.Done(): return                                // wokenCtx → done (deferred close)
        case <-time.After(rg.rescanTimeout):                     // wokenTimer
            requests, _ = rg.delegate.GenerateRequests(ctx, r)   // re-binds `requests`; nil on error
        }
    }
}()
```

* The delegate is `passes : Nat → Option (List α)`: what its `k`-th call sends before closing its
  channel when nobody cancels; `none` = the call returns an error, and the *variable* `requests`
  becomes the nil channel (the error is discarded by `requests, _ =`).
* Everything the environment decides is an event of the schedule: time passing, cancellation, the
  delegate losing an item because its own ctx-guarded send took the ctx branch (only after
  cancellation), and the generator goroutine being scheduled.  Where a Go `select` finds two ready
  cases the event carries the choice.  A goroutine parked in a `select` is woken by the *first* case
  that fires (Go runtime semantics), which is why `wait` turns into `wokenTimer` / `wokenCtx` at the
  environment event, not at the next step of the process.
* A send on `out` needs the consumer (or buffer room); the scheduler expresses a slow consumer by not
  scheduling the process.  The model therefore over-approximates every consumer.
* Arming the timer and polling the `select` is one step (for `rescan > 0` a freshly armed timer is not
  ready when polled); `rescan = 0` makes the timer case ready at once, as `time.After(0)` does.
Core Lean only.
-/
namespace SxVerif.Live

/-- control point of the generator goroutine -/
inductive Pc (α : Type) where
  | read                    -- in `readRequest(ctx, requests)`
  | write (x : α)           -- in `writeRequest(ctx, out, x)`
  | wait (deadline : Nat)   -- parked in the rescan `select`; neither case has fired
  | both                    -- rescan `select` polled with both cases ready (`rescan = 0` and ctx cancelled)
  | wokenTimer              -- the timer case won: about to call `delegate.GenerateRequests`
  | wokenCtx                -- the ctx case won: about to `return`
  | done                    -- returned; `out` is closed
  deriving Repr, DecidableEq

/-- what the process writes into its log (the harness records the same at the scripted delegate) -/
inductive Mark where
  | started (k t : Nat)     -- call `k` of the delegate returned a channel at clock `t`
  | failed (k t : Nat)      -- call `k` of the delegate returned an error at clock `t`
  | ended (k t : Nat)       -- `readRequest` on channel `k` returned `ok = false` at clock `t`; timer armed at `t`
  deriving Repr, DecidableEq

inductive Ev where
  | tick (n : Nat)          -- `n` units of time pass
  | cancel                  -- the context is cancelled
  | drop                    -- the delegate's guarded send of its next item took the ctx branch
  | proc (ctxFirst : Bool)  -- the generator goroutine runs to its next control point
  deriving Repr, DecidableEq

structure State (α : Type) where
  pc : Pc α
  /-- the variable `requests`: `none` = nil channel, `some l` = a channel that still delivers `l`, then is closed -/
  cur : Option (List α)
  /-- number of calls of `delegate.GenerateRequests` made so far -/
  next : Nat
  clock : Nat
  cancelled : Bool
  /-- everything sent on `out`, in order -/
  out : List α
  log : List Mark
  deriving Repr

variable {α : Type}

/-- `readRequest` returned `ok = false` on a non-nil channel: the generator has stopped reading pass `next - 1` -/
def armLog (s : State α) : List Mark :=
  match s.cur with
  | some _ => s.log ++ [.ended (s.next - 1) s.clock]
  | none => s.log

/-- `time.After(rescan)` is evaluated and the `select` polled -/
def armPc (rescan : Nat) (s : State α) : Pc α :=
  if s.cancelled then (if rescan = 0 then .both else .wokenCtx)
  else (if rescan = 0 then .wokenTimer else .wait (s.clock + rescan))

/-- `readRequest` returned `ok = false`: fall through to the rescan `select` -/
def arm (rescan : Nat) (s : State α) : State α :=
  { s with log := armLog s, pc := armPc rescan s }

/-- `requests, _ = rg.delegate.GenerateRequests(ctx, r)`: the variable is re-bound to whatever the
    call returns — the nil channel when it fails, the error being discarded -/
def regen (passes : Nat → Option (List α)) (s : State α) : State α :=
  { s with
    pc := .read, cur := passes s.next, next := s.next + 1,
    log := s.log ++ [match passes s.next with
      | some _ => .started s.next s.clock
      | none => .failed s.next s.clock] }

/-- one event.  Events that are not enabled in a state leave it unchanged. -/
def step (rescan : Nat) (passes : Nat → Option (List α)) (e : Ev) (s : State α) : State α :=
  match e with
  | .tick n =>
    match s.pc with
    | .wait d => if d ≤ s.clock + n then { s with clock := s.clock + n, pc := .wokenTimer }
                 else { s with clock := s.clock + n }
    | _ => { s with clock := s.clock + n }
  | .cancel =>
    match s.pc with
    | .wait _ => { s with cancelled := true, pc := .wokenCtx }
    | _ => { s with cancelled := true }
  | .drop =>
    if s.cancelled then
      match s.cur with
      | some (_ :: xs) => { s with cur := some xs }
      | _ => s
    else s
  | .proc c =>
    match s.pc with
    | .read =>
      match s.cur with
      | none => if s.cancelled then arm rescan s else s          -- nil channel: only the ctx case can fire
      | some [] => arm rescan s                                  -- closed and drained (or ctx: same `ok = false`)
      | some (x :: xs) =>
        if s.cancelled && c then arm rescan s                    -- ctx case chosen; the item stays in the channel
        else { s with cur := some xs, pc := .write x }
    | .write x =>
      if s.cancelled && c then { s with pc := .read }            -- ctx case chosen: the item is dropped
      else { s with pc := .read, out := s.out ++ [x] }
    | .wait _ => s
    | .both => if c then { s with pc := .done } else regen passes s
    | .wokenTimer => regen passes s
    | .wokenCtx => { s with pc := .done }
    | .done => s

/-- `GenerateRequests` itself: `none` = it returns `(nil, err)`, no goroutine is started -/
def init (passes : Nat → Option (List α)) (t0 : Nat) : Option (State α) :=
  match passes 0 with
  | none => none
  | some l => some { pc := .read, cur := some l, next := 1, clock := t0, cancelled := false, out := [],
                     log := [.started 0 t0] }

def run (rescan : Nat) (passes : Nat → Option (List α)) (evs : List Ev) (s : State α) : State α :=
  evs.foldl (fun s e => step rescan passes e s) s

/-- the process can make a move of its own (a `proc` event changes the state) -/
def procEnabled (s : State α) : Bool :=
  match s.pc with
  | .read => match s.cur with
    | none => s.cancelled
    | some _ => true
  | .write _ => true
  | .wait _ => false
  | .both | .wokenTimer | .wokenCtx => true
  | .done => false

def closed (s : State α) : Bool := match s.pc with | .done => true | _ => false

/-- the list a pass delivers (`[]` for a pass that fails to start) -/
def passList (passes : Nat → Option (List α)) (k : Nat) : List α := (passes k).getD []

/-- the item the goroutine holds between `readRequest` and `writeRequest` -/
def inflight (s : State α) : List α := match s.pc with | .write x => [x] | _ => []

def startOf (log : List Mark) (k : Nat) : Option Nat :=
  log.findSome? (fun | .started j t => if j = k then some t else none | _ => none)

def endOf (log : List Mark) (k : Nat) : Option Nat :=
  log.findSome? (fun | .ended j t => if j = k then some t else none | _ => none)

def failOf (log : List Mark) (k : Nat) : Option Nat :=
  log.findSome? (fun | .failed j t => if j = k then some t else none | _ => none)

/-- time of the `k`-th call of the delegate, whether it started a pass or failed -/
def callOf (log : List Mark) (k : Nat) : Option Nat :=
  log.findSome? (fun
    | .started j t => if j = k then some t else none
    | .failed j t => if j = k then some t else none
    | _ => none)

def countProc (evs : List Ev) : Nat := (evs.filter (fun | .proc _ => true | _ => false)).length

end SxVerif.Live
