/-
Links between the models: how the request stream of M-gen (`Model/Gen.lean`) becomes the input of the packet
pipeline (`Model/Pipe.lean`, through the fillers of `Model/Fill.lean`) and of the generic engine
(`Model/Engine.lean`).  Definitions only, core Lean only.

A `scan.Request` of the Go code carries addresses as `net.IP` / `net.HardwareAddr` byte slices; M-gen keeps them
as numbers.  `fillReq` spells them out as the fillers of M-frame receive them.  The filler is a function of
the request and of its `math/rand` draws; which worker fills which request, and in which order the workers
draw, is the schedule's choice, so the draws are a family indexed by the POSITION of the request in the
stream and every theorem quantifies over all families.
-/
import SxVerif.Model.Gen
import SxVerif.Model.Fill
import SxVerif.Model.Pipe
import SxVerif.Model.Engine

namespace SxVerif.Compose
open SxVerif.Frame (Bytes)

/-- `net.IP` of an address: 4 bytes, the 16-byte IPv4-mapped spelling (`net.ParseIP` output), or a 16-byte
    address that is not IPv4-mapped (the fillers refuse every such address alike; `::` stands for them) -/
def addrBytes : Gen.Addr → Bytes
  | .v4 a false => Fill.be32 a
  | .v4 a true => [0, 0, 0, 0, 0, 0, 0, 0, 0, 0, 0xff, 0xff] ++ Fill.be32 a
  | .v6 _ => List.replicate 16 0

/-- `net.HardwareAddr` of a 48-bit MAC (big-endian, as `macNat` of Model/ArpCache reads it) -/
def macBytes (m : Nat) : Bytes :=
  [Fill.b8 (m / 2 ^ 40), Fill.b8 (m / 2 ^ 32), Fill.b8 (m / 2 ^ 24), Fill.b8 (m / 2 ^ 16), Fill.b8 (m / 2 ^ 8), Fill.b8 m]

/-- what the scan range fixes for every request of a run: link mode, source address, source MAC (C17) -/
structure Link where
  vpn : Bool
  srcIP : Bytes
  srcMAC : Bytes
  deriving Repr, DecidableEq

/-- the request as `PacketFiller.Fill` sees it; a missing destination / MAC is a nil slice -/
def fillReq (l : Link) (r : Gen.Req) : Fill.Req :=
  { srcIP := l.srcIP, dstIP := (r.dst.map addrBytes).getD [], srcMAC := l.srcMAC,
    dstMAC := (r.dstMAC.map macBytes).getD [], dstPort := r.port }

/-- which `PacketFiller` the command wires, with its options -/
inductive Filler where
  | tcp (flags : Nat)
  | udp (o : Fill.IPOpts)
  | icmp (o : Fill.IPOpts) (typ code : Nat)
  | arp
  deriving Repr, DecidableEq

/-- the `math/rand` draws of one `Fill` call -/
structure Rnd where
  ipId : Nat
  sport : Nat
  seq : Nat
  icmpId : Nat
  deriving Repr, DecidableEq

/-- `Fill` of the wired filler (link mode of udp/icmp taken from the scan range) -/
def fill (l : Link) : Filler → Fill.Req → Rnd → Except Fill.FillErr Bytes
  | .tcp flags, q, d => Fill.fillTCP l.vpn flags q d.ipId d.sport d.seq
  | .udp o, q, d => Fill.fillUDP { o with vpn := l.vpn } q d.ipId d.sport
  | .icmp o t c, q, d => Fill.fillICMP { o with vpn := l.vpn } t c q d.ipId d.icmpId
  | .arp, q, _ => Fill.fillARP q

/-- the `i`-th request of the stream as the packet generator treats it (generator.go:36-52): a request with
    `Err` is forwarded as its error, otherwise `Fill` is called: a frame, or the filler's error -/
def pipeReq (l : Link) (fl : Filler) (rnd : Nat → Rnd) (i : Nat) (r : Gen.Req) : Pipe.Req :=
  match r.err with
  | some _ => { id := i, kind := .reqErr, frame := [] }
  | none =>
    match fill l fl (fillReq l r) (rnd i) with
    | .ok f => { id := i, kind := .ok, frame := f }
    | .error _ => { id := i, kind := .fillErr, frame := [] }

def pipeReqsFrom (l : Link) (fl : Filler) (rnd : Nat → Rnd) : Nat → List Gen.Req → List Pipe.Req
  | _, [] => []
  | i, r :: rs => pipeReq l fl rnd i r :: pipeReqsFrom l fl rnd (i + 1) rs

/-- **the embedding, packet side**: the request list of one engine run as `Pipe.Input.reqs`; `id` = position -/
def pipeReqs (l : Link) (fl : Filler) (rnd : Nat → Rnd) (rs : List Gen.Req) : List Pipe.Req :=
  pipeReqsFrom l fl rnd 0 rs

/-- the frames `Fill` builds over a request stream: one per request WITHOUT error that the filler serves, none
    for a request that carries an error -/
def probeFramesFrom (l : Link) (fl : Filler) (rnd : Nat → Rnd) : Nat → List Gen.Req → List Bytes
  | _, [] => []
  | i, r :: rs =>
    (match r.err with
     | some _ => []
     | none => match fill l fl (fillReq l r) (rnd i) with
       | .ok f => [f]
       | .error _ => []) ++ probeFramesFrom l fl rnd (i + 1) rs

def probeFrames (l : Link) (fl : Filler) (rnd : Nat → Rnd) (rs : List Gen.Req) : List Bytes :=
  probeFramesFrom l fl rnd 0 rs

/-- the `i`-th request as the generic engine's worker treats it: `r.Err != nil` or a call of `Scan`, whose answer
    is the oracle's (`orc`, arbitrary: the theorems quantify over it) -/
def engReq (orc : Nat → Engine.Outcome) (i : Nat) (r : Gen.Req) : Engine.Req :=
  { id := i, isErr := r.err.isSome, out := orc i }

def engReqsFrom (orc : Nat → Engine.Outcome) : Nat → List Gen.Req → List Engine.Req
  | _, [] => []
  | i, r :: rs => engReq orc i r :: engReqsFrom orc (i + 1) rs

/-- **the embedding, generic side**; `id` = position -/
def engReqs (orc : Nat → Engine.Outcome) (rs : List Gen.Req) : List Engine.Req := engReqsFrom orc 0 rs

/-- the probe a request stands for: destination and port of a request without error -/
def probeOf (r : Gen.Req) : Option (Gen.Addr × Nat) :=
  match r.err, r.dst with
  | none, some a => some (a, r.port)
  | _, _ => none

/-- the target of the request with identity `id` of the stream `rs` (`none`: no such request, or not a probe) -/
def targetAt (rs : List Gen.Req) (id : Nat) : Option (Gen.Addr × Nat) := (rs[id]?).bind probeOf

/-- the cause carried by the request with identity `id` (`none`: no such request, or a probe) -/
def causeAt (rs : List Gen.Req) (id : Nat) : Option Gen.Cause := (rs[id]?).bind (·.err)

end SxVerif.Compose
