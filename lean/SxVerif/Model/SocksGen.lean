/-
The SOCKS5 probe model instantiated with the constants regenerated from
`pkg/scan/socks5/{socks5.go,message.go}` on every run (Generated/Socks.lean); the two timeouts stay
parameters (`--timeout` sets both, any value).
-/
import SxVerif.Model.Socks
import SxVerif.Generated.Socks

namespace SxVerif.Socks

/-- Go's `byte(x)` of an untyped constant that sxfacts has already checked to be in 0..255 -/
def genCfg (dialTimeout dataTimeout : Dur) : Cfg where
  version := UInt8.ofNat Generated.socksRequestVersion
  methods := Generated.socksRequestMethods.map UInt8.ofNat
  expectVer := UInt8.ofNat Generated.socksExpectVer
  expectMethod := UInt8.ofNat Generated.socksExpectMethod
  lingerSec := Generated.socksLingerSec
  dialTimeout := dialTimeout
  dataTimeout := dataTimeout

end SxVerif.Socks
