/-
Lemmas for C18 (option parsing): `Parse.*` of `Model/Parse.lean` against `Spec/Parse.lean`.
The proofs live in the parts imported here; all are in namespace `SxVerif.Proofs.Parse`:

* `ParseBasic`   — `split = splitOn`, `renderNat` is a digit string with the right value, `collect` / `mapM`
* `ParsePorts`   — `ports_no_panic`, `ports_exact`, `ports_roundtrip`, `range_roundtrip`,
                   `rate_no_panic`, `rate_exact`, `rate_roundtrip`
* `ParsePayload` — `payload_roundtrip`, `payload_plain`
* `ParseFlags`   — `ipflags_roundtrip`, `ipflags_exact`, `tcpflags_roundtrip`, `tcpflags_exact`
* `ParseFiles`   — `files_no_panic`, `ports_file`, `exclude_file`
-/
import SxVerif.Proofs.ParseBasic
import SxVerif.Proofs.ParsePorts
import SxVerif.Proofs.ParsePayload
import SxVerif.Proofs.ParseFlags
import SxVerif.Proofs.ParseFiles
