/-
Timing and cancellation-provenance invariants (hold on every path): the controller cancels no earlier
than `doneAt + delay`; the derived ctx is cancelled only by the controller or by the command ctx;
the copier/logger exit only for those reasons.
-/
import SxVerif.Proofs.EngineInv

namespace SxVerif.Engine

structure Inv1 (c : Cfg) (s : Sys) : Prop where
  doneAtLe : s.doneAt.getD 0 ≤ s.clock
  doneAtIff : s.doneAt.isSome = s.doneClosed
  timer : ∀ d, s.ctl = .waitTimer d → s.doneAt.isSome = true ∧ s.doneAt.getD 0 + c.delay ≤ d
  fired : s.ctl = .fired → s.doneAt.isSome = true ∧ s.doneAt.getD 0 + c.delay ≤ s.clock
  cancelAt : s.cancelAt.isSome = true →
    s.doneAt.isSome = true ∧ s.doneAt.getD 0 + c.delay ≤ s.cancelAt.getD 0 ∧ s.cancelAt.getD 0 ≤ s.clock
  cancelCtl : s.cancelAt.isSome = true ↔ s.ctl = .exited
  snap : s.inflightAtCancel.isSome = s.cancelAt.isSome
  cancelDer : s.cancelAt.isSome = true → s.derCtx = true
  cmdDer : s.cmdCtx = true → s.derCtx = true
  copExit : s.cop = .exited → s.cmdCtx = true
  logExit : s.log = .exited → (s.cmdCtx = true ∨ s.cancelAt.isSome = true)
  derProv : s.derCtx = true → (s.cmdCtx = true ∨ s.cancelAt.isSome = true)
  mainRet : s.main = .returned → s.log = .exited ∧ s.drain = .exited

theorem inv1_init (c : Cfg) (reqs : List Req) (ext : List (Nat × Nat)) : Inv1 c (init reqs ext) := by
  constructor <;> simp [init]

set_option maxHeartbeats 2000000 in
theorem inv1_step {c : Cfg} {s s' : Sys} (h0 : Inv0 c s) (h : Inv1 c s) (hs : StepR c s s') : Inv1 c s' := by
  have a5 := h0.doneClosed
  have a6 := h0.resClosed
  clear h0
  obtain ⟨b1, b2, b3, b4, b5, b6, b7, b8, b9, b10, b11, b12, b13⟩ := h
  cases hs <;> constructor <;> grind

theorem inv1 {c : Cfg} {reqs : List Req} {ext : List (Nat × Nat)} {s : Sys}
    (hr : Reachable c (init reqs ext) s) : Inv1 c s :=
  Reachable.inv (Inv1 c) (inv1_init c reqs ext) (fun _ _ hr h hs => inv1_step (inv0 hr) h hs) s hr

end SxVerif.Engine
