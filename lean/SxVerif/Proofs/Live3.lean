/-
Lemmas for C19, part 3: the rescan interval.  Every call of the delegate after the first comes at
least `rescan` after the moment the generator stopped reading the previous pass — for every schedule,
cancelled or not.  Core Lean only.
-/
import SxVerif.Proofs.Live1

namespace SxVerif.Proofs.Live
open SxVerif.Live

variable {α : Type} (rescan : Nat) (passes : Nat → Option (List α))

theorem endOf_append_ended (log : List Mark) (j t k : Nat) :
    endOf (log ++ [.ended j t]) k = (endOf log k).or (if j = k then some t else none) := by
  simp [endOf, List.findSome?_append]

theorem endOf_append_started (log : List Mark) (j t k : Nat) :
    endOf (log ++ [.started j t]) k = endOf log k := by
  simp [endOf, List.findSome?_append]

theorem endOf_append_failed (log : List Mark) (j t k : Nat) :
    endOf (log ++ [.failed j t]) k = endOf log k := by
  simp [endOf, List.findSome?_append]

theorem callOf_append_ended (log : List Mark) (j t k : Nat) :
    callOf (log ++ [.ended j t]) k = callOf log k := by
  simp [callOf, List.findSome?_append]

theorem callOf_append_started (log : List Mark) (j t k : Nat) :
    callOf (log ++ [.started j t]) k = (callOf log k).or (if j = k then some t else none) := by
  simp [callOf, List.findSome?_append]

theorem callOf_append_failed (log : List Mark) (j t k : Nat) :
    callOf (log ++ [.failed j t]) k = (callOf log k).or (if j = k then some t else none) := by
  simp [callOf, List.findSome?_append]

/-- the time by which the armed timer is known to have run out -/
def due (s : State α) : Option Nat :=
  match s.pc with
  | .wait d => some d
  | .wokenTimer => some s.clock
  | .both => some s.clock
  | _ => none

structure GapInv (s : State α) : Prop where
  pos : 1 ≤ s.next
  /-- the channel variable is nil exactly when the last call failed -/
  curSome : s.cur.isSome = (passes (s.next - 1)).isSome
  /-- marks only for calls made, never in the future -/
  marks : ∀ k t, (callOf s.log k = some t ∨ endOf s.log k = some t) → k < s.next ∧ t ≤ s.clock
  /-- the statement itself -/
  gaps : ∀ k t', callOf s.log (k + 1) = some t' → (passes k).isSome →
    ∃ t, endOf s.log k = some t ∧ t + rescan ≤ t'
  /-- while the timer is armed / has fired: the current pass's end is logged, `rescan` before it is due -/
  armed : ∀ D, due s = some D → s.cur.isSome → ∃ t, endOf s.log (s.next - 1) = some t ∧ t + rescan ≤ D
  /-- while reading, the current pass has no end mark yet -/
  reading : (s.pc = .read ∨ ∃ x, s.pc = .write x) → endOf s.log (s.next - 1) = none

theorem gapInv_init (t0 : Nat) (s0 : State α) (h : init passes t0 = some s0) : GapInv rescan passes s0 := by
  unfold init at h
  split at h
  · cases h
  · rename_i l hl
    cases h
    refine ⟨by simp, by simp [hl], ?_, ?_, by simp [due], by simp [endOf]⟩
    · intro k t h
      simp [callOf, endOf] at h
      obtain ⟨rfl, rfl⟩ := h
      exact ⟨Nat.lt_succ_self _, Nat.le_refl _⟩
    · intro k t' h; simp [callOf] at h

/-- events that change neither the log nor `next`/`cur` and do not move the control point into or out
    of the timer states -/
theorem gapInv_frame (s s' : State α) (h : GapInv rescan passes s)
    (hlog : s'.log = s.log) (hnext : s'.next = s.next) (hcur : s'.cur.isSome = s.cur.isSome)
    (hclock : s.clock ≤ s'.clock)
    (hdue : ∀ D, due s' = some D → ∃ D', due s = some D' ∧ D' ≤ D)
    (hread : (s'.pc = .read ∨ ∃ x, s'.pc = .write x) → (s.pc = .read ∨ ∃ x, s.pc = .write x)) :
    GapInv rescan passes s' := by
  obtain ⟨hp, hc, hm, hg, ha, hr⟩ := h
  refine ⟨by omega, by rw [hcur, hnext]; exact hc, ?_, ?_, ?_, ?_⟩
  · intro k t hk; rw [hlog] at hk; have := hm k t hk; omega
  · rw [hlog]; exact hg
  · intro D hD hs
    obtain ⟨D', hD', hle⟩ := hdue D hD
    obtain ⟨t, ht, htle⟩ := ha D' hD' (by rw [← hcur]; exact hs)
    exact ⟨t, by rw [hlog, hnext]; exact ht, by omega⟩
  · intro h'; rw [hlog, hnext]; exact hr (hread h')

theorem gapInv_arm (s : State α) (h : GapInv rescan passes s) (hpc : s.pc = .read) :
    GapInv rescan passes (arm rescan s) := by
  obtain ⟨hp, hc, hm, hg, ha, hr⟩ := h
  have hnone := hr (Or.inl hpc)
  have hpcs : ¬ ((arm rescan s).pc = .read ∨ ∃ x, (arm rescan s).pc = .write x) := by
    rw [arm_pc]; rcases armPc_cases rescan s with h | h | h | h <;> simp [h]
  cases hcur : s.cur with
  | none =>
    have hlog : (arm rescan s).log = s.log := by simp [armLog, hcur]
    refine ⟨hp, hc, by rw [hlog]; exact hm, by rw [hlog]; exact hg, ?_, fun h => absurd h hpcs⟩
    intro D _ hs; simp [hcur] at hs
  | some l =>
    have hlog : (arm rescan s).log = s.log ++ [.ended (s.next - 1) s.clock] := by simp [armLog, hcur]
    refine ⟨hp, hc, ?_, ?_, ?_, fun h => absurd h hpcs⟩
    · intro k t hk
      rw [hlog, callOf_append_ended, endOf_append_ended] at hk
      rcases hk with hk | hk
      · exact hm k t (Or.inl hk)
      · cases he : endOf s.log k with
        | some t0 => rw [he] at hk; simp at hk; subst hk; exact hm k t0 (Or.inr he)
        | none =>
          rw [he] at hk
          simp at hk
          obtain ⟨rfl, rfl⟩ := hk
          exact ⟨by simp only [arm_next]; omega, by simp⟩
    · intro k t' hk hs
      rw [hlog, callOf_append_ended] at hk
      obtain ⟨t, ht, hle⟩ := hg k t' hk hs
      exact ⟨t, by rw [hlog, endOf_append_ended, ht]; rfl, hle⟩
    · intro D hD _
      refine ⟨s.clock, by rw [hlog, endOf_append_ended, arm_next, hnone]; simp, ?_⟩
      simp only [due, arm_pc, arm_clock] at hD
      unfold armPc at hD
      by_cases h0 : rescan = 0 <;> by_cases hcn : s.cancelled = true <;> simp [h0, hcn] at hD <;> omega

theorem gapInv_regen (s : State α) (h : GapInv rescan passes s) (hpc : s.pc = .wokenTimer ∨ s.pc = .both) :
    GapInv rescan passes (regen passes s) := by
  obtain ⟨hp, hc, hm, hg, ha, hr⟩ := h
  have hdue : due s = some s.clock := by rcases hpc with h | h <;> simp [due, h]
  have hcallnone : callOf s.log s.next = none := by
    cases hc' : callOf s.log s.next with
    | none => rfl
    | some t => have := (hm _ t (Or.inl hc')).1; omega
  have hendnone : endOf s.log s.next = none := by
    cases hc' : endOf s.log s.next with
    | none => rfl
    | some t => have := (hm _ t (Or.inr hc')).1; omega
  have hcallNew : ∀ k, callOf (regen passes s).log k = (callOf s.log k).or (if s.next = k then some s.clock else none) := by
    intro k
    cases hp' : passes s.next <;> simp [regen, hp', callOf_append_started, callOf_append_failed]
  have hendNew : ∀ k, endOf (regen passes s).log k = endOf s.log k := by
    intro k
    cases hp' : passes s.next <;> simp [regen, hp', endOf_append_started, endOf_append_failed]
  refine ⟨by simp, by simp, ?_, ?_, by simp [due], ?_⟩
  · intro k t hk
    rw [hcallNew, hendNew] at hk
    simp only [regen_next, regen_clock]
    rcases hk with hk | hk
    · cases hck : callOf s.log k with
      | some t0 => rw [hck] at hk; simp at hk; subst hk; have := hm k t0 (Or.inl hck); omega
      | none =>
        rw [hck] at hk; simp at hk
        obtain ⟨rfl, rfl⟩ := hk
        exact ⟨by omega, Nat.le_refl _⟩
    · have := hm k t (Or.inr hk); omega
  · intro k t' hk hs
    rw [hcallNew] at hk
    rw [hendNew]
    cases hck : callOf s.log (k + 1) with
    | some t0 => rw [hck] at hk; simp at hk; subst hk; exact hg k t0 hck hs
    | none =>
      rw [hck] at hk; simp at hk
      obtain ⟨hk1, rfl⟩ := hk
      have hk' : s.next - 1 = k := by omega
      have hcs : s.cur.isSome = true := by rw [hc, hk']; exact hs
      obtain ⟨t, ht, hle⟩ := ha s.clock hdue hcs
      exact ⟨t, by rw [← hk']; exact ht, hle⟩
  · intro _
    rw [hendNew]; simpa using hendnone

theorem gapInv_step (e : Ev) (s : State α) (h : GapInv rescan passes s) :
    GapInv rescan passes (step rescan passes e s) := by
  cases e with
  | tick n =>
    cases hpc : s.pc with
    | wait d =>
      simp only [step, hpc]
      split
      · rename_i hd
        apply gapInv_frame rescan passes s _ h (by rfl) (by rfl) (by rfl) (by simp) <;> simp [due, hpc]
        exact hd
      · apply gapInv_frame rescan passes s _ h (by rfl) (by rfl) (by rfl) (by simp) <;> simp [due, hpc]
    | read | write _ | both | wokenTimer | wokenCtx | done =>
      simp only [step, hpc]
      apply gapInv_frame rescan passes s _ h (by rfl) (by rfl) (by rfl) (by simp) <;> simp [due, hpc]
  | cancel =>
    cases hpc : s.pc with
    | wait d =>
      simp only [step, hpc]
      apply gapInv_frame rescan passes s _ h (by rfl) (by rfl) (by rfl) (by simp) <;> simp [due, hpc]
    | read | write _ | both | wokenTimer | wokenCtx | done =>
      simp only [step, hpc]
      apply gapInv_frame rescan passes s _ h (by rfl) (by rfl) (by rfl) (by simp) <;> simp [due, hpc]
  | drop =>
    simp only [step]
    split
    · split
      · rename_i hcur
        apply gapInv_frame rescan passes s _ h (by rfl) (by rfl) (by simp [hcur]) (by simp)
        · intro D hD; exact ⟨D, hD, Nat.le_refl _⟩
        · exact id
      · exact h
    · exact h
  | proc c =>
    cases hpc : s.pc with
    | read =>
      cases hcur : s.cur with
      | none =>
        by_cases hc : s.cancelled = true
        · have : step rescan passes (.proc c) s = arm rescan s := by simp [step, hpc, hcur, hc]
          rw [this]; exact gapInv_arm rescan passes s h hpc
        · have : step rescan passes (.proc c) s = s := by simp [step, hpc, hcur, hc]
          rw [this]; exact h
      | some l =>
        cases l with
        | nil =>
          have : step rescan passes (.proc c) s = arm rescan s := by simp [step, hpc, hcur]
          rw [this]; exact gapInv_arm rescan passes s h hpc
        | cons x xs =>
          by_cases hc : (s.cancelled && c) = true
          · have : step rescan passes (.proc c) s = arm rescan s := by simp only [step, hpc, hcur, hc]; simp
            rw [this]; exact gapInv_arm rescan passes s h hpc
          · have : step rescan passes (.proc c) s = { s with cur := some xs, pc := .write x } := by
              simp only [step, hpc, hcur, hc]; simp
            rw [this]
            apply gapInv_frame rescan passes s _ h (by rfl) (by rfl) (by simp [hcur]) (by simp) <;> simp [due, hpc]
    | write x =>
      have : ∃ o, step rescan passes (.proc c) s = { s with pc := .read, out := o } := by
        by_cases hc : (s.cancelled && c) = true
        · exact ⟨s.out, by simp only [step, hpc, hc]; simp⟩
        · exact ⟨s.out ++ [x], by simp only [step, hpc, hc]; simp⟩
      obtain ⟨o, ho⟩ := this
      rw [ho]
      apply gapInv_frame rescan passes s _ h (by rfl) (by rfl) (by rfl) (by simp) <;> simp [due, hpc]
    | wait d =>
      have : step rescan passes (.proc c) s = s := by simp [step, hpc]
      rw [this]; exact h
    | both =>
      by_cases hc : c = true
      · have : step rescan passes (.proc c) s = { s with pc := .done } := by simp [step, hpc, hc]
        rw [this]
        apply gapInv_frame rescan passes s _ h (by rfl) (by rfl) (by rfl) (by simp) <;> simp [due, hpc]
      · have : step rescan passes (.proc c) s = regen passes s := by simp [step, hpc, hc]
        rw [this]; exact gapInv_regen rescan passes s h (Or.inr hpc)
    | wokenTimer =>
      have : step rescan passes (.proc c) s = regen passes s := by simp [step, hpc]
      rw [this]; exact gapInv_regen rescan passes s h (Or.inl hpc)
    | wokenCtx =>
      have : step rescan passes (.proc c) s = { s with pc := .done } := by simp [step, hpc]
      rw [this]
      apply gapInv_frame rescan passes s _ h (by rfl) (by rfl) (by rfl) (by simp) <;> simp [due, hpc]
    | done =>
      have : step rescan passes (.proc c) s = s := by simp [step, hpc]
      rw [this]; exact h

theorem gapInv_run (evs : List Ev) (s : State α) (h : GapInv rescan passes s) :
    GapInv rescan passes (run rescan passes evs s) := by
  induction evs generalizing s with
  | nil => exact h
  | cons e evs ih => rw [run_cons]; exact ih _ (gapInv_step rescan passes e s h)

/-- **rescan interval**: for every schedule — any timing, any cancel point — call `k+1` of the
    delegate (whether it starts a pass or fails) happens at least `rescan` after the generator stopped
    reading pass `k`, which it has.  Logged times never lie in the future and concern calls made. -/
theorem gap (t0 : Nat) (s0 : State α) (h0 : init passes t0 = some s0) (evs : List Ev) :
    let s := run rescan passes evs s0
    (∀ k t', callOf s.log (k + 1) = some t' → (passes k).isSome →
      ∃ t, endOf s.log k = some t ∧ t + rescan ≤ t') ∧
    (∀ k t, (callOf s.log k = some t ∨ endOf s.log k = some t) → k < s.next ∧ t ≤ s.clock) := by
  have h := gapInv_run rescan passes evs s0 (gapInv_init rescan passes t0 s0 h0)
  exact ⟨h.gaps, h.marks⟩

end SxVerif.Proofs.Live
