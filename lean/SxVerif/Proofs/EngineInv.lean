/-
Structural invariants of the engine transition system (hold on EVERY path, cancelled or not):
close discipline, WaitGroup discipline, capacities, no panic.
-/
import SxVerif.Proofs.EngineStep

namespace SxVerif.Engine

@[simp] theorem allExited_nil : allExited [] = true := rfl
@[simp] theorem allExited_cons (w : WPc) (ws : List WPc) : allExited (w :: ws) = (w.isExited && allExited ws) := by
  simp [allExited]
@[simp] theorem allExited_append (a b : List WPc) : allExited (a ++ b) = (allExited a && allExited b) := by
  simp [allExited]
@[simp] theorem isExited_exited : WPc.isExited .exited = true := rfl
@[simp] theorem isExited_idle : WPc.isExited .idle = false := rfl
@[simp] theorem isExited_got (r : Req) : WPc.isExited (.got r) = false := rfl
@[simp] theorem isExited_sendErr (r : Req) : WPc.isExited (.sendErr r) = false := rfl
@[simp] theorem isExited_put (r : Req) : WPc.isExited (.put r) = false := rfl
@[simp] theorem isExited_afterScan (r : Req) : WPc.isExited (afterScan r) = false := by
  unfold afterScan; cases r.out <;> rfl

structure Inv0 (c : Cfg) (s : Sys) : Prop where
  reqClosed : s.reqClosed = true → s.pending = []
  wlen : s.workers.length ≤ c.W
  supDone : s.sup ≠ .running → s.workers.length = c.W ∧ allExited s.workers = true
  errcClosed : s.errcClosed = true ↔ (s.sup = .closingDone ∨ s.sup = .finished)
  doneClosed : s.doneClosed = true ↔ s.sup = .finished
  resClosed : s.resClosed = true ↔ s.cop = .exited
  noPanic : s.panicked = false
  capErr : s.errc.length ≤ c.capErr
  capInt : s.intRes.length ≤ c.capRes
  capRes : s.results.length ≤ c.capRes

theorem inv0_init (c : Cfg) (reqs : List Req) (ext : List (Nat × Nat)) : Inv0 c (init reqs ext) := by
  constructor <;> simp [init]

theorem inv0_step {c : Cfg} {s s' : Sys} (h : Inv0 c s) (hs : StepR c s s') : Inv0 c s' := by
  obtain ⟨h1, h2, h3, h4, h5, h6, h7, h8, h9, h10⟩ := h
  cases hs <;> constructor <;> simp_all <;> omega

theorem inv0 {c : Cfg} {reqs : List Req} {ext : List (Nat × Nat)} {s : Sys}
    (hr : Reachable c (init reqs ext) s) : Inv0 c s :=
  Reachable.inv (Inv0 c) (inv0_init c reqs ext) (fun _ _ _ h hs => inv0_step h hs) s hr

end SxVerif.Engine
