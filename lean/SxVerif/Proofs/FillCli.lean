/-
Lemmas for C05, CLI side: the flag set a list of `--flags` names gives the TCP filler is the set the names
denote (over the table regenerated from command/tcp.go and pkg/scan/tcp/tcp.go), and the values the
IP-flag parser can return fit the 3-bit field.
-/
import SxVerif.Model.Fill
import SxVerif.Spec.Fill
import SxVerif.Spec.Parse
import SxVerif.Generated.Flags

namespace SxVerif.Proofs.Fill
open SxVerif.Fill SxVerif.Spec.Fill SxVerif.Generated

theorem optionBit_table : ∀ n ∈ tcpFlagTable.map (·.1), optionBit tcpFlagTable n = rfcFlagBit n ∧ rfcFlagBit n < 512 := by
  decide

theorem or_lt_512 {a b : Nat} (ha : a < 512) (hb : b < 512) : a ||| b < 512 :=
  Nat.or_lt_two_pow (n := 9) ha hb

theorem flags_foldl (names : List String) (h : ∀ n ∈ names, n ∈ tcpFlagTable.map (·.1)) (acc : Nat) (hacc : acc < 512) :
    names.foldl (fun acc n => acc ||| optionBit tcpFlagTable n) acc = names.foldl (fun acc n => acc ||| rfcFlagBit n) acc ∧
    names.foldl (fun acc n => acc ||| rfcFlagBit n) acc < 512 := by
  induction names generalizing acc with
  | nil => exact ⟨rfl, hacc⟩
  | cons n rest ih =>
    obtain ⟨e, hlt⟩ := optionBit_table n (h n (by simp))
    simp only [List.foldl_cons, e]
    exact ih (fun m hm => h m (by simp [hm])) _ (or_lt_512 hacc hlt)

theorem cli_flags (names : List String) (h : ∀ n ∈ names, n ∈ tcpFlagTable.map (·.1)) :
    flagsOfNames tcpFlagTable names = flagSet names ∧ flagSet names < 512 :=
  flags_foldl names h 0 (by omega)

theorem ipflag_table : ∀ e ∈ ipFlagTable, e.2 < 8 := by decide

theorem or_lt_8 {a b : Nat} (ha : a < 8) (hb : b < 8) : a ||| b < 8 :=
  Nat.or_lt_two_pow (n := 3) ha hb

theorem ipflags_foldl (names : List String) (acc : Option Nat) (hacc : ∀ v, acc = some v → v < 8) (v : Nat)
    (h : names.foldl (fun acc n => match acc, ipFlagTable.find? (fun e => e.1 == n) with
      | some v, some e => some (v ||| e.2)
      | _, _ => none) acc = some v) : v < 8 := by
  induction names generalizing acc with
  | nil => exact hacc v h
  | cons n rest ih =>
    simp only [List.foldl_cons] at h
    refine ih _ ?_ h
    intro w hw
    split at hw
    · rename_i _ _ a e he
      cases hw
      exact or_lt_8 (hacc _ rfl) (ipflag_table e (List.mem_of_find?_eq_some he))
    · cases hw

theorem cli_ipflags (names : List String) (v : Nat) (h : Spec.Parse.flagBits ipFlagTable names = some v) : v < 8 :=
  ipflags_foldl names (some 0) (by intro w hw; cases hw; omega) v h

end SxVerif.Proofs.Fill
