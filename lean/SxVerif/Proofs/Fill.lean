/-
Lemmas for C05 (`Props/C05.lean`).  Parts: `Fill1` (bytes, RFC 1071 sums, IPv4 header), `Fill2` (Ethernet
framing, TCP segment), `Fill3` (TCP probe), `Fill4` (overrides, UDP probe), `Fill5` (ICMP probe, ARP request),
`FillCli` (flag names → flag set).  Here: address forms and refusals.
-/
import SxVerif.Proofs.Fill5
import SxVerif.Proofs.FillCli

namespace SxVerif.Proofs.Fill
open SxVerif.Frame (Bytes)
open SxVerif.Fill SxVerif.Spec.Fill SxVerif.Generated

/-- the 16-byte IPv4-mapped form of an address is read as the address -/
theorem to4_mapped (a : Bytes) (h : a.length = 4) : to4 ([0, 0, 0, 0, 0, 0, 0, 0, 0, 0, 0xff, 0xff] ++ a) = some a := by
  simp [to4, h]

/-- the fillers see the addresses of a request only through `To4` -/
theorem addr_form_tcp (vpn : Bool) (flags : Nat) (r r' : Req) (a b c : Nat)
    (hs : to4 r.srcIP = to4 r'.srcIP) (hd : to4 r.dstIP = to4 r'.dstIP)
    (hm : r.srcMAC = r'.srcMAC ∧ r.dstMAC = r'.dstMAC ∧ r.dstPort = r'.dstPort) :
    fillTCP vpn flags r a b c = fillTCP vpn flags r' a b c := by
  simp only [fillTCP, withLink, hs, hd, hm.1, hm.2.1, hm.2.2]

theorem addr_form_udp (o : IPOpts) (r r' : Req) (a b : Nat)
    (hs : to4 r.srcIP = to4 r'.srcIP) (hd : to4 r.dstIP = to4 r'.dstIP)
    (hm : r.srcMAC = r'.srcMAC ∧ r.dstMAC = r'.dstMAC ∧ r.dstPort = r'.dstPort) :
    fillUDP o r a b = fillUDP o r' a b := by
  simp only [fillUDP, withLink, hs, hd, hm.1, hm.2.1, hm.2.2]

theorem addr_form_icmp (o : IPOpts) (t c : Nat) (r r' : Req) (a b : Nat)
    (hs : to4 r.srcIP = to4 r'.srcIP) (hd : to4 r.dstIP = to4 r'.dstIP)
    (hm : r.srcMAC = r'.srcMAC ∧ r.dstMAC = r'.dstMAC) :
    fillICMP o t c r a b = fillICMP o t c r' a b := by
  simp only [fillICMP, withLink, hs, hd, hm.1, hm.2]

/-- a request without a usable IPv4 source or destination, or (with an Ethernet header) without 6-byte
    MACs, never yields a frame -/
theorem refused_tcp (vpn : Bool) (flags : Nat) (r : Req) (a b c : Nat)
    (h : to4 r.srcIP = none ∨ to4 r.dstIP = none ∨ (vpn = false ∧ (r.srcMAC.length ≠ 6 ∨ r.dstMAC.length ≠ 6))) :
    ∃ e, fillTCP vpn flags r a b c = .error e := by
  unfold fillTCP
  rcases h with h | h | ⟨rfl, h⟩
  · simp [h]
  · cases hs : to4 r.srcIP <;> simp [h]
  · cases hs : to4 r.srcIP <;> cases hd : to4 r.dstIP <;> simp [withLink]
    rcases h with h | h
    · by_cases h' : r.dstMAC.length = 6 <;> simp [h, h']
    · simp [h]

theorem refused_udp (o : IPOpts) (r : Req) (a b : Nat)
    (h : to4 r.srcIP = none ∨ to4 r.dstIP = none ∨ (o.vpn = false ∧ (r.srcMAC.length ≠ 6 ∨ r.dstMAC.length ≠ 6))) :
    ∃ e, fillUDP o r a b = .error e := by
  unfold fillUDP
  rcases h with h | h | ⟨hv, h⟩
  · simp [h]
  · cases hs : to4 r.srcIP <;> simp [h]
  · cases hs : to4 r.srcIP <;> cases hd : to4 r.dstIP <;> simp [withLink, hv]
    rcases h with h | h
    · by_cases h' : r.dstMAC.length = 6 <;> simp [h, h']
    · simp [h]

theorem refused_icmp (o : IPOpts) (t c : Nat) (r : Req) (a b : Nat)
    (h : to4 r.srcIP = none ∨ to4 r.dstIP = none ∨ (o.vpn = false ∧ (r.srcMAC.length ≠ 6 ∨ r.dstMAC.length ≠ 6))) :
    ∃ e, fillICMP o t c r a b = .error e := by
  unfold fillICMP
  rcases h with h | h | ⟨hv, h⟩
  · simp [h]
  · cases hs : to4 r.srcIP <;> simp [h]
  · cases hs : to4 r.srcIP <;> cases hd : to4 r.dstIP <;> simp [withLink, hv]
    rcases h with h | h
    · by_cases h' : r.dstMAC.length = 6 <;> simp [h, h']
    · simp [h]

/-- `tcp --flags names`: the header carries exactly the named flags -/
theorem tcp_cli (vpn : Bool) (names : List String) (r : Req) (rndId rndPort rndSeq : Nat)
    (h : ∀ n ∈ names, n ∈ tcpFlagTable.map (·.1))
    (hr : ReqOK vpn r.srcIP r.dstIP r.srcMAC r.dstMAC r.dstPort)
    (hid : rndId < 65535) (hp : rndPort < 28232) (hs : rndSeq < 2 ^ 32) :
    ∃ frame t, fillTCP vpn (flagsOfNames tcpFlagTable names) r rndId rndPort rndSeq = .ok frame ∧
      tcpFields ((datagram vpn frame 52).drop 20) = some t ∧ t.flags = flagSet names := by
  obtain ⟨e, hlt⟩ := cli_flags names h
  obtain ⟨frame, hok, -, -, -, -, ht, -⟩ := tcp_ok vpn (flagsOfNames tcpFlagTable names) r rndId rndPort rndSeq hr (e ▸ hlt) hid hp hs
  exact ⟨frame, _, hok, ht, e⟩

end SxVerif.Proofs.Fill
