/-
Lemmas for C19, part 2: cancellation closes the output within a bounded number of the generator's own
steps (`rescan > 0`), a closed output stays closed, and a pass that fails to start parks the generator.
Core Lean only.
-/
import SxVerif.Proofs.Live1

namespace SxVerif.Proofs.Live
open SxVerif.Live

variable {α : Type} (rescan : Nat) (passes : Nat → Option (List α))

/-! ### after a cancel -/

/-- number of its own steps the generator needs at most to close `out` once the context is cancelled -/
def rankC (s : State α) : Nat :=
  match s.pc with
  | .done => 0
  | .wokenCtx => 1
  | .read => 2 * (s.cur.getD []).length + 2
  | .write _ => 2 * (s.cur.getD []).length + 3
  | .wokenTimer => 2 * (passList passes s.next).length + 3
  | .both => 2 * (passList passes s.next).length + 3
  | .wait _ => 0

/-- cancelled, hence not parked on the timer -/
def CInv (s : State α) : Prop := s.cancelled = true ∧ ∀ d, s.pc ≠ .wait d

def isProc : Ev → Bool
  | .proc _ => true
  | _ => false

theorem countProc_cons (e : Ev) (evs : List Ev) :
    countProc (e :: evs) = (if isProc e then 1 else 0) + countProc evs := by
  cases e <;> simp [countProc, isProc] <;> omega

theorem cinv_cancel (s : State α) : CInv (step rescan passes .cancel s) := by
  cases hpc : s.pc <;> simp [CInv, step, hpc]

theorem armPc_cancelled (hr : 0 < rescan) (s : State α) (h : s.cancelled = true) : armPc rescan s = .wokenCtx := by
  have : rescan ≠ 0 := by omega
  simp [armPc, h, this]

theorem cstep (hr : 0 < rescan) (e : Ev) (s : State α) (h : CInv s) :
    CInv (step rescan passes e s) ∧
      rankC passes (step rescan passes e s) ≤ rankC passes s - (if isProc e then 1 else 0) := by
  obtain ⟨hc, hw⟩ := h
  cases e with
  | tick n =>
    cases hpc : s.pc with
    | wait d => exact absurd hpc (hw d)
    | read | write _ | both | wokenTimer | wokenCtx | done => simp [CInv, step, hpc, hc, rankC, isProc]
  | cancel =>
    cases hpc : s.pc with
    | wait d => exact absurd hpc (hw d)
    | read | write _ | both | wokenTimer | wokenCtx | done => simp [CInv, step, hpc, rankC, isProc]
  | drop =>
    cases hcur : s.cur with
    | none => simpa [CInv, step, hc, hcur, isProc] using hw
    | some l =>
      cases l with
      | nil => simpa [CInv, step, hc, hcur, isProc] using hw
      | cons x xs =>
        cases hpc : s.pc with
        | wait d => exact absurd hpc (hw d)
        | read | write _ | both | wokenTimer | wokenCtx | done =>
          simp [CInv, step, hc, hcur, isProc, hpc, rankC] <;> omega
  | proc c =>
    cases hpc : s.pc with
    | wait d => exact absurd hpc (hw d)
    | read =>
      cases hcur : s.cur with
      | none =>
        simp [CInv, step, hpc, hcur, hc, isProc, rankC, armPc_cancelled rescan hr s hc]
      | some l =>
        cases l with
        | nil => simp [CInv, step, hpc, hcur, hc, isProc, rankC, armPc_cancelled rescan hr s hc]
        | cons x xs =>
          cases c
          · simp [CInv, step, hpc, hcur, hc, isProc, rankC]; omega
          · simp [CInv, step, hpc, hcur, hc, isProc, rankC, armPc_cancelled rescan hr s hc]
    | write x =>
      cases c <;> simp [CInv, step, hpc, hc, isProc, rankC]
    | both =>
      cases c <;> simp [CInv, step, hpc, hc, isProc, rankC, passList]
    | wokenTimer => simp [CInv, step, hpc, hc, isProc, rankC, passList]
    | wokenCtx => simp [CInv, step, hpc, hc, isProc, rankC]
    | done => simp [CInv, step, hpc, hc, isProc, rankC]

theorem crun (hr : 0 < rescan) (evs : List Ev) (s : State α) (h : CInv s) :
    CInv (run rescan passes evs s) ∧
      rankC passes (run rescan passes evs s) ≤ rankC passes s - countProc evs := by
  induction evs generalizing s with
  | nil => exact ⟨h, by simp [run_nil, countProc]⟩
  | cons e evs ih =>
    obtain ⟨h1, hr1⟩ := cstep rescan passes hr e s h
    obtain ⟨h2, hr2⟩ := ih _ h1
    rw [run_cons, countProc_cons]
    exact ⟨h2, by omega⟩

theorem closed_of_rank_zero (s : State α) (h : CInv s) (hz : rankC passes s = 0) : closed s = true := by
  obtain ⟨_, hw⟩ := h
  cases hpc : s.pc with
  | wait d => exact absurd hpc (hw d)
  | done => simp [closed, hpc]
  | read | write _ | both | wokenTimer | wokenCtx => simp [rankC, hpc] at hz

/-- the bound, spelled out: twice the longer of (what is left of the current pass, the next pass) + 3 -/
theorem rankC_le (s : State α) :
    rankC passes s ≤ 2 * max (s.cur.getD []).length (passList passes s.next).length + 3 := by
  cases hpc : s.pc <;> simp [rankC, hpc] <;> omega

/-- **cancel ⇒ closed within bounded steps**: from any state, once the context is cancelled, `out` is
    closed after at most `rankC` steps of the generator goroutine, whatever else happens meanwhile
    (time passing, the delegate giving up items, either outcome of every racing `select`) -/
theorem cancel_closes (hr : 0 < rescan) (s : State α) (post : List Ev)
    (hn : rankC passes (step rescan passes .cancel s) ≤ countProc post) :
    closed (run rescan passes post (step rescan passes .cancel s)) = true := by
  obtain ⟨h, hrk⟩ := crun rescan passes hr post _ (cinv_cancel rescan passes s)
  exact closed_of_rank_zero passes _ h (by omega)

/-- a closed output stays closed and nothing more is sent or requested -/
theorem done_stable (e : Ev) (s : State α) (h : s.pc = .done) :
    (step rescan passes e s).pc = .done ∧ (step rescan passes e s).out = s.out ∧
      (step rescan passes e s).next = s.next := by
  cases e with
  | tick n => simp [step, h]
  | cancel => simp [step, h]
  | drop => simp only [step]; split <;> (try split) <;> simp [h]
  | proc c => simp [step, h]

theorem done_stable_run (evs : List Ev) (s : State α) (h : s.pc = .done) :
    (run rescan passes evs s).pc = .done ∧ (run rescan passes evs s).out = s.out ∧
      (run rescan passes evs s).next = s.next := by
  induction evs generalizing s with
  | nil => exact ⟨h, rfl, rfl⟩
  | cons e evs ih =>
    obtain ⟨h1, h2, h3⟩ := done_stable rescan passes e s h
    obtain ⟨h4, h5, h6⟩ := ih _ h1
    rw [run_cons]
    exact ⟨h4, h5.trans h2, h6.trans h3⟩

/-- after a cancel at most one more pass is requested, and only if its timer had already fired -/
def budget (s : State α) : Nat := match s.pc with | .wokenTimer => 1 | .both => 1 | _ => 0

theorem cstep_next (hr : 0 < rescan) (e : Ev) (s : State α) (h : CInv s) :
    (step rescan passes e s).next + budget (step rescan passes e s) ≤ s.next + budget s := by
  obtain ⟨hc, hw⟩ := h
  cases e with
  | tick n =>
    cases hpc : s.pc with
    | wait d => exact absurd hpc (hw d)
    | read | write _ | both | wokenTimer | wokenCtx | done => simp [step, hpc, budget]
  | cancel =>
    cases hpc : s.pc with
    | wait d => exact absurd hpc (hw d)
    | read | write _ | both | wokenTimer | wokenCtx | done => simp [step, hpc, budget]
  | drop =>
    simp only [step, hc, if_true]
    split <;> simp [budget]
  | proc c =>
    cases hpc : s.pc with
    | wait d => exact absurd hpc (hw d)
    | read =>
      cases hcur : s.cur with
      | none => simp [step, hpc, hcur, hc, budget, armPc_cancelled rescan hr s hc]
      | some l =>
        cases l with
        | nil => simp [step, hpc, hcur, budget, armPc_cancelled rescan hr s hc]
        | cons x xs =>
          cases c <;> simp [step, hpc, hcur, hc, budget, armPc_cancelled rescan hr s hc]
    | write x => cases c <;> simp [step, hpc, hc, budget]
    | both => cases c <;> simp [step, hpc, hc, budget]
    | wokenTimer => simp [step, hpc, budget]
    | wokenCtx => simp [step, hpc, budget]
    | done => simp [step, hpc, budget]

theorem crun_next (hr : 0 < rescan) (evs : List Ev) (s : State α) (h : CInv s) :
    (run rescan passes evs s).next ≤ s.next + budget s := by
  induction evs generalizing s with
  | nil => simp [run_nil]
  | cons e evs ih =>
    have h1 := (cstep rescan passes hr e s h).1
    have := ih _ h1
    have := cstep_next rescan passes hr e s h
    rw [run_cons]; omega

/-! ### a pass that fails to start -/

/-- no cancel so far; at most the failing call has been made; and once it has, the generator sits in
    `readRequest` on the nil channel -/
structure ParkInv (k : Nat) (s : State α) : Prop where
  notCancelled : s.cancelled = false
  le : s.next ≤ k + 1
  parked : s.next = k + 1 → s.pc = .read ∧ s.cur = none

theorem parkInv_step (k : Nat) (hk : passes k = none) (e : Ev) (he : e ≠ .cancel) (s : State α)
    (h : ParkInv k s) : ParkInv k (step rescan passes e s) := by
  obtain ⟨hc, hle, hp⟩ := h
  by_cases hn : s.next = k + 1
  · obtain ⟨hpc, hcur⟩ := hp hn
    have : ∀ s' : State α, s'.cancelled = false → s'.next = s.next → s'.pc = .read → s'.cur = none → ParkInv k s' :=
      fun s' a b c d => ⟨a, by omega, fun _ => ⟨c, d⟩⟩
    cases e with
    | cancel => exact absurd rfl he
    | tick n => apply this <;> simp [step, hpc, hc, hcur]
    | drop => apply this <;> simp [step, hpc, hc, hcur]
    | proc c => apply this <;> simp [step, hpc, hc, hcur]
  · have hlt : s.next ≤ k := by omega
    have keep : ∀ s' : State α, s'.cancelled = false → s'.next = s.next → ParkInv k s' :=
      fun s' a b => ⟨a, by omega, fun h => by omega⟩
    have hregen : ParkInv k (regen passes s) := by
      refine ⟨hc, by simp; omega, fun h => ⟨rfl, ?_⟩⟩
      have : s.next = k := by simpa using h
      simp [this, hk]
    cases e with
    | cancel => exact absurd rfl he
    | tick n => apply keep <;> (simp only [step]; split <;> (try split) <;> simp [hc])
    | drop => apply keep <;> simp [step, hc]
    | proc c =>
      cases hpc : s.pc with
      | read =>
        cases hcur : s.cur with
        | none => apply keep <;> simp [step, hpc, hcur, hc]
        | some l =>
          cases l with
          | nil => apply keep <;> simp [step, hpc, hcur, hc]
          | cons x xs => apply keep <;> simp [step, hpc, hcur, hc]
      | write x => apply keep <;> simp [step, hpc, hc]
      | wait d => apply keep <;> simp [step, hpc, hc]
      | both =>
        cases c
        · simpa [step, hpc] using hregen
        · apply keep <;> simp [step, hpc, hc]
      | wokenTimer => simpa [step, hpc] using hregen
      | wokenCtx => apply keep <;> simp [step, hpc, hc]
      | done => apply keep <;> simp [step, hpc, hc]

theorem parkInv_run (k : Nat) (hk : passes k = none) (evs : List Ev) (he : Ev.cancel ∉ evs) (s : State α)
    (h : ParkInv k s) : ParkInv k (run rescan passes evs s) := by
  induction evs generalizing s with
  | nil => exact h
  | cons e evs ih =>
    rw [run_cons]
    simp only [List.mem_cons, not_or] at he
    exact ih he.2 _ (parkInv_step rescan passes k hk e (fun h => he.1 h.symm) s h)

theorem parkInv_init (k : Nat) (hk : passes k = none) (t0 : Nat) (s0 : State α) (h : init passes t0 = some s0) :
    ParkInv k s0 := by
  unfold init at h
  split at h
  · cases h
  · rename_i l hl
    cases h
    refine ⟨rfl, by simp, fun h => ?_⟩
    have : k = 0 := by simpa using h.symm
    rw [this, hl] at hk; cases hk

/-- **a pass that fails to start parks the generator**: as long as nobody cancels, no further call of
    the delegate is made after the failing call `k`, and from then on the goroutine is blocked in
    `readRequest` on the nil channel — none of its steps is enabled (no busy loop, nothing that could
    panic is executed), only a cancel moves it. -/
theorem failed_pass_parks (k : Nat) (hk : passes k = none) (t0 : Nat) (s0 : State α)
    (h0 : init passes t0 = some s0) (evs : List Ev) (hnc : Ev.cancel ∉ evs) :
    let s := run rescan passes evs s0
    s.next ≤ k + 1 ∧
    (s.next = k + 1 → s.pc = .read ∧ s.cur = none ∧ procEnabled s = false ∧
      ∀ c, step rescan passes (.proc c) s = s) := by
  obtain ⟨hc, hle, hp⟩ := parkInv_run rescan passes k hk evs hnc s0 (parkInv_init passes k hk t0 s0 h0)
  refine ⟨hle, fun hn => ?_⟩
  obtain ⟨hpc, hcur⟩ := hp hn
  exact ⟨hpc, hcur, by simp [procEnabled, hpc, hcur, hc], fun c => by simp [step, hpc, hcur, hc]⟩

/-- … and when the cancel comes, two steps of the goroutine close the output -/
theorem parked_cancel_closes (hr : 0 < rescan) (s : State α) (hpc : s.pc = .read) (hcur : s.cur = none)
    (post : List Ev) (hn : 2 ≤ countProc post) :
    closed (run rescan passes post (step rescan passes .cancel s)) = true := by
  apply cancel_closes rescan passes hr
  have : rankC passes (step rescan passes .cancel s) = 2 := by simp [step, hpc, rankC, hcur]
  omega

end SxVerif.Proofs.Live
