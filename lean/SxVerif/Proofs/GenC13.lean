/-
Lemmas behind C13 (`Props/C13.lean`): the file generators against their per-line expectation, the
two optional stages against `stageOK`, closure of `stageOK` under composition and what a stage does
to errors and probes.  Core Lean only.
-/
import SxVerif.Spec.Gen

namespace SxVerif.Proofs.Gen
open SxVerif.Gen SxVerif.Spec.Gen
open scoped List

/-! ### `handled` -/

theorem handled_nil (stops : Line → Bool) : handled stops [] = 0 := by
  simp [handled]

theorem handled_cons_stop (stops : Line → Bool) (l : Line) (ls : List Line) (h : stops l = true) :
    handled stops (l :: ls) = 1 := by
  simp [handled, List.findIdx?_cons, h]

theorem handled_cons_go (stops : Line → Bool) (l : Line) (ls : List Line) (h : stops l = false) :
    handled stops (l :: ls) = handled stops ls + 1 := by
  simp only [handled, List.findIdx?_cons, h]
  cases List.findIdx? stops ls <;> simp

/-! ### the file generators -/

theorem validPort_iff (p : Int) : validPort p = true ↔ (0 < p ∧ p ≤ 65535) := by
  simp [validPort]

theorem filePairs_spec (ls : List Line) :
    filePairs ls = (ls.take (handled stopsPairs ls)).map expectPair := by
  induction ls with
  | nil => simp [filePairs]
  | cons l rest ih =>
    cases l with
    | badJson =>
      rw [handled_cons_stop _ _ _ (by rfl)]
      simp [filePairs, expectPair]
    | tooLong =>
      rw [handled_cons_stop _ _ _ (by rfl)]
      simp [filePairs, expectPair]
    | entry ip p =>
      rw [handled_cons_go _ _ _ (by rfl)]
      cases ip with
      | none => simp [filePairs, expectPair, ih]
      | some a =>
        by_cases hp : 0 < p ∧ p ≤ 65535
        · have hv : validPort p = true := (validPort_iff p).2 hp
          simp [filePairs, expectPair, hv, hp, ih]
        · have hv : validPort p = false := by
            cases h : validPort p with
            | false => rfl
            | true => exact absurd ((validPort_iff p).1 h) hp
          simp [filePairs, expectPair, hv, hp, ih]

theorem fileIPs_spec (ls : List Line) :
    fileIPs ls = (ls.take (handled stopsAddrs ls)).map expectAddr := by
  induction ls with
  | nil => simp [fileIPs]
  | cons l rest ih =>
    cases l with
    | badJson =>
      rw [handled_cons_stop _ _ _ (by rfl)]
      simp [fileIPs, expectAddr]
    | tooLong =>
      rw [handled_cons_stop _ _ _ (by rfl)]
      simp [fileIPs, expectAddr]
    | entry ip p =>
      cases ip with
      | none =>
        rw [handled_cons_stop _ _ _ (by rfl)]
        simp [fileIPs, expectAddr]
      | some a =>
        rw [handled_cons_go _ _ _ (by rfl)]
        simp [fileIPs, expectAddr, ih]

/-! ### stages -/

theorem stage_nil {stage : List Req → List Req} (h : stageOK stage) : stage [] = [] := by
  have h1 := h.1 [] []
  have h2 := congrArg List.length h1
  simp only [List.append_nil, List.length_append] at h2
  exact List.eq_nil_of_length_eq_zero (by omega)

theorem stage_cons {stage : List Req → List Req} (h : stageOK stage) (r : Req) (rs : List Req) :
    stage (r :: rs) = stage [r] ++ stage rs := by
  have := h.1 [r] rs
  simpa using this

theorem stage_eq_flatMap {stage : List Req → List Req} (h : stageOK stage) (rs : List Req) :
    stage rs = rs.flatMap (fun r => stage [r]) := by
  induction rs with
  | nil => simpa using stage_nil h
  | cons r rs ih => rw [stage_cons h, List.flatMap_cons, ih]

theorem stageOK_id : stageOK id :=
  ⟨fun _ _ => rfl, fun _ _ => rfl, fun r _ => Or.inr ⟨r, rfl, rfl, rfl, Or.inl ‹_›⟩⟩

theorem stageOK_comp {f g : List Req → List Req} (hf : stageOK f) (hg : stageOK g) :
    stageOK (g ∘ f) := by
  refine ⟨fun a b => ?_, fun r hr => ?_, fun r hr => ?_⟩
  · simp only [Function.comp_apply, hf.1, hg.1]
  · simp only [Function.comp_apply, hf.2.1 r hr, hg.2.1 r hr]
  · simp only [Function.comp_apply]
    rcases hf.2.2 r hr with h0 | ⟨r', h1, hd, hp, he⟩
    · left; rw [h0, stage_nil hg]
    · rw [h1]
      rcases he with he | he
      · rcases hg.2.2 r' he with g0 | ⟨r'', g1, gd, gp, ge⟩
        · exact Or.inl g0
        · exact Or.inr ⟨r'', g1, gd.trans hd, gp.trans hp, ge⟩
      · have : r'.err ≠ none := by rw [he]; exact fun h => nomatch h
        exact Or.inr ⟨r', hg.2.1 r' this, hd, hp, Or.inr he⟩

theorem filterStage_ok (excl : List (Nat × Nat)) : stageOK (filterStage excl) := by
  refine ⟨fun a b => ?_, fun r hr => ?_, fun r hr => ?_⟩
  · simp [filterStage]
  · cases he : r.err with
    | none => exact absurd he hr
    | some c => simp [filterStage, he]
  · cases hd : r.dst with
    | none => exact Or.inr ⟨r, by simp [filterStage, hr, hd], hd.symm ▸ rfl, rfl, Or.inl hr⟩
    | some a =>
      cases hx : excluded excl a with
      | true => exact Or.inl (by simp [filterStage, hr, hd, hx])
      | false => exact Or.inr ⟨r, by simp [filterStage, hr, hd, hx], hd.symm ▸ rfl, rfl, Or.inl hr⟩

theorem cacheStage_ok (cache : List (Addr × Nat)) (gw : Option Nat) :
    stageOK (cacheStage cache gw) := by
  refine ⟨fun a b => ?_, fun r hr => ?_, fun r hr => ?_⟩
  · simp [cacheStage]
  · cases he : r.err with
    | none => exact absurd he hr
    | some c => simp [cacheStage, he]
  · right
    cases hd : r.dst with
    | none =>
      exact ⟨{ r with err := some .noMAC }, by simp [cacheStage, hr, hd], hd, rfl, Or.inr rfl⟩
    | some a =>
      cases hc : cacheGet cache a with
      | some m =>
        exact ⟨{ r with dstMAC := some m }, by simp [cacheStage, hr, hd, hc], hd, rfl, Or.inl hr⟩
      | none =>
        cases gw with
        | some g =>
          exact ⟨{ r with dstMAC := some g }, by simp [cacheStage, hr, hd, hc], hd, rfl, Or.inl hr⟩
        | none =>
          exact ⟨{ r with err := some .noMAC }, by simp [cacheStage, hr, hd, hc], hd, rfl, Or.inr rfl⟩

/-! ### what a stage does to errors and probes -/

theorem probes_append (a b : List Req) : probes (a ++ b) = probes a ++ probes b := by
  simp [probes]

theorem errors_survive_one {stage : List Req → List Req} (h : stageOK stage) (r : Req) :
    (stage [r]).filter (fun r => r.err.isSome && r.err != some .noMAC)
      = [r].filter (fun r => r.err.isSome && r.err != some .noMAC) ∧
    probes (stage [r]) <+ probes [r] := by
  by_cases hr : r.err = none
  · rcases h.2.2 r hr with h0 | ⟨r', h1, hd, hp, he⟩
    · rw [h0]; simp [hr, probes]
    · rw [h1]
      rcases he with he | he
      · refine ⟨by simp [hr, he], ?_⟩
        simp only [probes, List.filterMap_cons, List.filterMap_nil, hr, he, hd, hp]
        exact List.Sublist.refl _
      · refine ⟨by simp [hr, he], ?_⟩
        simp [probes, he]
  · rw [h.2.1 r hr]
    exact ⟨rfl, List.Sublist.refl _⟩

theorem errors_survive (stage : List Req → List Req) (h : stageOK stage) (rs : List Req) :
    (stage rs).filter (fun r => r.err.isSome && r.err != some .noMAC)
      = rs.filter (fun r => r.err.isSome && r.err != some .noMAC) ∧
    probes (stage rs) <+ probes rs := by
  induction rs with
  | nil => rw [stage_nil h]; exact ⟨rfl, List.Sublist.refl _⟩
  | cons r rs ih =>
    have h1 := errors_survive_one h r
    rw [stage_cons h]
    constructor
    · rw [List.filter_append, h1.1, ih.1, ← List.filter_append, List.singleton_append]
    · rw [probes_append]
      have : probes (r :: rs) = probes [r] ++ probes rs := probes_append [r] rs
      rw [this]
      exact List.Sublist.append h1.2 ih.2

/-! ### the pipelines as the commands build them -/

theorem stage_choice (excl : Option (List (Nat × Nat)))
    (cache : Option (List (Addr × Nat) × Option Nat)) (base : List Req) :
    ∃ stage, stageOK stage ∧
      (match cache with
        | some (c, gw) =>
          (match excl with
            | some e => (Except.ok base : Except Cause (List Req)).map (filterStage e)
            | none => .ok base).map (cacheStage c gw)
        | none =>
          match excl with
            | some e => (Except.ok base : Except Cause (List Req)).map (filterStage e)
            | none => .ok base) = .ok (stage base) := by
  cases cache with
  | none =>
    cases excl with
    | none => exact ⟨id, stageOK_id, rfl⟩
    | some e => exact ⟨filterStage e, filterStage_ok e, rfl⟩
  | some cg =>
    obtain ⟨c, gw⟩ := cg
    cases excl with
    | none => exact ⟨cacheStage c gw, cacheStage_ok c gw, rfl⟩
    | some e =>
      exact ⟨cacheStage c gw ∘ filterStage e, stageOK_comp (filterStage_ok e) (cacheStage_ok c gw), rfl⟩

theorem pipeline_pairs (ls : List Line) (excl : Option (List (Nat × Nat)))
    (cache : Option (List (Addr × Nat) × Option Nat)) (tbl : List SxVerif.RangeIter.Group)
    (dp di : Draws) :
    ∃ stage, stageOK stage ∧
      ipPortRequests tbl { src := .file (fun _ => some ls), ports := [], excl := excl, cache := cache }
          [] dp di 0
        = .ok (stage ((ls.take (handled stopsPairs ls)).map expectPair)) := by
  rw [← filePairs_spec]
  exact stage_choice excl cache (filePairs ls)

theorem pipeline_addrs (ls : List Line) (excl : Option (List (Nat × Nat)))
    (cache : Option (List (Addr × Nat) × Option Nat)) (tbl : List SxVerif.RangeIter.Group)
    (d : Nat × Nat) :
    ∃ stage, stageOK stage ∧
      ipRequests tbl { src := .file (fun _ => some ls), ports := [], excl := excl, cache := cache } d
        = .ok (stage (((ls.take (handled stopsAddrs ls)).map expectAddr).map (fun
            | .ip a => ({ dst := some a } : Req)
            | .err c => { err := some c }))) := by
  rw [← fileIPs_spec]
  exact stage_choice excl cache _

end SxVerif.Proofs.Gen
