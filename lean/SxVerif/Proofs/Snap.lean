/-
Lemmas for C03, part 8 (capture length): the filter on the whole frame followed by the processor on the first
`n` bytes of it reports exactly the reply record of the frame, for every compatible row and every `n` that
covers the longest header chain.
-/
import SxVerif.Proofs.Snap1
import SxVerif.Proofs.Snap2

namespace SxVerif.Proofs.Snap
open SxVerif.Frame SxVerif.Proc SxVerif.Spec.Frame SxVerif.Spec.Reply SxVerif.Proofs.Frame SxVerif.Proofs.Reply
open SxVerif.Bpf SxVerif.Wiring

theorem reportedSnap_eq (e : Expr) (m : LinkMode) (n : Nat) (scan : Scan) (st : State) (f : Bytes) :
    reportedSnap e m n scan st f = if accepts e m f then emitted scan st (f.take n) else none := rfl

/-- the capture length a row's filter function needs is the one its reply kind needs -/
theorem compatible_minCapture (row : Row) (hcompat : Compatible row = true) :
    kindCapture (kindOf row.cmd) = minCapture row.bpf := by
  obtain ⟨cmd, scanName, proc, bpf, pktFilter, pktFlags, engine, bpfVpn, procVpn⟩ := row
  unfold Compatible at hcompat
  simp only at hcompat ⊢
  cases hk : kindOf cmd with
  | tcp syn =>
    simp only [hk, Bool.and_eq_true, beq_iff_eq] at hcompat
    obtain ⟨⟨⟨⟨⟨-, rfl⟩, -⟩, -⟩, -⟩, -⟩ := hcompat
    cases syn <;> rfl
  | icmp =>
    simp only [hk, Bool.and_eq_true, beq_iff_eq] at hcompat
    obtain ⟨⟨⟨-, rfl⟩, -⟩, -⟩ := hcompat
    rfl
  | arp =>
    simp only [hk, Bool.and_eq_true, beq_iff_eq, Bool.not_eq_true'] at hcompat
    obtain ⟨⟨-, rfl⟩, -⟩ := hcompat
    rfl

/-- what is reported is the reply record of the captured bytes — every frame, every length -/
theorem compatible_snap_captured (row : Row) (hcompat : Compatible row = true) (vpn : Bool) {r : Range}
    (hr : RangeOK r = true) (st : State) (f : Bytes) {n : Nat} (hn : minCapture row.bpf ≤ n) :
    ∃ scan, scanOf row vpn = some scan ∧
      reportedSnap (filterOf row.bpf r) (linkOf row vpn) n scan st f =
        replyRecord row.scanName (kindOf row.cmd) r vpn (captured n f) := by
  obtain ⟨scan, hs, he⟩ := compatible_exact row hcompat vpn hr st (f.take n)
  rw [reported_eq, accepts_take _ f n _ (Nat.le_trans (loadEnd_filterOf row.bpf r) hn)] at he
  exact ⟨scan, hs, he⟩

/-- … and that is the reply record of the frame itself unless the frame is offload-wrapped -/
theorem compatible_snap (row : Row) (hcompat : Compatible row = true) (vpn : Bool) {r : Range}
    (hr : RangeOK r = true) (st : State) (f : Bytes) {n : Nat} (hn : minCapture row.bpf ≤ n) (hn' : n ≤ 65535)
    (hw : offloadWrap (kindOf row.cmd) vpn f = false) :
    ∃ scan, scanOf row vpn = some scan ∧
      reportedSnap (filterOf row.bpf r) (linkOf row vpn) n scan st f =
        replyRecord row.scanName (kindOf row.cmd) r vpn f := by
  obtain ⟨scan, hs, he⟩ := compatible_snap_captured row hcompat vpn hr st f hn
  refine ⟨scan, hs, ?_⟩
  rw [he]
  exact replyRecord_take row.scanName (kindOf row.cmd) r vpn f (by rw [compatible_minCapture row hcompat]; exact hn) hn' hw

theorem compatible_snap_history_captured (row : Row) (hcompat : Compatible row = true) (vpn : Bool) {r : Range}
    (hr : RangeOK r = true) (st : State) (fs : List Bytes) {n : Nat} (hn : minCapture row.bpf ≤ n) :
    ∃ scan, scanOf row vpn = some scan ∧
      reportedAllSnap (filterOf row.bpf r) (linkOf row vpn) n scan st fs =
        fs.map (fun f => replyRecord row.scanName (kindOf row.cmd) r vpn (captured n f)) := by
  obtain ⟨scan, hs, -⟩ := compatible_snap_captured row hcompat vpn hr st [] hn
  refine ⟨scan, hs, ?_⟩
  induction fs generalizing st with
  | nil => rfl
  | cons f fs ih =>
    obtain ⟨scan', hs', he⟩ := compatible_snap_captured row hcompat vpn hr st f hn
    rw [hs] at hs'
    injection hs' with e
    subst e
    simp only [reportedAllSnap, List.map_cons, he, ih]

theorem compatible_snap_history (row : Row) (hcompat : Compatible row = true) (vpn : Bool) {r : Range}
    (hr : RangeOK r = true) (st : State) (fs : List Bytes) {n : Nat} (hn : minCapture row.bpf ≤ n) (hn' : n ≤ 65535)
    (hw : ∀ f ∈ fs, offloadWrap (kindOf row.cmd) vpn f = false) :
    ∃ scan, scanOf row vpn = some scan ∧
      reportedAllSnap (filterOf row.bpf r) (linkOf row vpn) n scan st fs =
        fs.map (replyRecord row.scanName (kindOf row.cmd) r vpn) := by
  obtain ⟨scan, hs, he⟩ := compatible_snap_history_captured row hcompat vpn hr st fs hn
  refine ⟨scan, hs, ?_⟩
  rw [he]
  apply List.map_congr_left
  intro f hf
  exact replyRecord_take row.scanName (kindOf row.cmd) r vpn f (by rw [compatible_minCapture row hcompat]; exact hn) hn'
    (hw f hf)

/-! ### from the wire: the kernel's VLAN untagging in front of the socket -/

/-- a frame whose ethertype is neither IPv4 nor ARP has no reply shape on an Ethernet socket -/
theorem replyRecord_other_ethertype (name : String) (k : Kind) (r : Range) {vpn : Bool} {f : Bytes} {et : Nat}
    (hv : k = .arp ∨ vpn = false) (het : u16 f 12 = some et) (h4 : et ≠ 0x0800) (h6 : et ≠ 0x0806) :
    replyRecord name k r vpn f = none := by
  have hoff : ipOffset false f = none := by
    unfold ipOffset
    simp [het, h4]
  unfold replyRecord ReplyShape WellFormedUnfragmented Shape
  cases k with
  | arp =>
    have : arpChain f = none := by
      unfold arpChain
      simp [het, h6]
    simp [this]
  | tcp s =>
    rcases hv with hv | rfl
    · cases hv
    · have : tcpChain false f = none := by unfold tcpChain; simp [hoff]
      simp [this]
  | icmp =>
    rcases hv with hv | rfl
    · cases hv
    · have : icmpChain false f = none := by unfold icmpChain; simp [hoff]
      simp [this]

/-- on an Ethernet socket a compatible row either scans ARP or runs without vpn mode -/
theorem compatible_ethernet (row : Row) (hcompat : Compatible row = true) {vpn : Bool}
    (hm : linkOf row vpn = .ethernet) : kindOf row.cmd = .arp ∨ vpn = false := by
  obtain ⟨cmd, scanName, proc, bpf, pktFilter, pktFlags, engine, bpfVpn, procVpn⟩ := row
  unfold Compatible at hcompat
  unfold linkOf at hm
  simp only at hcompat hm ⊢
  cases hk : kindOf cmd with
  | arp => exact .inl rfl
  | tcp syn =>
    simp only [hk, Bool.and_eq_true, beq_iff_eq] at hcompat
    obtain ⟨⟨-, hb⟩, -⟩ := hcompat
    right
    cases vpn
    · rfl
    · simp [hb] at hm
  | icmp =>
    simp only [hk, Bool.and_eq_true, beq_iff_eq] at hcompat
    obtain ⟨⟨-, hb⟩, -⟩ := hcompat
    right
    cases vpn
    · rfl
    · simp [hb] at hm

/-- **end to end from the wire**: kernel receive path (VLAN tag removed and kept aside), filter, cut to the capture
    length, `ReadPacketData` skipping tagged frames, processor — exactly the reply record of the frame on the wire -/
theorem compatible_wire (row : Row) (hcompat : Compatible row = true) (vpn : Bool) {r : Range}
    (hr : RangeOK r = true) (st : State) (f : Bytes) {n : Nat} (hn : minCapture row.bpf ≤ n) (hn' : n ≤ 65535)
    (hw : offloadWrap (kindOf row.cmd) vpn f = false) :
    ∃ scan, scanOf row vpn = some scan ∧
      reportedWire true (filterOf row.bpf r) (linkOf row vpn) n scan st f =
        replyRecord row.scanName (kindOf row.cmd) r vpn f := by
  obtain ⟨scan, hs, he⟩ := compatible_snap row hcompat vpn hr st f hn hn' hw
  refine ⟨scan, hs, ?_⟩
  unfold reportedWire kernelRx
  cases hm : linkOf row vpn with
  | rawIPv4 =>
    rw [hm] at he
    simpa using he
  | ethernet =>
    rw [hm] at he
    by_cases ht : u16 f 12 = some 0x8100 ∨ u16 f 12 = some 0x88a8
    · have hnone : replyRecord row.scanName (kindOf row.cmd) r vpn f = none := by
        rcases ht with ht | ht
        · exact replyRecord_other_ethertype _ _ r (compatible_ethernet row hcompat hm) ht (by decide) (by decide)
        · exact replyRecord_other_ethertype _ _ r (compatible_ethernet row hcompat hm) ht (by decide) (by decide)
      rw [hnone]
      simp only [ht, if_true]
      by_cases hl : f.length < 20
      · simp only [hl, if_true]
      · simp only [hl, if_false, Bool.and_self, if_true]
    · simp only [ht, if_false]
      simpa using he

end SxVerif.Proofs.Snap
