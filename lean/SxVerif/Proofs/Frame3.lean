/-
Lemmas for C06, part 3: IPv4 → TCP / ICMPv4 decoder pairs against the spec chains, and inversion of the
decoded-layer list into the individual decoder calls.
-/
import SxVerif.Proofs.Frame2

namespace SxVerif.Proofs.Frame
open SxVerif.Frame SxVerif.Proc SxVerif.Spec.Frame

/-- IPv4 then TCP decoders succeeding from offset `o` give the spec's TCP chain -/
theorem ip_tcp_core {vpn : Bool} {f : Bytes} {o : Nat} {st1 st2 st' : State} {p2 p3 : Bytes} {n : LT}
    (ho : ipOffset vpn f = some o)
    (h2 : decodeIPv4 st1 (f.drop o) = .ok st2 .tcp p2) (h3 : decodeTCP st2 p2 = .ok st' n p3)
    (hv : st'.ipVersion = 4) :
    ∃ v, tcpChain vpn f = some v ∧ st'.ipSrc = v.src ∧ st'.tcpSrcPort = v.sport ∧ st'.tcpFlags = v.flags ∧
      v.src.length = 4 := by
  obtain ⟨h20', sp, b12, b13, hsp, hb12, hb13, hdoff, hdoff', hopts, hst', -, -⟩ := decodeTCP_ok h3
  have hv2 : st2.ipVersion = 4 := by rw [hst'] at hv; exact hv
  obtain ⟨h20, ip, ttl, hip, hnx, hp, hle1, hle2, -, hst2⟩ := ipv4_bridge h2 hv2 (by simp)
  have hproto := ipNext_tcp hnx.symm
  have hlen : p2.length = ip.dgEnd - (o + ip.hlen) := by
    rw [hp, List.length_take, List.length_drop]; omega
  rw [hlen] at h20' hdoff'
  rw [hp] at hsp hb12 hb13 hopts
  rw [window_u16 _ (by omega), Nat.add_zero] at hsp
  rw [window_u8 _ (by omega)] at hb12 hb13
  rw [List.take_take, Nat.min_eq_left hdoff', window_drop] at hopts
  refine ⟨_, tcpChain_intro ho hip hproto h20' hb12 hb13 hsp hdoff hdoff' (tcpOptionsOK_imp _ _ hopts), ?_, ?_, ?_,
    src_length h20⟩
  · rw [hst', hst2]
  · rw [hst']
  · rw [hst']

/-- IPv4 then ICMPv4 decoders succeeding from offset `o` give the spec's ICMP chain -/
theorem ip_icmp_core {vpn : Bool} {f : Bytes} {o : Nat} {st1 st2 st' : State} {p2 p3 : Bytes} {n : LT}
    (ho : ipOffset vpn f = some o)
    (h2 : decodeIPv4 st1 (f.drop o) = .ok st2 .icmpv4 p2) (h3 : decodeICMPv4 st2 p2 = .ok st' n p3)
    (hv : st'.ipVersion = 4) :
    ∃ v, icmpChain vpn f = some v ∧ st'.ipSrc = v.src ∧ st'.ipTTL = v.ttl ∧ st'.icmpType = v.typ ∧
      st'.icmpCode = v.code ∧ v.src.length = 4 := by
  obtain ⟨h8, ty, co, hty, hco, hst', -, -⟩ := decodeICMPv4_ok h3
  have hv2 : st2.ipVersion = 4 := by rw [hst'] at hv; exact hv
  obtain ⟨h20, ip, ttl, hip, hnx, hp, hle1, hle2, httl, hst2⟩ := ipv4_bridge h2 hv2 (by simp)
  have hproto := ipNext_icmp hnx.symm
  have hlen : p2.length = ip.dgEnd - (o + ip.hlen) := by
    rw [hp, List.length_take, List.length_drop]; omega
  rw [hlen] at h8
  rw [hp] at hty hco
  rw [window_u8 _ (by omega)] at hty hco
  rw [Nat.add_zero] at hty
  refine ⟨_, icmpChain_intro ho hip hproto h8 httl hty hco, ?_, ?_, ?_, ?_, src_length h20⟩
  · rw [hst', hst2]
  · rw [hst', hst2]
  · rw [hst']
  · rw [hst']

/-! ### inverting the decoded-layer list -/

theorem chain3 {a b c : LT} {st st' : State} {d : Bytes} {t : LT} (h : Chain t st d st' [a, b, c]) :
    t = a ∧ ∃ st1 p1 st2 p2 n p3, decodeLayer a st d = .ok st1 b p1 ∧ decodeLayer b st1 p1 = .ok st2 c p2 ∧
      decodeLayer c st2 p2 = .ok st' n p3 := by
  cases h with
  | cons h1 hc =>
    cases hc with
    | cons h2 hc =>
      cases hc with
      | last h3 => exact ⟨rfl, _, _, _, _, _, _, h1, h2, h3⟩
      | cons h3 hc => cases hc

theorem chain2 {a b : LT} {st st' : State} {d : Bytes} {t : LT} (h : Chain t st d st' [a, b]) :
    t = a ∧ ∃ st1 p1 n p2, decodeLayer a st d = .ok st1 b p1 ∧ decodeLayer b st1 p1 = .ok st' n p2 := by
  cases h with
  | cons h1 hc =>
    cases hc with
    | last h2 => exact ⟨rfl, _, _, _, _, h1, h2⟩
    | cons h2 hc => cases hc

theorem decodeLayers_chain {reg : List LT} {first : LT} {st st' : State} {d : Bytes} {dec : List LT}
    (h : decodeLayers reg first st d = .ok st' dec) : dec = [] ∨ Chain first st d st' dec := by
  unfold decodeLayers at h
  split at h
  · injection h with _ e; exact .inl e.symm
  · obtain ⟨rest, hr, hc⟩ := decodeLoop_chain _ _ _ _ _ _ _ _ h
    rw [List.nil_append] at hr
    subst hr
    exact .inr hc

end SxVerif.Proofs.Frame
