/-
Lemmas for C05, part 2: Ethernet framing, link-mode wrapper, the TCP segment.
-/
import SxVerif.Proofs.Fill1
namespace SxVerif.Proofs.Fill
open SxVerif.Frame (Bytes u8 u16 u32)
open SxVerif.Fill SxVerif.Spec.Fill

theorem ethFrame_eq (dst src : Bytes) (et : Nat) (p : Bytes) (hd : dst.length = 6) (hs : src.length = 6) :
    ∃ hdr : Bytes, hdr.length = 14 ∧ hdr.take 6 = dst ∧ (hdr.drop 6).take 6 = src ∧ hdr.drop 12 = be16 et ∧
      ethFrame dst src et p = hdr ++ p ++ List.replicate (60 - (14 + p.length)) 0 := by
  refine ⟨dst ++ src ++ be16 et, by simp [hd, hs, be16], ?_, ?_, ?_, ?_⟩
  · simp [hd]
  · obtain ⟨a, b, c, d, e, f, rfl⟩ := len6 hd
    obtain ⟨a', b', c', d', e', f', rfl⟩ := len6 hs
    simp
  · obtain ⟨a, b, c, d, e, f, rfl⟩ := len6 hd
    obtain ⟨a', b', c', d', e', f', rfl⟩ := len6 hs
    simp
  · simp [ethFrame, hd, hs, be16]; omega

theorem ethFrame_payload (dst src : Bytes) (et : Nat) (p : Bytes) (hd : dst.length = 6) (hs : src.length = 6) :
    ((ethFrame dst src et p).drop 14).take p.length = p := by
  obtain ⟨hdr, h14, -, -, -, he⟩ := ethFrame_eq dst src et p hd hs
  rw [he, List.append_assoc, List.drop_left' h14, List.take_left' rfl]


theorem ethFrame_link (dst src : Bytes) (et : Nat) (p : Bytes) (hd : dst.length = 6) (hs : src.length = 6) (het : et < 65536) :
    LinkOK (ethFrame dst src et p) dst src et p.length := by
  obtain ⟨hdr, h14, h1, h2, h3, he⟩ := ethFrame_eq dst src et p hd hs
  refine ⟨?_, ?_, ?_, ?_, ?_⟩
  · rw [he, List.append_assoc, List.take_append_of_le_length (by omega), h1]
  · rw [he, List.append_assoc, List.drop_append_of_le_length (by omega), List.take_append_of_le_length (by simp; omega), h2]
  · obtain ⟨a, b, c, d, e, f, rfl⟩ := len6 hd
    obtain ⟨a', b', c', d', e', f', rfl⟩ := len6 hs
    simp [ethFrame, be16, u16, u8, b8_toNat]; omega
  · rw [he]; simp [h14]; omega
  · rw [he, List.drop_left' (by simp [h14])]
    intro b hb
    exact List.eq_of_mem_replicate hb


theorem withLink_ok (vpn : Bool) (r : Req) (ip : Bytes)
    (hm : vpn = false → r.srcMAC.length = 6 ∧ r.dstMAC.length = 6) :
    ∃ frame, withLink vpn r ip = .ok frame ∧ (vpn = false → LinkOK frame r.dstMAC r.srcMAC 0x0800 ip.length) ∧
      datagram vpn frame ip.length = ip := by
  cases vpn with
  | true => exact ⟨ip, rfl, by simp, rfl⟩
  | false =>
    obtain ⟨hs, hd⟩ := hm rfl
    refine ⟨ethFrame r.dstMAC r.srcMAC 0x0800 ip, by simp [withLink, hs, hd], fun _ => ethFrame_link _ _ _ _ hd hs (by omega), ?_⟩
    simpa [datagram] using ethFrame_payload _ _ 0x0800 ip hd hs

theorem to4_of_len4 {ip : Bytes} (h : ip.length = 4) : to4 ip = some ip := by simp [to4, h]

theorem pseudo_eq (src dst : Bytes) (proto len : Nat) (h : len < 65536) :
    pseudo src dst proto len = pseudoSum src dst proto len := by
  simp [pseudo, pseudoSum, sumWords_eq]; omega

/-- the TCP segment `tcp.PacketFiller.Fill` serializes -/
def tcpSeg (src dst : Bytes) (flags dport rndPort rndSeq : Nat) : Bytes :=
  let opts : Bytes := [2, 4, 0x05, 0xb4, 4, 2, 3, 3, 7, 0, 0, 0]
  let pre := be16 (32768 + rndPort) ++ be16 dport ++ be32 rndSeq ++ be32 0 ++ be16 (tcpFlagWord 8 flags) ++ be16 64240
  let post := be16 0 ++ opts
  pre ++ be16 (finish (pseudo src dst 6 (pre ++ [0, 0] ++ post).length + sumWords (pre ++ [0, 0] ++ post))) ++ post

theorem fillTCP_eq (vpn : Bool) (flags : Nat) (r : Req) (a b c : Nat) (hs : r.srcIP.length = 4) (hd : r.dstIP.length = 4) :
    fillTCP vpn flags r a b c =
      withLink vpn r (ipv4Header 5 (20 + (tcpSeg r.srcIP r.dstIP flags r.dstPort b c).length) (1 + a) 2 64 6 r.srcIP r.dstIP ++
        tcpSeg r.srcIP r.dstIP flags r.dstPort b c) := by
  simp only [fillTCP, to4_of_len4 hs, to4_of_len4 hd, tcpSeg]

theorem tcpSeg_length (src dst : Bytes) (flags dport p sq : Nat) : (tcpSeg src dst flags dport p sq).length = 32 := by
  simp [tcpSeg, be16, be32]

theorem tcpSeg_fields (src dst : Bytes) (flags dport p sq : Nat) (hf : flags < 512) (hdp : dport < 65536)
    (hp : p < 28232) (hq : sq < 2 ^ 32) :
    tcpFields (tcpSeg src dst flags dport p sq) = some {
      sport := 32768 + p, dport := dport, seq := sq, ack := 0,
      dataOff := 8, flags := flags, window := 64240, urgent := 0,
      options := [2, 4, 0x05, 0xb4, 4, 2, 3, 3, 7, 0, 0, 0], payload := [] } := by
  have e : ((32768 + flags % 512) / 256 % 256 * 256 + (32768 + flags % 512) % 256) = 32768 + flags := by omega
  have e2 : (32768 + flags) / 4096 = 8 := by omega
  have e3 : (32768 + flags) % 512 = flags := by omega
  simp [tcpSeg, tcpFields, be16, be32, u8, u16, u32, b8_toNat, tcpFlagWord, e, e2, e3]
  omega

theorem tcpSeg_csum (src dst : Bytes) (flags dport p sq : Nat) (hs : src.length = 4) (hd : dst.length = 4) :
    csumValid (tcpSeg src dst flags dport p sq) (pseudoSum src dst 6 32) := by
  have key : ∀ pre post : Bytes, pre.length = 16 → post.length = 14 →
      csumValid (pre ++ be16 (finish (pseudo src dst 6 (pre ++ [0, 0] ++ post).length + sumWords (pre ++ [0, 0] ++ post))) ++ post)
        (pseudoSum src dst 6 32) := by
    intro pre post h1 h2
    have e : (pre ++ [0, 0] ++ post).length = 32 := by simp [h1, h2]
    rw [e, pseudo_eq _ _ _ _ (by omega)]
    have b1 := wordSum_le pre
    have b2 := wordSum_le post
    have b3 := wordSum_le src
    have b4 := wordSum_le dst
    rw [h1] at b1; rw [h2] at b2; rw [hs] at b3; rw [hd] at b4
    exact csum_insert pre post _ (by omega) (by unfold pseudoSum; omega)
  exact key _ _ (by simp [be16, be32]) (by simp [be16])

end SxVerif.Proofs.Fill
