/-
Return path after cancellation (C12, C16): a ranking function over the processes `startScanEngine`
waits for — logger and error drain — and everything that must finish for `errc` to be closed
(workers, supervisor), plus `main` itself.
-/
import SxVerif.Proofs.EngineTime

namespace SxVerif.Engine

variable {c : Cfg} {reqs : List Req} {ext : List (Nat × Nat)} {s s' : Sys}

/-- labels of the return-path processes: workers, supervisor, logger, drain, main -/
def isRP : Label → Bool
  | .worker _ _ | .spawn | .wgWait | .closeErrc | .closeDone
  | .logRecv | .logClosed | .logWrite | .logCtx | .drainRecv | .drainLog | .drainExit | .mainReturn => true
  | _ => false

def wrank : WPc → Nat
  | .idle => 1
  | .got _ => 5
  | .sendErr _ => 4
  | .put _ => 4
  | .exited => 0

def wsum (ws : List WPc) : Nat := (ws.map wrank).sum

@[simp] theorem wsum_nil : wsum [] = 0 := rfl
@[simp] theorem wsum_cons (w : WPc) (ws : List WPc) : wsum (w :: ws) = wrank w + wsum ws := by simp [wsum]
@[simp] theorem wsum_append (a b : List WPc) : wsum (a ++ b) = wsum a + wsum b := by simp [wsum]

theorem wsum_le (ws : List WPc) : wsum ws ≤ 5 * ws.length := by
  induction ws with
  | nil => simp
  | cons w ws ih => cases w <;> simp [wrank] <;> omega

def supRank (c : Cfg) (s : Sys) : Nat :=
  match s.sup with
  | .running => 3 + 2 * (c.W - s.workers.length)
  | .closingErrc => 2
  | .closingDone => 1
  | .finished => 0

def logRank : LogPc → Nat
  | .idle => 1
  | .writing _ => 2
  | .exited => 0

def drainRk : DrainPc → Nat
  | .idle => 1
  | .logging _ => 2
  | .exited => 0

def mainRank : MainPc → Nat
  | .waiting => 1
  | .returned => 0

/-- own steps still ahead of the return-path processes, in the worst case -/
def rank (c : Cfg) (s : Sys) : Nat :=
  mainRank s.main + logRank s.log +
  2 * (s.results.length + (copHand s.cop).length + s.intRes.length + (extHand s.extPc).length) +
  drainRk s.drain + 2 * s.errc.length + wsum s.workers + 5 * s.pending.length + supRank c s

/-- the closed expression: capacities, worker count and the part of the target stream not yet handed out -/
def rankBound (c : Cfg) (pending : Nat) : Nat :=
  4 * c.capRes + 2 * c.capErr + 7 * c.W + 5 * pending + 12

theorem rank_bound (h0 : Inv0 c s) : rank c s ≤ rankBound c s.pending.length := by
  have a := h0.capInt
  have b := h0.capRes
  have e := h0.capErr
  have w := h0.wlen
  have ws := wsum_le s.workers
  have d1 : (copHand s.cop).length ≤ 1 := by cases s.cop <;> simp [copHand]
  have d2 : (extHand s.extPc).length ≤ 1 := by cases s.extPc <;> simp [extHand]
  have d3 : logRank s.log ≤ 2 := by cases s.log <;> simp [logRank]
  have d4 : drainRk s.drain ≤ 2 := by cases s.drain <;> simp [drainRk]
  have d5 : mainRank s.main ≤ 1 := by cases s.main <;> simp [mainRank]
  have d6 : supRank c s ≤ 3 + 2 * c.W := by
    unfold supRank; cases s.sup <;> simp <;> omega
  unfold rank rankBound
  omega

/-- a `StepR` step together with the label class it came from -/
theorem rank_stepR (h0 : Inv0 c s) (hd : s.derCtx = true) (hs : StepR c s s') : rank c s' ≤ rank c s := by
  have hw := h0.wlen
  cases hs <;>
    simp_all [rank, supRank, logRank, drainRk, mainRank, wrank, copHand, extHand] <;> omega

theorem derCtx_mono (hs : StepR c s s') (h : s.derCtx = true) : s'.derCtx = true := by
  cases hs <;> simp_all

end SxVerif.Engine
