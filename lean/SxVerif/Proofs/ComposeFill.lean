/-
Composition lemmas, filler side: a request of the M-gen stream that is a probe for an IPv4 target is served by the
wired filler (`Model/Fill.lean`), and the frame reads back (independent readers of `Spec/Fill.lean`, through the
C05 lemmas `tcp_ok` / `udp_ok` / `icmp_ok` / `arp_ok`) to that target.
-/
import SxVerif.Spec.Compose
import SxVerif.Proofs.Fill

namespace SxVerif.Proofs.Compose
open SxVerif.Frame (Bytes)
open SxVerif.Fill SxVerif.Spec.Fill SxVerif.Compose SxVerif.Spec.Compose

theorem b8_toNat (n : Nat) : (b8 n).toNat = n % 256 := by simp [b8]

theorem beNat_be32 (a : Nat) (h : a < 2 ^ 32) : beNat (be32 a) = a := by
  simp only [beNat, be32, List.foldl_cons, List.foldl_nil, b8_toNat]
  omega

theorem be32_length (a : Nat) : (be32 a).length = 4 := rfl
theorem macBytes_length (m : Nat) : (macBytes m).length = 6 := rfl

/-- a probe the filler can serve: IPv4 destination `a`, 16-bit port, and — for the IP probes of an Ethernet
    link — a destination MAC (put there by the ARP-cache stage) -/
structure Fillable (l : Link) (fl : Filler) (r : Gen.Req) (a : Gen.Addr) : Prop where
  dst : r.dst = some a
  v4 : IsIPv4 a
  port : r.port < 65536
  mac : fl ≠ .arp → l.vpn = false → r.dstMAC.isSome = true

/-- the same request with the destination in 4-byte form -/
def narrowReq (l : Link) (r : Gen.Req) (v : Nat) : Fill.Req :=
  { srcIP := l.srcIP, dstIP := be32 v, srcMAC := l.srcMAC, dstMAC := (r.dstMAC.map macBytes).getD [],
    dstPort := r.port }

theorem to4_addrBytes (v : Nat) (w : Bool) : to4 (addrBytes (.v4 v w)) = to4 (be32 v) := by
  cases w with
  | false => rfl
  | true =>
    show to4 ([0, 0, 0, 0, 0, 0, 0, 0, 0, 0, 0xff, 0xff] ++ be32 v) = to4 (be32 v)
    rw [Proofs.Fill.to4_mapped _ (be32_length v), Proofs.Fill.to4_of_len4 (be32_length v)]

theorem fillARP_to4 (q q' : Fill.Req) (hs : q.srcIP = q'.srcIP) (hm : q.srcMAC = q'.srcMAC)
    (hd : to4 q.dstIP = to4 q'.dstIP) : fillARP q = fillARP q' := by
  simp only [fillARP, hs, hm, hd]

/-- the fillers see the destination only through `To4` (C05_addr_form) -/
theorem fill_narrow (l : Link) (fl : Filler) (r : Gen.Req) (v : Nat) (w : Bool) (d : Rnd)
    (hd : r.dst = some (.v4 v w)) : fill l fl (fillReq l r) d = fill l fl (narrowReq l r v) d := by
  have h4 : to4 (fillReq l r).dstIP = to4 (narrowReq l r v).dstIP := by
    simp only [fillReq, narrowReq, hd, Option.map_some, Option.getD_some]
    exact to4_addrBytes v w
  cases fl with
  | tcp flags => exact Proofs.Fill.addr_form_tcp _ _ _ _ _ _ _ rfl h4 ⟨rfl, rfl, rfl⟩
  | udp o => exact Proofs.Fill.addr_form_udp _ _ _ _ _ rfl h4 ⟨rfl, rfl, rfl⟩
  | icmp o t c => exact Proofs.Fill.addr_form_icmp _ _ _ _ _ _ _ rfl h4 ⟨rfl, rfl⟩
  | arp => exact fillARP_to4 _ _ rfl rfl h4

theorem narrow_reqOK (l : Link) (hl : LinkOK l) (fl : Filler) (r : Gen.Req) (a : Gen.Addr) (v : Nat)
    (hf : Fillable l fl r a) (hfl : fl ≠ .arp) :
    ReqOK l.vpn (narrowReq l r v).srcIP (narrowReq l r v).dstIP (narrowReq l r v).srcMAC
      (narrowReq l r v).dstMAC (narrowReq l r v).dstPort := by
  refine ⟨hl.1, be32_length v, hf.port, fun hv => ⟨hl.2 hv, ?_⟩⟩
  have := hf.mac hfl hv
  cases hm : r.dstMAC with
  | none => simp [hm] at this
  | some m => simp [narrowReq, hm, macBytes_length]

/-- **tcp / udp**: the frame exists and reads back to (destination address, destination port) -/
theorem fill_target (l : Link) (hl : LinkOK l) (fl : Filler) (hfl : FillerOK fl) (r : Gen.Req) (a : Gen.Addr)
    (d : Rnd) (hd : RndOK d) (hf : Fillable l fl r a) (hk : (∃ f, fl = .tcp f) ∨ ∃ o, fl = .udp o) :
    ∃ f, fill l fl (fillReq l r) d = .ok f ∧ probeTarget l.vpn fl f = some (addrVal a, r.port) := by
  obtain ⟨hdst, hv4, hport, hmac⟩ := hf
  cases a with
  | v6 id => exact absurd hv4 (by simp [IsIPv4])
  | v4 v w =>
    have hv : v < 2 ^ 32 := hv4
    rw [fill_narrow l fl r v w d hdst]
    rcases hk with ⟨flags, rfl⟩ | ⟨o, rfl⟩
    · have hok := narrow_reqOK l hl (.tcp flags) r (.v4 v w) v ⟨hdst, hv4, hport, hmac⟩ (by simp)
      obtain ⟨f, hfill, -, -, hip, -, htcp, -⟩ :=
        Proofs.Fill.tcp_ok l.vpn flags (narrowReq l r v) d.ipId d.sport d.seq hok hfl hd.1 hd.2.1 hd.2.2.1
      refine ⟨f, hfill, ?_⟩
      simp only [probeTarget, dgLen, hip, htcp, narrowReq, bind, Option.bind, pure, beNat_be32 v hv, addrVal]
    · have hok := narrow_reqOK l hl (.udp o) r (.v4 v w) v ⟨hdst, hv4, hport, hmac⟩ (by simp)
      obtain ⟨f, hfill, -, -, hip, -, hudp, -⟩ :=
        Proofs.Fill.udp_ok { o with vpn := l.vpn } (narrowReq l r v) d.ipId d.sport hok hfl hd.1 hd.2.1
      refine ⟨f, hfill, ?_⟩
      simp only [probeTarget, dgLen, hip, hudp, narrowReq, bind, Option.bind, pure, beNat_be32 v hv, addrVal]

/-- **icmp / arp**: the frame exists and reads back to the destination address -/
theorem fill_addr (l : Link) (hl : LinkOK l) (fl : Filler) (hfl : FillerOK fl) (r : Gen.Req) (a : Gen.Addr)
    (d : Rnd) (hd : RndOK d) (hf : Fillable l fl r a)
    (hk : (∃ o t c, fl = .icmp o t c) ∨ (fl = .arp ∧ l.vpn = false)) :
    ∃ f, fill l fl (fillReq l r) d = .ok f ∧ probeAddr l.vpn fl f = some (addrVal a) := by
  obtain ⟨hdst, hv4, hport, hmac⟩ := hf
  cases a with
  | v6 id => exact absurd hv4 (by simp [IsIPv4])
  | v4 v w =>
    have hv : v < 2 ^ 32 := hv4
    rw [fill_narrow l fl r v w d hdst]
    rcases hk with ⟨o, t, c, rfl⟩ | ⟨rfl, hvpn⟩
    · have hok := narrow_reqOK l hl (.icmp o t c) r (.v4 v w) v ⟨hdst, hv4, hport, hmac⟩ (by simp)
      obtain ⟨f, hfill, -, -, hip, -⟩ :=
        Proofs.Fill.icmp_ok { o with vpn := l.vpn } t c (narrowReq l r v) d.ipId d.icmpId hok hfl.1 hfl.2 hd.1 hd.2.2.2
      refine ⟨f, hfill, ?_⟩
      simp only [probeAddr, dgLen, hip, narrowReq, Option.map_some, beNat_be32 v hv, addrVal]
    · obtain ⟨f, hfill, -, harp⟩ :=
        Proofs.Fill.arp_ok (narrowReq l r v) ⟨hl.1, be32_length v, hl.2 hvpn⟩
      refine ⟨f, hfill, ?_⟩
      simp only [probeAddr, harp, narrowReq, Option.map_some, beNat_be32 v hv, addrVal]

end SxVerif.Proofs.Compose
