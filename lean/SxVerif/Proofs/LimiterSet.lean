/-
C15, order-free reading: among any `k` distinct takes, the latest and the earliest release are at least
`(k-1-b)·perRequest` apart (pigeonhole on the take numbers + `release_gap`).
-/
import SxVerif.Proofs.Limiter
import Mathlib.Order.Interval.Finset.Nat
import Mathlib.Data.Finset.Max
import Mathlib.Data.Finset.Card

namespace SxVerif.Proofs.Limiter
open SxVerif.Limiter

theorem any_set (c : Cfg) (b : Int) (hc : CfgOK c b) (now : Nat → Int) (hclk : ClockOK now)
    (S : List Nat) (hnd : S.Nodup) (hne : S ≠ []) :
    ∃ i ∈ S, ∃ j ∈ S, ((S.length : Int) - 1 - b) * c.perRequest ≤ release c now j - release c now i := by
  have hF : S.toFinset.Nonempty := by
    cases S with
    | nil => exact absurd rfl hne
    | cons a _ => exact ⟨a, by simp⟩
  let i := S.toFinset.min' hF
  let j := S.toFinset.max' hF
  have hi : i ∈ S := List.mem_toFinset.mp (Finset.min'_mem _ hF)
  have hj : j ∈ S := List.mem_toFinset.mp (Finset.max'_mem _ hF)
  have hij : i ≤ j := Finset.min'_le _ _ (Finset.max'_mem _ hF)
  have hsub : S.toFinset ⊆ Finset.Icc i j := by
    intro x hx
    exact Finset.mem_Icc.mpr ⟨Finset.min'_le _ _ hx, Finset.le_max' _ _ hx⟩
  have hcard : S.length ≤ j + 1 - i := by
    have := Finset.card_le_card hsub
    rw [List.toFinset_card_of_nodup hnd, Nat.card_Icc] at this
    exact this
  refine ⟨i, hi, j, hj, ?_⟩
  have hg := release_gap c b hc now hclk i (j - i)
  have e : i + (j - i) = j := by omega
  rw [e] at hg
  have hle : ((S.length : Int) - 1 - b) ≤ (((j - i : Nat) : Int) - b) := by omega
  exact Int.le_trans (Int.mul_le_mul_of_nonneg_right hle hc.p_nonneg) hg

end SxVerif.Proofs.Limiter
