/-
Lemmas for C06, part 1: byte reads, option walks, and a characterisation of each decoder's success
(`decodeX st d = .ok st' next payload → explicit conditions ∧ st' = … ∧ payload = …`).
-/
import SxVerif.Spec.Faithful

namespace SxVerif.Proofs.Frame
open SxVerif.Frame SxVerif.Proc SxVerif.Spec.Frame


/-! ### byte reads -/

theorem u8_drop (f : Bytes) (o i : Nat) : u8 (f.drop o) i = u8 f (o + i) := by
  simp [u8, List.getElem?_drop]

theorem u16_drop (f : Bytes) (o i : Nat) : u16 (f.drop o) i = u16 f (o + i) := by
  simp [u16, u8_drop, Nat.add_assoc]

theorem u8_take (f : Bytes) {n i : Nat} (h : i < n) : u8 (f.take n) i = u8 f i := by
  simp [u8, h]

theorem u16_take (f : Bytes) {n i : Nat} (h : i + 1 < n) : u16 (f.take n) i = u16 f i := by
  have h' : i < n := by omega
  simp [u16, u8_take f h, u8_take f h']

theorem u8_some (f : Bytes) {i : Nat} (h : i < f.length) : ∃ x, u8 f i = some x := by
  simp [u8, List.getElem?_eq_getElem h]

theorem u16_some (f : Bytes) {i : Nat} (h : i + 1 < f.length) : ∃ x, u16 f i = some x := by
  obtain ⟨a, ha⟩ := u8_some f (show i < f.length by omega)
  obtain ⟨b, hb⟩ := u8_some f h
  exact ⟨a * 256 + b, by simp [u16, ha, hb]⟩

/-! ### option walks: the model's are stricter than the spec's -/

theorem ipOptionsOK_imp : ∀ (n : Nat) (xs : Bytes), ipOptionsOK n xs = true → optionsOK n xs = true
  | 0, _, h => by simp [ipOptionsOK] at h
  | _ + 1, [], _ => by simp [optionsOK]
  | n + 1, t :: rest, h => by
    unfold ipOptionsOK at h
    unfold optionsOK
    by_cases h0 : t.toNat = 0
    · simp [h0]
    · by_cases h1 : t.toNat = 1
      · simp only [h1, if_true] at h ⊢
        exact ipOptionsOK_imp n rest h
      · simp only [h0, h1, if_false] at h ⊢
        cases rest with
        | nil => simp at h
        | cons l tl =>
          simp only at h ⊢
          split at h
          · simp at h
          · split at h
            · simp at h
            · have := ipOptionsOK_imp n _ h
              simp only [List.length_cons] at *
              simp only [Bool.and_eq_true, decide_eq_true_eq]
              exact ⟨⟨by omega, by omega⟩, this⟩

theorem tcpOptionsOK_imp : ∀ (n : Nat) (xs : Bytes), tcpOptionsOK n xs = true → optionsOK n xs = true
  | 0, _, h => by simp [tcpOptionsOK] at h
  | _ + 1, [], _ => by simp [optionsOK]
  | n + 1, t :: rest, h => by
    unfold tcpOptionsOK at h
    unfold optionsOK
    by_cases h0 : t.toNat = 0
    · simp [h0]
    · by_cases h1 : t.toNat = 1
      · simp only [h1, if_true] at h ⊢
        exact tcpOptionsOK_imp n rest h
      · simp only [h0, h1, if_false] at h ⊢
        cases rest with
        | nil => simp at h
        | cons l tl =>
          simp only at h ⊢
          split at h
          · simp at h
          · split at h
            · simp at h
            · have := tcpOptionsOK_imp n _ h
              simp only [List.length_cons] at *
              simp only [Bool.and_eq_true, decide_eq_true_eq]
              exact ⟨⟨by omega, by omega⟩, this⟩

/-! ### decoders -/

theorem decodeEthernet_ok {st st' : State} {d p : Bytes} {next : LT}
    (h : decodeEthernet st d = .ok st' next p) :
    14 ≤ d.length ∧ st' = st ∧ ∃ et, u16 d 12 = some et ∧ next = ethNext et ∧
      (0x600 ≤ et → p = d.drop 14) ∧ p.length + 14 ≤ d.length := by
  unfold decodeEthernet at h
  split at h
  · cases h
  rename_i hlen
  obtain ⟨et, het⟩ := u16_some d (show 12 + 1 < d.length by omega)
  simp only [het, Option.getD_some] at h
  refine ⟨by omega, ?_⟩
  split at h
  · rename_i hlt
    injection h with e1 e2 e3
    refine ⟨e1.symm, et, het, e2.symm, by omega, ?_⟩
    subst e3
    split
    · simp only [List.length_take, List.length_drop]; omega
    · simp only [List.length_drop]; omega
  · injection h with e1 e2 e3
    refine ⟨e1.symm, et, het, e2.symm, fun _ => e3.symm, ?_⟩
    subst e3
    simp only [List.length_drop]; omega

theorem decodeIPv4_ok {st st' : State} {d p : Bytes} {next : LT}
    (h : decodeIPv4 st d = .ok st' next p) :
    20 ≤ d.length ∧ ∃ b0 tl0 ff proto ttl tl, u8 d 0 = some b0 ∧ u16 d 2 = some tl0 ∧ u16 d 6 = some ff ∧
      u8 d 9 = some proto ∧ u8 d 8 = some ttl ∧
      tl = (if tl0 = 0 then d.length % 65536 else tl0) ∧
      20 ≤ tl ∧ 5 ≤ b0 % 16 ∧ b0 % 16 * 4 ≤ tl ∧ b0 % 16 * 4 ≤ d.length ∧
      ipOptionsOK (((d.take (b0 % 16 * 4)).drop 20).length + 1) ((d.take (b0 % 16 * 4)).drop 20) = true ∧
      st' = { st with ipVersion := b0 / 16, ipSrc := (d.drop 12).take 4, ipTTL := ttl } ∧
      next = (if (ff / 8192) % 2 = 1 ∨ ff % 8192 ≠ 0 then LT.other 3 else ipNext proto) ∧
      p = (d.take (min tl d.length)).drop (b0 % 16 * 4) := by
  unfold decodeIPv4 at h
  split at h
  · cases h
  rename_i hlen
  have hlen : 20 ≤ d.length := by omega
  obtain ⟨b0, hb0⟩ := u8_some d (show 0 < d.length by omega)
  obtain ⟨tl0, htl0⟩ := u16_some d (show 2 + 1 < d.length by omega)
  obtain ⟨ff, hff⟩ := u16_some d (show 6 + 1 < d.length by omega)
  obtain ⟨proto, hproto⟩ := u8_some d (show 9 < d.length by omega)
  obtain ⟨ttl, httl⟩ := u8_some d (show 8 < d.length by omega)
  simp only [hb0, htl0, hff, hproto, httl, Option.getD_some] at h
  refine ⟨hlen, b0, tl0, ff, proto, ttl, _, hb0, htl0, hff, hproto, httl, rfl, ?_⟩
  generalize (if tl0 = 0 then d.length % 65536 else tl0) = tl at h ⊢
  have hd' : (if d.length > tl then d.take tl else d) = d.take (min tl d.length) := by
    split
    · rw [Nat.min_eq_left (by omega)]
    · rw [Nat.min_eq_right (by omega), List.take_length]
  rw [hd'] at h
  split at h
  · cases h
  split at h
  · cases h
  split at h
  · cases h
  split at h
  · cases h
  split at h
  · cases h
  rename_i h2 h3 h4 h5 h6
  injection h with e1 e2 e3
  have hihl : b0 % 16 * 4 ≤ d.length := by omega
  rw [List.take_take, Nat.min_eq_left (by omega)] at h6
  simp only [Bool.not_eq_eq_eq_not, Bool.not_true, Bool.not_eq_false] at h6
  exact ⟨by omega, by omega, by omega, hihl, h6, e1.symm, e2.symm, e3.symm⟩

theorem decodeTCP_ok {st st' : State} {d p : Bytes} {next : LT}
    (h : decodeTCP st d = .ok st' next p) :
    20 ≤ d.length ∧ ∃ sp b12 b13, u16 d 0 = some sp ∧ u8 d 12 = some b12 ∧ u8 d 13 = some b13 ∧
      5 ≤ b12 / 16 ∧ b12 / 16 * 4 ≤ d.length ∧
      tcpOptionsOK (((d.take (b12 / 16 * 4)).drop 20).length + 1) ((d.take (b12 / 16 * 4)).drop 20) = true ∧
      st' = { st with tcpSrcPort := sp, tcpFlags := b12 % 2 * 256 + b13 } ∧ next = .other 4 ∧
      p = d.drop (b12 / 16 * 4) := by
  unfold decodeTCP at h
  split at h
  · cases h
  rename_i hlen
  obtain ⟨sp, hsp⟩ := u16_some d (show 0 + 1 < d.length by omega)
  obtain ⟨b12, hb12⟩ := u8_some d (show 12 < d.length by omega)
  obtain ⟨b13, hb13⟩ := u8_some d (show 13 < d.length by omega)
  simp only [hsp, hb12, hb13, Option.getD_some] at h
  refine ⟨by omega, sp, b12, b13, hsp, hb12, hb13, ?_⟩
  split at h
  · cases h
  split at h
  · cases h
  split at h
  · cases h
  rename_i h1 h2 h3
  injection h with e1 e2 e3
  simp only [Bool.not_eq_eq_eq_not, Bool.not_true, Bool.not_eq_false] at h3
  exact ⟨by omega, by omega, h3, e1.symm, e2.symm, e3.symm⟩

theorem decodeICMPv4_ok {st st' : State} {d p : Bytes} {next : LT}
    (h : decodeICMPv4 st d = .ok st' next p) :
    8 ≤ d.length ∧ ∃ ty co, u8 d 0 = some ty ∧ u8 d 1 = some co ∧
      st' = { st with icmpType := ty, icmpCode := co } ∧ next = .other 5 ∧ p = d.drop 8 := by
  unfold decodeICMPv4 at h
  split at h
  · cases h
  rename_i hlen
  obtain ⟨ty, hty⟩ := u8_some d (show 0 < d.length by omega)
  obtain ⟨co, hco⟩ := u8_some d (show 1 < d.length by omega)
  simp only [hty, hco, Option.getD_some] at h
  injection h with e1 e2 e3
  exact ⟨by omega, ty, co, hty, hco, e1.symm, e2.symm, e3.symm⟩

theorem decodeARP_ok {st st' : State} {d p : Bytes} {next : LT}
    (h : decodeARP st d = .ok st' next p) :
    8 ≤ d.length ∧ ∃ ht pt hw pr, u16 d 0 = some ht ∧ u16 d 2 = some pt ∧ u8 d 4 = some hw ∧ u8 d 5 = some pr ∧
      (8 + 2 * hw + 2 * pr) % 256 ≤ d.length ∧ 8 ≤ (8 + hw) % 256 ∧ (8 + hw) % 256 ≤ (8 + hw + pr) % 256 ∧
      (8 + hw + pr) % 256 ≤ (8 + 2 * hw + pr) % 256 ∧ (8 + 2 * hw + pr) % 256 ≤ (8 + 2 * hw + 2 * pr) % 256 ∧
      st' = { st with arpAddrType := ht, arpProtocol := pt, arpHwSize := hw, arpProtSize := pr,
                      arpSrcHw := (d.take ((8 + hw) % 256)).drop 8,
                      arpSrcProt := (d.take ((8 + hw + pr) % 256)).drop ((8 + hw) % 256) } ∧
      next = .other 5 ∧ p = d.drop ((8 + 2 * hw + 2 * pr) % 256) := by
  unfold decodeARP at h
  split at h
  · cases h
  rename_i hlen
  obtain ⟨ht, hht⟩ := u16_some d (show 0 + 1 < d.length by omega)
  obtain ⟨pt, hpt⟩ := u16_some d (show 2 + 1 < d.length by omega)
  obtain ⟨hw, hhw⟩ := u8_some d (show 4 < d.length by omega)
  obtain ⟨pr, hpr⟩ := u8_some d (show 5 < d.length by omega)
  simp only [hht, hpt, hhw, hpr, Option.getD_some] at h
  refine ⟨by omega, ht, pt, hw, pr, hht, hpt, hhw, hpr, ?_⟩
  split at h
  · cases h
  split at h
  · cases h
  split at h
  · cases h
  split at h
  · cases h
  split at h
  · cases h
  rename_i h1 h2 h3 h4 h5
  injection h with e1 e2 e3
  exact ⟨by omega, by omega, by omega, by omega, by omega, e1.symm, e2.symm, e3.symm⟩

theorem decodeLayer_shorter {t : LT} {st st' : State} {d p : Bytes} {next : LT}
    (h : decodeLayer t st d = .ok st' next p) : p.length < d.length := by
  cases t with
  | ethernet => have := decodeEthernet_ok h; omega
  | ipv4 =>
    obtain ⟨h20, b0, tl0, ff, proto, ttl, tl, -, -, -, -, -, -, -, h5, -, -, -, -, -, hp⟩ := decodeIPv4_ok h
    subst hp
    simp only [List.length_drop, List.length_take]; omega
  | tcp =>
    obtain ⟨h20, sp, b12, b13, -, -, -, h5, -, -, -, -, hp⟩ := decodeTCP_ok h
    subst hp
    simp only [List.length_drop]; omega
  | icmpv4 =>
    obtain ⟨h8, ty, co, -, -, -, -, hp⟩ := decodeICMPv4_ok h
    subst hp
    simp only [List.length_drop]; omega
  | arp =>
    obtain ⟨h8, ht, pt, hw, pr, -, -, -, -, hL, ha, hb, hc, hd, -, -, hp⟩ := decodeARP_ok h
    subst hp
    simp only [List.length_drop]; omega
  | other _ => simp [decodeLayer] at h

end SxVerif.Proofs.Frame
