/-
Lemmas for C14, part 2: decimal rendering (`strconv.AppendUint/AppendInt`) read back by the Spec's number
reader, for every natural number / integer (structural proof on the digit rendering).
-/
import SxVerif.Model.Json
import SxVerif.Spec.Json

namespace SxVerif.Proofs.Json
open SxVerif.Json SxVerif.Spec.Json

theorem digitChar_cases (d : Nat) (h : d < 10) :
    isDigit (digitChar d) = true ∧ (digitChar d).toNat - 48 = d ∧ (d ≠ 0 → digitChar d ≠ '0') ∧ digitChar d ≠ '-' := by
  have : d = 0 ∨ d = 1 ∨ d = 2 ∨ d = 3 ∨ d = 4 ∨ d = 5 ∨ d = 6 ∨ d = 7 ∨ d = 8 ∨ d = 9 := by omega
  rcases this with h | h | h | h | h | h | h | h | h | h <;> subst h <;> decide

theorem natOfDigits_snoc (p : List Char) (d : Char) :
    natOfDigits (p ++ [d]) = natOfDigits p * 10 + (d.toNat - 48) := by
  simp [natOfDigits, List.foldl_append]

/-- everything the reader needs to know about `natDigitsF f n` when the fuel suffices -/
theorem natDigitsF_spec : ∀ (f n : Nat), n < f →
    (natDigitsF f n).all isDigit = true ∧ natOfDigits (natDigitsF f n) = n ∧
    ∃ c t, natDigitsF f n = c :: t ∧ (1 ≤ n → c ≠ '0') ∧ (t = [] → n < 10)
  | 0, n, h => by omega
  | f + 1, n, h => by
    unfold natDigitsF
    by_cases hn : n < 10
    · have hd := digitChar_cases n hn
      rw [if_pos hn]
      simp only [List.all_cons, List.all_nil, Bool.and_true]
      refine ⟨hd.1, ?_, digitChar n, [], rfl, fun h1 => hd.2.2.1 (by omega), fun _ => hn⟩
      simp [natOfDigits, hd.2.1]
    · have ih := natDigitsF_spec f (n / 10) (by omega)
      have hd := digitChar_cases (n % 10) (by omega)
      obtain ⟨ihAll, ihVal, c, t, hct, hc0, _⟩ := ih
      rw [if_neg hn]
      refine ⟨?_, ?_, c, t ++ [digitChar (n % 10)], ?_, ?_, ?_⟩
      · simp only [List.all_append, ihAll, List.all_cons, List.all_nil, Bool.and_true, hd.1]
      · rw [natOfDigits_snoc, ihVal, hd.2.1]; omega
      · rw [hct]; rfl
      · intro _; exact hc0 (by omega)
      · intro ht; simp at ht

theorem natDigits_spec (n : Nat) :
    (natDigits n).all isDigit = true ∧ natOfDigits (natDigits n) = n ∧
    ∃ c t, natDigits n = c :: t ∧ (1 ≤ n → c ≠ '0') ∧ (t = [] → n < 10) :=
  natDigitsF_spec (n + 1) n (by omega)

theorem natDigits_canon (n : Nat) : canonNat (natDigits n) = true := by
  obtain ⟨hall, _, c, t, hct, hc0, ht⟩ := natDigits_spec n
  rw [hct] at hall ⊢
  cases t with
  | nil => simpa [canonNat] using hall
  | cons d t' =>
    have : 1 ≤ n := by
      by_cases h : 1 ≤ n
      · exact h
      · exfalso
        have h0 : n = 0 := by omega
        subst h0
        have : natDigits 0 = ['0'] := by decide
        rw [this] at hct; simp at hct
    have hc := hc0 this
    simp only [List.all_cons, Bool.and_eq_true] at hall
    simp [canonNat, hall.1, hall.2.1, hall.2.2, hc]

theorem isDigit_ne_minus (c : Char) (h : isDigit c = true) : c ≠ '-' := by
  intro hc; subst hc; revert h; decide

theorem readIntLit_nat (n : Nat) : readIntLit (natDigits n) = some (Int.ofNat n) := by
  obtain ⟨hall, hval, c, t, hct, _, _⟩ := natDigits_spec n
  have hcanon := natDigits_canon n
  have hc : c ≠ '-' := by
    rw [hct] at hall; simp only [List.all_cons, Bool.and_eq_true] at hall
    exact isDigit_ne_minus c hall.1
  rw [readIntLit.eq_def]
  split
  · rename_i ds heq; rw [hct] at heq; simp only [List.cons.injEq] at heq; exact absurd heq.1 hc
  · simp [hcanon, hval]

theorem readIntLit_int (i : Int) : readIntLit (intDigits i) = some i := by
  cases i with
  | ofNat n => exact readIntLit_nat n
  | negSucc n =>
    obtain ⟨_, hval, c, t, hct, hc0, _⟩ := natDigits_spec (n + 1)
    have hcanon := natDigits_canon (n + 1)
    have hne : natDigits (n + 1) ≠ ['0'] := by
      rw [hct]; intro h; simp only [List.cons.injEq] at h; exact hc0 (by omega) h.1
    simp only [intDigits, readIntLit, hcanon, hval, Bool.true_and]
    simp [hne, Int.negSucc_eq]

theorem isDigit_isNumChar (c : Char) (h : isDigit c = true) : isNumChar c = true := by
  simp [isNumChar, h]

theorem isDigit_isNumStart (c : Char) (h : isDigit c = true) : isNumStart c = true := by
  simp [isNumStart, h]

theorem intDigits_numChars (i : Int) : (intDigits i).all isNumChar = true := by
  have key : ∀ n, (natDigits n).all isNumChar = true := by
    intro n
    have := (natDigits_spec n).1
    rw [List.all_eq_true] at this ⊢
    intro c hc; exact isDigit_isNumChar c (this c hc)
  cases i with
  | ofNat n => exact key n
  | negSucc n =>
    simp only [intDigits, List.all_cons, key, Bool.and_true]; decide

theorem intDigits_head (i : Int) : ∃ c t, intDigits i = c :: t ∧ isNumStart c = true := by
  cases i with
  | ofNat n =>
    obtain ⟨hall, _, c, t, hct, _, _⟩ := natDigits_spec n
    refine ⟨c, t, hct, ?_⟩
    rw [hct] at hall; simp only [List.all_cons, Bool.and_eq_true] at hall
    exact isDigit_isNumStart c hall.1
  | negSucc n => exact ⟨'-', _, rfl, by decide⟩

/-- what may follow a number token: nothing, or a character that cannot continue it -/
def restOk (rest : List Char) : Prop := ∀ c, rest.head? = some c → isNumChar c = false

theorem takeWhile_all {p : Char → Bool} (l rest : List Char) (hl : l.all p = true)
    (hr : ∀ c, rest.head? = some c → p c = false) :
    (l ++ rest).takeWhile p = l ∧ (l ++ rest).dropWhile p = rest := by
  induction l with
  | nil =>
    cases rest with
    | nil => simp
    | cons c t => have := hr c rfl; simp [this]
  | cons a t ih =>
    simp only [List.all_cons, Bool.and_eq_true] at hl
    have := ih hl.2
    simp [hl.1, this.1, this.2]

theorem readNumber_int (i : Int) (rest : List Char) (hr : restOk rest) :
    readNumber (intDigits i ++ rest) = some (.int i, rest) := by
  obtain ⟨h1, h2⟩ := takeWhile_all (p := isNumChar) (intDigits i) rest (intDigits_numChars i) hr
  simp only [readNumber, h1, h2, readIntLit_int]

theorem readNumber_lit (l rest : List Char) (hv : validNumber l = true) (hi : readIntLit l = none)
    (hall : l.all isNumChar = true) (hr : restOk rest) :
    readNumber (l ++ rest) = some (.num l, rest) := by
  obtain ⟨h1, h2⟩ := takeWhile_all (p := isNumChar) l rest hall hr
  simp only [readNumber, h1, h2, hi, hv, if_true]

end SxVerif.Proofs.Json
