/-
Lemmas for C01 (coverage) and C02 (confinement of the generated requests): one engine run, the
chunk loop of `startPortScanEngine`, the single run of the application scans, the port-less scans.

Every statement takes the table facts as hypotheses (`tbl`, `htbl`, `hsorted`, `hpmax`), so nothing
here depends on the generated table; `Props/C01.lean` and `Props/C02.lean` instantiate them.
-/
import SxVerif.Proofs.GenCover1
import SxVerif.Proofs.GenCover2

namespace SxVerif.Proofs.Gen
open SxVerif.Gen SxVerif.Spec.Gen SxVerif.RangeIter

/-! ### one engine run = generator call, then the optional stages -/

/-- the generator call of `ipPortRequests`, before the optional stages -/
def ipPortBase (tbl : List Group) (s : Spec) (chunk : List PortRange) (dp di : Draws) (opens : Nat) :
    Except Cause (List Req) :=
  match s.src with
  | .subnet net =>
    ipPortGen (portGen tbl chunk dp) (fun k => ipGen tbl net (di k))
  | .file openFile =>
    if s.ports.isEmpty then
      match openFile opens with
      | none => .error .open_
      | some ls => .ok (filePairs ls)
    else
      ipPortGen (portGen tbl chunk dp)
        (fun k => match openFile (opens + k) with
          | none => .error .open_
          | some ls => .ok (fileIPs ls))

theorem ipPortRequests_eq (tbl : List Group) (s : Spec) (chunk : List PortRange) (dp di : Draws)
    (opens : Nat) :
    ipPortRequests tbl s chunk dp di opens = stages s.excl s.cache (ipPortBase tbl s chunk dp di opens) :=
  rfl

/-- the address generator of the port-less scans -/
def ipBase (tbl : List Group) (s : Spec) (d : Nat × Nat) : Except Cause (List IpItem) :=
  match s.src with
  | .subnet net => ipGen tbl net d
  | .file openFile => match openFile 0 with
    | none => .error .open_
    | some ls => .ok (fileIPs ls)

theorem ipRequests_eq (tbl : List Group) (s : Spec) (d : Nat × Nat) :
    ipRequests tbl s d = stages s.excl s.cache (ipReqGen (ipBase tbl s d)) := rfl

/-- `ipRequestGenerator` is a pointwise map: addresses become port-less probes, errors stay errors -/
theorem ipReqGen_map : ∃ g : IpItem → Req, (∀ a, g (.ip a) = mk (a, 0)) ∧
    (∀ c, (g (.err c)).err = some c) ∧
    ∀ ips, ipReqGen ips = ips.map (fun l => l.map g) :=
  ⟨_, fun _ => rfl, fun _ => rfl, fun _ => rfl⟩

/-! ### what a specification denotes, in the shape the proofs use -/

theorem denotePairs_cross (s : Spec) (content : List Line) (hne : s.ports ≠ [])
    (hsrc : s.src ≠ .subnet none) :
    denotePairs s content = cross (portsOf s.ports) (denoteAddrs s content) := by
  obtain ⟨src, ports, excl, cache⟩ := s
  have hemp : ports.isEmpty = false := by simpa using hne
  cases src with
  | subnet net =>
    cases net with
    | none => exact absurd rfl hsrc
    | some n => rfl
  | file f => simp [denotePairs, denoteAddrs, cross, hemp]

theorem flatMap_cross (A : List Addr) (cs : List (List PortRange)) :
    cs.flatMap (fun c => cross (portsOf c) A) = cross (portsOf cs.flatten) A := by
  induction cs with
  | nil => rfl
  | cons c cs ih => simp [List.flatMap_cons, portsOf_append, cross_append, ih]

theorem portsOf_subset (c ports : List PortRange) (h : ∀ r ∈ c, r ∈ ports) (p : Nat)
    (hp : p ∈ portsOf c) : p ∈ portsOf ports := by
  simp only [portsOf, List.mem_flatMap] at hp ⊢
  obtain ⟨r, hr, hpr⟩ := hp
  exact ⟨r, h r hr, hpr⟩

/-! ### coverage of one generator call -/

/-- addresses × ports modes (subnet, or address file with ranges): one chunk -/
theorem base_cover_cross (tbl : List Group) (htbl : ∀ r ∈ tbl, SxVerif.Pratt.RowOK r)
    (hsorted : List.Pairwise (fun a b : Group => a.P < b.P) tbl)
    (hpmax : (tbl.map (·.P)).foldl max 0 = 2 ^ 32 + 61)
    (s : Spec) (content : List Line) (h : PairSpecOK s content) (hne : s.ports ≠ [])
    (c : List PortRange) (hc : PortsOK c) (hcne : c ≠ []) (dp di : Draws) (opens : Nat) :
    ∃ b, ipPortBase tbl s c dp di opens = .ok b ∧
      b.Perm ((cross (portsOf c) (denoteAddrs s content)).map mk) := by
  obtain ⟨src, ports, excl, cache⟩ := s
  have hemp : ports.isEmpty = false := by simpa using hne
  have hsrc := h.src
  cases src with
  | subnet net =>
    obtain ⟨⟨n, rfl, hn⟩, _⟩ := hsrc
    exact ipPortGen_perm tbl htbl hsorted hpmax c hc hcne dp _ (addrsOfNet n)
      (fun k => ipGen_perm tbl htbl hsorted hpmax n hn (di k))
  | file f =>
    obtain ⟨hopen, hcontent⟩ := hsrc
    simp only [hemp, Bool.false_eq_true, if_false] at hcontent
    simp only [ipPortBase, hemp, Bool.false_eq_true, if_false, hopen]
    exact ipPortGen_perm tbl htbl hsorted hpmax c hc hcne dp _ (content.filterMap lineAddr)
      (fun k => ⟨_, rfl, by rw [fileIPs_ok content hcontent]⟩)

/-- pairs-file mode: the chunk is irrelevant -/
theorem base_cover_pairs (tbl : List Group) (s : Spec) (content : List Line)
    (h : PairSpecOK s content) (he : s.ports = []) (c : List PortRange) (dp di : Draws) (opens : Nat) :
    ∃ b, ipPortBase tbl s c dp di opens = .ok b ∧ b.Perm ((denotePairs s content).map mk) := by
  obtain ⟨src, ports, excl, cache⟩ := s
  subst he
  have hsrc := h.src
  cases src with
  | subnet net => exact absurd rfl hsrc.2
  | file f =>
    obtain ⟨hopen, hcontent⟩ := hsrc
    simp only [List.isEmpty_nil, if_true] at hcontent
    refine ⟨filePairs content, by simp [ipPortBase, hopen], ?_⟩
    rw [filePairs_ok content hcontent]
    exact List.Perm.refl _

theorem pairSpec_src_ne (s : Spec) (content : List Line) (h : PairSpecOK s content) :
    s.src ≠ .subnet none := by
  intro hs
  have := h.src
  rw [hs] at this
  obtain ⟨⟨n, hn, _⟩, _⟩ := this
  cases hn

/-- all ranges as one chunk (application scans) -/
theorem base_cover_all (tbl : List Group) (htbl : ∀ r ∈ tbl, SxVerif.Pratt.RowOK r)
    (hsorted : List.Pairwise (fun a b : Group => a.P < b.P) tbl)
    (hpmax : (tbl.map (·.P)).foldl max 0 = 2 ^ 32 + 61)
    (s : Spec) (content : List Line) (h : PairSpecOK s content) (dp di : Draws) (opens : Nat) :
    ∃ b, ipPortBase tbl s s.ports dp di opens = .ok b ∧ b.Perm ((denotePairs s content).map mk) := by
  by_cases he : s.ports = []
  · exact base_cover_pairs tbl s content h he s.ports dp di opens
  · rw [denotePairs_cross s content he (pairSpec_src_ne s content h)]
    exact base_cover_cross tbl htbl hsorted hpmax s content h he s.ports h.ports he dp di opens

/-! ### the chunk loop -/

theorem go_nil (tbl : List Group) (s : Spec) (dp di : Nat → Draws) (j opens : Nat) :
    portScanRuns.go tbl s dp di j opens [] = [] := by
  simp [portScanRuns.go]

theorem go_cons (tbl : List Group) (s : Spec) (dp di : Nat → Draws) (j opens : Nat)
    (c : List PortRange) (cs : List (List PortRange)) :
    portScanRuns.go tbl s dp di j opens (c :: cs) =
      ipPortRequests tbl s c (dp j) (di j) opens ::
        portScanRuns.go tbl s dp di (j + 1) (opens + opensOfRun s c) cs := by
  simp [portScanRuns.go]

/-- if every chunk's generator call covers `f chunk`, the runs together cover the concatenation.
    `allOk` is any fold with the two defining equations of `C01.allOk`. -/
theorem go_cover (allOk : List (Except Cause (List Req)) → Option (List Req))
    (h0 : allOk [] = some [])
    (h1 : ∀ rs rest, allOk (.ok rs :: rest) = (allOk rest).map (rs ++ ·))
    (tbl : List Group) (s : Spec) (dp di : Nat → Draws) (f : List PortRange → List (Addr × Nat)) :
    ∀ (cs : List (List PortRange)),
      (∀ c ∈ cs, ∀ j opens, ∃ b, ipPortBase tbl s c (dp j) (di j) opens = .ok b ∧
        b.Perm ((f c).map mk)) →
      ∀ j opens, ∃ b, allOk (portScanRuns.go tbl s dp di j opens cs)
          = some (stageList s.excl s.cache b) ∧ b.Perm ((cs.flatMap f).map mk)
  | [], _, j, opens => ⟨[], by rw [go_nil, h0, stageList_nil], by simp⟩
  | c :: cs, h, j, opens => by
    obtain ⟨b, hb, hbp⟩ := h c (by simp) j opens
    obtain ⟨b', hb', hbp'⟩ := go_cover allOk h0 h1 tbl s dp di f cs
      (fun c' hc' => h c' (List.mem_cons_of_mem _ hc')) (j + 1) (opens + opensOfRun s c)
    refine ⟨b ++ b', ?_, ?_⟩
    · rw [go_cons, ipPortRequests_eq, hb, stages_ok, h1, hb', stageList_append]; rfl
    · rw [List.flatMap_cons, List.map_append]
      exact hbp.append hbp'

theorem go_mem (tbl : List Group) (s : Spec) (dp di : Nat → Draws) :
    ∀ (cs : List (List PortRange)) (j opens : Nat),
      ∀ run ∈ portScanRuns.go tbl s dp di j opens cs,
        ∃ c ∈ cs, ∃ j' opens', run = ipPortRequests tbl s c (dp j') (di j') opens'
  | [], j, opens, run, h => by rw [go_nil] at h; simp at h
  | c :: cs, j, opens, run, h => by
    rw [go_cons, List.mem_cons] at h
    rcases h with rfl | h
    · exact ⟨c, by simp, j, opens, rfl⟩
    · obtain ⟨c', hc', j', o', hr⟩ := go_mem tbl s dp di cs _ _ run h
      exact ⟨c', List.mem_cons_of_mem _ hc', j', o', hr⟩

/-! ### C01 -/

/-- **coverage, packet (address, port) scans**.  `allOk` is instantiated with `C01.allOk`; its two
    defining equations are all that is used of it. -/
theorem port_scan_cover (tbl : List Group) (htbl : ∀ r ∈ tbl, SxVerif.Pratt.RowOK r)
    (hsorted : List.Pairwise (fun a b : Group => a.P < b.P) tbl)
    (hpmax : (tbl.map (·.P)).foldl max 0 = 2 ^ 32 + 61)
    (s : Spec) (content : List Line) (h : PairSpecOK s content)
    (size : Nat) (emptyRunsOnce : Bool) (hsize : 0 < size) (hempty : emptyRunsOnce = true)
    (dp di : Nat → Draws)
    (allOk : List (Except Cause (List Req)) → Option (List Req))
    (h0 : allOk [] = some [])
    (h1 : ∀ rs rest, allOk (.ok rs :: rest) = (allOk rest).map (rs ++ ·)) :
    ∃ rs, allOk (portScanRuns tbl s size emptyRunsOnce dp di) = some rs ∧
      (rs.map (fun r => (r.dst, r.port))).Perm
        ((expectedPairs s content).map (fun ap => (some ap.1, ap.2))) ∧
      (∀ r ∈ rs, r.err = none ∨ r.err = some .noMAC) ∧
      ((s.cache = none ∨ ∃ c g, s.cache = some (c, some g)) → ∀ r ∈ rs, r.err = none) := by
  have key : ∃ b, allOk (portScanRuns tbl s size emptyRunsOnce dp di)
      = some (stageList s.excl s.cache b) ∧ b.Perm ((denotePairs s content).map mk) := by
    unfold portScanRuns
    by_cases he : s.ports = []
    · have hch : chunks size emptyRunsOnce s.ports = [[]] :=
        (chunks_spec size emptyRunsOnce hsize hempty s.ports).2.2 he
      rw [hch]
      obtain ⟨b, hb, hbp⟩ := go_cover allOk h0 h1 tbl s dp di (fun _ => denotePairs s content) [[]]
        (fun c _ j opens => base_cover_pairs tbl s content h he c (dp j) (di j) opens) 0 0
      exact ⟨b, hb, by simpa using hbp⟩
    · have hflat := chunks_flatten size emptyRunsOnce hsize s.ports he
      have hcne := chunks_ne_nil size emptyRunsOnce hsize s.ports he
      have hmem := chunks_mem size emptyRunsOnce s.ports
      obtain ⟨b, hb, hbp⟩ := go_cover allOk h0 h1 tbl s dp di
        (fun c => cross (portsOf c) (denoteAddrs s content)) (chunks size emptyRunsOnce s.ports)
        (fun c hc j opens => base_cover_cross tbl htbl hsorted hpmax s content h he c
          (fun r hr => h.ports r (hmem c hc r hr)) (hcne c hc) (dp j) (di j) opens) 0 0
      refine ⟨b, hb, ?_⟩
      rw [flatMap_cross, hflat] at hbp
      rw [denotePairs_cross s content he (pairSpec_src_ne s content h)]
      exact hbp
  obtain ⟨b, hb, hbp⟩ := key
  have hg := good_of_perm s.excl s.cache (denotePairs s content) b hbp
  exact ⟨_, hb, hg.tgts, hg.errs, hg.noerr⟩

/-- **coverage, application scans** (one run over all ranges, no ARP stage) -/
theorem generic_cover (tbl : List Group) (htbl : ∀ r ∈ tbl, SxVerif.Pratt.RowOK r)
    (hsorted : List.Pairwise (fun a b : Group => a.P < b.P) tbl)
    (hpmax : (tbl.map (·.P)).foldl max 0 = 2 ^ 32 + 61)
    (s : Spec) (content : List Line) (h : PairSpecOK s content) (dp di : Draws) :
    ∃ rs, genericRun tbl s dp di = .ok rs ∧
      (probes rs).Perm (expectedPairs s content) ∧ ∀ r ∈ rs, r.err = none := by
  obtain ⟨b, hb, hbp⟩ := base_cover_all tbl htbl hsorted hpmax s content h dp di 0
  have hrun : genericRun tbl s dp di = .ok (stageList s.excl none b) := by
    have : genericRun tbl s dp di = stages s.excl none (ipPortBase tbl s s.ports dp di 0) := rfl
    rw [this, hb, stages_ok]
  have hg := good_of_perm s.excl none (denotePairs s content) b hbp
  have hne := hg.noerr (Or.inl rfl)
  exact ⟨_, hrun, hg.probes_perm hne, hne⟩

/-- the address generator of a valid port-less specification -/
theorem ipBase_cover (tbl : List Group) (htbl : ∀ r ∈ tbl, SxVerif.Pratt.RowOK r)
    (hsorted : List.Pairwise (fun a b : Group => a.P < b.P) tbl)
    (hpmax : (tbl.map (·.P)).foldl max 0 = 2 ^ 32 + 61)
    (s : Spec) (content : List Line) (h : AddrSpecOK s content) (d : Nat × Nat) :
    ∃ l, ipBase tbl s d = .ok l ∧ l.Perm ((denoteAddrs s content).map IpItem.ip) := by
  obtain ⟨src, ports, excl, cache⟩ := s
  have hsrc := h.src
  cases src with
  | subnet net =>
    obtain ⟨n, rfl, hn⟩ := hsrc
    exact ipGen_perm tbl htbl hsorted hpmax n hn d
  | file f =>
    obtain ⟨hopen, hcontent⟩ := hsrc
    refine ⟨fileIPs content, by simp [ipBase, hopen], ?_⟩
    rw [fileIPs_ok content hcontent]
    exact List.Perm.refl _

/-- **coverage, port-less scans** (arp, icmp) -/
theorem ip_scan_cover (tbl : List Group) (htbl : ∀ r ∈ tbl, SxVerif.Pratt.RowOK r)
    (hsorted : List.Pairwise (fun a b : Group => a.P < b.P) tbl)
    (hpmax : (tbl.map (·.P)).foldl max 0 = 2 ^ 32 + 61)
    (s : Spec) (content : List Line) (h : AddrSpecOK s content) (d : Nat × Nat) :
    ∃ rs, ipRequests tbl s d = .ok rs ∧
      (rs.map (·.dst)).Perm ((expectedAddrs s content).map some) ∧
      (∀ r ∈ rs, r.err = none ∨ r.err = some .noMAC) ∧
      ((s.cache = none ∨ ∃ c g, s.cache = some (c, some g)) → ∀ r ∈ rs, r.err = none) := by
  obtain ⟨l, hl, hlp⟩ := ipBase_cover tbl htbl hsorted hpmax s content h d
  obtain ⟨g, hg1, _, hg3⟩ := ipReqGen_map
  have hrun : ipRequests tbl s d = .ok (stageList s.excl s.cache (l.map g)) := by
    rw [ipRequests_eq, hl, hg3]
    exact stages_ok _ _ _
  have hbp : (l.map g).Perm (((denoteAddrs s content).map (fun a => (a, 0))).map mk) := by
    refine (hlp.map g).trans ?_
    rw [List.map_map, List.map_map]
    have : g ∘ IpItem.ip = mk ∘ (fun a => (a, 0)) := by funext a; exact hg1 a
    rw [this]
  have hgood := good_of_perm s.excl s.cache _ _ hbp
  refine ⟨_, hrun, ?_, hgood.errs, hgood.noerr⟩
  have ht := hgood.tgts.map Prod.fst
  rw [List.map_map, List.filter_map, List.map_map, List.map_map] at ht
  exact ht

/-! ### C02: confinement of one generator call -/

theorem ipGen_mem (tbl : List Group) (htbl : ∀ r ∈ tbl, SxVerif.Pratt.RowOK r)
    (hsorted : List.Pairwise (fun a b : Group => a.P < b.P) tbl)
    (hpmax : (tbl.map (·.P)).foldl max 0 = 2 ^ 32 + 61)
    (n : Net) (hn : NetOK n) (d : Nat × Nat) (l : List IpItem)
    (h : ipGen tbl (some n) d = .ok l) (a : Addr) (ha : IpItem.ip a ∈ l) : a ∈ addrsOfNet n := by
  obtain ⟨l', hl', hp⟩ := ipGen_perm tbl htbl hsorted hpmax n hn d
  rw [hl'] at h
  obtain rfl : l' = l := by injection h
  have := hp.mem_iff.mp ha
  rw [List.mem_map] at this
  obtain ⟨a', ha', he⟩ := this
  injection he with he
  exact he ▸ ha'

theorem base_confined (tbl : List Group) (htbl : ∀ r ∈ tbl, SxVerif.Pratt.RowOK r)
    (hsorted : List.Pairwise (fun a b : Group => a.P < b.P) tbl)
    (hpmax : (tbl.map (·.P)).foldl max 0 = 2 ^ 32 + 61)
    (s : Spec) (content : List Line)
    (hsrc : match s.src with
      | .subnet net => ∃ n, net = some n ∧ NetOK n
      | .file openFile => ∀ k, openFile k = some content ∨ openFile k = none)
    (c : List PortRange) (dp di : Draws) (opens : Nat) (b : List Req)
    (h : ipPortBase tbl s c dp di opens = .ok b) (ap : Addr × Nat) (hap : ap ∈ probes b) :
    ap.1 ∈ denoteAddrs s content ∧
      (ap.2 ∈ portsOf c ∨ (s.ports = [] ∧ ap ∈ content.filterMap linePair)) := by
  obtain ⟨src, ports, excl, cache⟩ := s
  cases src with
  | subnet net =>
    obtain ⟨n, rfl, hn⟩ := hsrc
    have := ipPortGen_mem tbl htbl hsorted c dp _ (addrsOfNet n)
      (fun k l hl a ha => ipGen_mem tbl htbl hsorted hpmax n hn (di k) l hl a ha) b h ap hap
    exact ⟨this.1, Or.inl this.2⟩
  | file f =>
    by_cases hemp : ports.isEmpty = true
    · simp only [ipPortBase, hemp, if_true] at h
      rcases hsrc opens with ho | ho
      · rw [ho] at h
        obtain rfl : filePairs content = b := by injection h
        have := filePairs_mem ap content hap
        exact ⟨this.2, Or.inr ⟨by simpa using hemp, this.1⟩⟩
      · rw [ho] at h
        cases h
    · simp only [ipPortBase, hemp, Bool.false_eq_true, if_false] at h
      have := ipPortGen_mem tbl htbl hsorted c dp _ (content.filterMap lineAddr)
        (fun k l hl a ha => by
          rcases hsrc (opens + k) with ho | ho
          · rw [ho] at hl
            obtain rfl : fileIPs content = l := by injection hl
            exact fileIPs_mem a content ha
          · rw [ho] at hl
            cases hl) b h ap hap
      exact ⟨this.1, Or.inl this.2⟩

/-- one engine run, any chunk of the ranges -/
theorem run_confined (tbl : List Group) (htbl : ∀ r ∈ tbl, SxVerif.Pratt.RowOK r)
    (hsorted : List.Pairwise (fun a b : Group => a.P < b.P) tbl)
    (hpmax : (tbl.map (·.P)).foldl max 0 = 2 ^ 32 + 61)
    (s : Spec) (content : List Line)
    (hsrc : match s.src with
      | .subnet net => ∃ n, net = some n ∧ NetOK n
      | .file openFile => ∀ k, openFile k = some content ∨ openFile k = none)
    (cache : Option (List (Addr × Nat) × Option Nat))
    (c : List PortRange) (hc : ∀ r ∈ c, r ∈ s.ports) (dp di : Draws) (opens : Nat) (rs : List Req)
    (h : stages s.excl cache (ipPortBase tbl s c dp di opens) = .ok rs) :
    ∀ ap ∈ probes rs,
      ap.1 ∈ denoteAddrs s content ∧ isExcluded s.excl ap.1 = false ∧
      (ap.2 ∈ portsOf s.ports ∨ (s.ports = [] ∧ (ap.1, ap.2) ∈ content.filterMap linePair)) := by
  intro ap hap
  obtain ⟨b, hb, rfl⟩ := stages_eq_ok _ _ _ rs h
  obtain ⟨hpb, hex⟩ := probes_stageList _ _ b ap hap
  obtain ⟨ha, hp⟩ := base_confined tbl htbl hsorted hpmax s content hsrc c dp di opens b hb ap hpb
  refine ⟨ha, hex, ?_⟩
  rcases hp with hp | hp
  · exact Or.inl (portsOf_subset c s.ports hc ap.2 hp)
  · exact Or.inr hp

/-- **confinement, packet (address, port) scans**: any chunk size, any file content -/
theorem confined_port_scan (tbl : List Group) (htbl : ∀ r ∈ tbl, SxVerif.Pratt.RowOK r)
    (hsorted : List.Pairwise (fun a b : Group => a.P < b.P) tbl)
    (hpmax : (tbl.map (·.P)).foldl max 0 = 2 ^ 32 + 61)
    (s : Spec) (content : List Line)
    (hsrc : match s.src with
      | .subnet net => ∃ n, net = some n ∧ NetOK n
      | .file openFile => ∀ k, openFile k = some content ∨ openFile k = none)
    (size : Nat) (emptyRunsOnce : Bool) (dp di : Nat → Draws) :
    ∀ run ∈ portScanRuns tbl s size emptyRunsOnce dp di, ∀ rs, run = .ok rs →
      ∀ ap ∈ probes rs,
        ap.1 ∈ denoteAddrs s content ∧ isExcluded s.excl ap.1 = false ∧
        (ap.2 ∈ portsOf s.ports ∨ (s.ports = [] ∧ (ap.1, ap.2) ∈ content.filterMap linePair)) := by
  intro run hrun rs hrs
  unfold portScanRuns at hrun
  obtain ⟨c, hc, j, opens, rfl⟩ := go_mem tbl s dp di _ 0 0 run hrun
  rw [ipPortRequests_eq] at hrs
  exact run_confined tbl htbl hsorted hpmax s content hsrc s.cache c
    (chunks_mem size emptyRunsOnce s.ports c hc) (dp j) (di j) opens rs hrs

/-- **confinement, application scans** -/
theorem confined_generic (tbl : List Group) (htbl : ∀ r ∈ tbl, SxVerif.Pratt.RowOK r)
    (hsorted : List.Pairwise (fun a b : Group => a.P < b.P) tbl)
    (hpmax : (tbl.map (·.P)).foldl max 0 = 2 ^ 32 + 61)
    (s : Spec) (content : List Line)
    (hsrc : match s.src with
      | .subnet net => ∃ n, net = some n ∧ NetOK n
      | .file openFile => ∀ k, openFile k = some content ∨ openFile k = none)
    (dp di : Draws) (rs : List Req) (h : genericRun tbl s dp di = .ok rs) :
    ∀ ap ∈ probes rs,
      ap.1 ∈ denoteAddrs s content ∧ isExcluded s.excl ap.1 = false ∧
      (ap.2 ∈ portsOf s.ports ∨ (s.ports = [] ∧ (ap.1, ap.2) ∈ content.filterMap linePair)) := by
  have : genericRun tbl s dp di = stages s.excl none (ipPortBase tbl s s.ports dp di 0) := rfl
  rw [this] at h
  exact run_confined tbl htbl hsorted hpmax s content hsrc none s.ports (fun _ hr => hr) dp di 0 rs h

/-- **confinement, port-less scans** -/
theorem confined_ip_scan (tbl : List Group) (htbl : ∀ r ∈ tbl, SxVerif.Pratt.RowOK r)
    (hsorted : List.Pairwise (fun a b : Group => a.P < b.P) tbl)
    (hpmax : (tbl.map (·.P)).foldl max 0 = 2 ^ 32 + 61)
    (s : Spec) (content : List Line)
    (hsrc : match s.src with
      | .subnet net => ∃ n, net = some n ∧ NetOK n
      | .file openFile => openFile 0 = some content ∨ openFile 0 = none)
    (d : Nat × Nat) (rs : List Req) (h : ipRequests tbl s d = .ok rs) :
    ∀ ap ∈ probes rs, ap.1 ∈ denoteAddrs s content ∧ isExcluded s.excl ap.1 = false := by
  intro ap hap
  rw [ipRequests_eq] at h
  obtain ⟨b, hb, rfl⟩ := stages_eq_ok _ _ _ rs h
  obtain ⟨hpb, hex⟩ := probes_stageList _ _ b ap hap
  refine ⟨?_, hex⟩
  obtain ⟨g, hg1, hg2, hg3⟩ := ipReqGen_map
  rw [hg3] at hb
  cases hl : ipBase tbl s d with
  | error e => rw [hl] at hb; cases hb
  | ok l =>
    rw [hl] at hb
    obtain rfl : l.map g = b := by injection hb
    -- the probe comes from an address item of `l`
    rw [mem_probes] at hpb
    obtain ⟨r, hr, he, hd, _⟩ := hpb
    rw [List.mem_map] at hr
    obtain ⟨it, hit, rfl⟩ := hr
    have hitem : IpItem.ip ap.1 ∈ l := by
      cases it with
      | err c => rw [hg2] at he; cases he
      | ip a =>
        rw [hg1] at hd
        obtain rfl : a = ap.1 := by simpa [mk] using hd
        exact hit
    -- … and `l` only holds source addresses
    obtain ⟨src, ports, excl, cache⟩ := s
    cases src with
    | subnet net =>
      obtain ⟨n, rfl, hn⟩ := hsrc
      exact ipGen_mem tbl htbl hsorted hpmax n hn d l hl _ hitem
    | file f =>
      simp only [ipBase] at hl
      rcases hsrc with ho | ho
      · rw [ho] at hl
        obtain rfl : fileIPs content = l := by injection hl
        exact fileIPs_mem _ content hitem
      · rw [ho] at hl
        cases hl

end SxVerif.Proofs.Gen
