/-
Lemmas for C03, part 1: what the denotation of each filter expression is on a frame whose IPv4 (or ARP)
header bytes are known to be present — `eval` collapses to a plain boolean over those bytes.
-/
import SxVerif.Model.Bpf

namespace SxVerif.Proofs.Bpf
open SxVerif.Frame SxVerif.Bpf

/-! ### netmask arithmetic -/

theorem land_mask (a k : Nat) (hk : k ≤ 32) (ha : a < 2 ^ 32) :
    Nat.land a (4294967296 - 2 ^ k) = a / 2 ^ k * 2 ^ k := by
  show a &&& (4294967296 - 2 ^ k) = a / 2 ^ k * 2 ^ k
  have hm : 4294967296 - 2 ^ k = (2 ^ (32 - k) - 1) * 2 ^ k := by
    rw [Nat.sub_mul, ← Nat.pow_add, Nat.sub_add_cancel hk]; simp
  rw [hm]
  apply Nat.eq_of_testBit_eq
  intro i
  rw [Nat.testBit_and, Nat.testBit_mul_two_pow, Nat.testBit_mul_two_pow, Nat.testBit_two_pow_sub_one,
    Nat.testBit_div_two_pow]
  by_cases hik : k ≤ i
  · simp only [hik, decide_true, Bool.true_and]
    have e : i - k + k = i := by omega
    rw [e]
    by_cases h32 : i < 32
    · have : i - k < 32 - k := by omega
      simp [this]
    · have hlt : a < 2 ^ i := Nat.lt_of_lt_of_le ha (Nat.pow_le_pow_right (by decide) (by omega))
      simp [Nat.testBit_lt_two_pow hlt]
  · simp [hik]

/-! ### three-valued connectives on known values -/

@[simp] theorem and3_some (a : Bool) (b : Bool) : and3 (some a) (some b) = some (a && b) := by
  cases a <;> rfl

@[simp] theorem or3_some (a : Bool) (b : Bool) : or3 (some a) (some b) = some (a || b) := by
  cases a <;> rfl

@[simp] theorem and3_false (b : Option Bool) : and3 (some false) b = some false := rfl
@[simp] theorem and3_true (b : Option Bool) : and3 (some true) b = b := rfl
@[simp] theorem or3_false (b : Option Bool) : or3 (some false) b = b := rfl
@[simp] theorem or3_true (b : Option Bool) : or3 (some true) b = some true := rfl

theorem eval_and' (m : LinkMode) (f : Bytes) (a b : Expr) : eval m f (.and a b) = and3 (eval m f a) (eval m f b) := by
  rw [eval]

theorem eval_or' (m : LinkMode) (f : Bytes) (a b : Expr) : eval m f (.or a b) = or3 (eval m f a) (eval m f b) := by
  rw [eval]

theorem eval_paren' (m : LinkMode) (f : Bytes) (e : Expr) : eval m f (.paren e) = eval m f e := by
  rw [eval]

/-! ### the IPv4 context -/

/-- the loads every IPv4 primitive performs succeed: link type says IPv4, first byte, protocol, flags/offset -/
structure V4 (m : LinkMode) (f : Bytes) (b0 proto ff : Nat) : Prop where
  isIP : isIP m f = some true
  hb0 : u8 f (linkLen m) = some b0
  hproto : u8 f (linkLen m + 9) = some proto
  hff : u16 f (linkLen m + 6) = some ff

theorem isIP6_of_isIP {m : LinkMode} {f : Bytes} (h : isIP m f = some true) : isIP6 m f = some false := by
  cases m with
  | rawIPv4 => rfl
  | ethernet =>
    simp only [isIP, isIP6, linkIs] at h ⊢
    cases he : u16 f 12 with
    | none => simp [he] at h
    | some et =>
      simp only [he, Option.map_some, Option.some.injEq, beq_iff_eq] at h ⊢
      subst h
      decide

theorem isARP_of_isIP {m : LinkMode} {f : Bytes} (h : isIP m f = some true) : isARP m f = some false := by
  cases m with
  | rawIPv4 => rfl
  | ethernet =>
    simp only [isIP, isARP, linkIs] at h ⊢
    cases he : u16 f 12 with
    | none => simp [he] at h
    | some et =>
      simp only [he, Option.map_some, Option.some.injEq, beq_iff_eq] at h ⊢
      subst h
      decide

section
variable {m : LinkMode} {f : Bytes} {b0 proto ff : Nat}

theorem eval_tcp (c : V4 m f b0 proto ff) : eval m f .tcp = some (proto == 6) := by
  simp only [eval, c.isIP, isIP6_of_isIP c.isIP, byteIs, c.hproto, Option.map_some, and3_true, and3_false]
  cases (proto == 6) <;> rfl

theorem eval_icmp (c : V4 m f b0 proto ff) : eval m f .icmp = some (proto == 1) := by
  simp only [eval, c.isIP, byteIs, c.hproto, Option.map_some, and3_true]

/-- value of the network comparison on a loaded source address -/
def netVal (n : Net) (a : Nat) : Bool :=
  if n.bits = 0 then n.addr == 0 else Nat.land a (maskOf n.bits) == n.addr

theorem netMatch_some {f : Bytes} {off a : Nat} (n : Net) (ha : u32 f off = some a) :
    netMatch f off n = some (netVal n a) := by
  unfold netMatch netVal
  split
  · rfl
  · simp [ha]

theorem eval_ipSrcNet (c : V4 m f b0 proto ff) {a : Nat} (n : Net) (ha : u32 f (linkLen m + 12) = some a) :
    eval m f (.ipSrcNet n) = some (netVal n a) := by
  simp only [eval, c.isIP, netMatch_some n ha, and3_true]

theorem eval_srcPortrange (c : V4 m f b0 proto ff) (hp6 : proto = 6) (hfr : ff % 8192 = 0) {p : Nat}
    (hp : u16 f (linkLen m + 4 * (b0 % 16)) = some p) (lo hi : Nat) :
    eval m f (.srcPortrange lo hi) = some (portIn lo hi p) := by
  subst hp6
  simp only [eval, c.isIP, isIP6_of_isIP c.isIP, byteIn, c.hproto, notLaterFragment, c.hff, ipHdrLen, c.hb0,
    Option.map_some, hp, hfr, and3_true, and3_false]
  simp

theorem eval_orList (c : V4 m f b0 proto ff) (hp6 : proto = 6) (hfr : ff % 8192 = 0) {p : Nat}
    (hp : u16 f (linkLen m + 4 * (b0 % 16)) = some p) :
    ∀ (q : Nat × Nat) (qs : List (Nat × Nat)),
      eval m f (orList (fun pr => .srcPortrange pr.1 pr.2) q qs) =
        some ((q :: qs).any (fun pr => portIn pr.1 pr.2 p))
  | q, [] => by
    simp only [orList, eval_srcPortrange c hp6 hfr hp, List.any_cons, List.any_nil, Bool.or_false]
  | q, q' :: rest => by
    simp only [orList, eval_or', eval_srcPortrange c hp6 hfr hp, eval_orList c hp6 hfr hp q' rest, or3_some,
      List.any_cons]

theorem eval_tcpByteEq (c : V4 m f b0 proto ff) (hp6 : proto = 6) (hfr : ff % 8192 = 0) {off b : Nat}
    (hb : u8 f (linkLen m + 4 * (b0 % 16) + off) = some b) (val : Nat) :
    eval m f (.tcpByteEq off val) = some (b == val) := by
  subst hp6
  simp only [eval, c.isIP, byteIs, c.hproto, notLaterFragment, c.hff, ipHdrLen, c.hb0, Option.map_some, hb, hfr,
    and3_true]
  simp

theorem eval_icmpByteNe (c : V4 m f b0 proto ff) (hp1 : proto = 1) (hfr : ff % 8192 = 0) {off b : Nat}
    (hb : u8 f (linkLen m + 4 * (b0 % 16) + off) = some b) (val : Nat) :
    eval m f (.icmpByteNe off val) = some (b != val) := by
  subst hp1
  simp only [eval, c.isIP, byteIs, c.hproto, notLaterFragment, c.hff, ipHdrLen, c.hb0, Option.map_some, hb, hfr,
    and3_true]
  simp

/-- subnet clause of a filter on a loaded address -/
def subnetVal (r : Range) (a : Nat) : Bool :=
  match r.subnet with
  | none => true
  | some n => netVal n a

/-- port clause of a filter on a loaded port -/
def portsVal (r : Range) (p : Nat) : Bool :=
  r.ports.isEmpty || r.ports.any (fun pr => portIn pr.1 pr.2 p)

theorem eval_tcpBPFFilter (c : V4 m f b0 proto ff) (hp6 : proto = 6) (hfr : ff % 8192 = 0) {a p : Nat}
    (ha : u32 f (linkLen m + 12) = some a) (hp : u16 f (linkLen m + 4 * (b0 % 16)) = some p) (r : Range) :
    eval m f (tcpBPFFilter r) = some (subnetVal r a && portsVal r p) := by
  obtain ⟨subnet, ports⟩ := r
  have ht := eval_tcp c
  subst hp6
  cases subnet with
  | none =>
    cases ports with
    | nil => simp [tcpBPFFilter, ht, subnetVal, portsVal]
    | cons q qs =>
      simp [tcpBPFFilter, eval_and', eval_paren', ht, subnetVal, portsVal, eval_orList c rfl hfr hp q qs]
  | some n =>
    cases ports with
    | nil => simp [tcpBPFFilter, eval_and', ht, subnetVal, portsVal, eval_ipSrcNet c n ha]
    | cons q qs =>
      simp [tcpBPFFilter, eval_and', eval_paren', ht, subnetVal, portsVal, eval_ipSrcNet c n ha,
        eval_orList c rfl hfr hp q qs]

theorem eval_synackBPFFilter (c : V4 m f b0 proto ff) (hp6 : proto = 6) (hfr : ff % 8192 = 0) {a p b13 : Nat}
    (ha : u32 f (linkLen m + 12) = some a) (hp : u16 f (linkLen m + 4 * (b0 % 16)) = some p)
    (hb : u8 f (linkLen m + 4 * (b0 % 16) + 13) = some b13) (r : Range) :
    eval m f (synackBPFFilter r) = some (subnetVal r a && portsVal r p && b13 == 18) := by
  simp only [synackBPFFilter, eval_and', eval_tcpBPFFilter c hp6 hfr ha hp r, eval_tcpByteEq c hp6 hfr hb 18, and3_some]

theorem eval_icmpBPFFilter (c : V4 m f b0 proto ff) (hp1 : proto = 1) (hfr : ff % 8192 = 0) {a typ : Nat}
    (ha : u32 f (linkLen m + 12) = some a) (ht : u8 f (linkLen m + 4 * (b0 % 16)) = some typ) (r : Range) :
    eval m f (icmpBPFFilter r) = some (typ != 8 && subnetVal r a) := by
  obtain ⟨subnet, ports⟩ := r
  have hi := eval_icmp c
  have hb : u8 f (linkLen m + 4 * (b0 % 16) + 0) = some typ := ht
  have hne := eval_icmpByteNe c hp1 hfr hb 8
  subst hp1
  cases subnet with
  | none => simp [icmpBPFFilter, eval_and', hi, hne, subnetVal]
  | some n => simp [icmpBPFFilter, eval_and', hi, hne, subnetVal, eval_ipSrcNet c n ha]

end

/-- on a frame that is not IPv4 at the link layer, no filter built from `tcp … and tcp[13]`, `icmp …` passes:
    not needed for the composition (the processor side already demands IPv4), kept out. -/
theorem eval_arpBPFFilter {f : Bytes} {a : Nat} (he : u16 f 12 = some 0x0806) (ha : u32 f 28 = some a) (r : Range) :
    eval .ethernet f (arpBPFFilter r) = some (subnetVal r a) := by
  obtain ⟨subnet, ports⟩ := r
  cases subnet with
  | none => simp [arpBPFFilter, eval, isARP, linkIs, he, subnetVal]
  | some n =>
    have : netMatch f (linkLen .ethernet + 14) n = some (netVal n a) := netMatch_some n ha
    simp [arpBPFFilter, eval, isARP, linkIs, he, subnetVal, this]

end SxVerif.Proofs.Bpf
