/-
Lemmas for C03, part 2: elimination of the flat header chains of `Spec/Frame.lean` into byte facts, the
option walkers of model and spec agree, and the *forward* direction of each decoder (explicit byte
conditions ⇒ the decoder succeeds with explicit state, next layer and payload) — the converse of the
`decodeX_ok` lemmas of `Proofs/Frame1.lean`.
-/
import SxVerif.Proofs.Frame
import SxVerif.Spec.Reply

namespace SxVerif.Proofs.Reply
open SxVerif.Frame SxVerif.Proc SxVerif.Spec.Frame SxVerif.Spec.Reply SxVerif.Proofs.Frame

/-! ### option walkers -/

theorem ipOptionsOK_eq_strict : ∀ (n : Nat) (xs : Bytes), ipOptionsOK n xs = ipOptionsStrict n xs
  | 0, _ => by simp [ipOptionsOK, ipOptionsStrict]
  | _ + 1, [] => by simp [ipOptionsOK, ipOptionsStrict]
  | n + 1, t :: rest => by
    unfold ipOptionsOK ipOptionsStrict
    by_cases h0 : t.toNat = 0
    · simp [h0]
    · by_cases h1 : t.toNat = 1
      · simp only [h1, if_true]
        exact ipOptionsOK_eq_strict n rest
      · simp only [h0, h1, if_false]
        cases rest with
        | nil => rfl
        | cons l tl =>
          simp only [List.length_cons]
          have ih := ipOptionsOK_eq_strict n ((t :: l :: tl).drop l.toNat)
          by_cases c1 : tl.length + 1 + 1 < l.toNat
          · have : ¬ (l.toNat ≤ tl.length + 1 + 1) := by omega
            simp [c1, this]
          · by_cases c2 : l.toNat ≤ 2
            · have : ¬ (3 ≤ l.toNat) := by omega
              simp [c1, c2, this]
            · have a : 3 ≤ l.toNat := by omega
              have b : l.toNat ≤ tl.length + 1 + 1 := by omega
              simp [c1, c2, a, b, ih]

theorem tcpOptionsOK_eq_spec : ∀ (n : Nat) (xs : Bytes), tcpOptionsOK n xs = optionsOK n xs
  | 0, _ => by simp [tcpOptionsOK, optionsOK]
  | _ + 1, [] => by simp [tcpOptionsOK, optionsOK]
  | n + 1, t :: rest => by
    unfold tcpOptionsOK optionsOK
    by_cases h0 : t.toNat = 0
    · simp [h0]
    · by_cases h1 : t.toNat = 1
      · simp only [h1, if_true]
        exact tcpOptionsOK_eq_spec n rest
      · simp only [h0, h1, if_false]
        cases rest with
        | nil => rfl
        | cons l tl =>
          simp only [List.length_cons]
          have ih := tcpOptionsOK_eq_spec n ((t :: l :: tl).drop l.toNat)
          by_cases c1 : l.toNat < 2
          · have : ¬ (2 ≤ l.toNat) := by omega
            simp [c1, this]
          · by_cases c2 : l.toNat > tl.length + 1 + 1
            · have : ¬ (l.toNat ≤ tl.length + 1 + 1) := by omega
              simp [c1, c2, this]
            · have a : 2 ≤ l.toNat := by omega
              have b : l.toNat ≤ tl.length + 1 + 1 := by omega
              simp [c1, c2, a, b, ih]

/-! ### eliminating the spec chains -/

theorem ipv4At_some {f : Bytes} {o : Nat} {ip : IPv4View} (h : ipv4At f o = some ip) :
    o + 20 ≤ f.length ∧ ∃ b0 tl0 ff proto tl, u8 f o = some b0 ∧ u16 f (o + 2) = some tl0 ∧
      u16 f (o + 6) = some ff ∧ u8 f (o + 9) = some proto ∧
      tl = (if tl0 = 0 then (f.length - o) % 65536 else tl0) ∧
      b0 / 16 = 4 ∧ 5 ≤ b0 % 16 ∧ 20 ≤ tl ∧ b0 % 16 * 4 ≤ tl ∧ b0 % 16 * 4 ≤ f.length - o ∧
      ¬ ((ff / 8192) % 2 = 1 ∨ ff % 8192 ≠ 0) ∧
      optionsOK (((f.drop (o + 20)).take (b0 % 16 * 4 - 20)).length + 1)
        ((f.drop (o + 20)).take (b0 % 16 * 4 - 20)) = true ∧
      ip = { hlen := b0 % 16 * 4, dgEnd := o + min tl (f.length - o), proto := proto } := by
  unfold ipv4At at h
  by_cases hlen : o + 20 > f.length
  · simp [hlen] at h
  obtain ⟨b0, hb0⟩ := u8_some f (show o < f.length by omega)
  obtain ⟨tl0, htl0⟩ := u16_some f (show o + 2 + 1 < f.length by omega)
  obtain ⟨ff, hff⟩ := u16_some f (show o + 6 + 1 < f.length by omega)
  obtain ⟨proto, hproto⟩ := u8_some f (show o + 9 < f.length by omega)
  simp only [hlen, hb0, htl0, hff, hproto, if_false, Option.bind_eq_bind, Option.bind_some, Option.pure_def] at h
  refine ⟨by omega, b0, tl0, ff, proto, _, hb0, htl0, hff, hproto, rfl, ?_⟩
  generalize (if tl0 = 0 then (f.length - o) % 65536 else tl0) = tl at h ⊢
  split at h
  · simp at h
  rename_i c2
  split at h
  · simp at h
  rename_i c3
  split at h
  · simp at h
  rename_i c4
  simp only [Option.some.injEq] at h
  simp only [Bool.not_eq_true', Bool.not_eq_false] at c4
  exact ⟨by omega, by omega, by omega, by omega, by omega, c3, c4, h.symm⟩

theorem ipOffset_some {vpn : Bool} {f : Bytes} {o : Nat} (h : ipOffset vpn f = some o) :
    (vpn = true ∧ o = 0) ∨ (vpn = false ∧ o = 14 ∧ 14 ≤ f.length ∧ u16 f 12 = some 0x0800) := by
  unfold ipOffset at h
  cases vpn with
  | true => simp at h; exact .inl ⟨rfl, h.symm⟩
  | false =>
    simp only [Bool.false_eq_true, if_false] at h
    split at h
    · rename_i c; injection h with h; exact .inr ⟨rfl, h.symm, c.1, c.2⟩
    · cases h

theorem tcpChain_some {vpn : Bool} {f : Bytes} {v : TcpView} (h : tcpChain vpn f = some v) :
    ∃ o ip b12 b13 sport, ipOffset vpn f = some o ∧ ipv4At f o = some ip ∧ ip.proto = 6 ∧
      20 ≤ ip.dgEnd - (o + ip.hlen) ∧ u8 f (o + ip.hlen + 12) = some b12 ∧ u8 f (o + ip.hlen + 13) = some b13 ∧
      u16 f (o + ip.hlen) = some sport ∧ 5 ≤ b12 / 16 ∧ b12 / 16 * 4 ≤ ip.dgEnd - (o + ip.hlen) ∧
      optionsOK (((f.drop (o + ip.hlen + 20)).take (b12 / 16 * 4 - 20)).length + 1)
        ((f.drop (o + ip.hlen + 20)).take (b12 / 16 * 4 - 20)) = true ∧
      v = { src := (f.drop (o + 12)).take 4, sport := sport, flags := (b12 % 2) * 256 + b13 } := by
  unfold tcpChain at h
  cases ho : ipOffset vpn f with
  | none => simp [ho] at h
  | some o =>
    cases hip : ipv4At f o with
    | none => simp [ho, hip] at h
    | some ip =>
      simp only [ho, hip, Option.bind_eq_bind, Option.bind_some, Option.pure_def] at h
      split at h
      · simp at h
      rename_i c1
      try simp only [Option.bind_some] at h
      split at h
      · simp at h
      rename_i c2
      try simp only [Option.bind_some] at h
      cases hb12 : u8 f (o + ip.hlen + 12) with
      | none => simp [hb12] at h
      | some b12 =>
        cases hb13 : u8 f (o + ip.hlen + 13) with
        | none => simp [hb12, hb13] at h
        | some b13 =>
          cases hsp : u16 f (o + ip.hlen) with
          | none => simp [hb12, hb13, hsp] at h
          | some sport =>
            simp only [hb12, hb13, hsp, Option.bind_some] at h
            split at h
            · simp at h
            rename_i c3
            try simp only [Option.bind_some] at h
            split at h
            · simp at h
            rename_i c4
            simp only [Option.bind_some, Option.some.injEq] at h
            simp only [Bool.not_eq_true', Bool.not_eq_false] at c4
            exact ⟨o, ip, b12, b13, sport, rfl, hip, by simpa using c1, by omega, hb12, hb13, hsp, by omega, by omega,
              c4, h.symm⟩

theorem icmpChain_some {vpn : Bool} {f : Bytes} {v : IcmpView} (h : icmpChain vpn f = some v) :
    ∃ o ip ttl typ code, ipOffset vpn f = some o ∧ ipv4At f o = some ip ∧ ip.proto = 1 ∧
      8 ≤ ip.dgEnd - (o + ip.hlen) ∧ u8 f (o + 8) = some ttl ∧ u8 f (o + ip.hlen) = some typ ∧
      u8 f (o + ip.hlen + 1) = some code ∧
      v = { src := (f.drop (o + 12)).take 4, ttl := ttl, typ := typ, code := code } := by
  unfold icmpChain at h
  cases ho : ipOffset vpn f with
  | none => simp [ho] at h
  | some o =>
    cases hip : ipv4At f o with
    | none => simp [ho, hip] at h
    | some ip =>
      simp only [ho, hip, Option.bind_eq_bind, Option.bind_some, Option.pure_def] at h
      split at h
      · simp at h
      rename_i c1
      try simp only [Option.bind_some] at h
      split at h
      · simp at h
      rename_i c2
      try simp only [Option.bind_some] at h
      cases httl : u8 f (o + 8) with
      | none => simp [httl] at h
      | some ttl =>
        cases htyp : u8 f (o + ip.hlen) with
        | none => simp [httl, htyp] at h
        | some typ =>
          cases hcode : u8 f (o + ip.hlen + 1) with
          | none => simp [httl, htyp, hcode] at h
          | some code =>
            simp only [httl, htyp, hcode, Option.bind_some, Option.some.injEq] at h
            exact ⟨o, ip, ttl, typ, code, rfl, hip, by simpa using c1, by omega, httl, htyp, hcode, h.symm⟩

theorem arpChain_some {f : Bytes} {v : ArpView} (h : arpChain f = some v) :
    42 ≤ f.length ∧ u16 f 12 = some 0x0806 ∧ u16 f 14 = some 1 ∧ u16 f 16 = some 0x0800 ∧
      u8 f 18 = some 6 ∧ u8 f 19 = some 4 ∧ v = { mac := (f.drop 22).take 6, ip := (f.drop 28).take 4 } := by
  unfold arpChain at h
  split at h
  · rename_i c
    injection h with h
    exact ⟨c.1, c.2.1, c.2.2.1, c.2.2.2.1, c.2.2.2.2.1, c.2.2.2.2.2, h.symm⟩
  · cases h

end SxVerif.Proofs.Reply
