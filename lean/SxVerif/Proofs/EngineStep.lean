/-
`StepR`: the transitions of `Engine.next` spelled out as an inductive relation (one constructor per
enabled branch, workers addressed by a split `pre ++ w :: post` of the worker list), and the proof that
every `next` step is a `StepR` step.  All invariants are proved by cases on `StepR`.
-/
import SxVerif.Model.Engine

namespace SxVerif.Engine

theorem getElem?_split {α : Type} : ∀ (l : List α) (i : Nat) (a : α), l[i]? = some a →
    ∀ b, ∃ pre post, l = pre ++ a :: post ∧ l.set i b = pre ++ b :: post
  | [], i, a, h, _ => by simp at h
  | x :: xs, 0, a, h, b => by
    simp at h; subst h
    exact ⟨[], xs, by simp, by simp⟩
  | x :: xs, i + 1, a, h, b => by
    simp at h
    obtain ⟨pre, post, h1, h2⟩ := getElem?_split xs i a h b
    exact ⟨x :: pre, post, by simp [h1], by simp [h2]⟩

inductive StepR (c : Cfg) (s : Sys) : Sys → Prop where
  | genClose : s.pending = [] → s.reqClosed = false → StepR c s { s with reqClosed := true }
  | genDrop (r : Req) (rest : List Req) : s.pending = r :: rest → s.derCtx = true →
      StepR c s { s with pending := rest }
  | spawn : s.sup = .running → s.workers.length < c.W → StepR c s { s with workers := s.workers ++ [.idle] }
  | wgWait : s.sup = .running → s.workers.length = c.W → allExited s.workers = true →
      StepR c s { s with sup := .closingErrc }
  | closeErrcPanic : s.sup = .closingErrc → s.errcClosed = true →
      StepR c s { s with panicked := true, sup := .closingDone }
  | closeErrc : s.sup = .closingErrc → s.errcClosed = false →
      StepR c s { s with errcClosed := true, sup := .closingDone }
  | closeDonePanic : s.sup = .closingDone → s.doneClosed = true →
      StepR c s { s with panicked := true, sup := .finished }
  | closeDone : s.sup = .closingDone → s.doneClosed = false →
      StepR c s { s with doneClosed := true, sup := .finished, doneAt := some s.clock }
  -- workers
  | wRecvErr (pre post : List WPc) (r : Req) (rest : List Req) :
      s.workers = pre ++ .idle :: post → s.pending = r :: rest → r.isErr = true →
      StepR c s { s with pending := rest, recvd := s.recvd ++ [r], workers := pre ++ WPc.sendErr r :: post }
  | wRecvOk (pre post : List WPc) (r : Req) (rest : List Req) :
      s.workers = pre ++ .idle :: post → s.pending = r :: rest → r.isErr = false →
      StepR c s { s with pending := rest, recvd := s.recvd ++ [r], workers := pre ++ WPc.got r :: post }
  | wClosedExit (pre post : List WPc) :
      s.workers = pre ++ .idle :: post → s.pending = [] → s.reqClosed = true →
      StepR c s { s with workers := pre ++ .exited :: post }
  | wCtxExit (pre post : List WPc) :
      s.workers = pre ++ .idle :: post → s.derCtx = true →
      StepR c s { s with workers := pre ++ .exited :: post }
  | wScanResult (pre post : List WPc) (r : Req) :
      s.workers = pre ++ .got r :: post → r.out = .result →
      StepR c s { s with scans := s.scans ++ [r], workers := pre ++ WPc.put r :: post }
  | wScanNone (pre post : List WPc) (r : Req) :
      s.workers = pre ++ .got r :: post → r.out = .none →
      StepR c s { s with scans := s.scans ++ [r], workers := pre ++ WPc.idle :: post }
  | wScanError (pre post : List WPc) (r : Req) :
      s.workers = pre ++ .got r :: post → r.out = .error →
      StepR c s { s with scans := s.scans ++ [r], workers := pre ++ WPc.sendErr r :: post }
  | wSendErrPanic (pre post : List WPc) (r : Req) :
      s.workers = pre ++ .sendErr r :: post → s.errcClosed = true →
      StepR c s { s with panicked := true, workers := pre ++ .idle :: post }
  | wSendErr (pre post : List WPc) (r : Req) :
      s.workers = pre ++ .sendErr r :: post → s.errcClosed = false → s.errc.length < c.capErr →
      StepR c s { s with errc := s.errc ++ [r.id], errSent := s.errSent ++ [r.id],
                         workers := pre ++ .idle :: post }
  | wSendErrCtx (pre post : List WPc) (r : Req) :
      s.workers = pre ++ .sendErr r :: post → s.derCtx = true →
      StepR c s { s with workers := pre ++ .idle :: post }
  | wPut (pre post : List WPc) (r : Req) :
      s.workers = pre ++ .put r :: post → s.intRes.length < c.capRes →
      StepR c s { s with intRes := s.intRes ++ [r.id], puts := s.puts ++ [r.id],
                         workers := pre ++ .idle :: post }
  | wPutCtx (pre post : List WPc) (r : Req) :
      s.workers = pre ++ .put r :: post → s.cmdCtx = true →
      StepR c s { s with workers := pre ++ .idle :: post }
  -- copier
  | copRecv (v : Nat) (rest : List Nat) : s.cop = .idle → s.intRes = v :: rest →
      StepR c s { s with cop := .hold v, intRes := rest }
  | copSendPanic (v : Nat) : s.cop = .hold v → s.resClosed = true →
      StepR c s { s with panicked := true, cop := .idle }
  | copSend (v : Nat) : s.cop = .hold v → s.resClosed = false → s.results.length < c.capRes →
      StepR c s { s with results := s.results ++ [v], cop := .idle }
  | copCtxPanic : s.cmdCtx = true → s.cop ≠ .exited → s.resClosed = true →
      StepR c s { s with panicked := true, cop := .exited }
  | copCtx : s.cmdCtx = true → s.cop ≠ .exited → s.resClosed = false →
      StepR c s { s with cop := .exited, resClosed := true }
  -- logger
  | logRecv (v : Nat) (rest : List Nat) : s.log = .idle → s.results = v :: rest →
      StepR c s { s with log := .writing v, results := rest }
  | logClosed : s.log = .idle → s.results = [] → s.resClosed = true → StepR c s { s with log := .exited }
  | logWrite (v : Nat) : s.log = .writing v → StepR c s { s with log := .idle, printed := s.printed ++ [v] }
  | logCtx : s.log = .idle → s.derCtx = true → StepR c s { s with log := .exited }
  -- drain
  | drainRecv (e : Nat) (rest : List Nat) : s.drain = .idle → s.errc = e :: rest →
      StepR c s { s with drain := .logging e, errc := rest }
  | drainLog (e : Nat) : s.drain = .logging e →
      StepR c s { s with drain := .idle, errLogged := s.errLogged ++ [e] }
  | drainExit : s.drain = .idle → s.errc = [] → s.errcClosed = true → StepR c s { s with drain := .exited }
  -- controller
  | ctlDone : s.ctl = .waitDone → s.doneClosed = true →
      StepR c s { s with ctl := .waitTimer (s.clock + c.delay) }
  | ctlTimer (d : Nat) : s.ctl = .waitTimer d → d ≤ s.clock → StepR c s { s with ctl := .fired }
  | ctlCancel : s.ctl = .fired →
      StepR c s { s with ctl := .exited, derCtx := true, cancelAt := some s.clock,
                         inflightAtCancel := some s.inflightCount }
  | mainReturn : s.main = .waiting → s.log = .exited → s.drain = .exited →
      StepR c s { s with main := .returned, derCtx := true }
  -- external producer
  | extRead (t v : Nat) (rest : List (Nat × Nat)) : s.extPc = .idle → s.ext = (t, v) :: rest →
      s.derCtx = false → t ≤ s.clock →
      StepR c s { s with extPc := .hold v, ext := rest, extReads := s.extReads ++ [v] }
  | extPut (v : Nat) : s.extPc = .hold v → s.intRes.length < c.capRes →
      StepR c s { s with extPc := .idle, intRes := s.intRes ++ [v], puts := s.puts ++ [v],
                         extPuts := s.extPuts ++ [v] }
  | extCtx (v : Nat) : s.extPc = .hold v → s.cmdCtx = true → StepR c s { s with extPc := .idle }
  | tick : StepR c s { s with clock := s.clock + 1 }
  | cancelCmd : StepR c s { s with cmdCtx := true, derCtx := true }

theorem wstep_stepR {c : Cfg} {s : Sys} {pre post : List WPc} {w w' : WPc} {a : WAct} {sh : Sys}
    (hw : s.workers = pre ++ w :: post) (h : wstep c s w a = some (w', sh)) :
    StepR c s { sh with workers := pre ++ w' :: post } := by
  cases a with
  | recv =>
    simp only [wstep] at h
    split at h
    · rename_i r rest hp
      simp only [Option.some.injEq, Prod.mk.injEq] at h
      obtain ⟨rfl, rfl⟩ := h
      cases he : r.isErr with
      | true => simp only [if_true]; exact StepR.wRecvErr pre post r rest hw hp he
      | false => simp only [Bool.false_eq_true, if_false]; exact StepR.wRecvOk pre post r rest hw hp he
    · simp at h
  | closedExit =>
    simp only [wstep] at h
    split at h
    · split at h
      · rename_i hc
        simp only [Option.some.injEq, Prod.mk.injEq] at h
        obtain ⟨rfl, rfl⟩ := h
        exact StepR.wClosedExit pre post hw hc.1 hc.2
      · simp at h
    · simp at h
  | ctxExit =>
    simp only [wstep] at h
    split at h
    · split at h
      · rename_i hc
        simp only [Option.some.injEq, Prod.mk.injEq] at h
        obtain ⟨rfl, rfl⟩ := h
        exact StepR.wCtxExit pre post hw hc
      · simp at h
    · simp at h
  | scan =>
    simp only [wstep] at h
    split at h
    · rename_i r
      simp only [Option.some.injEq, Prod.mk.injEq] at h
      obtain ⟨rfl, rfl⟩ := h
      unfold afterScan
      cases ho : r.out with
      | result => exact StepR.wScanResult pre post r hw ho
      | none => exact StepR.wScanNone pre post r hw ho
      | error => exact StepR.wScanError pre post r hw ho
    · simp at h
  | sendErr =>
    simp only [wstep] at h
    split at h
    · rename_i r
      split at h
      · rename_i hc
        simp only [Option.some.injEq, Prod.mk.injEq] at h
        obtain ⟨rfl, rfl⟩ := h
        exact StepR.wSendErrPanic pre post r hw hc
      · rename_i hc
        split at h
        · rename_i hl
          simp only [Option.some.injEq, Prod.mk.injEq] at h
          obtain ⟨rfl, rfl⟩ := h
          exact StepR.wSendErr pre post r hw (by simpa using hc) hl
        · simp at h
    · simp at h
  | sendErrCtx =>
    simp only [wstep] at h
    split at h
    · rename_i r
      split at h
      · rename_i hc
        simp only [Option.some.injEq, Prod.mk.injEq] at h
        obtain ⟨rfl, rfl⟩ := h
        exact StepR.wSendErrCtx pre post r hw hc
      · simp at h
    · simp at h
  | put =>
    simp only [wstep] at h
    split at h
    · rename_i r
      split at h
      · rename_i hl
        simp only [Option.some.injEq, Prod.mk.injEq] at h
        obtain ⟨rfl, rfl⟩ := h
        exact StepR.wPut pre post r hw hl
      · simp at h
    · simp at h
  | putCtx =>
    simp only [wstep] at h
    split at h
    · rename_i r
      split at h
      · rename_i hc
        simp only [Option.some.injEq, Prod.mk.injEq] at h
        obtain ⟨rfl, rfl⟩ := h
        exact StepR.wPutCtx pre post r hw hc
      · simp at h
    · simp at h

theorem next_stepR {c : Cfg} {s s' : Sys} {l : Label} (h : next c s l = some s') : StepR c s s' := by
  cases l with
  | genClose =>
    simp only [next] at h
    split at h
    · rename_i hc; simp only [Option.some.injEq] at h; subst h; exact .genClose hc.1 hc.2
    · simp at h
  | genDrop =>
    simp only [next] at h
    split at h
    · rename_i r rest hp
      split at h
      · rename_i hc; simp only [Option.some.injEq] at h; subst h; exact .genDrop _ rest hp hc
      · simp at h
    · simp at h
  | spawn =>
    simp only [next] at h
    split at h
    · rename_i hc; simp only [Option.some.injEq] at h; subst h; exact .spawn hc.1 hc.2
    · simp at h
  | wgWait =>
    simp only [next] at h
    split at h
    · rename_i hc; simp only [Option.some.injEq] at h; subst h; exact .wgWait hc.1 hc.2.1 hc.2.2
    · simp at h
  | closeErrc =>
    simp only [next] at h
    split at h
    · rename_i hc
      split at h
      · rename_i h2; simp only [Option.some.injEq] at h; subst h; exact .closeErrcPanic hc h2
      · rename_i h2; simp only [Option.some.injEq] at h; subst h; exact .closeErrc hc (by simpa using h2)
    · simp at h
  | closeDone =>
    simp only [next] at h
    split at h
    · rename_i hc
      split at h
      · rename_i h2; simp only [Option.some.injEq] at h; subst h; exact .closeDonePanic hc h2
      · rename_i h2; simp only [Option.some.injEq] at h; subst h; exact .closeDone hc (by simpa using h2)
    · simp at h
  | worker i a =>
    simp only [next] at h
    split at h
    · rename_i w hw
      split at h
      · rename_i w' sh hs
        simp only [Option.some.injEq] at h
        obtain ⟨pre, post, h1, h2⟩ := getElem?_split s.workers i w hw w'
        subst h
        rw [h2]
        exact wstep_stepR h1 hs
      · simp at h
    · simp at h
  | copRecv =>
    simp only [next] at h
    split at h
    · rename_i v rest hc hi; simp only [Option.some.injEq] at h; subst h; exact .copRecv v rest hc hi
    · simp at h
  | copSend =>
    simp only [next] at h
    split at h
    · rename_i v hc
      split at h
      · rename_i h2; simp only [Option.some.injEq] at h; subst h; exact .copSendPanic v hc h2
      · rename_i h2
        split at h
        · rename_i h3; simp only [Option.some.injEq] at h; subst h; exact .copSend v hc (by simpa using h2) h3
        · simp at h
    · simp at h
  | copCtx =>
    simp only [next] at h
    split at h
    · rename_i hc
      split at h
      · rename_i h2; simp only [Option.some.injEq] at h; subst h; exact .copCtxPanic hc.1 hc.2 h2
      · rename_i h2; simp only [Option.some.injEq] at h; subst h; exact .copCtx hc.1 hc.2 (by simpa using h2)
    · simp at h
  | logRecv =>
    simp only [next] at h
    split at h
    · rename_i v rest hc hi; simp only [Option.some.injEq] at h; subst h; exact .logRecv v rest hc hi
    · simp at h
  | logClosed =>
    simp only [next] at h
    split at h
    · rename_i hc; simp only [Option.some.injEq] at h; subst h; exact .logClosed hc.1 hc.2.1 hc.2.2
    · simp at h
  | logWrite =>
    simp only [next] at h
    split at h
    · rename_i v hc; simp only [Option.some.injEq] at h; subst h; exact .logWrite v hc
    · simp at h
  | logCtx =>
    simp only [next] at h
    split at h
    · rename_i hc; simp only [Option.some.injEq] at h; subst h; exact .logCtx hc.1 hc.2
    · simp at h
  | drainRecv =>
    simp only [next] at h
    split at h
    · rename_i v rest hc hi; simp only [Option.some.injEq] at h; subst h; exact .drainRecv v rest hc hi
    · simp at h
  | drainLog =>
    simp only [next] at h
    split at h
    · rename_i v hc; simp only [Option.some.injEq] at h; subst h; exact .drainLog v hc
    · simp at h
  | drainExit =>
    simp only [next] at h
    split at h
    · rename_i hc; simp only [Option.some.injEq] at h; subst h; exact .drainExit hc.1 hc.2.1 hc.2.2
    · simp at h
  | ctlDone =>
    simp only [next] at h
    split at h
    · rename_i hc; simp only [Option.some.injEq] at h; subst h; exact .ctlDone hc.1 hc.2
    · simp at h
  | ctlTimer =>
    simp only [next] at h
    split at h
    · rename_i d hc
      split at h
      · rename_i h2; simp only [Option.some.injEq] at h; subst h; exact .ctlTimer d hc h2
      · simp at h
    · simp at h
  | ctlCancel =>
    simp only [next] at h
    split at h
    · rename_i hc; simp only [Option.some.injEq] at h; subst h; exact .ctlCancel hc
    · simp at h
  | mainReturn =>
    simp only [next] at h
    split at h
    · rename_i hc; simp only [Option.some.injEq] at h; subst h; exact .mainReturn hc.1 hc.2.1 hc.2.2
    · simp at h
  | extRead =>
    simp only [next] at h
    split at h
    · rename_i t v rest hc hi
      split at h
      · rename_i h2; simp only [Option.some.injEq] at h; subst h; exact .extRead t v rest hc hi h2.1 h2.2
      · simp at h
    · simp at h
  | extPut =>
    simp only [next] at h
    split at h
    · rename_i v hc
      split at h
      · rename_i h2; simp only [Option.some.injEq] at h; subst h; exact .extPut v hc h2
      · simp at h
    · simp at h
  | extCtx =>
    simp only [next] at h
    split at h
    · rename_i v hc
      split at h
      · rename_i h2; simp only [Option.some.injEq] at h; subst h; exact .extCtx v hc h2
      · simp at h
    · simp at h
  | tick => simp only [next, Option.some.injEq] at h; subst h; exact .tick
  | cancelCmd => simp only [next, Option.some.injEq] at h; subst h; exact .cancelCmd

/-- invariant rule: a predicate that holds initially and is preserved by every `StepR` step (given
    that the source state is reachable) holds in every reachable state -/
theorem Reachable.inv {c : Cfg} {s₀ : Sys} (P : Sys → Prop) (h0 : P s₀)
    (hstep : ∀ s s', Reachable c s₀ s → P s → StepR c s s' → P s') :
    ∀ s, Reachable c s₀ s → P s := by
  intro s hr
  induction hr with
  | init => exact h0
  | step l hr hn ih => exact hstep _ _ hr ih (next_stepR hn)

end SxVerif.Engine
