/-
Progress on the return path once the derived ctx is cancelled, and the bound on the number of
return-path steps of any execution.
-/
import SxVerif.Proofs.EngineRank2

namespace SxVerif.Engine

variable {c : Cfg} {reqs : List Req} {ext : List (Nat × Nat)} {s s' : Sys}

theorem exists_not_exited : ∀ (ws : List WPc), allExited ws = false →
    ∃ (i : Nat) (w : WPc), ws[i]? = some w ∧ w.isExited = false
  | [], h => by simp at h
  | w :: ws, h => by
    cases hw : w.isExited with
    | false => exact ⟨0, w, by simp, hw⟩
    | true =>
      simp [hw] at h
      obtain ⟨i, w', h1, h2⟩ := exists_not_exited ws h
      exact ⟨i + 1, w', by simpa using h1, h2⟩

/-- **no deadlock on the return path**: once the derived ctx is cancelled and `startScanEngine` has not
    returned, some process it (transitively) waits for has an enabled step -/
theorem progress (h0 : Inv0 c s) (h1 : Inv1 c s) (hd : s.derCtx = true) (hm : s.main = .waiting) :
    ∃ l, isRP l = true ∧ (next c s l).isSome = true := by
  cases hlg : s.log with
  | writing v => exact ⟨.logWrite, rfl, by simp [next, hlg]⟩
  | idle => exact ⟨.logCtx, rfl, by simp [next, hlg, hd]⟩
  | exited =>
    cases hdr : s.drain with
    | logging e => exact ⟨.drainLog, rfl, by simp [next, hdr]⟩
    | exited => exact ⟨.mainReturn, rfl, by simp [next, hm, hlg, hdr]⟩
    | idle =>
      cases hec : s.errc with
      | cons e rest => exact ⟨.drainRecv, rfl, by simp [next, hdr, hec]⟩
      | nil =>
        cases hcl : s.errcClosed with
        | true => exact ⟨.drainExit, rfl, by simp [next, hdr, hec, hcl]⟩
        | false =>
          cases hsup : s.sup with
          | closingDone => have := h0.errcClosed.mpr (Or.inl hsup); simp [hcl] at this
          | finished => have := h0.errcClosed.mpr (Or.inr hsup); simp [hcl] at this
          | closingErrc => exact ⟨.closeErrc, rfl, by simp [next, hsup, hcl]⟩
          | running =>
            by_cases hlen : s.workers.length < c.W
            · exact ⟨.spawn, rfl, by simp [next, hsup, hlen]⟩
            · have hlen' : s.workers.length = c.W := by have := h0.wlen; omega
              cases hall : allExited s.workers with
              | true => exact ⟨.wgWait, rfl, by simp [next, hsup, hlen', hall]⟩
              | false =>
                obtain ⟨i, w, hi, hw⟩ := exists_not_exited s.workers hall
                cases w with
                | exited => simp at hw
                | idle => exact ⟨.worker i .ctxExit, rfl, by simp [next, hi, wstep, hd]⟩
                | got r => exact ⟨.worker i .scan, rfl, by simp [next, hi, wstep]⟩
                | sendErr r => exact ⟨.worker i .sendErrCtx, rfl, by simp [next, hi, wstep, hd]⟩
                | put r =>
                  cases hc : s.cmdCtx with
                  | true => exact ⟨.worker i .putCtx, rfl, by simp [next, hi, wstep, hc]⟩
                  | false =>
                    -- without Ctrl-C the derived ctx is cancelled only after `done`: all workers returned
                    have hca : s.cancelAt.isSome = true := by
                      rcases h1.derProv hd with h | h
                      · simp [hc] at h
                      · exact h
                    have hdone := (h1.cancelAt hca).1
                    rw [h1.doneAtIff] at hdone
                    have := h0.doneClosed.mp hdone
                    simp [hsup] at this

theorem next_derCtx_mono {l : Label} (hn : next c s l = some s') (h : s.derCtx = true) : s'.derCtx = true :=
  derCtx_mono (next_stepR hn) h

/-- **bounded return**: along ANY execution from a reachable state in which the derived ctx is cancelled,
    the return-path processes take at most `rank c s` steps in total, whatever the other processes do -/
theorem exec_rp_bound {s₀ : Sys} (hinit : ∀ s, Reachable c s₀ s → Inv0 c s) :
    ∀ (ls : List Label) (s : Sys), Reachable c s₀ s → s.derCtx = true → exec c s ls = some s' →
      (ls.filter isRP).length + rank c s' ≤ rank c s
  | [], s, _, _, h => by simp [exec] at h; subst h; simp
  | l :: ls, s, hr, hd, h => by
    simp only [exec] at h
    split at h
    · rename_i s1 hn
      have hr1 := Reachable.step l hr hn
      have ih := exec_rp_bound hinit ls s1 hr1 (next_derCtx_mono hn hd) h
      have hle := rank_stepR (hinit s hr) hd (next_stepR hn)
      cases hl : isRP l with
      | true =>
        have := rank_next (hinit s hr) hl hn
        simp [hl]; omega
      | false => simp [hl]; omega
    · simp at h

end SxVerif.Engine
