/-
C12: a terminating continuation exists from every reachable state in which the derived ctx is cancelled, made of
return-path steps only and no longer than the rank — `progress` iterated along the ranking function.
-/
import SxVerif.Proofs.EngineC12

namespace SxVerif.Engine

variable {c : Cfg} {reqs : List Req} {ext : List (Nat × Nat)}

theorem return_exists_aux : ∀ (n : Nat) (s : Sys), rank c s ≤ n → Reachable c (init reqs ext) s → s.derCtx = true →
    ∃ ls s', exec c s ls = some s' ∧ s'.main = .returned ∧ (∀ l ∈ ls, isRP l = true) ∧ ls.length ≤ rank c s
  | n, s, hn, hr, hd => by
    cases hm : s.main with
    | returned => exact ⟨[], s, rfl, hm, by simp, by simp⟩
    | waiting =>
      obtain ⟨l, hl, hsome⟩ := progress (inv0 hr) (inv1 hr) hd hm
      obtain ⟨s1, hs1⟩ := Option.isSome_iff_exists.mp hsome
      have hlt := rank_next (inv0 hr) hl hs1
      match n, hn with
      | 0, hn => omega
      | n + 1, hn =>
        obtain ⟨ls, s', he, hret, hall, hlen⟩ :=
          return_exists_aux n s1 (by omega) (Reachable.step l hr hs1) (next_derCtx_mono hs1 hd)
        refine ⟨l :: ls, s', by simp [exec, hs1, he], hret, ?_, by simp; omega⟩
        intro l' hl'
        rcases List.mem_cons.mp hl' with rfl | h
        · exact hl
        · exact hall _ h

/-- from every reachable state with the derived ctx cancelled the run CAN return, by return-path steps alone
    (no step of the generator, the copier, the controller, an external producer or the clock is needed),
    in at most `rank c s` of them -/
theorem return_exists {s : Sys} (hr : Reachable c (init reqs ext) s) (hd : s.derCtx = true) :
    ∃ ls s', exec c s ls = some s' ∧ s'.main = .returned ∧ (∀ l ∈ ls, isRP l = true) ∧ ls.length ≤ rank c s :=
  return_exists_aux _ s (Nat.le_refl _) hr hd

/-- an execution that stops where no return-path step is enabled has returned: the only way not to return is to
    starve an enabled step (weak fairness is all that is asked of the scheduler) -/
theorem quiescent_returned {s : Sys} (hr : Reachable c (init reqs ext) s) (hd : s.derCtx = true)
    (hq : ∀ l, isRP l = true → next c s l = none) : s.main = .returned := by
  cases hm : s.main with
  | returned => rfl
  | waiting =>
    obtain ⟨l, hl, hsome⟩ := progress (inv0 hr) (inv1 hr) hd hm
    simp [hq l hl] at hsome

end SxVerif.Engine
