/-
Lemmas for C19, part 5: packaging for the property file — runs from the initial state, and the
composition with a delegate all of whose passes start and satisfy a per-pass predicate.  Core Lean only.
-/
import SxVerif.Proofs.Live3
import SxVerif.Proofs.Live4

namespace SxVerif.Proofs.Live
open SxVerif.Live

variable {α : Type} (rescan : Nat) (passes : Nat → Option (List α))

theorem init_none_iff (t0 : Nat) : init passes t0 = none ↔ passes 0 = none := by
  unfold init; split <;> simp_all

theorem init_some (t0 : Nat) (l : List α) (h : passes 0 = some l) :
    ∃ s0, init passes t0 = some s0 ∧ s0.out = [] ∧ s0.next = 1 ∧ s0.cancelled = false := by
  unfold init; rw [h]; exact ⟨_, rfl, rfl, rfl, rfl⟩

/-- from the initial state, cancelled or not: the output is a sublist of the concatenation of the
    passes requested so far, and it only ever grows at its end -/
theorem nothing_invented (s0 : State α) (pre post : List Ev) :
    let s1 := run rescan passes pre s0
    let s2 := run rescan passes (pre ++ post) s0
    s1.next ≤ s2.next ∧
    ∃ extra, s2.out = s1.out ++ extra ∧
      (extra ++ inflight s2 ++ s2.cur.getD []).Sublist
        (inflight s1 ++ s1.cur.getD [] ++ (List.range' s1.next (s2.next - s1.next)).flatMap (passList passes)) := by
  intro s1 s2
  have : s2 = run rescan passes post s1 := run_append rescan passes pre post s0
  rw [this]
  obtain ⟨hle, extra, ho, hs⟩ := run_out rescan passes post s1
  exact ⟨hle, extra, ho, by simpa [rem, List.append_assoc] using hs⟩

/-- a delegate all of whose passes start, each satisfying `P`: the generator starts, and any run
    nobody cancels has delivered whole `P`-passes in order followed by a prefix of the current one -/
theorem compose (P : List α → Prop) (hall : ∀ k, ∃ rs, passes k = some rs ∧ P rs) (t0 : Nat) :
    (∀ k, (passes k).isSome = true ∧ P (passList passes k)) ∧
    ∃ s0, init passes t0 = some s0 ∧
      ∀ evs, Ev.cancel ∉ evs →
        let st := run rescan passes evs s0
        ∃ pre, pre ++ inflight st ++ st.cur.getD [] = passList passes (st.next - 1) ∧
          st.out = (List.range (st.next - 1)).flatMap (passList passes) ++ pre := by
  refine ⟨fun k => ?_, ?_⟩
  · obtain ⟨rs, h, hp⟩ := hall k
    simp [passList, h, hp]
  · obtain ⟨rs, h, _⟩ := hall 0
    obtain ⟨s0, hs0, _⟩ := init_some passes t0 rs h
    exact ⟨s0, hs0, fun evs he => whole_in_order rescan passes t0 s0 hs0 evs he⟩

end SxVerif.Proofs.Live
