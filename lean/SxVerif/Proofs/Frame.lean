/-
Lemmas for C06 (`Props/C06.lean`): every record a packet processor emits is faithful to the frame it was
emitted for, no processor panics, histories are frame-by-frame, and the layer loop's fuel is ample.
Parts: `Frame1` (byte reads, option walks, decoders), `Frame2` (loop, spec introduction, IPv4 bridge),
`Frame3` (decoder pairs, chain inversion).
-/
import SxVerif.Proofs.Frame3

namespace SxVerif.Proofs.Frame
open SxVerif.Frame SxVerif.Proc SxVerif.Spec.Frame

theorem validChain_cases {proto : LT} {dec : List LT} (h : validChain proto dec = true) :
    dec = [.ethernet, .ipv4, proto] ∨ dec = [.ipv4, proto] := by
  simpa [validChain] using h

/-- the Ethernet decoder announcing IPv4 means Ethernet II with ethertype 0x0800 and untrimmed payload -/
theorem eth_ipv4 {st st1 : State} {f p1 : Bytes} (h1 : decodeLayer .ethernet st f = .ok st1 .ipv4 p1) :
    ipOffset false f = some 14 ∧ p1 = f.drop 14 := by
  obtain ⟨h14, -, et, het, hn, hp, -⟩ := decodeEthernet_ok h1
  have := ethNext_ipv4 hn.symm
  subst this
  exact ⟨by simp [ipOffset, h14, het], hp (by omega)⟩

theorem tcp_core {vpn : Bool} {st st' : State} {f : Bytes} {decoded : List LT}
    (h : decodeLayers [.ethernet, .ipv4, .tcp] (firstLayer vpn) st f = .ok st' decoded)
    (hvalid : validChain .tcp decoded = true) (hv : st'.ipVersion = 4) :
    ∃ v, tcpChain vpn f = some v ∧ st'.ipSrc = v.src ∧ st'.tcpSrcPort = v.sport ∧ st'.tcpFlags = v.flags ∧
      v.src.length = 4 := by
  rcases decodeLayers_chain h with rfl | hc
  · simp [validChain] at hvalid
  rcases validChain_cases hvalid with rfl | rfl
  · obtain ⟨hf, st1, p1, st2, p2, n, p3, h1, h2, h3⟩ := chain3 hc
    cases vpn with
    | true => cases hf
    | false =>
      obtain ⟨ho, rfl⟩ := eth_ipv4 h1
      exact ip_tcp_core ho h2 h3 hv
  · obtain ⟨hf, st2, p2, n, p3, h2, h3⟩ := chain2 hc
    cases vpn with
    | false => cases hf
    | true =>
      have ho : ipOffset true f = some 0 := rfl
      rw [← List.drop_zero (l := f)] at h2
      exact ip_tcp_core ho h2 h3 hv

theorem icmp_core {vpn : Bool} {st st' : State} {f : Bytes} {decoded : List LT}
    (h : decodeLayers [.ethernet, .ipv4, .icmpv4] (firstLayer vpn) st f = .ok st' decoded)
    (hvalid : validChain .icmpv4 decoded = true) (hv : st'.ipVersion = 4) :
    ∃ v, icmpChain vpn f = some v ∧ st'.ipSrc = v.src ∧ st'.ipTTL = v.ttl ∧ st'.icmpType = v.typ ∧
      st'.icmpCode = v.code ∧ v.src.length = 4 := by
  rcases decodeLayers_chain h with rfl | hc
  · simp [validChain] at hvalid
  rcases validChain_cases hvalid with rfl | rfl
  · obtain ⟨hf, st1, p1, st2, p2, n, p3, h1, h2, h3⟩ := chain3 hc
    cases vpn with
    | true => cases hf
    | false =>
      obtain ⟨ho, rfl⟩ := eth_ipv4 h1
      exact ip_icmp_core ho h2 h3 hv
  · obtain ⟨hf, st2, p2, n, p3, h2, h3⟩ := chain2 hc
    cases vpn with
    | false => cases hf
    | true =>
      have ho : ipOffset true f = some 0 := rfl
      rw [← List.drop_zero (l := f)] at h2
      exact ip_icmp_core ho h2 h3 hv

theorem arp_core {st st' : State} {f : Bytes}
    (h : decodeLayers [.ethernet, .arp] .ethernet st f = .ok st' [.ethernet, .arp])
    (h1 : st'.arpAddrType = 1) (h2 : st'.arpProtocol = 0x0800) (h3 : st'.arpHwSize = 6) (h4 : st'.arpProtSize = 4) :
    ∃ v, arpChain f = some v ∧ st'.arpSrcProt = v.ip ∧ st'.arpSrcHw = v.mac ∧ v.ip.length = 4 ∧ v.mac.length = 6 := by
  rcases decodeLayers_chain h with hnil | hc
  · cases hnil
  obtain ⟨-, st1, p1, n, p2, he, ha⟩ := chain2 hc
  obtain ⟨h14, -, et, het, hn, hp, -⟩ := decodeEthernet_ok he
  have := ethNext_arp hn.symm
  subst this
  have hp := hp (by omega)
  subst hp
  obtain ⟨h8, ht, pt, hw, pr, hht, hpt, hhw, hpr, hL, -, -, -, -, hst', -, -⟩ := decodeARP_ok ha
  rw [hst'] at h1 h2 h3 h4
  simp only at h1 h2 h3 h4
  subst h1 h2 h3 h4
  simp only [u8_drop, u16_drop, List.length_drop] at hht hpt hhw hpr hL
  have hlen : 42 ≤ f.length := by omega
  refine ⟨_, by simp [arpChain, hlen, het, hht, hpt, hhw, hpr]; rfl, ?_, ?_, ?_, ?_⟩
  · rw [hst']; simp only [window_drop]
  · rw [hst']; simp only [window_drop]
  · simp only [List.length_take, List.length_drop]; omega
  · simp only [List.length_take, List.length_drop]; omega

/-! ### the processors -/

theorem processTCP_faithful (cfg : TcpCfg) (st : State) (f : Bytes) :
    (processTCP cfg st f).2 ≠ .panic ∧
      ∀ r, (processTCP cfg st f).2 = .record r → Faithful (.tcp cfg) f r := by
  obtain ⟨scanType, filter, flagsFn, vpn⟩ := cfg
  unfold processTCP
  simp only
  cases hdl : decodeLayers [.ethernet, .ipv4, .tcp] (firstLayer vpn) st f with
  | err st' => simp
  | ok st' decoded =>
    simp only
    split
    · simp
    · rename_i hcond
      simp only [Bool.or_eq_true, Bool.not_eq_true', bne_iff_ne, ne_eq, not_or, Bool.not_eq_false,
        Decidable.not_not] at hcond
      obtain ⟨v, hv, e1, e2, e3, hlen⟩ := tcp_core hdl hcond.1 hcond.2
      have hrec : ∀ r, Record.tcp scanType st'.ipSrc st'.tcpSrcPort
            (match flagsFn with | .allFlags => allFlags st'.tcpFlags | .empty => "") = r →
          r = .tcp scanType v.src v.sport (match flagsFn with | .allFlags => allFlags v.flags | .empty => "") := by
        intro r hr
        rw [← hr, e1, e2, e3]
      cases filter with
      | all =>
        refine ⟨by simp, ?_⟩
        intro r hr
        injection hr with hr
        exact ⟨v, hv, hrec r hr, by simp, hlen⟩
      | synack =>
        simp only
        split
        · rename_i hpass
          refine ⟨by simp, ?_⟩
          intro r hr
          injection hr with hr
          refine ⟨v, hv, hrec r hr, fun _ => ?_, hlen⟩
          rw [← e3]
          simpa using hpass
        · simp

theorem processICMP_faithful (name : String) (vpn : Bool) (st : State) (f : Bytes) :
    (processICMP name vpn st f).2 ≠ .panic ∧
      ∀ r, (processICMP name vpn st f).2 = .record r → Faithful (.icmp name vpn) f r := by
  unfold processICMP
  cases hdl : decodeLayers [.ethernet, .ipv4, .icmpv4] (firstLayer vpn) st f with
  | err st' => simp
  | ok st' decoded =>
    simp only
    split
    · simp
    · rename_i hcond
      simp only [Bool.or_eq_true, Bool.not_eq_true', bne_iff_ne, ne_eq, not_or, Bool.not_eq_false,
        Decidable.not_not] at hcond
      obtain ⟨v, hv, e1, e2, e3, e4, hlen⟩ := icmp_core hdl hcond.1 hcond.2
      refine ⟨by simp, ?_⟩
      intro r hr
      injection hr with hr
      exact ⟨v, hv, by rw [← hr, e1, e2, e3, e4], hlen⟩

theorem processARP_faithful (st : State) (f : Bytes) :
    (processARP st f).2 ≠ .panic ∧ ∀ r, (processARP st f).2 = .record r → Faithful .arp f r := by
  unfold processARP
  cases hdl : decodeLayers [.ethernet, .arp] .ethernet st f with
  | err st' => simp
  | ok st' decoded =>
    simp only
    split
    · simp
    · rename_i hdec
      simp only [bne_iff_ne, ne_eq, Decidable.not_not] at hdec
      subst hdec
      split
      · simp
      · rename_i hcond
        simp only [Bool.or_eq_true, bne_iff_ne, ne_eq, not_or, Decidable.not_not] at hcond
        obtain ⟨⟨⟨c1, c2⟩, c3⟩, c4⟩ := hcond
        obtain ⟨v, hv, e1, e2, hl1, hl2⟩ := arp_core hdl c1 c2 c3 c4
        split
        · rename_i hlt
          rw [e2, hl2] at hlt
          omega
        · refine ⟨by simp, ?_⟩
          intro r hr
          injection hr with hr
          exact ⟨v, hv, by rw [← hr, e1, e2], hl1, hl2⟩

theorem process_faithful (scan : Scan) (st : State) (f : Bytes) :
    (process scan st f).2 ≠ .panic ∧
      ∀ r, (process scan st f).2 = .record r → Spec.Frame.Faithful scan f r := by
  cases scan with
  | tcp cfg => exact processTCP_faithful cfg st f
  | icmp name vpn => exact processICMP_faithful name vpn st f
  | arp => exact processARP_faithful st f

theorem run_faithful (scan : Scan) (st : State) (fs : List Bytes) :
    (run scan st fs).length = fs.length ∧
    ∀ i (hi : i < fs.length) (ho : i < (run scan st fs).length),
      (run scan st fs)[i] ≠ .panic ∧
        ∀ r, (run scan st fs)[i] = .record r → Spec.Frame.Faithful scan fs[i] r := by
  induction fs generalizing st with
  | nil => exact ⟨rfl, fun i hi => absurd hi (Nat.not_lt_zero i)⟩
  | cons f fs ih =>
    obtain ⟨ihl, ihi⟩ := ih (process scan st f).1
    have hrun : run scan st (f :: fs) = (process scan st f).2 :: run scan (process scan st f).1 fs := rfl
    refine ⟨by rw [hrun, List.length_cons, ihl, List.length_cons], ?_⟩
    intro i hi ho
    cases i with
    | zero =>
      simp only [hrun, List.getElem_cons_zero]
      exact process_faithful scan st f
    | succ i =>
      simp only [hrun, List.getElem_cons_succ]
      exact ihi i (by simpa using hi) (by rw [ihl]; simpa using hi)

end SxVerif.Proofs.Frame
