/-
C12 / C16 lemmas that are not about the rank: what the output consists of, what ends when `main`
returns, what the controller's cancel touches.
-/
import SxVerif.Proofs.EngineRank3
import SxVerif.Proofs.EngineC08

namespace SxVerif.Engine

variable {c : Cfg} {reqs : List Req} {ext : List (Nat × Nat)} {s s' : Sys}

/-- on EVERY path (cancelled or not) whatever is printed or in flight was handed to `Put` -/
def SubPuts (s : Sys) : Prop :=
  ∀ v, v ∈ s.printed ++ logHand s.log ++ s.results ++ copHand s.cop ++ s.intRes → v ∈ s.puts

theorem subPuts_step (h : SubPuts s) (hs : StepR c s s') : SubPuts s' := by
  unfold SubPuts at *
  cases hs <;> simp_all [logHand, copHand] <;> grind

theorem subPuts (hr : Reachable c (init reqs ext) s) : SubPuts s :=
  Reachable.inv SubPuts (by simp [SubPuts, init, logHand, copHand]) (fun _ _ _ h hs => subPuts_step h hs) s hr

theorem printed_sub (hr : Reachable c (init reqs ext) s) : ∀ v ∈ s.printed, v ∈ s.puts := by
  intro v hv
  exact subPuts hr v (by simp [hv])

/-- the output grows only by `logWrite`, and then by exactly one whole record -/
theorem printed_only_logWrite {l : Label} (hn : next c s l = some s') :
    (l = .logWrite ∧ ∃ v, s.log = .writing v ∧ s'.printed = s.printed ++ [v]) ∨ (l ≠ .logWrite ∧ s'.printed = s.printed) := by
  cases l
  case logWrite =>
    left
    simp only [next] at hn
    split at hn
    · rename_i v hv
      simp only [Option.some.injEq] at hn; subst hn
      exact ⟨rfl, v, hv, rfl⟩
    · simp at hn
  case worker i a =>
    right
    refine ⟨by simp, ?_⟩
    simp only [next] at hn
    split at hn
    · split at hn
      · rename_i w hw w' sh hs
        simp only [Option.some.injEq] at hn; subst hn
        cases a <;> (simp only [wstep] at hs; repeat' split at hs) <;>
          first | (simp at hs; done) | (simp only [Option.some.injEq, Prod.mk.injEq] at hs; obtain ⟨_, rfl⟩ := hs; rfl)
      · simp at hn
    · simp at hn
  all_goals
    right
    refine ⟨by simp, ?_⟩
    simp only [next] at hn
    repeat' split at hn
    all_goals first | (simp at hn; done) | (simp only [Option.some.injEq] at hn; subst hn; rfl)

/-- the controller's `cancel()` touches no channel and no record -/
theorem ctlCancel_keeps (hn : next c s .ctlCancel = some s') :
    s'.inflight = s.inflight ∧ s'.puts = s.puts ∧ s'.printed = s.printed ∧ s'.extPc = s.extPc ∧
    s'.intRes = s.intRes ∧ s'.results = s.results := by
  simp only [next] at hn
  split at hn
  · simp only [Option.some.injEq] at hn; subst hn; simp [Sys.inflight]
  · simp at hn

theorem puts_perm_ext (h2 : Inv2 reqs s) :
    (s.puts ++ holdPut s.workers).Perm ((s.scans.filter isPos).map (·.id) ++ s.extPuts) := by
  rw [List.perm_iff_count]
  intro x
  simpa [List.count_append] using h2.puts x

end SxVerif.Engine
