/-
Lemmas for C03, part 3: forward direction of the decoders and of the layer loop — a frame that contains the
flat header chain (with gopacket-acceptable IPv4 options) is decoded into exactly the expected layer list,
with the record fields of the chain in the decoder structs, from every prior state.
-/
import SxVerif.Proofs.Reply1

namespace SxVerif.Proofs.Reply
open SxVerif.Frame SxVerif.Proc SxVerif.Spec.Frame SxVerif.Spec.Reply SxVerif.Proofs.Frame

/-! ### decoders, forward -/

theorem decodeEthernet_intro (st : State) {d : Bytes} {et : Nat} (h14 : 14 ≤ d.length) (het : u16 d 12 = some et)
    (h600 : 0x600 ≤ et) : decodeEthernet st d = .ok st (ethNext et) (d.drop 14) := by
  unfold decodeEthernet
  have c0 : ¬ d.length < 14 := by omega
  have c1 : ¬ et < 0x600 := by omega
  simp only [c0, if_false, het, Option.getD_some, c1]

theorem decodeIPv4_intro (st : State) {d : Bytes} {b0 tl0 ff proto ttl tl : Nat}
    (h20 : 20 ≤ d.length) (hb0 : u8 d 0 = some b0) (htl0 : u16 d 2 = some tl0) (hff : u16 d 6 = some ff)
    (hproto : u8 d 9 = some proto) (httl : u8 d 8 = some ttl)
    (htl : tl = if tl0 = 0 then d.length % 65536 else tl0)
    (h1 : 20 ≤ tl) (h2 : 5 ≤ b0 % 16) (h3 : b0 % 16 * 4 ≤ tl) (h4 : b0 % 16 * 4 ≤ d.length)
    (hopts : ipOptionsOK (((d.take (b0 % 16 * 4)).drop 20).length + 1) ((d.take (b0 % 16 * 4)).drop 20) = true) :
    decodeIPv4 st d = .ok { st with ipVersion := b0 / 16, ipSrc := (d.drop 12).take 4, ipTTL := ttl }
      (if (ff / 8192) % 2 = 1 ∨ ff % 8192 ≠ 0 then LT.other 3 else ipNext proto)
      ((d.take (min tl d.length)).drop (b0 % 16 * 4)) := by
  unfold decodeIPv4
  have c0 : ¬ d.length < 20 := by omega
  simp only [c0, if_false, hb0, htl0, hff, hproto, httl, Option.getD_some]
  rw [← htl]
  have hd' : (if d.length > tl then d.take tl else d) = d.take (min tl d.length) := by
    split
    · rw [Nat.min_eq_left (by omega)]
    · rw [Nat.min_eq_right (by omega), List.take_length]
  rw [hd']
  have c1 : ¬ tl < 20 := by omega
  have c2 : ¬ b0 % 16 < 5 := by omega
  have c3 : ¬ b0 % 16 * 4 > tl := by omega
  have c4 : ¬ (d.length < tl ∧ b0 % 16 * 4 > d.length) := by omega
  have ht : ((d.take (min tl d.length)).take (b0 % 16 * 4)) = d.take (b0 % 16 * 4) := by
    rw [List.take_take, Nat.min_eq_left (by omega)]
  simp only [c1, c2, c3, c4, if_false, ht, hopts, Bool.not_true, Bool.false_eq_true]

theorem decodeTCP_intro (st : State) {d : Bytes} {sp b12 b13 : Nat}
    (h20 : 20 ≤ d.length) (hsp : u16 d 0 = some sp) (hb12 : u8 d 12 = some b12) (hb13 : u8 d 13 = some b13)
    (h1 : 5 ≤ b12 / 16) (h2 : b12 / 16 * 4 ≤ d.length)
    (hopts : tcpOptionsOK (((d.take (b12 / 16 * 4)).drop 20).length + 1) ((d.take (b12 / 16 * 4)).drop 20) = true) :
    decodeTCP st d = .ok { st with tcpSrcPort := sp, tcpFlags := b12 % 2 * 256 + b13 } (.other 4)
      (d.drop (b12 / 16 * 4)) := by
  unfold decodeTCP
  have c0 : ¬ d.length < 20 := by omega
  have c1 : ¬ b12 / 16 < 5 := by omega
  have c2 : ¬ b12 / 16 * 4 > d.length := by omega
  simp only [c0, if_false, hsp, hb12, hb13, Option.getD_some, c1, c2, hopts, Bool.not_true, Bool.false_eq_true]

theorem decodeICMPv4_intro (st : State) {d : Bytes} {ty co : Nat} (h8 : 8 ≤ d.length) (hty : u8 d 0 = some ty)
    (hco : u8 d 1 = some co) :
    decodeICMPv4 st d = .ok { st with icmpType := ty, icmpCode := co } (.other 5) (d.drop 8) := by
  unfold decodeICMPv4
  have c0 : ¬ d.length < 8 := by omega
  simp only [c0, if_false, hty, hco, Option.getD_some]

/-- ARP for IPv4 over Ethernet: sizes 6 / 4, at least 28 bytes -/
theorem decodeARP_intro (st : State) {d : Bytes} {ht pt : Nat} (h28 : 28 ≤ d.length) (hht : u16 d 0 = some ht)
    (hpt : u16 d 2 = some pt) (hhw : u8 d 4 = some 6) (hpr : u8 d 5 = some 4) :
    decodeARP st d = .ok { st with arpAddrType := ht, arpProtocol := pt, arpHwSize := 6, arpProtSize := 4,
                                   arpSrcHw := (d.take 14).drop 8, arpSrcProt := (d.take 18).drop 14 }
      (.other 5) (d.drop 28) := by
  unfold decodeARP
  have c0 : ¬ d.length < 8 := by omega
  have c1 : ¬ d.length < 28 := by omega
  have c2 : ¬ (8 > 14 ∨ 14 > d.length) := by omega
  have c3 : ¬ (14 > 18 ∨ 18 > d.length) := by omega
  have c4 : ¬ (18 > 24 ∨ 24 > d.length) := by omega
  have c5 : ¬ (24 > 28 ∨ 28 > d.length) := by omega
  simp only [c0, if_false, hht, hpt, hhw, hpr, Option.getD_some]
  simp only [show (8 + 2 * 6 + 2 * 4) % 256 = 28 from rfl, show (8 + 6) % 256 = 14 from rfl,
    show (8 + 6 + 4) % 256 = 18 from rfl, show (8 + 2 * 6 + 4) % 256 = 24 from rfl, c1, c2, c3, c4, if_false]
  have c6 : ¬ (24 > 28 ∨ False) := fun h => h.elim (by omega) id
  first | rw [if_neg c6] | (have c7 : ¬ (24 > 28 ∨ 28 > d.length) := c5; rw [if_neg c7])

/-! ### the layer loop, forward -/

theorem decodeLoop_cont {reg : List LT} {fuel : Nat} {t : LT} {st st1 : State} {d p : Bytes} {next : LT}
    (acc : List LT) (h : decodeLayer t st d = .ok st1 next p) (hne : p.isEmpty = false)
    (hreg : reg.contains next = true) :
    decodeLoop reg (fuel + 1) t st d acc = decodeLoop reg fuel next st1 p (acc ++ [t]) := by
  rw [decodeLoop]
  simp only [h, hne, hreg, if_true, Bool.false_eq_true, if_false]

theorem decodeLoop_stop {reg : List LT} {fuel : Nat} {t : LT} {st st1 : State} {d p : Bytes} {next : LT}
    (acc : List LT) (h : decodeLayer t st d = .ok st1 next p) (hstop : p.isEmpty = true ∨ reg.contains next = false) :
    decodeLoop reg (fuel + 1) t st d acc = .ok st1 (acc ++ [t]) := by
  rw [decodeLoop]
  simp only [h]
  rcases hstop with h1 | h2
  · simp [h1]
  · cases hp : p.isEmpty
    · simp only [Bool.false_eq_true, if_false, h2]
    · simp

theorem isEmpty_false_of_length {l : Bytes} (h : 0 < l.length) : l.isEmpty = false := by
  cases l with
  | nil => simp at h
  | cons _ _ => rfl

/-! ### IPv4 layer from the spec view -/

/-- the IPv4 decoder on a frame whose bytes at `o` form the spec's IPv4 header with gopacket-acceptable options -/
theorem ipv4_forward (st : State) {f : Bytes} {o : Nat} {ip : IPv4View} (hip : ipv4At f o = some ip)
    {b0 : Nat} (hb0 : u8 f o = some b0)
    (hstrict : ipOptionsStrict (((f.drop (o + 20)).take (b0 % 16 * 4 - 20)).length + 1)
      ((f.drop (o + 20)).take (b0 % 16 * 4 - 20)) = true) :
    ∃ ttl, u8 f (o + 8) = some ttl ∧ ip.hlen = b0 % 16 * 4 ∧ o + ip.hlen ≤ ip.dgEnd ∧ ip.dgEnd ≤ f.length ∧
      decodeIPv4 st (f.drop o) = .ok { st with ipVersion := 4, ipSrc := (f.drop (o + 12)).take 4, ipTTL := ttl }
        (ipNext ip.proto) ((f.drop (o + ip.hlen)).take (ip.dgEnd - (o + ip.hlen))) := by
  obtain ⟨h20, b0', tl0, ff, proto, tl, hb0', htl0, hff, hproto, htl, hv, hihl, htl20, h1, h2, hfrag, -, hipeq⟩ :=
    ipv4At_some hip
  rw [hb0] at hb0'
  injection hb0' with e
  subst e
  obtain ⟨ttl, httl⟩ := u8_some f (show o + 8 < f.length by omega)
  have hopts : ipOptionsOK ((((f.drop o).take (b0 % 16 * 4)).drop 20).length + 1)
      (((f.drop o).take (b0 % 16 * 4)).drop 20) = true := by
    rw [window_drop, ipOptionsOK_eq_strict]
    exact hstrict
  have hdec := decodeIPv4_intro st (d := f.drop o) (b0 := b0) (tl0 := tl0) (ff := ff) (proto := proto) (ttl := ttl)
    (tl := tl) (by simp only [List.length_drop]; omega) (by rw [u8_drop]; exact hb0)
    (by rw [u16_drop]; exact htl0) (by rw [u16_drop]; exact hff) (by rw [u8_drop]; exact hproto)
    (by rw [u8_drop]; exact httl) (by simp only [List.length_drop]; exact htl) htl20 hihl h1
    (by simp only [List.length_drop]; exact h2) hopts
  rw [if_neg hfrag, hv, List.drop_drop] at hdec
  subst hipeq
  refine ⟨ttl, httl, rfl, ?_, ?_, ?_⟩
  · simp only; omega
  · simp only; omega
  · rw [hdec]
    simp only [List.length_drop]
    congr 1
    rw [window_drop]
    congr 1
    omega

end SxVerif.Proofs.Reply
