/-
Lemmas for C05, part 4: IPv4 probe with option overrides, the UDP probe (`udp_ok`, `vpn_same_udp`).
-/
import SxVerif.Proofs.Fill3
namespace SxVerif.Proofs.Fill
open SxVerif.Frame (Bytes u8 u16 u32)
open SxVerif.Fill SxVerif.Spec.Fill

/-- the UDP datagram `udp.PacketFiller.Fill` serializes -/
def udpDg (src dst payload : Bytes) (dport rndPort : Nat) : Bytes :=
  let pre := be16 (32768 + rndPort) ++ be16 dport ++ be16 ((8 + payload.length) % 65536)
  pre ++ be16 (finish (pseudo src dst 17 (pre ++ [0, 0] ++ payload).length + sumWords (pre ++ [0, 0] ++ payload))) ++ payload

theorem fillUDP_eq (o : IPOpts) (r : Req) (a b : Nat) (hs : r.srcIP.length = 4) (hd : r.dstIP.length = 4) :
    fillUDP o r a b =
      withLink o.vpn r (ipv4Header 5 (if o.len = 0 then (20 + (udpDg r.srcIP r.dstIP o.payload r.dstPort b).length) % 65536 else o.len)
        (1 + a) o.flags o.ttl o.proto r.srcIP r.dstIP ++ udpDg r.srcIP r.dstIP o.payload r.dstPort b) := by
  simp only [fillUDP, to4_of_len4 hs, to4_of_len4 hd, udpDg]

theorem udpDg_length (src dst payload : Bytes) (dport p : Nat) : (udpDg src dst payload dport p).length = 8 + payload.length := by
  simp [udpDg, be16]; omega

theorem udpDg_fields (src dst payload : Bytes) (dport p : Nat) (hdp : dport < 65536) (hp : p < 28232)
    (hl : payload.length ≤ 65507) :
    udpFields (udpDg src dst payload dport p) = some {
      sport := 32768 + p, dport := dport, len := 8 + payload.length, payload := payload } := by
  simp [udpDg, udpFields, be16, u8, u16, b8_toNat]
  omega

theorem udpDg_csum (src dst payload : Bytes) (dport p : Nat) (hs : src.length = 4) (hd : dst.length = 4)
    (hl : payload.length ≤ 65507) :
    csumValid (udpDg src dst payload dport p) (pseudoSum src dst 17 (8 + payload.length)) := by
  have key : ∀ pre : Bytes, pre.length = 6 →
      csumValid (pre ++ be16 (finish (pseudo src dst 17 (pre ++ [0, 0] ++ payload).length + sumWords (pre ++ [0, 0] ++ payload))) ++ payload)
        (pseudoSum src dst 17 (8 + payload.length)) := by
    intro pre h1
    have e : (pre ++ [0, 0] ++ payload).length = 8 + payload.length := by simp [h1]; omega
    rw [e, pseudo_eq _ _ _ _ (by omega)]
    have b1 := wordSum_le pre
    have b2 := wordSum_le payload
    have b3 := wordSum_le src
    have b4 := wordSum_le dst
    rw [h1] at b1; rw [hs] at b3; rw [hd] at b4
    exact csum_insert pre payload _ (by omega) (by unfold pseudoSum; omega)
  exact key _ (by simp [be16])


/-- common part of the UDP and ICMP probes: the IPv4 header in front of an upper-layer unit `seg` -/
theorem ip_probe_ok (o : IPOpts) (r : Req) (id n : Nat) (seg : Bytes)
    (hr : ReqOK o.vpn r.srcIP r.dstIP r.srcMAC r.dstMAC r.dstPort)
    (ho : o.ttl < 256 ∧ o.len < 65536 ∧ o.proto < 256 ∧ o.flags < 8)
    (hid : id < 65535) (hn : n = 20 + seg.length) (hle : n ≤ 65535) :
    ∃ frame, withLink o.vpn r (ipv4Header 5 (if o.len = 0 then (20 + seg.length) % 65536 else o.len)
        (1 + id) o.flags o.ttl o.proto r.srcIP r.dstIP ++ seg) = .ok frame ∧
      (o.vpn = false → LinkOK frame r.dstMAC r.srcMAC 0x0800 n) ∧
      (datagram o.vpn frame n).length = n ∧
      ipFields (datagram o.vpn frame n) = some {
        version := 4, ihl := 5, totalLen := if o.len = 0 then n else o.len, id := 1 + id,
        flags := o.flags, fragOff := 0, ttl := o.ttl, proto := o.proto, src := r.srcIP, dst := r.dstIP } ∧
      csumValid ((datagram o.vpn frame n).take 20) ∧
      (datagram o.vpn frame n).drop 20 = seg := by
  obtain ⟨h1, h2, h3, h4⟩ := ho
  have e : (if o.len = 0 then (20 + seg.length) % 65536 else o.len) = (if o.len = 0 then n else o.len) := by
    split
    · omega
    · rfl
  rw [e]
  have hlt : (if o.len = 0 then n else o.len) < 65536 := by split <;> omega
  have h20 := ipv4Header_length 5 (if o.len = 0 then n else o.len) (1 + id) o.flags o.ttl o.proto r.srcIP r.dstIP hr.src4 hr.dst4
  have hlen : (ipv4Header 5 (if o.len = 0 then n else o.len) (1 + id) o.flags o.ttl o.proto r.srcIP r.dstIP ++ seg).length = n := by
    rw [List.length_append, h20, hn]
  obtain ⟨frame, hok, hlink, hdg⟩ := withLink_ok o.vpn r _ hr.macs
  refine ⟨frame, hok, ?_⟩
  obtain ⟨d1, d2, d3⟩ := dg_split h20 hlen hdg
  rw [hlen] at hlink hdg
  refine ⟨hlink, d1, ?_, ?_, d3⟩
  · rw [hdg]
    exact ipv4Header_fields 5 _ (1 + id) o.flags o.ttl o.proto r.srcIP r.dstIP seg hr.src4 hr.dst4 (by omega) hlt (by omega) h4 h1 h3
  · rw [d2]; exact ipv4Header_csum _ _ _ _ _ _ _ _ hr.src4 hr.dst4

theorem udp_ok (o : IPOpts) (r : Req) (rndId rndPort : Nat)
    (hr : ReqOK o.vpn r.srcIP r.dstIP r.srcMAC r.dstMAC r.dstPort)
    (ho : o.ttl < 256 ∧ o.len < 65536 ∧ o.proto < 256 ∧ o.flags < 8 ∧ o.payload.length ≤ 65507)
    (hid : rndId < 65535) (hp : rndPort < 28232) :
    ∃ frame, fillUDP o r rndId rndPort = .ok frame ∧
      let n := 28 + o.payload.length
      let dg := datagram o.vpn frame n
      (o.vpn = false → LinkOK frame r.dstMAC r.srcMAC 0x0800 n) ∧
      dg.length = n ∧
      ipFields dg = some {
        version := 4, ihl := 5, totalLen := if o.len = 0 then n else o.len, id := 1 + rndId,
        flags := o.flags, fragOff := 0, ttl := o.ttl, proto := o.proto, src := r.srcIP, dst := r.dstIP } ∧
      csumValid (dg.take 20) ∧
      udpFields (dg.drop 20) = some {
        sport := 32768 + rndPort, dport := r.dstPort, len := 8 + o.payload.length, payload := o.payload } ∧
      csumValid (dg.drop 20) (pseudoSum r.srcIP r.dstIP 17 (8 + o.payload.length)) ∧
      1 ≤ 1 + rndId ∧ 1 + rndId ≤ 65535 ∧ 32768 ≤ 32768 + rndPort ∧ 32768 + rndPort ≤ 60999 := by
  obtain ⟨h1, h2, h3, h4, h5⟩ := ho
  rw [fillUDP_eq o r rndId rndPort hr.src4 hr.dst4]
  have hl := udpDg_length r.srcIP r.dstIP o.payload r.dstPort rndPort
  obtain ⟨frame, hok, hlink, d1, hip, hc, d3⟩ := ip_probe_ok o r rndId (28 + o.payload.length)
    (udpDg r.srcIP r.dstIP o.payload r.dstPort rndPort) hr ⟨h1, h2, h3, h4⟩ hid (by omega) (by omega)
  refine ⟨frame, hok, hlink, d1, hip, hc, ?_, ?_, by omega, by omega, by omega, by omega⟩
  · rw [d3]; exact udpDg_fields _ _ _ _ _ hr.port hp h5
  · rw [d3]; exact udpDg_csum _ _ _ _ _ hr.src4 hr.dst4 h5

theorem vpn_same_udp (o : IPOpts) (r : Req) (a b : Nat)
    (hr : ReqOK false r.srcIP r.dstIP r.srcMAC r.dstMAC r.dstPort) :
    ∃ dg frame, fillUDP { o with vpn := true } r a b = .ok dg ∧ fillUDP { o with vpn := false } r a b = .ok frame ∧
      (frame.drop 14).take dg.length = dg := by
  rw [fillUDP_eq _ r a b hr.src4 hr.dst4, fillUDP_eq _ r a b hr.src4 hr.dst4]
  obtain ⟨frame, hok, -, hdg⟩ := withLink_ok false r
    (ipv4Header 5 (if o.len = 0 then (20 + (udpDg r.srcIP r.dstIP o.payload r.dstPort b).length) % 65536 else o.len)
        (1 + a) o.flags o.ttl o.proto r.srcIP r.dstIP ++ udpDg r.srcIP r.dstIP o.payload r.dstPort b) hr.macs
  exact ⟨_, frame, rfl, hok, by simpa [datagram] using hdg⟩

end SxVerif.Proofs.Fill
