/-
Lemmas for C18, part 2: port ranges, port lists and the rate limit.
-/
import SxVerif.Proofs.ParseBasic

namespace SxVerif.Proofs.Parse
open SxVerif.Gen SxVerif.Parse SxVerif.NetParse
open SxVerif.Spec.Net (splitOn decimal renderNat)
open SxVerif.Spec.Parse
open SxVerif.Proofs.Net

/-! ### bounds -/

theorem decimal_eq_allDigits (a : List Char) :
    decimal a = if allDigits a then some (decVal a) else none := by
  rw [decimal_eq, allDigits]
  cases a with
  | nil => rfl
  | cons c r =>
    simp only [List.isEmpty_cons, Bool.false_or, Bool.not_false, Bool.true_and]
    cases (c :: r).all isDigit <;> rfl

theorem bound_eq (a : List Char) : bound a = parseUint16 a := by
  unfold bound parseUint16
  rw [decimal_eq_allDigits]
  cases allDigits a <;> simp

theorem parseUint16_some (a : List Char) (p : Nat) (h : parseUint16 a = some p) :
    allDigits a = true ∧ decVal a = p ∧ p ≤ 65535 := by
  unfold parseUint16 at h
  split at h
  · rename_i hc
    simp only [Bool.and_eq_true, decide_eq_true_eq] at hc
    cases h
    exact ⟨hc.1, rfl, hc.2⟩
  · cases h

theorem parseUint16_render (n : Nat) (h : n ≤ 65535) : parseUint16 (renderNat n) = some n := by
  simp [parseUint16, renderNat_allDigits, renderNat_val, h]

/-! ### one range -/

theorem parsePortRange_ne_panic (s : List Char) : parsePortRange s ≠ .panic := by
  unfold parsePortRange
  split
  · rename_i h; exact absurd h (split_ne_nil '-' s)
  · split <;> simp
  · split <;> simp
  · simp

theorem denotePortRange_eq (s : List Char) : denotePortRange s = okOnly (parsePortRange s) := by
  unfold denotePortRange parsePortRange
  rw [split_eq]
  rcases hs : splitOn '-' s with _ | ⟨a, _ | ⟨b, _ | ⟨c, t⟩⟩⟩
  · exact absurd hs (splitOn_ne_nil _ _)
  · dsimp only
    rw [bound_eq]
    cases parseUint16 a <;> rfl
  · dsimp only
    rw [bound_eq, bound_eq]
    cases parseUint16 a <;> cases parseUint16 b <;> rfl
  · rfl

theorem parsePortRange_bounds (s : List Char) (r : PortRange) (h : parsePortRange s = .ok r) :
    r.lo ≤ 65535 ∧ r.hi ≤ 65535 := by
  unfold parsePortRange at h
  split at h
  · cases h
  · split at h
    · rename_i p hp
      cases h
      exact ⟨(parseUint16_some _ _ hp).2.2, (parseUint16_some _ _ hp).2.2⟩
    · cases h
  · split at h
    · rename_i lo hi hlo hhi
      cases h
      exact ⟨(parseUint16_some _ _ hlo).2.2, (parseUint16_some _ _ hhi).2.2⟩
    · cases h
  · cases h

theorem dash_not_digit : isDigit '-' = false := by decide
theorem comma_not_digit : isDigit ',' = false := by decide
theorem slash_not_digit : isDigit '/' = false := by decide

theorem range_roundtrip (lo hi : Nat) (h1 : lo ≤ 65535) (h2 : hi ≤ 65535) :
    parsePortRange (renderNat lo ++ '-' :: renderNat hi) = .ok ⟨lo, hi⟩ := by
  unfold parsePortRange
  rw [split_eq, splitOn_append '-' _ _ (renderNat_not_mem lo '-' dash_not_digit),
    splitOn_noSep '-' _ (renderNat_not_mem hi '-' dash_not_digit)]
  simp only [parseUint16_render lo h1, parseUint16_render hi h2]

theorem single_roundtrip (p : Nat) (h : p ≤ 65535) : parsePortRange (renderNat p) = .ok ⟨p, p⟩ := by
  unfold parsePortRange
  rw [split_eq, splitOn_noSep '-' _ (renderNat_not_mem p '-' dash_not_digit)]
  simp only [parseUint16_render p h]

theorem renderRange_roundtrip (r : PortRange) (h1 : r.lo ≤ 65535) (h2 : r.hi ≤ 65535) :
    parsePortRange (renderRange r) = .ok r := by
  unfold renderRange
  split
  · rename_i e
    rw [single_roundtrip r.lo h1]
    cases r
    simp only at e
    subst e
    rfl
  · exact range_roundtrip r.lo r.hi h1 h2

theorem renderRange_no_comma (r : PortRange) : ',' ∉ renderRange r := by
  unfold renderRange
  split
  · exact renderNat_not_mem _ ',' comma_not_digit
  · simp only [List.mem_append, List.mem_cons, not_or]
    exact ⟨renderNat_not_mem _ ',' comma_not_digit, by decide, renderNat_not_mem _ ',' comma_not_digit⟩

/-! ### lists of ranges -/

theorem ports_no_panic (s : List Char) : parsePortRanges s ≠ .panic ∧ parsePortRange s ≠ .panic := by
  refine ⟨?_, parsePortRange_ne_panic s⟩
  unfold parsePortRanges
  apply collect_no_panic
  intro r hr
  obtain ⟨x, _, rfl⟩ := List.mem_map.1 hr
  exact parsePortRange_ne_panic x

theorem ports_exact (s : List Char) (v : List PortRange) (h : parsePortRanges s = .ok v) :
    denotePorts s = some v ∧ ∀ r ∈ v, r.lo ≤ 65535 ∧ r.hi ≤ 65535 := by
  unfold parsePortRanges at h
  rw [collect_map_ok, split_eq] at h
  constructor
  · unfold denotePorts
    rw [← h]
    congr 1
    funext x
    exact denotePortRange_eq x
  · intro r hr
    obtain ⟨x, _, hx⟩ := mapM_some_mem _ _ _ h r hr
    exact parsePortRange_bounds x r ((okOnly_eq_some _ _).1 hx)

theorem mapM_map_roundtrip {α β} (f : α → Option β) (g : β → α) : ∀ (l : List β),
    (∀ b ∈ l, f (g b) = some b) → (l.map g).mapM f = some l
  | [], _ => by simp
  | b :: rest, h => by
    rw [List.map_cons, List.mapM_cons, h b (by simp),
      mapM_map_roundtrip f g rest (fun x hx => h x (List.mem_cons_of_mem _ hx))]
    rfl

theorem ports_roundtrip (rs : List PortRange) (hne : rs ≠ [])
    (hb : ∀ r ∈ rs, r.lo ≤ 65535 ∧ r.hi ≤ 65535) : parsePortRanges (renderPorts rs) = .ok rs := by
  unfold parsePortRanges renderPorts
  rw [collect_map_ok, split_eq, splitOn_join ',' _ (by simpa using hne)]
  · apply mapM_map_roundtrip
    intro r hr
    rw [renderRange_roundtrip r (hb r hr).1 (hb r hr).2]
    rfl
  · intro l hl
    obtain ⟨r, _, rfl⟩ := List.mem_map.1 hl
    exact renderRange_no_comma r

/-! ### rate limit -/

theorem count_plain (d : List Char) :
    ((decimal d).bind fun n => if n < 2 ^ 31 then some n else none) =
      (if (allDigits d && decide (decVal d < 2 ^ 31)) = true then some (decVal d : Int) else none).bind
        fun r => if r < 0 then none else some r.toNat := by
  rw [decimal_eq_allDigits]
  cases allDigits d
  · rfl
  · by_cases h : decVal d < 2 ^ 31
    · have : ¬ ((decVal d : Int) < 0) := by omega
      simp [h, this]
    · simp [h]

theorem count_minus (d : List Char) :
    ((decimal d).bind fun n => if n = 0 then some 0 else none) =
      (if (allDigits d && decide (decVal d ≤ 2 ^ 31)) = true then some (-(decVal d : Int)) else none).bind
        fun r => if r < 0 then none else some r.toNat := by
  rw [decimal_eq_allDigits]
  cases allDigits d
  · rfl
  · by_cases h : decVal d = 0
    · simp [h]
    · by_cases h2 : decVal d ≤ 2 ^ 31
      · have : 0 < decVal d := by omega
        simp [h, h2, this]
      · simp [h, h2]

theorem denoteCount_eq (c : List Char) :
    denoteCount c = (parseInt32 c).bind (fun r => if r < 0 then none else some r.toNat) := by
  unfold denoteCount parseInt32
  split
  · exact count_minus _
  · exact count_plain _
  · rename_i h1 h2
    split
    · rename_i d; exact absurd rfl (h2 d)
    · rename_i d; exact absurd rfl (h1 d)
    · exact count_plain _

theorem parseInt32_digits (s : List Char) (h : allDigits s = true) :
    parseInt32 s = if decVal s < 2 ^ 31 then some (decVal s : Int) else none := by
  unfold parseInt32
  split
  · simp [allDigits, isDigit] at h
  · simp [allDigits, isDigit] at h
  · simp [h]


theorem parseInt32_lt (c : List Char) (r : Int) (h : parseInt32 c = some r) : r < 2 ^ 31 := by
  unfold parseInt32 at h
  split at h <;> split at h <;> cases h
  all_goals
    rename_i hc
    simp only [Bool.and_eq_true, decide_eq_true_eq] at hc
    omega

theorem rate_one (dur : List Char → Option Int) (s c : List Char) (hs : splitOn '/' s = [c]) :
    parseRateLimit dur s = match parseInt32 c with
      | none => .err
      | some rate => if rate < 0 then .err else .ok (rate.toNat, 1000000000) := by
  unfold parseRateLimit
  rw [split_eq, hs]
  simp only [List.length_cons, List.length_nil, Nat.zero_add, gt_iff_lt, Nat.reduceLT, ↓reduceIte]
  cases parseInt32 c <;> rfl

theorem winOf (w : List Char) :
    (match w with
      | [] => w
      | c :: _ => if "0123456789.+-".toList.contains c then w else '1' :: w)
    = if startsNumber w then w else '1' :: w := by
  cases w with
  | nil => rfl
  | cons c r => rfl

theorem rate_two (dur : List Char → Option Int) (s c w : List Char) (hs : splitOn '/' s = [c, w]) :
    parseRateLimit dur s = match parseInt32 c with
      | none => .err
      | some rate => if rate < 0 then .err else
        match dur (if startsNumber w then w else '1' :: w) with
        | none => .err
        | some d => if d < 0 then .err else .ok (rate.toNat, d) := by
  unfold parseRateLimit
  rw [split_eq, hs]
  simp only [List.length_cons, List.length_nil, Nat.zero_add, Nat.reduceAdd, gt_iff_lt,
    Nat.lt_irrefl, ↓reduceIte]
  cases parseInt32 c with
  | none => rfl
  | some rate =>
    dsimp only
    split
    · rfl
    · cases w with
      | nil =>
        have e : (if startsNumber [] = true then [] else ['1']) = ([] : List Char) := rfl
        rw [e]
        generalize dur [] = o
        cases o <;> rfl
      | cons a r =>
        dsimp only [startsNumber]
        by_cases hc : "0123456789.+-".toList.contains a = true
        · simp only [hc, ↓reduceIte]
          generalize dur (a :: r) = o
          cases o <;> rfl
        · simp only [hc]
          generalize dur ('1' :: a :: r) = o
          cases o <;> rfl

theorem rate_many (dur : List Char → Option Int) (s c w x : List Char) (t : List (List Char))
    (hs : splitOn '/' s = c :: w :: x :: t) : parseRateLimit dur s = .err := by
  unfold parseRateLimit
  rw [split_eq, hs]
  simp

theorem rate_no_panic (dur : List Char → Option Int) (s : List Char) : parseRateLimit dur s ≠ .panic := by
  rcases hs : splitOn '/' s with _ | ⟨c, _ | ⟨win, _ | ⟨x, t⟩⟩⟩
  · exact absurd hs (splitOn_ne_nil _ _)
  · rw [rate_one dur s c hs]
    repeat' split
    all_goals simp
  · rw [rate_two dur s c win hs]
    repeat' split
    all_goals simp
  · rw [rate_many dur s c win x t hs]
    simp

theorem rate_exact (dur : List Char → Option Int) (s : List Char) (n : Nat) (w : Int)
    (h : parseRateLimit dur s = .ok (n, w)) : denoteRate dur s = some (n, w) ∧ 0 ≤ w ∧ n < 2 ^ 31 := by
  unfold denoteRate
  rcases hs : splitOn '/' s with _ | ⟨c, _ | ⟨win, _ | ⟨x, t⟩⟩⟩
  · exact absurd hs (splitOn_ne_nil _ _)
  · rw [rate_one dur s c hs] at h
    dsimp only
    rw [denoteCount_eq]
    cases hp : parseInt32 c with
    | none => rw [hp] at h; cases h
    | some rate =>
      rw [hp] at h
      dsimp only at h
      split at h
      · cases h
      · rename_i hr
        cases h
        have := parseInt32_lt c rate hp
        simp [hr]
        omega
  · rw [rate_two dur s c win hs] at h
    dsimp only
    rw [denoteCount_eq]
    cases hp : parseInt32 c with
    | none => rw [hp] at h; cases h
    | some rate =>
      rw [hp] at h
      dsimp only at h
      split at h
      · cases h
      · rename_i hr
        cases hd : dur (if startsNumber win then win else '1' :: win) with
        | none => rw [hd] at h; cases h
        | some d =>
          rw [hd] at h
          dsimp only at h
          split at h
          · cases h
          · rename_i hd0
            cases h
            have h0 : 0 ≤ w := by omega
            have := parseInt32_lt c rate hp
            simp [hr, h0]
            omega
  · rw [rate_many dur s c win x t hs] at h
    cases h

theorem parseInt32_render (n : Nat) (hn : n < 2 ^ 31) : parseInt32 (renderNat n) = some (n : Int) := by
  rw [parseInt32_digits _ (renderNat_allDigits n), renderNat_val, if_pos hn]

theorem rate_roundtrip (dur : List Char → Option Int) (n : Nat) (hn : n < 2 ^ 31) :
    parseRateLimit dur (renderNat n) = .ok (n, 1000000000) ∧
    (∀ (w : List Char) (d : Int), '/' ∉ w → dur (if startsNumber w then w else '1' :: w) = some d → 0 ≤ d →
      parseRateLimit dur (renderNat n ++ '/' :: w) = .ok (n, d)) := by
  have hns : '/' ∉ renderNat n := renderNat_not_mem n '/' slash_not_digit
  have hneg : ¬ ((n : Int) < 0) := by omega
  constructor
  · rw [rate_one dur _ _ (splitOn_noSep '/' _ hns), parseInt32_render n hn]
    simp [hneg]
  · intro w d hw hd h0
    have hs : splitOn '/' (renderNat n ++ '/' :: w) = [renderNat n, w] := by
      rw [splitOn_append '/' _ _ hns, splitOn_noSep '/' w hw]
    have hd0 : ¬ (d < 0) := by omega
    rw [rate_two dur _ _ _ hs, parseInt32_render n hn]
    simp [hneg, hd, hd0]

end SxVerif.Proofs.Parse
