/-
Lemmas for C18, part 4: IP and TCP flag lists.
-/
import SxVerif.Proofs.ParsePorts
import SxVerif.Generated.Flags

namespace SxVerif.Proofs.Parse
open SxVerif.Gen SxVerif.Parse SxVerif.NetParse SxVerif.Generated
open SxVerif.Spec.Net (splitOn)
open SxVerif.Spec.Parse
open SxVerif.Proofs.Net

theorem ip_names_ok : ∀ n ∈ ipFlagTable.map (·.1), n.toList ≠ [] ∧ ',' ∉ n.toList := by decide
theorem tcp_names_ok : ∀ n ∈ tcpFlagTable.map (·.1), n.toList ≠ [] ∧ ',' ∉ n.toList := by decide

theorem toList_beq (a b : String) : (a.toList == b.toList) = (a == b) := by
  rw [Bool.eq_iff_iff]
  simp [String.toList_inj]

/-- the pieces of a rendered name list are the names -/
theorem split_join_names (names : List String) (hne : names ≠ [])
    (hok : ∀ n ∈ names, n.toList ≠ [] ∧ ',' ∉ n.toList) :
    (join ',' (names.map String.toList)).isEmpty = false ∧
      split ',' (join ',' (names.map String.toList)) = names.map String.toList := by
  constructor
  · rw [List.isEmpty_eq_false_iff]
    apply join_ne_nil
    · intro l hl
      obtain ⟨n, hn, rfl⟩ := List.mem_map.1 hl
      exact (hok n hn).1
    · simpa using hne
  · rw [split_eq]
    apply splitOn_join
    · simpa using hne
    · intro l hl
      obtain ⟨n, hn, rfl⟩ := List.mem_map.1 hl
      exact (hok n hn).2

/-! ### IP flags -/

/-- one step of the model's fold -/
def ipStepM (table : List (String × Nat)) (acc : Option Nat) (f : List Char) : Option Nat :=
  match acc, table.find? (fun e => e.1.toList == f) with
  | some v, some e => some (v ||| e.2)
  | _, _ => none

/-- one step of the spec's fold -/
def ipStepS (table : List (String × Nat)) (acc : Option Nat) (n : String) : Option Nat :=
  match acc, table.find? (fun e => e.1 == n) with
  | some v, some e => some (v ||| e.2)
  | _, _ => none

theorem parseIPFlags_eq (table : List (String × Nat)) (lowered : List Char) :
    parseIPFlags table lowered =
      if lowered.isEmpty then some 0 else (split ',' lowered).foldl (ipStepM table) (some 0) := rfl

theorem flagBits_eq (table : List (String × Nat)) (names : List String) :
    flagBits table names = names.foldl (ipStepS table) (some 0) := rfl

theorem ipStep_eq (table : List (String × Nat)) (acc : Option Nat) (n : String) :
    ipStepM table acc n.toList = ipStepS table acc n := by
  unfold ipStepM ipStepS
  have : (fun e : String × Nat => e.1.toList == n.toList) = (fun e => e.1 == n) := by
    funext e; exact toList_beq e.1 n
  rw [this]

theorem ipFold_eq (table : List (String × Nat)) : ∀ (names : List String) (acc : Option Nat),
    (names.map String.toList).foldl (ipStepM table) acc = names.foldl (ipStepS table) acc
  | [], _ => rfl
  | n :: rest, acc => by
    rw [List.map_cons, List.foldl_cons, List.foldl_cons, ipStep_eq, ipFold_eq table rest]

theorem ipStepM_none (table : List (String × Nat)) (f : List Char) : ipStepM table none f = none := rfl

theorem ipFoldM_none (table : List (String × Nat)) : ∀ (l : List (List Char)),
    l.foldl (ipStepM table) none = none
  | [] => rfl
  | f :: rest => by rw [List.foldl_cons, ipStepM_none, ipFoldM_none table rest]

theorem ipFoldS_isSome (table : List (String × Nat)) : ∀ (names : List String) (acc : Option Nat),
    acc.isSome = true → (∀ n ∈ names, n ∈ table.map (·.1)) →
    (names.foldl (ipStepS table) acc).isSome = true
  | [], _, h, _ => h
  | n :: rest, acc, h, hn => by
    rw [List.foldl_cons]
    apply ipFoldS_isSome table rest _ _ (fun x hx => hn x (List.mem_cons_of_mem _ hx))
    obtain ⟨a, rfl⟩ := Option.isSome_iff_exists.1 h
    obtain ⟨e, he, hen⟩ := List.mem_map.1 (hn n (by simp))
    have hf : (table.find? (fun e => e.1 == n)).isSome = true := by
      rw [List.find?_isSome]
      exact ⟨e, he, by simpa using hen⟩
    obtain ⟨e', he'⟩ := Option.isSome_iff_exists.1 hf
    simp [ipStepS, he']

theorem ipFoldM_some (table : List (String × Nat)) : ∀ (pieces : List (List Char)) (acc : Option Nat) (v : Nat),
    pieces.foldl (ipStepM table) acc = some v →
    ∃ names : List String, (∀ n ∈ names, n ∈ table.map (·.1)) ∧ pieces = names.map String.toList ∧
      names.foldl (ipStepS table) acc = some v
  | [], acc, v, h => ⟨[], by simp, rfl, h⟩
  | f :: rest, acc, v, h => by
    rw [List.foldl_cons] at h
    cases acc with
    | none => rw [ipStepM_none, ipFoldM_none] at h; cases h
    | some a =>
      cases hf : table.find? (fun e => e.1.toList == f) with
      | none =>
        have : ipStepM table (some a) f = none := by simp [ipStepM, hf]
        rw [this, ipFoldM_none] at h; cases h
      | some e =>
        have hp : (e.1.toList == f) = true := List.find?_some (p := fun e : String × Nat => e.1.toList == f) hf
        have hm : e ∈ table := List.mem_of_find?_eq_some hf
        have hef : e.1.toList = f := by simpa using hp
        obtain ⟨names, h1, h2, h3⟩ := ipFoldM_some table rest _ v h
        refine ⟨e.1 :: names, ?_, ?_, ?_⟩
        · intro n hn
          rcases List.mem_cons.1 hn with rfl | hn
          · exact List.mem_map.2 ⟨e, hm, rfl⟩
          · exact h1 n hn
        · rw [List.map_cons, hef, h2]
        · rw [List.foldl_cons, ← ipStep_eq, hef]
          exact h3

theorem ipflags_roundtrip (names : List String) (hne : names ≠ [])
    (h : ∀ n ∈ names, n ∈ ipFlagTable.map (·.1)) :
    parseIPFlags ipFlagTable (join ',' (names.map String.toList)) = flagBits ipFlagTable names ∧
    (flagBits ipFlagTable names).isSome := by
  obtain ⟨h1, h2⟩ := split_join_names names hne (fun n hn => ip_names_ok n (h n hn))
  constructor
  · rw [parseIPFlags_eq, h1, h2, flagBits_eq, ipFold_eq]
    rfl
  · rw [flagBits_eq]
    exact ipFoldS_isSome ipFlagTable names _ rfl h

theorem ipflags_exact (lowered : List Char) (v : Nat) (h : parseIPFlags ipFlagTable lowered = some v) :
    lowered = [] ∧ v = 0 ∨
    ∃ names : List String, (∀ n ∈ names, n ∈ ipFlagTable.map (·.1)) ∧
      splitOn ',' lowered = names.map String.toList ∧ flagBits ipFlagTable names = some v := by
  rw [parseIPFlags_eq] at h
  split at h
  · rename_i he
    left
    cases h
    exact ⟨List.isEmpty_iff.1 he, rfl⟩
  · right
    rw [split_eq] at h
    exact ipFoldM_some ipFlagTable _ _ v h

/-! ### TCP flags -/

theorem find_name (tbl : List String) (n : String) (h : n ∈ tbl) :
    tbl.find? (fun m => m.toList == n.toList) = some n := by
  induction tbl with
  | nil => cases h
  | cons a t ih =>
    rw [List.find?_cons]
    by_cases e : a = n
    · subst e; simp
    · have : (a.toList == n.toList) = false := by
        rw [toList_beq]; simpa using e
      rw [this]
      rcases List.mem_cons.1 h with rfl | h
      · exact absurd rfl e
      · exact ih h

theorem tcpflags_roundtrip (names : List String) (hne : names ≠ [])
    (h : ∀ n ∈ names, n ∈ tcpFlagTable.map (·.1)) :
    parseTCPFlags (tcpFlagTable.map (·.1)) (join ',' (names.map String.toList)) = some names := by
  obtain ⟨h1, h2⟩ := split_join_names names hne (fun n hn => tcp_names_ok n (h n hn))
  unfold parseTCPFlags
  rw [h1, h2]
  simp only [Bool.false_eq_true, ↓reduceIte]
  apply mapM_map_roundtrip
  intro n hn
  exact find_name _ n (h n hn)

theorem tcp_mapM_some (tbl : List String) : ∀ (pieces : List (List Char)) (v : List String),
    pieces.mapM (fun f => tbl.find? (fun n => n.toList == f)) = some v →
    (∀ n ∈ v, n ∈ tbl) ∧ pieces = v.map String.toList
  | [], v, h => by
    simp at h; subst h; simp
  | f :: rest, v, h => by
    rw [List.mapM_cons] at h
    cases hf : tbl.find? (fun n => n.toList == f) with
    | none => rw [hf] at h; simp at h
    | some n =>
      cases hm : rest.mapM (fun f => tbl.find? (fun n => n.toList == f)) with
      | none => rw [hf, hm] at h; simp at h
      | some ns =>
        rw [hf, hm] at h
        simp at h
        subst h
        obtain ⟨h1, h2⟩ := tcp_mapM_some tbl rest ns hm
        have hp : (n.toList == f) = true := List.find?_some (p := fun n : String => n.toList == f) hf
        have hnf : n.toList = f := by simpa using hp
        refine ⟨?_, by rw [List.map_cons, hnf, h2]⟩
        intro x hx
        rcases List.mem_cons.1 hx with rfl | hx
        · exact List.mem_of_find?_eq_some hf
        · exact h1 x hx

theorem tcpflags_exact (lowered : List Char) (v : List String)
    (h : parseTCPFlags (tcpFlagTable.map (·.1)) lowered = some v) :
    (∀ n ∈ v, n ∈ tcpFlagTable.map (·.1)) ∧
      (lowered = [] ∧ v = [] ∨ splitOn ',' lowered = v.map String.toList) := by
  unfold parseTCPFlags at h
  split at h
  · rename_i he
    cases h
    exact ⟨by simp, Or.inl ⟨List.isEmpty_iff.1 he, rfl⟩⟩
  · rw [split_eq] at h
    obtain ⟨h1, h2⟩ := tcp_mapM_some _ _ v h
    exact ⟨h1, Or.inr h2⟩

end SxVerif.Proofs.Parse
