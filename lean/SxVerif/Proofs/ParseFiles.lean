/-
Lemmas for C18, part 5: the ports file and the exclusion file (`bufio.Scanner` + per-line handling).
-/
import SxVerif.Proofs.ParsePorts

namespace SxVerif.Proofs.Parse
open SxVerif.Gen SxVerif.Parse SxVerif.NetParse
open SxVerif.Spec.Net (splitOn)
open SxVerif.Spec.Parse
open SxVerif.Proofs.Net

/-- no token after a final newline / for empty input -/
def trimLast (ls : List (List Char)) : List (List Char) :=
  match ls.getLast? with
  | some [] => ls.dropLast
  | _ => ls

def stripCR (l : List Char) : List Char := if l.getLast? == some '\r' then l.dropLast else l

def short (l : List Char) : Bool := l.length < maxToken

theorem scanLines_eq (data : List Char) :
    scanLines data =
      (((trimLast (splitOn '\n' data)).takeWhile short).map stripCR,
        decide (((trimLast (splitOn '\n' data)).takeWhile short).length < (trimLast (splitOn '\n' data)).length)) := by
  unfold scanLines
  rw [split_eq]
  rfl

theorem entryLines_eq (data : List Char) :
    entryLines data = ((trimLast (splitOn '\n' data)).map stripCR).filterMap cleanLine := by
  rw [List.filterMap_map]
  rfl

theorem hasLongLine_eq (data : List Char) :
    hasLongLine data = !(splitOn '\n' data).all short := by
  unfold hasLongLine
  rw [List.all_eq_not_any_not, Bool.not_not]
  congr 1
  funext l
  by_cases h : l.length < 65536
  · have : ¬ (65536 ≤ l.length) := by omega
    simp [short, maxToken, h, this]
  · have : 65536 ≤ l.length := by omega
    simp [short, maxToken, h, this]

theorem trimLast_all (ls : List (List Char)) : (trimLast ls).all short = ls.all short := by
  unfold trimLast
  split
  · rename_i h
    obtain ⟨ys, rfl⟩ := List.getLast?_eq_some_iff.1 h
    simp [short, maxToken]
  · rfl

theorem takeWhile_length_lt {α} (p : α → Bool) : ∀ (l : List α),
    decide ((l.takeWhile p).length < l.length) = !l.all p
  | [] => rfl
  | a :: rest => by
    rw [List.takeWhile_cons, List.all_cons]
    cases hp : p a
    · simp
    · have ih := takeWhile_length_lt p rest
      simp only [List.length_cons, Bool.true_and, ↓reduceIte]
      rw [← ih]
      simp

theorem takeWhile_of_all {α} (p : α → Bool) : ∀ (l : List α), l.all p = true → l.takeWhile p = l
  | [], _ => rfl
  | a :: rest, h => by
    simp only [List.all_cons, Bool.and_eq_true] at h
    rw [List.takeWhile_cons, h.1, if_pos rfl, takeWhile_of_all p rest h.2]

theorem scanLines_tooLong (data : List Char) : (scanLines data).2 = hasLongLine data := by
  rw [scanLines_eq, hasLongLine_eq, takeWhile_length_lt, trimLast_all]

theorem scanLines_lines (data : List Char) (h : hasLongLine data = false) :
    (scanLines data).1.filterMap cleanLine = entryLines data := by
  rw [hasLongLine_eq, ← trimLast_all] at h
  rw [scanLines_eq, entryLines_eq, takeWhile_of_all short _ (by simpa using h)]

/-- a too-long line turns success into an error -/
def fileRes {β} (c : Res β) (tooLong : Bool) : Res β :=
  match c with
  | .ok v => if tooLong then Res.err else .ok v
  | r => r

theorem parsePortsFile_eq (data : List Char) :
    parsePortsFile data =
      fileRes (collect (((scanLines data).1.filterMap cleanLine).map parsePortRange)) (scanLines data).2 := by
  unfold parsePortsFile fileRes
  rcases scanLines data with ⟨ls, tl⟩
  dsimp only
  cases collect (List.map parsePortRange (List.filterMap cleanLine ls)) <;> rfl

theorem parseExcludeFile_eq (data : List Char) :
    parseExcludeFile data =
      fileRes (collect (((scanLines data).1.filterMap cleanLine).map (fun l => match parseIPNet l with
        | some n => Res.ok (n.base, n.ones)
        | none => .err))) (scanLines data).2 := by
  unfold parseExcludeFile fileRes
  rcases scanLines data with ⟨ls, tl⟩
  dsimp only
  generalize collect (List.map (fun l => match parseIPNet l with
        | some n => Res.ok (n.base, n.ones)
        | none => .err) (List.filterMap cleanLine ls)) = c
  cases c <;> rfl

theorem fileRes_ok {β} (c : Res β) (tooLong : Bool) (v : β) :
    fileRes c tooLong = .ok v ↔ tooLong = false ∧ c = .ok v := by
  cases c <;> cases tooLong <;> simp [fileRes]

theorem fileRes_ne_panic {β} (c : Res β) (tooLong : Bool) (h : c ≠ .panic) :
    fileRes c tooLong ≠ .panic := by
  cases c <;> cases tooLong <;> simp [fileRes] at h ⊢

theorem file_ok {β} (f : List Char → Res β) (data : List Char) (v : List β) :
    fileRes (collect (((scanLines data).1.filterMap cleanLine).map f)) (scanLines data).2 = .ok v ↔
    hasLongLine data = false ∧ (entryLines data).mapM (fun l => okOnly (f l)) = some v := by
  rw [fileRes_ok, scanLines_tooLong]
  constructor
  · rintro ⟨h1, h2⟩
    rw [scanLines_lines data h1, collect_map_ok] at h2
    exact ⟨h1, h2⟩
  · rintro ⟨h1, h2⟩
    rw [scanLines_lines data h1, collect_map_ok]
    exact ⟨h1, h2⟩

theorem ports_file (data : List Char) (v : List PortRange) :
    parsePortsFile data = .ok v ↔
      hasLongLine data = false ∧
      (entryLines data).mapM (fun l => match parsePortRange l with
        | .ok r => some r
        | _ => none) = some v := by
  rw [parsePortsFile_eq, file_ok parsePortRange data v]
  have e : (fun l => okOnly (parsePortRange l)) = (fun l => match parsePortRange l with
        | .ok r => some r
        | _ => none) := by
    funext l
    cases parsePortRange l <;> rfl
  rw [e]

theorem exclude_file (data : List Char) (v : List (Nat × Nat)) :
    parseExcludeFile data = .ok v ↔
      hasLongLine data = false ∧
      (entryLines data).mapM (fun l => (parseIPNet l).map (fun n => (n.base, n.ones))) = some v := by
  have := file_ok (fun l => match parseIPNet l with
      | some n => Res.ok (n.base, n.ones)
      | none => .err) data v
  have e : (fun l => okOnly (match parseIPNet l with
      | some n => Res.ok (n.base, n.ones)
      | none => .err)) = (fun l => (parseIPNet l).map (fun n => (n.base, n.ones))) := by
    funext l
    cases parseIPNet l <;> rfl
  rw [e] at this
  rw [parseExcludeFile_eq]
  exact this

theorem files_no_panic (data : List Char) :
    parsePortsFile data ≠ .panic ∧ parseExcludeFile data ≠ .panic := by
  constructor
  · rw [parsePortsFile_eq]
    apply fileRes_ne_panic
    apply collect_no_panic
    intro r hr
    obtain ⟨x, _, rfl⟩ := List.mem_map.1 hr
    exact parsePortRange_ne_panic x
  · rw [parseExcludeFile_eq]
    apply fileRes_ne_panic
    apply collect_no_panic
    intro r hr
    obtain ⟨x, _, rfl⟩ := List.mem_map.1 hr
    cases parseIPNet x <;> simp

end SxVerif.Proofs.Parse
