/-
Lemmas for C14, part 5: flat objects made of readable, newline-free parts; sizes; `norm` keeps
well-formedness.
-/
import SxVerif.Proofs.JsonTree

namespace SxVerif.Proofs.Json
open SxVerif.Json SxVerif.Spec.Json

/-- no newline character -/
def Clean (txt : List Char) : Prop := ∀ c ∈ txt, c ≠ '\n'

theorem clean_nil : Clean [] := by intro c h; simp at h
theorem clean_cons {c : Char} {t : List Char} (hc : c ≠ '\n') (ht : Clean t) : Clean (c :: t) := by
  intro d hd; simp at hd; rcases hd with rfl | hd; exact hc; exact ht d hd
theorem clean_append {a b : List Char} (ha : Clean a) (hb : Clean b) : Clean (a ++ b) := by
  intro d hd; simp at hd; rcases hd with hd | hd; exact ha d hd; exact hb d hd

theorem hexChar_ne_nl (n : Nat) : hexChar n ≠ '\n' := by
  unfold hexChar; split <;> decide

theorem clean_u00 (c : Char) : Clean (u00 c) := by
  intro d hd
  simp only [u00, List.mem_cons, List.not_mem_nil, or_false] at hd
  rcases hd with rfl | rfl | rfl | rfl | rfl | rfl
  · decide
  · decide
  · decide
  · decide
  · exact hexChar_ne_nl _
  · exact hexChar_ne_nl _

theorem clean_lit (l : List Char) (h : l.all (· != '\n') = true) : Clean l := by
  intro c hc; rw [List.all_eq_true] at h; simpa using h c hc

theorem clean_escEasyCh (c : Char) : Clean (escEasyCh c) := by
  unfold escEasyCh
  repeat' split
  all_goals first
    | exact clean_u00 c
    | (apply clean_lit; decide)
    | (intro d hd; simp only [List.mem_singleton] at hd; subst hd; assumption)

theorem clean_escStdCh (c : Char) : Clean (escStdCh c) := by
  unfold escStdCh
  repeat' split
  all_goals first
    | exact clean_u00 c
    | (apply clean_lit; decide)
    | (intro d hd; simp only [List.mem_singleton] at hd; subst hd; assumption)

theorem clean_escEasy (s : GoStr) : Clean (escEasy s) := by
  induction s with
  | nil => exact clean_nil
  | cons p t ih =>
    cases p with
    | ch c => exact clean_append (clean_escEasyCh c) ih
    | bad b => exact clean_append (show Clean ufffd from clean_lit _ (by decide)) ih

theorem clean_escStd (s : GoStr) : Clean (escStd s) := by
  induction s with
  | nil => exact clean_nil
  | cons p t ih =>
    cases p with
    | ch c => exact clean_append (clean_escStdCh c) ih
    | bad b => exact clean_append (show Clean ufffd from clean_lit _ (by decide)) ih

theorem clean_quoteEasy (s : GoStr) : Clean (quoteEasy s) :=
  clean_cons (by decide) (clean_append (clean_escEasy s) (clean_cons (by decide) clean_nil))

theorem clean_quoteStd (s : GoStr) : Clean (quoteStd s) :=
  clean_cons (by decide) (clean_append (clean_escStd s) (clean_cons (by decide) clean_nil))

theorem clean_of_numChars (l : List Char) (h : l.all isNumChar = true) : Clean l := by
  intro c hc hn; subst hn
  rw [List.all_eq_true] at h
  have := h _ hc
  revert this; decide

theorem clean_intDigits (i : Int) : Clean (intDigits i) := clean_of_numChars _ (intDigits_numChars i)
theorem clean_natDigits (n : Nat) : Clean (natDigits n) := clean_intDigits (Int.ofNat n)

mutual
theorem clean_render : ∀ (v : GoVal), wf v = true → Clean (renderRaw v)
  | .null, _ => clean_lit _ (by decide)
  | .bool true, _ => clean_lit _ (by decide)
  | .bool false, _ => clean_lit _ (by decide)
  | .int i, _ => clean_intDigits i
  | .num l, hw => by
    simp only [wf, Bool.and_eq_true] at hw
    exact clean_of_numChars l hw.1.2
  | .str s, _ => clean_quoteStd _
  | .arr l, hw => by
    simp only [wf] at hw
    exact clean_cons (by decide) (clean_append (clean_elems l hw) (clean_cons (by decide) clean_nil))
  | .map m, hw => by
    simp only [wf] at hw
    exact clean_cons (by decide) (clean_append (clean_mems m hw) (clean_cons (by decide) clean_nil))
  | .struct m, hw => by
    simp only [wf] at hw
    exact clean_cons (by decide) (clean_append (clean_mems m hw) (clean_cons (by decide) clean_nil))
theorem clean_elems : ∀ (l : List GoVal), wfList l = true → Clean (renderElems l)
  | [], _ => clean_nil
  | [v], hw => by
    simp only [wfList, Bool.and_true] at hw
    simpa [renderElems] using clean_render v hw
  | v :: w :: t, hw => by
    rw [wfList, Bool.and_eq_true] at hw
    simp only [renderElems]
    exact clean_append (clean_render v hw.1) (clean_cons (by decide) (clean_elems (w :: t) hw.2))
theorem clean_mems : ∀ (m : List (List Char × GoVal)), wfMems m = true → Clean (renderMems m)
  | [], _ => clean_nil
  | [(k, v)], hw => by
    simp only [wfMems, Bool.and_true] at hw
    simp only [renderMems]
    exact clean_append (clean_quoteStd _) (clean_cons (by decide) (clean_render v hw))
  | (k, v) :: kv :: t, hw => by
    rw [wfMems, Bool.and_eq_true] at hw
    simp only [renderMems]
    exact clean_append (clean_append (clean_quoteStd _) (clean_cons (by decide) (clean_render v hw.1)))
      (clean_cons (by decide) (clean_mems (kv :: t) hw.2))
end

/-! ### sizes: the reader's fuel need is bounded by the length of the text -/

theorem natDigits_length_pos (n : Nat) : 1 ≤ (natDigits n).length := by
  obtain ⟨_, _, c, t, hct, _, _⟩ := natDigits_spec n
  rw [hct]; simp

theorem intDigits_length_pos (i : Int) : 1 ≤ (intDigits i).length := by
  cases i with
  | ofNat n => exact natDigits_length_pos n
  | negSucc n => simp [intDigits]

mutual
theorem cost_le : ∀ (v : GoVal), wf v = true → cost v ≤ (renderRaw v).length
  | .null, _ => by simp [cost, renderRaw]
  | .bool true, _ => by simp [cost, renderRaw]
  | .bool false, _ => by simp [cost, renderRaw]
  | .int i, _ => by simpa [cost, renderRaw] using intDigits_length_pos i
  | .num l, hw => by
    simp only [wf, Bool.and_eq_true] at hw
    cases l with
    | nil => simp at hw
    | cons c t => simp [cost, renderRaw]
  | .str s, _ => by simp [cost, renderRaw, quoteStd]
  | .arr l, hw => by
    simp only [wf] at hw
    have := costL_le l hw
    simp only [cost, renderRaw, List.length_cons, List.length_append, List.length_nil]; omega
  | .map m, hw => by
    simp only [wf] at hw
    have := costM_le m hw
    simp only [cost, renderRaw, List.length_cons, List.length_append, List.length_nil]; omega
  | .struct m, hw => by
    simp only [wf] at hw
    have := costM_le m hw
    simp only [cost, renderRaw, List.length_cons, List.length_append, List.length_nil]; omega
theorem costL_le : ∀ (l : List GoVal), wfList l = true → costL l ≤ (renderElems l).length + 1
  | [], _ => by simp [costL]
  | [v], hw => by
    simp only [wfList, Bool.and_true] at hw
    have := cost_le v hw
    simp only [costL, renderElems]; omega
  | v :: w :: t, hw => by
    rw [wfList, Bool.and_eq_true] at hw
    have h1 := cost_le v hw.1
    have h2 := costL_le (w :: t) hw.2
    rw [costL]
    simp only [renderElems, List.length_cons, List.length_append]; omega
theorem costM_le : ∀ (m : List (List Char × GoVal)), wfMems m = true → costM m ≤ (renderMems m).length + 1
  | [], _ => by simp [costM]
  | [(k, v)], hw => by
    simp only [wfMems, Bool.and_true] at hw
    have := cost_le v hw
    simp only [costM, renderMems, List.length_cons, List.length_append]; omega
  | (k, v) :: kv :: t, hw => by
    rw [wfMems, Bool.and_eq_true] at hw
    have h1 := cost_le v hw.1
    have h2 := costM_le (kv :: t) hw.2
    rw [costM]
    simp only [renderMems, List.length_cons, List.length_append]; omega
end

/-! ### parts -/

structure Part where
  key : List Char
  txt : List Char
  val : JVal
  n : Nat

def Part.Good (p : Part) : Prop := Reads p.txt p.val p.n ∧ p.n ≤ p.txt.length ∧ Clean p.txt

def partsText : List Part → List Char
  | [] => []
  | [p] => quoteStd (ofChars p.key) ++ ':' :: p.txt
  | p :: q :: t => quoteStd (ofChars p.key) ++ ':' :: (p.txt ++ ',' :: partsText (q :: t))

def partsCost : List Part → Nat
  | [] => 0
  | p :: t => 1 + p.n + partsCost t

def partsFields (ps : List Part) : List (Key × JVal) := ps.map (fun p => (p.key, p.val))

theorem reads_parts : ∀ (ps : List Part), ps ≠ [] → (∀ p ∈ ps, p.Good) → ∀ f, partsCost ps ≤ f → ∀ rest,
    readMems f (partsText ps ++ '}' :: rest) = some (partsFields ps, rest)
  | [], h, _, _, _, _ => absurd rfl h
  | [p], _, hg, f, hf, rest => by
    simp only [partsCost] at hf
    obtain ⟨g, rfl⟩ : ∃ g, f = g + 1 := ⟨f - 1, by omega⟩
    have hp := (hg p (by simp)).1
    simp only [partsText, partsFields, List.map, List.append_assoc, List.cons_append]
    exact readMems_last g p.key _ _ rest
      (hp.2 g (by omega) ('}' :: rest) (restOk_of_head _ _ isNumChar_rbrace))
  | p :: q :: t, _, hg, f, hf, rest => by
    rw [partsCost] at hf
    obtain ⟨g, rfl⟩ : ∃ g, f = g + 1 := ⟨f - 1, by omega⟩
    have hp := (hg p (by simp)).1
    have ih := reads_parts (q :: t) (by simp) (fun x hx => hg x (by simp at hx ⊢; right; exact hx)) g (by omega) rest
    simp only [partsText, partsFields, List.map, List.append_assoc, List.cons_append]
    exact readMems_more g p.key _ _ _ _ rest
      (hp.2 g (by omega) _ (restOk_of_head _ _ isNumChar_comma)) ih

theorem headOk_parts (ps : List Part) (hne : ps ≠ []) : HeadOk (partsText ps) := by
  match ps, hne with
  | [p], _ => simp only [partsText, quoteStd, List.cons_append]; exact headOk_quote _
  | p :: q :: t, _ => simp only [partsText, quoteStd, List.cons_append]; exact headOk_quote _

theorem partsCost_le : ∀ (ps : List Part), (∀ p ∈ ps, p.Good) → partsCost ps ≤ (partsText ps).length + 1
  | [], _ => by simp [partsCost]
  | [p], hg => by
    have := (hg p (by simp)).2.1
    simp only [partsCost, partsText, quoteStd, List.length_cons, List.length_append]; omega
  | p :: q :: t, hg => by
    have := (hg p (by simp)).2.1
    have ih := partsCost_le (q :: t) (fun x hx => hg x (by simp at hx ⊢; right; exact hx))
    rw [partsCost]
    simp only [partsText, quoteStd, List.length_cons, List.length_append]; omega

theorem clean_parts : ∀ (ps : List Part), (∀ p ∈ ps, p.Good) → Clean (partsText ps)
  | [], _ => clean_nil
  | [p], hg => by
    simp only [partsText]
    exact clean_append (clean_quoteStd _) (clean_cons (by decide) (hg p (by simp)).2.2)
  | p :: q :: t, hg => by
    simp only [partsText]
    exact clean_append (clean_quoteStd _) (clean_cons (by decide)
      (clean_append (hg p (by simp)).2.2 (clean_cons (by decide)
        (clean_parts (q :: t) (fun x hx => hg x (by simp at hx ⊢; right; exact hx))))))

def objText (ps : List Part) : List Char := '{' :: (partsText ps ++ ['}'])

/-- an object made of good parts is itself a good part value -/
theorem reads_obj (ps : List Part) (hne : ps ≠ []) (hg : ∀ p ∈ ps, p.Good) :
    Reads (objText ps) (.obj (partsFields ps)) (1 + partsCost ps) := by
  refine ⟨⟨'{', _, rfl, by decide, by decide, by decide⟩, ?_⟩
  intro f hf rest _
  obtain ⟨g, rfl⟩ : ∃ g, f = g + 1 := ⟨f - 1, by omega⟩
  simp only [objText, List.cons_append, List.append_assoc, List.nil_append]
  exact readValue_obj g _ _ rest (headOk_parts ps hne) (reads_parts ps hne hg g (by omega) rest)

theorem good_obj (key : List Char) (ps : List Part) (hne : ps ≠ []) (hg : ∀ p ∈ ps, p.Good) :
    Part.Good ⟨key, objText ps, .obj (partsFields ps), 1 + partsCost ps⟩ := by
  refine ⟨reads_obj ps hne hg, ?_, ?_⟩
  · have := partsCost_le ps hg
    simp only [objText, List.length_cons, List.length_append, List.length_nil]; omega
  · exact clean_cons (by decide) (clean_append (clean_parts ps hg) (clean_cons (by decide) clean_nil))

/-- **object round trip**: a complete text `{parts}` is read as exactly its fields, and is one line -/
theorem readObject_parts (ps : List Part) (hne : ps ≠ []) (hg : ∀ p ∈ ps, p.Good) :
    readObject (objText ps) = some (partsFields ps) ∧ Clean (objText ps) := by
  have hr := (reads_obj ps hne hg).2 ((objText ps).length + 1) (by
    have := partsCost_le ps hg
    simp only [objText, List.length_cons, List.length_append, List.length_nil]; omega) [] restOk_nil
  rw [List.append_nil] at hr
  refine ⟨?_, (good_obj [] ps hne hg).2.2⟩
  simp [readObject, hr, skipWs]

/-! ### good atoms -/

theorem good_strEasy (key : List Char) (s : GoStr) : Part.Good ⟨key, quoteEasy s, .str (sanitize s), 1⟩ :=
  ⟨reads_strEasy s, by simp [quoteEasy], clean_quoteEasy s⟩

theorem good_strStd (key : List Char) (s : GoStr) : Part.Good ⟨key, quoteStd s, .str (sanitize s), 1⟩ :=
  ⟨reads_strStd s, by simp [quoteStd], clean_quoteStd s⟩

theorem good_nat (key : List Char) (n : Nat) : Part.Good ⟨key, natDigits n, .int n, 1⟩ :=
  ⟨reads_nat n, natDigits_length_pos n, clean_natDigits n⟩

theorem good_int (key : List Char) (i : Int) : Part.Good ⟨key, intDigits i, .int i, 1⟩ :=
  ⟨reads_int i, intDigits_length_pos i, clean_intDigits i⟩

theorem good_null (key : List Char) : Part.Good ⟨key, ['n', 'u', 'l', 'l'], .null, 1⟩ :=
  ⟨reads_null, by simp, (show Clean ['n', 'u', 'l', 'l'] from clean_lit _ (by decide))⟩

theorem good_true (key : List Char) : Part.Good ⟨key, ['t', 'r', 'u', 'e'], .bool true, 1⟩ :=
  ⟨reads_true, by simp, (show Clean ['t', 'r', 'u', 'e'] from clean_lit _ (by decide))⟩

theorem good_tree (key : List Char) (v : GoVal) (hw : wf v = true) :
    Part.Good ⟨key, renderRaw v, toJ v, cost v⟩ :=
  ⟨⟨headOk_render v hw, reads_val v hw⟩, cost_le v hw, clean_render v hw⟩

end SxVerif.Proofs.Json
