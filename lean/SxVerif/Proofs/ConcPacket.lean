/-
Packet pipeline: the theorems the property files appeal to.
-/
import SxVerif.Proofs.ConcPacketConserve
import SxVerif.Proofs.ConcPacketDrain
import SxVerif.Proofs.ConcPacketCancel

namespace SxVerif.Pipe
open Desc

theorem wf_of_sideConds {t : Topology} (h : SideConds t) : (cfgOf t).WF :=
  ⟨h.2.2.2.1, h.2.2.1.2.2.2.2.2.2.2.2.1, h.2.2.1.2.2.2.2.2.2.2.2.2.2.2.2.2.2⟩

theorem returnGuarded_of_sideConds {t : Topology} (h : SideConds t) : (cfgOf t).ReturnGuarded :=
  ⟨h.2.2.2.2.2.2.1, h.2.2.2.2.2.2.2.1⟩

theorem reachableNC_ctx {cfg inp s} (h : ReachableNC cfg inp s) : s.ctx = false := by
  induction h with
  | init => rfl
  | step _ hst ih =>
    obtain ⟨ev, hne, hev⟩ := hst
    have := drain_ctx_step ih hne hev
    exact this

theorem reachableNC_shape {cfg inp s} (hwf : cfg.WF) (h : ReachableNC cfg inp s) : sndShape s.snd := by
  induction h with
  | init => simp [init, sndShape]
  | step _ hst ih => obtain ⟨ev, _, hev⟩ := hst; exact sndShape_step hwf ih hev

/-- conservation in every state of every run that is not cancelled -/
theorem reachableNC_conserve {cfg inp s} (hwf : cfg.WF) (h : ReachableNC cfg inp s) : Conserve s := by
  induction h with
  | init =>
    intro t
    have : ∀ n, (List.replicate n ({} : Lane)).flatMap laneToks = [] := by
      intro n; induction n with
      | zero => rfl
      | succ n ih => simp [List.replicate_succ, ih, laneToks, wToks, chanToks, mToks]
    simp [init, doneToks, inflight, sourceToks, chanToks, sndToks, mToks, writeErrs, this]
  | step hr hst ih =>
    obtain ⟨ev, _, hev⟩ := hst
    exact conserve_step hwf (reachable_safe hwf (reachableNC_reachable hr)) (reachableNC_ctx hr)
      (reachableNC_shape hwf hr) ih hev

end SxVerif.Pipe
