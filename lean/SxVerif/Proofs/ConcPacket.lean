/-
Packet pipeline: the theorems the property files appeal to.
-/
import SxVerif.Proofs.ConcPacketConserve
import SxVerif.Proofs.ConcPacketDrain
import SxVerif.Proofs.ConcPacketCancel

namespace SxVerif.Pipe
open Desc

theorem wf_of_sideConds {t : Topology} (h : SideConds t) : (cfgOf t).WF :=
  ⟨h.2.2.2.1, h.2.2.1.2.2.2.2.2.2.2.2.1, h.2.2.1.2.2.2.2.2.2.2.2.2.2.2.2.2.2⟩

theorem returnGuarded_of_sideConds {t : Topology} (h : SideConds t) : (cfgOf t).ReturnGuarded :=
  ⟨h.2.2.2.2.2.2.1, h.2.2.2.2.2.2.2.1⟩

theorem reachableNC_ctx {cfg inp s} (h : ReachableNC cfg inp s) : s.ctx = false := by
  induction h with
  | init => rfl
  | step _ hst ih =>
    obtain ⟨ev, hne, hev⟩ := hst
    have := drain_ctx_step ih hne hev
    exact this

theorem reachableNC_shape {cfg inp s} (hwf : cfg.WF) (h : ReachableNC cfg inp s) : sndShape s.snd := by
  induction h with
  | init => simp [init, sndShape]
  | step _ hst ih => obtain ⟨ev, _, hev⟩ := hst; exact sndShape_step hwf ih hev

/-- conservation in every state of every run that is not cancelled -/
theorem reachableNC_conserve {cfg inp s} (hwf : cfg.WF) (h : ReachableNC cfg inp s) : Conserve s := by
  induction h with
  | init =>
    intro t
    have : ∀ n, (List.replicate n ({} : Lane)).flatMap laneToks = [] := by
      intro n; induction n with
      | zero => rfl
      | succ n ih => simp [List.replicate_succ, ih, laneToks, wToks, chanToks, mToks]
    simp [init, doneToks, inflight, sourceToks, chanToks, sndToks, mToks, writeErrs, this]
  | step hr hst ih =>
    obtain ⟨ev, _, hev⟩ := hst
    exact conserve_step hwf (reachable_safe hwf (reachableNC_reachable hr)) (reachableNC_ctx hr)
      (reachableNC_shape hwf hr) ih hev


theorem reachableNC_drain {cfg inp s} (hwf : cfg.WF) (h : ReachableNC cfg inp s) : Drain cfg inp s := by
  induction h with
  | init => exact drain_init cfg inp
  | step hr hst ih =>
    obtain ⟨ev, hne, hev⟩ := hst
    exact drain_step hwf (reachable_safe hwf (reachableNC_reachable hr)) ih (reachableNC_shape hwf hr) hne hev

def isFrameTok : Tok → Bool
  | .frame _ => true
  | .err _ => false

theorem count_frame_errPkts (l : List Pkt) (h : ∀ p ∈ l, isErrPkt p = true) (r : Req) :
    (l.map pktTok).count (.frame r) = 0 := by
  induction l with
  | nil => rfl
  | cons p ps ih =>
    have hp := h p (by simp)
    cases p with
    | err e => simp [pktTok, List.count_cons]; exact ih (fun q hq => h q (by simp [hq]))
    | buf b q => simp [isErrPkt] at hp

/-- once the sender has left its loop (uncancelled run, at least one worker) no frame is in flight anywhere -/
theorem no_frames_in_flight {cfg inp s} (hs : Safe cfg s) (hd : Drain cfg inp s) (hn : 0 < inp.n)
    (hx : s.snd = .exit2 ∨ s.snd = .finished) (r : Req) :
    (inflight s).count (.frame r) = 0 ∧ s.consumed = inp.reqs := by
  have hm := hd.sndExit (by rcases hx with h | h <;> simp [h])
  have hcl := hs.mergedClosed hm.1
  have hwg := hs.closerWg (by rw [hcl]; simp)
  have hall : ∀ l ∈ s.lanes, l.m = .finished := by
    intro l hl
    have := hs.wgCount; rw [hwg] at this
    have h0 := (List.countP_eq_zero.mp this.symm) l hl
    simpa [live] using h0
  have hlane : ∀ l ∈ s.lanes, l.w = .finished ∧ l.out.buf = [] := by
    intro l hl
    have h1 := hd.mExit l hl (Or.inr (hall l hl))
    exact ⟨hs.outClosed l hl h1.1, h1.2⟩
  obtain ⟨l0, hl0⟩ : ∃ l, l ∈ s.lanes := by
    have : s.lanes ≠ [] := by intro h; have := hd.lanesLen; simp [h] at this; omega
    exact List.exists_mem_of_ne_nil _ this
  have hinp := hd.wExit l0 hl0 (Or.inr (hlane l0 hl0).1)
  have htodo := hs.inpClosed hinp.1
  have hcons : s.consumed = inp.reqs := by have := hd.reqsSplit; simp [hinp.2, htodo] at this; exact this.symm
  refine ⟨?_, hcons⟩
  have hl : (s.lanes.flatMap laneToks).count (.frame r) = 0 := by
    rw [List.count_eq_zero]
    intro hmem
    rw [List.mem_flatMap] at hmem
    obtain ⟨l, hl, ht⟩ := hmem
    have := hlane l hl
    simp [laneToks, this.1, this.2, hall l hl, wToks, chanToks, mToks] at ht
  have herr := hd.errOnly
  have e1 := count_frame_errPkts s.errc1.buf (fun p hp => herr p (by simp [hp])) r
  have e2 := count_frame_errPkts s.errc2.buf (fun p hp => herr p (by simp [hp])) r
  have e3 := count_frame_errPkts s.merr.buf (fun p hp => herr p (by simp [hp])) r
  have e4 := count_frame_errPkts (mPkts s.em1) (fun p hp => herr p (by simp [hp])) r
  have e5 := count_frame_errPkts (mPkts s.em2) (fun p hp => herr p (by simp [hp])) r
  have m1 : mToks s.em1 = (mPkts s.em1).map pktTok := by cases s.em1 <;> simp [mToks, mPkts]
  have m2 : mToks s.em2 = (mPkts s.em2).map pktTok := by cases s.em2 <;> simp [mToks, mPkts]
  have hsnd : sndToks s.snd = [] := by rcases hx with h | h <;> simp [h, sndToks]
  simp only [inflight, List.count_append, hl, chanToks, hm.2, hsnd, m1, m2, e1, e2, e3, e4, e5]
  simp

/-- `done` is closed only after every frame of the input has been written: for every request, the number
    of writes made for it equals the number of times it occurs as an error-free request of the input -/
theorem packet_done {cfg inp s} (hwf : cfg.WF) (h : ReachableNC cfg inp s) (hn : 0 < inp.n)
    (hdone : s.done = true) (r : Req) :
    (s.writtenG.map Tok.frame).count (.frame r) = (inp.reqs.map tokOf).count (.frame r) := by
  have hs := reachable_safe hwf (reachableNC_reachable h)
  have hd := reachableNC_drain hwf h
  have hx : s.snd = .exit2 ∨ s.snd = .finished := by
    have := hs.doneClosed hdone
    unfold closedBy at this
    split at this
    · exact this
    · exact Or.inr this
  obtain ⟨h0, hcons⟩ := no_frames_in_flight hs hd hn hx r
  have hc := reachableNC_conserve hwf h (.frame r)
  have e6 := count_frame_errPkts s.errsOut (fun p hp => hd.errOnly p (by simp [hp])) r
  have w1 : ((writeErrs s.written).map Tok.err).count (.frame r) = 0 := by
    rw [List.count_eq_zero]; simp
  have w2 : (s.rcvSent.map Tok.err).count (.frame r) = 0 := by
    rw [List.count_eq_zero]; simp
  simp only [doneToks, sourceToks, List.count_append, h0, e6, w1, w2, hcons] at hc
  omega


/-- terminal form of conservation: when every goroutine has returned and the error stream is drained, what
    the writer and the error consumer received is, as a multiset, exactly: one frame per error-free request,
    one error per error request / failed build / failed write / receiver error -/
theorem packet_final {cfg inp s} (hwf : cfg.WF) (h : ReachableNC cfg inp s) (hn : 0 < inp.n)
    (ht : Terminated s) :
    (doneToks s).Perm (inp.reqs.map tokOf ++ (writeErrs s.written).map Tok.err ++ inp.rcvErrs.map Tok.err) := by
  have hs := reachable_safe hwf (reachableNC_reachable h)
  have hd := reachableNC_drain hwf h
  obtain ⟨t1, t2, t3, t4, t5, t6, t7, t8, t9⟩ := ht
  obtain ⟨_, hcons⟩ := no_frames_in_flight hs hd hn (Or.inr t4) default
  have hm := hd.sndExit (by simp [t4])
  have hrcv : s.rcvSent = inp.rcvErrs := by have := hd.rcvSplit; simp [t8] at this; exact this.symm
  have hl : s.lanes.flatMap laneToks = [] := by
    rw [List.flatMap_eq_nil_iff]
    intro l hl
    have := t2 l hl
    have h1 := hd.mExit l hl (Or.inr this.2)
    simp [laneToks, this.1, this.2, h1.2, wToks, chanToks, mToks]
  have h1 := hd.em1Exit (Or.inr t5)
  have h2 := hd.em2Exit (Or.inr t6)
  have hin : inflight s = [] := by
    simp [inflight, hl, chanToks, hm.2, t4, sndToks, h1.2, h2.2, t5, t6, mToks, t9]
  rw [List.perm_iff_count]
  intro t
  have hc := reachableNC_conserve hwf h t
  simp only [hin, sourceToks, hcons, hrcv, List.count_nil, Nat.add_zero] at hc
  exact hc

end SxVerif.Pipe
