/-
Lemmas for C14, part 6: every result type's line is an object of good parts; `norm` keeps
well-formedness and the members of every map.
-/
import SxVerif.Proofs.JsonObj

namespace SxVerif.Proofs.Json
open SxVerif.Json SxVerif.Spec.Json

/-! ### norm -/

theorem wfMems_insertKV (kv : List Char × GoVal) (m : List (List Char × GoVal))
    (h1 : wf kv.2 = true) (h2 : wfMems m = true) : wfMems (insertKV kv m) = true := by
  induction m with
  | nil => obtain ⟨a, b⟩ := kv; simpa [insertKV, wfMems] using h1
  | cons x t ih =>
    obtain ⟨a, b⟩ := kv
    obtain ⟨xa, xb⟩ := x
    rw [wfMems, Bool.and_eq_true] at h2
    simp only [insertKV]
    split
    · simp only [wfMems, Bool.and_eq_true]; exact ⟨h1, h2.1, h2.2⟩
    · simp only [wfMems, Bool.and_eq_true]; exact ⟨h2.1, ih h2.2⟩

theorem wfMems_sortKV (m : List (List Char × GoVal)) (h : wfMems m = true) : wfMems (sortKV m) = true := by
  induction m with
  | nil => simp [sortKV, wfMems]
  | cons x t ih =>
    obtain ⟨xa, xb⟩ := x
    rw [wfMems, Bool.and_eq_true] at h
    exact wfMems_insertKV _ _ h.1 (ih h.2)

mutual
theorem wf_norm : ∀ (v : GoVal), wf v = true → wf (norm v) = true
  | .null, h => h
  | .bool _, h => h
  | .int _, h => h
  | .num _, h => h
  | .str _, h => h
  | .arr l, h => by simp only [wf, norm] at h ⊢; exact wf_normList l h
  | .map m, h => by simp only [wf, norm] at h ⊢; exact wfMems_sortKV _ (wf_normMems m h)
  | .struct m, h => by simp only [wf, norm] at h ⊢; exact wf_normMems m h
theorem wf_normList : ∀ (l : List GoVal), wfList l = true → wfList (normList l) = true
  | [], h => h
  | v :: t, h => by
    rw [wfList, Bool.and_eq_true] at h
    simp only [normList, wfList, Bool.and_eq_true]
    exact ⟨wf_norm v h.1, wf_normList t h.2⟩
theorem wf_normMems : ∀ (m : List (List Char × GoVal)), wfMems m = true → wfMems (normMems m) = true
  | [], h => h
  | (k, v) :: t, h => by
    rw [wfMems, Bool.and_eq_true] at h
    simp only [normMems, wfMems, Bool.and_eq_true]
    exact ⟨wf_norm v h.1, wf_normMems t h.2⟩
end

theorem insertKV_perm (kv : List Char × GoVal) (m : List (List Char × GoVal)) :
    (insertKV kv m).Perm (kv :: m) := by
  induction m with
  | nil => exact List.Perm.refl _
  | cons x t ih =>
    simp only [insertKV]
    split
    · exact List.Perm.refl _
    · exact (List.Perm.cons x ih).trans (List.Perm.swap kv x t)

/-- sorting a map's members loses and invents nothing -/
theorem sortKV_perm (m : List (List Char × GoVal)) : (sortKV m).Perm m := by
  induction m with
  | nil => exact List.Perm.refl _
  | cons x t ih => exact (insertKV_perm x (sortKV t)).trans (List.Perm.cons x ih)

theorem good_val (key : List Char) (v : GoVal) (hw : wf v = true) :
    Part.Good ⟨key, renderVal v, meaning v, cost (norm v)⟩ :=
  good_tree key (norm v) (wf_norm v hw)

/-! ### keys -/

theorem key_ip : quoteStd (ofChars (k "ip")) = lit "\"ip\"" := by decide
theorem key_mac : quoteStd (ofChars (k "mac")) = lit "\"mac\"" := by decide
theorem key_vendor : quoteStd (ofChars (k "vendor")) = lit "\"vendor\"" := by decide
theorem key_scan : quoteStd (ofChars (k "scan")) = lit "\"scan\"" := by decide
theorem key_port : quoteStd (ofChars (k "port")) = lit "\"port\"" := by decide
theorem key_flags : quoteStd (ofChars (k "flags")) = lit "\"flags\"" := by decide
theorem key_ttl : quoteStd (ofChars (k "ttl")) = lit "\"ttl\"" := by decide
theorem key_icmp : quoteStd (ofChars (k "icmp")) = lit "\"icmp\"" := by decide
theorem key_type : quoteStd (ofChars (k "type")) = lit "\"type\"" := by decide
theorem key_code : quoteStd (ofChars (k "code")) = lit "\"code\"" := by decide
theorem key_version : quoteStd (ofChars (k "version")) = lit "\"version\"" := by decide
theorem key_auth : quoteStd (ofChars (k "auth")) = lit "\"auth\"" := by decide
theorem key_proto : quoteStd (ofChars (k "proto")) = lit "\"proto\"" := by decide
theorem key_host : quoteStd (ofChars (k "host")) = lit "\"host\"" := by decide
theorem key_info : quoteStd (ofChars (k "info")) = lit "\"info\"" := by decide
theorem key_indexes : quoteStd (ofChars (k "indexes")) = lit "\"indexes\"" := by decide

/-- a line that is `objText` of good parts is faithful and is one line -/
theorem line_of_parts (txt : List Char) (fields : List (Key × JVal)) (ps : List Part) (hne : ps ≠ [])
    (hg : ∀ p ∈ ps, p.Good) (ht : txt = objText ps) (hf : fields = partsFields ps) :
    readObject txt = some fields ∧ Clean txt := by
  subst ht hf; exact readObject_parts ps hne hg

theorem arp_ok (r : ArpResult) :
    readObject (render (.arp r)) = some (fieldsOf (.arp r)) ∧ Clean (render (.arp r)) := by
  apply line_of_parts _ _
    [⟨k "ip", quoteEasy r.ip, .str (sanitize r.ip), 1⟩, ⟨k "mac", quoteEasy r.mac, .str (sanitize r.mac), 1⟩,
     ⟨k "vendor", quoteEasy r.vendor, .str (sanitize r.vendor), 1⟩] (by simp)
  · intro p hp
    simp only [List.mem_cons, List.not_mem_nil, or_false] at hp
    rcases hp with rfl | rfl | rfl <;> exact good_strEasy _ _
  · simp [render, renderArp, objText, partsText, key_ip, key_mac, key_vendor, lit]
  · simp [fieldsOf, partsFields]


theorem tcp_ok (r : TcpResult) :
    readObject (render (.tcp r)) = some (fieldsOf (.tcp r)) ∧ Clean (render (.tcp r)) := by
  by_cases hfl : r.flags.isEmpty = true
  · apply line_of_parts _ _
      [⟨k "scan", quoteEasy r.scan, .str (sanitize r.scan), 1⟩, ⟨k "ip", quoteEasy r.ip, .str (sanitize r.ip), 1⟩,
       ⟨k "port", natDigits r.port.toNat, .int r.port.toNat, 1⟩] (by simp)
    · intro p hp
      simp only [List.mem_cons, List.not_mem_nil, or_false] at hp
      rcases hp with rfl | rfl | rfl
      · exact good_strEasy _ _
      · exact good_strEasy _ _
      · exact good_nat _ _
    · simp [render, renderTcp, hfl, objText, partsText, key_scan, key_ip, key_port, lit]
    · simp [fieldsOf, partsFields, hfl]
  · apply line_of_parts _ _
      [⟨k "scan", quoteEasy r.scan, .str (sanitize r.scan), 1⟩, ⟨k "ip", quoteEasy r.ip, .str (sanitize r.ip), 1⟩,
       ⟨k "port", natDigits r.port.toNat, .int r.port.toNat, 1⟩,
       ⟨k "flags", quoteEasy r.flags, .str (sanitize r.flags), 1⟩] (by simp)
    · intro p hp
      simp only [List.mem_cons, List.not_mem_nil, or_false] at hp
      rcases hp with rfl | rfl | rfl | rfl
      · exact good_strEasy _ _
      · exact good_strEasy _ _
      · exact good_nat _ _
      · exact good_strEasy _ _
    · simp [render, renderTcp, hfl, objText, partsText, key_scan, key_ip, key_port, key_flags, lit]
    · simp [fieldsOf, partsFields, hfl]

theorem icmp_ok (r : IcmpResult) :
    readObject (render (.icmp r)) = some (fieldsOf (.icmp r)) ∧ Clean (render (.icmp r)) := by
  obtain ⟨scan, ip, ttl, ic⟩ := r
  cases ic with
  | none =>
    apply line_of_parts _ _
      [⟨k "scan", quoteEasy scan, .str (sanitize scan), 1⟩, ⟨k "ip", quoteEasy ip, .str (sanitize ip), 1⟩,
       ⟨k "ttl", natDigits ttl.toNat, .int ttl.toNat, 1⟩, ⟨k "icmp", ['n', 'u', 'l', 'l'], .null, 1⟩] (by simp)
    · intro p hp
      simp only [List.mem_cons, List.not_mem_nil, or_false] at hp
      rcases hp with rfl | rfl | rfl | rfl
      · exact good_strEasy _ _
      · exact good_strEasy _ _
      · exact good_nat _ _
      · exact good_null _
    · simp [render, renderIcmp, objText, partsText, key_scan, key_ip, key_ttl, key_icmp, lit]
    · simp [fieldsOf, partsFields]
  | some tc =>
    obtain ⟨t, c⟩ := tc
    have hin : ∀ p ∈ [(⟨k "type", natDigits t.toNat, .int t.toNat, 1⟩ : Part), ⟨k "code", natDigits c.toNat, .int c.toNat, 1⟩],
        p.Good := by
      intro p hp
      simp only [List.mem_cons, List.not_mem_nil, or_false] at hp
      rcases hp with rfl | rfl <;> exact good_nat _ _
    apply line_of_parts _ _
      [⟨k "scan", quoteEasy scan, .str (sanitize scan), 1⟩, ⟨k "ip", quoteEasy ip, .str (sanitize ip), 1⟩,
       ⟨k "ttl", natDigits ttl.toNat, .int ttl.toNat, 1⟩,
       ⟨k "icmp", objText [⟨k "type", natDigits t.toNat, .int t.toNat, 1⟩, ⟨k "code", natDigits c.toNat, .int c.toNat, 1⟩],
         .obj (partsFields [⟨k "type", natDigits t.toNat, .int t.toNat, 1⟩, ⟨k "code", natDigits c.toNat, .int c.toNat, 1⟩]),
         1 + partsCost [⟨k "type", natDigits t.toNat, .int t.toNat, 1⟩, ⟨k "code", natDigits c.toNat, .int c.toNat, 1⟩]⟩]
      (by simp)
    · intro p hp
      simp only [List.mem_cons, List.not_mem_nil, or_false] at hp
      rcases hp with rfl | rfl | rfl | rfl
      · exact good_strEasy _ _
      · exact good_strEasy _ _
      · exact good_nat _ _
      · exact good_obj _ _ (by simp) hin
    · simp [render, renderIcmp, objText, partsText, key_scan, key_ip, key_ttl, key_icmp, key_type, key_code, lit]
    · simp [fieldsOf, partsFields]

theorem socks_ok (r : SocksResult) :
    readObject (render (.socks r)) = some (fieldsOf (.socks r)) ∧ Clean (render (.socks r)) := by
  by_cases hau : r.auth = true
  · apply line_of_parts _ _
      [⟨k "scan", quoteStd r.scan, .str (sanitize r.scan), 1⟩, ⟨k "version", intDigits r.version, .int r.version, 1⟩,
       ⟨k "ip", quoteStd r.ip, .str (sanitize r.ip), 1⟩, ⟨k "port", natDigits r.port.toNat, .int r.port.toNat, 1⟩,
       ⟨k "auth", ['t', 'r', 'u', 'e'], .bool true, 1⟩] (by simp)
    · intro p hp
      simp only [List.mem_cons, List.not_mem_nil, or_false] at hp
      rcases hp with rfl | rfl | rfl | rfl | rfl
      · exact good_strStd _ _
      · exact good_int _ _
      · exact good_strStd _ _
      · exact good_nat _ _
      · exact good_true _
    · simp [render, renderSocks, hau, objText, partsText, key_scan, key_ip, key_port, key_version, key_auth, lit]
    · simp [fieldsOf, partsFields, hau]
  · apply line_of_parts _ _
      [⟨k "scan", quoteStd r.scan, .str (sanitize r.scan), 1⟩, ⟨k "version", intDigits r.version, .int r.version, 1⟩,
       ⟨k "ip", quoteStd r.ip, .str (sanitize r.ip), 1⟩, ⟨k "port", natDigits r.port.toNat, .int r.port.toNat, 1⟩]
      (by simp)
    · intro p hp
      simp only [List.mem_cons, List.not_mem_nil, or_false] at hp
      rcases hp with rfl | rfl | rfl | rfl
      · exact good_strStd _ _
      · exact good_int _ _
      · exact good_strStd _ _
      · exact good_nat _ _
    · simp [render, renderSocks, hau, objText, partsText, key_scan, key_ip, key_port, key_version, lit]
    · simp [fieldsOf, partsFields, hau]

theorem elastic_ok (r : ElasticResult) (hw : wf r.info = true ∧ wf r.indexes = true) :
    readObject (render (.elastic r)) = some (fieldsOf (.elastic r)) ∧ Clean (render (.elastic r)) := by
  apply line_of_parts _ _
    [⟨k "scan", quoteStd r.scan, .str (sanitize r.scan), 1⟩, ⟨k "proto", quoteStd r.proto, .str (sanitize r.proto), 1⟩,
     ⟨k "host", quoteStd r.host, .str (sanitize r.host), 1⟩, ⟨k "info", renderVal r.info, meaning r.info, cost (norm r.info)⟩,
     ⟨k "indexes", renderVal r.indexes, meaning r.indexes, cost (norm r.indexes)⟩] (by simp)
  · intro p hp
    simp only [List.mem_cons, List.not_mem_nil, or_false] at hp
    rcases hp with rfl | rfl | rfl | rfl | rfl
    · exact good_strStd _ _
    · exact good_strStd _ _
    · exact good_strStd _ _
    · exact good_val _ _ hw.1
    · exact good_val _ _ hw.2
  · simp [render, renderElastic, objText, partsText, key_scan, key_proto, key_host, key_info, key_indexes, lit]
  · simp [fieldsOf, partsFields]

theorem docker_ok (r : DockerResult) (hw : wf r.info = true ∧ wf r.version = true) :
    readObject (render (.docker r)) = some (fieldsOf (.docker r)) ∧ Clean (render (.docker r)) := by
  apply line_of_parts _ _
    [⟨k "scan", quoteStd r.scan, .str (sanitize r.scan), 1⟩, ⟨k "proto", quoteStd r.proto, .str (sanitize r.proto), 1⟩,
     ⟨k "host", quoteStd r.host, .str (sanitize r.host), 1⟩, ⟨k "info", renderVal r.info, meaning r.info, cost (norm r.info)⟩,
     ⟨k "version", renderVal r.version, meaning r.version, cost (norm r.version)⟩] (by simp)
  · intro p hp
    simp only [List.mem_cons, List.not_mem_nil, or_false] at hp
    rcases hp with rfl | rfl | rfl | rfl | rfl
    · exact good_strStd _ _
    · exact good_strStd _ _
    · exact good_strStd _ _
    · exact good_val _ _ hw.1
    · exact good_val _ _ hw.2
  · simp [render, renderDocker, objText, partsText, key_scan, key_proto, key_host, key_info, key_version, lit]
  · simp [fieldsOf, partsFields]

/-- **every result**: its line reads back as its fields and contains no newline -/
theorem result_ok (r : Result) (hw : resultWf r = true) :
    readObject (render r) = some (fieldsOf r) ∧ Clean (render r) := by
  cases r with
  | arp r => exact arp_ok r
  | tcp r => exact tcp_ok r
  | icmp r => exact icmp_ok r
  | socks r => exact socks_ok r
  | elastic r => exact elastic_ok r (by simpa [resultWf] using hw)
  | docker r => exact docker_ok r (by simpa [resultWf] using hw)

end SxVerif.Proofs.Json
