/-
Lemmas for C09 (time part): at most two reads, the time bound, promptness of cancellation and
transparency of a late cancellation.  Core Lean only.
-/
import SxVerif.Model.Socks
import SxVerif.Spec.Socks

namespace SxVerif.Proofs.Socks
open SxVerif.Socks SxVerif.Spec.Socks

theorem interrupted_some_bounds {cancel : Option Dur} {t e t' : Dur} (h : interrupted cancel t e = some t') :
    t ≤ t' ∧ t' ≤ t + e := by
  cases cancel with
  | none => simp [interrupted] at h
  | some c =>
    simp only [interrupted] at h
    split at h
    · simp at h; omega
    · simp at h

theorem readOp_elapsed_le (T : Dur) (cap : Nat) (ev : ReadEv) : (readOp T cap ev).2 ≤ T := by
  cases ev <;> simp only [readOp] <;> (try split) <;> simp <;> omega

theorem noEmptyChunk_cons {ev : ReadEv} {rest : List ReadEv} (h : noEmptyChunk (ev :: rest) = true) :
    noEmptyChunk rest = true ∧ ∀ d, ev ≠ .data [] d := by
  cases ev with
  | data bs d =>
    cases bs with
    | nil => simp [noEmptyChunk] at h
    | cons b tl => simp [noEmptyChunk] at h; simp [h]
  | eof d => simp [noEmptyChunk] at h; simp [h]
  | reset d => simp [noEmptyChunk] at h; simp [h]
  | stall => simp [noEmptyChunk] at h; simp [h]

/-- two bytes need at most two reads, each at most one data timeout long -/
theorem readLoop_bound (T : Dur) (cancel : Option Dur) (evs : List ReadEv) :
    ∀ (t : Dur) (got : List UInt8) (calls : Nat) (caps : List Nat),
      got.length ≤ 2 → noEmptyChunk evs = true →
      (readLoop T cancel 2 evs t got calls caps).t ≤ t + (2 - got.length) * T ∧
      (readLoop T cancel 2 evs t got calls caps).calls ≤ calls + (2 - got.length) := by
  induction evs with
  | nil =>
    intro t got calls caps hg _
    match got, hg with
    | [g1, g2], _ => simp [readLoop]
    | _ :: _ :: _ :: _, h => simp at h
    | [], _ =>
      simp only [readLoop, readStep, readOp, List.length_nil]
      cases hi : interrupted cancel t T with
      | none => simp; omega
      | some t' => have := interrupted_some_bounds hi; simp; omega
    | [g], _ =>
      simp only [readLoop, readStep, readOp, List.length_singleton]
      cases hi : interrupted cancel t T with
      | none => simp
      | some t' => have := interrupted_some_bounds hi; simp; omega
  | cons ev rest ih =>
    intro t got calls caps hg hne
    obtain ⟨hrest, hev⟩ := noEmptyChunk_cons hne
    match got, hg with
    | [g1, g2], _ => simp [readLoop]
    | _ :: _ :: _ :: _, h => simp at h
    | [], _ =>
      have he := readOp_elapsed_le T 2 ev
      simp only [readLoop, readStep, List.length_nil, Nat.sub_zero, Nat.le_zero_eq, Nat.succ_ne_zero,
        if_false, List.nil_append] 
      cases hro : readOp T 2 ev with
      | mk r e =>
        rw [hro] at he
        simp only at he ⊢
        cases hi : interrupted cancel t e with
        | some t' => have := interrupted_some_bounds hi; simp; omega
        | none =>
          cases r with
          | eof => simp; omega
          | err x => simp; omega
          | bytes bs' =>
            simp only
            -- bs' is a non-empty prefix of the chunk
            have hlen : 1 ≤ bs'.length ∧ bs'.length ≤ 2 := by
              cases ev with
              | data bs d =>
                simp only [readOp] at hro
                split at hro
                · simp at hro
                  obtain ⟨rfl, _⟩ := hro
                  cases bs with
                  | nil => exact absurd rfl (hev d)
                  | cons b tl => cases tl <;> simp
                · simp at hro
              | eof d => simp only [readOp] at hro; split at hro <;> simp at hro
              | reset d => simp only [readOp] at hro; split at hro <;> simp at hro
              | stall => simp [readOp] at hro
            have := ih (t + e) bs' (calls + 1) (caps ++ [2]) hlen.2 hrest
            have h2 : (2 - bs'.length) * T ≤ T := by
              have : 2 - bs'.length ≤ 1 := by omega
              calc (2 - bs'.length) * T ≤ 1 * T := Nat.mul_le_mul_right T this
                _ = T := by simp
            constructor
            · omega
            · omega
    | [g], _ =>
      have he := readOp_elapsed_le T 1 ev
      simp only [readLoop, readStep, List.length_singleton, show ¬ (2 ≤ 1) by omega, if_false,
        show 2 - 1 = 1 by rfl]
      cases hro : readOp T 1 ev with
      | mk r e =>
        rw [hro] at he
        simp only at he ⊢
        cases hi : interrupted cancel t e with
        | some t' => have := interrupted_some_bounds hi; simp; omega
        | none =>
          cases r with
          | eof => simp; omega
          | err x => simp; omega
          | bytes bs' =>
            simp only
            have hlen : bs'.length = 1 := by
              cases ev with
              | data bs d =>
                simp only [readOp] at hro
                split at hro
                · simp at hro
                  obtain ⟨rfl, _⟩ := hro
                  cases bs with
                  | nil => exact absurd rfl (hev d)
                  | cons b tl => simp
                · simp at hro
              | eof d => simp only [readOp] at hro; split at hro <;> simp at hro
              | reset d => simp only [readOp] at hro; split at hro <;> simp at hro
              | stall => simp [readOp] at hro
            have := ih (t + e) (g :: bs') (calls + 1) (caps ++ [1]) (by simp; omega) hrest
            simp only [List.length_cons, hlen, show 2 - (1 + 1) = 0 by rfl,
              Nat.zero_mul, Nat.add_zero] at this
            simp only [List.singleton_append, Nat.one_mul]
            constructor
            · omega
            · omega

/-- a cancelled read phase is over no later than the cancellation -/
theorem readLoop_cancel (T : Dur) (c : Dur) (evs : List ReadEv) :
    ∀ (t : Dur) (got : List UInt8) (calls : Nat) (caps : List Nat), t ≤ c →
      (readLoop T (some c) 2 evs t got calls caps).t ≤ c := by
  have hint : ∀ t e, t ≤ c → (∀ t', interrupted (some c) t e = some t' → t' ≤ c) ∧
      (interrupted (some c) t e = none → t + e ≤ c) := by
    intro t e htc
    simp only [interrupted]
    split
    · simp; omega
    · simp; omega
  induction evs with
  | nil =>
    intro t got calls caps htc
    simp only [readLoop]
    split
    · exact htc
    · simp only [readStep, readOp]
      have := hint t T htc
      cases hi : interrupted (some c) t T with
      | none => simp; exact this.2 hi
      | some t' => simp; exact this.1 t' hi
  | cons ev rest ih =>
    intro t got calls caps htc
    simp only [readLoop]
    split
    · exact htc
    · simp only [readStep]
      cases hro : readOp T (2 - got.length) ev with
      | mk r e =>
        simp only
        have := hint t e htc
        cases hi : interrupted (some c) t e with
        | some t' => simp; exact this.1 t' hi
        | none =>
          have hte := this.2 hi
          cases r with
          | eof => simpa using hte
          | err x => simpa using hte
          | bytes bs' => simp only; exact ih _ _ _ _ hte


theorem dialOp_le (timeout : Dur) (h : 0 < timeout) (ev : DialEv) : (dialOp timeout ev).2 ≤ timeout := by
  cases ev <;> simp only [dialOp] <;> split <;> simp <;> omega

theorem writeOp_le (T : Dur) (ev : WriteEv) : (writeOp T ev).2 ≤ T := by
  cases ev <;> simp only [writeOp] <;> (try split) <;> simp <;> omega

theorem closeCost_zero (cfg : Cfg) (s : Script) (hl : cfg.lingerSec ≤ 0) : closeCost cfg s = 0 := by
  have : ¬ (0 < cfg.lingerSec) := by omega
  simp [closeCost, this]

/-- every path through `Scan`: at most two reads; with a connect timeout and a non-blocking close,
    at most connect timeout + 3 data timeouts -/
theorem scan_bounds (cfg : Cfg) (tgt : Target) (s : Script) (hne : noEmptyChunk s.reads = true) :
    (scan cfg tgt s).reads ≤ 2 ∧
    (0 < cfg.dialTimeout → cfg.lingerSec ≤ 0 →
      (scan cfg tgt s).elapsed ≤ cfg.dialTimeout + 3 * cfg.dataTimeout) := by
  unfold scan
  cases hdo : dialOp cfg.dialTimeout s.dial with
  | mk dres de =>
    have hde : 0 < cfg.dialTimeout → de ≤ cfg.dialTimeout := by
      intro h; have := dialOp_le cfg.dialTimeout h s.dial; rw [hdo] at this; exact this
    simp only
    cases hi1 : interrupted s.cancel 0 de with
    | some t =>
      have := interrupted_some_bounds hi1
      refine ⟨by simp, fun h _ => ?_⟩
      have := hde h
      simp; omega
    | none =>
      simp only
      cases dres with
      | some e =>
        refine ⟨by simp, fun h _ => ?_⟩
        have := hde h
        simp; omega
      | none =>
        simp only
        by_cases hlo : s.lingerOk = true
        · simp only [hlo, Bool.not_true, Bool.false_eq_true, if_false]
          cases hwo : writeOp cfg.dataTimeout s.write with
          | mk wres we =>
            have hwe : we ≤ cfg.dataTimeout := by
              have := writeOp_le cfg.dataTimeout s.write; rw [hwo] at this; exact this
            simp only
            cases hi2 : interrupted s.cancel de we with
            | some t =>
              have := interrupted_some_bounds hi2
              refine ⟨by simp, fun h hl => ?_⟩
              have := hde h
              simp [closeCost_zero cfg s hl]; omega
            | none =>
              simp only
              cases wres with
              | some x =>
                refine ⟨by simp, fun h hl => ?_⟩
                have := hde h
                simp [closeCost_zero cfg s hl]; omega
              | none =>
                simp only
                have hb := readLoop_bound cfg.dataTimeout s.cancel s.reads (de + we) [] 0 [] (by simp) hne
                simp only [List.length_nil, Nat.sub_zero, Nat.zero_add] at hb
                cases hr : (readLoop cfg.dataTimeout s.cancel 2 s.reads (de + we) [] 0 []).res with
                | error x =>
                  refine ⟨by simpa using hb.2, fun h hl => ?_⟩
                  have := hde h
                  simp [closeCost_zero cfg s hl]; omega
                | ok buf =>
                  refine ⟨by simpa using hb.2, fun h hl => ?_⟩
                  have := hde h
                  simp [closeCost_zero cfg s hl]; omega
        · simp only [hlo, Bool.not_false, if_true]
          refine ⟨by simp, fun h hl => ?_⟩
          have := hde h
          simp [closeCost_zero cfg s hl]; omega

/-- a cancelled probe is over no later than the cancellation (given a non-blocking close) -/
theorem scan_cancel (cfg : Cfg) (tgt : Target) (s : Script) (c : Dur) (hc : s.cancel = some c)
    (hl : cfg.lingerSec ≤ 0) : (scan cfg tgt s).elapsed ≤ c := by
  have hint : ∀ t e, t ≤ c → (∀ t', interrupted (some c) t e = some t' → t' ≤ c) ∧
      (interrupted (some c) t e = none → t + e ≤ c) := by
    intro t e htc
    simp only [interrupted]
    split
    · simp; omega
    · simp; omega
  unfold scan
  rw [hc]
  cases hdo : dialOp cfg.dialTimeout s.dial with
  | mk dres de =>
    simp only
    have h1 := hint 0 de (by omega)
    cases hi1 : interrupted (some c) 0 de with
    | some t => simp; exact h1.1 t hi1
    | none =>
      have hde : de ≤ c := by have := h1.2 hi1; omega
      simp only
      cases dres with
      | some e => simpa using hde
      | none =>
        simp only
        by_cases hlo : s.lingerOk = true
        · simp only [hlo, Bool.not_true, Bool.false_eq_true, if_false]
          cases hwo : writeOp cfg.dataTimeout s.write with
          | mk wres we =>
            simp only
            have h2 := hint de we hde
            cases hi2 : interrupted (some c) de we with
            | some t => simp [closeCost_zero cfg s hl]; exact h2.1 t hi2
            | none =>
              have hwe := h2.2 hi2
              simp only
              cases wres with
              | some x => simpa [closeCost_zero cfg s hl] using hwe
              | none =>
                simp only
                have hr := readLoop_cancel cfg.dataTimeout c s.reads (de + we) [] 0 [] hwe
                cases hres : (readLoop cfg.dataTimeout (some c) 2 s.reads (de + we) [] 0 []).res <;>
                  simpa [closeCost_zero cfg s hl] using hr
        · simp only [hlo, Bool.not_false, if_true]
          simpa [closeCost_zero cfg s hl] using hde


theorem readLoop_t_ge (T : Dur) (cancel : Option Dur) (evs : List ReadEv) :
    ∀ (t : Dur) (got : List UInt8) (calls : Nat) (caps : List Nat),
      t ≤ (readLoop T cancel 2 evs t got calls caps).t := by
  induction evs with
  | nil =>
    intro t got calls caps
    simp only [readLoop]
    split
    · simp
    · simp only [readStep, readOp]
      cases hi : interrupted cancel t T with
      | none => simp
      | some t' => have := interrupted_some_bounds hi; simp; omega
  | cons ev rest ih =>
    intro t got calls caps
    simp only [readLoop]
    split
    · simp
    · simp only [readStep]
      cases hro : readOp T (2 - got.length) ev with
      | mk r e =>
        simp only
        cases hi : interrupted cancel t e with
        | some t' => have := interrupted_some_bounds hi; simp; omega
        | none =>
          cases r with
          | eof => simp
          | err x => simp
          | bytes bs' => simp only; have := ih (t + e) (got ++ bs') (calls + 1) (caps ++ [2 - got.length]); omega

theorem interrupted_late (c t e : Dur) (h : t + e ≤ c) : interrupted (some c) t e = none := by
  have : ¬ (c < t + e) := by omega
  simp [interrupted, this]

/-- a cancellation that comes after the read phase is over does not change it -/
theorem readLoop_late_cancel (T : Dur) (c : Dur) (evs : List ReadEv) :
    ∀ (t : Dur) (got : List UInt8) (calls : Nat) (caps : List Nat),
      (readLoop T none 2 evs t got calls caps).t ≤ c →
      readLoop T (some c) 2 evs t got calls caps = readLoop T none 2 evs t got calls caps := by
  induction evs with
  | nil =>
    intro t got calls caps h
    simp only [readLoop] at h ⊢
    split
    · rfl
    · next hlt =>
      simp only [hlt, if_false, readStep, readOp, interrupted] at h
      simp only [readStep, readOp, interrupted_late c t T (by simpa using h)]
      simp [interrupted]
  | cons ev rest ih =>
    intro t got calls caps h
    simp only [readLoop] at h ⊢
    split
    · rfl
    · next hlt =>
      simp only [hlt, if_false, readStep] at h
      simp only [readStep]
      cases hro : readOp T (2 - got.length) ev with
      | mk r e =>
        simp only [hro, interrupted] at h
        have hte : t + e ≤ c := by
          cases r with
          | eof => simpa using h
          | err x => simpa using h
          | bytes bs' =>
            simp only at h
            have := readLoop_t_ge T none rest (t + e) (got ++ bs') (calls + 1) (caps ++ [2 - got.length])
            omega
        simp only [interrupted_late c t e hte]
        cases r with
        | eof => simp [interrupted]
        | err x => simp [interrupted]
        | bytes bs' =>
          simp only [interrupted]
          exact ih _ _ _ _ (by simpa using h)

/-- a cancellation that comes after the probe is over does not change anything -/
theorem scan_late_cancel (cfg : Cfg) (tgt : Target) (s : Script) (c : Dur)
    (h : (scan cfg tgt { s with cancel := none }).elapsed ≤ c) :
    scan cfg tgt { s with cancel := some c } = scan cfg tgt { s with cancel := none } := by
  unfold scan at h ⊢
  simp only [closeCost] at h ⊢
  cases hdo : dialOp cfg.dialTimeout s.dial with
  | mk dres de =>
    simp only [hdo, interrupted] at h
    simp only [interrupted]
    cases dres with
    | some e =>
      simp only at h
      have : ¬ (c < de) := by omega
      simp [this]
    | none =>
      simp only at h
      by_cases hlo : s.lingerOk = true
      · simp only [hlo, Bool.not_true, Bool.false_eq_true, if_false] at h ⊢
        cases hwo : writeOp cfg.dataTimeout s.write with
        | mk wres we =>
          simp only [hwo] at h
          cases wres with
          | some x =>
            simp only at h
            have h1 : ¬ (c < de) := by omega
            have h2 : ¬ (c < de + we) := by omega
            simp [h1, h2]
          | none =>
            simp only at h
            have hge := readLoop_t_ge cfg.dataTimeout none s.reads (de + we) [] 0 []
            have hrt : (readLoop cfg.dataTimeout none 2 s.reads (de + we) [] 0 []).t ≤ c := by
              cases hres : (readLoop cfg.dataTimeout none 2 s.reads (de + we) [] 0 []).res <;>
                simp only [hres] at h <;> omega
            have h1 : ¬ (c < de) := by omega
            have h2 : ¬ (c < de + we) := by omega
            simp only [Nat.zero_add, h1, h2, if_false]
            rw [readLoop_late_cancel cfg.dataTimeout c s.reads (de + we) [] 0 [] hrt]
      · simp only [hlo, Bool.not_false, if_true] at h ⊢
        have h1 : ¬ (c < de) := by omega
        simp [h1]

end SxVerif.Proofs.Socks
