/-
Lemmas for C03, part 5 — the composition: for a command wired compatibly with what it listens for, the
installed filter followed by the processor reports exactly `Spec.Reply.replyRecord` of the frame.
-/
import SxVerif.Proofs.Bpf
import SxVerif.Proofs.Reply3

namespace SxVerif.Proofs.Reply
open SxVerif.Frame SxVerif.Proc SxVerif.Spec.Frame SxVerif.Spec.Reply SxVerif.Proofs.Frame
open SxVerif.Bpf SxVerif.Wiring SxVerif.Proofs.Bpf

/-- link type of the capture socket -/
def modeOf (vpn : Bool) : LinkMode := if vpn then .rawIPv4 else .ethernet

theorem reported_eq (e : Expr) (m : LinkMode) (scan : Scan) (st : State) (f : Bytes) :
    reported e m scan st f = if accepts e m f then emitted scan st f else none := rfl

/-! ### bytes and numbers -/

theorem u32_drop (f : Bytes) (o i : Nat) : u32 (f.drop o) i = u32 f (o + i) := by
  simp [u32, u16_drop, Nat.add_assoc]

theorem u32_be {f : Bytes} {o : Nat} (h : o + 4 ≤ f.length) :
    ∃ a, u32 f o = some a ∧ be ((f.drop o).take 4) = a ∧ a < 4294967296 := by
  have hl : 4 ≤ (f.drop o).length := by simp only [List.length_drop]; omega
  rw [← Nat.add_zero o, ← u32_drop]
  simp only [Nat.add_zero]
  generalize f.drop o = l at hl
  match l, hl with
  | a :: b :: c :: d :: t, _ =>
    refine ⟨a.toNat * 16777216 + b.toNat * 65536 + c.toNat * 256 + d.toNat, ?_, ?_, ?_⟩
    · simp [u32, u16, u8]; omega
    · simp [be]; omega
    · have := a.toNat_lt; have := b.toNat_lt; have := c.toNat_lt; have := d.toNat_lt; omega

theorem u8_lt {f : Bytes} {i x : Nat} (h : u8 f i = some x) : x < 256 := by
  unfold u8 at h
  cases hg : f[i]? with
  | none => simp [hg] at h
  | some b => simp [hg] at h; subst h; exact b.toNat_lt

/-! ### model clauses = spec clauses -/

theorem netVal_eq_inSubnet {n : Net} {a : Nat} (hb : n.bits ≤ 32) (haddr : n.addr < 4294967296)
    (hal : n.addr % 2 ^ (32 - n.bits) = 0) (ha : a < 4294967296) :
    netVal n a = (a / 2 ^ (32 - n.bits) == n.addr / 2 ^ (32 - n.bits)) := by
  unfold netVal
  by_cases h0 : n.bits = 0
  · simp only [h0, if_true, Nat.sub_zero] at hal ⊢
    have : n.addr = 0 := by omega
    have h1 : a / 2 ^ 32 = 0 := Nat.div_eq_of_lt ha
    simp [this, h1]
  · simp only [h0, if_false]
    have hk : 32 - n.bits ≤ 32 := by omega
    unfold maskOf
    rw [land_mask a (32 - n.bits) hk ha]
    have hd : n.addr = n.addr / 2 ^ (32 - n.bits) * 2 ^ (32 - n.bits) := by
      have := Nat.div_add_mod n.addr (2 ^ (32 - n.bits))
      rw [hal, Nat.add_zero, Nat.mul_comm] at this
      exact this.symm
    have hpos : 0 < 2 ^ (32 - n.bits) := Nat.pos_of_ne_zero (by simp)
    apply Bool.eq_iff_iff.mpr
    simp only [beq_iff_eq]
    constructor
    · intro h
      rw [hd] at h
      exact Nat.eq_of_mul_eq_mul_right hpos h
    · intro h
      rw [h]
      exact hd.symm

theorem subnetVal_eq {r : Range} (hr : RangeOK r = true) {src : Bytes} {a : Nat} (hbe : be src = a)
    (ha : a < 4294967296) : subnetVal r a = subnetOK r src := by
  unfold subnetVal subnetOK
  unfold RangeOK at hr
  cases hs : r.subnet with
  | none => rfl
  | some n =>
    simp only [hs, Bool.and_eq_true, decide_eq_true_eq, beq_iff_eq] at hr
    simp only [inSubnet, hbe]
    exact netVal_eq_inSubnet hr.1.1.1 hr.1.1.2 hr.1.2 ha

theorem portsVal_eq {r : Range} (hr : RangeOK r = true) (p : Nat) : portsVal r p = portOK r p := by
  unfold portsVal portOK
  unfold RangeOK at hr
  simp only [Bool.and_eq_true, List.all_eq_true, decide_eq_true_eq] at hr
  congr 1
  have hpi : ∀ pr ∈ r.ports, portIn pr.1 pr.2 p = (decide (pr.1 ≤ p) && decide (p ≤ pr.2)) := by
    intro pr hpr
    have := hr.2 pr hpr
    unfold portIn
    rw [Nat.min_eq_left this.1, Nat.max_eq_right this.1]
  apply Bool.eq_iff_iff.mpr
  simp only [List.any_eq_true]
  constructor
  · rintro ⟨pr, hpr, h⟩
    exact ⟨pr, hpr, by rw [← hpi pr hpr]; exact h⟩
  · rintro ⟨pr, hpr, h⟩
    exact ⟨pr, hpr, by rw [hpi pr hpr]; exact h⟩

/-! ### the IPv4 context of a frame with a spec chain -/

theorem linkLen_modeOf {vpn : Bool} {f : Bytes} {o : Nat} (ho : ipOffset vpn f = some o) :
    linkLen (modeOf vpn) = o ∧ isIP (modeOf vpn) f = some true := by
  rcases ipOffset_some ho with ⟨rfl, rfl⟩ | ⟨rfl, rfl, -, het⟩
  · exact ⟨rfl, rfl⟩
  · refine ⟨rfl, ?_⟩
    simp [modeOf, isIP, linkIs, het]

theorem some_beq_true (x : Bool) : (some x == some true) = x := by cases x <;> rfl

/-- the loads of the IPv4 primitives on a frame with the spec's IPv4 header at the link payload offset -/
theorem v4_of_ipv4At {vpn : Bool} {f : Bytes} {o : Nat} {ip : IPv4View} (ho : ipOffset vpn f = some o)
    (hip : ipv4At f o = some ip) :
    ∃ b0 ff a, V4 (modeOf vpn) f b0 ip.proto ff ∧ linkLen (modeOf vpn) = o ∧ ff % 8192 = 0 ∧
      ip.hlen = 4 * (b0 % 16) ∧ u32 f (o + 12) = some a ∧ be ((f.drop (o + 12)).take 4) = a ∧ a < 4294967296 := by
  obtain ⟨h20, b0, tl0, ff, proto, tl, hb0, -, hff, hproto, -, -, -, -, -, -, hfrag, -, rfl⟩ := ipv4At_some hip
  obtain ⟨hL, hIP⟩ := linkLen_modeOf ho
  obtain ⟨a, ha, hbe, hlt⟩ := u32_be (f := f) (o := o + 12) (by omega)
  refine ⟨b0, ff, a, ⟨hIP, by rw [hL]; exact hb0, by rw [hL]; exact hproto, by rw [hL]; exact hff⟩, hL, by omega,
    by simp only; omega, ha, hbe, hlt⟩

/-! ### what the filters accept on a frame with a chain -/

theorem accepts_tcp {vpn : Bool} {f : Bytes} {v : TcpView} (hc : tcpChain vpn f = some v) {r : Range}
    (hr : RangeOK r = true) (syn : Bool) :
    accepts (filterOf (if syn then .synack else .tcp) r) (modeOf vpn) f =
      (subnetOK r v.src && portOK r v.sport && (!syn || v.flags % 256 == 0x12)) := by
  obtain ⟨o, ip, b12, b13, sport, ho, hip, hproto, hseg, hb12, hb13, hsp, -, -, -, rfl⟩ := tcpChain_some hc
  obtain ⟨b0, ff, a, c, hL, hfr, hhl, ha, hbe, hlt⟩ := v4_of_ipv4At ho hip
  rw [hhl] at hsp hb13
  rw [← hL] at hsp hb13 ha
  have hsub := subnetVal_eq hr hbe hlt
  have hports := portsVal_eq hr sport
  unfold accepts
  cases syn with
  | false =>
    simp only [Bool.false_eq_true, if_false, filterOf, eval_tcpBPFFilter c hproto hfr ha hsp r, some_beq_true, hsub,
      hports, Bool.not_false, Bool.true_or, Bool.and_true]
  | true =>
    have h13 := u8_lt hb13
    have hfl : (b12 % 2 * 256 + b13) % 256 = b13 := by omega
    simp only [if_true, filterOf, eval_synackBPFFilter c hproto hfr ha hsp hb13 r, some_beq_true, hsub, hports,
      Bool.not_true, Bool.false_or, hfl]

theorem accepts_icmp {vpn : Bool} {f : Bytes} {v : IcmpView} (hc : icmpChain vpn f = some v) {r : Range}
    (hr : RangeOK r = true) :
    accepts (filterOf .icmp r) (modeOf vpn) f = (subnetOK r v.src && v.typ != 8) := by
  obtain ⟨o, ip, ttl, typ, code, ho, hip, hproto, hseg, httl, htyp, hcode, rfl⟩ := icmpChain_some hc
  obtain ⟨b0, ff, a, c, hL, hfr, hhl, ha, hbe, hlt⟩ := v4_of_ipv4At ho hip
  rw [hhl] at htyp
  rw [← hL] at htyp ha
  have hsub := subnetVal_eq hr hbe hlt
  unfold accepts
  simp only [filterOf, eval_icmpBPFFilter c hproto hfr ha htyp r, some_beq_true, hsub, Bool.and_comm]

theorem accepts_arp {f : Bytes} {v : ArpView} (hc : arpChain f = some v) {r : Range} (hr : RangeOK r = true) :
    accepts (filterOf .arp r) .ethernet f = subnetOK r v.ip := by
  obtain ⟨h42, het, -, -, -, -, rfl⟩ := arpChain_some hc
  obtain ⟨a, ha, hbe, hlt⟩ := u32_be (f := f) (o := 28) (by omega)
  have hsub := subnetVal_eq hr hbe hlt
  unfold accepts
  simp only [filterOf, eval_arpBPFFilter het ha r, some_beq_true, hsub]

/-! ### filter ∘ processor = reply shape -/

theorem synack_of_byte13 {fl : Nat} (h : fl % 256 = 0x12) : bit fl 0x02 = true ∧ bit fl 0x10 = true := by
  unfold bit
  simp only [decide_eq_true_eq]
  omega

theorem reported_tcp (cfg : TcpCfg) (syn : Bool) {r : Range} (hr : RangeOK r = true) (st : State) (f : Bytes)
    (hflt : cfg.filter = .all ∨ (syn = true ∧ cfg.filter = .synack))
    (hflags : cfg.flagsFn = if syn then .empty else .allFlags) :
    reported (filterOf (if syn then .synack else .tcp) r) (modeOf cfg.vpn) (.tcp cfg) st f =
      replyRecord cfg.scanType (.tcp syn) r cfg.vpn f := by
  rw [reported_eq, emitted_tcp]
  unfold replyRecord ReplyShape WellFormedUnfragmented Shape fieldsOf
  cases hc : tcpChain cfg.vpn f with
  | none => simp
  | some v =>
    rw [accepts_tcp hc hr syn]
    simp only [Option.isSome_some, Bool.true_and, Option.map_some]
    have hrec : tcpRecord cfg v = .tcp cfg.scanType v.src v.sport (if syn then "" else allFlags v.flags) := by
      unfold tcpRecord
      rw [hflags]
      cases syn <;> rfl
    rw [hrec]
    have hpass : (subnetOK r v.src && portOK r v.sport && (!syn || v.flags % 256 == 0x12)) = true →
        tcpPass cfg.filter v.flags = true := by
      intro h
      rcases hflt with h1 | ⟨rfl, h2⟩
      · rw [h1]; rfl
      · rw [h2]
        simp only [Bool.not_true, Bool.false_or, Bool.and_eq_true, beq_iff_eq] at h
        obtain ⟨a, b⟩ := synack_of_byte13 h.2
        simp [tcpPass, a, b]
    cases hA : (subnetOK r v.src && portOK r v.sport && (!syn || v.flags % 256 == 0x12))
    · simp
    · simp [hpass hA]

theorem reported_icmp (name : String) (vpn : Bool) {r : Range} (hr : RangeOK r = true) (st : State) (f : Bytes) :
    reported (filterOf .icmp r) (modeOf vpn) (.icmp name vpn) st f = replyRecord name .icmp r vpn f := by
  rw [reported_eq, emitted_icmp]
  unfold replyRecord ReplyShape WellFormedUnfragmented Shape fieldsOf
  cases hc : icmpChain vpn f with
  | none => simp
  | some v =>
    rw [accepts_icmp hc hr]
    simp only [Option.isSome_some, Bool.true_and, Option.map_some, icmpRecord]
    cases (subnetOK r v.src && v.typ != 8) <;> cases ipOptsWF vpn f <;> simp

theorem reported_arp (name : String) (vpn : Bool) {r : Range} (hr : RangeOK r = true) (st : State) (f : Bytes) :
    reported (filterOf .arp r) .ethernet .arp st f = replyRecord name .arp r vpn f := by
  rw [reported_eq, emitted_arp]
  unfold replyRecord ReplyShape WellFormedUnfragmented Shape fieldsOf
  cases hc : arpChain f with
  | none => simp
  | some v =>
    rw [accepts_arp hc hr]
    simp only [Option.isSome_some, Bool.true_and, Option.map_some]

/-! ### rows -/

/-- a row is wired as its command's reply kind demands: the filter function and processor of that kind, the
    flag printer the kind prescribes, a packet filter the BPF clause already implies, and `--vpn` reaching
    both the socket and the processor -/
def Compatible (row : Row) : Bool :=
  match kindOf row.cmd with
  | .tcp syn =>
    row.proc == .tcp && row.bpf == (if syn then .synack else .tcp) &&
      (row.pktFilter == some .all || (syn && row.pktFilter == some .synack)) &&
      row.pktFlags == some (if syn then .empty else .allFlags) && row.bpfVpn && row.procVpn
  | .icmp => (row.proc == .icmp || row.proc == .udp) && row.bpf == .icmp && row.bpfVpn && row.procVpn
  | .arp => row.proc == .arp && row.bpf == .arp && !row.bpfVpn

theorem linkOf_eq (row : Row) (vpn : Bool) : linkOf row vpn = modeOf (row.bpfVpn && vpn) := by
  unfold linkOf modeOf
  rfl

theorem compatible_exact (row : Row) (hcompat : Compatible row = true) (vpn : Bool) {r : Range}
    (hr : RangeOK r = true) (st : State) (f : Bytes) :
    ∃ scan, scanOf row vpn = some scan ∧
      reported (filterOf row.bpf r) (linkOf row vpn) scan st f = replyRecord row.scanName (kindOf row.cmd) r vpn f := by
  obtain ⟨cmd, scanName, proc, bpf, pktFilter, pktFlags, engine, bpfVpn, procVpn⟩ := row
  unfold Compatible at hcompat
  rw [linkOf_eq]
  simp only at hcompat ⊢
  cases hk : kindOf cmd with
  | tcp syn =>
    simp only [hk, Bool.and_eq_true, beq_iff_eq, Bool.or_eq_true] at hcompat
    obtain ⟨⟨⟨⟨⟨rfl, rfl⟩, hflt⟩, rfl⟩, rfl⟩, rfl⟩ := hcompat
    simp only [Bool.true_and]
    have hflt' : ∃ flt, pktFilter = some flt ∧ (flt = .all ∨ (syn = true ∧ flt = .synack)) := by
      rcases hflt with h | ⟨h1, h2⟩
      · exact ⟨.all, h, .inl rfl⟩
      · exact ⟨.synack, h2, .inr ⟨h1, rfl⟩⟩
    obtain ⟨flt, rfl, hflt''⟩ := hflt'
    refine ⟨.tcp { scanType := scanName, filter := flt, flagsFn := if syn then .empty else .allFlags, vpn := vpn },
      by simp [scanOf], ?_⟩
    exact reported_tcp { scanType := scanName, filter := flt, flagsFn := if syn then .empty else .allFlags, vpn := vpn }
      syn hr st f hflt'' rfl
  | icmp =>
    simp only [hk, Bool.and_eq_true, beq_iff_eq, Bool.or_eq_true] at hcompat
    obtain ⟨⟨⟨hproc, rfl⟩, rfl⟩, rfl⟩ := hcompat
    simp only [Bool.true_and]
    refine ⟨.icmp scanName vpn, by rcases hproc with rfl | rfl <;> simp [scanOf], ?_⟩
    exact reported_icmp scanName vpn hr st f
  | arp =>
    simp only [hk, Bool.and_eq_true, beq_iff_eq, Bool.not_eq_true'] at hcompat
    obtain ⟨⟨rfl, rfl⟩, rfl⟩ := hcompat
    refine ⟨.arp, by simp [scanOf], ?_⟩
    have := reported_arp scanName vpn hr st f
    simpa [modeOf] using this

theorem compatible_iff (row : Row) (hcompat : Compatible row = true) (vpn : Bool) {r : Range}
    (hr : RangeOK r = true) (st : State) (f : Bytes) :
    ∃ scan, scanOf row vpn = some scan ∧
      ((∃ rec, reported (filterOf row.bpf r) (linkOf row vpn) scan st f = some rec) ↔
        ReplyShape (kindOf row.cmd) r vpn f = true) ∧
      (∀ rec, reported (filterOf row.bpf r) (linkOf row vpn) scan st f = some rec →
        fieldsOf row.scanName (kindOf row.cmd) vpn f = some rec) := by
  obtain ⟨scan, hs, he⟩ := compatible_exact row hcompat vpn hr st f
  refine ⟨scan, hs, ?_, ?_⟩
  · rw [he]
    unfold replyRecord
    cases hsh : ReplyShape (kindOf row.cmd) r vpn f
    · simp
    · simp only [if_true, iff_true]
      -- a reply-shaped frame has fields: the chain is present
      unfold ReplyShape WellFormedUnfragmented at hsh
      unfold fieldsOf
      cases hk : kindOf row.cmd with
      | tcp syn =>
        simp only [hk, Bool.and_eq_true] at hsh
        obtain ⟨v, hv⟩ := Option.isSome_iff_exists.mp hsh.1.1
        exact ⟨_, by simp only [hv, Option.map_some]; rfl⟩
      | icmp =>
        simp only [hk, Bool.and_eq_true] at hsh
        obtain ⟨v, hv⟩ := Option.isSome_iff_exists.mp hsh.1.1
        exact ⟨_, by simp only [hv, Option.map_some]; rfl⟩
      | arp =>
        simp only [hk, Bool.and_eq_true] at hsh
        obtain ⟨v, hv⟩ := Option.isSome_iff_exists.mp hsh.1
        exact ⟨_, by simp only [hv, Option.map_some]; rfl⟩
  · intro rec hrec
    rw [he] at hrec
    unfold replyRecord at hrec
    split at hrec
    · exact hrec
    · cases hrec

theorem compatible_property_form (row : Row) (hcompat : Compatible row = true) (vpn : Bool) {r : Range}
    (hr : RangeOK r = true) (st : State) (f : Bytes) (hwf : WellFormedUnfragmented (kindOf row.cmd) vpn f = true) :
    ∃ scan, scanOf row vpn = some scan ∧
      ((reported (filterOf row.bpf r) (linkOf row vpn) scan st f).isSome = true ↔
        Shape (kindOf row.cmd) r vpn f = true) := by
  obtain ⟨scan, hs, hiff, -⟩ := compatible_iff row hcompat vpn hr st f
  refine ⟨scan, hs, ?_⟩
  rw [Option.isSome_iff_exists, hiff]
  unfold ReplyShape
  rw [hwf, Bool.true_and]

theorem compatible_history (row : Row) (hcompat : Compatible row = true) (vpn : Bool) {r : Range}
    (hr : RangeOK r = true) (st : State) (fs : List Bytes) :
    ∃ scan, scanOf row vpn = some scan ∧
      reportedAll (filterOf row.bpf r) (linkOf row vpn) scan st fs =
        fs.map (replyRecord row.scanName (kindOf row.cmd) r vpn) := by
  obtain ⟨scan, hs, -⟩ := compatible_exact row hcompat vpn hr st []
  refine ⟨scan, hs, ?_⟩
  induction fs generalizing st with
  | nil => rfl
  | cons f fs ih =>
    obtain ⟨scan', hs', he⟩ := compatible_exact row hcompat vpn hr st f
    rw [hs] at hs'
    injection hs' with e
    subst e
    simp only [reportedAll, List.map_cons, he, ih]

theorem compiles_ethernet (e : Expr) : compiles e .ethernet = true := by
  cases e <;> rfl

theorem compiles_tcp (r : Range) (m : LinkMode) : compiles (tcpBPFFilter r) m = true := by
  obtain ⟨subnet, ports⟩ := r
  cases subnet <;> cases ports <;> cases m <;> rfl

theorem compiles_icmp (r : Range) (m : LinkMode) : compiles (icmpBPFFilter r) m = true := by
  obtain ⟨subnet, ports⟩ := r
  cases subnet <;> cases m <;> rfl

/-- libpcap accepts the filter of every compatible row on the link type the row opens (it refuses `arp` on raw IP) -/
theorem compatible_compiles (row : Row) (hcompat : Compatible row = true) (vpn : Bool) (r : Range) :
    compiles (filterOf row.bpf r) (linkOf row vpn) = true := by
  obtain ⟨cmd, scanName, proc, bpf, pktFilter, pktFlags, engine, bpfVpn, procVpn⟩ := row
  unfold Compatible at hcompat
  simp only at hcompat ⊢
  cases hk : kindOf cmd with
  | tcp syn =>
    simp only [hk, Bool.and_eq_true, beq_iff_eq] at hcompat
    obtain ⟨⟨⟨⟨⟨-, rfl⟩, -⟩, -⟩, -⟩, -⟩ := hcompat
    cases syn
    · exact compiles_tcp r _
    · cases hm : linkOf _ vpn <;> rfl
  | icmp =>
    simp only [hk, Bool.and_eq_true, beq_iff_eq] at hcompat
    obtain ⟨⟨⟨-, rfl⟩, -⟩, -⟩ := hcompat
    exact compiles_icmp r _
  | arp =>
    simp only [hk, Bool.and_eq_true, beq_iff_eq, Bool.not_eq_true'] at hcompat
    obtain ⟨⟨-, rfl⟩, rfl⟩ := hcompat
    exact compiles_ethernet _

theorem rangeOK_chunk (r : Range) (hr : RangeOK r = true) (i n : Nat) :
    RangeOK { r with ports := (r.ports.drop i).take n } = true := by
  unfold RangeOK at hr ⊢
  simp only [Bool.and_eq_true, List.all_eq_true] at hr ⊢
  refine ⟨hr.1, fun pr hpr => hr.2 pr ?_⟩
  exact List.mem_of_mem_drop (List.mem_of_mem_take hpr)

end SxVerif.Proofs.Reply
