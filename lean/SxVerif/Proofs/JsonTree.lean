/-
Lemmas for C14, part 4: single steps of the member / element readers, then the round trip for every
well-formed value tree (mutual structural induction) and for flat objects made of readable parts.
-/
import SxVerif.Proofs.JsonVal

namespace SxVerif.Proofs.Json
open SxVerif.Json SxVerif.Spec.Json

theorem isNumChar_comma : isNumChar ',' = false := by decide
theorem isNumChar_rbrace : isNumChar '}' = false := by decide
theorem isNumChar_rbrack : isNumChar ']' = false := by decide

/-! ### one member -/

theorem quoteStd_key_text (k : List Char) (tail : List Char) :
    quoteStd (ofChars k) ++ tail = '"' :: (escStd (ofChars k) ++ '"' :: tail) := by
  simp [quoteStd]

theorem readMems_last (g : Nat) (k txt : List Char) (v : JVal) (rest : List Char)
    (hv : readValue g (txt ++ '}' :: rest) = some (v, '}' :: rest)) :
    readMems (g + 1) (quoteStd (ofChars k) ++ ':' :: (txt ++ '}' :: rest)) = some ([(k, v)], rest) := by
  rw [quoteStd_key_text]
  rw [readMems_succ g _ _ (skipWs_cons '"' _ (by decide))]
  rw [read_escStd, sanitize_ofChars]
  simp only [skipWs_cons ':' _ (by decide : isWs ':' = false), if_true, hv,
    skipWs_cons '}' _ (by decide : isWs '}' = false)]
  have : ¬ ('}' = ',') := by decide
  simp [this]

theorem readMems_more (g : Nat) (k txt : List Char) (v : JVal) (more : List Char) (ms : List (Key × JVal))
    (rest : List Char)
    (hv : readValue g (txt ++ ',' :: more) = some (v, ',' :: more))
    (hm : readMems g more = some (ms, rest)) :
    readMems (g + 1) (quoteStd (ofChars k) ++ ':' :: (txt ++ ',' :: more)) = some ((k, v) :: ms, rest) := by
  rw [quoteStd_key_text]
  rw [readMems_succ g _ _ (skipWs_cons '"' _ (by decide))]
  rw [read_escStd, sanitize_ofChars]
  simp only [skipWs_cons ':' _ (by decide : isWs ':' = false), if_true, hv,
    skipWs_cons ',' _ (by decide : isWs ',' = false), hm]
  rfl

/-! ### one element -/

theorem readElems_last (g : Nat) (txt : List Char) (v : JVal) (rest : List Char)
    (hv : readValue g (txt ++ ']' :: rest) = some (v, ']' :: rest)) :
    readElems (g + 1) (txt ++ ']' :: rest) = some ([v], rest) := by
  rw [readElems_succ, hv]
  simp only [skipWs_cons ']' _ (by decide : isWs ']' = false)]
  have : ¬ (']' = ',') := by decide
  simp [this]

theorem readElems_more (g : Nat) (txt : List Char) (v : JVal) (more : List Char) (vs : List JVal) (rest : List Char)
    (hv : readValue g (txt ++ ',' :: more) = some (v, ',' :: more))
    (hm : readElems g more = some (vs, rest)) :
    readElems (g + 1) (txt ++ ',' :: more) = some (v :: vs, rest) := by
  rw [readElems_succ, hv]
  simp only [skipWs_cons ',' _ (by decide : isWs ',' = false), if_true, hm]
  rfl

/-! ### brackets -/

theorem readValue_obj (g : Nat) (body : List Char) (ms : List (Key × JVal)) (rest : List Char) (hb : HeadOk body)
    (hm : readMems g (body ++ '}' :: rest) = some (ms, rest)) :
    readValue (g + 1) ('{' :: (body ++ '}' :: rest)) = some (.obj ms, rest) := by
  rw [readValue_succ g _ '{' _ (skipWs_cons '{' _ (by decide))]
  have h1 : isNumStart '{' = false := by decide
  have h2 : ¬ ('{' = '"') := by decide
  have h3 : ¬ ('{' = '[') := by decide
  simp only [h1, h2, h3, if_false, if_true, Bool.false_eq_true]
  rw [skipWs_headOk body _ hb]
  obtain ⟨c, t, rfl, _, _, hc⟩ := hb
  simp only [List.cons_append, hc, if_false]
  simp only [List.cons_append] at hm
  rw [hm]; rfl

theorem readValue_obj_empty (g : Nat) (rest : List Char) :
    readValue (g + 1) ('{' :: '}' :: rest) = some (.obj [], rest) := by
  rw [readValue_succ g _ '{' _ (skipWs_cons '{' _ (by decide))]
  have h1 : isNumStart '{' = false := by decide
  have h2 : ¬ ('{' = '"') := by decide
  have h3 : ¬ ('{' = '[') := by decide
  simp only [h1, h2, h3, if_false, if_true, Bool.false_eq_true]
  rw [skipWs_cons '}' _ (by decide)]
  simp

theorem readValue_arr (g : Nat) (body : List Char) (vs : List JVal) (rest : List Char) (hb : HeadOk body)
    (hm : readElems g (body ++ ']' :: rest) = some (vs, rest)) :
    readValue (g + 1) ('[' :: (body ++ ']' :: rest)) = some (.arr vs, rest) := by
  rw [readValue_succ g _ '[' _ (skipWs_cons '[' _ (by decide))]
  have h1 : isNumStart '[' = false := by decide
  have h2 : ¬ ('[' = '"') := by decide
  simp only [h1, h2, if_false, if_true, Bool.false_eq_true]
  rw [skipWs_headOk body _ hb]
  obtain ⟨c, t, rfl, _, hc, _⟩ := hb
  simp only [List.cons_append, hc, if_false]
  simp only [List.cons_append] at hm
  rw [hm]; rfl

theorem readValue_arr_empty (g : Nat) (rest : List Char) :
    readValue (g + 1) ('[' :: ']' :: rest) = some (.arr [], rest) := by
  rw [readValue_succ g _ '[' _ (skipWs_cons '[' _ (by decide))]
  have h1 : isNumStart '[' = false := by decide
  have h2 : ¬ ('[' = '"') := by decide
  simp only [h1, h2, if_false, if_true, Bool.false_eq_true]
  rw [skipWs_cons ']' _ (by decide)]
  simp

theorem headOk_append (a b : List Char) (h : HeadOk a) : HeadOk (a ++ b) := by
  obtain ⟨c, t, rfl, h1, h2, h3⟩ := h
  exact ⟨c, t ++ b, rfl, h1, h2, h3⟩

theorem headOk_quote (body : List Char) : HeadOk ('"' :: body) :=
  ⟨'"', body, rfl, by decide, by decide, by decide⟩

/-! ### value trees -/

mutual
def cost : GoVal → Nat
  | .arr l => 1 + costL l
  | .map kvs => 1 + costM kvs
  | .struct kvs => 1 + costM kvs
  | _ => 1
def costL : List GoVal → Nat
  | [] => 0
  | v :: t => 1 + cost v + costL t
def costM : List (List Char × GoVal) → Nat
  | [] => 0
  | (_, v) :: t => 1 + cost v + costM t
end

theorem headOk_render (v : GoVal) (hw : wf v = true) : HeadOk (renderRaw v) := by
  cases v with
  | null => exact ⟨'n', _, rfl, by decide, by decide, by decide⟩
  | bool b => cases b <;> simp only [renderRaw]
              · exact ⟨'f', _, rfl, by decide, by decide, by decide⟩
              · exact ⟨'t', _, rfl, by decide, by decide, by decide⟩
  | int i => exact (reads_int i).1
  | num l =>
    simp only [wf, Bool.and_eq_true] at hw
    cases l with
    | nil => simp at hw
    | cons c t =>
      have hp := numStart_props c (by simpa using hw.2)
      exact ⟨c, t, rfl, hp.1, hp.2.1, hp.2.2⟩
  | str s => exact headOk_quote _
  | arr l => exact ⟨'[', _, rfl, by decide, by decide, by decide⟩
  | map kvs => exact ⟨'{', _, rfl, by decide, by decide, by decide⟩
  | struct kvs => exact ⟨'{', _, rfl, by decide, by decide, by decide⟩

theorem headOk_elems (l : List GoVal) (hne : l ≠ []) (hw : wfList l = true) : HeadOk (renderElems l) := by
  match l, hne, hw with
  | [v], _, hw =>
    simp only [wfList, Bool.and_true] at hw
    simpa [renderElems] using headOk_render v hw
  | v :: w :: t, _, hw =>
    simp only [wfList, Bool.and_eq_true] at hw
    simp only [renderElems]
    exact headOk_append _ _ (headOk_render v hw.1)

theorem headOk_mems (m : List (List Char × GoVal)) (hne : m ≠ []) : HeadOk (renderMems m) := by
  match m, hne with
  | [(k, v)], _ => simp only [renderMems, quoteStd, List.cons_append]; exact headOk_quote _
  | (k, v) :: kv :: t, _ => simp only [renderMems, quoteStd, List.cons_append]; exact headOk_quote _

mutual
/-- **value round trip**: the reader, given fuel ≥ `cost v`, reads the text of `v` back as `toJ v` and stops
    exactly at its end -/
theorem reads_val : ∀ (v : GoVal), wf v = true → ∀ f, cost v ≤ f → ∀ rest, restOk rest →
    readValue f (renderRaw v ++ rest) = some (toJ v, rest)
  | .null, _, f, hf, rest, hr => reads_null.2 f (by simpa [cost] using hf) rest hr
  | .bool true, _, f, hf, rest, hr => reads_true.2 f (by simpa [cost] using hf) rest hr
  | .bool false, _, f, hf, rest, hr => reads_false.2 f (by simpa [cost] using hf) rest hr
  | .int i, _, f, hf, rest, hr => (reads_int i).2 f (by simpa [cost] using hf) rest hr
  | .num l, hw, f, hf, rest, hr => by
    simp only [wf, Bool.and_eq_true, Option.isNone_iff_eq_none] at hw
    obtain ⟨g, rfl⟩ : ∃ g, f = g + 1 := ⟨f - 1, by simp [cost] at hf; omega⟩
    cases l with
    | nil => simp at hw
    | cons c t =>
      have hns : isNumStart c = true := by simpa using hw.2
      have hp := numStart_props c hns
      simp only [renderRaw, toJ, List.cons_append]
      rw [readValue_succ g _ c (t ++ rest) (skipWs_cons c _ hp.1), if_pos hns]
      exact readNumber_lit (c :: t) rest hw.1.1.1 hw.1.1.2 hw.1.2 hr
  | .str s, _, f, hf, rest, hr => by
    have := (reads_strStd (ofChars s)).2 f (by simpa [cost] using hf) rest hr
    rw [sanitize_ofChars] at this
    simpa [renderRaw, toJ] using this
  | .arr l, hw, f, hf, rest, hr => by
    obtain ⟨g, rfl⟩ : ∃ g, f = g + 1 := ⟨f - 1, by simp [cost] at hf; omega⟩
    simp only [wf] at hw
    simp only [cost] at hf
    simp only [renderRaw, toJ, List.cons_append, List.append_assoc, List.nil_append]
    cases l with
    | nil => simpa [renderElems, toJList] using readValue_arr_empty g rest
    | cons v t =>
      exact readValue_arr g _ _ rest (headOk_elems _ (by simp) hw)
        (reads_elems (v :: t) (by simp) hw g (by omega) rest)
  | .map m, hw, f, hf, rest, hr => by
    obtain ⟨g, rfl⟩ : ∃ g, f = g + 1 := ⟨f - 1, by simp [cost] at hf; omega⟩
    simp only [wf] at hw
    simp only [cost] at hf
    simp only [renderRaw, toJ, List.cons_append, List.append_assoc, List.nil_append]
    cases m with
    | nil => simpa [renderMems, toJMems] using readValue_obj_empty g rest
    | cons kv t =>
      exact readValue_obj g _ _ rest (headOk_mems _ (by simp))
        (reads_mems (kv :: t) (by simp) hw g (by omega) rest)
  | .struct m, hw, f, hf, rest, hr => by
    obtain ⟨g, rfl⟩ : ∃ g, f = g + 1 := ⟨f - 1, by simp [cost] at hf; omega⟩
    simp only [wf] at hw
    simp only [cost] at hf
    simp only [renderRaw, toJ, List.cons_append, List.append_assoc, List.nil_append]
    cases m with
    | nil => simpa [renderMems, toJMems] using readValue_obj_empty g rest
    | cons kv t =>
      exact readValue_obj g _ _ rest (headOk_mems _ (by simp))
        (reads_mems (kv :: t) (by simp) hw g (by omega) rest)
theorem reads_elems : ∀ (l : List GoVal), l ≠ [] → wfList l = true → ∀ f, costL l ≤ f → ∀ rest,
    readElems f (renderElems l ++ ']' :: rest) = some (toJList l, rest)
  | [], h, _, _, _, _ => absurd rfl h
  | [v], _, hw, f, hf, rest => by
    simp only [wfList, Bool.and_true] at hw
    simp only [costL] at hf
    obtain ⟨g, rfl⟩ : ∃ g, f = g + 1 := ⟨f - 1, by omega⟩
    simp only [renderElems, toJList]
    exact readElems_last g _ _ rest
      (reads_val v hw g (by omega) (']' :: rest) (restOk_of_head _ _ isNumChar_rbrack))
  | v :: w :: t, _, hw, f, hf, rest => by
    simp only [wfList, Bool.and_eq_true] at hw
    simp only [costL] at hf
    obtain ⟨g, rfl⟩ : ∃ g, f = g + 1 := ⟨f - 1, by omega⟩
    have ih := reads_elems (w :: t) (by simp) (by simp [wfList, hw.2]) g (by simp [costL]; omega) rest
    simp only [renderElems, toJList, List.append_assoc, List.cons_append]
    exact readElems_more g _ _ _ _ rest
      (reads_val v hw.1 g (by omega) _ (restOk_of_head _ _ isNumChar_comma)) ih
theorem reads_mems : ∀ (m : List (List Char × GoVal)), m ≠ [] → wfMems m = true → ∀ f, costM m ≤ f → ∀ rest,
    readMems f (renderMems m ++ '}' :: rest) = some (toJMems m, rest)
  | [], h, _, _, _, _ => absurd rfl h
  | [(k, v)], _, hw, f, hf, rest => by
    simp only [wfMems, Bool.and_true] at hw
    simp only [costM] at hf
    obtain ⟨g, rfl⟩ : ∃ g, f = g + 1 := ⟨f - 1, by omega⟩
    simp only [renderMems, toJMems, List.append_assoc, List.cons_append]
    exact readMems_last g k _ _ rest
      (reads_val v hw g (by omega) ('}' :: rest) (restOk_of_head _ _ isNumChar_rbrace))
  | (k, v) :: kv :: t, _, hw, f, hf, rest => by
    rw [wfMems, Bool.and_eq_true] at hw
    rw [costM] at hf
    obtain ⟨g, rfl⟩ : ∃ g, f = g + 1 := ⟨f - 1, by omega⟩
    have ih := reads_mems (kv :: t) (by simp) hw.2 g (by omega) rest
    simp only [renderMems, toJMems, List.append_assoc, List.cons_append]
    exact readMems_more g k _ _ _ _ rest
      (reads_val v hw.1 g (by omega) _ (restOk_of_head _ _ isNumChar_comma)) ih
end

end SxVerif.Proofs.Json
