/-
Buffer exclusivity of the packet pipeline: `BufInv` (Proofs/ConcPacketDefs.lean) is an invariant of EVERY
step, `cancel` included.  A buffer identity handed out by the pool is in at most one place (an in-flight
packet, a worker's local, the sender's local, the pool); the memory of a buffer referenced by an in-flight
packet still holds the bytes `Fill` wrote for that packet's request; hence the bytes the writer saw are the
bytes built (`log`).

The proof counts: `bufCnt s x` = number of places that hold identity `x`.  Every step moves an identity
from one place to another, drops it, or (worker `get` of a fresh identity) creates one that was nowhere.

The only two facts about the configuration that are used: `cfg.senderCalls = [write, free]` (the sender
hands the bytes to the writer BEFORE it returns the buffer to the pool: side condition FreeAfterWrite) and,
built into `workerStep`, that the worker takes the buffer from the pool before it fills it (GetBeforeFill).
`free_before_write_breaks_bytes` at the end shows the first one is necessary.
-/
import SxVerif.Proofs.ConcPacketConserve

namespace SxVerif.Pipe

/-! ### counting the places an identity is in -/

def hCnt (l : List (Nat × Req)) (x : Nat) : Nat := (l.map (·.1)).count x

def wCnt (w : WState) (x : Nat) : Nat := hCnt (wHeld w) x + (wRaw w).count x
def chCnt (c : Chan Pkt) (x : Nat) : Nat := hCnt (c.buf.flatMap pktHeld) x
def mCnt (m : MState) (x : Nat) : Nat := hCnt (mHeld m) x
def laneCnt (l : Lane) (x : Nat) : Nat := wCnt l.w x + chCnt l.out x + mCnt l.m x
def sCnt (st : SState) (x : Nat) : Nat := hCnt (sndHeld st) x

def bufCnt (s : Sys) (x : Nat) : Nat :=
  (s.lanes.map (fun l => laneCnt l x)).sum + chCnt s.merged x + sCnt s.snd x + s.pool.count x

theorem hCnt_append (a b : List (Nat × Req)) (x : Nat) : hCnt (a ++ b) x = hCnt a x + hCnt b x := by
  simp [hCnt, List.count_append]

theorem hCnt_nil (x : Nat) : hCnt [] x = 0 := rfl

theorem pktHeld_buf (b : Nat) (r : Req) : pktHeld (.buf b r) = [(b, r)] := rfl
theorem pktHeld_err (e : Err) : pktHeld (.err e) = [] := rfl

theorem hCnt_pos_of_mem {l : List (Nat × Req)} {p : Nat × Req} (h : p ∈ l) : 0 < hCnt l p.1 := by
  unfold hCnt; rw [List.count_pos_iff]; exact List.mem_map.mpr ⟨p, h, rfl⟩

theorem lanes_count (L : List Lane) (x : Nat) :
    hCnt (L.flatMap laneHeld) x + (L.flatMap (fun l => wRaw l.w)).count x = (L.map (fun l => laneCnt l x)).sum := by
  induction L with
  | nil => simp [hCnt]
  | cons l ls ih =>
    simp only [List.flatMap_cons, hCnt_append, List.count_append, List.map_cons, List.sum_cons]
    rw [← ih]
    simp only [laneCnt, wCnt, chCnt, mCnt, laneHeld, hCnt_append]
    omega

/-- `bufCnt` is the multiplicity in `allBufs` -/
theorem allBufs_count (s : Sys) (x : Nat) : (allBufs s).count x = bufCnt s x := by
  have := lanes_count s.lanes x
  simp only [allBufs, held, raw, List.map_append, List.count_append, bufCnt, chCnt, sCnt]
  simp only [hCnt] at this ⊢
  omega

/-- the count-form of the invariant -/
structure BufCnt (s : Sys) : Prop where
  excl : ∀ x, bufCnt s x ≤ 1
  bound : ∀ x, s.nextId ≤ x → bufCnt s x = 0
  memOk : ∀ p ∈ held s, s.mem p.1 = p.2.frame
  shape : sndShape s.snd
  log : s.written.map (·.1) = s.writtenG.map (·.frame)

theorem bufInv_of_cnt {s : Sys} (h : BufCnt s) : BufInv s where
  excl := by rw [List.nodup_iff_count]; intro x; rw [allBufs_count]; exact h.excl x
  bound := by
    intro b hb
    have h1 : 0 < (allBufs s).count b := List.count_pos_iff.mpr hb
    rw [allBufs_count] at h1
    false_or_by_contra
    have := h.bound b (by omega)
    omega
  memOk := h.memOk
  shape := h.shape
  log := h.log

/-- the invariant only looks at these components -/
theorem bufCnt_congr {s s' : Sys} (h1 : s'.lanes = s.lanes) (h2 : s'.merged.buf = s.merged.buf) (h3 : s'.snd = s.snd)
    (h4 : s'.pool = s.pool) (h5 : s'.nextId = s.nextId) (h6 : s'.mem = s.mem) (h7 : s'.written = s.written)
    (h8 : s'.writtenG = s.writtenG) (h : BufCnt s) : BufCnt s' := by
  have hc : ∀ x, bufCnt s' x = bufCnt s x := by
    intro x; simp only [bufCnt, chCnt, h1, h2, h3, h4]
  have hh : held s' = held s := by simp only [held, h1, h2, h3]
  exact ⟨fun x => by rw [hc]; exact h.excl x, fun x hx => by rw [hc]; exact h.bound x (by rw [← h5]; exact hx),
    fun p hp => by rw [h6]; exact h.memOk p (hh ▸ hp), by rw [h3]; exact h.shape, by rw [h7, h8]; exact h.log⟩

/-! ### membership in `held` -/

theorem mem_flatMap_set {α β} {f : α → List β} {l : List α} {i : Nat} {b : α} {x : β}
    (h : x ∈ (l.set i b).flatMap f) : x ∈ l.flatMap f ∨ x ∈ f b := by
  rw [List.mem_flatMap] at h
  obtain ⟨a, ha, hx⟩ := h
  rcases List.mem_or_eq_of_mem_set ha with h1 | h1
  · exact Or.inl (List.mem_flatMap.mpr ⟨a, h1, hx⟩)
  · exact Or.inr (h1 ▸ hx)

theorem mem_held_lane {s : Sys} {l : Lane} {p : Nat × Req} (hl : l ∈ s.lanes) (hp : p ∈ laneHeld l) : p ∈ held s := by
  simp only [held, List.mem_append]
  exact Or.inl (Or.inl (List.mem_flatMap.mpr ⟨l, hl, hp⟩))

/-- a raw buffer of a worker is not referenced by any in-flight packet -/
theorem raw_not_held {s : Sys} (h : BufCnt s) {i : Nat} {ln : Lane} {b : Nat} {q : Req}
    (hln : s.lanes[i]? = some ln) (hw : ln.w = .have b q) {p : Nat × Req} (hp : p ∈ held s) : p.1 ≠ b := by
  intro hpb
  have h1 : 0 < ((held s).map (·.1)).count b := by
    rw [List.count_pos_iff]; exact List.mem_map.mpr ⟨p, hp, hpb⟩
  have h2 : 0 < (raw s).count b := by
    rw [List.count_pos_iff]
    exact List.mem_flatMap.mpr ⟨ln, List.mem_of_getElem? hln, by simp [hw, wRaw]⟩
  have h3 := h.excl b
  rw [← allBufs_count] at h3
  simp only [allBufs, List.count_append] at h3
  omega

/-! ### local steps -/

theorem workerStep_buf {cfg ctx w out inp pool nid mem e r}
    (h : workerStep cfg ctx w out inp pool nid mem e = some r) :
    (∀ x, wCnt r.w x + chCnt r.out x + r.pool.count x ≤
          wCnt w x + chCnt out x + pool.count x + (if r.nextId = nid + 1 ∧ x = nid then 1 else 0)) ∧
    nid ≤ r.nextId ∧ r.nextId ≤ nid + 1 ∧
    ((r.mem = mem ∧ ∀ p ∈ wHeld r.w ++ r.out.buf.flatMap pktHeld, p ∈ wHeld w ++ out.buf.flatMap pktHeld) ∨
     (∃ b q, w = .have b q ∧ r.mem = (fun x => if x = b then q.frame else mem x) ∧
        ∀ p ∈ wHeld r.w ++ r.out.buf.flatMap pktHeld, p = (b, q) ∨ p ∈ wHeld w ++ out.buf.flatMap pktHeld)) := by
  cases e <;> cases w <;> simp only [workerStep] at h <;> try (simp at h; done)
  · -- recv
    split at h
    · simp at h; subst h
      refine ⟨fun x => ?_, by simp, by simp, Or.inl ⟨rfl, ?_⟩⟩
      · split <;> simp [wCnt, wHeld, wRaw, pktHeld, hCnt]
      · split <;> simp [wHeld, pktHeld]
    · split at h <;> simp at h; subst h
      exact ⟨fun x => by simp [wCnt, wHeld, wRaw, hCnt], by simp, by simp, Or.inl ⟨rfl, by simp [wHeld]⟩⟩
  · -- get
    rename_i b q
    split at h
    · rename_i hb
      simp at h; subst h
      refine ⟨fun x => ?_, by simp, by simp, Or.inl ⟨rfl, by simp [wHeld]⟩⟩
      simp only [wCnt, wHeld, wRaw, hCnt_nil, List.count_erase, List.count_cons, List.count_nil]
      have : 0 < pool.count b := List.count_pos_iff.mpr hb
      by_cases hx : b = x
      · subst hx; simp; omega
      · simp [hx]
    · split at h <;> simp at h
      rename_i hb; subst hb; subst h
      refine ⟨fun x => ?_, by simp, by simp, Or.inl ⟨rfl, by simp [wHeld]⟩⟩
      simp only [wCnt, wHeld, wRaw, hCnt_nil, List.count_cons, List.count_nil]
      by_cases hx : b = x
      · subst hx; simp; omega
      · have : ¬ x = b := fun h => hx h.symm
        simp [hx, this]
  · -- fill
    rename_i b q
    split at h
    · simp at h; subst h
      refine ⟨fun x => ?_, by simp, by simp, Or.inl ⟨rfl, by simp [wHeld, pktHeld]⟩⟩
      simp [wCnt, wHeld, wRaw, pktHeld, hCnt]
    · simp at h; subst h
      refine ⟨fun x => ?_, by simp, by simp, Or.inr ⟨b, q, rfl, rfl, by simp [wHeld, pktHeld]⟩⟩
      simp [wCnt, wHeld, wRaw, pktHeld, hCnt]
  · -- send
    rename_i p
    cases hs : sendOn (some cfg.capOut) out p with
    | none => simp [hs] at h
    | some y =>
      obtain ⟨c', pn⟩ := y
      simp [hs] at h; subst h
      have hh := sendOn_some hs
      cases hcl : out.closed
      · have hb := hh.2.2.1 hcl
        refine ⟨fun x => ?_, by simp, by simp, Or.inl ⟨rfl, ?_⟩⟩
        · simp [wCnt, chCnt, wHeld, wRaw, hb, hCnt, List.count_append]; omega
        · simp [wHeld, hb]; intro a b h; rcases h with h | h <;> simp [h]
      · have hb := hh.2.2.2.1 hcl
        subst hb
        refine ⟨fun x => ?_, by simp, by simp, Or.inl ⟨rfl, ?_⟩⟩
        · simp [wCnt, wHeld, wRaw, hCnt]
        · intro p hp; simp only [wHeld, List.nil_append] at hp; exact List.mem_append_right _ hp
  · -- drop
    split at h <;> simp at h; subst h
    refine ⟨fun x => ?_, by simp, by simp, Or.inl ⟨rfl, ?_⟩⟩
    · simp [wCnt, wHeld, wRaw, hCnt]
    · intro p hp; simp only [wHeld, List.nil_append] at hp; exact List.mem_append_right _ hp
  · -- ctx
    split at h <;> simp at h; subst h
    exact ⟨fun x => by simp [wCnt, wHeld, wRaw, hCnt], by simp, by simp, Or.inl ⟨rfl, by simp [wHeld]⟩⟩
  · -- close
    simp [closeCh] at h; subst h
    exact ⟨fun x => by simp [wCnt, chCnt, wHeld, wRaw, hCnt], by simp, by simp, Or.inl ⟨rfl, by simp [wHeld]⟩⟩

theorem muxStep_buf {gr gs rd cap ctx m src dst e r}
    (h : muxStep gr gs rd cap ctx m src dst e = some r) :
    (∀ x, mCnt r.m x + chCnt r.src x + chCnt r.dst x ≤ mCnt m x + chCnt src x + chCnt dst x) ∧
    (∀ p ∈ mHeld r.m ++ r.src.buf.flatMap pktHeld ++ r.dst.buf.flatMap pktHeld,
        p ∈ mHeld m ++ src.buf.flatMap pktHeld ++ dst.buf.flatMap pktHeld) := by
  cases e <;> cases m <;> simp only [muxStep] at h <;> try (simp at h; done)
  · split at h
    · simp at h; subst h
      rename_i p rest hb
      refine ⟨fun x => ?_, ?_⟩
      · simp [mCnt, chCnt, mHeld, hb, hCnt, List.count_append]
      · simp [mHeld, hb]
    · split at h <;> simp at h; subst h
      exact ⟨fun x => by simp [mCnt, mHeld, hCnt], by simp [mHeld]⟩
  · rename_i p
    cases hs : sendOn (some cap) dst p with
    | none => simp [hs] at h
    | some y =>
      obtain ⟨c', pn⟩ := y
      simp [hs] at h; subst h
      have hh := sendOn_some hs
      cases hcl : dst.closed
      · have hb := hh.2.2.1 hcl
        refine ⟨fun x => ?_, ?_⟩
        · simp [mCnt, chCnt, mHeld, hb, hCnt, List.count_append]; omega
        · simp [mHeld, hb]; intro a b h; rcases h with h | h | h <;> simp [h]
      · have hb := hh.2.2.2.1 hcl
        subst hb
        refine ⟨fun x => ?_, ?_⟩
        · simp [mCnt, mHeld, hCnt]
        · simp [mHeld]; intro a b h; rcases h with h | h <;> simp [h]
  · split at h <;> simp at h; subst h
    refine ⟨fun x => ?_, ?_⟩
    · cases rd <;> simp [mCnt, mHeld, hCnt]
    · cases rd <;> simp [mHeld] <;> (intro a b h; rcases h with h | h <;> simp [h])
  · split at h <;> simp at h; subst h
    exact ⟨fun x => by simp [mCnt, mHeld, hCnt], by simp [mHeld]⟩
  · simp at h; subst h
    exact ⟨fun x => by simp [mCnt, mHeld, hCnt], by simp [mHeld]⟩

/-! ### the invariant -/

theorem bufCnt_init (inp : Input) : BufCnt (init inp) := by
  have h0 : ∀ n x, ((List.replicate n ({} : Lane)).map (fun l => laneCnt l x)).sum = 0 := by
    intro n x; induction n with
    | zero => rfl
    | succ n ih => simp [List.replicate_succ, ih, laneCnt, wCnt, chCnt, mCnt, wHeld, wRaw, mHeld, hCnt]
  have h1 : ∀ n, (List.replicate n ({} : Lane)).flatMap laneHeld = [] := by
    intro n; induction n with
    | zero => rfl
    | succ n ih => simp [List.replicate_succ, ih, laneHeld, wHeld, mHeld]
  refine ⟨fun x => ?_, fun x _ => ?_, ?_, by simp [init, sndShape], by simp [init]⟩
  · simp only [bufCnt, init, h0]; simp [chCnt, sCnt, sndHeld, hCnt]
  · simp only [bufCnt, init, h0]; simp [chCnt, sCnt, sndHeld, hCnt]
  · simp [held, init, h1, sndHeld]

theorem closerStep_buf {waits wg c out e c' out' pn}
    (h : closerStep waits wg c out e = some (c', out', pn)) : out'.buf = out.buf := by
  cases e <;> cases c <;> simp [closerStep, closeCh] at h
  · obtain ⟨_, _, rfl, _⟩ := h; rfl
  · obtain ⟨_, rfl, _⟩ := h; rfl

set_option maxHeartbeats 1000000 in
theorem bufCnt_sender {cfg inp s s' e} (hwf : cfg.WF) (hb : BufCnt s) (hshape : sndShape s'.snd)
    (h : senderStep cfg inp s e = some s') : BufCnt s' := by
  cases e with
  | recv =>
    cases hsnd : s.snd <;> simp [senderStep, hsnd] at h
    cases hbuf : s.merged.buf with
    | nil =>
      simp [hbuf] at h; obtain ⟨_, rfl⟩ := h
      refine ⟨fun x => ?_, fun x hx => ?_, fun p hp => ?_, hshape, hb.log⟩
      · have := hb.excl x; simp [bufCnt, sCnt, sndHeld, hsnd, hCnt] at this ⊢; exact this
      · have := hb.bound x hx; simp [bufCnt, sCnt, sndHeld, hsnd, hCnt] at this ⊢; exact this
      · exact hb.memOk p (by simpa [held, sndHeld, hsnd] using hp)
    | cons p0 rest =>
      cases p0 with
      | err e0 =>
        simp [hbuf] at h; subst h
        refine ⟨fun x => ?_, fun x hx => ?_, fun p hp => ?_, hshape, hb.log⟩
        · have := hb.excl x
          simp [bufCnt, sCnt, chCnt, sndHeld, hsnd, hCnt, hbuf, pktHeld_buf, pktHeld_err] at this ⊢; exact this
        · have := hb.bound x hx
          simp [bufCnt, sCnt, chCnt, sndHeld, hsnd, hCnt, hbuf, pktHeld_buf, pktHeld_err] at this ⊢; exact this
        · exact hb.memOk p (by simpa [held, sndHeld, hsnd, hbuf, pktHeld_buf, pktHeld_err] using hp)
      | buf b r =>
        simp [hbuf] at h; subst h
        refine ⟨fun x => ?_, fun x hx => ?_, fun p hp => ?_, hshape, hb.log⟩
        · have := hb.excl x
          simp [bufCnt, sCnt, chCnt, sndHeld, hsnd, hCnt, hbuf, pktHeld_buf, pktHeld_err, afterCalls, hwf.calls, List.count_cons]
            at this ⊢
          omega
        · have := hb.bound x hx
          simp [bufCnt, sCnt, chCnt, sndHeld, hsnd, hCnt, hbuf, pktHeld_buf, pktHeld_err, afterCalls, hwf.calls, List.count_cons]
            at this ⊢
          omega
        · apply hb.memOk p
          simp [held, sndHeld, hsnd, hbuf, pktHeld_buf, pktHeld_err, afterCalls, hwf.calls] at hp ⊢
          rcases hp with hp | hp | hp
          · exact Or.inl hp
          · exact Or.inr (Or.inr hp)
          · exact Or.inr (Or.inl hp)
  | call =>
    cases hsnd : s.snd <;> simp [senderStep, hsnd] at h
    rename_i b r todo
    have hsh := hb.shape
    rw [hsnd] at hsh
    rcases hsh with rfl | rfl
    · -- write: the bytes handed over are the bytes built
      simp at h; subst h
      have hm : s.mem b = r.frame := hb.memOk (b, r) (by simp [held, sndHeld, hsnd])
      refine ⟨fun x => ?_, fun x hx => ?_, fun p hp => ?_, hshape, ?_⟩
      · have := hb.excl x
        split <;> (simp [bufCnt, sCnt, sndHeld, hsnd, hCnt, afterCalls] at this ⊢; exact this)
      · have := hb.bound x hx
        split <;> (simp [bufCnt, sCnt, sndHeld, hsnd, hCnt, afterCalls] at this ⊢; exact this)
      · apply hb.memOk p
        revert hp
        split <;> simp [held, sndHeld, hsnd, afterCalls]
      · simp [hb.log, hm]
    · -- free
      simp at h; subst h
      refine ⟨fun x => ?_, fun x hx => ?_, fun p hp => ?_, hshape, hb.log⟩
      · have := hb.excl x
        simp [bufCnt, sCnt, sndHeld, hsnd, hCnt, afterCalls, List.count_cons] at this ⊢; omega
      · have := hb.bound x hx
        simp [bufCnt, sCnt, sndHeld, hsnd, hCnt, afterCalls, List.count_cons] at this ⊢; omega
      · apply hb.memOk p
        simp [held, sndHeld, hsnd, afterCalls] at hp ⊢
        rcases hp with hp | hp
        · exact Or.inl hp
        · exact Or.inr (Or.inl hp)
  | report =>
    cases hsnd : s.snd <;> simp [senderStep, hsnd] at h
    rename_i e0 k
    cases hso : sendOn (some cfg.capErrc) s.errc1 (Pkt.err e0) with
    | none => simp [hso] at h
    | some y =>
      obtain ⟨c', pn⟩ := y
      simp [hso] at h; subst h
      refine ⟨fun x => ?_, fun x hx => ?_, fun p hp => ?_, hshape, hb.log⟩
      · have := hb.excl x; simp [bufCnt, sCnt, sndHeld, hsnd] at this ⊢; exact this
      · have := hb.bound x hx; simp [bufCnt, sCnt, sndHeld, hsnd] at this ⊢; exact this
      · exact hb.memOk p (by simpa [held, sndHeld, hsnd] using hp)
  | drop =>
    cases hsnd : s.snd <;> simp [senderStep, hsnd] at h
    obtain ⟨_, rfl⟩ := h
    refine ⟨fun x => ?_, fun x hx => ?_, fun p hp => ?_, hshape, hb.log⟩
    · have := hb.excl x; simp [bufCnt, sCnt, sndHeld, hsnd] at this ⊢; exact this
    · have := hb.bound x hx; simp [bufCnt, sCnt, sndHeld, hsnd] at this ⊢; exact this
    · exact hb.memOk p (by simpa [held, sndHeld, hsnd] using hp)
  | ctx =>
    cases hsnd : s.snd <;> simp [senderStep, hsnd] at h
    obtain ⟨_, rfl⟩ := h
    refine ⟨fun x => ?_, fun x hx => ?_, fun p hp => ?_, hshape, hb.log⟩
    · have := hb.excl x; simp [bufCnt, sCnt, sndHeld, hsnd] at this ⊢; exact this
    · have := hb.bound x hx; simp [bufCnt, sCnt, sndHeld, hsnd] at this ⊢; exact this
    · exact hb.memOk p (by simpa [held, sndHeld, hsnd] using hp)
  | close1 =>
    cases hsnd : s.snd <;> simp [senderStep, hsnd] at h
    subst h
    cases firstClose cfg <;>
    (refine ⟨fun x => ?_, fun x hx => ?_, fun p hp => ?_, hshape, hb.log⟩
     · have := hb.excl x; simp [bufCnt, sCnt, sndHeld, hsnd, senderClose] at this ⊢; exact this
     · have := hb.bound x hx; simp [bufCnt, sCnt, sndHeld, hsnd, senderClose] at this ⊢; exact this
     · exact hb.memOk p (by simpa [held, sndHeld, hsnd, senderClose] using hp))
  | close2 =>
    cases hsnd : s.snd <;> simp [senderStep, hsnd] at h
    subst h
    cases secondClose cfg <;>
    (refine ⟨fun x => ?_, fun x hx => ?_, fun p hp => ?_, hshape, hb.log⟩
     · have := hb.excl x; simp [bufCnt, sCnt, sndHeld, hsnd, senderClose] at this ⊢; exact this
     · have := hb.bound x hx; simp [bufCnt, sCnt, sndHeld, hsnd, senderClose] at this ⊢; exact this
     · exact hb.memOk p (by simpa [held, sndHeld, hsnd, senderClose] using hp))

/-- where a filled buffer of the new state comes from, for a step of worker `i` -/
theorem held_worker {s : Sys} {i : Nat} {ln : Lane} {w' : WState} {out' : Chan Pkt} {lanes' : List Lane}
    (hln : s.lanes[i]? = some ln) (hl : lanes' = s.lanes.set i { ln with w := w', out := out' }) {p : Nat × Req}
    (hp : p ∈ lanes'.flatMap laneHeld ++ s.merged.buf.flatMap pktHeld ++ sndHeld s.snd) :
    p ∈ held s ∨ p ∈ wHeld w' ++ out'.buf.flatMap pktHeld := by
  subst hl
  have hlm := List.mem_of_getElem? hln
  rcases List.mem_append.mp hp with hp | hp
  · rcases List.mem_append.mp hp with hp | hp
    · rcases mem_flatMap_set hp with h1 | h1
      · exact Or.inl (List.mem_append_left _ (List.mem_append_left _ h1))
      · simp only [laneHeld] at h1
        rcases List.mem_append.mp h1 with h1 | h1
        · exact Or.inr h1
        · exact Or.inl (mem_held_lane hlm (by simp only [laneHeld]; exact List.mem_append_right _ h1))
    · exact Or.inl (List.mem_append_left _ (List.mem_append_right _ hp))
  · exact Or.inl (List.mem_append_right _ hp)

set_option maxHeartbeats 1000000 in
/-- **buffer exclusivity is preserved by every step** (cancel, pool gc and all error paths included) -/
theorem bufCnt_step {cfg inp s s' ev} (hwf : cfg.WF) (hb : BufCnt s) (h : step cfg inp s ev = some s') :
    BufCnt s' := by
  have hshape := sndShape_step hwf hb.shape h
  cases ev with
  | sender e => exact bufCnt_sender hwf hb hshape h
  | envSend | rcvSend =>
    simp only [step] at h
    split at h <;> try (simp at h; done)
    split at h <;> simp at h; subst h
    refine bufCnt_congr (s := s) ?_ ?_ ?_ ?_ ?_ ?_ ?_ ?_ hb <;> rfl
  | envSkip | envClose | rcvSkip | rcvClose =>
    simp only [step] at h
    split at h <;> try (simp at h; done)
    split at h <;> simp at h
    all_goals first
      | (subst h; refine bufCnt_congr (s := s) ?_ ?_ ?_ ?_ ?_ ?_ ?_ ?_ hb <;> rfl)
      | (obtain ⟨_, rfl⟩ := h; refine bufCnt_congr (s := s) ?_ ?_ ?_ ?_ ?_ ?_ ?_ ?_ hb <;> rfl)
  | consume =>
    simp only [step] at h
    split at h <;> simp at h; subst h
    refine bufCnt_congr (s := s) ?_ ?_ ?_ ?_ ?_ ?_ ?_ ?_ hb <;> rfl
  | cancel =>
    simp [step] at h; subst h
    refine bufCnt_congr (s := s) ?_ ?_ ?_ ?_ ?_ ?_ ?_ ?_ hb <;> rfl
  | emux j e =>
    cases j <;> simp only [step] at h <;> split at h <;> simp at h <;> subst h <;>
      refine bufCnt_congr (s := s) ?_ ?_ ?_ ?_ ?_ ?_ ?_ ?_ hb <;> rfl
  | ecloser e =>
    simp only [step] at h
    split at h <;> simp at h; subst h
    refine bufCnt_congr (s := s) ?_ ?_ ?_ ?_ ?_ ?_ ?_ ?_ hb <;> rfl
  | closer e =>
    simp only [step] at h
    split at h <;> try (simp at h; done)
    rename_i c o pn hst
    simp at h; subst h
    refine bufCnt_congr (s := s) ?_ ?_ ?_ ?_ ?_ ?_ ?_ ?_ hb <;> first | rfl | exact closerStep_buf hst
  | gc b =>
    simp only [step] at h
    split at h <;> simp at h; subst h
    refine ⟨fun x => ?_, fun x hx => ?_, fun p hp => hb.memOk p hp, hshape, hb.log⟩
    · have := hb.excl x; simp only [bufCnt, List.count_erase] at this ⊢; omega
    · have := hb.bound x hx; simp only [bufCnt, List.count_erase] at this ⊢; omega
  | worker i e =>
    simp only [step] at h
    split at h <;> try (simp at h; done)
    split at h <;> try (simp at h; done)
    rename_i ln hln _ r hst
    simp at h; subst h
    obtain ⟨hcnt, hn1, hn2, hmem⟩ := workerStep_buf hst
    have hsum := fun x => sum_map_set (fun l => laneCnt l x) { ln with w := r.w, out := r.out } hln
    refine ⟨fun x => ?_, fun x hx => ?_, fun p hp => ?_, hshape, hb.log⟩
    · have h1 := hcnt x; have h2 := hsum x; have h3 := hb.excl x; have h4 := hb.bound x
      simp only [bufCnt, laneCnt] at h1 h2 h3 h4 ⊢
      split at h1
      · rename_i hfresh
        have := h4 (by omega); omega
      · omega
    · have h1 := hcnt x; have h2 := hsum x; have h4 := hb.bound x
      simp only [bufCnt, laneCnt] at h1 h2 h4 hx ⊢
      split at h1
      · omega
      · have := h4 (by omega); omega
    · have hp' := held_worker (w' := r.w) (out' := r.out) hln rfl hp
      rcases hmem with ⟨hm, hsub⟩ | ⟨b, q, hw, hm, hsub⟩
      · have hps : p ∈ held s := by
          rcases hp' with h1 | h1
          · exact h1
          · exact mem_held_lane (List.mem_of_getElem? hln)
              (by simp only [laneHeld]; exact List.mem_append_left _ (hsub p h1))
        show r.mem p.1 = p.2.frame
        rw [hm]; exact hb.memOk p hps
      · show r.mem p.1 = p.2.frame
        have hold : ∀ p ∈ held s, r.mem p.1 = p.2.frame := by
          intro p hps
          have hne := raw_not_held hb hln hw hps
          rw [hm]; simp only [hne, if_false]; exact hb.memOk p hps
        rcases hp' with h1 | h1
        · exact hold p h1
        · rcases hsub p h1 with rfl | h2
          · rw [hm]; simp
          · exact hold p (mem_held_lane (List.mem_of_getElem? hln)
              (by simp only [laneHeld]; exact List.mem_append_left _ h2))
  | mux i e =>
    simp only [step] at h
    split at h <;> try (simp at h; done)
    split at h <;> try (simp at h; done)
    rename_i ln hln _ r hst
    simp at h; subst h
    obtain ⟨hcnt, hsub⟩ := muxStep_buf hst
    have hsum := fun x => sum_map_set (fun l => laneCnt l x) { ln with m := r.m, out := r.src } hln
    have hlm := List.mem_of_getElem? hln
    refine ⟨fun x => ?_, fun x hx => ?_, fun p hp => ?_, hshape, hb.log⟩
    · have h1 := hcnt x; have h2 := hsum x; have h3 := hb.excl x
      simp only [bufCnt, laneCnt] at h1 h2 h3 ⊢
      omega
    · have h1 := hcnt x; have h2 := hsum x; have h4 := hb.bound x hx
      simp only [bufCnt, laneCnt] at h1 h2 h4 ⊢
      omega
    · apply hb.memOk p
      have key : ∀ q ∈ mHeld r.m ++ r.src.buf.flatMap pktHeld ++ r.dst.buf.flatMap pktHeld, q ∈ held s := by
        intro q hq
        have := hsub q hq
        rcases List.mem_append.mp this with h1 | h1
        · rcases List.mem_append.mp h1 with h1 | h1
          · exact mem_held_lane hlm (by simp only [laneHeld]; exact List.mem_append_right _ h1)
          · exact mem_held_lane hlm
              (by simp only [laneHeld]; exact List.mem_append_left _ (List.mem_append_right _ h1))
        · exact List.mem_append_left _ (List.mem_append_right _ h1)
      simp only [held] at hp
      rcases List.mem_append.mp hp with hp | hp
      · rcases List.mem_append.mp hp with hp | hp
        · rcases mem_flatMap_set hp with h1 | h1
          · exact List.mem_append_left _ (List.mem_append_left _ h1)
          · simp only [laneHeld] at h1
            rcases List.mem_append.mp h1 with h1 | h1
            · rcases List.mem_append.mp h1 with h1 | h1
              · exact mem_held_lane hlm (by simp only [laneHeld]; exact List.mem_append_left _ (List.mem_append_left _ h1))
              · exact key p (List.mem_append_left _ (List.mem_append_right _ h1))
            · exact key p (List.mem_append_left _ (List.mem_append_left _ h1))
        · exact key p (List.mem_append_right _ hp)
      · exact List.mem_append_right _ hp

theorem reachable_bufCnt {cfg inp s} (hwf : cfg.WF) (h : Reachable cfg inp s) : BufCnt s := by
  induction h with
  | init => exact bufCnt_init inp
  | step _ hst ih => obtain ⟨ev, hev⟩ := hst; exact bufCnt_step hwf ih hev

/-- `BufInv` holds in every reachable state (every schedule, cancellation included) -/
theorem reachable_bufInv {cfg inp s} (hwf : cfg.WF) (h : Reachable cfg inp s) : BufInv s :=
  bufInv_of_cnt (reachable_bufCnt hwf h)

/-- `BufInv` is preserved by every step -/
theorem bufInv_step {cfg inp s s' ev} (hwf : cfg.WF) (hb : BufCnt s) (h : step cfg inp s ev = some s') : BufInv s' :=
  bufInv_of_cnt (bufCnt_step hwf hb h)

/-- **byte exactness**: the k-th byte string handed to `WritePacketData` is the frame `Fill` built for the
    request the k-th written packet was made for -/
theorem packet_bytes {cfg inp s} (hwf : cfg.WF) (h : Reachable cfg inp s) :
    s.written.map (·.1) = s.writtenG.map (·.frame) := (reachable_bufCnt hwf h).log

end SxVerif.Pipe
