/-
Lemmas for C15: the potential `Ψ = last + sleepFor` of the limiter state grows by at least `perRequest`
with every `Take` after the first, whatever the clock says; `sleepFor` stays within `[maxSlack, 0]`.
-/
import SxVerif.Model.Limiter
import SxVerif.Spec.Limiter

namespace SxVerif.Proofs.Limiter
open SxVerif.Limiter

/-- well-formed configuration: `perRequest ≥ 0`, `maxSlack = -(b·perRequest)` with `b ≥ 0` -/
structure CfgOK (c : Cfg) (b : Int) : Prop where
  p_nonneg : 0 ≤ c.perRequest
  b_nonneg : 0 ≤ b
  slack : c.maxSlack = -(b * c.perRequest)

theorem CfgOK.maxSlack_nonpos {c : Cfg} {b : Int} (h : CfgOK c b) : c.maxSlack ≤ 0 := by
  have := Int.mul_nonneg h.b_nonneg h.p_nonneg
  rw [h.slack]; omega

/-- `cfg N W` for `N ≥ 1`, `W ≥ 0` is well formed with the default slack, and its `perRequest` is `W / N` -/
theorem cfg_ok (N W : Int) (hN : 1 ≤ N) (hW : 0 ≤ W) (slack : Int) (hs : 0 ≤ slack) :
    CfgOK (cfg N W slack) slack ∧ (cfg N W slack).perRequest = W / N := by
  have hdiv : Int.tdiv W N = W / N := Int.tdiv_eq_ediv_of_nonneg hW
  refine ⟨⟨?_, hs, ?_⟩, ?_⟩
  · simp only [cfg, hdiv]; exact Int.ediv_nonneg hW (by omega)
  · simp only [cfg]; rw [Int.mul_assoc, Int.neg_one_mul]
  · simp only [cfg, hdiv]

theorem new_eq_cfg (N W slack : Int) (hN : N ≠ 0) : Limiter.new N W slack = some (cfg N W slack) := by
  simp [Limiter.new, cfg, hN]

/-! ### one step -/

/-- first call: the reading is stored, `sleepFor` is untouched -/
theorem take_first (c : Cfg) (st : State) (now : Int) (h : st.last = 0) :
    takeFull c st now = (⟨now, st.sleepFor⟩, ⟨now, 0⟩) := by
  unfold takeFull; simp [h]

/-- later calls, with the clipped budget `s2` named -/
theorem take_later (c : Cfg) (st : State) (now : Int) (h : st.last ≠ 0) :
    ∃ s2 : Int,
      ((st.sleepFor + (c.perRequest - (now - st.last)) < c.maxSlack ∧ s2 = c.maxSlack) ∨
       (¬ st.sleepFor + (c.perRequest - (now - st.last)) < c.maxSlack ∧
          s2 = st.sleepFor + (c.perRequest - (now - st.last)))) ∧
      takeFull c st now =
        if s2 > 0 then (⟨now + s2, 0⟩, ⟨now + s2, s2⟩) else (⟨now, s2⟩, ⟨now, 0⟩) := by
  unfold takeFull
  simp only [h, if_false]
  by_cases h1 : st.sleepFor + (c.perRequest - (now - st.last)) < c.maxSlack
  · exact ⟨c.maxSlack, Or.inl ⟨h1, rfl⟩, by simp only [h1, if_true]⟩
  · exact ⟨_, Or.inr ⟨h1, rfl⟩, by simp only [h1, if_false]⟩

/-- the stored time is the returned time -/
theorem take_last_eq_release (c : Cfg) (st : State) (now : Int) :
    (takeFull c st now).1.last = (takeFull c st now).2.release := by
  by_cases h : st.last = 0
  · rw [take_first c st now h]
  · obtain ⟨s2, _, ht⟩ := take_later c st now h
    rw [ht]; split <;> rfl

/-- the caller is released no earlier than it asked, and sleeps exactly until its release -/
theorem take_release_eq (c : Cfg) (st : State) (now : Int) :
    (takeFull c st now).2.release = now + (takeFull c st now).2.interval ∧ 0 ≤ (takeFull c st now).2.interval := by
  by_cases h : st.last = 0
  · rw [take_first c st now h]; simp
  · obtain ⟨s2, _, ht⟩ := take_later c st now h
    rw [ht]; split
    · exact ⟨rfl, by dsimp only; omega⟩
    · simp

/-- later calls: potential grows by at least `perRequest`; `sleepFor ∈ [maxSlack, 0]`; the stored time is
    not before the reading -/
theorem take_step (c : Cfg) (b : Int) (hc : CfgOK c b) (st : State) (now : Int) (h : st.last ≠ 0) :
    st.last + st.sleepFor + c.perRequest ≤ (takeFull c st now).1.last + (takeFull c st now).1.sleepFor ∧
    c.maxSlack ≤ (takeFull c st now).1.sleepFor ∧ (takeFull c st now).1.sleepFor ≤ 0 ∧
    now ≤ (takeFull c st now).1.last := by
  have hms := hc.maxSlack_nonpos
  obtain ⟨s2, hs2, ht⟩ := take_later c st now h
  rw [ht]
  split <;> dsimp only <;> (refine ⟨?_, ?_, ?_, ?_⟩ <;> omega)

/-! ### runs over an infinite clock sequence -/

/-- all readings are after Go's zero time -/
def ClockOK (now : Nat → Int) : Prop := ∀ j, 0 < now j

theorem stateAt_succ (c : Cfg) (now : Nat → Int) (j : Nat) :
    stateAt c now (j + 1) = (takeFull c (stateAt c now j) (now j)).1 := rfl

theorem stateAt_last_eq_release (c : Cfg) (now : Nat → Int) (j : Nat) :
    (stateAt c now (j + 1)).last = release c now j := by
  rw [stateAt_succ]; exact take_last_eq_release c _ _

/-- after the first `Take` the limiter is never in its "no request yet" state again, and `sleepFor` is in
    range from the start -/
theorem stateAt_inv (c : Cfg) (b : Int) (hc : CfgOK c b) (now : Nat → Int) (hclk : ClockOK now) (j : Nat) :
    (0 < j → 0 < (stateAt c now j).last) ∧
    c.maxSlack ≤ (stateAt c now j).sleepFor ∧ (stateAt c now j).sleepFor ≤ 0 := by
  have hms := hc.maxSlack_nonpos
  induction j with
  | zero => simp [stateAt, State.init]; exact hms
  | succ j ih =>
    rw [stateAt_succ]
    by_cases h0 : (stateAt c now j).last = 0
    · rw [take_first c _ _ h0]
      exact ⟨fun _ => hclk j, ih.2.1, ih.2.2⟩
    · have hs := take_step c b hc (stateAt c now j) (now j) h0
      have := hclk j
      exact ⟨fun _ => by omega, hs.2.1, hs.2.2.1⟩

/-- potential after `Take` number `j` -/
def psi (c : Cfg) (now : Nat → Int) (j : Nat) : Int :=
  (stateAt c now (j + 1)).last + (stateAt c now (j + 1)).sleepFor

theorem psi_eq (c : Cfg) (now : Nat → Int) (j : Nat) :
    psi c now j = release c now j + sleepForAfter c now j := by
  unfold psi sleepForAfter; rw [stateAt_last_eq_release]

theorem psi_step (c : Cfg) (b : Int) (hc : CfgOK c b) (now : Nat → Int) (hclk : ClockOK now) (j : Nat) :
    psi c now j + c.perRequest ≤ psi c now (j + 1) := by
  have hinv := (stateAt_inv c b hc now hclk (j + 1)).1 (by omega)
  have hs := take_step c b hc (stateAt c now (j + 1)) (now (j + 1)) (by omega)
  unfold psi
  rw [stateAt_succ c now (j + 1)]
  exact hs.1

theorem psi_telescope (c : Cfg) (b : Int) (hc : CfgOK c b) (now : Nat → Int) (hclk : ClockOK now) (i m : Nat) :
    psi c now i + (m : Int) * c.perRequest ≤ psi c now (i + m) := by
  induction m with
  | zero => simp
  | succ m ih =>
    have hs := psi_step c b hc now hclk (i + m)
    have : ((m + 1 : Nat) : Int) * c.perRequest = (m : Int) * c.perRequest + c.perRequest := by
      rw [Int.natCast_succ, Int.add_mul, Int.one_mul]
    rw [this, ← Nat.add_assoc]
    omega

/-- **the rate bound between any two takes `i ≤ i+m`** -/
theorem release_gap (c : Cfg) (b : Int) (hc : CfgOK c b) (now : Nat → Int) (hclk : ClockOK now) (i m : Nat) :
    ((m : Int) - b) * c.perRequest ≤ release c now (i + m) - release c now i := by
  have ht := psi_telescope c b hc now hclk i m
  rw [psi_eq, psi_eq] at ht
  have h1 := stateAt_inv c b hc now hclk (i + 1)
  have h2 := stateAt_inv c b hc now hclk (i + m + 1)
  have hs1 : c.maxSlack ≤ sleepForAfter c now i := h1.2.1
  have hs2 : sleepForAfter c now (i + m) ≤ 0 := h2.2.2
  rw [hc.slack] at hs1
  rw [Int.sub_mul]
  omega

/-- the release time is never before the clock reading of its `Take`, and `Sleep` covers the difference -/
theorem release_ge_now (c : Cfg) (now : Nat → Int) (j : Nat) :
    now j ≤ release c now j ∧ release c now j = now j + (outAt c now j).interval := by
  have h := take_release_eq c (stateAt c now j) (now j)
  unfold release outAt
  constructor
  · omega
  · exact h.1

/-- potential is at least the reading minus the slack: `Ψⱼ ≥ nowⱼ - b·p` -/
theorem psi_ge_now (c : Cfg) (b : Int) (hc : CfgOK c b) (now : Nat → Int) (hclk : ClockOK now) (j : Nat) :
    now j - b * c.perRequest ≤ psi c now j := by
  rw [psi_eq]
  have h1 := (release_ge_now c now j).1
  have h2 : c.maxSlack ≤ sleepForAfter c now j := (stateAt_inv c b hc now hclk (j + 1)).2.1
  rw [hc.slack] at h2
  omega

/-- wire times within `ε` of the release times -/
theorem wire_gap (c : Cfg) (b : Int) (hc : CfgOK c b) (now : Nat → Int) (hclk : ClockOK now)
    (t : Nat → Int) (ε : Int) (hlo : ∀ j, release c now j ≤ t j) (hhi : ∀ j, t j ≤ release c now j + ε) (i m : Nat) :
    ((m : Int) - b) * c.perRequest - ε ≤ t (i + m) - t i := by
  have h := release_gap c b hc now hclk i m
  have := hlo (i + m)
  have := hhi i
  omega

/-- sequential sender: the next `Take` reads the clock after the previous probe hit the wire -/
theorem seq_gap (c : Cfg) (b : Int) (hc : CfgOK c b) (now : Nat → Int) (hclk : ClockOK now)
    (t : Nat → Int) (hlo : ∀ j, release c now j ≤ t j) (hseq : ∀ j, t j ≤ now (j + 1)) (i m : Nat) :
    ((m : Int) - 1 - b) * c.perRequest ≤ t (i + m) - t i := by
  have hp := hc.p_nonneg
  have hb := hc.b_nonneg
  cases m with
  | zero =>
    have : ((0 : Nat) : Int) - 1 - b = -(1 + b) := by omega
    rw [this, Int.neg_mul]
    have := Int.mul_nonneg (by omega : (0 : Int) ≤ 1 + b) hp
    simp only [Nat.add_zero]; omega
  | succ m =>
    -- t(i+m+1) ≥ release(i+m+1) ≥ Ψ(i+m+1) ≥ Ψ(i+1) + m·p ≥ now(i+1) - b·p + m·p ≥ t(i) + (m - b)·p
    have ht := psi_telescope c b hc now hclk (i + 1) m
    have hg := psi_ge_now c b hc now hclk (i + 1)
    have hrel : psi c now (i + 1 + m) ≤ release c now (i + 1 + m) := by
      rw [psi_eq]
      have : sleepForAfter c now (i + 1 + m) ≤ 0 := (stateAt_inv c b hc now hclk (i + 1 + m + 1)).2.2
      omega
    have h1 := hlo (i + 1 + m)
    have h2 := hseq i
    have e : i + (m + 1) = i + 1 + m := by omega
    rw [e]
    have : (((m + 1 : Nat) : Int) - 1 - b) * c.perRequest = (m : Int) * c.perRequest - b * c.perRequest := by
      rw [Int.natCast_succ, ← Int.sub_mul]; congr 1; omega
    rw [this]
    omega

/-! ### finite runs (what the driver executes) -/

/-- clock sequence of a finite run, continued by a harmless reading -/
def nowFn (nows : List Int) (j : Nat) : Int := if h : j < nows.length then nows[j] else 1

theorem run_length (c : Cfg) (st : State) (nows : List Int) : (run c st nows).length = nows.length := by
  induction nows generalizing st with
  | nil => rfl
  | cons n rest ih => simp [run, ih]

/-- the list run from the state reached after `k` takes is the function run shifted by `k` -/
theorem run_getD_aux (c : Cfg) (now : Nat → Int) (nows : List Int) (k : Nat)
    (hn : ∀ j, j < nows.length → nows[j]? = some (now (k + j))) (j : Nat) (hj : j < nows.length) :
    (run c (stateAt c now k) nows)[j]? = some (outAt c now (k + j)) := by
  induction nows generalizing k j with
  | nil => simp at hj
  | cons n rest ih =>
    have h0 : n = now k := by
      have := hn 0 (by simp); simpa using this
    cases j with
    | zero => simp [run, outAt, h0]
    | succ j =>
      have hrest : ∀ j, j < rest.length → rest[j]? = some (now (k + 1 + j)) := by
        intro j hj'
        have := hn (j + 1) (by simp; omega)
        simp only [List.getElem?_cons_succ] at this
        rw [this]; congr 2; omega
      have := ih (k + 1) hrest j (by simpa using hj)
      simp only [run, List.getElem?_cons_succ]
      rw [h0, ← stateAt_succ, this]; congr 2; omega

theorem run_getElem? (c : Cfg) (nows : List Int) (j : Nat) (hj : j < nows.length) :
    (run c State.init nows)[j]? = some (outAt c (nowFn nows) j) := by
  have := run_getD_aux c (nowFn nows) nows 0 (by
    intro j hj; simp [nowFn, hj]) j hj
  simpa [stateAt] using this

theorem clockOK_nowFn (nows : List Int) (h : Spec.Limiter.clockOK nows = true) : ClockOK (nowFn nows) := by
  intro j
  unfold nowFn
  split
  · rename_i hj
    simp only [Spec.Limiter.clockOK, List.all_eq_true, decide_eq_true_eq] at h
    exact h _ (List.getElem_mem hj)
  · omega

/-! ### the executable Spec verdict is true of every model run -/

open Spec.Limiter in
theorem nth_release (c : Cfg) (nows : List Int) (j : Nat) (hj : j < nows.length) :
    nth ((run c State.init nows).map (·.release)) j = release c (nowFn nows) j := by
  unfold nth
  rw [List.getD_eq_getElem?_getD, List.getElem?_map, run_getElem? c nows j hj]
  rfl

open Spec.Limiter in
theorem nth_interval (c : Cfg) (nows : List Int) (j : Nat) (hj : j < nows.length) :
    nth ((run c State.init nows).map (·.interval)) j = (outAt c (nowFn nows) j).interval := by
  unfold nth
  rw [List.getD_eq_getElem?_getD, List.getElem?_map, run_getElem? c nows j hj]
  rfl

open Spec.Limiter in
theorem nth_now (nows : List Int) (j : Nat) (hj : j < nows.length) : nth nows j = nowFn nows j := by
  unfold nth nowFn
  rw [List.getD_eq_getElem?_getD]
  simp [hj]

open Spec.Limiter in
theorem run_rateOK (c : Cfg) (b : Int) (hc : CfgOK c b) (nows : List Int) (hclk : clockOK nows = true) :
    rateOK c.perRequest b ((run c State.init nows).map (·.release)) = true := by
  have hC := clockOK_nowFn nows hclk
  simp only [rateOK, List.all_eq_true, List.mem_range, List.length_map, run_length]
  intro i hi k hk
  simp only [windowOK, decide_eq_true_eq]
  have e : i + (k + 1) - 1 = i + k := by omega
  rw [e, nth_release c nows (i + k) (by omega), nth_release c nows i hi]
  have := release_gap c b hc (nowFn nows) hC i k
  have e2 : (((k + 1 : Nat) : Int) - 1 - b) = (k : Int) - b := by omega
  rw [e2]
  exact this

open Spec.Limiter in
theorem run_heldOK (c : Cfg) (nows : List Int) :
    heldOK nows ((run c State.init nows).map (·.release)) ((run c State.init nows).map (·.interval)) = true := by
  simp only [heldOK, List.length_map, run_length, beq_self_eq_true, Bool.true_and, List.all_eq_true, List.mem_range,
    Bool.and_eq_true, decide_eq_true_eq]
  intro j hj
  rw [nth_release c nows j hj, nth_interval c nows j hj, nth_now nows j hj]
  have h := release_ge_now c (nowFn nows) j
  have h2 := take_release_eq c (stateAt c (nowFn nows) j) (nowFn nows j)
  refine ⟨⟨h.1, ?_⟩, ?_⟩
  · rw [h.2]; exact Int.le_refl _
  · exact h2.2

/-! ### wrappers -/

open Spec.Limiter in
def opKind : Op → Kind
  | .send => .send
  | .recv => .recv

open Spec.Limiter in
def evCall : Ev → Call
  | .take => .take
  | .delegate => .delegate

/-- the model's run in the Spec's vocabulary -/
def specTrace (ops : List Op) : List (Spec.Limiter.Kind × List Spec.Limiter.Call) :=
  (wrapperRun ops).map (fun x => (opKind x.1, x.2.map evCall))

def sends (ops : List Op) : Nat := (ops.filter (· == .send)).length

open Spec.Limiter in
theorem wrapper_chargedOnce (ops : List Op) : chargedOnce (specTrace ops) = true := by
  simp only [chargedOnce, specTrace, wrapperRun, List.map_map, List.all_map, List.all_eq_true]
  intro o _
  cases o <;> rfl

open Spec.Limiter in
theorem wrapper_takesBefore (ops : List Op) (n : Nat) :
    takesBefore (flatten (specTrace ops)) n = List.range' (n + 1) (sends ops) ∧
    countTakes (flatten (specTrace ops)) = sends ops := by
  induction ops generalizing n with
  | nil => simp [specTrace, wrapperRun, flatten, takesBefore, sends, countTakes]
  | cons o rest ih =>
    have hcons : flatten (specTrace (o :: rest)) =
        ((wrapperOp o).map (fun e => (opKind o, evCall e))) ++ flatten (specTrace rest) := by
      simp [specTrace, wrapperRun, flatten, List.flatMap_cons, List.map_map, Function.comp_def]
    rw [hcons]
    cases o with
    | send =>
      have h1 := (ih (n + 1)).1
      have h2 := (ih n).2
      constructor
      · simp only [wrapperOp, List.map_cons, List.map_nil, opKind, evCall, List.cons_append, List.nil_append,
          takesBefore, h1]
        simp [sends, List.range'_succ]
      · simp only [countTakes] at h2 ⊢
        simp [wrapperOp, opKind, evCall, sends, h2]
    | recv =>
      have h1 := (ih n).1
      have h2 := (ih n).2
      constructor
      · simp only [wrapperOp, List.map_cons, List.map_nil, opKind, evCall, List.cons_append, List.nil_append,
          takesBefore, h1]
        simp [sends]
      · simp only [countTakes] at h2 ⊢
        simp [wrapperOp, opKind, evCall, sends, h2]

open Spec.Limiter in
theorem wrapper_bijective (ops : List Op) : bijective (specTrace ops) = true := by
  have h := wrapper_takesBefore ops 0
  simp only [bijective, h.1, h.2, List.length_range', beq_self_eq_true, Bool.and_true]

end SxVerif.Proofs.Limiter
