/-
Accounting invariants on paths without Ctrl-C (`cmdCtx = false`): exactly-once hand-off of requests,
Scan calls, Puts, error sends, FIFO image of the result path.
-/
import SxVerif.Proofs.EngineTime

namespace SxVerif.Engine

/-- what a worker holds, by kind -/
def hGot : WPc → List Req
  | .got r => [r]
  | _ => []
def hPut : WPc → List Nat
  | .put r => [r.id]
  | _ => []
def hErr : WPc → List Nat
  | .sendErr r => [r.id]
  | _ => []

def holdGot (ws : List WPc) : List Req := ws.flatMap hGot
def holdPut (ws : List WPc) : List Nat := ws.flatMap hPut
def holdErr (ws : List WPc) : List Nat := ws.flatMap hErr
def anyExited (ws : List WPc) : Bool := ws.any WPc.isExited

@[simp] theorem holdGot_nil : holdGot [] = [] := rfl
@[simp] theorem holdPut_nil : holdPut [] = [] := rfl
@[simp] theorem holdErr_nil : holdErr [] = [] := rfl
@[simp] theorem holdGot_append (a b : List WPc) : holdGot (a ++ b) = holdGot a ++ holdGot b := by simp [holdGot]
@[simp] theorem holdPut_append (a b : List WPc) : holdPut (a ++ b) = holdPut a ++ holdPut b := by simp [holdPut]
@[simp] theorem holdErr_append (a b : List WPc) : holdErr (a ++ b) = holdErr a ++ holdErr b := by simp [holdErr]
@[simp] theorem holdGot_cons (w : WPc) (b : List WPc) : holdGot (w :: b) = hGot w ++ holdGot b := by simp [holdGot]
@[simp] theorem holdPut_cons (w : WPc) (b : List WPc) : holdPut (w :: b) = hPut w ++ holdPut b := by simp [holdPut]
@[simp] theorem holdErr_cons (w : WPc) (b : List WPc) : holdErr (w :: b) = hErr w ++ holdErr b := by simp [holdErr]
@[simp] theorem anyExited_nil : anyExited [] = false := rfl
@[simp] theorem anyExited_append (a b : List WPc) : anyExited (a ++ b) = (anyExited a || anyExited b) := by simp [anyExited]
@[simp] theorem anyExited_cons (w : WPc) (b : List WPc) : anyExited (w :: b) = (w.isExited || anyExited b) := by simp [anyExited]

@[simp] theorem hGot_idle : hGot .idle = [] := rfl
@[simp] theorem hGot_got (r : Req) : hGot (.got r) = [r] := rfl
@[simp] theorem hGot_sendErr (r : Req) : hGot (.sendErr r) = [] := rfl
@[simp] theorem hGot_put (r : Req) : hGot (.put r) = [] := rfl
@[simp] theorem hGot_exited : hGot .exited = [] := rfl
@[simp] theorem hPut_idle : hPut .idle = [] := rfl
@[simp] theorem hPut_got (r : Req) : hPut (.got r) = [] := rfl
@[simp] theorem hPut_sendErr (r : Req) : hPut (.sendErr r) = [] := rfl
@[simp] theorem hPut_put (r : Req) : hPut (.put r) = [r.id] := rfl
@[simp] theorem hPut_exited : hPut .exited = [] := rfl
@[simp] theorem hErr_idle : hErr .idle = [] := rfl
@[simp] theorem hErr_got (r : Req) : hErr (.got r) = [] := rfl
@[simp] theorem hErr_sendErr (r : Req) : hErr (.sendErr r) = [r.id] := rfl
@[simp] theorem hErr_put (r : Req) : hErr (.put r) = [] := rfl
@[simp] theorem hErr_exited : hErr .exited = [] := rfl

theorem allExited_anyExited {ws : List WPc} (h : allExited ws = true) (hl : 0 < ws.length) : anyExited ws = true := by
  cases ws with
  | nil => simp at hl
  | cons w ws => simp_all

theorem allExited_hold {ws : List WPc} (h : allExited ws = true) :
    holdGot ws = [] ∧ holdPut ws = [] ∧ holdErr ws = [] := by
  induction ws with
  | nil => simp
  | cons w ws ih =>
    cases w <;> simp_all

/-- positives / failures among a list of requests -/
def isPos (r : Req) : Bool := r.out == .result
def isFail (r : Req) : Bool := r.out == .error
def isOk (r : Req) : Bool := !r.isErr

structure Inv2 (reqs : List Req) (s : Sys) : Prop where
  handoff : s.recvd ++ s.pending = reqs
  exitedClosed : anyExited s.workers = true → s.pending = [] ∧ s.reqClosed = true
  scans : ∀ x, List.count x s.scans + List.count x (holdGot s.workers) = List.count x (s.recvd.filter isOk)
  puts : ∀ v, List.count v s.puts + List.count v (holdPut s.workers)
      = List.count v ((s.scans.filter isPos).map (·.id)) + List.count v s.extPuts
  errs : ∀ v, List.count v s.errSent + List.count v (holdErr s.workers)
      = List.count v ((s.recvd.filter (·.isErr)).map (·.id)) + List.count v ((s.scans.filter isFail).map (·.id))
  fifo : s.printed ++ logHand s.log ++ s.results ++ copHand s.cop ++ s.intRes = s.puts
  ext : s.extReads = s.extPuts ++ extHand s.extPc

theorem inv2_init (reqs : List Req) (ext : List (Nat × Nat)) : Inv2 reqs (init reqs ext) := by
  constructor <;> simp [init, logHand, copHand, extHand]

/-- without Ctrl-C the derived ctx is cancelled only after `done`: all W workers have returned -/
theorem nc_der {c : Cfg} {s : Sys} (h0 : Inv0 c s) (h1 : Inv1 c s) (hnc : s.cmdCtx = false)
    (hd : s.derCtx = true) : allExited s.workers = true ∧ s.workers.length = c.W := by
  have hc : s.cancelAt.isSome = true := by
    rcases h1.derProv hd with h | h
    · simp [hnc] at h
    · exact h
  have hdone : s.doneClosed = true := by
    have := (h1.cancelAt hc).1
    rw [h1.doneAtIff] at this
    exact this
  have hsup := h0.doneClosed.mp hdone
  have := h0.supDone (by simp [hsup])
  exact ⟨this.2, this.1⟩

end SxVerif.Engine
