/-
Lemmas for C11: dotted-quad and MAC rendering parse back (structural on the digit rendering, all values),
the ARP line loads as its own entry, last line wins, unknown fields are skipped, the request stage's choice.
-/
import SxVerif.Model.ArpCache
import SxVerif.Proofs.JsonRes

namespace SxVerif.Proofs.ArpCache
open SxVerif.Json SxVerif.Gen SxVerif.ArpCache SxVerif.Spec.Json SxVerif.Proofs.Json

theorem ndF1 (f n : Nat) (h : n < f) (h1 : n < 10) : natDigitsF f n = [digitChar n] := by
  obtain ⟨g, rfl⟩ : ∃ g, f = g + 1 := ⟨f - 1, by omega⟩
  simp [natDigitsF, h1]

theorem ndF2 (f n : Nat) (h : n < f) (h1 : 10 ≤ n) (h2 : n < 100) :
    natDigitsF f n = [digitChar (n / 10), digitChar (n % 10)] := by
  obtain ⟨g, rfl⟩ : ∃ g, f = g + 1 := ⟨f - 1, by omega⟩
  have : ¬ n < 10 := by omega
  simp only [natDigitsF, this, if_false]
  rw [ndF1 g (n / 10) (by omega) (by omega)]; rfl

theorem ndF3 (f n : Nat) (h : n < f) (h1 : 100 ≤ n) (h2 : n < 1000) :
    natDigitsF f n = [digitChar (n / 100), digitChar (n / 10 % 10), digitChar (n % 10)] := by
  obtain ⟨g, rfl⟩ : ∃ g, f = g + 1 := ⟨f - 1, by omega⟩
  have : ¬ n < 10 := by omega
  simp only [natDigitsF, this, if_false]
  rw [ndF2 g (n / 10) (by omega) (by omega) (by omega)]
  have : n / 10 / 10 = n / 100 := by omega
  rw [this]; rfl

/-- the one, two or three digits of a byte value -/
theorem natDigits_small (n : Nat) (h : n < 256) :
    (n < 10 ∧ natDigits n = [digitChar n]) ∨
    (10 ≤ n ∧ n < 100 ∧ natDigits n = [digitChar (n / 10), digitChar (n % 10)]) ∨
    (100 ≤ n ∧ natDigits n = [digitChar (n / 100), digitChar (n / 10 % 10), digitChar (n % 10)]) := by
  by_cases h1 : n < 10
  · left; exact ⟨h1, ndF1 _ _ (by omega) h1⟩
  · by_cases h2 : n < 100
    · right; left; exact ⟨by omega, h2, ndF2 _ _ (by omega) (by omega) h2⟩
    · right; right; exact ⟨by omega, ndF3 _ _ (by omega) (by omega) (by omega)⟩

/-- reading one rendered byte value: the field is finished with exactly that value -/
theorem parse_field (n : Nat) (h : n < 256) (fs : List Nat) :
    parseV4Aux fs 0 0 (natDigits n) = some (fs ++ [n]) ∧
    ∀ t, fs.length ≠ 3 → parseV4Aux fs 0 0 (natDigits n ++ '.' :: t) = parseV4Aux (fs ++ [n]) 0 0 t := by
  have hdot : isDigit '.' = false := by decide
  have g1 : ¬ 255 < n := by omega
  have g2 : ¬ 255 < n / 10 := by omega
  have g3 : ¬ 255 < n / 100 := by omega
  rcases natDigits_small n h with ⟨h1, hd⟩ | ⟨h1, h2, hd⟩ | ⟨h1, hd⟩
  · obtain ⟨d1, d2, _, _⟩ := digitChar_cases n h1
    rw [hd]
    constructor
    · simp [parseV4Aux, d1, d2, g1]
    · intro t hf; simp [parseV4Aux, d1, d2, hdot, hf, g1]
  · obtain ⟨d1, d2, _, _⟩ := digitChar_cases (n / 10) (by omega)
    obtain ⟨e1, e2, _, _⟩ := digitChar_cases (n % 10) (by omega)
    have hv : n / 10 * 10 + n % 10 = n := by omega
    have hnz : ¬ (n / 10 = 0) := by omega
    rw [hd]
    constructor
    · simp [parseV4Aux, d1, d2, e1, e2, hv, hnz, g1, g2]
    · intro t hf; simp [parseV4Aux, d1, d2, e1, e2, hv, hnz, hdot, hf, g1, g2]
  · obtain ⟨d1, d2, _, _⟩ := digitChar_cases (n / 100) (by omega)
    obtain ⟨e1, e2, _, _⟩ := digitChar_cases (n / 10 % 10) (by omega)
    obtain ⟨f1, f2, _, _⟩ := digitChar_cases (n % 10) (by omega)
    have hv1 : n / 100 * 10 + n / 10 % 10 = n / 10 := by omega
    have hv : n / 10 * 10 + n % 10 = n := by omega
    have hnz : ¬ (n / 100 = 0) := by omega
    rw [hd]
    constructor
    · simp [parseV4Aux, d1, d2, e1, e2, f1, f2, hv1, hv, hnz, g1, g2, g3]
    · intro t hf; simp [parseV4Aux, d1, d2, e1, e2, f1, f2, hv1, hv, hnz, hdot, hf, g1, g2, g3]

theorem parseV4_fmtIP (a b c d : UInt8) : parseV4 (fmtIP a b c d) = some (ipNat a b c d) := by
  have ha := (parse_field a.toNat a.toNat_lt []).2
  have hb := (parse_field b.toNat b.toNat_lt [a.toNat]).2
  have hc := (parse_field c.toNat c.toNat_lt [a.toNat, b.toNat]).2
  have hd := (parse_field d.toNat d.toNat_lt [a.toNat, b.toNat, c.toNat]).1
  simp only [parseV4, fmtIP]
  rw [ha _ (by simp), List.nil_append, hb _ (by simp), List.cons_append, List.nil_append, hc _ (by simp)]
  simp only [List.cons_append, List.nil_append] at hd ⊢
  rw [hd]
  simp [ipNat]

theorem natDigits_head_ne_colon (n : Nat) (t : List Char) :
    dropPrefix [':', ':', 'f', 'f', 'f', 'f', ':'] (natDigits n ++ t) = none := by
  obtain ⟨hall, _, c, r, hct, _, _⟩ := natDigits_spec n
  rw [hct] at hall ⊢
  simp only [List.all_cons, Bool.and_eq_true] at hall
  have : c ≠ ':' := by intro h; subst h; exact absurd hall.1 (by decide)
  simp [dropPrefix, List.isPrefixOf, this, Ne.symm this]

/-- **address round trip**, all 2^32 values -/
theorem parseIP_fmtIP (a b c d : UInt8) : parseIP (fmtIP a b c d) = some (ipNat a b c d) := by
  have h := natDigits_head_ne_colon a.toNat ('.' :: (natDigits b.toNat ++ '.' :: (natDigits c.toNat ++ '.' :: natDigits d.toNat)))
  simp only [parseIP]
  rw [show fmtIP a b c d = natDigits a.toNat ++ ('.' :: (natDigits b.toNat ++ '.' :: (natDigits c.toNat ++ '.' :: natDigits d.toNat))) from rfl, h]
  exact parseV4_fmtIP a b c d

theorem hexByte_hex2 (b : UInt8) :
    hexByte (hexChar (b.toNat / 16)) (hexChar (b.toNat % 16)) = some b := by
  have hb := b.toNat_lt
  simp only [hexByte, hexVal_hexChar _ (show b.toNat / 16 < 16 by omega), hexVal_hexChar _ (show b.toNat % 16 < 16 by omega)]
  congr 1
  apply UInt8.toNat_inj.mp
  simp; omega

/-- **MAC round trip**, all 2^48 values -/
theorem parseMAC_fmtMAC (b0 b1 b2 b3 b4 b5 : UInt8) :
    parseMAC (fmtMAC b0 b1 b2 b3 b4 b5) = some [b0, b1, b2, b3, b4, b5] := by
  simp [parseMAC, fmtMAC, hex2, macPairs, hexByte_hex2, macLenOk]

theorem decodeFields_arp (ip mac vendor : List Char) :
    decodeFields {} [(k "ip", .str ip), (k "mac", .str mac), (k "vendor", .str vendor)] = some ⟨ip, mac⟩ := by
  have h1 : k "ip" = ['i', 'p'] := by decide
  have h2 : k "mac" = ['m', 'a', 'c'] := by decide
  have h3 : k "vendor" = ['v', 'e', 'n', 'd', 'o', 'r'] := by decide
  simp [decodeFields, h1, h2, h3]

/-- **the printed line loads as exactly its own entry**, whatever the vendor string -/
theorem lineEntry_arpLine (a b c d m0 m1 m2 m3 m4 m5 : UInt8) (vendor : GoStr) :
    lineEntry (arpLine a b c d m0 m1 m2 m3 m4 m5 vendor)
      = some (.v4 (ipNat a b c d) false, macNat [m0, m1, m2, m3, m4, m5]) := by
  have h := (arp_ok ⟨ofChars (fmtIP a b c d), ofChars (fmtMAC m0 m1 m2 m3 m4 m5), vendor⟩).1
  simp only [fieldsOf, sanitize_ofChars] at h
  simp only [lineEntry, decodeLine, arpLine, h, decodeFields_arp, parseIP_fmtIP, parseMAC_fmtMAC]

theorem fillCache_append (l1 l2 : List (List Char)) :
    fillCache (l1 ++ l2) = (fillCache l1).bind (fun c1 => (fillCache l2).map (c1 ++ ·)) := by
  induction l1 with
  | nil => simp [fillCache]
  | cons l t ih =>
    simp only [List.cons_append, fillCache]
    cases lineEntry l with
    | none => simp
    | some kv => rw [ih]; cases fillCache t <;> cases fillCache l2 <;> simp

/-- last entry for an address wins -/
theorem cacheGet_last (c1 c2 : Cache) (a : Nat) (w w' : Bool) (m : Nat)
    (h2 : ∀ kv ∈ c2, kv.1.same (.v4 a w') = false) :
    cacheGet (c1 ++ (.v4 a w, m) :: c2) (.v4 a w') = some m := by
  have : (c2.reverse.find? (fun x => x.1.same (.v4 a w'))) = none := by
    rw [List.find?_eq_none]; intro x hx; simp [h2 x (List.mem_reverse.mp hx)]
  have hrev : (c1 ++ (Addr.v4 a w, m) :: c2).reverse = c2.reverse ++ ((Addr.v4 a w, m) :: c1.reverse) := by simp
  have hs : Addr.same (Addr.v4 a w) (Addr.v4 a w') = true := by simp [Addr.same]
  unfold cacheGet
  rw [hrev, List.find?_append, this]
  simp only [Option.none_or, List.find?_cons, hs]
  rfl

/-- a member with an unknown key, whatever its value, changes nothing -/
theorem decodeFields_skip (e : Entry) (key : List Char) (v : JVal) (t : List (List Char × JVal))
    (h1 : key ≠ ['i', 'p']) (h2 : key ≠ ['m', 'a', 'c']) (h3 : key ≠ ['v', 'e', 'n', 'd', 'o', 'r']) :
    decodeFields e ((key, v) :: t) = decodeFields e t := by
  cases v <;> simp [decodeFields, h1, h2, h3]

/-- the stage's choice, request by request -/
theorem cacheStage_choice (cache : Cache) (gw : Option Nat) (rs : List Req) :
    cacheStage cache gw rs = rs.map (fun r =>
      match r.err, r.dst with
      | some _, _ => r
      | none, none => { r with err := some .noMAC }
      | none, some a =>
        match cacheGet cache a, gw with
        | some m, _ => { r with dstMAC := some m }
        | none, some g => { r with dstMAC := some g }
        | none, none => { r with err := some .noMAC }) := by
  simp only [cacheStage]
  apply List.map_congr_left
  intro r _
  cases r.err <;> cases r.dst <;> simp
  rename_i a
  cases cacheGet cache a <;> cases gw <;> simp

/-- whatever MAC a probe leaves with is the entry of an address equal to its own destination, or the gateway's -/
theorem cacheStage_never_foreign (cache : Cache) (gw : Option Nat) (r : Req) (a : Addr) (m : Nat)
    (he : r.err = none) (hd : r.dst = some a) (hm : r.dstMAC = none) :
    ∀ q ∈ cacheStage cache gw [r], q.dstMAC = some m →
      (∃ kv ∈ cache, kv.1.same a = true ∧ kv.2 = m) ∨ (cacheGet cache a = none ∧ gw = some m) := by
  intro q hq hqm
  simp only [cacheStage, List.map_cons, List.map_nil, List.mem_singleton, he, hd] at hq
  cases hc : cacheGet cache a with
  | some m' =>
    simp only [hc] at hq; subst hq
    simp only [Option.some.injEq] at hqm; subst hqm
    left
    simp only [cacheGet, Option.map_eq_some_iff] at hc
    obtain ⟨kv, hfind, hkv⟩ := hc
    have hmem := List.mem_of_find?_eq_some hfind
    have hp := List.find?_some hfind
    exact ⟨kv, List.mem_reverse.mp hmem, hp, hkv⟩
  | none =>
    simp only [hc] at hq
    cases gw with
    | some g =>
      simp only at hq; subst hq
      simp only [Option.some.injEq] at hqm; subst hqm
      right; exact ⟨rfl, rfl⟩
    | none =>
      simp only at hq; subst hq
      simp [hm] at hqm

end SxVerif.Proofs.ArpCache
