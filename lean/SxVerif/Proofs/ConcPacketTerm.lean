/-
Termination of the packet pipeline: a potential `pot` that EVERY step other than `cancel` strictly decreases (and
`cancel` leaves unchanged).  No invariant is needed: the inequality holds in every state, reachable or not.
Hence every execution — any schedule, cancelled anywhere or never — takes at most `pot (init inp)` steps that are
not `cancel`, a number linear in the number of requests and receiver errors.
-/
import SxVerif.Model.Pipe

namespace SxVerif.Pipe

def callW : Call → Nat
  | .write => 5
  | .free => 2

def callsW (cs : List Call) : Nat := (cs.map callW).sum

def sndW : SState → Nat
  | .idle => 3
  | .work _ _ todo => 3 + callsW todo
  | .report _ k => 4 + sndW k
  | .exit1 => 2
  | .exit2 => 1
  | .finished => 0

/-- weight of a packet waiting in `merged` (`sc` = weight of the sender's calls on a good packet) -/
def pktW (sc : Nat) : Pkt → Nat
  | .err _ => 5
  | .buf _ _ => 1 + sc

def pktMax (sc : Nat) : Nat := 6 + sc

theorem pktW_le (sc : Nat) (p : Pkt) : pktW sc p ≤ pktMax sc := by
  cases p <;> simp [pktW, pktMax] <;> omega

def mW (sc : Nat) : MState → Nat
  | .idle => 2
  | .holding p => 3 + pktW sc p
  | .exiting => 1
  | .finished => 0

def emW : MState → Nat
  | .idle => 2
  | .holding _ => 4
  | .exiting => 1
  | .finished => 0

def cW : CState → Nat
  | .waiting => 2
  | .closing => 1
  | .finished => 0

def wW (sc : Nat) : WState → Nat
  | .idle => 2
  | .got _ => 7 + pktMax sc
  | .have _ _ => 6 + pktMax sc
  | .sending p => 5 + pktW sc p
  | .closing => 1
  | .finished => 0

def reqW (sc : Nat) : Nat := 8 + pktMax sc
def todoW (sc : Nat) : Nat := 9 + pktMax sc

def mergedW (sc : Nat) (c : Chan Pkt) : Nat := (c.buf.map (pktW sc)).sum
def outW (sc : Nat) (c : Chan Pkt) : Nat := (c.buf.map (fun p => 2 + pktW sc p)).sum
def openW {α} (c : Chan α) : Nat := if c.closed then 0 else 1

def laneW (sc : Nat) (l : Lane) : Nat := wW sc l.w + outW sc l.out + mW sc l.m

def pot (cfg : Cfg) (s : Sys) : Nat :=
  let sc := callsW cfg.senderCalls
  todoW sc * s.todo.length + reqW sc * s.inp.buf.length + openW s.inp + (s.lanes.map (laneW sc)).sum +
  mergedW sc s.merged + cW s.closer + sndW s.snd + 3 * s.errc1.buf.length + 3 * s.errc2.buf.length + openW s.errc2 +
  emW s.em1 + emW s.em2 + s.merr.buf.length + cW s.ecloser + 4 * s.rcvTodo.length + s.pool.length

theorem sum_set_lane (f : Lane → Nat) : ∀ (ls : List Lane) (i : Nat) (ln ln' : Lane), ls[i]? = some ln →
    ((ls.set i ln').map f).sum + f ln = (ls.map f).sum + f ln'
  | [], i, _, _, h => by simp at h
  | l :: ls, 0, ln, ln', h => by
    simp at h; subst h
    simp only [List.set_cons_zero, List.map_cons, List.sum_cons]; omega
  | l :: ls, i + 1, ln, ln', h => by
    simp at h
    have := sum_set_lane f ls i ln ln' h
    simp only [List.set_cons_succ, List.map_cons, List.sum_cons]; omega

theorem sndW_afterCalls (b : Nat) (r : Req) (rest : List Call) : sndW (afterCalls b r rest) = 3 + callsW rest := by
  cases rest <;> simp [afterCalls, sndW, callsW]

theorem sendOn_len {α} {cap : Option Nat} {c c' : Chan α} {v : α} {pn : Bool} (h : sendOn cap c v = some (c', pn)) :
    c'.closed = c.closed ∧ (c'.buf = c.buf ∨ c'.buf = c.buf ++ [v]) := by
  unfold sendOn at h
  split at h
  · simp at h; obtain ⟨rfl, _⟩ := h; simp
  · split at h
    · simp at h; obtain ⟨rfl, _⟩ := h; simp
    · split at h
      · simp at h; obtain ⟨rfl, _⟩ := h; simp
      · simp at h

theorem worker_decreases {cfg : Cfg} {ctx : Bool} {w : WState} {out : Chan Pkt} {inp : Chan Req} {pool : List Nat}
    {nid : Nat} {mem : Nat → Bytes} {e : WEv} {r : WRes} (sc : Nat)
    (h : workerStep cfg ctx w out inp pool nid mem e = some r) :
    r.inp.closed = inp.closed ∧
    wW sc r.w + outW sc r.out + reqW sc * r.inp.buf.length + r.pool.length <
      wW sc w + outW sc out + reqW sc * inp.buf.length + pool.length := by
  cases e <;> simp only [workerStep] at h
  case recv =>
    split at h <;> try (simp at h; done)
    split at h
    · rename_i r0 rest hb
      simp at h; subst h
      refine ⟨rfl, ?_⟩
      simp only [hb, List.length_cons, Nat.mul_succ]
      have : reqW sc = 8 + pktMax sc := rfl
      have : 6 ≤ pktMax sc := by simp [pktMax]
      split <;> simp only [wW, pktW] <;> omega
    · split at h
      · simp at h; subst h; simp [wW]
      · simp at h
  case get b =>
    split at h <;> try (simp at h; done)
    split at h
    · rename_i hb
      simp at h; subst h
      refine ⟨rfl, ?_⟩
      have := List.length_erase_of_mem hb
      have : 0 < pool.length := List.length_pos_of_mem hb
      simp [wW]; omega
    · split at h
      · simp at h; subst h; simp [wW]
      · simp at h
  case fill =>
    split at h <;> try (simp at h; done)
    split at h <;> (simp at h; subst h; refine ⟨rfl, ?_⟩; simp [wW, pktW, pktMax]; try omega)
  case send =>
    split at h <;> try (simp at h; done)
    rename_i p
    split at h
    · rename_i out' pn hs
      simp at h; subst h
      refine ⟨rfl, ?_⟩
      rcases (sendOn_len hs).2 with hb | hb <;> simp [wW, outW, hb] <;> omega
    · simp at h
  case drop =>
    split at h <;> try (simp at h; done)
    split at h
    · simp at h; subst h; simp [wW]; omega
    · simp at h
  case ctx =>
    split at h <;> try (simp at h; done)
    split at h
    · simp at h; subst h; simp [wW]
    · simp at h
  case close =>
    split at h <;> try (simp at h; done)
    simp [closeCh] at h; subst h; simp [wW, outW]

/-- lane multiplexer (returns on a dropped send) -/
theorem mux_decreases {g1 g2 : Bool} {cap : Nat} {ctx : Bool} {m : MState} {src dst : Chan Pkt} {e : MEv} {r : MRes}
    (sc : Nat) (h : muxStep g1 g2 true cap ctx m src dst e = some r) :
    mW sc r.m + outW sc r.src + mergedW sc r.dst < mW sc m + outW sc src + mergedW sc dst := by
  cases e <;> simp only [muxStep] at h
  case recv =>
    split at h <;> try (simp at h; done)
    split at h
    · rename_i p rest hb
      simp at h; subst h
      simp [mW, outW, hb]; omega
    · split at h
      · simp at h; subst h; simp [mW]
      · simp at h
  case send =>
    split at h <;> try (simp at h; done)
    split at h
    · rename_i dst' pn hs
      simp at h; subst h
      rcases (sendOn_len hs).2 with hb | hb <;> simp [mW, mergedW, hb] <;> omega
    · simp at h
  case drop =>
    split at h <;> try (simp at h; done)
    split at h
    · simp at h; subst h; simp [mW]; omega
    · simp at h
  case ctx =>
    split at h <;> try (simp at h; done)
    split at h
    · simp at h; subst h; simp [mW]
    · simp at h
  case done =>
    split at h <;> try (simp at h; done)
    simp at h; subst h; simp [mW]

/-- error multiplexer (goes back to its loop head on a dropped send) -/
theorem emux_decreases {g1 g2 : Bool} {cap : Nat} {ctx : Bool} {m : MState} {src dst : Chan Pkt} {e : MEv} {r : MRes}
    (h : muxStep g1 g2 false cap ctx m src dst e = some r) :
    r.src.closed = src.closed ∧
    emW r.m + 3 * r.src.buf.length + r.dst.buf.length < emW m + 3 * src.buf.length + dst.buf.length := by
  cases e <;> simp only [muxStep] at h
  case recv =>
    split at h <;> try (simp at h; done)
    split at h
    · rename_i p rest hb
      simp at h; subst h
      simp [emW, hb]; omega
    · split at h
      · simp at h; subst h; simp [emW]
      · simp at h
  case send =>
    split at h <;> try (simp at h; done)
    split at h
    · rename_i dst' pn hs
      simp at h; subst h
      rcases (sendOn_len hs).2 with hb | hb <;> simp [emW, hb] <;> omega
    · simp at h
  case drop =>
    split at h <;> try (simp at h; done)
    split at h
    · simp at h; subst h; simp [emW]
    · simp at h
  case ctx =>
    split at h <;> try (simp at h; done)
    split at h
    · simp at h; subst h; simp [emW]
    · simp at h
  case done =>
    split at h <;> try (simp at h; done)
    simp at h; subst h; simp [emW]

theorem closer_decreases {waits : Bool} {wg : Nat} {c c' : CState} {out out' : Chan Pkt} {e : CEv} {pn : Bool}
    (h : closerStep waits wg c out e = some (c', out', pn)) : cW c' < cW c ∧ out'.buf = out.buf := by
  cases e <;> simp only [closerStep] at h
  · split at h <;> try (simp at h; done)
    split at h
    · simp at h; obtain ⟨rfl, rfl, _⟩ := h; simp [cW]
    · simp at h
  · split at h <;> try (simp at h; done)
    simp [closeCh] at h; obtain ⟨rfl, rfl, _⟩ := h; simp [cW]

theorem senderClose_pot (cfg : Cfg) (which : SCh) (s : Sys) (k : SState) :
    pot cfg { senderClose which s with snd := k } = pot cfg { s with snd := k } := by
  cases which <;> rfl

theorem sender_decreases {cfg : Cfg} {inp : Input} {s s' : Sys} {e : SEv} (h : senderStep cfg inp s e = some s') :
    pot cfg s' < pot cfg s := by
  cases e <;> simp only [senderStep] at h
  case recv =>
    split at h <;> try (simp at h; done)
    rename_i hs
    split at h
    · rename_i e rest hb
      simp at h; subst h
      simp [pot, hs, hb, mergedW, sndW, pktW] <;> omega
    · rename_i b r rest hb
      simp at h; subst h
      simp [pot, hs, hb, mergedW, sndW_afterCalls, sndW, pktW] <;> omega
    · split at h
      · simp at h; subst h; simp [pot, hs, sndW]
      · simp at h
  case call =>
    split at h <;> try (simp at h; done)
    · rename_i b r rest hs
      simp at h; subst h
      split <;> simp [pot, hs, sndW, sndW_afterCalls, callsW, callW] <;> omega
    · rename_i b r rest hs
      simp at h; subst h
      simp [pot, hs, sndW, sndW_afterCalls, callsW, callW] <;> omega
  case report =>
    split at h <;> try (simp at h; done)
    rename_i e k hs
    split at h
    · rename_i c pn hsend
      simp at h; subst h
      rcases (sendOn_len hsend).2 with hb | hb <;> simp [pot, hs, sndW, hb] <;> omega
    · simp at h
  case drop =>
    split at h <;> try (simp at h; done)
    rename_i e k hs
    split at h
    · simp at h; subst h; simp [pot, hs, sndW] <;> omega
    · simp at h
  case ctx =>
    split at h <;> try (simp at h; done)
    rename_i hs
    split at h
    · simp at h; subst h; simp [pot, hs, sndW]
    · simp at h
  case close1 =>
    split at h <;> try (simp at h; done)
    rename_i hs
    simp at h; subst h
    rw [senderClose_pot]; simp [pot, hs, sndW]
  case close2 =>
    split at h <;> try (simp at h; done)
    rename_i hs
    simp at h; subst h
    rw [senderClose_pot]; simp [pot, hs, sndW]

/-- **every step but `cancel` strictly decreases the potential** — in every state, for every configuration -/
theorem step_decreases {cfg : Cfg} {inp : Input} {s s' : Sys} {ev : Event} (hne : ev ≠ .cancel)
    (h : step cfg inp s ev = some s') : pot cfg s' < pot cfg s := by
  cases ev <;> simp only [step] at h
  case cancel => exact absurd rfl hne
  case envSend =>
    split at h <;> try (simp at h; done)
    rename_i r rest ht
    split at h
    · rename_i c pn hs
      simp at h; subst h
      have h1 := sendOn_len hs
      have : todoW (callsW cfg.senderCalls) = reqW (callsW cfg.senderCalls) + 1 := by simp [todoW, reqW] <;> omega
      rcases h1.2 with hb | hb <;>
        simp [pot, ht, hb, openW, h1.1, Nat.mul_succ] <;> omega
    · simp at h
  case envSkip =>
    split at h <;> try (simp at h; done)
    rename_i r rest ht
    split at h
    · simp at h; subst h
      simp [pot, ht, Nat.mul_succ, todoW] <;> omega
    · simp at h
  case envClose =>
    split at h <;> try (simp at h; done)
    split at h
    · simp at h
    · rename_i hc
      simp at h; subst h
      simp [pot, openW, hc]
  case worker i e =>
    split at h <;> try (simp at h; done)
    rename_i ln hl
    split at h
    · rename_i r hw
      simp at h; subst h
      have hd := worker_decreases (callsW cfg.senderCalls) hw
      have hs := sum_set_lane (laneW (callsW cfg.senderCalls)) s.lanes i ln { ln with w := r.w, out := r.out } hl
      simp only [pot, openW, hd.1]
      simp only [laneW] at hs
      omega
    · simp at h
  case mux i e =>
    split at h <;> try (simp at h; done)
    rename_i ln hl
    split at h
    · rename_i r hw
      simp at h; subst h
      have hd := mux_decreases (callsW cfg.senderCalls) hw
      have hs := sum_set_lane (laneW (callsW cfg.senderCalls)) s.lanes i ln { ln with m := r.m, out := r.src } hl
      simp only [pot]
      simp only [laneW] at hs
      omega
    · simp at h
  case closer e =>
    split at h
    · rename_i c o pn hc
      simp at h; subst h
      have hd := closer_decreases hc
      simp only [pot, mergedW, hd.2]
      omega
    · simp at h
  case sender e => exact sender_decreases h
  case rcvSend =>
    split at h <;> try (simp at h; done)
    rename_i e rest ht
    split at h
    · rename_i c pn hs
      simp at h; subst h
      have h1 := sendOn_len hs
      rcases h1.2 with hb | hb <;> simp [pot, ht, hb, openW, h1.1] <;> omega
    · simp at h
  case rcvSkip =>
    split at h <;> try (simp at h; done)
    rename_i e rest ht
    split at h
    · simp at h; subst h; simp [pot, ht] <;> omega
    · simp at h
  case rcvClose =>
    split at h <;> try (simp at h; done)
    split at h
    · simp at h
    · rename_i hc
      simp at h; subst h
      simp [pot, openW, hc]
  case emux second e =>
    cases second <;> simp only at h
    · split at h
      · rename_i r hm
        simp at h; subst h
        have hd := emux_decreases hm
        simp only [pot]; omega
      · simp at h
    · split at h
      · rename_i r hm
        simp at h; subst h
        have hd := emux_decreases hm
        simp only [pot, openW, hd.1]; omega
      · simp at h
  case ecloser e =>
    split at h
    · rename_i c o pn hc
      simp at h; subst h
      have hd := closer_decreases hc
      simp only [pot, hd.2]
      omega
    · simp at h
  case consume =>
    split at h <;> try (simp at h; done)
    rename_i p rest hb
    simp at h; subst h
    simp [pot, hb] <;> omega
  case gc b =>
    split at h
    · rename_i hb
      simp at h; subst h
      have := List.length_erase_of_mem hb
      have : 0 < s.pool.length := List.length_pos_of_mem hb
      simp only [pot]; omega
    · simp at h

theorem cancel_pot {cfg : Cfg} {inp : Input} {s s' : Sys} (h : step cfg inp s .cancel = some s') :
    pot cfg s' = pot cfg s := by
  simp [step] at h; subst h; rfl

/-- the number of steps of an execution that are not `cancel` -/
def nonCancel : List Event → Nat
  | [] => 0
  | e :: es => (if e = .cancel then 0 else 1) + nonCancel es

/-- **bounded executions**: along ANY execution from ANY state — every schedule, cancelled anywhere, any number of
    times, or never — the number of steps other than `cancel` plus the potential of the state reached is at most the
    potential of the state it started from -/
theorem run_bound {cfg : Cfg} {inp : Input} : ∀ (evs : List Event) (s s' : Sys), run cfg inp s evs = some s' →
    nonCancel evs + pot cfg s' ≤ pot cfg s
  | [], s, s', h => by simp [run] at h; subst h; simp [nonCancel]
  | e :: es, s, s', h => by
    simp only [run] at h
    split at h
    · rename_i s1 hs
      have ih := run_bound es s1 s' h
      by_cases he : e = .cancel
      · subst he
        have := cancel_pot hs
        simp [nonCancel]; omega
      · have := step_decreases he hs
        simp [nonCancel, he]; omega
    · simp at h

/-- the potential of the initial state: linear in the number of requests, receiver errors and workers -/
theorem pot_init (cfg : Cfg) (inp : Input) :
    pot cfg (init inp) = (15 + callsW cfg.senderCalls) * inp.reqs.length + 4 * inp.rcvErrs.length + 4 * inp.n + 13 := by
  have e : 9 + (6 + callsW cfg.senderCalls) = 15 + callsW cfg.senderCalls := by omega
  simp [pot, init, openW, laneW, wW, mW, outW, mergedW, cW, sndW, emW, todoW, pktMax]
  rw [e]; omega

theorem reachableNC_run {cfg : Cfg} {inp : Input} : ∀ (evs : List Event) (s s' : Sys), ReachableNC cfg inp s →
    Event.cancel ∉ evs → run cfg inp s evs = some s' → ReachableNC cfg inp s'
  | [], s, s', hr, _, h => by simp [run] at h; subst h; exact hr
  | e :: es, s, s', hr, hnc, h => by
    simp only [run] at h
    split at h
    · rename_i s1 hs
      have he : e ≠ .cancel := fun hh => hnc (by simp [hh])
      exact reachableNC_run es s1 s' (ReachableNC.step hr ⟨e, he, hs⟩) (fun hh => hnc (by simp [hh])) h
    · simp at h

theorem nonCancel_of_not_mem : ∀ (evs : List Event), Event.cancel ∉ evs → nonCancel evs = evs.length
  | [], _ => rfl
  | e :: es, h => by
    have he : e ≠ .cancel := fun hh => h (by simp [hh])
    have := nonCancel_of_not_mem es (fun hh => h (by simp [hh]))
    simp [nonCancel, he, this]; omega

end SxVerif.Pipe
