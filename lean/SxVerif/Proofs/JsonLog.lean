/-
Lemmas for C14, part 7: the output of a run is the lines in order; the de-duplicating stage keeps exactly
the first occurrence of every ID.
-/
import SxVerif.Proofs.JsonRes

namespace SxVerif.Proofs.Json
open SxVerif.Json SxVerif.Spec.Json

theorem linesAux_line (l : List Char) (hl : Clean l) (cur rest : List Char) :
    linesAux cur (l ++ '\n' :: rest) = (linesAux [] rest).map ((cur.reverse ++ l) :: ·) := by
  induction l generalizing cur with
  | nil => simp [linesAux]
  | cons c t ih =>
    have hc : c ≠ '\n' := hl c (by simp)
    have ht : Clean t := fun d hd => hl d (by simp [hd])
    simp only [List.cons_append, linesAux, hc, if_false]
    rw [ih ht]
    simp

theorem linesOf_flatten (ls : List (List Char)) (h : ∀ l ∈ ls, Clean l) :
    linesOf ((ls.map (· ++ ['\n'])).flatten) = some ls := by
  induction ls with
  | nil => simp [linesOf, linesAux]
  | cons l t ih =>
    have := linesAux_line l (h l (by simp)) [] ((t.map (· ++ ['\n'])).flatten)
    simp only [linesOf] at ih ⊢
    simp only [List.map_cons, List.flatten_cons, List.append_assoc, List.cons_append, List.nil_append]
    rw [this, ih (fun x hx => h x (by simp [hx]))]
    simp

theorem logOutput_eq (rs : List Result) (n : Nat) :
    logOutput rs n = (((rs.take n).map render).map (· ++ ['\n'])).flatten := by
  have : (fun r => line r) = (fun x => render x ++ ['\n']) := by funext r; rfl
  simp [logOutput, logWrites, List.map_map, Function.comp_def, ← this]

theorem log_lines (rs : List Result) (hw : ∀ r ∈ rs, resultWf r = true) (n : Nat) :
    linesOf (logOutput rs n) = some ((rs.take n).map render) := by
  rw [logOutput_eq]
  apply linesOf_flatten
  intro l hl
  simp only [List.mem_map] at hl
  obtain ⟨r, hr, rfl⟩ := hl
  exact (result_ok r (hw r (List.mem_of_mem_take hr))).2

/-! ### de-duplication -/

section uniq
variable {α κ : Type} [DecidableEq κ] (id : α → κ)

theorem uniqLoop_eq (seen : List κ) (l : List α) :
    uniqLoop id seen l = (firstOccurrences id l).filter (fun q => id q ∉ seen) := by
  induction l generalizing seen with
  | nil => simp [uniqLoop, firstOccurrences]
  | cons r t ih =>
    simp only [uniqLoop, firstOccurrences]
    by_cases hr : id r ∈ seen
    · simp only [hr, if_true, List.filter_cons, not_true_eq_false, decide_false, Bool.false_eq_true, if_false]
      rw [ih, List.filter_filter]
      apply List.filter_congr
      intro x _
      by_cases hx : id x = id r
      · simp [hx, hr]
      · simp [hx]
    · simp only [hr, if_false, List.filter_cons, not_false_eq_true, decide_true, if_true]
      rw [ih, List.filter_filter]
      congr 1
      apply List.filter_congr
      intro x _
      simp only [List.mem_cons, not_or]
      by_cases hx : id x = id r <;> simp [hx]

theorem uniq_eq (l : List α) : uniq id l = firstOccurrences id l := by
  simp [uniq, uniqLoop_eq]

theorem first_sublist (l : List α) : (firstOccurrences id l).Sublist l := by
  induction l with
  | nil => exact List.Sublist.refl _
  | cons r t ih =>
    simp only [firstOccurrences]
    exact List.Sublist.cons_cons r (List.Sublist.trans List.filter_sublist ih)

theorem first_nodup (l : List α) : ((firstOccurrences id l).map id).Nodup := by
  induction l with
  | nil => simp [firstOccurrences]
  | cons r t ih =>
    simp only [firstOccurrences, List.map_cons, List.nodup_cons]
    constructor
    · intro h
      simp only [List.mem_map, List.mem_filter, decide_eq_true_eq] at h
      obtain ⟨x, ⟨_, hx⟩, hxr⟩ := h
      exact hx hxr
    · exact List.Nodup.sublist (List.Sublist.map id List.filter_sublist) ih

theorem first_covers (l : List α) : ∀ x ∈ l, id x ∈ (firstOccurrences id l).map id := by
  induction l with
  | nil => intro x hx; simp at hx
  | cons r t ih =>
    intro x hx
    simp only [firstOccurrences, List.map_cons, List.mem_cons]
    by_cases hxr : id x = id r
    · left; exact hxr
    · right
      simp only [List.mem_cons] at hx
      rcases hx with rfl | hx
      · exact absurd rfl hxr
      · have := ih x hx
        simp only [List.mem_map] at this ⊢
        obtain ⟨y, hy, hyx⟩ := this
        exact ⟨y, by simp [List.mem_filter, hy, hyx, hxr], hyx⟩

/-- what is kept for an ID is its first sighting: nothing before it in the input has the same ID -/
theorem first_is_first (l : List α) : ∀ r ∈ firstOccurrences id l,
    ∃ pre post, l = pre ++ r :: post ∧ ∀ q ∈ pre, id q ≠ id r := by
  induction l with
  | nil => intro r hr; simp [firstOccurrences] at hr
  | cons a t ih =>
    intro r hr
    simp only [firstOccurrences, List.mem_cons, List.mem_filter, decide_eq_true_eq] at hr
    rcases hr with rfl | ⟨hr, hne⟩
    · exact ⟨[], t, rfl, by simp⟩
    · obtain ⟨pre, post, rfl, hpre⟩ := ih r hr
      refine ⟨a :: pre, post, rfl, ?_⟩
      intro q hq
      simp only [List.mem_cons] at hq
      rcases hq with rfl | hq
      · exact fun h => hne h.symm
      · exact hpre q hq

end uniq

end SxVerif.Proofs.Json
