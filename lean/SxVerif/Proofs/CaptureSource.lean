import SxVerif.Model.CaptureSource

namespace SxVerif.CaptureSource

theorem inv_init : Inv init := by
  refine ⟨?_, ?_, ?_, ?_, ?_, rfl⟩ <;> simp [init]

theorem inv_step {s t : Sys} (hi : Inv s) (hs : Step s t) : Inv t := by
  obtain ⟨rHold, cHold, unmappedClosed, cClosed, checkedOpen, noFault⟩ := hi
  cases hs with
  | rLock i h hm =>
    refine ⟨?_, ?_, unmappedClosed, cClosed, ?_, noFault⟩
    · intro k hk
      by_cases hki : k = i
      · subst hki; rfl
      · simp only [upd_other _ _ _ _ hki] at hk
        have := rHold k hk; rw [hm] at this; cases this
    · intro j hj
      have := cHold j hj; rw [hm] at this; cases this
    · intro k hk
      by_cases hki : k = i
      · subst hki; simp at hk
      · simp only [upd_other _ _ _ _ hki] at hk; exact checkedOpen k hk
  | rEof i h hc =>
    refine ⟨?_, ?_, unmappedClosed, cClosed, ?_, noFault⟩
    · intro k hk
      by_cases hki : k = i
      · subst hki; simp at hk
      · simp only [upd_other _ _ _ _ hki] at hk
        have h1 := rHold k hk; have h2 := rHold i (Or.inl h)
        rw [h1] at h2; injection h2 with h2; injection h2 with h2; exact absurd h2 hki
    · intro j hj
      have h1 := cHold j hj; have h2 := rHold i (Or.inl h)
      rw [h1] at h2; injection h2 with h2; cases h2
    · intro k hk
      by_cases hki : k = i
      · subst hki; simp at hk
      · simp only [upd_other _ _ _ _ hki] at hk; exact checkedOpen k hk
  | rOpen i h hc =>
    refine ⟨?_, cHold, unmappedClosed, cClosed, ?_, noFault⟩
    · intro k hk
      by_cases hki : k = i
      · subst hki; exact rHold k (Or.inl h)
      · simp only [upd_other _ _ _ _ hki] at hk; exact rHold k hk
    · intro k hk
      by_cases hki : k = i
      · subst hki; exact hc
      · simp only [upd_other _ _ _ _ hki] at hk; exact checkedOpen k hk
  | rRead i h =>
    have hopen := checkedOpen i h
    have hmapped : s.mapped = true := by
      cases hm : s.mapped with
      | true => rfl
      | false => have := unmappedClosed hm; rw [hopen] at this; cases this
    refine ⟨?_, ?_, unmappedClosed, cClosed, ?_, ?_⟩
    · intro k hk
      by_cases hki : k = i
      · subst hki; simp at hk
      · simp only [upd_other _ _ _ _ hki] at hk
        have h1 := rHold k hk; have h2 := rHold i (Or.inr h)
        rw [h1] at h2; injection h2 with h2; injection h2 with h2; exact absurd h2 hki
    · intro j hj
      have h1 := cHold j hj; have h2 := rHold i (Or.inr h)
      rw [h1] at h2; injection h2 with h2; cases h2
    · intro k hk
      by_cases hki : k = i
      · subst hki; simp at hk
      · simp only [upd_other _ _ _ _ hki] at hk; exact checkedOpen k hk
    · simp [noFault, hmapped]
  | cLock j h hm =>
    refine ⟨?_, ?_, unmappedClosed, ?_, checkedOpen, noFault⟩
    · intro i hi
      have := rHold i hi; rw [hm] at this; cases this
    · intro k hk
      by_cases hkj : k = j
      · subst hkj; rfl
      · simp only [upd_other _ _ _ _ hkj] at hk
        have := cHold k hk; rw [hm] at this; cases this
    · intro k hk
      by_cases hkj : k = j
      · subst hkj; simp at hk
      · simp only [upd_other _ _ _ _ hkj] at hk; exact cClosed k hk
  | cFlag j h =>
    have hold := cHold j (Or.inl h)
    refine ⟨rHold, ?_, fun _ => rfl, fun _ _ => rfl, ?_, noFault⟩
    · intro k hk
      by_cases hkj : k = j
      · subst hkj; exact hold
      · simp only [upd_other _ _ _ _ hkj] at hk; exact cHold k hk
    · intro i hi
      have := rHold i (Or.inr hi); rw [hold] at this; injection this with this; cases this
  | cUnmap j h =>
    have hcl := cClosed j (Or.inl h)
    refine ⟨rHold, ?_, fun _ => hcl, ?_, checkedOpen, noFault⟩
    · intro k hk
      by_cases hkj : k = j
      · subst hkj; exact cHold k (Or.inr (Or.inl h))
      · simp only [upd_other _ _ _ _ hkj] at hk; exact cHold k hk
    · intro k hk
      by_cases hkj : k = j
      · subst hkj; exact hcl
      · simp only [upd_other _ _ _ _ hkj] at hk; exact cClosed k hk
  | cUnlock j h =>
    have hold := cHold j (Or.inr (Or.inr h))
    have hcl := cClosed j (Or.inr (Or.inl h))
    refine ⟨?_, ?_, unmappedClosed, ?_, checkedOpen, noFault⟩
    · intro i hi
      have := rHold i hi; rw [hold] at this; injection this with this; cases this
    · intro k hk
      by_cases hkj : k = j
      · subst hkj; simp at hk
      · simp only [upd_other _ _ _ _ hkj] at hk
        have h1 := cHold k hk; rw [hold] at h1; injection h1 with h1; injection h1 with h1; exact absurd h1.symm hkj
    · intro k hk
      by_cases hkj : k = j
      · subst hkj; exact hcl
      · simp only [upd_other _ _ _ _ hkj] at hk; exact cClosed k hk

theorem inv_reachable {s : Sys} (h : Reachable s) : Inv s := by
  induction h with
  | init => exact inv_init
  | step _ hs ih => exact inv_step ih hs

/-- `closed` is never reset -/
theorem closed_mono {s t : Sys} (hs : Step s t) (hc : s.closed = true) : t.closed = true := by
  cases hs <;> simp_all

end SxVerif.CaptureSource
