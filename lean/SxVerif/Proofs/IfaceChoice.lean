/-
C17 lemmas, part 3: the option code (`getInterface`, `getScanRange`, vpn rule, arp rule) against the
Spec's expected interface / source / MAC.
-/
import SxVerif.Proofs.IfaceLoops

namespace SxVerif.Proofs.Iface
open SxVerif.Iface SxVerif.Spec.Iface

/-- the interface address the automatic choice takes, as a Go `net.IP` (nil for an IPv6 entry) -/
def autoAddr (t : Option Target) (i : Iface) : Option Addr :=
  match (t.map (fun t => addrsOn t i)).getD [] with
  | a :: _ => some a
  | [] => i.addrs.head?

def autoIP (t : Option Target) (i : Iface) : Option IP :=
  (autoAddr t i).bind (fun a => if a.v6 then none else some a.goIP)

theorem expectedAddr_eq (o : Opts) (i : Iface) : expectedAddr o i = autoAddr o.target i := rfl

theorem interfaceIP_eq (i : Iface) : interfaceIP i = i.addrs.head?.bind (fun a => if a.v6 then none else some a.goIP) := by
  unfold interfaceIP
  cases i.addrs <;> simp

theorem onTarget_v4 {t : Target} {a : Addr} (h : onTarget t a = true) : a.v6 = false := by
  unfold onTarget at h
  cases hv : a.v6 <;> simp_all

theorem addrsOn_head_v4 {t : Target} {i : Iface} {a : Addr} {as : List Addr} (h : addrsOn t i = a :: as) :
    a.v6 = false := by
  have : a ∈ addrsOn t i := by rw [h]; simp
  exact onTarget_v4 (List.mem_filter.mp this).2

/-- with --iface: that interface, with its address on the target subnet if it has one, else its first -/
theorem getInterface_some (h : Host) (i : Iface) (t : Option Target)
    (ht : ∀ t', t = some t' → t'.ip.length = 4) (hw : ∀ a ∈ i.addrs, addrWF a = true) :
    getInterface h (some i) t = .ok (some i, autoIP t i) := by
  unfold getInterface autoIP autoAddr
  cases t with
  | none => simp [interfaceIP_eq]
  | some t =>
    simp only [localSubnetInterfaceIP_spec t (ht t rfl) i hw, Option.map_some, Option.getD_some]
    cases hh : addrsOn t i with
    | nil => simp [interfaceIP_eq]
    | cons a as => simp [addrsOn_head_v4 hh]

theorem find?_mem' {α : Type} {l : List α} {p : α → Bool} {a : α} (h : l.find? p = some a) : a ∈ l :=
  List.mem_of_find?_eq_some h

/-- without --iface: the first directly attached interface, else the default interface -/
theorem getInterface_none (h : Host) (t : Option Target)
    (ht : ∀ t', t = some t' → t'.ip.length = 4) (hw : hostWF h = true) :
    getInterface h none t =
      match (t.map (attachedIfaces h)).getD [] with
      | i :: _ => .ok (some i, autoIP t i)
      | [] => defaultInterface h := by
  have hw' : ∀ i ∈ h.ifaces, ∀ a ∈ i.addrs, addrWF a = true := by
    simpa [hostWF, List.all_eq_true] using hw
  unfold getInterface
  cases t with
  | none => simp
  | some t =>
    simp only [localSubnetInterface_spec t (ht t rfl) h.ifaces hw', Option.map_some, Option.getD_some, attachedIfaces]
    cases hf : List.filter (fun i => (addrsOn t i).isEmpty == false) h.ifaces with
    | nil => simp
    | cons i rest =>
      have hi : i ∈ List.filter (fun i => (addrsOn t i).isEmpty == false) h.ifaces := by rw [hf]; simp
      have hne := (List.mem_filter.mp hi).2
      cases hh : addrsOn t i with
      | nil => simp [hh] at hne
      | cons a as =>
        simp [autoIP, autoAddr, hh, addrsOn_head_v4 hh]

theorem asIPv4_eq_to4 (s : IP) : asIPv4 s = to4 s := rfl

theorem to4_goIP (a : Addr) (hv : a.v6 = false) (hw : addrWF a = true) : to4 a.goIP = some a.ip := by
  have h4 : a.ip.length = 4 := by simpa [addrWF, hv] using hw
  unfold Addr.goIP to4 v4in6
  simp only [hv, Bool.false_eq_true, if_false, List.length_append, h4]
  simp [v4prefix]

theorem autoAddr_mem (t : Option Target) (i : Iface) (a : Addr) (h : autoAddr t i = some a) : a ∈ i.addrs := by
  unfold autoAddr at h
  split at h
  · rename_i b bs hb
    cases t with
    | none => simp at hb
    | some t =>
      simp only [Option.map_some, Option.getD_some] at hb
      have : b ∈ addrsOn t i := by rw [hb]; simp
      cases h
      exact (List.mem_filter.mp this).1
  · exact List.mem_of_mem_head? h

/-- the source the code derives from the automatic address = the Spec's IPv4 address -/
theorem autoIP_to4 (t : Option Target) (i : Iface) (hw : ∀ a ∈ i.addrs, addrWF a = true) :
    (autoIP t i).bind to4 = (autoAddr t i).bind (fun a => if a.v6 then none else some a.ip) := by
  unfold autoIP
  cases ha : autoAddr t i with
  | none => rfl
  | some a =>
    cases hv : a.v6 with
    | true => simp [hv]
    | false =>
      simp only [Option.bind_some, hv, Bool.false_eq_true, if_false]
      exact to4_goIP a hv (hw a (autoAddr_mem t i a ha))

/-- the interface the code settles on (before the source address is looked at) -/
def modelIface (h : Host) (o : Opts) : Except Err (Option Iface × Option IP) :=
  match o.iface with
  | none => getInterface h none o.target
  | some n =>
    match interfaceByName h n with
    | none => .error .nosuchif
    | some i => getInterface h (some i) o.target

theorem scanRange_unfold (h : Host) (o : Opts) :
    scanRange h o =
      match modelIface h o with
      | .error e => .error e
      | .ok (none, _) => .error .srcif
      | .ok (some i, ip) =>
        match (match o.srcip with | some s => some s | none => ip).bind to4 with
        | none => .error .srcip
        | some s4 => .ok ⟨i, s4, match o.srcmac with | some m => some m | none => i.mac⟩ := by
  unfold scanRange modelIface
  cases o.iface with
  | none => rfl
  | some n =>
    cases hn : interfaceByName h n with
    | none => simp only [hn]
    | some i => simp only [hn]; rfl

theorem attachedIfaces_nil_addrsOn {h : Host} {t : Target} (hn : attachedIfaces h t = []) {i : Iface}
    (hi : i ∈ h.ifaces) : addrsOn t i = [] := by
  unfold attachedIfaces at hn
  rw [List.filter_eq_nil_iff] at hn
  have := hn i hi
  cases hh : addrsOn t i with
  | nil => rfl
  | cons a as => simp [hh] at this

/-- the interface decision against the Spec -/
theorem modelIface_spec (h : Host) (o : Opts) (hw : hostWF h = true) (ho : optsWF o = true)
    (hres : routesResolve h = true) :
    (expectedIface h o = none → (∃ e, modelIface h o = .error e) ∨ (∃ ip, modelIface h o = .ok (none, ip))) ∧
    (∀ i, expectedIface h o = some i → i ∈ h.ifaces ∧ modelIface h o = .ok (some i, autoIP o.target i)) := by
  have ht : ∀ t', o.target = some t' → t'.ip.length = 4 := by
    intro t' e; simpa [optsWF, e] using ho
  have hw' : ∀ i ∈ h.ifaces, ∀ a ∈ i.addrs, addrWF a = true := by
    simpa [hostWF, List.all_eq_true] using hw
  unfold modelIface expectedIface
  cases hi : o.iface with
  | some n =>
    simp only [interfaceByName]
    cases hf : h.ifaces.find? (fun i => i.name == n) with
    | none => simp
    | some i =>
      have him := find?_mem' hf
      simp only [reduceCtorEq, false_implies, Option.some.injEq, true_and]
      intro j hj; subst hj
      exact ⟨him, getInterface_some h i o.target ht (hw' i him)⟩
  | none =>
    simp only [getInterface_none h o.target ht hw]
    cases ha : (o.target.map (attachedIfaces h)).getD [] with
    | cons i rest =>
      simp only [reduceCtorEq, false_implies, Option.some.injEq, true_and]
      intro j hj; subst hj
      refine ⟨?_, rfl⟩
      cases htg : o.target with
      | none => simp [htg] at ha
      | some t =>
        simp only [htg, Option.map_some, Option.getD_some] at ha
        have : i ∈ attachedIfaces h t := by rw [ha]; simp
        exact (List.mem_filter.mp this).1
    | nil =>
      simp only [defaultInterface_spec h hres]
      cases hl : lowestDefault h with
      | none => simp
      | some r =>
        simp only [Option.bind_some]
        have hr : r ∈ defaultRoutes h := by
          rw [lowestDefault_eq] at hl
          exact find?_mem' hl
        have hany : (h.ifaces.any (fun i => i.index == r.link)) = true := by
          have : ∀ r ∈ defaultRoutes h, (h.ifaces.any (fun i => i.index == r.link)) = true := by
            simpa [routesResolve, List.all_eq_true] using hres
          exact this r hr
        obtain ⟨i, hib⟩ := interfaceByIndex_some_of_any h r.link hany
        have hib' : h.ifaces.find? (fun i => i.index == r.link) = some i := hib
        simp only [hib, hib', reduceCtorEq, false_implies, Option.some.injEq, true_and, Option.bind_some]
        intro j hj; subst hj
        have him := find?_mem' hib'
        refine ⟨him, ?_⟩
        -- no interface is attached, so the automatic address is the first one
        have : autoIP o.target i = interfaceIP i := by
          rw [interfaceIP_eq]
          unfold autoIP autoAddr
          cases htg : o.target with
          | none => simp
          | some t =>
            simp only [htg, Option.map_some, Option.getD_some] at ha
            simp [attachedIfaces_nil_addrsOn ha him]
        rw [this]

/-- **the whole choice**: the code's result is the Spec's expected interface, source and MAC, or a failure
    exactly when the Spec has no usable interface / IPv4 source -/
theorem scanRange_spec (h : Host) (o : Opts) (hw : hostWF h = true) (ho : optsWF o = true)
    (hres : routesResolve h = true) :
    (expectedIface h o = none → ∃ e, scanRange h o = .error e) ∧
    (∀ i, expectedIface h o = some i →
      i ∈ h.ifaces ∧
      scanRange h o = match expectedSrc o i with
        | none => .error .srcip
        | some s => .ok ⟨i, s, expectedMAC o i⟩) := by
  have hw' : ∀ i ∈ h.ifaces, ∀ a ∈ i.addrs, addrWF a = true := by
    simpa [hostWF, List.all_eq_true] using hw
  obtain ⟨h1, h2⟩ := modelIface_spec h o hw ho hres
  rw [scanRange_unfold]
  constructor
  · intro hn
    rcases h1 hn with ⟨e, he⟩ | ⟨ip, hip⟩
    · exact ⟨e, by rw [he]⟩
    · exact ⟨.srcif, by rw [hip]⟩
  · intro i hi
    obtain ⟨him, hm⟩ := h2 i hi
    refine ⟨him, ?_⟩
    rw [hm]
    simp only [expectedSrc, expectedMAC, expectedAddr_eq]
    cases hs : o.srcip with
    | some s =>
      simp only [Option.bind_some, asIPv4_eq_to4]
      cases to4 s <;> rfl
    | none =>
      simp only [autoIP_to4 o.target i (hw' i him)]
      cases (autoAddr o.target i).bind (fun a => if a.v6 then none else some a.ip) <;> rfl

end SxVerif.Proofs.Iface
