/-
Lemmas for C14, part 3: the Spec reader undoes the rendering of every well-formed value tree
(mutual structural induction on the tree), and of every flat object built from readable parts.
-/
import SxVerif.Proofs.JsonStr
import SxVerif.Proofs.JsonNum

namespace SxVerif.Proofs.Json
open SxVerif.Json SxVerif.Spec.Json

/-- a text that starts with a character that is neither whitespace nor a closing bracket -/
def HeadOk (txt : List Char) : Prop := ∃ c t, txt = c :: t ∧ isWs c = false ∧ c ≠ ']' ∧ c ≠ '}'

theorem skipWs_cons (c : Char) (t : List Char) (h : isWs c = false) : skipWs (c :: t) = c :: t := by
  simp [skipWs, h]

theorem skipWs_headOk (txt rest : List Char) (h : HeadOk txt) : skipWs (txt ++ rest) = txt ++ rest := by
  obtain ⟨c, t, rfl, hw, _, _⟩ := h
  exact skipWs_cons c (t ++ rest) hw

theorem numStart_props (c : Char) (h : isNumStart c = true) :
    isWs c = false ∧ c ≠ ']' ∧ c ≠ '}' := by
  refine ⟨?_, ?_, ?_⟩
  · cases hws : isWs c
    · rfl
    · exfalso
      simp only [isWs, Bool.or_eq_true, beq_iff_eq] at hws
      rcases hws with ((hc | hc) | hc) | hc <;> subst hc <;> revert h <;> decide
  · intro hc; subst hc; revert h; decide
  · intro hc; subst hc; revert h; decide

/-- unfolding of one step of the value reader -/
theorem readValue_succ (f : Nat) (s : List Char) (c : Char) (t : List Char) (h : skipWs s = c :: t) :
    readValue (f + 1) s =
      (if isNumStart c then readNumber (c :: t)
      else if c = '"' then (readStrBody none t).map (mapFst .str)
      else if c = '[' then
        (match skipWs t with
         | [] => none
         | d :: t' => if d = ']' then some (.arr [], t') else (readElems f (d :: t')).map (mapFst .arr))
      else if c = '{' then
        (match skipWs t with
         | [] => none
         | d :: t' => if d = '}' then some (.obj [], t') else (readMems f (d :: t')).map (mapFst .obj))
      else if c = 'n' then (match (generalizing := false) t with | 'u' :: 'l' :: 'l' :: t' => some (.null, t') | _ => none)
      else if c = 't' then (match (generalizing := false) t with | 'r' :: 'u' :: 'e' :: t' => some (.bool true, t') | _ => none)
      else if c = 'f' then (match (generalizing := false) t with | 'a' :: 'l' :: 's' :: 'e' :: t' => some (.bool false, t') | _ => none)
      else none) := by
  rw [readValue.eq_def]
  simp only [h]
  rfl

theorem readElems_succ (f : Nat) (s : List Char) :
    readElems (f + 1) s =
      (match readValue f s with
      | none => none
      | some (v, r) =>
        match skipWs r with
        | [] => none
        | c :: r' =>
          if c = ',' then (readElems f r').map (mapFst (v :: ·))
          else if c = ']' then some ([v], r')
          else none) := by
  rw [readElems.eq_def]
  rfl

theorem readMems_succ (f : Nat) (s : List Char) (t : List Char) (h : skipWs s = '"' :: t) :
    readMems (f + 1) s =
      (match readStrBody none t with
        | none => none
        | some (k, r) =>
          match skipWs r with
          | [] => none
          | c :: r1 =>
            if c = ':' then
              match readValue f r1 with
              | none => none
              | some (v, r2) =>
                match skipWs r2 with
                | [] => none
                | e :: r3 =>
                  if e = ',' then (readMems f r3).map (mapFst ((k, v) :: ·))
                  else if e = '}' then some ([(k, v)], r3)
                  else none
            else none) := by
  rw [readMems.eq_def]
  simp only [h, if_true]
  rfl

/-- `txt` is read as `v` by the value reader whenever the fuel is at least `n` -/
def Reads (txt : List Char) (v : JVal) (n : Nat) : Prop :=
  HeadOk txt ∧ ∀ f, n ≤ f → ∀ rest, restOk rest → readValue f (txt ++ rest) = some (v, rest)

theorem restOk_of_head (c : Char) (t : List Char) (h : isNumChar c = false) : restOk (c :: t) := by
  intro d hd; simp at hd; subst hd; exact h

theorem restOk_nil : restOk [] := by intro d hd; simp at hd

/-! ### atoms -/

theorem reads_int (i : Int) : Reads (intDigits i) (.int i) 1 := by
  obtain ⟨c, t, hct, hns⟩ := intDigits_head i
  have hp := numStart_props c hns
  refine ⟨⟨c, t, hct, hp.1, hp.2.1, hp.2.2⟩, ?_⟩
  intro f hf rest hr
  obtain ⟨g, rfl⟩ : ∃ g, f = g + 1 := ⟨f - 1, by omega⟩
  have hs : skipWs (intDigits i ++ rest) = c :: (t ++ rest) := by
    rw [hct]; exact skipWs_cons c _ hp.1
  rw [readValue_succ g _ c (t ++ rest) hs, if_pos hns]
  have : c :: (t ++ rest) = intDigits i ++ rest := by rw [hct]; rfl
  rw [this]; exact readNumber_int i rest hr

theorem reads_nat (n : Nat) : Reads (natDigits n) (.int n) 1 := reads_int (Int.ofNat n)

theorem reads_quoted (body : List Char) (s : List Char)
    (h : ∀ rest, readStrBody none (body ++ '"' :: rest) = some (s, rest)) :
    Reads ('"' :: (body ++ ['"'])) (.str s) 1 := by
  refine ⟨⟨'"', _, rfl, by decide, by decide, by decide⟩, ?_⟩
  intro f hf rest _
  obtain ⟨g, rfl⟩ : ∃ g, f = g + 1 := ⟨f - 1, by omega⟩
  have hs : skipWs (('"' :: (body ++ ['"'])) ++ rest) = '"' :: (body ++ '"' :: rest) := by
    simp [skipWs, isWs]
  rw [readValue_succ g _ '"' _ hs]
  have h1 : isNumStart '"' = false := by decide
  simp only [h1, if_true, h rest]
  rfl

theorem reads_strEasy (s : GoStr) : Reads (quoteEasy s) (.str (sanitize s)) 1 :=
  reads_quoted (escEasy s) (sanitize s) (read_escEasy s)

theorem reads_strStd (s : GoStr) : Reads (quoteStd s) (.str (sanitize s)) 1 :=
  reads_quoted (escStd s) (sanitize s) (read_escStd s)

theorem reads_null : Reads ['n', 'u', 'l', 'l'] .null 1 := by
  refine ⟨⟨'n', _, rfl, by decide, by decide, by decide⟩, ?_⟩
  intro f hf rest _
  obtain ⟨g, rfl⟩ : ∃ g, f = g + 1 := ⟨f - 1, by omega⟩
  rw [readValue_succ g _ 'n' ('u' :: 'l' :: 'l' :: rest) (by simp [skipWs, isWs])]
  have h1 : isNumStart 'n' = false := by decide
  simp [h1]

theorem reads_true : Reads ['t', 'r', 'u', 'e'] (.bool true) 1 := by
  refine ⟨⟨'t', _, rfl, by decide, by decide, by decide⟩, ?_⟩
  intro f hf rest _
  obtain ⟨g, rfl⟩ : ∃ g, f = g + 1 := ⟨f - 1, by omega⟩
  rw [readValue_succ g _ 't' ('r' :: 'u' :: 'e' :: rest) (by simp [skipWs, isWs])]
  have h1 : isNumStart 't' = false := by decide
  simp [h1]

theorem reads_false : Reads ['f', 'a', 'l', 's', 'e'] (.bool false) 1 := by
  refine ⟨⟨'f', _, rfl, by decide, by decide, by decide⟩, ?_⟩
  intro f hf rest _
  obtain ⟨g, rfl⟩ : ∃ g, f = g + 1 := ⟨f - 1, by omega⟩
  rw [readValue_succ g _ 'f' ('a' :: 'l' :: 's' :: 'e' :: rest) (by simp [skipWs, isWs])]
  have h1 : isNumStart 'f' = false := by decide
  simp [h1]

end SxVerif.Proofs.Json
