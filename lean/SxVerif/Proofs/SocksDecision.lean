/-
Lemmas for C09 (decision part): the read loop of the model against the Spec's description of the reply
as a sequence of bytes with arrival instants; `Scan`'s outcome as a function of `Spec.reply`.
Core Lean only.
-/
import SxVerif.Model.Socks
import SxVerif.Spec.Socks

namespace SxVerif.Proofs.Socks
open SxVerif.Socks SxVerif.Spec.Socks

theorem interrupted_none_iff (cancel : Option Dur) (t0 e : Dur) :
    interrupted cancel t0 e = none ↔ notAfterCancel cancel (t0 + e) = true := by
  cases cancel with
  | none => simp [interrupted, notAfterCancel]
  | some c =>
    simp only [interrupted, notAfterCancel]
    by_cases h : c < t0 + e
    · simp [h]
    · simp [h]; omega

theorem notAfterCancel_mono (cancel : Option Dur) {a b : Dur} (h : a ≤ b) :
    notAfterCancel cancel b = true → notAfterCancel cancel a = true := by
  cases cancel with
  | none => simp [notAfterCancel]
  | some c => simp only [notAfterCancel, decide_eq_true_eq]; omega

theorem arrivals_ge (T : Dur) (evs : List ReadEv) : ∀ (t : Dur) (x : UInt8 × Dur), x ∈ arrivals T t evs → t ≤ x.2 := by
  induction evs with
  | nil => intro t x hx; simp [arrivals] at hx
  | cons ev rest ih =>
    intro t x hx
    cases ev with
    | data bs d =>
      simp only [arrivals] at hx
      split at hx
      · rcases List.mem_append.mp hx with h | h
        · simp only [List.mem_map] at h
          obtain ⟨b, _, rfl⟩ := h
          simp
        · have := ih (t + d) x h
          omega
      · simp at hx
    | eof d => simp [arrivals] at hx
    | reset d => simp [arrivals] at hx
    | stall => simp [arrivals] at hx


/-- the first two arrivals -/
def firstTwo : List (UInt8 × Dur) → Option (UInt8 × UInt8 × Dur)
  | (a, _) :: (b, t2) :: _ => some (a, b, t2)
  | _ => none

def expected (cancel : Option Dur) (l : List (UInt8 × Dur)) : Option (List UInt8) :=
  match firstTwo l with
  | some (a, b, t2) => if notAfterCancel cancel t2 then some [a, b] else none
  | none => none

theorem interrupted_some_iff (cancel : Option Dur) (t0 e : Dur) :
    (∃ t', interrupted cancel t0 e = some t') ↔ notAfterCancel cancel (t0 + e) = false := by
  have := interrupted_none_iff cancel t0 e
  cases h : interrupted cancel t0 e with
  | none => simp [h] at this; simp [this]
  | some t' =>
    simp [h] at this
    simp [this]

theorem expected_late (cancel : Option Dur) (u : Dur) (pre l : List (UInt8 × Dur))
    (hl : ∀ x ∈ l, u ≤ x.2) (hu : notAfterCancel cancel u = false) (hp : pre.length ≤ 1) :
    expected cancel (pre ++ l) = none := by
  have key : ∀ y : UInt8 × Dur, u ≤ y.2 → notAfterCancel cancel y.2 = false := by
    intro y hy
    cases h : notAfterCancel cancel y.2 with
    | false => rfl
    | true => rw [notAfterCancel_mono cancel hy h] at hu; exact absurd hu (by simp)
  match pre, hp with
  | [], _ =>
    match l, hl with
    | [], _ => simp [expected, firstTwo]
    | [x], _ => simp [expected, firstTwo]
    | x :: y :: tl, hl =>
      have := key y (hl y (by simp))
      simp [expected, firstTwo, this]
  | [p], _ =>
    match l, hl with
    | [], _ => simp [expected, firstTwo]
    | y :: tl, hl =>
      have := key y (hl y (by simp))
      simp [expected, firstTwo, this]
  | _ :: _ :: _, h => simp at h

theorem chunk_times (T : Dur) (t d : Dur) (bs : List UInt8) (rest : List ReadEv) :
    ∀ x ∈ bs.map (fun b => (b, t + d)) ++ arrivals T (t + d) rest, t + d ≤ x.2 := by
  intro x hx
  rcases List.mem_append.mp hx with h | h
  · simp only [List.mem_map] at h
    obtain ⟨b, _, rfl⟩ := h
    simp
  · exact arrivals_ge T rest (t + d) x h

theorem readLoop_res (T : Dur) (cancel : Option Dur) (evs : List ReadEv) :
    ∀ (t : Dur) (got : List UInt8) (calls : Nat) (caps : List Nat),
      got.length ≤ 2 → notAfterCancel cancel t = true →
      (readLoop T cancel 2 evs t got calls caps).res.toOption
        = expected cancel (got.map (fun b => (b, t)) ++ arrivals T t evs) := by
  induction evs with
  | nil =>
    intro t got calls caps hg hc
    match got, hg with
    | [], _ => simp [readLoop, readStep, readOp, expected, firstTwo, arrivals]; cases interrupted cancel t T <;> simp [Except.toOption]
    | [g], _ => simp [readLoop, readStep, readOp, expected, firstTwo, arrivals]; cases interrupted cancel t T <;> simp [Except.toOption]
    | [g1, g2], _ => simp [readLoop, expected, firstTwo, arrivals, hc, Except.toOption]
    | _ :: _ :: _ :: _, h => simp at h
  | cons ev rest ih =>
    intro t got calls caps hg hc
    match got, hg with
    | [g1, g2], _ => simp [readLoop, expected, firstTwo, hc, Except.toOption]
    | _ :: _ :: _ :: _, h => simp at h
    | [], _ =>
      cases ev with
      | data bs d =>
        by_cases hd : d < T
        · cases hi : interrupted cancel t d with
          | some t' =>
            have hu := (interrupted_some_iff cancel t d).mp ⟨t', hi⟩
            have := expected_late cancel (t + d) [] _ (chunk_times T t d bs rest) hu (by simp)
            simp only [List.nil_append] at this
            simp [readLoop, readStep, readOp, hd, hi, Except.toOption, arrivals, this]
          | none =>
            have hc' := (interrupted_none_iff cancel t d).mp hi
            simp only [readLoop, readStep, readOp, hd, hi, if_true, List.length_nil, Nat.sub_zero,
              Nat.le_zero_eq, Nat.succ_ne_zero, if_false, List.nil_append, List.map_nil, arrivals]
            rw [ih (t + d) (bs.take 2) _ _ (by simp; omega) hc']
            match bs with
            | [] => simp
            | [b] => simp
            | b1 :: b2 :: tl => simp [expected, firstTwo]
        · cases hi : interrupted cancel t T <;>
            simp [readLoop, readStep, readOp, hd, hi, Except.toOption, arrivals, expected, firstTwo]
      | eof d =>
        by_cases hd : d < T
        · cases hi : interrupted cancel t d <;>
            simp [readLoop, readStep, readOp, hd, hi, Except.toOption, arrivals, expected, firstTwo]
        · cases hi : interrupted cancel t T <;>
            simp [readLoop, readStep, readOp, hd, hi, Except.toOption, arrivals, expected, firstTwo]
      | reset d =>
        by_cases hd : d < T
        · cases hi : interrupted cancel t d <;>
            simp [readLoop, readStep, readOp, hd, hi, Except.toOption, arrivals, expected, firstTwo]
        · cases hi : interrupted cancel t T <;>
            simp [readLoop, readStep, readOp, hd, hi, Except.toOption, arrivals, expected, firstTwo]
      | stall =>
        cases hi : interrupted cancel t T <;>
          simp [readLoop, readStep, readOp, hi, Except.toOption, arrivals, expected, firstTwo]
    | [g], _ =>
      cases ev with
      | data bs d =>
        by_cases hd : d < T
        · cases hi : interrupted cancel t d with
          | some t' =>
            have hu := (interrupted_some_iff cancel t d).mp ⟨t', hi⟩
            have := expected_late cancel (t + d) [(g, t)] _ (chunk_times T t d bs rest) hu (by simp)
            simp only [List.singleton_append] at this
            simp [readLoop, readStep, readOp, hd, hi, Except.toOption, arrivals, this]
          | none =>
            have hc' := (interrupted_none_iff cancel t d).mp hi
            simp only [readLoop, readStep, readOp, hd, hi, if_true, List.length_singleton, arrivals,
              show ¬ (2 ≤ 1) by omega, if_false]
            rw [ih (t + d) ([g] ++ bs.take (2 - 1)) _ _ (by simp; omega) hc']
            match bs with
            | [] =>
              simp only [List.take_nil, List.append_nil, List.map_cons, List.map_nil, List.nil_append,
                List.singleton_append]
              cases arrivals T (t + d) rest <;> simp [expected, firstTwo]
            | b :: tl => simp [expected, firstTwo]
        · cases hi : interrupted cancel t T <;>
            simp [readLoop, readStep, readOp, hd, hi, Except.toOption, arrivals, expected, firstTwo]
      | eof d =>
        by_cases hd : d < T
        · cases hi : interrupted cancel t d <;>
            simp [readLoop, readStep, readOp, hd, hi, Except.toOption, arrivals, expected, firstTwo]
        · cases hi : interrupted cancel t T <;>
            simp [readLoop, readStep, readOp, hd, hi, Except.toOption, arrivals, expected, firstTwo]
      | reset d =>
        by_cases hd : d < T
        · cases hi : interrupted cancel t d <;>
            simp [readLoop, readStep, readOp, hd, hi, Except.toOption, arrivals, expected, firstTwo]
        · cases hi : interrupted cancel t T <;>
            simp [readLoop, readStep, readOp, hd, hi, Except.toOption, arrivals, expected, firstTwo]
      | stall =>
        cases hi : interrupted cancel t T <;>
          simp [readLoop, readStep, readOp, hi, Except.toOption, arrivals, expected, firstTwo]


theorem toOption_some {ε α : Type} {x : Except ε α} {a : α} (h : x.toOption = some a) : x = .ok a := by
  cases x <;> simp_all [Except.toOption]

theorem toOption_none {ε α : Type} {x : Except ε α} (h : x.toOption = none) : ∃ e, x = .error e := by
  cases x with
  | error e => exact ⟨e, rfl⟩
  | ok a => simp [Except.toOption] at h

/-- what the probe returns when the reply (two bytes, in time, uncancelled) is there -/
theorem scan_of_reply (cfg : Cfg) (tgt : Target) (s : Script) (a b : UInt8)
    (h : reply cfg.dialTimeout cfg.dataTimeout s = some (a, b)) :
    (scan cfg tgt s).outcome = verdict cfg tgt [a, b] := by
  unfold reply connectedAt greetingSentAfter at h
  cases hdial : s.dial with
  | refused d => simp [hdial] at h
  | silent g => simp [hdial] at h
  | ok d =>
    simp only [hdial] at h
    by_cases hconn : (cfg.dialTimeout = 0 ∨ d < cfg.dialTimeout) ∧ s.lingerOk = true
    · simp only [hconn, and_self, if_true] at h
      cases hw : s.write with
      | reset w => simp [hw] at h
      | stall => simp [hw] at h
      | ok w =>
        simp only [hw] at h
        by_cases hwt : w < cfg.dataTimeout
        · simp only [hwt, if_true] at h
          have hexp : expected s.cancel (arrivals cfg.dataTimeout (d + w) s.reads) = some [a, b] := by
            unfold expected firstTwo
            split at h
            · next a' _ b' t2 _ heq =>
              rw [heq]
              simp only
              split at h
              · next hc => simp at h; simp [hc, h.1, h.2]
              · simp at h
            · simp at h
          -- the second byte is there no earlier than d + w
          have ht2 : notAfterCancel s.cancel (d + w) = true := by
            unfold expected at hexp
            cases hf : firstTwo (arrivals cfg.dataTimeout (d + w) s.reads) with
            | none => simp [hf] at hexp
            | some x =>
              obtain ⟨a', b', t2⟩ := x
              simp only [hf] at hexp
              split at hexp
              · next hc =>
                refine notAfterCancel_mono s.cancel ?_ hc
                -- t2 is the time of an element of arrivals
                unfold firstTwo at hf
                split at hf
                · next x1 t1 x2 t2' tl heq =>
                  simp at hf
                  have := arrivals_ge cfg.dataTimeout s.reads (d + w) (x2, t2') (by rw [heq]; simp)
                  simp at this; omega
                · simp at hf
              · simp at hexp
          have hi1 : interrupted s.cancel 0 d = none :=
            (interrupted_none_iff s.cancel 0 d).mpr (by
              refine notAfterCancel_mono s.cancel ?_ ht2; omega)
          have hi2 : interrupted s.cancel d w = none := (interrupted_none_iff s.cancel d w).mpr ht2
          have hdo : dialOp cfg.dialTimeout (.ok d) = (none, d) := by
            simp only [dialOp]
            rcases hconn.1 with h0 | hlt
            · simp [h0]
            · have : ¬ (cfg.dialTimeout ≤ d) := by omega
              simp [this]
          have hres := readLoop_res cfg.dataTimeout s.cancel s.reads (d + w) [] 0 [] (by simp) ht2
          simp only [List.map_nil, List.nil_append, hexp] at hres
          have hok := toOption_some hres
          simp [scan, hdial, hdo, hi1, hconn.2, hw, writeOp, hwt, hi2, hok]
        · simp [hwt] at h
    · simp [hconn] at h


/-- relation between Spec.reply and `expected` once connected and written -/
theorem reply_eq_expected (dialT dataT : Dur) (s : Script) (d w : Dur)
    (hdial : s.dial = .ok d) (hconn : (dialT = 0 ∨ d < dialT) ∧ s.lingerOk = true)
    (hw : s.write = .ok w) (hwt : w < dataT) :
    (reply dialT dataT s).map (fun p => [p.1, p.2]) = expected s.cancel (arrivals dataT (d + w) s.reads) := by
  unfold reply connectedAt greetingSentAfter expected
  simp only [hdial, hconn, and_self, if_true, hw, hwt]
  generalize arrivals dataT (d + w) s.reads = l
  match l with
  | [] => simp [firstTwo]
  | [x] => simp [firstTwo]
  | (a, t1) :: (b, t2) :: tl =>
    simp only [firstTwo]
    split <;> simp

/-- without such a reply the probe returns an error -/
theorem scan_of_no_reply (cfg : Cfg) (tgt : Target) (s : Script)
    (h : reply cfg.dialTimeout cfg.dataTimeout s = none) :
    ∃ e, (scan cfg tgt s).outcome = .error e := by
  unfold scan
  cases hdo : dialOp cfg.dialTimeout s.dial with
  | mk dres de =>
    simp only
    cases hi1 : interrupted s.cancel 0 de with
    | some t => exact ⟨_, rfl⟩
    | none =>
      simp only
      cases dres with
      | some e => exact ⟨_, rfl⟩
      | none =>
        simp only
        by_cases hl : s.lingerOk = true
        · simp only [hl, Bool.not_true, Bool.false_eq_true, if_false]
          cases hwo : writeOp cfg.dataTimeout s.write with
          | mk wres we =>
            simp only
            cases hi2 : interrupted s.cancel de we with
            | some t => exact ⟨_, rfl⟩
            | none =>
              simp only
              cases wres with
              | some x => exact ⟨_, rfl⟩
              | none =>
                simp only
                -- connected and written: the script says so
                have hdial : s.dial = .ok de ∧ (cfg.dialTimeout = 0 ∨ de < cfg.dialTimeout) := by
                  cases hd : s.dial with
                  | ok d =>
                    simp only [hd, dialOp] at hdo
                    split at hdo
                    · simp at hdo
                    · next hn =>
                      simp at hdo
                      subst hdo
                      refine ⟨rfl, ?_⟩
                      by_cases h0 : cfg.dialTimeout = 0
                      · exact Or.inl h0
                      · right
                        have : ¬ (cfg.dialTimeout ≤ d) := fun hle => hn ⟨h0, hle⟩
                        omega
                  | refused d => simp only [hd, dialOp] at hdo; split at hdo <;> simp at hdo
                  | silent g => simp only [hd, dialOp] at hdo; split at hdo <;> simp at hdo
                have hwr : s.write = .ok we ∧ we < cfg.dataTimeout := by
                  cases hwv : s.write with
                  | ok w =>
                    simp only [hwv, writeOp] at hwo
                    split at hwo
                    · next hlt => simp at hwo; subst hwo; exact ⟨rfl, hlt⟩
                    · simp at hwo
                  | reset w => simp only [hwv, writeOp] at hwo; split at hwo <;> simp at hwo
                  | stall => simp [hwv, writeOp] at hwo
                have hc : notAfterCancel s.cancel (de + we) = true := (interrupted_none_iff _ _ _).mp hi2
                have hres := readLoop_res cfg.dataTimeout s.cancel s.reads (de + we) [] 0 [] (by simp) hc
                have hre := reply_eq_expected cfg.dialTimeout cfg.dataTimeout s de we hdial.1 ⟨hdial.2, hl⟩ hwr.1 hwr.2
                simp only [List.map_nil, List.nil_append] at hres
                rw [← hre, h] at hres
                simp only [Option.map_none] at hres
                obtain ⟨e, he⟩ := toOption_none hres
                rw [he]
                exact ⟨_, rfl⟩
        · simp only [hl, Bool.not_false, if_true]
          exact ⟨_, rfl⟩


/-! ### the three outcomes, characterised -/

theorem verdict_pair (cfg : Cfg) (tgt : Target) (a b : UInt8) :
    verdict cfg tgt [a, b] = if a == cfg.expectVer && b == cfg.expectMethod then .reported tgt else .nothing := rfl

theorem scan_reported_iff (cfg : Cfg) (tgt : Target) (s : Script) :
    (scan cfg tgt s).outcome = .reported tgt ↔
      reply cfg.dialTimeout cfg.dataTimeout s = some (cfg.expectVer, cfg.expectMethod) := by
  cases hr : reply cfg.dialTimeout cfg.dataTimeout s with
  | none =>
    obtain ⟨e, he⟩ := scan_of_no_reply cfg tgt s hr
    simp [he]
  | some p =>
    obtain ⟨a, b⟩ := p
    rw [scan_of_reply cfg tgt s a b hr, verdict_pair]
    by_cases h : (a == cfg.expectVer && b == cfg.expectMethod) = true
    · simp only [h, if_true, true_iff]
      simp only [Bool.and_eq_true, beq_iff_eq] at h
      rw [h.1, h.2]
    · have hf : (a == cfg.expectVer && b == cfg.expectMethod) = false := by simpa using h
      simp only [hf, Bool.false_eq_true, if_false]
      simp only [Bool.and_eq_true, beq_iff_eq] at h
      constructor
      · intro hc; cases hc
      · intro hc
        simp only [Option.some.injEq, Prod.mk.injEq] at hc
        exact absurd hc h

theorem scan_record (cfg : Cfg) (tgt t : Target) (s : Script)
    (h : (scan cfg tgt s).outcome = .reported t) : t = tgt := by
  cases hr : reply cfg.dialTimeout cfg.dataTimeout s with
  | none =>
    obtain ⟨e, he⟩ := scan_of_no_reply cfg tgt s hr
    rw [he] at h; cases h
  | some p =>
    obtain ⟨a, b⟩ := p
    rw [scan_of_reply cfg tgt s a b hr, verdict_pair] at h
    split at h
    · cases h; rfl
    · cases h

theorem scan_nothing_iff (cfg : Cfg) (tgt : Target) (s : Script) :
    (scan cfg tgt s).outcome = .nothing ↔
      ∃ a b, reply cfg.dialTimeout cfg.dataTimeout s = some (a, b) ∧ (a, b) ≠ (cfg.expectVer, cfg.expectMethod) := by
  cases hr : reply cfg.dialTimeout cfg.dataTimeout s with
  | none =>
    obtain ⟨e, he⟩ := scan_of_no_reply cfg tgt s hr
    simp [he]
  | some p =>
    obtain ⟨a, b⟩ := p
    rw [scan_of_reply cfg tgt s a b hr, verdict_pair]
    by_cases h : (a == cfg.expectVer && b == cfg.expectMethod) = true
    · simp only [h, if_true]
      simp only [Bool.and_eq_true, beq_iff_eq] at h
      constructor
      · intro hc; cases hc
      · rintro ⟨a', b', heq, hne⟩
        simp only [Option.some.injEq, Prod.mk.injEq] at heq
        exact absurd (by rw [← heq.1, ← heq.2, h.1, h.2]) hne
    · have hf : (a == cfg.expectVer && b == cfg.expectMethod) = false := by simpa using h
      simp only [hf, Bool.false_eq_true, if_false, true_iff]
      simp only [Bool.and_eq_true, beq_iff_eq] at h
      exact ⟨a, b, rfl, by simpa using h⟩

theorem scan_error_iff (cfg : Cfg) (tgt : Target) (s : Script) :
    (∃ e, (scan cfg tgt s).outcome = .error e) ↔ reply cfg.dialTimeout cfg.dataTimeout s = none := by
  cases hr : reply cfg.dialTimeout cfg.dataTimeout s with
  | none => simpa using scan_of_no_reply cfg tgt s hr
  | some p =>
    obtain ⟨a, b⟩ := p
    rw [scan_of_reply cfg tgt s a b hr, verdict_pair]
    split <;> simp

/-! ### `MethodRequest.WriteTo` -/

theorem greeting_parses_iff (ver : UInt8) (methods : List UInt8) :
    parseGreeting (greeting ver methods) = some (ver, methods) ↔ methods.length ≤ 255 := by
  simp only [greeting, parseGreeting, UInt8.toNat_ofNat']
  constructor
  · intro h
    split at h
    · next heq => omega
    · cases h
  · intro h
    have : methods.length = methods.length % 2 ^ 8 := by omega
    simp [← this]

/-- whatever `Scan` hands to `conn.Write` is the one greeting of the configuration -/
theorem scan_wrote (cfg : Cfg) (tgt : Target) (s : Script) :
    (scan cfg tgt s).wrote = none ∨ (scan cfg tgt s).wrote = some (greeting cfg.version cfg.methods) := by
  unfold scan
  cases dialOp cfg.dialTimeout s.dial with
  | mk dres de =>
    simp only
    cases interrupted s.cancel 0 de with
    | some t => simp
    | none =>
      cases dres with
      | some e => simp
      | none =>
        simp only
        cases s.lingerOk with
        | false => simp
        | true =>
          simp only [Bool.not_true, Bool.false_eq_true, if_false]
          cases writeOp cfg.dataTimeout s.write with
          | mk wres we =>
            simp only
            cases interrupted s.cancel de we with
            | some t => simp
            | none =>
              cases wres with
              | some x => simp
              | none =>
                simp only
                cases (readLoop cfg.dataTimeout s.cancel 2 s.reads (de + we) [] 0 []).res <;> simp

end SxVerif.Proofs.Socks
