/-
Preservation of the accounting invariants `Inv2` by every step that leaves `cmdCtx = false`.
-/
import SxVerif.Proofs.EngineCount

namespace SxVerif.Engine

variable {c : Cfg} {reqs : List Req} {s s' : Sys}

theorem inv2_step_a (hW : 0 < c.W) (h0 : Inv0 c s) (h1 : Inv1 c s)
    (h : Inv2 reqs s) (hs : StepR c s s') (hnc : s'.cmdCtx = false) :
    (s'.recvd ++ s'.pending = reqs) ∧ (anyExited s'.workers = true → s'.pending = [] ∧ s'.reqClosed = true) := by
  have hder := nc_der h0 h1
  have hae := @allExited_anyExited s.workers
  obtain ⟨c1, c2, c3, c4, c5, c6, c7⟩ := h
  clear c3 c4 c5 c6 c7 h0 h1
  cases hs <;> simp_all <;> grind

theorem inv2_step_b (h0 : Inv0 c s) (h1 : Inv1 c s)
    (h : Inv2 reqs s) (hs : StepR c s s') (hnc : s'.cmdCtx = false) :
    ∀ x, List.count x s'.scans + List.count x (holdGot s'.workers) = List.count x (s'.recvd.filter isOk) := by
  have hder := nc_der h0 h1
  obtain ⟨c1, c2, c3, c4, c5, c6, c7⟩ := h
  clear c1 c2 c4 c5 c6 c7 h0 h1
  intro x
  have hx := c3 x
  clear c3
  cases hs <;> simp_all [List.count_cons, isOk] <;> grind

theorem inv2_step_c (h0 : Inv0 c s) (h1 : Inv1 c s)
    (h : Inv2 reqs s) (hs : StepR c s s') (hnc : s'.cmdCtx = false) :
    ∀ v, List.count v s'.puts + List.count v (holdPut s'.workers)
      = List.count v ((s'.scans.filter isPos).map (·.id)) + List.count v s'.extPuts := by
  have hder := nc_der h0 h1
  obtain ⟨c1, c2, c3, c4, c5, c6, c7⟩ := h
  clear c1 c2 c3 c5 c6 c7 h0 h1
  intro x
  have hx := c4 x
  clear c4
  cases hs <;> simp_all [List.count_cons, isPos] <;> grind

theorem inv2_step_d (h0 : Inv0 c s) (h1 : Inv1 c s)
    (h : Inv2 reqs s) (hs : StepR c s s') (hnc : s'.cmdCtx = false) :
    ∀ v, List.count v s'.errSent + List.count v (holdErr s'.workers)
      = List.count v ((s'.recvd.filter (·.isErr)).map (·.id)) + List.count v ((s'.scans.filter isFail).map (·.id)) := by
  have hder := nc_der h0 h1
  have hpan : s.errcClosed = true → allExited s.workers = true := by
    intro he
    have := h0.errcClosed.mp he
    exact (h0.supDone (by rcases this with h | h <;> simp [h])).2
  obtain ⟨c1, c2, c3, c4, c5, c6, c7⟩ := h
  clear c1 c2 c3 c4 c6 c7 h0 h1
  intro x
  have hx := c5 x
  clear c5
  cases hs <;> simp_all [List.count_cons, isFail] <;> grind

theorem inv2_step_e (h0 : Inv0 c s) (h : Inv2 reqs s) (hs : StepR c s s') (hnc : s'.cmdCtx = false) :
    (s'.printed ++ logHand s'.log ++ s'.results ++ copHand s'.cop ++ s'.intRes = s'.puts) ∧
    (s'.extReads = s'.extPuts ++ extHand s'.extPc) := by
  have hres := h0.resClosed
  obtain ⟨c1, c2, c3, c4, c5, c6, c7⟩ := h
  clear c1 c2 c3 c4 c5 h0
  cases hs <;> simp_all [logHand, copHand, extHand] <;> grind

theorem inv2_step (hW : 0 < c.W) (h0 : Inv0 c s) (h1 : Inv1 c s)
    (h : Inv2 reqs s) (hs : StepR c s s') (hnc : s'.cmdCtx = false) : Inv2 reqs s' :=
  ⟨(inv2_step_a hW h0 h1 h hs hnc).1, (inv2_step_a hW h0 h1 h hs hnc).2, inv2_step_b h0 h1 h hs hnc,
   inv2_step_c h0 h1 h hs hnc, inv2_step_d h0 h1 h hs hnc, (inv2_step_e h0 h hs hnc).1, (inv2_step_e h0 h hs hnc).2⟩

/-- `cmdCtx` never goes back to false -/
theorem cmdCtx_mono (hs : StepR c s s') (h : s'.cmdCtx = false) : s.cmdCtx = false := by
  cases hs <;> simp_all

/-- the accounting invariants hold in every reachable state in which Ctrl-C has not happened -/
theorem inv2 {ext : List (Nat × Nat)} (hW : 0 < c.W) (hr : Reachable c (init reqs ext) s) :
    s.cmdCtx = false → Inv2 reqs s :=
  Reachable.inv (fun s => s.cmdCtx = false → Inv2 reqs s) (fun _ => inv2_init reqs ext)
    (fun _ _ hr h hs hnc => inv2_step hW (inv0 hr) (inv1 hr) (h (cmdCtx_mono hs hnc)) hs hnc) s hr

/-- the error path is FIFO on every path (the drain has no ctx) -/
theorem errFifo_step (h : s.errLogged ++ drainHand s.drain ++ s.errc = s.errSent) (hs : StepR c s s') :
    s'.errLogged ++ drainHand s'.drain ++ s'.errc = s'.errSent := by
  cases hs <;> simp_all [drainHand] <;> grind

theorem errFifo {ext : List (Nat × Nat)} (hr : Reachable c (init reqs ext) s) :
    s.errLogged ++ drainHand s.drain ++ s.errc = s.errSent :=
  Reachable.inv (fun s => s.errLogged ++ drainHand s.drain ++ s.errc = s.errSent) (by simp [init, drainHand])
    (fun _ _ _ h hs => errFifo_step h hs) s hr

end SxVerif.Engine
