/-
C01 for the application scans (socks / docker / elastic): C01's coverage of the request stream (`generic_cover`)
composed with the generic engine's exactly-once theorems (Proofs/EngineC08) over the embedding
`Compose.engReqs`.  Also the lookup lemmas (identity = position in the stream) shared with C13's composition.
-/
import SxVerif.Proofs.ComposeGen
import SxVerif.Proofs.EngineC08

namespace SxVerif.Proofs.Compose
open SxVerif.Gen SxVerif.Spec.Gen SxVerif.RangeIter SxVerif.Proofs.Gen SxVerif.Compose SxVerif.Spec.Compose
open SxVerif.Engine (isOk)

/-! ### identity = position: looking a request of the embedded stream up by its `id` gives it back -/

theorem engReqsFrom_lookup (orc : Nat → Engine.Outcome) (p : Engine.Req → Bool) (q : Req → Bool)
    (hpq : ∀ i r, p (engReq orc i r) = q r) :
    ∀ (rs pre : List Req),
      ((engReqsFrom orc pre.length rs).filter p).map (fun e => (pre ++ rs)[e.id]?) = (rs.filter q).map some
  | [], _ => rfl
  | r :: rs, pre => by
    have ih := engReqsFrom_lookup orc p q hpq rs (pre ++ [r])
    rw [List.length_append, List.length_singleton, List.append_assoc, List.singleton_append] at ih
    rw [engReqsFrom, List.filter_cons, List.filter_cons, hpq]
    by_cases hq : q r = true
    · simp only [hq, if_true, List.map_cons, ih]
      congr 1
      simp [engReq]
    · simp only [hq, Bool.false_eq_true, if_false, ih]

theorem engReqs_lookup (orc : Nat → Engine.Outcome) (p : Engine.Req → Bool) (q : Req → Bool)
    (hpq : ∀ i r, p (engReq orc i r) = q r) (rs : List Req) :
    ((engReqs orc rs).filter p).map (fun e => rs[e.id]?) = (rs.filter q).map some := by
  simpa [engReqs] using engReqsFrom_lookup orc p q hpq rs []

/-- the targets of the ok requests of the embedded stream -/
theorem engReqs_targets (orc : Nat → Engine.Outcome) (rs : List Req) :
    ((engReqs orc rs).filter isOk).map (fun e => targetAt rs e.id) = (rs.filter (·.err.isNone)).map probeOf := by
  have h := congrArg (List.map (fun o : Option Req => o.bind probeOf))
    (engReqs_lookup orc isOk (·.err.isNone) (fun i r => by cases h : r.err <;> simp [isOk, engReq, h]) rs)
  simpa [List.map_map, Function.comp_def, targetAt] using h

/-- the causes of the error requests of the embedded stream -/
theorem engReqs_causes (orc : Nat → Engine.Outcome) (rs : List Req) :
    ((engReqs orc rs).filter (·.isErr)).map (fun e => causeAt rs e.id) = (rs.filter (·.err.isSome)).map (·.err) := by
  have h := congrArg (List.map (fun o : Option Req => o.bind (·.err)))
    (engReqs_lookup orc (·.isErr) (·.err.isSome) (fun i r => rfl) rs)
  simpa [List.map_map, Function.comp_def, causeAt] using h

/-- an ok request of the embedded stream carries no cause -/
theorem engReqs_ok_cause (orc : Nat → Engine.Outcome) (rs : List Req) :
    ∀ e ∈ (engReqs orc rs).filter isOk, causeAt rs e.id = none := by
  have h := congrArg (List.map (fun o : Option Req => o.bind (·.err)))
    (engReqs_lookup orc isOk (·.err.isNone) (fun i r => by cases h : r.err <;> simp [isOk, engReq, h]) rs)
  simp only [List.map_map, Function.comp_def] at h
  intro e he
  have hmem : causeAt rs e.id ∈ ((engReqs orc rs).filter isOk).map (fun e => (rs[e.id]?).bind (·.err)) :=
    List.mem_map_of_mem (f := fun e => (rs[e.id]?).bind (·.err)) he
  rw [h, List.mem_map] at hmem
  obtain ⟨r, hr, heq⟩ := hmem
  have := (List.mem_filter.mp hr).2
  rw [← heq]
  cases hre : r.err with
  | none => simp [hre]
  | some c => simp [hre] at this

/-! ### C01, application scans -/

/-- `generic_cover` with the destinations exposed -/
theorem generic_cover_tgts (tbl : List Group) (htbl : ∀ r ∈ tbl, SxVerif.Pratt.RowOK r)
    (hsorted : List.Pairwise (fun a b : Group => a.P < b.P) tbl)
    (hpmax : (tbl.map (·.P)).foldl max 0 = 2 ^ 32 + 61)
    (s : Spec) (content : List Line) (h : PairSpecOK s content) (dp di : Draws) :
    ∃ rs, genericRun tbl s dp di = .ok rs ∧
      (rs.map tgt).Perm ((expectedPairs s content).map (fun ap => (some ap.1, ap.2))) ∧
      ∀ r ∈ rs, r.err = none := by
  obtain ⟨b, hb, hbp⟩ := base_cover_all tbl htbl hsorted hpmax s content h dp di 0
  have hrun : genericRun tbl s dp di = .ok (stageList s.excl none b) := by
    have : genericRun tbl s dp di = stages s.excl none (ipPortBase tbl s s.ports dp di 0) := rfl
    rw [this, hb, stages_ok]
  have hg := good_of_perm s.excl none (denotePairs s content) b hbp
  exact ⟨_, hrun, hg.tgts, hg.noerr (Or.inl rfl)⟩

theorem map_probeOf_noerr (rs : List Req) (hne : ∀ r ∈ rs, r.err = none) :
    (rs.filter (·.err.isNone)).map probeOf = (rs.map tgt).map (fun dp => dp.1.map (fun a => (a, dp.2))) := by
  rw [List.filter_eq_self.mpr (fun r hr => by simp [hne r hr]), List.map_map]
  apply List.map_congr_left
  intro r hr
  have he := hne r hr
  cases hd : r.dst <;> simp [probeOf, tgt, he, hd]

/-- **C01 for socks / docker / elastic at the `Scan` calls** -/
theorem scan_targets (tbl : List Group) (htbl : ∀ r ∈ tbl, SxVerif.Pratt.RowOK r)
    (hsorted : List.Pairwise (fun a b : Group => a.P < b.P) tbl)
    (hpmax : (tbl.map (·.P)).foldl max 0 = 2 ^ 32 + 61)
    (s : Spec) (content : List Line) (h : PairSpecOK s content) (dp di : Draws) :
    ∃ rs, genericRun tbl s dp di = .ok rs ∧ (probes rs).Perm (expectedPairs s content) ∧
      (∀ r ∈ rs, r.err = none) ∧
      ∀ (c : Engine.Cfg) (orc : Nat → Engine.Outcome) (st : Engine.Sys), 0 < c.W →
        Engine.Reachable c (Engine.init (engReqs orc rs) []) st → st.cmdCtx = false →
        ((st.scans.map (fun e => targetAt rs e.id)).Subperm ((expectedPairs s content).map some)) ∧
        (st.doneClosed = true →
          (st.scans.map (fun e => targetAt rs e.id)).Perm ((expectedPairs s content).map some)) := by
  obtain ⟨rs, hrun, htg, hne⟩ := generic_cover_tgts tbl htbl hsorted hpmax s content h dp di
  refine ⟨rs, hrun, probes_perm_of_targets rs _ htg hne, hne, fun c orc st hW hr hnc => ?_⟩
  have hall : (((engReqs orc rs).filter isOk).map (fun e => targetAt rs e.id)).Perm
      ((expectedPairs s content).map some) := by
    rw [engReqs_targets, map_probeOf_noerr rs hne]
    refine (htg.map _).trans ?_
    rw [List.map_map]
    exact List.Perm.of_eq (List.map_congr_left (fun ap _ => rfl))
  have h2 := Engine.inv2 hW hr hnc
  constructor
  · -- at every moment: what was scanned so far is part of what was received, which is part of the stream
    have h1 : st.scans.Subperm (st.recvd.filter isOk) :=
      (List.sublist_append_left _ _).subperm.trans (Engine.scans_perm h2).subperm
    have h3 : (st.recvd.filter isOk).Subperm ((engReqs orc rs).filter isOk) := by
      have : List.Sublist st.recvd (engReqs orc rs) := by rw [← h2.handoff]; exact List.sublist_append_left _ _
      exact (this.filter _).subperm
    obtain ⟨l0, hp0, hs0⟩ := h1.trans h3
    exact (List.Subperm.trans ⟨l0.map _, hp0.map _, hs0.map _⟩ hall.subperm)
  · intro hd
    exact ((Engine.scans_final hW (Engine.inv0 hr) h2 hd).map _).trans hall

end SxVerif.Proofs.Compose
