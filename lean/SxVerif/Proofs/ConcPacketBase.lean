/-
List lemmas and local-step facts shared by the ConcPacket* proofs.
-/
import SxVerif.Model.PipeDesc

namespace SxVerif.Pipe

theorem sum_map_set {α} (f : α → Nat) {l : List α} {i : Nat} {a : α} (b : α) (h : l[i]? = some a) :
    ((l.set i b).map f).sum + f a = (l.map f).sum + f b := by
  induction l generalizing i with
  | nil => simp at h
  | cons x xs ih =>
    cases i with
    | zero => simp at h; subst h; simp [List.set]; omega
    | succ i =>
      simp at h
      have := ih h
      simp only [List.set_cons_succ, List.map_cons, List.sum_cons]; omega

theorem countP_set' {α} (p : α → Bool) {l : List α} {i : Nat} {a : α} (b : α) (h : l[i]? = some a) :
    (l.set i b).countP p + (if p a then 1 else 0) = l.countP p + (if p b then 1 else 0) := by
  induction l generalizing i with
  | nil => simp at h
  | cons x xs ih =>
    cases i with
    | zero => simp at h; subst h; simp [List.set, List.countP_cons]; omega
    | succ i =>
      simp at h
      have := ih h
      simp only [List.set_cons_succ, List.countP_cons]; omega

theorem forall_mem_set {α} {P : α → Prop} {l : List α} {i : Nat} {b : α}
    (h : ∀ x ∈ l, P x) (hb : P b) : ∀ x ∈ l.set i b, P x := by
  intro x hx
  rcases List.mem_or_eq_of_mem_set hx with h1 | h1
  · exact h x h1
  · exact h1 ▸ hb

theorem mem_set_of_getElem? {α} {l : List α} {i : Nat} {a b : α} (h : l[i]? = some a) : b ∈ l.set i b := by
  have : i < l.length := by
    rcases List.getElem?_eq_some_iff.mp h with ⟨h1, _⟩; exact h1
  exact List.mem_set this b

/-- every other element of `l.set i b` was in `l` at another index; used through `eraseIdx`-free facts -/
theorem exists_of_forall_set {α} {P : α → Prop} {l : List α} {i : Nat} {a b : α} (h : l[i]? = some a)
    (hall : ∀ x ∈ l.set i b, P x) : P b := hall b (mem_set_of_getElem? h)

theorem sendOn_some {α} {cap : Option Nat} {c c' : Chan α} {v : α} {pn : Bool}
    (h : sendOn cap c v = some (c', pn)) :
    c'.closed = c.closed ∧ pn = c.closed ∧ (c.closed = false → c'.buf = c.buf ++ [v]) ∧ (c.closed = true → c' = c) ∧
    (c.closed = false → ∀ k, cap = some k → c.buf.length < k) := by
  unfold sendOn at h
  cases hcl : c.closed <;> simp [hcl] at h
  · cases cap with
    | none => simp at h; obtain ⟨rfl, rfl⟩ := h; simp [hcl]
    | some k =>
      simp at h; obtain ⟨hk, rfl, rfl⟩ := h; simp [hcl, hk]
  · obtain ⟨rfl, rfl⟩ := h; simp [hcl]

end SxVerif.Pipe
