/-
Pratt certificates: a *checker* (`checkCerts`, plain `Bool` code) proved sound once
(`checkCerts_sound`), then run by the kernel (`decide`) on the certificate list that `sxfacts`
regenerates from `cyclicGroups` on every run.  Nothing generated is trusted.
-/
import Mathlib.NumberTheory.LucasPrimality
import Mathlib.GroupTheory.OrderOfElement
import Mathlib.Data.ZMod.Basic
import SxVerif.Model.RangeIter

namespace SxVerif.Pratt
open SxVerif.RangeIter

theorem powModF_eq (f b e m : Nat) (h : e ≤ f) : powModF f b e m = b ^ e % m := by
  induction f generalizing e with
  | zero =>
    have : e = 0 := by omega
    subst this; simp [powModF]
  | succ f ih =>
    unfold powModF
    by_cases he : e = 0
    · subst he; simp
    · simp only [he, if_false]
      have hle : e / 2 ≤ f := by omega
      rw [ih (e / 2) hle]
      have hsq : (b ^ (e / 2) % m) * (b ^ (e / 2) % m) % m = b ^ (2 * (e / 2)) % m := by
        rw [← Nat.mul_mod, two_mul, pow_add]
      rw [hsq]
      by_cases hodd : e % 2 = 1
      · simp only [hodd, if_true]
        have : e = 2 * (e / 2) + 1 := by omega
        conv_rhs => rw [this, pow_succ]
        rw [Nat.mul_mod, Nat.mod_mod, ← Nat.mul_mod]
      · simp only [hodd, if_false]
        have : e = 2 * (e / 2) := by omega
        conv_rhs => rw [this]

theorem powMod_eq (b e m : Nat) : powMod b e m = b ^ e % m :=
  powModF_eq e b e m (Nat.le_refl e)

/-- one certificate entry `(p, g, [(q, a), …])` is accepted given the primes proved so far -/
def checkEntry (proven : List Nat) (c : Nat × Nat × List (Nat × Nat)) : Bool :=
  let p := c.1; let g := c.2.1; let fs := c.2.2
  decide (1 < p) &&
  fs.all (fun qa => proven.contains qa.1) &&
  decide ((fs.map (fun qa => qa.1 ^ qa.2)).prod = p - 1) &&
  decide (powMod g (p - 1) p = 1) &&
  fs.all (fun qa => decide (powMod g ((p - 1) / qa.1) p ≠ 1))

/-- fold over the certificate list; `2` is prime outright -/
def checkCertsFrom : List Nat → List (Nat × Nat × List (Nat × Nat)) → Bool
  | _, [] => true
  | proven, c :: cs => checkEntry proven c && checkCertsFrom (c.1 :: proven) cs

def checkCerts (cs : List (Nat × Nat × List (Nat × Nat))) : Bool := checkCertsFrom [2] cs

/-- what an accepted entry means -/
def EntryOK (c : Nat × Nat × List (Nat × Nat)) : Prop :=
  c.1.Prime ∧ orderOf (c.2.1 : ZMod c.1) = c.1 - 1

theorem lucas_cert (p g : Nat) (hp : 1 < p) (h1 : g ^ (p - 1) % p = 1)
    (hq : ∀ q : ℕ, q.Prime → q ∣ p - 1 → g ^ ((p - 1) / q) % p ≠ 1) :
    p.Prime ∧ orderOf (g : ZMod p) = p - 1 := by
  have one_mod : (1 : ℕ) % p = 1 := Nat.mod_eq_of_lt hp
  have e1 : (g : ZMod p) ^ (p - 1) = 1 := by
    have : ((g ^ (p - 1) : ℕ) : ZMod p) = ((1 : ℕ) : ZMod p) := by
      rw [ZMod.natCast_eq_natCast_iff']; rw [h1, one_mod]
    simpa using this
  have e2 : ∀ q : ℕ, q.Prime → q ∣ p - 1 → (g : ZMod p) ^ ((p - 1) / q) ≠ 1 := by
    intro q hqp hqd hcontra
    apply hq q hqp hqd
    have : ((g ^ ((p - 1) / q) : ℕ) : ZMod p) = ((1 : ℕ) : ZMod p) := by simpa using hcontra
    rw [ZMod.natCast_eq_natCast_iff'] at this
    rw [this, one_mod]
  refine ⟨lucas_primality p (g : ZMod p) e1 e2, ?_⟩
  exact orderOf_eq_of_pow_and_pow_div_prime (by omega) e1 e2

theorem checkEntry_sound (proven : List Nat) (hproven : ∀ q ∈ proven, q.Prime)
    (c : Nat × Nat × List (Nat × Nat)) (h : checkEntry proven c = true) : EntryOK c := by
  obtain ⟨p, g, fs⟩ := c
  simp only [checkEntry, Bool.and_eq_true, decide_eq_true_eq, List.all_eq_true,
    List.contains_iff_mem] at h
  obtain ⟨⟨⟨⟨hp, hmem⟩, hprod⟩, h1⟩, hne⟩ := h
  rw [powMod_eq] at h1
  apply lucas_cert p g hp h1
  intro q hq hdvd
  -- q divides the product of the q_i ^ a_i, hence one of them, hence equals a listed prime
  rw [← hprod] at hdvd
  obtain ⟨x, hx, hqx⟩ := (Prime.dvd_prod_iff hq.prime).mp hdvd
  rw [List.mem_map] at hx
  obtain ⟨qa, hqa, rfl⟩ := hx
  have hq' : q ∣ qa.1 := hq.dvd_of_dvd_pow hqx
  have hqaP : qa.1.Prime := hproven _ (hmem qa hqa)
  have : q = qa.1 := (Nat.prime_dvd_prime_iff_eq hq hqaP).mp hq'
  subst this
  have := hne qa hqa
  rwa [powMod_eq] at this

theorem checkCertsFrom_sound (proven : List Nat) (hproven : ∀ q ∈ proven, q.Prime)
    (cs : List (Nat × Nat × List (Nat × Nat))) (h : checkCertsFrom proven cs = true) :
    ∀ c ∈ cs, EntryOK c := by
  induction cs generalizing proven with
  | nil => intro c hc; cases hc
  | cons c cs ih =>
    simp only [checkCertsFrom, Bool.and_eq_true] at h
    have hc := checkEntry_sound proven hproven c h.1
    intro d hd
    rcases List.mem_cons.mp hd with rfl | hd
    · exact hc
    · refine ih (c.1 :: proven) ?_ h.2 d hd
      intro q hq
      rcases List.mem_cons.mp hq with rfl | hq
      · exact hc.1
      · exact hproven q hq

theorem checkCerts_sound (cs : List (Nat × Nat × List (Nat × Nat))) (h : checkCerts cs = true) :
    ∀ c ∈ cs, EntryOK c :=
  checkCertsFrom_sound [2] (by intro q hq; simp at hq; subst hq; exact Nat.prime_two) cs h

/-- a table row is backed by a certificate whose witness is the row's own `G`, and `N ⟂ P-1` -/
def rowBacked (cs : List (Nat × Nat × List (Nat × Nat))) (r : Group) : Bool :=
  cs.any (fun c => c.1 == r.P && c.2.1 == r.G) && decide (Nat.gcd r.N (r.P - 1) = 1)

structure RowOK (r : Group) : Prop where
  prime : r.P.Prime
  gen : orderOf (r.G : ZMod r.P) = r.P - 1
  coprime : Nat.Coprime r.N (r.P - 1)

theorem rowBacked_sound (cs) (hcs : checkCerts cs = true) (r : Group) (h : rowBacked cs r = true) :
    RowOK r := by
  simp only [rowBacked, Bool.and_eq_true, List.any_eq_true, beq_iff_eq, decide_eq_true_eq] at h
  obtain ⟨⟨c, hc, hP, hG⟩, hgcd⟩ := h
  have := checkCerts_sound cs hcs c hc
  unfold EntryOK at this
  rw [hP, hG] at this
  exact ⟨this.1, this.2, hgcd⟩

end SxVerif.Pratt
