/-
Packet-side lemmas for C12 (cancellation): on the system with `cancel` enabled in every state,
  * `packet_no_panic_under_cancel`       (in ConcPacketSafe)
  * `packet_errc_closes_after_cancel`    from every reachable cancelled state the three goroutines that
    stand between the scan and the end of its error stream (the two mergeErrChan multiplexers and their
    closer) can finish by at most 8 steps OF THEIR OWN, whatever state every other process is in — none of
    their blocking operations waits for anybody once ctx is cancelled (GuardedOnReturnPath).
-/
import SxVerif.Proofs.ConcPacketSafe

namespace SxVerif.Pipe

/-- events of the goroutines on the return path of the merged error channel -/
def isReturnEv : Event → Bool
  | .emux _ _ => true
  | .ecloser _ => true
  | _ => false

theorem run_append {cfg inp} (s : Sys) (a b : List Event) :
    run cfg inp s (a ++ b) = (run cfg inp s a).bind (fun s' => run cfg inp s' b) := by
  induction a generalizing s with
  | nil => simp [run]
  | cons e es ih =>
    simp only [List.cons_append, run]
    cases step cfg inp s e with
    | none => simp
    | some s1 => simp [ih]

theorem reachable_run {cfg inp s s'} (evs : List Event) (h : Reachable cfg inp s) (hr : run cfg inp s evs = some s') :
    Reachable cfg inp s' := by
  induction evs generalizing s with
  | nil => simp [run] at hr; exact hr ▸ h
  | cons e es ih =>
    simp only [run] at hr
    cases hst : step cfg inp s e with
    | none => simp [hst] at hr
    | some s1 => simp [hst] at hr; exact ih (.step h ⟨e, hst⟩) hr

def mrank : MState → Nat
  | .finished => 0 | .exiting => 1 | .idle => 2 | .holding _ => 3

theorem em1_progress {cfg inp} (s : Sys) (hg : cfg.ReturnGuarded) (hc : s.ctx = true) (hm : s.em1 ≠ .finished) :
    ∃ e s', isReturnEv e = true ∧ step cfg inp s e = some s' ∧ mrank s'.em1 < mrank s.em1 ∧ s'.ctx = true ∧
      s'.em2 = s.em2 ∧ s'.ecloser = s.ecloser := by
  cases hm' : s.em1 with
  | finished => exact absurd hm' hm
  | exiting =>
    refine ⟨.emux false .done, ?_⟩
    simp only [step, hm', muxStep]
    exact ⟨_, rfl, rfl, by simp [mrank], hc, rfl, rfl⟩
  | idle =>
    refine ⟨.emux false .ctx, ?_⟩
    simp only [step, hm', muxStep, hc, hg.recv, Bool.and_self, if_true]
    exact ⟨_, rfl, rfl, by simp [mrank], rfl, rfl, rfl⟩
  | holding p =>
    refine ⟨.emux false .drop, ?_⟩
    simp only [step, hm', muxStep, hc, hg.send, Bool.and_self, if_true]
    exact ⟨_, rfl, rfl, by simp [mrank], rfl, rfl, rfl⟩

theorem em2_progress {cfg inp} (s : Sys) (hg : cfg.ReturnGuarded) (hc : s.ctx = true) (hm : s.em2 ≠ .finished) :
    ∃ e s', isReturnEv e = true ∧ step cfg inp s e = some s' ∧ mrank s'.em2 < mrank s.em2 ∧ s'.ctx = true ∧
      s'.em1 = s.em1 ∧ s'.ecloser = s.ecloser := by
  cases hm' : s.em2 with
  | finished => exact absurd hm' hm
  | exiting =>
    refine ⟨.emux true .done, ?_⟩
    simp only [step, hm', muxStep]
    exact ⟨_, rfl, rfl, by simp [mrank], hc, rfl, rfl⟩
  | idle =>
    refine ⟨.emux true .ctx, ?_⟩
    simp only [step, hm', muxStep, hc, hg.recv, Bool.and_self, if_true]
    exact ⟨_, rfl, rfl, by simp [mrank], rfl, rfl, rfl⟩
  | holding p =>
    refine ⟨.emux true .drop, ?_⟩
    simp only [step, hm', muxStep, hc, hg.send, Bool.and_self, if_true]
    exact ⟨_, rfl, rfl, by simp [mrank], rfl, rfl, rfl⟩

theorem finish_em1 {cfg inp} (hg : cfg.ReturnGuarded) (k : Nat) (s : Sys) (hc : s.ctx = true) (hk : mrank s.em1 ≤ k) :
    ∃ evs s', evs.length ≤ k ∧ (∀ e ∈ evs, isReturnEv e = true) ∧ run cfg inp s evs = some s' ∧
      s'.em1 = .finished ∧ s'.ctx = true ∧ s'.em2 = s.em2 ∧ s'.ecloser = s.ecloser := by
  induction k generalizing s with
  | zero =>
    have : s.em1 = .finished := by cases h : s.em1 <;> simp [h, mrank] at hk ⊢
    exact ⟨[], s, by simp, by simp, by simp [run], this, hc, rfl, rfl⟩
  | succ k ih =>
    by_cases hm : s.em1 = .finished
    · exact ⟨[], s, by simp, by simp, by simp [run], hm, hc, rfl, rfl⟩
    · obtain ⟨e, s1, he, hst, hr, hc1, h2, h3⟩ := em1_progress (cfg := cfg) (inp := inp) s hg hc hm
      obtain ⟨evs, s', hl, hall, hrun, hf, hc', h2', h3'⟩ := ih s1 hc1 (by omega)
      refine ⟨e :: evs, s', by simp; omega, ?_, by simp [run, hst, hrun], hf, hc', by rw [h2', h2], by rw [h3', h3]⟩
      intro x hx; simp at hx; rcases hx with rfl | hx
      · exact he
      · exact hall x hx

theorem finish_em2 {cfg inp} (hg : cfg.ReturnGuarded) (k : Nat) (s : Sys) (hc : s.ctx = true) (hk : mrank s.em2 ≤ k) :
    ∃ evs s', evs.length ≤ k ∧ (∀ e ∈ evs, isReturnEv e = true) ∧ run cfg inp s evs = some s' ∧
      s'.em2 = .finished ∧ s'.ctx = true ∧ s'.em1 = s.em1 ∧ s'.ecloser = s.ecloser := by
  induction k generalizing s with
  | zero =>
    have : s.em2 = .finished := by cases h : s.em2 <;> simp [h, mrank] at hk ⊢
    exact ⟨[], s, by simp, by simp, by simp [run], this, hc, rfl, rfl⟩
  | succ k ih =>
    by_cases hm : s.em2 = .finished
    · exact ⟨[], s, by simp, by simp, by simp [run], hm, hc, rfl, rfl⟩
    · obtain ⟨e, s1, he, hst, hr, hc1, h2, h3⟩ := em2_progress (cfg := cfg) (inp := inp) s hg hc hm
      obtain ⟨evs, s', hl, hall, hrun, hf, hc', h2', h3'⟩ := ih s1 hc1 (by omega)
      refine ⟨e :: evs, s', by simp; omega, ?_, by simp [run, hst, hrun], hf, hc', by rw [h2', h2], by rw [h3', h3]⟩
      intro x hx; simp at hx; rcases hx with rfl | hx
      · exact he
      · exact hall x hx

theorem mrank_le_three (m : MState) : mrank m ≤ 3 := by cases m <;> simp [mrank]

/-- closer part: both multiplexers have returned -/
theorem finish_ecloser {cfg inp} (s : Sys) (hs : Safe cfg s) (h1 : s.em1 = .finished) (h2 : s.em2 = .finished) :
    ∃ evs s', evs.length ≤ 2 ∧ (∀ e ∈ evs, isReturnEv e = true) ∧ run cfg inp s evs = some s' ∧
      s'.merr.closed = true := by
  have hw : s.ewg = 0 := by have := hs.ewgCount; simp [h1, h2, live] at this; exact this
  cases hc : s.ecloser with
  | finished => exact ⟨[], s, by simp, by simp, by simp [run], hs.ecloserFin hc⟩
  | closing =>
    refine ⟨[.ecloser .close], ?_⟩
    simp only [run, step, closerStep, hc, closeCh]
    exact ⟨_, by simp, by simp [isReturnEv], rfl, rfl⟩
  | waiting =>
    refine ⟨[.ecloser .wait, .ecloser .close], ?_⟩
    simp only [run, step, closerStep, hc, closeCh, hw, beq_self_eq_true, Bool.true_or, if_true, decide_true]
    exact ⟨_, by simp, by simp [isReturnEv], rfl, rfl⟩

/-- **the error stream ends after cancel**: from every reachable cancelled state, at most 8 steps of the two
    mergeErrChan multiplexers and their closer — and of nobody else — close the merged error channel. -/
theorem packet_errc_closes_after_cancel {cfg inp s} (hwf : cfg.WF) (hg : cfg.ReturnGuarded)
    (h : Reachable cfg inp s) (hc : s.ctx = true) :
    ∃ evs s', evs.length ≤ 8 ∧ (∀ e ∈ evs, isReturnEv e = true) ∧ run cfg inp s evs = some s' ∧
      s'.merr.closed = true := by
  obtain ⟨ev1, s1, hl1, ha1, hr1, hf1, hc1, _, _⟩ := finish_em1 (cfg := cfg) (inp := inp) hg 3 s hc (mrank_le_three _)
  obtain ⟨ev2, s2, hl2, ha2, hr2, hf2, hc2, he1, _⟩ := finish_em2 (cfg := cfg) (inp := inp) hg 3 s1 hc1 (mrank_le_three _)
  have hreach : Reachable cfg inp s2 := reachable_run ev2 (reachable_run ev1 h hr1) hr2
  obtain ⟨ev3, s3, hl3, ha3, hr3, hcl⟩ :=
    finish_ecloser (cfg := cfg) (inp := inp) s2 (reachable_safe hwf hreach) (by rw [he1, hf1]) hf2
  refine ⟨ev1 ++ ev2 ++ ev3, s3, by simp; omega, ?_, ?_, hcl⟩
  · intro e he; simp at he; rcases he with he | he | he
    · exact ha1 e he
    · exact ha2 e he
    · exact ha3 e he
  · rw [run_append, run_append, hr1]; simp [hr2, hr3]

end SxVerif.Pipe
