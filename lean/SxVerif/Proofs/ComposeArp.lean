/-
C11 ∘ C06: every record the ARP processor model emits renders to a line that `fillCache` loads as exactly
{sender IP of that frame ↦ sender MAC of that frame}.
-/
import SxVerif.Model.ComposeArp
import SxVerif.Spec.Faithful
import SxVerif.Proofs.Frame
import SxVerif.Proofs.ArpCache

namespace SxVerif.Proofs.Compose
open SxVerif.Frame SxVerif.Proc SxVerif.Spec.Frame SxVerif.ArpCache SxVerif.Json SxVerif.Gen SxVerif.Compose

theorem ipNat_eq_macNat (a b c d : UInt8) : ipNat a b c d = macNat [a, b, c, d] := by
  simp [ipNat, macNat]

theorem len4 {l : Bytes} (h : l.length = 4) : ∃ a b c d, l = [a, b, c, d] := by
  match l, h with
  | [a, b, c, d], _ => exact ⟨a, b, c, d, rfl⟩

theorem len6 {l : Bytes} (h : l.length = 6) : ∃ a b c d e f, l = [a, b, c, d, e, f] := by
  match l, h with
  | [a, b, c, d, e, f], _ => exact ⟨a, b, c, d, e, f, rfl⟩

/-- any frame, any prior decoder state, any vendor string -/
theorem printed_line_loads (st : State) (f : Bytes) (r : Record) (vendor : GoStr)
    (h : (process .arp st f).2 = .record r) :
    ∃ v line, arpChain f = some v ∧ arpRecordLine r vendor = some line ∧
      fillCache [line] = some [(.v4 (macNat v.ip) false, macNat v.mac)] := by
  obtain ⟨v, hv, rfl, h4, h6⟩ := (Proofs.Frame.process_faithful .arp st f).2 r h
  obtain ⟨a, b, c, d, hip⟩ := len4 h4
  obtain ⟨m0, m1, m2, m3, m4, m5, hmac⟩ := len6 h6
  refine ⟨v, arpLine a b c d m0 m1 m2 m3 m4 m5 vendor, hv, ?_, ?_⟩
  · rw [hip, hmac]; rfl
  · rw [hip, hmac, ← ipNat_eq_macNat]
    simp [fillCache, Proofs.ArpCache.lineEntry_arpLine]

end SxVerif.Proofs.Compose
