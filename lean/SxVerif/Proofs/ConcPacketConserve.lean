/-
Token conservation of the packet pipeline (runs that are not cancelled): `Conserve` is an invariant of
every step other than `cancel`, under every schedule.
-/
import SxVerif.Proofs.ConcPacketDefs

namespace SxVerif.Pipe

theorem tokOf_of_not_reqErr {r : Req} (h : r.kind ≠ .reqErr) : tokOf r = fillTok r := by
  unfold tokOf fillTok; cases hk : r.kind <;> simp_all

theorem workerStep_toks {cfg w out inp pool nid mem e r}
    (h : workerStep cfg false w out inp pool nid mem e = some r) (hp : r.panic = false) (t : Tok) :
    (wToks r.w).count t + (chanToks r.out).count t =
      (wToks w).count t + (chanToks out).count t + (r.took.toList.map tokOf).count t := by
  cases e <;> cases w <;> simp [workerStep] at h
  all_goals try (subst h; simp [wToks, chanToks]; done)
  · split at h
    · simp at h; subst h
      rename_i q rest _
      by_cases hk : q.kind = .reqErr
      · simp [hk, wToks, pktTok, tokOf]; omega
      · simp [hk, wToks, tokOf_of_not_reqErr hk]; omega
    · split at h <;> simp at h; subst h; simp [wToks]
  · split at h
    · simp at h; subst h; simp [wToks]
    · split at h <;> simp at h; subst h; simp [wToks]
  · split at h <;> simp at h <;> subst h <;> simp_all [wToks, fillTok, pktTok]
  · rename_i p
    cases hs : sendOn (some cfg.capOut) out p with
    | none => simp [hs] at h
    | some x =>
      obtain ⟨c', pn⟩ := x
      simp [hs] at h; subst h
      have hh := sendOn_some hs
      simp at hp; subst hp
      have hb := hh.2.2.1 hh.2.1.symm
      simp [wToks, chanToks, hb, List.count_append]; omega
  · simp [closeCh] at h; subst h; simp [wToks, chanToks]

theorem muxStep_toks {gr gs rd cap m src dst e r}
    (h : muxStep gr gs rd cap false m src dst e = some r) (hp : r.panic = false) (t : Tok) :
    (mToks r.m).count t + (chanToks r.src).count t + (chanToks r.dst).count t =
      (mToks m).count t + (chanToks src).count t + (chanToks dst).count t := by
  cases e <;> cases m <;> simp [muxStep] at h
  all_goals try (subst h; simp [mToks, chanToks]; done)
  · split at h
    · simp at h; subst h; rename_i p rest hb; simp [mToks, chanToks, hb, List.count_cons]; omega
    · split at h <;> simp at h; subst h; simp [mToks]
  · rename_i p
    cases hs : sendOn (some cap) dst p with
    | none => simp [hs] at h
    | some x =>
      obtain ⟨c', pn⟩ := x
      simp [hs] at h; subst h
      have hh := sendOn_some hs
      simp at hp; subst hp
      have hb := hh.2.2.1 hh.2.1.symm
      simp [mToks, chanToks, hb, List.count_append]; omega


theorem sndShape_step {cfg inp s s' ev} (hwf : cfg.WF) (hsh : sndShape s.snd) (h : step cfg inp s ev = some s') :
    sndShape s'.snd := by
  cases ev with
  | sender e =>
    simp only [step] at h
    cases e <;> simp only [senderStep] at h <;> split at h <;> try (simp at h; done)
    · split at h
      · simp at h; subst h; simp [sndShape]
      · simp at h; subst h; simp [sndShape, afterCalls, hwf.calls]
      · split at h <;> simp at h; subst h; simp [sndShape]
    · simp at h; subst h
      rename_i b r rest hsnd
      rw [hsnd] at hsh
      simp [sndShape] at hsh; subst hsh
      simp only []
      split <;> simp [sndShape, afterCalls]
    · simp at h; subst h
      rename_i b r rest hsnd
      rw [hsnd] at hsh
      simp [sndShape] at hsh; subst hsh
      simp [sndShape, afterCalls]
    · rename_i e k hsnd
      cases hso : sendOn (some cfg.capErrc) s.errc1 (Pkt.err e) with
      | none => simp [hso] at h
      | some x =>
        obtain ⟨c', pn⟩ := x
        simp [hso] at h; subst h
        rw [hsnd] at hsh
        rcases hsh with rfl | ⟨b, r, rfl⟩ <;> simp [sndShape]
    · rename_i e k hsnd
      split at h <;> simp at h; subst h
      rw [hsnd] at hsh
      rcases hsh with rfl | ⟨b, r, rfl⟩ <;> simp [sndShape]
    · split at h <;> simp at h; subst h; simp [sndShape]
    · simp at h; subst h; cases firstClose cfg <;> simp [sndShape, senderClose]
    · simp at h; subst h; cases secondClose cfg <;> simp [sndShape, senderClose]
  | worker i e =>
    simp only [step] at h
    split at h <;> try (simp at h; done)
    split at h <;> simp at h; subst h; exact hsh
  | mux i e =>
    simp only [step] at h
    split at h <;> try (simp at h; done)
    split at h <;> simp at h; subst h; exact hsh
  | emux j e =>
    cases j <;> simp only [step] at h <;> split at h <;> simp at h <;> subst h <;> exact hsh
  | closer e =>
    simp only [step] at h
    split at h <;> simp at h; subst h; exact hsh
  | ecloser e =>
    simp only [step] at h
    split at h <;> simp at h; subst h; exact hsh
  | envSend =>
    simp only [step] at h
    split at h <;> try (simp at h; done)
    split at h <;> simp at h; subst h; exact hsh
  | rcvSend =>
    simp only [step] at h
    split at h <;> try (simp at h; done)
    split at h <;> simp at h; subst h; exact hsh
  | envSkip | envClose | rcvSkip | rcvClose =>
    simp only [step] at h
    split at h <;> try (simp at h; done)
    split at h <;> simp at h; subst h; exact hsh
  | consume =>
    simp only [step] at h
    split at h <;> simp at h; subst h; exact hsh
  | cancel => simp [step] at h; subst h; exact hsh
  | gc b =>
    simp only [step] at h
    split at h <;> simp at h; subst h; exact hsh

theorem panic_false_of_or {a b : Bool} (h : (a || b) = false) : b = false := by cases a <;> cases b <;> simp_all

set_option maxHeartbeats 2000000 in
theorem conserve_step {cfg inp s s' ev} (hwf : cfg.WF) (hs : Safe cfg s) (hctx : s.ctx = false)
    (hsh : sndShape s.snd) (hc : Conserve s) (h : step cfg inp s ev = some s') : Conserve s' := by
  have hsafe' := safe_step hwf hs h
  cases ev with
  | worker i e =>
    simp only [step] at h
    split at h <;> try (simp at h; done)
    split at h <;> try (simp at h; done)
    rename_i ln hln _ r hst
    simp at h; subst h
    intro t
    have hpn : r.panic = false := panic_false_of_or hsafe'.noPanic
    rw [hctx] at hst
    have hl := workerStep_toks hst hpn t
    have hsum := sum_map_set (fun l => (laneToks l).count t) { ln with w := r.w, out := r.out } hln
    have := hc t
    simp [inflight, doneToks, sourceToks, List.count_append, List.count_flatMap, laneToks, Function.comp_def]
      at this hsum hl ⊢
    omega
  | mux i e =>
    simp only [step] at h
    split at h <;> try (simp at h; done)
    split at h <;> try (simp at h; done)
    rename_i ln hln _ r hst
    simp at h; subst h
    intro t
    have hpn : r.panic = false := panic_false_of_or hsafe'.noPanic
    rw [hctx] at hst
    have hl := muxStep_toks hst hpn t
    have hsum := sum_map_set (fun l => (laneToks l).count t) { ln with m := r.m, out := r.src } hln
    have := hc t
    simp [inflight, doneToks, sourceToks, List.count_append, List.count_flatMap, laneToks, Function.comp_def]
      at this hsum hl ⊢
    omega
  | emux j e =>
    cases j
    · simp only [step] at h
      split at h <;> try (simp at h; done)
      rename_i r hst
      simp at h; subst h
      intro t
      have hpn : r.panic = false := panic_false_of_or hsafe'.noPanic
      rw [hctx] at hst
      have hl := muxStep_toks hst hpn t
      have := hc t
      simp [inflight, doneToks, sourceToks, List.count_append] at this hl ⊢
      omega
    · simp only [step] at h
      split at h <;> try (simp at h; done)
      rename_i r hst
      simp at h; subst h
      intro t
      have hpn : r.panic = false := panic_false_of_or hsafe'.noPanic
      rw [hctx] at hst
      have hl := muxStep_toks hst hpn t
      have := hc t
      simp [inflight, doneToks, sourceToks, List.count_append] at this hl ⊢
      omega
  | envSkip | envClose | rcvSkip | rcvClose =>
    simp only [step] at h
    split at h <;> try (simp at h; done)
    split at h <;> simp at h
    all_goals first | (obtain ⟨h0, _⟩ := h; simp [hctx] at h0; done) | skip
    all_goals (subst h; exact hc)
  | envSend =>
    simp only [step] at h
    split at h <;> try (simp at h; done)
    split at h <;> simp at h; subst h; exact hc
  | closer e =>
    simp only [step] at h
    split at h <;> try (simp at h; done)
    rename_i c o pn hst
    simp at h; subst h
    have : o.buf = s.merged.buf := by
      cases e <;> cases hcl : s.closer <;> simp [closerStep, closeCh, hcl] at hst
      · obtain ⟨_, _, rfl, _⟩ := hst; rfl
      · obtain ⟨_, rfl, _⟩ := hst; rfl
    intro t; have := hc t
    simp [inflight, doneToks, sourceToks, List.count_append, chanToks, *] at this ⊢
    omega
  | ecloser e =>
    simp only [step] at h
    split at h <;> try (simp at h; done)
    rename_i c o pn hst
    simp at h; subst h
    have : o.buf = s.merr.buf := by
      cases e <;> cases hcl : s.ecloser <;> simp [closerStep, closeCh, hcl] at hst
      · obtain ⟨_, _, rfl, _⟩ := hst; rfl
      · obtain ⟨_, rfl, _⟩ := hst; rfl
    intro t; have := hc t
    simp [inflight, doneToks, sourceToks, List.count_append, chanToks, *] at this ⊢
    omega
  | rcvSend =>
    simp only [step] at h
    split at h <;> try (simp at h; done)
    rename_i r rest htodo
    cases hso : sendOn (some cfg.capErrc) s.errc2 (Pkt.err r) with
    | none => simp [hso] at h
    | some x =>
      obtain ⟨c', pn⟩ := x
      simp [hso] at h; subst h
      have hh := sendOn_some hso
      have hpn : pn = false := panic_false_of_or hsafe'.noPanic
      subst hpn
      have hb := hh.2.2.1 hh.2.1.symm
      intro t; have := hc t
      simp [inflight, doneToks, sourceToks, List.count_append, chanToks, hb, pktTok, List.count_cons] at this ⊢
      omega
  | consume =>
    simp only [step] at h
    split at h <;> simp at h; subst h
    rename_i p rest hb
    intro t; have := hc t
    simp [inflight, doneToks, sourceToks, List.count_append, chanToks, hb, List.count_cons] at this ⊢
    omega
  | cancel => simp [step] at h; subst h; exact hc
  | gc b =>
    simp only [step] at h
    split at h <;> simp at h; subst h; exact hc
  | sender e =>
    simp only [step] at h
    cases e with
    | recv =>
      cases hsnd : s.snd <;> simp [senderStep, hsnd] at h
      cases hb : s.merged.buf with
      | nil =>
        simp [hb] at h; obtain ⟨_, rfl⟩ := h
        intro t; have := hc t
        simp [inflight, doneToks, sourceToks, List.count_append, chanToks, List.count_cons, sndToks, pktTok, writeErrs, List.filter_append, afterCalls, hsnd, hb] at this ⊢
        omega
      | cons p rest =>
        cases p with
        | err e =>
          simp [hb] at h; subst h
          intro t; have := hc t
          simp [inflight, doneToks, sourceToks, List.count_append, chanToks, List.count_cons, sndToks, pktTok, writeErrs, List.filter_append, afterCalls, hsnd, hb] at this ⊢
          omega
        | buf b r =>
          simp [hb] at h; subst h
          intro t; have := hc t
          simp [inflight, doneToks, sourceToks, List.count_append, chanToks, List.count_cons, sndToks, pktTok, writeErrs, List.filter_append, afterCalls, hsnd, hb, hwf.calls] at this ⊢
          omega
    | call =>
      cases hsnd : s.snd <;> simp [senderStep, hsnd] at h
      rename_i b r todo
      rw [hsnd] at hsh
      rcases hsh with rfl | rfl
      · simp at h; subst h
        intro t; have := hc t
        by_cases hf : inp.wfail s.written.length (s.mem b) = true
        · simp [inflight, doneToks, sourceToks, List.count_append, chanToks, List.count_cons, sndToks, pktTok, writeErrs, List.filter_append, afterCalls, hsnd, hf] at this ⊢
          omega
        · simp [inflight, doneToks, sourceToks, List.count_append, chanToks, List.count_cons, sndToks, pktTok, writeErrs, List.filter_append, afterCalls, hsnd, hf] at this ⊢
          omega
      · simp at h; subst h
        intro t; have := hc t
        simp [inflight, doneToks, sourceToks, List.count_append, chanToks, List.count_cons, sndToks, pktTok, writeErrs, List.filter_append, afterCalls, hsnd] at this ⊢
        omega
    | report =>
      cases hsnd : s.snd <;> simp [senderStep, hsnd] at h
      rename_i e k
      cases hso : sendOn (some cfg.capErrc) s.errc1 (Pkt.err e) with
      | none => simp [hso] at h
      | some x =>
        obtain ⟨c', pn⟩ := x
        simp [hso] at h; subst h
        have hh := sendOn_some hso
        have hpn : pn = false := panic_false_of_or hsafe'.noPanic
        subst hpn
        have hb := hh.2.2.1 hh.2.1.symm
        intro t; have := hc t
        simp [inflight, doneToks, sourceToks, List.count_append, chanToks, List.count_cons, sndToks, pktTok, writeErrs, List.filter_append, afterCalls, hsnd, hb] at this ⊢
        omega
    | drop =>
      cases hsnd : s.snd <;> simp [senderStep, hsnd, hctx] at h
    | ctx =>
      cases hsnd : s.snd <;> simp [senderStep, hsnd, hctx] at h
    | close1 =>
      cases hsnd : s.snd <;> simp [senderStep, hsnd] at h
      subst h
      intro t; have := hc t
      cases firstClose cfg <;>
      (simp [inflight, doneToks, sourceToks, List.count_append, chanToks, List.count_cons, sndToks, pktTok, writeErrs, List.filter_append, afterCalls, hsnd, senderClose] at this ⊢; omega)
    | close2 =>
      cases hsnd : s.snd <;> simp [senderStep, hsnd] at h
      subst h
      intro t; have := hc t
      cases secondClose cfg <;>
      (simp [inflight, doneToks, sourceToks, List.count_append, chanToks, List.count_cons, sndToks, pktTok, writeErrs, List.filter_append, afterCalls, hsnd, senderClose] at this ⊢; omega)

end SxVerif.Pipe
