/-
C15: the property theorems' statements instantiated from the general lemmas (`cfg N W` is well formed for
`N ≥ 1`, `W ≥ 0`; `perRequest = W / N`; burst allowance 10).  `Props/C15.lean` appeals to these one by one.
-/
import SxVerif.Proofs.Limiter
import SxVerif.Proofs.LimiterSet

namespace SxVerif.Proofs.Limiter
open SxVerif.Limiter

theorem main_rate (N W : Int) (hN : 1 ≤ N) (hW : 0 ≤ W) (now : Nat → Int) (hclk : ClockOK now)
    (i k : Nat) (hk : 1 ≤ k) :
    release (cfg N W) now (i + k - 1) - release (cfg N W) now i ≥ ((k : Int) - 1 - 10) * (W / N) := by
  have h := cfg_ok N W hN hW defaultSlack (by decide)
  have g := release_gap _ _ h.1 now hclk i (k - 1)
  rw [h.2] at g
  have e1 : i + (k - 1) = i + k - 1 := by omega
  have e2 : (((k - 1 : Nat) : Int) - defaultSlack) = (k : Int) - 1 - 10 := by
    simp only [defaultSlack]; omega
  rw [e1, e2] at g
  exact g

theorem main_rate_slack (N W b : Int) (hN : 1 ≤ N) (hW : 0 ≤ W) (hb : 0 ≤ b) (now : Nat → Int) (hclk : ClockOK now)
    (i m : Nat) :
    release (cfg N W b) now (i + m) - release (cfg N W b) now i ≥ ((m : Int) - b) * (W / N) := by
  have h := cfg_ok N W hN hW b hb
  have g := release_gap _ _ h.1 now hclk i m
  rw [h.2] at g
  exact g

theorem main_any_set (N W : Int) (hN : 1 ≤ N) (hW : 0 ≤ W) (now : Nat → Int) (hclk : ClockOK now)
    (S : List Nat) (hnd : S.Nodup) (hne : S ≠ []) :
    ∃ i ∈ S, ∃ j ∈ S,
      release (cfg N W) now j - release (cfg N W) now i ≥ ((S.length : Int) - 1 - 10) * (W / N) := by
  have h := cfg_ok N W hN hW defaultSlack (by decide)
  obtain ⟨i, hi, j, hj, g⟩ := any_set _ _ h.1 now hclk S hnd hne
  rw [h.2] at g
  exact ⟨i, hi, j, hj, g⟩

theorem main_wire (N W : Int) (hN : 1 ≤ N) (hW : 0 ≤ W) (now : Nat → Int) (hclk : ClockOK now)
    (t : Nat → Int) (ε : Int) (hlo : ∀ j, release (cfg N W) now j ≤ t j) (hhi : ∀ j, t j ≤ release (cfg N W) now j + ε)
    (i k : Nat) (hk : 1 ≤ k) :
    t (i + k - 1) - t i ≥ ((k : Int) - 1 - 10) * (W / N) - ε := by
  have h := cfg_ok N W hN hW defaultSlack (by decide)
  have g := wire_gap _ _ h.1 now hclk t ε hlo hhi i (k - 1)
  rw [h.2] at g
  have e1 : i + (k - 1) = i + k - 1 := by omega
  have e2 : (((k - 1 : Nat) : Int) - defaultSlack) = (k : Int) - 1 - 10 := by
    simp only [defaultSlack]; omega
  rw [e1, e2] at g
  exact g

theorem main_sequential (N W : Int) (hN : 1 ≤ N) (hW : 0 ≤ W) (now : Nat → Int) (hclk : ClockOK now)
    (t : Nat → Int) (hlo : ∀ j, release (cfg N W) now j ≤ t j) (hseq : ∀ j, t j ≤ now (j + 1))
    (i k : Nat) (hk : 1 ≤ k) :
    t (i + k - 1) - t i ≥ ((k : Int) - 2 - 10) * (W / N) := by
  have h := cfg_ok N W hN hW defaultSlack (by decide)
  have g := seq_gap _ _ h.1 now hclk t hlo hseq i (k - 1)
  rw [h.2] at g
  have e1 : i + (k - 1) = i + k - 1 := by omega
  have e2 : (((k - 1 : Nat) : Int) - 1 - defaultSlack) = (k : Int) - 2 - 10 := by
    simp only [defaultSlack]; omega
  rw [e1, e2] at g
  exact g

theorem main_spec_verdict (N W : Int) (nows : List Int) :
    Spec.Limiter.holdsOrdered N W nows
      ((run (cfg N W) State.init nows).map (·.release)) ((run (cfg N W) State.init nows).map (·.interval)) = true := by
  unfold Spec.Limiter.holdsOrdered
  by_cases hh : (decide (1 ≤ N) && decide (0 ≤ W) && Spec.Limiter.clockOK nows) = true
  · simp only [Bool.and_eq_true, decide_eq_true_eq] at hh
    have h := cfg_ok N W hh.1.1 hh.1.2 defaultSlack (by decide)
    have r := run_rateOK _ _ h.1 nows hh.2
    rw [h.2] at r
    simp only [Spec.Limiter.perProbe, Spec.Limiter.burst, run_heldOK, Bool.true_and]
    have r' : Spec.Limiter.rateOK (W / N) 10 (List.map (fun x => x.release) (run (cfg N W) State.init nows)) = true := r
    simp [r']
  · simp only [Bool.not_eq_true] at hh
    simp [hh]

end SxVerif.Proofs.Limiter
