/-
C17 lemmas, part 2: the loops of pkg/ip (first attached address / interface, lowest-metric default route,
gateway) compute what Spec/Iface.lean describes with filter / find?.
-/
import SxVerif.Proofs.IfaceBits

namespace SxVerif.Proofs.Iface
open SxVerif.Iface SxVerif.Spec.Iface

/-! ### first attached address, first attached interface -/

theorem localIPLoop_spec (t : Target) (ht : t.ip.length = 4) (addrs : List Addr)
    (hw : ∀ a ∈ addrs, addrWF a = true) :
    localIPLoop t.base addrs = ((addrs.filter (onTarget t)).head?).map Addr.goIP := by
  induction addrs with
  | nil => simp [localIPLoop]
  | cons a rest ih =>
    have ha : a.v6 = false → a.ip.length = 4 := by
      intro hv
      have := hw a (by simp)
      simpa [addrWF, hv] using this
    rw [localIPLoop, attached_eq_onTarget t a ht ha, List.filter_cons]
    cases h : onTarget t a with
    | true => simp
    | false =>
      simp only [Bool.false_eq_true, if_false]
      exact ih (fun b hb => hw b (by simp [hb]))

theorem localSubnetInterfaceIP_spec (t : Target) (ht : t.ip.length = 4) (i : Iface)
    (hw : ∀ a ∈ i.addrs, addrWF a = true) :
    localSubnetInterfaceIP i t = ((addrsOn t i).head?).map Addr.goIP :=
  localIPLoop_spec t ht i.addrs hw

theorem localSubnetInterface_spec (t : Target) (ht : t.ip.length = 4) (ifaces : List Iface)
    (hw : ∀ i ∈ ifaces, ∀ a ∈ i.addrs, addrWF a = true) :
    localSubnetInterface t ifaces =
      match ifaces.filter (fun i => (addrsOn t i).isEmpty == false) with
      | [] => none
      | i :: _ => ((addrsOn t i).head?).map (fun a => (i, a.goIP)) := by
  induction ifaces with
  | nil => simp [localSubnetInterface]
  | cons i rest ih =>
    rw [localSubnetInterface, localSubnetInterfaceIP_spec t ht i (hw i (by simp)), List.filter_cons]
    cases hh : addrsOn t i with
    | nil =>
      simp only [List.head?_nil, Option.map_none, List.isEmpty_nil, BEq.rfl, Bool.true_eq_false, if_false]
      simpa using ih (fun j hj => hw j (by simp [hj]))
    | cons a as => simp [hh]

/-! ### the lowest-metric default route -/

/-- best route so far `b`, then the rest: a later route wins only with a strictly smaller metric -/
def pickFrom (b : Route) : List Route → Route
  | [] => b
  | r :: rest => pickFrom (if r.prio < b.prio then r else b) rest

/-- first route of minimal metric -/
def firstMin (l : List Route) : Option Route := l.find? (fun r => l.all (fun r' => r.prio ≤ r'.prio))

theorem find?_congr' {α : Type} (l : List α) (p q : α → Bool) (h : ∀ x ∈ l, p x = q x) :
    l.find? p = l.find? q := by
  induction l with
  | nil => rfl
  | cons a rest ih =>
    simp only [List.find?_cons, h a (by simp)]
    rw [ih (fun x hx => h x (by simp [hx]))]

theorem firstMin_step (b r : Route) (rest : List Route) :
    firstMin (b :: r :: rest) = firstMin ((if r.prio < b.prio then r else b) :: rest) := by
  unfold firstMin
  by_cases h : r.prio < b.prio
  · simp only [h, if_true, List.find?_cons, List.all_cons, Nat.le_refl, decide_true, Bool.true_and]
    have h1 : decide (b.prio ≤ r.prio) = false := by simp; omega
    have h2 : decide (r.prio ≤ b.prio) = true := by simp; omega
    simp only [h1, h2, Bool.false_and, Bool.true_and]
    cases hr : rest.all (fun r' => decide (r.prio ≤ r'.prio)) with
    | true => rfl
    | false =>
      apply find?_congr'
      intro x _
      by_cases hx : x.prio ≤ r.prio
      · have : x.prio ≤ b.prio := by omega
        simp [hx, this]
      · simp [hx]
  · simp only [h, if_false, List.find?_cons, List.all_cons, Nat.le_refl, decide_true, Bool.true_and]
    have h1 : decide (b.prio ≤ r.prio) = true := by simp; omega
    simp only [h1, Bool.true_and]
    cases hb : rest.all (fun r' => decide (b.prio ≤ r'.prio)) with
    | true => rfl
    | false =>
      have h3 : (decide (r.prio ≤ b.prio) && rest.all (fun r' => decide (r.prio ≤ r'.prio))) = false := by
        by_cases hrb : r.prio ≤ b.prio
        · have he : r.prio = b.prio := by omega
          rw [he, hb]; simp
        · simp [hrb]
      rw [h3]
      apply find?_congr'
      intro x _
      by_cases hx : x.prio ≤ b.prio
      · have : x.prio ≤ r.prio := by omega
        simp [hx, this]
      · simp [hx]

theorem firstMin_pickFrom (b : Route) (l : List Route) : firstMin (b :: l) = some (pickFrom b l) := by
  induction l generalizing b with
  | nil => simp [firstMin, pickFrom]
  | cons r rest ih => rw [firstMin_step, ih, pickFrom]

/-- what `GetDefaultInterface` holds after taking route `r` -/
def stateOf (h : Host) (r : Route) : DefState :=
  ⟨true, r.prio, interfaceByIndex h r.link, (interfaceByIndex h r.link).bind interfaceIP⟩

theorem defaultLoop_skip (h : Host) (routes : List Route) (s : DefState) :
    defaultLoop h routes s = defaultLoop h (routes.filter (fun r => r.dst.isNone)) s := by
  induction routes generalizing s with
  | nil => rfl
  | cons r rest ih =>
    cases hd : r.dst.isNone with
    | false => rw [defaultLoop]; simp only [hd, Bool.false_and, Bool.false_eq_true, if_false, List.filter_cons]; exact ih s
    | true =>
      rw [List.filter_cons]; simp only [hd, if_true]
      rw [defaultLoop, defaultLoop]
      simp only [hd, Bool.true_and]
      split
      · split
        · rfl
        · exact ih _
      · exact ih s

theorem defaultLoop_from (h : Host) (b : Route) (ds : List Route)
    (hd : ∀ r ∈ ds, r.dst.isNone = true)
    (hres : ∀ r ∈ ds, (h.ifaces.any (fun i => i.index == r.link)) = true)
    (hb : (h.ifaces.any (fun i => i.index == b.link)) = true) :
    defaultLoop h ds (stateOf h b) = .ok (stateOf h (pickFrom b ds)) := by
  induction ds generalizing b with
  | nil => simp [defaultLoop, pickFrom]
  | cons r rest ih =>
    have hrd := hd r (by simp)
    have hrr := hres r (by simp)
    have hd' : ∀ x ∈ rest, x.dst.isNone = true := fun x hx => hd x (by simp [hx])
    have hres' : ∀ x ∈ rest, (h.ifaces.any (fun i => i.index == x.link)) = true := fun x hx => hres x (by simp [hx])
    rw [defaultLoop, pickFrom]
    simp only [hrd, Bool.true_and, stateOf, Bool.not_true, Bool.false_or, decide_eq_true_eq]
    by_cases hlt : r.prio < b.prio
    · simp only [hlt, if_true]
      obtain ⟨i, hi⟩ : ∃ i, interfaceByIndex h r.link = some i := by
        unfold interfaceByIndex
        rw [List.any_eq_true] at hrr
        obtain ⟨j, hj, hjj⟩ := hrr
        cases hf : h.ifaces.find? (fun i => i.index == r.link) with
        | some i => exact ⟨i, rfl⟩
        | none =>
          rw [List.find?_eq_none] at hf
          exact absurd hjj (hf j hj)
      rw [hi]
      have := ih r hd' hres' hrr
      simp only [stateOf, hi, Option.bind_some] at this
      exact this
    · simp only [hlt, if_false]
      exact ih b hd' hres' hb

theorem interfaceByIndex_some_of_any (h : Host) (idx : Nat)
    (hr : (h.ifaces.any (fun i => i.index == idx)) = true) : ∃ i, interfaceByIndex h idx = some i := by
  unfold interfaceByIndex
  rw [List.any_eq_true] at hr
  obtain ⟨j, hj, hjj⟩ := hr
  cases hf : h.ifaces.find? (fun i => i.index == idx) with
  | some i => exact ⟨i, rfl⟩
  | none =>
    rw [List.find?_eq_none] at hf
    exact absurd hjj (hf j hj)

theorem lowestDefault_eq (h : Host) : lowestDefault h = firstMin (defaultRoutes h) := rfl

/-- `GetDefaultInterface` = the interface of the lowest-metric default route and its first address -/
theorem defaultInterface_spec (h : Host) (hres : routesResolve h = true) :
    defaultInterface h = .ok (match lowestDefault h with
      | none => (none, none)
      | some r => (interfaceByIndex h r.link, (interfaceByIndex h r.link).bind interfaceIP)) := by
  unfold defaultInterface
  rw [defaultLoop_skip, lowestDefault_eq]
  have hres' : ∀ r ∈ defaultRoutes h, (h.ifaces.any (fun i => i.index == r.link)) = true := by
    simpa [routesResolve, List.all_eq_true] using hres
  have hd : ∀ r ∈ defaultRoutes h, r.dst.isNone = true := by
    intro r hr; simp [defaultRoutes] at hr; simp [hr.2]
  change (match defaultLoop h (defaultRoutes h) ⟨false, 0, none, none⟩ with
    | .error e => Except.error e | .ok s => Except.ok (s.iface, s.ip)) = _
  cases hds : defaultRoutes h with
  | nil => simp [defaultLoop, firstMin]
  | cons b rest =>
    rw [hds] at hres' hd
    have hb := hres' b (by simp)
    obtain ⟨i, hi⟩ := interfaceByIndex_some_of_any h b.link hb
    rw [defaultLoop]
    simp only [hd b (by simp), Bool.not_false, Bool.true_or, Bool.and_self, if_true, hi]
    have := defaultLoop_from h b rest (fun r hr => hd r (by simp [hr])) (fun r hr => hres' r (by simp [hr])) hb
    simp only [stateOf, hi, Option.bind_some] at this
    rw [this, firstMin_pickFrom]

/-! ### gateway -/

theorem gatewayLoop_skip (idx : Nat) (routes : List Route) (s : GwState) :
    gatewayLoop idx routes s = gatewayLoop idx (routes.filter (fun r => r.dst.isNone && r.link == idx)) s := by
  induction routes generalizing s with
  | nil => rfl
  | cons r rest ih =>
    cases hd : (r.dst.isNone && r.link == idx) with
    | false =>
      rw [gatewayLoop]; simp only [hd, Bool.false_and, Bool.false_eq_true, if_false, List.filter_cons]; exact ih s
    | true =>
      rw [List.filter_cons]; simp only [hd, if_true]
      rw [gatewayLoop, gatewayLoop]
      simp only [hd, Bool.true_and]
      split
      · exact ih _
      · exact ih s

theorem gatewayLoop_from (idx : Nat) (b : Route) (ds : List Route)
    (hd : ∀ r ∈ ds, (r.dst.isNone && r.link == idx) = true) :
    gatewayLoop idx ds ⟨true, b.prio, b.gw⟩ = ⟨true, (pickFrom b ds).prio, (pickFrom b ds).gw⟩ := by
  induction ds generalizing b with
  | nil => simp [gatewayLoop, pickFrom]
  | cons r rest ih =>
    have hd' : ∀ x ∈ rest, (x.dst.isNone && x.link == idx) = true := fun x hx => hd x (by simp [hx])
    rw [gatewayLoop, pickFrom]
    simp only [hd r (by simp), Bool.true_and, Bool.not_true, Bool.false_or, decide_eq_true_eq]
    by_cases hlt : r.prio < b.prio
    · simp only [hlt, if_true]; exact ih r hd'
    · simp only [hlt, if_false]; exact ih b hd'

theorem defaultGatewayIP_spec (h : Host) (i : Iface) :
    defaultGatewayIP h i =
      (firstMin ((defaultRoutes h).filter (fun r => r.link == i.index))).bind (fun r => r.gw) := by
  unfold defaultGatewayIP
  rw [gatewayLoop_skip]
  have hf : (defaultRoutes h).filter (fun r => r.link == i.index)
      = h.routes.filter (fun r => r.dst.isNone && r.link == i.index) := by
    simp [defaultRoutes, List.filter_filter, Bool.and_comm]
  rw [hf]
  have hd : ∀ r ∈ h.routes.filter (fun r => r.dst.isNone && r.link == i.index),
      (r.dst.isNone && r.link == i.index) = true := by
    intro r hr; exact (List.mem_filter.mp hr).2
  cases hds : h.routes.filter (fun r => r.dst.isNone && r.link == i.index) with
  | nil => simp [gatewayLoop, firstMin]
  | cons b rest =>
    rw [hds] at hd
    rw [gatewayLoop]
    simp only [hd b (by simp), Bool.not_false, Bool.true_or, Bool.and_self, if_true]
    rw [gatewayLoop_from i.index b rest (fun r hr => hd r (by simp [hr])), firstMin_pickFrom]
    rfl

end SxVerif.Proofs.Iface
