/-
C01 at the wire (packet commands): C01's coverage of the request stream (Proofs/GenCover), C05's filler
theorems (through Proofs/ComposeFill) and C07's byte-level terminal theorems (Proofs/ConcPacketBytes) composed
over the embedding `Compose.pipeReqs`.
-/
import SxVerif.Proofs.ComposeFill
import SxVerif.Proofs.ComposeGen
import SxVerif.Proofs.ConcPacketBytes

namespace SxVerif.Proofs.Compose
open SxVerif.Frame (Bytes)
open SxVerif.Gen SxVerif.Spec.Gen SxVerif.RangeIter SxVerif.Proofs.Gen SxVerif.Compose SxVerif.Spec.Compose
open SxVerif.Pipe (okFrames)

/-! ### one request, one run -/

theorem okFrames_cons (q : Pipe.Req) (qs : List Pipe.Req) :
    okFrames (q :: qs) = (if q.kind = .ok then [q.frame] else []) ++ okFrames qs := by
  unfold okFrames
  by_cases h : q.kind = .ok <;> simp [h]

theorem pipeReq_err (l : Link) (fl : Filler) (rnd : Nat → Rnd) (i : Nat) (r : Req) (c : Cause)
    (h : r.err = some c) : pipeReq l fl rnd i r = { id := i, kind := .reqErr, frame := [] } := by
  simp [pipeReq, h]

theorem pipeReq_ok (l : Link) (fl : Filler) (rnd : Nat → Rnd) (i : Nat) (r : Req) (f : Bytes)
    (h : r.err = none) (hf : fill l fl (fillReq l r) (rnd i) = .ok f) :
    pipeReq l fl rnd i r = { id := i, kind := .ok, frame := f } := by
  simp [pipeReq, h, hf]

/-- the frames of the embedded stream, read by `dec`, are the probes of the stream (in stream order), given
    that the filler serves every probe and `dec` reads its target back (`hstep`: Proofs/ComposeFill) -/
theorem okFrames_pipeReqsFrom {β : Type} (l : Link) (fl : Filler) (rnd : Nat → Rnd) (dec : Bytes → β)
    (tgtOf : Addr × Nat → β)
    (hstep : ∀ (r : Req) (a : Addr) (i : Nat), Fillable l fl r a →
      ∃ f, fill l fl (fillReq l r) (rnd i) = .ok f ∧ dec f = tgtOf (a, r.port)) :
    ∀ (rs : List Req) (i : Nat), (∀ r ∈ rs, r.err = none → ∃ a, Fillable l fl r a) →
      (okFrames (pipeReqsFrom l fl rnd i rs)).map dec = (probes rs).map tgtOf
  | [], _, _ => rfl
  | r :: rs, i, h => by
    have ih := okFrames_pipeReqsFrom l fl rnd dec tgtOf hstep rs (i + 1)
      (fun r' hr' => h r' (List.mem_cons_of_mem _ hr'))
    rw [pipeReqsFrom, okFrames_cons, List.map_append, ih]
    cases he : r.err with
    | some c =>
      rw [pipeReq_err l fl rnd i r c he, probes_cons_err c r he]
      simp
    | none =>
      obtain ⟨a, ha⟩ := h r (by simp) he
      obtain ⟨f, hf, hd⟩ := hstep r a i ha
      rw [pipeReq_ok l fl rnd i r f he hf]
      have : probes (r :: rs) = (a, r.port) :: probes rs := by
        simp [probes, he, ha.dst]
      rw [this]
      simp [hd]

/-- C07 for one finished run over the embedding of `rs`: what was handed to the writer is, as a multiset of byte
    strings, the frames built for the error-free requests — any worker count, failure pattern, schedule -/
theorem run_handed {cfg : Pipe.Cfg} (hwf : cfg.WF) (l : Link) (fl : Filler) (rs : List Req) (o : PacketRun)
    (h : PacketRunOf cfg l fl rs o) : (handed o.st).Perm (okFrames (pipeReqs l fl o.rnd rs)) := by
  obtain ⟨_, hreqs, hn, hreach, hend⟩ := h
  rw [← hreqs]
  rcases hend with ht | hd
  · exact (Pipe.packet_final_bytes hwf hreach hn ht).1
  · exact Pipe.packet_done_bytes hwf hreach hn hd

/-- … and all engine runs of a pass -/
theorem runs_handed {β : Type} {cfg : Pipe.Cfg} (hwf : cfg.WF) (l : Link) (fl : Filler) (dec : Bytes → β)
    (tgtOf : Addr × Nat → β)
    (hstep : ∀ (r : Req) (a : Addr) (d : Rnd), RndOK d → Fillable l fl r a →
      ∃ f, fill l fl (fillReq l r) d = .ok f ∧ dec f = tgtOf (a, r.port)) :
    ∀ (rss : List (List Req)) (obs : List PacketRun), List.Forall₂ (PacketRunOf cfg l fl) rss obs →
      (∀ r ∈ rss.flatten, r.err = none → ∃ a, Fillable l fl r a) →
      (obs.flatMap (fun o => (handed o.st).map dec)).Perm ((probes rss.flatten).map tgtOf) := by
  intro rss obs hall
  induction hall with
  | nil => intro _; exact List.Perm.refl _
  | @cons rs o rss obs hrun _ ih =>
    intro hfill
    have h1 := (run_handed hwf l fl rs o hrun).map dec
    rw [pipeReqs, okFrames_pipeReqsFrom l fl o.rnd dec tgtOf
      (fun r a i ha => hstep r a (o.rnd i) (hrun.1 i) ha) rs 0
      (fun r hr => hfill r (by simp [hr]))] at h1
    have h2 := ih (fun r hr => hfill r (by
      rw [List.flatten_cons, List.mem_append]; exact Or.inr hr))
    rw [List.flatMap_cons, List.flatten_cons, Proofs.Gen.probes_append, List.map_append]
    exact h1.append h2

/-- without write failures, what was handed to the writer is what is on the wire, and the writer reported nothing -/
theorem no_write_failure (st : Pipe.Sys) (h : ∀ w ∈ st.written, w.2 = false) :
    onWire st = handed st ∧ Pipe.writeErrs st.written = [] := by
  constructor
  · unfold onWire handed
    congr 1
    exact List.filter_eq_self.mpr (fun w hw => by simp [h w hw])
  · unfold Pipe.writeErrs
    rw [List.filter_eq_nil_iff.mpr (fun w hw => by simp [h w hw])]
    rfl

/-- a recorded trace without `cancel` that the step function accepts leads to a `ReachableNC` state -/
theorem reachableNC_run {cfg : Pipe.Cfg} {inp : Pipe.Input} : ∀ (evs : List Pipe.Event) (s s' : Pipe.Sys),
    (∀ e ∈ evs, e ≠ Pipe.Event.cancel) → Pipe.ReachableNC cfg inp s → Pipe.run cfg inp s evs = some s' →
    Pipe.ReachableNC cfg inp s'
  | [], s, s', _, h, hr => by simp [Pipe.run] at hr; exact hr ▸ h
  | e :: es, s, s', hne, h, hr => by
    simp only [Pipe.run] at hr
    cases hs : Pipe.step cfg inp s e with
    | none => simp [hs] at hr
    | some s1 =>
      rw [hs] at hr
      exact reachableNC_run es s1 s' (fun e' he' => hne e' (List.mem_cons_of_mem _ he'))
        (.step h ⟨e, hne e (by simp), hs⟩) hr

instance (s : Pipe.Sys) : Decidable (Pipe.Terminated s) := by unfold Pipe.Terminated; exact inferInstance

/-! ### the passes -/

/-- the decoders of the four fillers -/
def pairOf (ap : Addr × Nat) : Option (Nat × Nat) := some (addrVal ap.1, ap.2)
def addrOf (ap : Addr × Nat) : Option Nat := some (addrVal ap.1)

/-- **C01 at the wire, tcp / udp** -/
theorem wire_port_scan (tbl : List Group) (htbl : ∀ r ∈ tbl, SxVerif.Pratt.RowOK r)
    (hsorted : List.Pairwise (fun a b : Group => a.P < b.P) tbl)
    (hpmax : (tbl.map (·.P)).foldl max 0 = 2 ^ 32 + 61)
    (size : Nat) (emptyRunsOnce : Bool) (hsize : 0 < size) (hempty : emptyRunsOnce = true)
    {cfg : Pipe.Cfg} (hwf : cfg.WF)
    (l : Link) (hl : LinkOK l) (fl : Filler) (hfl : FillerOK fl) (hk : (∃ f, fl = .tcp f) ∨ ∃ o, fl = .udp o)
    (s : Spec) (content : List Line) (h : PairSpecOK s content)
    (hv4 : ∀ ap ∈ expectedPairs s content, IsIPv4 ap.1)
    (hmac : l.vpn = false → s.cache.isSome = true)
    (dp di : Nat → Draws) :
    ∃ rss : List (List Req), portScanRuns tbl s size emptyRunsOnce dp di = rss.map Except.ok ∧
      (rss.flatten.map (fun r => (r.dst, r.port))).Perm
        ((expectedPairs s content).map (fun ap => (some ap.1, ap.2))) ∧
      (∀ r ∈ rss.flatten, r.err = none ∨ r.err = some .noMAC) ∧
      ∀ obs : List PacketRun, List.Forall₂ (PacketRunOf cfg l fl) rss obs →
        (obs.flatMap (fun o => (handed o.st).map (probeTarget l.vpn fl))).Perm
          ((probes rss.flatten).map (fun ap => some (addrVal ap.1, ap.2))) ∧
        ((s.cache = none ∨ ∃ c g, s.cache = some (c, some g)) →
          (obs.flatMap (fun o => (handed o.st).map (probeTarget l.vpn fl))).Perm
            ((expectedPairs s content).map (fun ap => some (addrVal ap.1, ap.2)))) := by
  obtain ⟨rs, hall, htg, herr, hnoerr⟩ := port_scan_cover tbl htbl hsorted hpmax s content h size emptyRunsOnce
    hsize hempty dp di allOk rfl (fun _ _ => rfl)
  obtain ⟨rss, hruns, rfl⟩ := allOk_some _ rs hall
  refine ⟨rss, hruns, htg, herr, fun obs hobs => ?_⟩
  have hfill : ∀ r ∈ rss.flatten, r.err = none → ∃ a, Fillable l fl r a := by
    intro r hr he
    obtain ⟨ap, hap, hd, hp⟩ := probe_target_mem rss.flatten _ htg r hr
    refine ⟨ap.1, hd, hv4 ap hap, hp ▸ expectedPairs_port s content h ap hap, fun _ hv => ?_⟩
    obtain ⟨rs0, hrs0, hr0⟩ := List.mem_flatten.mp hr
    have hmem : Except.ok rs0 ∈ portScanRuns tbl s size emptyRunsOnce dp di := by
      rw [hruns]; exact List.mem_map_of_mem hrs0
    exact port_scan_mac tbl s size emptyRunsOnce dp di (hmac hv) rs0 hmem r hr0 he
  have hmain := runs_handed hwf l fl (probeTarget l.vpn fl) pairOf
    (fun r a d hd ha => fill_target l hl fl hfl r a d hd ha hk) rss obs hobs hfill
  refine ⟨hmain, fun hc => hmain.trans ?_⟩
  exact (probes_perm_of_targets rss.flatten _ htg (hnoerr hc)).map pairOf

/-- **C01 at the wire, icmp / arp** (one engine run) -/
theorem wire_ip_scan (tbl : List Group) (htbl : ∀ r ∈ tbl, SxVerif.Pratt.RowOK r)
    (hsorted : List.Pairwise (fun a b : Group => a.P < b.P) tbl)
    (hpmax : (tbl.map (·.P)).foldl max 0 = 2 ^ 32 + 61)
    {cfg : Pipe.Cfg} (hwf : cfg.WF)
    (l : Link) (hl : LinkOK l) (fl : Filler) (hfl : FillerOK fl)
    (hk : (∃ o t c, fl = .icmp o t c) ∨ (fl = .arp ∧ l.vpn = false))
    (s : Spec) (content : List Line) (h : AddrSpecOK s content)
    (hv4 : ∀ a ∈ expectedAddrs s content, IsIPv4 a)
    (hmac : fl ≠ .arp → l.vpn = false → s.cache.isSome = true)
    (d : Nat × Nat) :
    ∃ rs : List Req, ipRequests tbl s d = .ok rs ∧
      (rs.map (·.dst)).Perm ((expectedAddrs s content).map some) ∧
      (∀ r ∈ rs, r.err = none ∨ r.err = some .noMAC) ∧
      ∀ o : PacketRun, PacketRunOf cfg l fl rs o →
        ((handed o.st).map (probeAddr l.vpn fl)).Perm ((probes rs).map (fun ap => some (addrVal ap.1))) ∧
        ((s.cache = none ∨ ∃ c g, s.cache = some (c, some g)) →
          ((handed o.st).map (probeAddr l.vpn fl)).Perm ((expectedAddrs s content).map (fun a => some (addrVal a)))) := by
  obtain ⟨rs, hrun, htg, herr, hnoerr⟩ := ip_scan_cover tbl htbl hsorted hpmax s content h d
  refine ⟨rs, hrun, htg, herr, fun o ho => ?_⟩
  have hport : ∀ r ∈ rs, r.port = 0 := by
    obtain ⟨b, hb, rfl⟩ := stages_eq_ok s.excl s.cache _ rs (by rw [← ipRequests_eq]; exact hrun)
    let g : IpItem → Req := fun
      | .ip a => { dst := some a }
      | .err c => { err := some c }
    have hg3 : ∀ ips, ipReqGen ips = ips.map (fun l => l.map g) := fun _ => rfl
    have hg0 : ∀ it, (g it).port = 0 := fun it => by cases it <;> rfl
    rw [hg3] at hb
    cases hbase : ipBase tbl s d with
    | error c => rw [hbase] at hb; cases hb
    | ok items =>
      rw [hbase] at hb
      obtain rfl : items.map g = b := by injection hb
      intro r hr
      have hsub : ∀ r ∈ stageList s.excl s.cache (items.map g), ∃ r0 ∈ items.map g, r.port = r0.port := by
        intro r hr
        cases hex : s.excl with
        | none =>
          cases hca : s.cache with
          | none => rw [hex, hca] at hr; exact ⟨r, hr, rfl⟩
          | some cg =>
            rw [hex, hca] at hr
            obtain ⟨r0, hr0, _, hp, _⟩ := cacheStage_mem cg.1 cg.2 _ r hr
            exact ⟨r0, hr0, hp⟩
        | some e =>
          cases hca : s.cache with
          | none => rw [hex, hca] at hr; exact ⟨r, (List.mem_filter.mp hr).1, rfl⟩
          | some cg =>
            rw [hex, hca] at hr
            obtain ⟨r0, hr0, _, hp, _⟩ := cacheStage_mem cg.1 cg.2 _ r hr
            exact ⟨r0, (List.mem_filter.mp hr0).1, hp⟩
      obtain ⟨r0, hr0, hp⟩ := hsub r hr
      rw [List.mem_map] at hr0
      obtain ⟨it, _, rfl⟩ := hr0
      rw [hp]
      exact hg0 it
  have hfill : ∀ r ∈ [rs].flatten, r.err = none → ∃ a, Fillable l fl r a := by
    intro r hr he
    have hr : r ∈ rs := by simpa using hr
    obtain ⟨a, ha, hd⟩ := dst_mem rs _ htg r hr
    refine ⟨a, hd, hv4 a ha, by rw [hport r hr]; decide, fun hne hv => ?_⟩
    exact ip_scan_mac tbl s d (hmac hne hv) rs hrun r hr he
  have hmain := runs_handed hwf l fl (probeAddr l.vpn fl) addrOf
    (fun r a d hd ha => fill_addr l hl fl hfl r a d hd ha hk) [rs] [o]
    (List.Forall₂.cons ho List.Forall₂.nil) hfill
  have hmain' : ((handed o.st).map (probeAddr l.vpn fl)).Perm ((probes rs).map addrOf) := by
    simpa using hmain
  refine ⟨hmain', fun hc => hmain'.trans ?_⟩
  have := (probes_fst_perm rs _ htg (hnoerr hc)).map (fun a => some (addrVal a))
  rw [List.map_map] at this
  exact this

end SxVerif.Proofs.Compose
