/-
Progress (no deadlock) of the packet pipeline in runs that are not cancelled: in every reachable state that
is not `Terminated` some step other than `cancel` is enabled.

The error consumer is part of the system: `Event.consume` is enabled whenever the merged error channel holds
an item (startScanEngine's drain loop never refuses one).  That is the only assumption on the environment;
the request generator and the receiver are never required to do anything they cannot do (their sends are
steps of the system like everybody else's and may be the enabled step).

Proof: assume no step other than `cancel` is enabled and walk the pipeline from the sinks to the source —
consumer ⇒ merged error channel empty ⇒ both error multiplexers idle-on-empty or returned ⇒ the sender can
always report ⇒ sender idle-on-empty or returned ⇒ every multiplexer can forward ⇒ … ⇒ every worker idle on
an empty request channel or returned ⇒ (request generator stuck) request channel closed ⇒ all returned.
Needs every channel capacity > 0 (side condition CapsPositive).
-/
import SxVerif.Proofs.ConcPacket

namespace SxVerif.Pipe

theorem sendOn_none {α} {k : Nat} {c : Chan α} {v : α} (h : sendOn (some k) c v = none) :
    c.closed = false ∧ k ≤ c.buf.length := by
  unfold sendOn at h
  cases hcl : c.closed <;> simp [hcl] at h
  exact ⟨rfl, h⟩

theorem sendOn_unbounded_some {α} (c : Chan α) (v : α) : (sendOn none c v).isSome = true := by
  unfold sendOn; split <;> simp

/-- a multiplexer none of whose steps is enabled, whose output has room (or is closed), waits on an empty open
    input or has returned -/
theorem mux_stuck {gr gs rd cap m src dst}
    (h : ∀ e, muxStep gr gs rd cap false m src dst e = none) (hroom : dst.closed = true ∨ dst.buf.length < cap) :
    (m = .idle ∧ src.buf = [] ∧ src.closed = false) ∨ m = .finished := by
  cases m with
  | finished => exact Or.inr rfl
  | exiting => have := h .done; simp [muxStep] at this
  | holding p =>
    have := h .send
    simp only [muxStep] at this
    split at this
    · simp at this
    · rename_i hs
      have := sendOn_none hs
      rcases hroom with h1 | h1
      · simp [h1] at this
      · omega
  | idle =>
    have := h .recv
    simp only [muxStep] at this
    split at this
    · simp at this
    · rename_i hb
      split at this
      · simp at this
      · rename_i hc
        exact Or.inl ⟨rfl, hb, by simpa using hc⟩

theorem closer_stuck {waits wg c out} (h : ∀ e, closerStep waits wg c out e = none) :
    (c = .waiting ∧ wg ≠ 0) ∨ c = .finished := by
  cases c with
  | finished => exact Or.inr rfl
  | closing => have := h .close; simp [closerStep, closeCh] at this
  | waiting =>
    have := h .wait
    simp [closerStep] at this
    exact Or.inl ⟨rfl, this.1⟩

theorem worker_stuck {cfg w out inp pool nid mem}
    (h : ∀ e, workerStep cfg false w out inp pool nid mem e = none)
    (hroom : out.closed = true ∨ out.buf.length < cfg.capOut) :
    (w = .idle ∧ inp.buf = [] ∧ inp.closed = false) ∨ w = .finished := by
  cases w with
  | finished => exact Or.inr rfl
  | closing => have := h .close; simp [workerStep, closeCh] at this
  | got r =>
    have := h (.get nid)
    simp only [workerStep] at this
    split at this <;> simp at this
  | «have» b r =>
    have := h .fill
    simp only [workerStep] at this
    split at this <;> simp at this
  | sending p =>
    have := h .send
    simp only [workerStep] at this
    split at this
    · simp at this
    · rename_i hs
      have := sendOn_none hs
      rcases hroom with h1 | h1
      · simp [h1] at this
      · omega
  | idle =>
    have := h .recv
    simp only [workerStep] at this
    split at this
    · simp at this
    · rename_i hb
      split at this
      · simp at this
      · rename_i hc
        exact Or.inl ⟨rfl, hb, by simpa using hc⟩

theorem sender_stuck {cfg inp s} (h : ∀ e, senderStep cfg inp s e = none) (hsh : sndShape s.snd)
    (hroom : s.errc1.closed = true ∨ s.errc1.buf.length < cfg.capErrc) :
    (s.snd = .idle ∧ s.merged.buf = [] ∧ s.merged.closed = false) ∨ s.snd = .finished := by
  cases hsnd : s.snd with
  | finished => exact Or.inr rfl
  | exit1 => have := h .close1; simp [senderStep, hsnd] at this
  | exit2 => have := h .close2; simp [senderStep, hsnd] at this
  | work b r todo =>
    have := h .call
    rw [hsnd] at hsh
    rcases hsh with rfl | rfl <;> simp [senderStep, hsnd] at this
  | report e k =>
    have := h .report
    simp only [senderStep, hsnd] at this
    split at this
    · simp at this
    · rename_i hs
      have := sendOn_none hs
      rcases hroom with h1 | h1
      · simp [h1] at this
      · omega
  | idle =>
    have := h .recv
    simp only [senderStep, hsnd] at this
    split at this
    · simp at this
    · simp at this
    · rename_i hb
      split at this
      · simp at this
      · rename_i hc
        exact Or.inl ⟨rfl, hb, by simpa using hc⟩

set_option maxHeartbeats 1000000 in
/-- **progress**: an uncancelled run never deadlocks — in every reachable state either everything has
    returned and the error stream is drained, or some process (possibly the error consumer) can take a step -/
theorem packet_progress {cfg inp s} (hwf : cfg.WF) (hcap : cfg.CapsPos) (h : ReachableNC cfg inp s) :
    Terminated s ∨ ∃ ev, ev ≠ Event.cancel ∧ (step cfg inp s ev).isSome = true := by
  by_cases hex : ∃ ev, ev ≠ Event.cancel ∧ (step cfg inp s ev).isSome = true
  · exact Or.inr hex
  left
  have hstuck : ∀ ev, ev ≠ Event.cancel → step cfg inp s ev = none := by
    intro ev hne
    cases hst : step cfg inp s ev with
    | none => rfl
    | some s' => exact absurd ⟨ev, hne, by simp [hst]⟩ hex
  have hs := reachable_safe hwf (reachableNC_reachable h)
  have hd := reachableNC_drain hwf h
  have hsh := reachableNC_shape hwf h
  have hctx := hd.noCtx
  -- the consumer
  have hmerr : s.merr.buf = [] := by
    have := hstuck .consume (by simp)
    simp only [step] at this
    split at this
    · simp at this
    · assumption
  have hmroom : s.merr.closed = true ∨ s.merr.buf.length < cfg.capMerr := by
    right; rw [hmerr]; exact hcap.merr
  -- the two error multiplexers
  have hem1 := mux_stuck (m := s.em1) (src := s.errc1) (dst := s.merr) (gr := cfg.gEMuxRecv) (gs := cfg.gEMuxSend)
    (rd := false) (cap := cfg.capMerr) (fun e => by
      have := hstuck (.emux false e) (by simp)
      simp only [step, hctx] at this
      split at this
      · simp at this
      · assumption) hmroom
  have hem2 := mux_stuck (m := s.em2) (src := s.errc2) (dst := s.merr) (gr := cfg.gEMuxRecv) (gs := cfg.gEMuxSend)
    (rd := false) (cap := cfg.capMerr) (fun e => by
      have := hstuck (.emux true e) (by simp)
      simp only [step, hctx] at this
      split at this
      · simp at this
      · assumption) hmroom
  have h1room : s.errc1.closed = true ∨ s.errc1.buf.length < cfg.capErrc := by
    rcases hem1 with ⟨_, hb, _⟩ | hf
    · right; rw [hb]; exact hcap.errc
    · left; exact (hd.em1Exit (Or.inr hf)).1
  have h2room : s.errc2.closed = true ∨ s.errc2.buf.length < cfg.capErrc := by
    rcases hem2 with ⟨_, hb, _⟩ | hf
    · right; rw [hb]; exact hcap.errc
    · left; exact (hd.em2Exit (Or.inr hf)).1
  -- the sender
  have hsnd := sender_stuck (cfg := cfg) (inp := inp) (s := s) (fun e => by
      have := hstuck (.sender e) (by simp)
      simpa only [step] using this) hsh h1room
  -- the receiver
  have hrcv : s.rcvTodo = [] := by
    have := hstuck .rcvSend (by simp)
    simp only [step] at this
    split at this
    · split at this
      · simp at this
      · rename_i hso
        have := sendOn_none hso
        rcases h2room with h1 | h1
        · simp [h1] at this
        · omega
    · assumption
  have hrcl : s.errc2.closed = true := by
    have := hstuck .rcvClose (by simp)
    simp only [step, hrcv] at this
    split at this
    · assumption
    · simp at this
  have hem2f : s.em2 = .finished := by
    rcases hem2 with ⟨_, _, hc⟩ | hf
    · rw [hrcl] at hc; simp at hc
    · exact hf
  -- the request generator
  have htodo : s.todo = [] := by
    have := hstuck .envSend (by simp)
    simp only [step] at this
    split at this
    · rename_i r rest _
      have hsome := sendOn_unbounded_some s.inp r
      split at this
      · simp at this
      · rename_i hn; rw [hn] at hsome; simp at hsome
    · assumption
  have hinp : s.inp.closed = true := by
    have := hstuck .envClose (by simp)
    simp only [step, htodo] at this
    split at this
    · assumption
    · simp at this
  -- the lanes
  have hlane : ∀ (i : Nat) (ln : Lane), s.lanes[i]? = some ln → ln.w = .finished ∧ ln.m = .finished := by
    intro i ln hln
    have hmem := List.mem_of_getElem? hln
    have hnpos : 0 < inp.n := by
      have := hd.lanesLen
      have h2 : i < s.lanes.length := (List.getElem?_eq_some_iff.mp hln).1
      omega
    have hgroom : s.merged.closed = true ∨ s.merged.buf.length < cfg.capMergedPer * inp.n := by
      rcases hsnd with ⟨_, hb, _⟩ | hf
      · right; rw [hb]; exact Nat.mul_pos hcap.merged hnpos
      · left; exact (hd.sndExit (Or.inr (Or.inr hf))).1
    have hm := mux_stuck (m := ln.m) (src := ln.out) (dst := s.merged) (gr := cfg.gMuxRecv) (gs := cfg.gMuxSend)
      (rd := true) (cap := cfg.capMergedPer * inp.n) (fun e => by
        have := hstuck (.mux i e) (by simp)
        simp only [step, hln, hctx] at this
        split at this
        · simp at this
        · assumption) hgroom
    have horoom : ln.out.closed = true ∨ ln.out.buf.length < cfg.capOut := by
      rcases hm with ⟨_, hb, _⟩ | hf
      · right; rw [hb]; exact hcap.out
      · left; exact (hd.mExit ln hmem (Or.inr hf)).1
    have hw := worker_stuck (cfg := cfg) (w := ln.w) (out := ln.out) (inp := s.inp) (pool := s.pool)
      (nid := s.nextId) (mem := s.mem) (fun e => by
        have := hstuck (.worker i e) (by simp)
        simp only [step, hln, hctx] at this
        split at this
        · simp at this
        · assumption) horoom
    have hwf' : ln.w = .finished := by
      rcases hw with ⟨_, _, hc⟩ | hf
      · rw [hinp] at hc; simp at hc
      · exact hf
    refine ⟨hwf', ?_⟩
    rcases hm with ⟨_, _, hc⟩ | hf
    · rw [hd.wFin ln hmem hwf'] at hc; simp at hc
    · exact hf
  have hlanes : ∀ l ∈ s.lanes, l.w = .finished ∧ l.m = .finished := by
    intro l hl
    obtain ⟨i, hi⟩ := List.getElem?_of_mem hl
    exact hlane i l hi
  -- the closer of the packet merge
  have hwg : s.wg = 0 := by
    rw [hs.wgCount, List.countP_eq_zero]
    intro l hl; simp [live, (hlanes l hl).2]
  have hcl : s.closer = .finished := by
    have := closer_stuck (waits := cfg.closerWaits) (wg := s.wg) (c := s.closer) (out := s.merged) (fun e => by
      have := hstuck (.closer e) (by simp)
      simp only [step] at this
      split at this
      · simp at this
      · assumption)
    rcases this with ⟨_, hne⟩ | hf
    · exact absurd hwg hne
    · exact hf
  have hsf : s.snd = .finished := by
    rcases hsnd with ⟨_, _, hc⟩ | hf
    · rw [hd.closerFin hcl] at hc; simp at hc
    · exact hf
  have hem1f : s.em1 = .finished := by
    rcases hem1 with ⟨_, _, hc⟩ | hf
    · rw [(hd.sndFin hsf).2] at hc; simp at hc
    · exact hf
  have hewg : s.ewg = 0 := by rw [hs.ewgCount]; simp [live, hem1f, hem2f]
  have hecl : s.ecloser = .finished := by
    have := closer_stuck (waits := cfg.ecloserWaits) (wg := s.ewg) (c := s.ecloser) (out := s.merr) (fun e => by
      have := hstuck (.ecloser e) (by simp)
      simp only [step] at this
      split at this
      · simp at this
      · assumption)
    rcases this with ⟨_, hne⟩ | hf
    · exact absurd hewg hne
    · exact hf
  exact ⟨htodo, hlanes, hcl, hsf, hem1f, hem2f, hecl, hrcv, hmerr⟩

theorem capsPos_of_sideConds {t : Desc.Topology} (h : Desc.SideConds t) : (Desc.cfgOf t).CapsPos :=
  ⟨h.2.2.2.2.2.1.1, h.2.2.2.2.2.1.2.1, h.2.2.2.2.2.1.2.2.1, h.2.2.2.2.2.1.2.2.2⟩

end SxVerif.Pipe
