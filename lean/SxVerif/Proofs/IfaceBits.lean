/-
C17 lemmas, part 1: the code's byte-wise masked comparison (`net.IPNet.Contains`, `IP.Mask`, `CIDRMask`)
is the textbook "the first n bits agree" of Spec/Iface.lean.
-/
import SxVerif.Model.Iface
import SxVerif.Spec.Iface

namespace SxVerif.Proofs.Iface
open SxVerif.Iface SxVerif.Spec.Iface

/-- value of a big-endian bit list -/
def ofBits (l : List Bool) : Nat := l.foldl (fun acc b => 2 * acc + (if b then 1 else 0)) 0

theorem byteBits_and_mask_nat : ∀ k < 9, ∀ n < 256,
    byteBits (UInt8.ofNat n &&& maskByte k) = (byteBits (UInt8.ofNat n)).take k ++ List.replicate (8 - k) false := by
  decide +kernel

theorem ofBits_byteBits_nat : ∀ n < 256, ofBits (byteBits (UInt8.ofNat n)) = n := by decide +kernel

theorem byteBits_and_mask (x : UInt8) (k : Nat) (hk : k ≤ 8) :
    byteBits (x &&& maskByte k) = (byteBits x).take k ++ List.replicate (8 - k) false := by
  have := byteBits_and_mask_nat k (by omega) x.toNat (UInt8.toNat_lt x)
  simpa using this

theorem byteBits_inj {x y : UInt8} (h : byteBits x = byteBits y) : x = y := by
  have hx := ofBits_byteBits_nat x.toNat (UInt8.toNat_lt x)
  have hy := ofBits_byteBits_nat y.toNat (UInt8.toNat_lt y)
  simp only [UInt8.ofNat_toNat] at hx hy
  have : x.toNat = y.toNat := by rw [← hx, ← hy, h]
  exact UInt8.toNat_inj.mp this

@[simp] theorem byteBits_length (x : UInt8) : (byteBits x).length = 8 := by simp [byteBits]

theorem bits_cons (x : UInt8) (xs : IP) : bits (x :: xs) = byteBits x ++ bits xs := by simp [bits]

theorem bits_length (xs : IP) : (bits xs).length = 8 * xs.length := by
  induction xs with
  | nil => simp [bits]
  | cons x xs ih => rw [bits_cons]; simp [ih]; omega

theorem cidrMask_succ (ones n : Nat) :
    cidrMask ones (n + 1) = maskByte (min ones 8) :: cidrMask (ones - 8) n := by
  rw [cidrMask]
  split
  · have : min ones 8 = 8 := by omega
    rw [this]; rfl
  · have h1 : min ones 8 = ones := by omega
    have h2 : ones - 8 = 0 := by omega
    rw [h1, h2]

theorem cidrMask_length (ones n : Nat) : (cidrMask ones n).length = n := by
  induction n generalizing ones with
  | zero => simp [cidrMask]
  | succ n ih => rw [cidrMask_succ]; simp [ih]

/-- one byte: equal under the mask iff the first k bits agree -/
theorem byte_masked_eq (x y : UInt8) (k : Nat) (hk : k ≤ 8) :
    (x &&& maskByte k = y &&& maskByte k) ↔ (byteBits x).take k = (byteBits y).take k := by
  constructor
  · intro h
    have h' := congrArg byteBits h
    rw [byteBits_and_mask x k hk, byteBits_and_mask y k hk] at h'
    exact List.append_cancel_right h'
  · intro h
    apply byteBits_inj
    rw [byteBits_and_mask x k hk, byteBits_and_mask y k hk, h]

/-- the masked comparison of `Contains` is a comparison of bit prefixes -/
theorem masked_eq_iff (xs ys : IP) (ones : Nat) (hl : xs.length = ys.length) :
    (List.zipWith (· &&& ·) xs (cidrMask ones xs.length) = List.zipWith (· &&& ·) ys (cidrMask ones ys.length))
      ↔ (bits xs).take ones = (bits ys).take ones := by
  induction xs generalizing ys ones with
  | nil =>
    cases ys with
    | nil => simp [bits]
    | cons y ys => simp at hl
  | cons x xs ih =>
    cases ys with
    | nil => simp at hl
    | cons y ys =>
      have hl' : xs.length = ys.length := by simpa using hl
      simp only [List.length_cons, cidrMask_succ, List.zipWith_cons_cons, List.cons.injEq, bits_cons,
        List.take_append, byteBits_length]
      rw [ih ys (ones - 8) hl', byte_masked_eq x y (min ones 8) (by omega)]
      have e1 : ∀ z : UInt8, (byteBits z).take ones = (byteBits z).take (min ones 8) := by
        intro z
        by_cases h : ones ≤ 8
        · rw [Nat.min_eq_left h]
        · rw [Nat.min_eq_right (by omega), List.take_of_length_le (by simp; omega), List.take_of_length_le (by simp)]
      rw [e1 x, e1 y]
      constructor
      · rintro ⟨a, b⟩; rw [a, b]
      · intro h
        have := List.append_inj h (by simp [List.length_take])
        exact this

/-- masking an address keeps its first `ones` bits and clears the rest -/
theorem bits_masked (xs : IP) (ones : Nat) :
    bits (List.zipWith (· &&& ·) xs (cidrMask ones xs.length))
      = (bits xs).take ones ++ List.replicate (8 * xs.length - ones) false := by
  induction xs generalizing ones with
  | nil => simp [bits, cidrMask]
  | cons x xs ih =>
    simp only [List.length_cons, cidrMask_succ, List.zipWith_cons_cons, bits_cons, List.take_append,
      byteBits_length]
    rw [ih (ones - 8), byteBits_and_mask x (min ones 8) (by omega)]
    by_cases h : ones ≤ 8
    · have h0 : ones - 8 = 0 := by omega
      rw [Nat.min_eq_left h, h0]
      simp only [List.take_zero, List.nil_append, List.append_nil, List.append_assoc, List.replicate_append_replicate]
      congr 2
      omega
    · rw [Nat.min_eq_right (by omega)]
      have : (byteBits x).take ones = byteBits x := List.take_of_length_le (by simp; omega)
      rw [this]
      simp only [Nat.sub_self, List.replicate_zero, List.append_nil, List.append_assoc]
      rw [List.take_of_length_le (by simp)]
      congr 3
      omega

theorem to4_len4 (x : IP) (h : x.length = 4) : to4 x = some x := by simp [to4, h]

theorem base_bits (t : Target) (ht : t.ip.length = 4) : bits t.base = baseBits t := by
  unfold Target.base maskIP
  rw [if_pos (by rw [cidrMask_length, ht])]
  have := bits_masked t.ip t.ones
  rw [ht] at this
  rw [this, baseBits]

theorem base_length (t : Target) (ht : t.ip.length = 4) : t.base.length = 4 := by
  unfold Target.base maskIP
  rw [if_pos (by rw [cidrMask_length, ht])]
  simp [cidrMask_length, ht]

/-- the code's test on an interface address is the Spec's "IPv4 address whose network contains the target base" -/
theorem attached_eq_onTarget (t : Target) (a : Addr) (ht : t.ip.length = 4) (ha : a.v6 = false → a.ip.length = 4) :
    attached t.base a = onTarget t a := by
  unfold attached onTarget
  cases hv : a.v6 with
  | true => simp
  | false =>
    have ha4 := ha hv
    have hb := base_length t ht
    simp only [Bool.not_false, Bool.true_and, contains4, to4_len4 _ hb, Option.getD_some, hb, ha4, BEq.rfl,
      maskIP, cidrMask_length, if_true]
    have := masked_eq_iff a.ip t.base a.ones (by rw [ha4, hb])
    rw [ha4, hb] at this
    rw [← base_bits t ht]
    rw [Bool.eq_iff_iff]
    simp only [beq_iff_eq]
    exact this

end SxVerif.Proofs.Iface
