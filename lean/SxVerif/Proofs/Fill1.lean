/-
Lemmas for C05, part 1: bytes, RFC 1071 sums (`csum_insert`), the IPv4 header.
-/
import SxVerif.Model.Fill
import SxVerif.Spec.Fill

namespace SxVerif.Proofs.Fill
open SxVerif.Frame (Bytes u8 u16 u32)
open SxVerif.Fill SxVerif.Spec.Fill

theorem b8_toNat (n : Nat) : (b8 n).toNat = n % 256 := by
  simp [b8]

theorem sumWords_eq (bs : Bytes) : sumWords bs = wordSum bs := by
  fun_induction sumWords bs <;> simp [wordSum, *]

theorem wordSum_append_even (a b : Bytes) (h : a.length % 2 = 0) : wordSum (a ++ b) = wordSum a + wordSum b := by
  fun_induction wordSum a with
  | case1 => simp
  | case2 x => simp at h
  | case3 x y rest ih =>
    have : rest.length % 2 = 0 := by simp at h; omega
    simp [wordSum, ih this]; omega

theorem wordSum_le (bs : Bytes) : wordSum bs ≤ 65280 * bs.length := by
  fun_induction wordSum bs with
  | case1 => simp
  | case2 x => have := x.toNat_lt; simp; omega
  | case3 x y rest ih => have := x.toNat_lt; have := y.toNat_lt; simp; omega

theorem wordSum_be16 (n : Nat) (h : n < 65536) : wordSum (be16 n) = n := by
  simp [be16, wordSum, b8_toNat]; omega

theorem fold16_spec (c : Nat) (h : c < 4294967296) :
    fold16 4 c ≤ 65535 ∧ fold16 4 c % 65535 = c % 65535 ∧ (0 < c → 0 < fold16 4 c) ∧ fold16 4 c ≤ c := by
  simp only [fold16]
  split
  · omega
  · split
    · omega
    · split
      · omega
      · omega


theorem be16_length (n : Nat) : (be16 n).length = 2 := rfl
theorem be32_length (n : Nat) : (be32 n).length = 4 := rfl

/-- RFC 1071: a buffer whose 16-bit field at an even offset holds the complemented folded sum of the rest
    (pseudo-header `p` included) sums to a positive multiple of 0xffff -/
theorem csum_insert (pre post : Bytes) (p : Nat) (hpre : pre.length % 2 = 0)
    (hs : wordSum pre + wordSum post + p < 4294967296) :
    csumValid (pre ++ be16 (finish (p + sumWords (pre ++ [0, 0] ++ post))) ++ post) p := by
  have h0 : sumWords (pre ++ [0, 0] ++ post) = wordSum pre + wordSum post := by
    rw [sumWords_eq, List.append_assoc, wordSum_append_even _ _ hpre, wordSum_append_even _ _ (by simp)]
    simp [wordSum]
  obtain ⟨f1, f2, f3, f4⟩ := fold16_spec (p + (wordSum pre + wordSum post)) (by omega)
  have hfin : finish (p + (wordSum pre + wordSum post)) < 65536 := by unfold finish; omega
  unfold csumValid
  rw [h0, List.append_assoc, wordSum_append_even _ _ hpre, wordSum_append_even _ _ (by simp [be16_length]),
    wordSum_be16 _ hfin]
  unfold finish
  omega


theorem len4 {l : Bytes} (h : l.length = 4) : ∃ a b c d, l = [a, b, c, d] := by
  match l, h with
  | [a, b, c, d], _ => exact ⟨a, b, c, d, rfl⟩

theorem len6 {l : Bytes} (h : l.length = 6) : ∃ a b c d e f, l = [a, b, c, d, e, f] := by
  match l, h with
  | [a, b, c, d, e, f], _ => exact ⟨a, b, c, d, e, f, rfl⟩

theorem ipv4Header_length (ihl len id flags ttl proto : Nat) (src dst : Bytes) (hs : src.length = 4) (hd : dst.length = 4) :
    (ipv4Header ihl len id flags ttl proto src dst).length = 20 := by
  simp [ipv4Header, be16, hs, hd]

theorem ipv4Header_csum (ihl len id flags ttl proto : Nat) (src dst : Bytes) (hs : src.length = 4) (hd : dst.length = 4) :
    csumValid (ipv4Header ihl len id flags ttl proto src dst) := by
  have key : ∀ h : Bytes, h.length = 10 →
      csumValid (h ++ be16 (finish (sumWords (h ++ [0, 0] ++ (src ++ dst)))) ++ (src ++ dst)) := by
    intro h hl
    have h1 := wordSum_le h
    have h2 := wordSum_le (src ++ dst)
    rw [hl] at h1
    rw [show (src ++ dst).length = 8 by simp [hs, hd]] at h2
    have := csum_insert h (src ++ dst) 0 (by omega) (by omega)
    simpa using this
  exact key _ (by simp [be16])

theorem ipv4Header_fields (ihl len id flags ttl proto : Nat) (src dst rest : Bytes) (hs : src.length = 4) (hd : dst.length = 4)
    (h1 : ihl < 16) (h2 : len < 65536) (h3 : id < 65536) (h4 : flags < 8) (h5 : ttl < 256) (h6 : proto < 256) :
    ipFields (ipv4Header ihl len id flags ttl proto src dst ++ rest) =
      some { version := 4, ihl := ihl, totalLen := len, id := id, flags := flags, fragOff := 0, ttl := ttl, proto := proto,
             src := src, dst := dst } := by
  obtain ⟨s0, s1, s2, s3, rfl⟩ := len4 hs
  obtain ⟨d0, d1, d2, d3, rfl⟩ := len4 hd
  simp [ipv4Header, ipFields, be16, u8, u16, b8_toNat]
  omega

end SxVerif.Proofs.Fill
