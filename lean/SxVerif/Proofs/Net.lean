/-
Lemmas for C02 (target parsing): the byte-at-a-time parsers of `Model/Net.lean` against the
split-and-read-decimal specification of `Spec/Net.lean`.
-/
import SxVerif.Spec.Net
import SxVerif.Spec.Gen

namespace SxVerif.Proofs.Net
open SxVerif.Gen SxVerif.NetParse

/-! ### digits and decimal values -/

/-- value of a digit string read after an accumulator `n` (the fold of `Spec.Net.decimal`) -/
def valOf (n : Nat) (s : List Char) : Nat := s.foldl (fun n c => n * 10 + (c.toNat - 48)) n

@[simp] theorem valOf_nil (n : Nat) : valOf n [] = n := rfl
@[simp] theorem valOf_cons (n : Nat) (c : Char) (s : List Char) :
    valOf n (c :: s) = valOf (n * 10 + (c.toNat - 48)) s := by
  unfold valOf; rw [List.foldl_cons]

theorem digitVal_eq (c : Char) : digitVal c = c.toNat - 48 := rfl

theorem decimal_eq (s : List Char) :
    Spec.Net.decimal s = if s.isEmpty || !s.all isDigit then none else some (valOf 0 s) := rfl

theorem decimal_of (s : List Char) (hne : s ≠ []) (hd : s.all isDigit = true) :
    Spec.Net.decimal s = some (valOf 0 s) := by
  rw [decimal_eq]
  cases s with
  | nil => exact absurd rfl hne
  | cons c r => simp [hd]

theorem decimal_some (s : List Char) (n : Nat) (h : Spec.Net.decimal s = some n) :
    s ≠ [] ∧ s.all isDigit = true ∧ n = valOf 0 s := by
  rw [decimal_eq] at h
  split at h
  · cases h
  · rename_i hc
    cases h
    cases s with
    | nil => simp at hc
    | cons c r =>
      simp only [List.isEmpty_cons, Bool.false_or, Bool.not_eq_true, Bool.not_eq_false'] at hc
      exact ⟨by simp, hc, rfl⟩

/-! ### `splitOn` -/

theorem splitOn_ne_nil (sep : Char) (s : List Char) : Spec.Net.splitOn sep s ≠ [] := by
  cases s with
  | nil => simp [Spec.Net.splitOn]
  | cons c r =>
    simp only [Spec.Net.splitOn]
    split
    · simp
    · split <;> simp

theorem splitOn_cons_sep (sep : Char) (r : List Char) :
    Spec.Net.splitOn sep (sep :: r) = [] :: Spec.Net.splitOn sep r := by
  simp only [Spec.Net.splitOn]
  cases h : Spec.Net.splitOn sep r with
  | nil => exact absurd h (splitOn_ne_nil sep r)
  | cons hd tl => simp

theorem splitOn_cons_ne (sep c : Char) (r hd : List Char) (tl : List (List Char)) (hc : c ≠ sep)
    (h : Spec.Net.splitOn sep r = hd :: tl) :
    Spec.Net.splitOn sep (c :: r) = (c :: hd) :: tl := by
  simp only [Spec.Net.splitOn, h]
  simp [hc]

theorem splitOn_noSep (sep : Char) (s : List Char) (h : sep ∉ s) : Spec.Net.splitOn sep s = [s] := by
  induction s with
  | nil => rfl
  | cons c r ih =>
    simp only [List.mem_cons, not_or] at h
    exact splitOn_cons_ne sep c r r [] (fun e => h.1 e.symm) (ih h.2)

theorem splitOn_append (sep : Char) (a b : List Char) (h : sep ∉ a) :
    Spec.Net.splitOn sep (a ++ sep :: b) = a :: Spec.Net.splitOn sep b := by
  induction a with
  | nil => exact splitOn_cons_sep sep b
  | cons c r ih =>
    simp only [List.mem_cons, not_or] at h
    exact splitOn_cons_ne sep c _ r _ (fun e => h.1 e.symm) (ih h.2)

/-- a single part: no separator at all -/
theorem splitOn_eq_one (sep : Char) (s a : List Char) (h : Spec.Net.splitOn sep s = [a]) :
    s = a ∧ sep ∉ s := by
  by_cases hm : sep ∈ s
  · obtain ⟨x, y, rfl, hx⟩ := List.eq_append_cons_of_mem hm
    rw [splitOn_append sep x y hx] at h
    simp only [List.cons.injEq] at h
    exact absurd h.2 (splitOn_ne_nil sep y)
  · rw [splitOn_noSep sep s hm] at h
    simp only [List.cons.injEq, and_true] at h
    exact ⟨h, hm⟩

/-- exactly two parts: exactly one separator -/
theorem splitOn_eq_two (sep : Char) (s a m : List Char) (h : Spec.Net.splitOn sep s = [a, m]) :
    s = a ++ sep :: m ∧ sep ∉ a ∧ sep ∉ m := by
  by_cases hm : sep ∈ s
  · obtain ⟨x, y, rfl, hx⟩ := List.eq_append_cons_of_mem hm
    rw [splitOn_append sep x y hx] at h
    simp only [List.cons.injEq] at h
    obtain ⟨rfl, h2⟩ := h
    obtain ⟨rfl, hy⟩ := splitOn_eq_one sep y m h2
    exact ⟨rfl, hx, hy⟩
  · rw [splitOn_noSep sep s hm] at h
    simp at h

/-! ### `parseV4` is sound: the four octets are the decimal values of the four dot-separated parts -/

theorem isDigit_dot : isDigit '.' = false := by decide

theorem v4Loop_sound : ∀ (rest : List Char) (val digLen pos : Nat) (fields : List Nat)
    (first prevDot : Bool) (q : List Nat),
    v4Loop rest val digLen pos fields first prevDot = some q →
    val ≤ 255 → pos ≤ 3 →
    (digLen = 0 → (first = true ∧ pos = 0) ∨ (prevDot = true ∧ rest ≠ [])) →
    ∃ hd tl vs, Spec.Net.splitOn '.' rest = hd :: tl ∧ hd.all isDigit = true ∧
      (digLen = 0 → hd ≠ []) ∧ valOf val hd ≤ 255 ∧
      tl.map Spec.Net.decimal = vs.map some ∧ (∀ x ∈ vs, x ≤ 255) ∧
      q = fields ++ valOf val hd :: vs ∧ vs.length + pos = 3
  | [], val, digLen, pos, fields, first, prevDot, q, h, hv, hp, hinv => by
    simp only [v4Loop] at h
    split at h
    · cases h
    · cases h
      refine ⟨[], [], [], rfl, rfl, ?_, hv, rfl, by simp, rfl, by simp; omega⟩
      intro h0
      rcases hinv h0 with ⟨_, hp0⟩ | ⟨_, hne⟩
      · omega
      · exact absurd rfl hne
  | c :: rest, val, digLen, pos, fields, first, prevDot, q, h, hv, hp, hinv => by
    simp only [v4Loop] at h
    split at h
    · -- a digit
      rename_i hdig
      split at h
      · cases h
      · split at h
        · cases h
        · rename_i hle
          have hle' : val * 10 + digitVal c ≤ 255 := by omega
          obtain ⟨hd, tl, vs, hs, hall, _, hval, htl, hvs, hq, hlen⟩ :=
            v4Loop_sound rest _ _ pos fields false false q h hle' hp (by omega)
          have hc : c ≠ '.' := by
            intro e; subst e; rw [isDigit_dot] at hdig; cases hdig
          refine ⟨c :: hd, tl, vs, splitOn_cons_ne '.' c rest hd tl hc hs, ?_, by simp,
            ?_, htl, hvs, ?_, hlen⟩
          · simp [hdig, hall]
          · simpa [digitVal_eq] using hval
          · simpa [digitVal_eq] using hq
    · split at h
      · -- a dot
        rename_i hdot
        have hc : c = '.' := by simpa using hdot
        subst hc
        split at h
        · cases h
        · rename_i hfl
          split at h
          · cases h
          · rename_i hp3
            simp only [Bool.or_eq_true, not_or, Bool.not_eq_true, List.isEmpty_eq_false_iff] at hfl
            obtain ⟨⟨hf, hre⟩, hpd⟩ := hfl
            have hp3' : pos ≠ 3 := by simpa using hp3
            obtain ⟨hd, tl, vs, hs, hall, hne, hval, htl, hvs, hq, hlen⟩ :=
              v4Loop_sound rest 0 0 (pos + 1) (fields ++ [val]) false true q h (by omega) (by omega)
                (fun _ => Or.inr ⟨rfl, hre⟩)
            have hne' := hne rfl
            refine ⟨[], hd :: tl, valOf 0 hd :: vs, ?_, rfl, ?_, hv, ?_, ?_, ?_, ?_⟩
            · rw [splitOn_cons_sep, hs]
            · intro h0
              rcases hinv h0 with ⟨hf', _⟩ | ⟨hpd', _⟩
              · rw [hf] at hf'; cases hf'
              · rw [hpd] at hpd'; cases hpd'
            · simp [decimal_of hd hne' hall, htl]
            · intro x hx
              rcases List.mem_cons.1 hx with rfl | hx
              · exact hval
              · exact hvs x hx
            · simpa using hq
            · simp only [List.length_cons]; omega
      · cases h

/-- every byte accepted by `v4Loop` is a digit or a dot -/
theorem v4Loop_chars : ∀ (rest : List Char) (val digLen pos : Nat) (fields : List Nat)
    (first prevDot : Bool) (q : List Nat),
    v4Loop rest val digLen pos fields first prevDot = some q →
    ∀ c ∈ rest, isDigit c = true ∨ c = '.'
  | [], _, _, _, _, _, _, _, _ => by simp
  | c :: rest, val, digLen, pos, fields, first, prevDot, q, h => by
    simp only [v4Loop] at h
    intro x hx
    split at h
    · rename_i hdig
      split at h
      · cases h
      · split at h
        · cases h
        · rcases List.mem_cons.1 hx with rfl | hx
          · exact Or.inl hdig
          · exact v4Loop_chars rest _ _ _ _ _ _ q h x hx
    · split at h
      · rename_i hdot
        have hc : c = '.' := by simpa using hdot
        split at h
        · cases h
        · split at h
          · cases h
          · rcases List.mem_cons.1 hx with rfl | hx
            · exact Or.inr hc
            · exact v4Loop_chars rest _ _ _ _ _ _ q h x hx
      · cases h

theorem parseV4_no_slash (s : List Char) (q : List Nat) (h : parseV4 s = some q) : '/' ∉ s := by
  intro hm
  rcases v4Loop_chars s _ _ _ _ _ _ q h '/' hm with h1 | h1
  · revert h1; decide
  · revert h1; decide

/-- `parseV4` success: four octets, each the decimal value of the corresponding part -/
theorem parseV4_sound (s : List Char) (q : List Nat) (h : parseV4 s = some q) :
    ∃ a b c d, q = [a, b, c, d] ∧ a ≤ 255 ∧ b ≤ 255 ∧ c ≤ 255 ∧ d ≤ 255 ∧
      (Spec.Net.splitOn '.' s).map Spec.Net.decimal = [some a, some b, some c, some d] := by
  obtain ⟨hd, tl, vs, hs, hall, hne, hval, htl, hvs, hq, hlen⟩ :=
    v4Loop_sound s 0 0 0 [] true false q h (by omega) (by omega) (fun _ => Or.inl ⟨rfl, rfl⟩)
  match vs, hlen with
  | [b, c, d], _ =>
    refine ⟨valOf 0 hd, b, c, d, by simpa using hq, hval, hvs b (by simp), hvs c (by simp),
      hvs d (by simp), ?_⟩
    rw [hs, List.map_cons, decimal_of hd (hne rfl) hall, htl]
    rfl

theorem quadVal_lt (a b c d : Nat) (ha : a ≤ 255) (hb : b ≤ 255) (hc : c ≤ 255) (hd : d ≤ 255) :
    quadVal [a, b, c, d] < 2 ^ 32 := by
  simp only [quadVal]; omega

theorem parseV4_quad (s : List Char) (q : List Nat) (h : parseV4 s = some q) :
    Spec.Net.quad s = some (quadVal q) ∧ quadVal q < 2 ^ 32 := by
  obtain ⟨a, b, c, d, rfl, ha, hb, hc, hd, hm⟩ := parseV4_sound s q h
  refine ⟨?_, quadVal_lt a b c d ha hb hc hd⟩
  simp only [Spec.Net.quad, hm]
  simp [ha, hb, hc, hd, quadVal]

/-! ### `dtoi` -/

theorem dtoiLoop_sound : ∀ (m : List Char) (n i r j : Nat) (ok : Bool),
    dtoiLoop m n i = (r, j, ok) → ok = true → j = i + m.length →
    m.all isDigit = true ∧ r = valOf n m ∧ j ≠ 0
  | [], n, i, r, j, ok, h, hok, hj => by
    simp only [dtoiLoop, Prod.mk.injEq] at h
    obtain ⟨rfl, rfl, rfl⟩ := h
    refine ⟨rfl, rfl, ?_⟩
    simpa using hok
  | c :: rest, n, i, r, j, ok, h, hok, hj => by
    simp only [dtoiLoop] at h
    split at h
    · rename_i hdig
      split at h
      · simp only [Prod.mk.injEq] at h
        rw [← h.2.2] at hok; cases hok
      · obtain ⟨hall, hr, hj0⟩ := dtoiLoop_sound rest _ (i + 1) r j ok h hok
          (by simp only [List.length_cons] at hj; omega)
        refine ⟨by simp [hdig, hall], ?_, hj0⟩
        simpa [digitVal_eq] using hr
    · simp only [Prod.mk.injEq] at h
      simp only [List.length_cons] at hj
      omega

theorem dtoi_sound (m : List Char) (n : Nat) (h : dtoi m = (n, m.length, true)) :
    Spec.Net.decimal m = some n ∧ '/' ∉ m := by
  obtain ⟨hall, hr, hj⟩ := dtoiLoop_sound m 0 0 n m.length true h rfl (by omega)
  have hne : m ≠ [] := by
    intro e; subst e; exact hj rfl
  refine ⟨by rw [decimal_of m hne hall, hr], ?_⟩
  intro hm
  have := List.all_eq_true.1 hall '/' hm
  revert this; decide

/-! ### `splitSlash` -/

theorem splitSlash_some : ∀ (s a m : List Char), splitSlash s = some (a, m) →
    s = a ++ '/' :: m ∧ '/' ∉ a
  | [], a, m, h => by simp [splitSlash] at h
  | c :: rest, a, m, h => by
    simp only [splitSlash] at h
    split at h
    · rename_i hc
      have hc' : c = '/' := by simpa using hc
      simp only [Option.some.injEq, Prod.mk.injEq] at h
      obtain ⟨rfl, rfl⟩ := h
      simp [hc']
    · rename_i hc
      have hc' : c ≠ '/' := by simpa using hc
      cases hr : splitSlash rest with
      | none => rw [hr] at h; cases h
      | some p =>
        obtain ⟨a', m'⟩ := p
        rw [hr] at h
        simp only [Option.map_some, Option.some.injEq, Prod.mk.injEq] at h
        obtain ⟨rfl, rfl⟩ := h
        obtain ⟨h1, h2⟩ := splitSlash_some rest a' m' hr
        refine ⟨by rw [h1]; rfl, ?_⟩
        simp only [List.mem_cons, not_or]
        exact ⟨fun e => hc' e.symm, h2⟩

theorem splitSlash_none : ∀ (s : List Char), splitSlash s = none → '/' ∉ s
  | [], _ => by simp
  | c :: rest, h => by
    simp only [splitSlash] at h
    split at h
    · cases h
    · rename_i hc
      have hc' : c ≠ '/' := by simpa using hc
      cases hr : splitSlash rest with
      | none =>
        simp only [List.mem_cons, not_or]
        exact ⟨fun e => hc' e.symm, splitSlash_none rest hr⟩
      | some p => rw [hr] at h; cases h

theorem splitSlash_of_not_mem : ∀ (s : List Char), '/' ∉ s → splitSlash s = none
  | [], _ => rfl
  | c :: rest, h => by
    simp only [List.mem_cons, not_or] at h
    have hc : (c == '/') = false := by simpa using fun e : c = '/' => h.1 e.symm
    simp only [splitSlash, hc, splitSlash_of_not_mem rest h.2]
    rfl

theorem splitSlash_append : ∀ (a m : List Char), '/' ∉ a → splitSlash (a ++ '/' :: m) = some (a, m)
  | [], m, _ => by simp [splitSlash]
  | c :: rest, m, h => by
    simp only [List.mem_cons, not_or] at h
    have hc : (c == '/') = false := by simpa using fun e : c = '/' => h.1 e.symm
    simp only [List.cons_append, splitSlash, hc, splitSlash_append rest m h.2]
    rfl

/-! ### alignment arithmetic -/

theorem align_mod (v k : Nat) : v / 2 ^ k * 2 ^ k % 2 ^ k = 0 := Nat.mul_mod_left _ _

theorem align_le (v k : Nat) (hv : v < 2 ^ 32) (hk : k ≤ 32) : v / 2 ^ k * 2 ^ k + 2 ^ k ≤ 2 ^ 32 := by
  have hpow : (2 : Nat) ^ 32 = 2 ^ k * 2 ^ (32 - k) := by
    rw [← Nat.pow_add]; congr 1; omega
  have hq : v / 2 ^ k < 2 ^ (32 - k) := Nat.div_lt_of_lt_mul (by rw [← hpow]; exact hv)
  have h1 : (v / 2 ^ k + 1) * 2 ^ k ≤ 2 ^ (32 - k) * 2 ^ k := Nat.mul_le_mul_right _ hq
  rw [Nat.succ_mul] at h1
  rw [hpow, Nat.mul_comm (2 ^ k)]
  exact h1

/-! ### the parsers' success, taken apart -/

theorem parseCIDR_some (s : List Char) (base ones : Nat) (h : parseCIDR s = some (base, ones)) :
    ∃ a m v, s = a ++ '/' :: m ∧ '/' ∉ a ∧ '/' ∉ m ∧ Spec.Net.quad a = some v ∧ v < 2 ^ 32 ∧
      Spec.Net.decimal m = some ones ∧ ones ≤ 32 ∧ base = v / 2 ^ (32 - ones) * 2 ^ (32 - ones) := by
  unfold parseCIDR at h
  split at h
  · cases h
  · rename_i a m hs
    split at h
    · cases h
    · rename_i q hq
      obtain ⟨hs1, hs2⟩ := splitSlash_some s a m hs
      obtain ⟨hquad, hlt⟩ := parseV4_quad a q hq
      rcases hd : dtoi m with ⟨n, i, ok⟩
      rw [hd] at h
      simp only at h
      split at h
      · cases h
      · rename_i hc
        simp only [Bool.or_eq_true, Bool.not_eq_true', bne_iff_ne, ne_eq, decide_eq_true_eq,
          not_or, Bool.not_eq_false, Decidable.not_not, Nat.not_lt] at hc
        obtain ⟨⟨hok, hi⟩, hn⟩ := hc
        subst hok; subst hi
        simp only [Option.some.injEq, Prod.mk.injEq] at h
        obtain ⟨rfl, rfl⟩ := h
        obtain ⟨hdec, hm⟩ := dtoi_sound m n hd
        exact ⟨a, m, quadVal q, hs1, hs2, hm, hquad, hlt, hdec, hn, rfl⟩

theorem denote_host (s : List Char) (v : Nat) (hs : '/' ∉ s) (hq : Spec.Net.quad s = some v) :
    Spec.Net.denote s = some (v, 32) := by
  simp [Spec.Net.denote, splitOn_noSep '/' s hs, hq]

theorem denote_cidr (a m : List Char) (v n : Nat) (ha : '/' ∉ a) (hm : '/' ∉ m)
    (hq : Spec.Net.quad a = some v) (hd : Spec.Net.decimal m = some n) (hn : n ≤ 32) :
    Spec.Net.denote (a ++ '/' :: m) = some (v / 2 ^ (32 - n) * 2 ^ (32 - n), n) := by
  simp [Spec.Net.denote, splitOn_append '/' a m ha, splitOn_noSep '/' m hm, hq, hd, hn]

/-! ### required theorems: refusal and exactness -/

theorem colon_refused (s : List Char) (h : ':' ∈ s) : parseIPNet s = none := by
  simp [parseIPNet, h]

theorem parse_exact (s : List Char) (net : Net) (h : parseIPNet s = some net) :
    Spec.Net.denote s = some (net.base, net.ones) ∧ Spec.Gen.NetOK net := by
  unfold parseIPNet at h
  split at h
  · cases h
  · split at h
    · rename_i base ones hc
      cases h
      obtain ⟨a, m, v, rfl, ha, hm, hq, hv, hd, hn, rfl⟩ := parseCIDR_some s base ones hc
      refine ⟨denote_cidr a m v ones ha hm hq hd hn, rfl, rfl, hn, align_mod _ _, ?_⟩
      exact align_le v (32 - ones) hv (by omega)
    · split at h
      · rename_i q hq
        cases h
        obtain ⟨hquad, hlt⟩ := parseV4_quad s q hq
        refine ⟨denote_host s _ (parseV4_no_slash s q hq) hquad, rfl, rfl, Nat.le_refl _, ?_, ?_⟩
        · exact Nat.mod_one _
        · simp only [Nat.sub_self, Nat.pow_zero]; omega
      · cases h

/-! ### round trips -/

theorem renderNat_eq (n : Nat) : Spec.Net.renderNat n = Nat.toDigits 10 n := by
  simp [Spec.Net.renderNat, toString, Nat.repr]

/-- the digit part of `v4Loop`'s state machine, run on one block of bytes -/
def v4Digits : List Char → Nat → Nat → Option (Nat × Nat)
  | [], val, digLen => some (val, digLen)
  | c :: r, val, digLen =>
    if isDigit c then
      if digLen == 1 && val == 0 then none
      else if val * 10 + digitVal c > 255 then none
      else v4Digits r (val * 10 + digitVal c) (digLen + 1)
    else none

theorem v4Loop_block (rest : List Char) (pos : Nat) (fields : List Nat) :
    ∀ (d : List Char) (val digLen v' l' : Nat), v4Digits d val digLen = some (v', l') →
    v4Loop (d ++ rest) val digLen pos fields false false = v4Loop rest v' l' pos fields false false
  | [], val, digLen, v', l', h => by
    simp only [v4Digits, Option.some.injEq, Prod.mk.injEq] at h
    obtain ⟨rfl, rfl⟩ := h
    rfl
  | c :: r, val, digLen, v', l', h => by
    simp only [v4Digits] at h
    simp only [List.cons_append, v4Loop]
    split at h
    · rename_i hdig
      rw [if_pos hdig]
      split at h
      · cases h
      · rename_i hz
        rw [if_neg hz]
        split at h
        · cases h
        · rename_i hle
          simp only [if_neg hle]
          exact v4Loop_block rest pos fields r _ _ v' l' h
    · cases h

theorem v4Loop_block' (rest : List Char) (pos : Nat) (fields : List Nat) (first prevDot : Bool)
    (d : List Char) (v' l' : Nat) (hne : d ≠ []) (h : v4Digits d 0 0 = some (v', l')) :
    v4Loop (d ++ rest) 0 0 pos fields first prevDot = v4Loop rest v' l' pos fields false false := by
  cases d with
  | nil => exact absurd rfl hne
  | cons c r =>
    simp only [v4Digits] at h
    simp only [List.cons_append, v4Loop]
    split at h
    · rename_i hdig
      rw [if_pos hdig]
      split at h
      · cases h
      · rename_i hz
        rw [if_neg hz]
        split at h
        · cases h
        · rename_i hle
          simp only [if_neg hle]
          exact v4Loop_block rest pos fields r _ _ v' l' h
    · cases h

theorem v4Loop_dot (rest : List Char) (val digLen pos : Nat) (fields : List Nat)
    (hne : rest ≠ []) (hp : pos ≠ 3) :
    v4Loop ('.' :: rest) val digLen pos fields false false
      = v4Loop rest 0 0 (pos + 1) (fields ++ [val]) false true := by
  cases rest with
  | nil => exact absurd rfl hne
  | cons x r => simp [v4Loop, isDigit_dot, hp]

/-- finite check: the canonical rendering of an octet is a non-empty block of digits that the
    state machine reads back (no leading zero, value ≤ 255) -/
theorem octet_check : ∀ n, n < 256 →
    ((Nat.toDigits 10 n).isEmpty = false ∧
      v4Digits (Nat.toDigits 10 n) 0 0 = some (n, (Nat.toDigits 10 n).length) ∧
      (Nat.toDigits 10 n).all isDigit = true) := by
  decide +kernel

theorem octet_ok (n : Nat) (h : n < 256) :
    Spec.Net.renderNat n ≠ [] ∧
      v4Digits (Spec.Net.renderNat n) 0 0 = some (n, (Spec.Net.renderNat n).length) ∧
      (Spec.Net.renderNat n).all isDigit = true := by
  rw [renderNat_eq]
  obtain ⟨h1, h2, h3⟩ := octet_check n h
  exact ⟨fun e => by rw [e] at h1; exact Bool.noConfusion h1, h2, h3⟩

/-- finite check: `dtoi` reads back the canonical rendering of a prefix length -/
theorem ones_check : ∀ n, n < 33 →
    (dtoi (Nat.toDigits 10 n) = (n, (Nat.toDigits 10 n).length, true) ∧
      (Nat.toDigits 10 n).all isDigit = true) := by
  decide +kernel

theorem ones_ok (n : Nat) (h : n ≤ 32) :
    dtoi (Spec.Net.renderNat n) = (n, (Spec.Net.renderNat n).length, true) ∧
      (Spec.Net.renderNat n).all isDigit = true := by
  rw [renderNat_eq]
  exact ones_check n (by omega)

/-- the dotted rendering of four octets -/
def renderDots (a b c d : Nat) : List Char :=
  Spec.Net.renderNat a ++ '.' :: (Spec.Net.renderNat b ++ '.' :: (Spec.Net.renderNat c ++ '.' ::
    (Spec.Net.renderNat d ++ [])))

theorem renderQuad_eq (v : Nat) :
    Spec.Net.renderQuad v = renderDots (v / 2 ^ 24 % 256) (v / 2 ^ 16 % 256) (v / 2 ^ 8 % 256) (v % 256) := by
  simp [Spec.Net.renderQuad, renderDots]

theorem parseV4_renderDots (a b c d : Nat) (ha : a < 256) (hb : b < 256) (hc : c < 256) (hd : d < 256) :
    parseV4 (renderDots a b c d) = some [a, b, c, d] := by
  obtain ⟨na, va, _⟩ := octet_ok a ha
  obtain ⟨nb, vb, _⟩ := octet_ok b hb
  obtain ⟨nc, vc, _⟩ := octet_ok c hc
  obtain ⟨nd, vd, _⟩ := octet_ok d hd
  unfold parseV4 renderDots
  rw [v4Loop_block' _ _ _ _ _ _ _ _ na va, v4Loop_dot _ _ _ _ _ (by simp [nb]) (by decide),
    v4Loop_block' _ _ _ _ _ _ _ _ nb vb, v4Loop_dot _ _ _ _ _ (by simp [nc]) (by decide),
    v4Loop_block' _ _ _ _ _ _ _ _ nc vc, v4Loop_dot _ _ _ _ _ (by simp [nd]) (by decide),
    v4Loop_block' _ _ _ _ _ _ _ _ nd vd]
  rfl

theorem renderDots_chars (a b c d : Nat) (ha : a < 256) (hb : b < 256) (hc : c < 256) (hd : d < 256) :
    ∀ x ∈ renderDots a b c d, isDigit x = true ∨ x = '.' := by
  obtain ⟨_, _, da⟩ := octet_ok a ha
  obtain ⟨_, _, db⟩ := octet_ok b hb
  obtain ⟨_, _, dc⟩ := octet_ok c hc
  obtain ⟨_, _, dd⟩ := octet_ok d hd
  rw [List.all_eq_true] at da db dc dd
  intro x hx
  simp only [renderDots, List.mem_append, List.mem_cons, List.not_mem_nil, or_false] at hx
  rcases hx with hx | rfl | hx | rfl | hx | rfl | hx
  · exact Or.inl (da x hx)
  · exact Or.inr rfl
  · exact Or.inl (db x hx)
  · exact Or.inr rfl
  · exact Or.inl (dc x hx)
  · exact Or.inr rfl
  · exact Or.inl (dd x hx)

theorem octets_lt (v : Nat) :
    v / 2 ^ 24 % 256 < 256 ∧ v / 2 ^ 16 % 256 < 256 ∧ v / 2 ^ 8 % 256 < 256 ∧ v % 256 < 256 := by
  omega

theorem parseV4_renderQuad (v : Nat) (hv : v < 2 ^ 32) :
    ∃ q, parseV4 (Spec.Net.renderQuad v) = some q ∧ quadVal q = v := by
  obtain ⟨h1, h2, h3, h4⟩ := octets_lt v
  refine ⟨_, by rw [renderQuad_eq]; exact parseV4_renderDots _ _ _ _ h1 h2 h3 h4, ?_⟩
  simp only [quadVal]; omega

theorem renderQuad_no_slash (v : Nat) : '/' ∉ Spec.Net.renderQuad v := by
  obtain ⟨h1, h2, h3, h4⟩ := octets_lt v
  intro hm
  rw [renderQuad_eq] at hm
  rcases renderDots_chars _ _ _ _ h1 h2 h3 h4 '/' hm with h | h
  · revert h; decide
  · revert h; decide

theorem renderQuad_no_colon (v : Nat) : ':' ∉ Spec.Net.renderQuad v := by
  obtain ⟨h1, h2, h3, h4⟩ := octets_lt v
  intro hm
  rw [renderQuad_eq] at hm
  rcases renderDots_chars _ _ _ _ h1 h2 h3 h4 ':' hm with h | h
  · revert h; decide
  · revert h; decide

theorem renderNat_no_colon (n : Nat) (h : n ≤ 32) : ':' ∉ Spec.Net.renderNat n := by
  intro hm
  have := List.all_eq_true.1 (ones_ok n h).2 ':' hm
  revert this; decide

theorem roundtrip_host (v : Nat) (hv : v < 2 ^ 32) :
    parseIPNet (Spec.Net.renderQuad v) = some { bytes := 4, base := v, ones := 32, bits := 32 } := by
  obtain ⟨q, hq, hqv⟩ := parseV4_renderQuad v hv
  have hc : parseCIDR (Spec.Net.renderQuad v) = none := by
    simp [parseCIDR, splitSlash_of_not_mem _ (renderQuad_no_slash v)]
  simp [parseIPNet, renderQuad_no_colon v, hc, hq, hqv]

theorem roundtrip_cidr (v ones : Nat) (hv : v < 2 ^ 32) (ho : ones ≤ 32) :
    parseIPNet (Spec.Net.renderCIDR v ones)
      = some { bytes := 4, base := v / 2 ^ (32 - ones) * 2 ^ (32 - ones), ones := ones, bits := 32 } := by
  obtain ⟨q, hq, hqv⟩ := parseV4_renderQuad v hv
  have hr : Spec.Net.renderCIDR v ones = Spec.Net.renderQuad v ++ '/' :: Spec.Net.renderNat ones := by
    simp [Spec.Net.renderCIDR]
  have hcol : ':' ∉ Spec.Net.renderCIDR v ones := by
    rw [hr]
    simp only [List.mem_append, List.mem_cons, not_or]
    exact ⟨renderQuad_no_colon v, by decide, renderNat_no_colon ones ho⟩
  have hc : parseCIDR (Spec.Net.renderCIDR v ones)
      = some (v / 2 ^ (32 - ones) * 2 ^ (32 - ones), ones) := by
    rw [hr]
    unfold parseCIDR
    rw [splitSlash_append _ _ (renderQuad_no_slash v)]
    simp only [hq, (ones_ok ones ho).1, hqv]
    simp [ho]
  simp [parseIPNet, hcol, hc]

/-! ### the Spec verdict -/

theorem quad_lt (a : List Char) (v : Nat) (h : Spec.Net.quad a = some v) : v < 2 ^ 32 := by
  unfold Spec.Net.quad at h
  split at h
  · split at h
    · rename_i hb
      cases h
      omega
    · cases h
  · cases h

theorem canonical_accepted (s : List Char) (h : Spec.Net.isCanonical s = true) :
    parseIPNet s ≠ none := by
  unfold Spec.Net.isCanonical at h
  split at h
  · rename_i a hs
    obtain ⟨rfl, _⟩ := splitOn_eq_one '/' s a hs
    cases hq : Spec.Net.quad s with
    | none => rw [hq] at h; cases h
    | some v =>
      rw [hq] at h
      have he : Spec.Net.renderQuad v = s := by simpa using h
      rw [← he, roundtrip_host v (quad_lt s v hq)]
      simp
  · rename_i a m hs
    obtain ⟨rfl, _, _⟩ := splitOn_eq_two '/' s a m hs
    cases hq : Spec.Net.quad a with
    | none => rw [hq] at h; cases h
    | some v =>
      cases hd : Spec.Net.decimal m with
      | none => rw [hq, hd] at h; simp at h
      | some n =>
        rw [hq, hd] at h
        simp only [Option.any_some, Bool.and_eq_true, beq_iff_eq, decide_eq_true_eq] at h
        obtain ⟨ha, hn, hm⟩ := h
        have he : Spec.Net.renderCIDR v n = a ++ '/' :: m := by
          simp [Spec.Net.renderCIDR, ha, hm]
        rw [← he, roundtrip_cidr v n (quad_lt a v hq) hn]
        simp
  · cases h

theorem holds_model (s : List Char) : Spec.Net.holds s (parseIPNet s) = true := by
  cases hp : parseIPNet s with
  | none =>
    simp only [Spec.Net.holds, Bool.not_eq_true']
    cases hc : Spec.Net.isCanonical s with
    | false => rfl
    | true => exact absurd hp (canonical_accepted s hc)
  | some net =>
    obtain ⟨hden, hb, hbits, _, _, _⟩ := parse_exact s net hp
    have hcol : ':' ∉ s := fun hm => by rw [colon_refused s hm] at hp; cases hp
    simp [Spec.Net.holds, hden, hb, hbits, hcol]

end SxVerif.Proofs.Net
