/-
Byte-level forms of the terminal theorems of the packet pipeline: `packet_final` / `packet_done`
(Proofs/ConcPacket.lean, stated over request identities) combined with byte exactness `packet_bytes`
(Proofs/ConcPacketBuf.lean), and the invariant "`done` is closed at the current number of writes".
Also: the side condition FreeAfterWrite is necessary (`free_before_write_breaks_bytes`).
-/
import SxVerif.Proofs.ConcPacket
import SxVerif.Proofs.ConcPacketBuf

namespace SxVerif.Pipe

/-- errors a request list must produce by itself -/
def failErrs (reqs : List Req) : List Err :=
  reqs.filterMap fun r => match r.kind with
    | .reqErr => some (.req r) | .fillErr => some (.fill r) | .ok => none

/-- the frames that must reach the wire: the bytes built for the error-free requests -/
def okFrames (reqs : List Req) : List Bytes := (reqs.filter (·.kind = .ok)).map (·.frame)

def tokBytes : Tok → Bytes
  | .frame r => r.frame
  | .err _ => []

def tokPkt : Tok → Pkt
  | .err e => .err e
  | .frame r => .buf 0 r

theorem isFrameTok_frame (r : Req) : isFrameTok (.frame r) = true := rfl
theorem isFrameTok_err (e : Err) : isFrameTok (.err e) = false := rfl
theorem pktTok_err (e : Err) : pktTok (.err e) = .err e := rfl
theorem tokPkt_err (e : Err) : tokPkt (.err e) = .err e := rfl

theorem filter_frame_tokOf (reqs : List Req) :
    (reqs.map tokOf).filter isFrameTok = (reqs.filter (·.kind = .ok)).map Tok.frame := by
  induction reqs with
  | nil => rfl
  | cons r rs ih =>
    cases hk : r.kind <;> simp [tokOf, hk, isFrameTok_frame, isFrameTok_err, List.filter_cons, ih]

theorem filter_err_tokOf (reqs : List Req) :
    (reqs.map tokOf).filter (fun t => !isFrameTok t) = (failErrs reqs).map Tok.err := by
  induction reqs with
  | nil => rfl
  | cons r rs ih =>
    simp only [failErrs] at ih ⊢
    cases hk : r.kind <;> simp [tokOf, hk, isFrameTok_frame, isFrameTok_err, List.filter_cons, List.filterMap_cons, ih]

theorem filter_frame_errs (l : List Err) : (l.map Tok.err).filter isFrameTok = [] := by
  induction l with
  | nil => rfl
  | cons e es ih => simp [isFrameTok_frame, isFrameTok_err, List.filter_cons, ih]

theorem filter_err_errs (l : List Err) : (l.map Tok.err).filter (fun t => !isFrameTok t) = l.map Tok.err := by
  induction l with
  | nil => rfl
  | cons e es ih => simp [isFrameTok_frame, isFrameTok_err, List.filter_cons, ih]

theorem filter_frame_frames (l : List Req) : (l.map Tok.frame).filter isFrameTok = l.map Tok.frame := by
  induction l with
  | nil => rfl
  | cons e es ih => simp [isFrameTok_frame, isFrameTok_err, List.filter_cons, ih]

theorem filter_err_frames (l : List Req) : (l.map Tok.frame).filter (fun t => !isFrameTok t) = [] := by
  induction l with
  | nil => rfl
  | cons e es ih => simp [isFrameTok_frame, isFrameTok_err, List.filter_cons, ih]

theorem errPkts_toks (l : List Pkt) (h : ∀ p ∈ l, isErrPkt p = true) :
    (l.map pktTok).filter isFrameTok = [] ∧ (l.map pktTok).filter (fun t => !isFrameTok t) = l.map pktTok ∧
    (l.map pktTok).map tokPkt = l := by
  induction l with
  | nil => exact ⟨rfl, rfl, rfl⟩
  | cons p ps ih =>
    have hp := h p (by simp)
    obtain ⟨i1, i2, i3⟩ := ih (fun q hq => h q (by simp [hq]))
    cases p with
    | buf b r => simp [isErrPkt] at hp
    | err e => simp [pktTok_err, isFrameTok_err, List.filter_cons, tokPkt_err, i1, i2, i3]

/-- **C07_final, byte level**: when every goroutine of an uncancelled run has returned and the error stream
    is drained, the byte strings handed to the writer are, as a multiset, exactly the frames built for the
    error-free requests, and the error consumer received, as a multiset, exactly one error per error request,
    failed build, failed write and receiver error -/
theorem packet_final_bytes {cfg inp s} (hwf : cfg.WF) (h : ReachableNC cfg inp s) (hn : 0 < inp.n)
    (ht : Terminated s) :
    (s.written.map (·.1)).Perm (okFrames inp.reqs) ∧
    s.errsOut.Perm ((failErrs inp.reqs ++ writeErrs s.written ++ inp.rcvErrs).map Pkt.err) := by
  have hp := packet_final hwf h hn ht
  have hd := reachableNC_drain hwf h
  have hbytes := packet_bytes hwf (reachableNC_reachable h)
  obtain ⟨e1, e2, e3⟩ := errPkts_toks s.errsOut (fun p hp => hd.errOnly p (by simp [hp]))
  constructor
  · have h1 := hp.filter isFrameTok
    simp only [doneToks, List.filter_append, filter_frame_tokOf, filter_frame_errs, filter_frame_frames, e1,
      List.append_nil] at h1
    have h2 := h1.map tokBytes
    simp only [List.map_map] at h2
    rw [hbytes]
    exact h2
  · have h1 := hp.filter (fun t => !isFrameTok t)
    simp only [doneToks, List.filter_append, filter_err_tokOf, filter_err_errs, filter_err_frames, e2,
      List.nil_append] at h1
    have h2 := h1.map tokPkt
    rw [e3] at h2
    simpa [List.map_append, List.map_map, Function.comp_def, tokPkt] using h2

/-- `done` closed ⇒ the byte strings handed to the writer so far are exactly the frames of all error-free
    requests of the input -/
theorem packet_done_bytes {cfg inp s} (hwf : cfg.WF) (h : ReachableNC cfg inp s) (hn : 0 < inp.n)
    (hdone : s.done = true) : (s.written.map (·.1)).Perm (okFrames inp.reqs) := by
  have hbytes := packet_bytes hwf (reachableNC_reachable h)
  have h1 : (s.writtenG.map Tok.frame).Perm ((inp.reqs.filter (·.kind = .ok)).map Tok.frame) := by
    rw [List.perm_iff_count]
    intro t
    cases t with
    | frame r =>
      rw [packet_done hwf h hn hdone r, ← filter_frame_tokOf, List.count_filter]
      rfl
    | err e =>
      have a : (s.writtenG.map Tok.frame).count (.err e) = 0 := by rw [List.count_eq_zero]; simp
      have b : ((inp.reqs.filter (·.kind = .ok)).map Tok.frame).count (.err e) = 0 := by
        rw [List.count_eq_zero]; simp
      rw [a, b]
  have h2 := h1.map tokBytes
  simp only [List.map_map] at h2
  rw [hbytes]
  exact h2

/-! ### `done` is closed at the current number of writes (no write happens after `close(done)`) -/

theorem doneAt_step {cfg inp s s' ev} (hs : Safe cfg s)
    (hinv : s.done = true → s.doneAt = some s.written.length) (h : step cfg inp s ev = some s') :
    s'.done = true → s'.doneAt = some s'.written.length := by
  cases ev with
  | sender e =>
    simp only [step] at h
    cases e <;> cases hsnd : s.snd <;> simp [senderStep, hsnd] at h
    · cases hb : s.merged.buf with
      | nil => simp [hb] at h; obtain ⟨_, rfl⟩ := h; exact hinv
      | cons p rest => cases p <;> simp [hb] at h <;> subst h <;> exact hinv
    · rename_i b r todo
      have hnd : s.done = false := by
        cases hd : s.done
        · rfl
        · have := hs.doneClosed hd; unfold closedBy at this; split at this <;> simp [hsnd] at this
      cases todo with
      | nil => simp at h
      | cons c rest =>
        cases c <;> simp at h <;> subst h <;> simp [hnd]
    · rename_i e k
      cases hso : sendOn (some cfg.capErrc) s.errc1 (Pkt.err e) with
      | none => simp [hso] at h
      | some x => simp [hso] at h; subst h; exact hinv
    · obtain ⟨_, rfl⟩ := h; exact hinv
    · obtain ⟨_, rfl⟩ := h; exact hinv
    · subst h; cases firstClose cfg <;> simp [senderClose]; exact hinv
    · subst h; cases secondClose cfg <;> simp [senderClose]; exact hinv
  | worker i e =>
    simp only [step] at h
    split at h <;> try (simp at h; done)
    split at h <;> simp at h; subst h; exact hinv
  | mux i e =>
    simp only [step] at h
    split at h <;> try (simp at h; done)
    split at h <;> simp at h; subst h; exact hinv
  | emux j e =>
    cases j <;> simp only [step] at h <;> split at h <;> simp at h <;> subst h <;> exact hinv
  | closer e =>
    simp only [step] at h
    split at h <;> simp at h; subst h; exact hinv
  | ecloser e =>
    simp only [step] at h
    split at h <;> simp at h; subst h; exact hinv
  | envSend | rcvSend =>
    simp only [step] at h
    split at h <;> try (simp at h; done)
    split at h <;> simp at h; subst h; exact hinv
  | envSkip | envClose | rcvSkip | rcvClose =>
    simp only [step] at h
    split at h <;> try (simp at h; done)
    split at h <;> simp at h
    all_goals first | (subst h; exact hinv) | (obtain ⟨_, rfl⟩ := h; exact hinv)
  | consume =>
    simp only [step] at h
    split at h <;> simp at h; subst h; exact hinv
  | cancel => simp [step] at h; subst h; exact hinv
  | gc b =>
    simp only [step] at h
    split at h <;> simp at h; subst h; exact hinv

/-- in every reachable state (cancellation included) in which `done` is closed, it was closed at the
    current number of writes: nothing is handed to the writer after completion was signalled -/
theorem packet_doneAt {cfg inp s} (hwf : cfg.WF) (h : Reachable cfg inp s) (hdone : s.done = true) :
    s.doneAt = some s.written.length := by
  induction h with
  | init => simp [init] at hdone
  | step hr hst ih => obtain ⟨ev, hev⟩ := hst; exact doneAt_step (reachable_safe hwf hr) ih hev hdone

/-! ### FreeAfterWrite is necessary

The same system with the sender's two calls in the other order (`FreeSerializeBuffer` before
`WritePacketData`: the seeded change "sender frees before writing") reaches a state in which the writer saw
the bytes of ANOTHER request: one worker, two good requests; the buffer of the first packet goes back to
the pool before the write, the worker takes it again for the second request and refills it. -/

def swappedTopology : Desc.Topology :=
  { Desc.reference with stages := Desc.reference.stages.map fun st =>
      if st.id = .sender then
        { st with ops := [.close .done true, .close .errc true, .recv .input true, .send .errc false,
            .call .free, .send .errc false, .call .write, .send .errc false] }
      else st }

def swappedInput : Input :=
  { n := 1, reqs := [⟨0, .ok, [1]⟩, ⟨1, .ok, [2]⟩], rcvErrs := [], wfail := fun _ _ => false }

def swappedTrace : List Event :=
  [.envSend, .envSend, .worker 0 .recv, .worker 0 (.get 0), .worker 0 .fill, .worker 0 .send, .mux 0 .recv,
   .mux 0 .send, .sender .recv, .sender .call, .worker 0 .recv, .worker 0 (.get 0), .worker 0 .fill, .sender .call]

theorem swapped_not_freeAfterWrite : ¬ Desc.FreeAfterWrite swappedTopology := by decide

theorem free_before_write_breaks_bytes :
    ∃ s, Reachable (Desc.cfgOf swappedTopology) swappedInput s ∧
      s.written.map (·.1) = [[2]] ∧ s.writtenG.map (·.frame) = [[1]] := by
  have h : (run (Desc.cfgOf swappedTopology) swappedInput (init swappedInput) swappedTrace).map
      (fun s => (s.written.map (·.1), s.writtenG.map (·.frame))) = some ([[2]], [[1]]) := by decide
  cases hr : run (Desc.cfgOf swappedTopology) swappedInput (init swappedInput) swappedTrace with
  | none => simp [hr] at h
  | some s =>
    rw [hr] at h
    simp only [Option.map_some, Option.some.injEq, Prod.mk.injEq] at h
    exact ⟨s, reachable_run swappedTrace .init hr, h.1, h.2⟩

end SxVerif.Pipe
