/-
Definitions shared by the conservation / exclusivity / progress proofs of the packet pipeline:
tokens in flight, buffers held, and the statements of the invariants.
-/
import SxVerif.Proofs.ConcPacketSafe

namespace SxVerif.Pipe

/-! ### tokens: what each consumed request (and each failed write, each receiver error) turns into -/

inductive Tok where
  | frame (r : Req)
  | err (e : Err)
  deriving DecidableEq, Repr

def pktTok : Pkt → Tok
  | .err e => .err e
  | .buf _ r => .frame r

/-- destiny of a request once a worker has taken it -/
def tokOf (r : Req) : Tok :=
  match r.kind with
  | .ok => .frame r
  | .reqErr => .err (.req r)
  | .fillErr => .err (.fill r)

/-- destiny of a request that is not an error request (worker states `got` / `have`) -/
def fillTok (r : Req) : Tok := if r.kind = .fillErr then .err (.fill r) else .frame r

def wToks : WState → List Tok
  | .got r => [fillTok r]
  | .have _ r => [fillTok r]
  | .sending p => [pktTok p]
  | _ => []

def mToks : MState → List Tok
  | .holding p => [pktTok p]
  | _ => []

def chanToks (c : Chan Pkt) : List Tok := c.buf.map pktTok

def laneToks (l : Lane) : List Tok := wToks l.w ++ chanToks l.out ++ mToks l.m

def sndToks : SState → List Tok
  | .work _ r todo => if Call.write ∈ todo then [.frame r] else []
  | .report e k => .err e :: sndToks k
  | _ => []

/-- everything between the request channel and the two sinks (writer, error consumer) -/
def inflight (s : Sys) : List Tok :=
  s.lanes.flatMap laneToks ++ chanToks s.merged ++ sndToks s.snd ++ chanToks s.errc1 ++ chanToks s.errc2 ++
  mToks s.em1 ++ mToks s.em2 ++ chanToks s.merr

/-- what reached a sink -/
def doneToks (s : Sys) : List Tok := s.writtenG.map .frame ++ s.errsOut.map pktTok

def writeErrs (w : List (Bytes × Bool)) : List Err := (w.filter (·.2)).map (fun p => .write p.1)

/-- what entered the pipeline -/
def sourceToks (s : Sys) : List Tok :=
  s.consumed.map tokOf ++ (writeErrs s.written).map .err ++ s.rcvSent.map .err

/-- token conservation: nothing lost, nothing duplicated (multiset equation, stated by counting) -/
def Conserve (s : Sys) : Prop :=
  ∀ t, (doneToks s).count t + (inflight s).count t = (sourceToks s).count t

/-! ### buffers -/

def pktHeld : Pkt → List (Nat × Req)
  | .buf b r => [(b, r)]
  | .err _ => []

def wHeld : WState → List (Nat × Req)
  | .sending p => pktHeld p
  | _ => []

def wRaw : WState → List Nat
  | .have b _ => [b]
  | _ => []

def mHeld : MState → List (Nat × Req)
  | .holding p => pktHeld p
  | _ => []

def laneHeld (l : Lane) : List (Nat × Req) := wHeld l.w ++ l.out.buf.flatMap pktHeld ++ mHeld l.m

def sndHeld : SState → List (Nat × Req)
  | .work b r todo => if Call.free ∈ todo then [(b, r)] else []
  | .report _ k => sndHeld k
  | _ => []

/-- filled buffers referenced by an in-flight packet, with the request they were filled for -/
def held (s : Sys) : List (Nat × Req) :=
  s.lanes.flatMap laneHeld ++ s.merged.buf.flatMap pktHeld ++ sndHeld s.snd

/-- buffers taken from the pool and not yet filled -/
def raw (s : Sys) : List Nat := s.lanes.flatMap (fun l => wRaw l.w)

/-- every place a buffer identity can be -/
def allBufs (s : Sys) : List Nat := (held s).map (·.1) ++ raw s ++ s.pool

/-- the sender's continuation states have the shape the calls `[write, free]` produce -/
def sndShape : SState → Prop
  | .work _ _ todo => todo = [.write, .free] ∨ todo = [.free]
  | .report _ k => k = .idle ∨ ∃ b r, k = .work b r [.free]
  | _ => True

/-- buffer exclusivity: a buffer identity is in at most one place (in-flight packet, worker, pool), all
    identities were handed out by the pool, every in-flight filled buffer still holds the bytes built
    for its request; hence the bytes the writer saw are the bytes built -/
structure BufInv (s : Sys) : Prop where
  excl : (allBufs s).Nodup
  bound : ∀ b ∈ allBufs s, b < s.nextId
  memOk : ∀ p ∈ held s, s.mem p.1 = p.2.frame
  shape : sndShape s.snd
  log : s.written.map (·.1) = s.writtenG.map (·.frame)

def isErrPkt : Pkt → Bool
  | .err _ => true
  | .buf _ _ => false

def mPkts : MState → List Pkt
  | .holding p => [p]
  | _ => []

/-- facts about who has left its loop, valid while the run is not cancelled -/
structure Drain (cfg : Cfg) (inp : Input) (s : Sys) : Prop where
  noCtx : s.ctx = false
  lanesLen : s.lanes.length = inp.n
  wExit : ∀ l ∈ s.lanes, (l.w = .closing ∨ l.w = .finished) → s.inp.closed = true ∧ s.inp.buf = []
  wFin : ∀ l ∈ s.lanes, l.w = .finished → l.out.closed = true
  mExit : ∀ l ∈ s.lanes, (l.m = .exiting ∨ l.m = .finished) → l.out.closed = true ∧ l.out.buf = []
  closerFin : s.closer = .finished → s.merged.closed = true
  sndExit : (s.snd = .exit1 ∨ s.snd = .exit2 ∨ s.snd = .finished) → s.merged.closed = true ∧ s.merged.buf = []
  sndFin : s.snd = .finished → s.done = true ∧ s.errc1.closed = true
  em1Exit : (s.em1 = .exiting ∨ s.em1 = .finished) → s.errc1.closed = true ∧ s.errc1.buf = []
  em2Exit : (s.em2 = .exiting ∨ s.em2 = .finished) → s.errc2.closed = true ∧ s.errc2.buf = []
  ecloserFin : s.ecloser = .finished → s.merr.closed = true
  reqsSplit : inp.reqs = s.consumed ++ s.inp.buf ++ s.todo
  rcvSplit : inp.rcvErrs = s.rcvSent ++ s.rcvTodo
  errOnly : ∀ p ∈ s.errc1.buf ++ s.errc2.buf ++ s.merr.buf ++ mPkts s.em1 ++ mPkts s.em2 ++ s.errsOut, isErrPkt p = true
  doneAtOk : s.done = true → s.doneAt.isSome
  sndExit2 : s.snd = .exit2 → (if cfg.doneFirst then s.done = true else s.errc1.closed = true)

end SxVerif.Pipe
