import SxVerif.Model.Plain

namespace SxVerif.Plain
open SxVerif.Json

theorem nl_not_in_sp (n : Nat) : (10 : UInt8) ∉ sp n := by
  intro h
  have := List.eq_of_mem_replicate h
  exact absurd this (by decide)

theorem digitChar_ne_nl (n : Nat) : (digitChar n).toNat.toUInt8 ≠ (10 : UInt8) := by
  unfold digitChar
  split <;> decide

theorem nl_not_in_natDigitsF (f n : Nat) : (10 : UInt8) ∉ (natDigitsF f n).map (fun c => c.toNat.toUInt8) := by
  induction f generalizing n with
  | zero => simp [natDigitsF]
  | succ f ih =>
    unfold natDigitsF
    split
    · simp only [List.map_cons, List.map_nil, List.mem_singleton]
      exact fun h => digitChar_ne_nl n h.symm
    · simp only [List.map_append, List.map_cons, List.map_nil, List.mem_append, List.mem_singleton, not_or]
      exact ⟨ih _, fun h => digitChar_ne_nl _ h.symm⟩

theorem nl_not_in_digits (n : Nat) : (10 : UInt8) ∉ digits n := nl_not_in_natDigitsF _ _

theorem nl_not_in_padD (w n : Nat) : (10 : UInt8) ∉ padD w n := by
  unfold padD
  simp only [List.mem_append, not_or]
  exact ⟨nl_not_in_digits n, nl_not_in_sp _⟩

theorem nl_not_in_padS (w : Nat) (s : GoStr) (h : (10 : UInt8) ∉ strBytes s) : (10 : UInt8) ∉ padS w s := by
  unfold padS
  simp only [List.mem_append, not_or]
  exact ⟨h, nl_not_in_sp _⟩

/-- no string field holds a newline byte -/
def NoNewline (r : Result) : Prop := ∀ s ∈ plainStrings r, (10 : UInt8) ∉ strBytes s

/-- one result, one line: the text of a result whose strings hold no newline byte has none either, so the write
    `text ++ "\n"` is exactly one line -/
theorem plain_one_line (r : Result) (h : NoNewline r) (body : List UInt8) (hb : renderPlain r = some body) :
    (10 : UInt8) ∉ body ∧ plainLine r = some (body ++ [10]) := by
  refine ⟨?_, by simp [plainLine, hb]⟩
  cases r with
  | arp a =>
    simp only [renderPlain, Option.some.injEq] at hb
    subst hb
    have h1 := h a.ip (by simp [plainStrings])
    have h2 := h a.mac (by simp [plainStrings])
    have h3 := h a.vendor (by simp [plainStrings])
    simp only [List.mem_append, List.mem_singleton, not_or]
    exact ⟨⟨⟨⟨nl_not_in_padS _ _ h1, by decide⟩, nl_not_in_padS _ _ h2⟩, by decide⟩, h3⟩
  | tcp a =>
    simp only [renderPlain, Option.some.injEq] at hb
    subst hb
    have h1 := h a.ip (by simp [plainStrings])
    have h2 := h a.flags (by simp [plainStrings])
    simp only [List.mem_append, List.mem_singleton, not_or]
    exact ⟨⟨⟨⟨nl_not_in_padS _ _ h1, by decide⟩, nl_not_in_padD _ _⟩, by decide⟩, h2⟩
  | icmp a =>
    simp only [renderPlain] at hb
    split at hb
    · simp only [Option.some.injEq] at hb
      subst hb
      have h1 := h a.ip (by simp [plainStrings])
      simp only [List.mem_append, List.mem_singleton, not_or]
      exact ⟨⟨⟨⟨⟨⟨nl_not_in_padS _ _ h1, by decide⟩, nl_not_in_padD _ _⟩, by decide⟩, nl_not_in_padD _ _⟩, by decide⟩, nl_not_in_padD _ _⟩
    · cases hb
  | socks a =>
    simp only [renderPlain, Option.some.injEq] at hb
    subst hb
    have h1 := h a.ip (by simp [plainStrings])
    simp only [List.mem_append, List.mem_singleton, not_or]
    exact ⟨⟨nl_not_in_padS _ _ h1, by decide⟩, nl_not_in_padD _ _⟩
  | elastic a => simp [renderPlain] at hb
  | docker a => simp [renderPlain] at hb

/-- the line starts with the address of the host it reports, as it stands in the result -/
theorem plain_starts_with_ip_tcp (a : TcpResult) :
    ∃ rest, renderPlain (.tcp a) = some (strBytes a.ip ++ rest) := by
  refine ⟨sp (20 - a.ip.length) ++ [32] ++ padD 5 a.port.toNat ++ [32] ++ strBytes a.flags, ?_⟩
  simp [renderPlain, padS, List.append_assoc]

end SxVerif.Plain
