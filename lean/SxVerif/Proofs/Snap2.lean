/-
Lemmas for C03, part 7 (capture length): the flat header chains of `Spec/Frame.lean`, the IPv4 option check and
hence the whole reply shape depend only on the first 134 bytes of a frame (42 for ARP) — except for a frame with
IPv4 total length 0 and 65536 or more bytes behind the link header (`Spec.Reply.offloadWrap`), whose datagram
length the spec reads modulo 65536.
-/
import SxVerif.Proofs.Reply

namespace SxVerif.Proofs.Snap
open SxVerif.Frame SxVerif.Proc SxVerif.Spec.Frame SxVerif.Spec.Reply SxVerif.Proofs.Frame SxVerif.Proofs.Reply

/-- two byte strings that agree on their first `n` bytes and have at least that many -/
structure SameHead (n : Nat) (f g : Bytes) : Prop where
  take : f.take n = g.take n
  lf : n ≤ f.length
  lg : n ≤ g.length

namespace SameHead
variable {n : Nat} {f g : Bytes}

theorem symm (h : SameHead n f g) : SameHead n g f := ⟨h.take.symm, h.lg, h.lf⟩

theorem u8 (h : SameHead n f g) {i : Nat} (hi : i < n) : u8 g i = Frame.u8 f i := by
  rw [← u8_take f hi, ← u8_take g hi, h.take]

theorem u16 (h : SameHead n f g) {i : Nat} (hi : i + 1 < n) : u16 g i = Frame.u16 f i := by
  rw [← u16_take f hi, ← u16_take g hi, h.take]

theorem window (h : SameHead n f g) {a k : Nat} (hak : a + k ≤ n) : (g.drop a).take k = (f.drop a).take k := by
  have key : ∀ l : Bytes, (l.drop a).take k = ((l.take n).drop a).take k := by
    intro l
    rw [List.drop_take, List.take_take, Nat.min_eq_left (by omega)]
  rw [key g, key f, h.take]

/-- a frame longer than `n` and its first `n` bytes -/
theorem of_take (hn : n ≤ f.length) : SameHead n f (f.take n) :=
  ⟨by rw [List.take_take, Nat.min_self], hn, by rw [List.length_take]; omega⟩

end SameHead

theorem opt_eq_of_imp {α : Type} {a b : Option α} (h1 : ∀ v, a = some v → b = some v)
    (h2 : ∀ v, b = some v → a = some v) : a = b := by
  cases a with
  | none =>
    cases b with
    | none => rfl
    | some v => exact (h2 v rfl).symm ▸ rfl
  | some v => exact (h1 v rfl).symm

variable {n : Nat} {f g : Bytes}

theorem ipOffset_sameHead (h : SameHead n f g) (hn : 14 ≤ n) (vpn : Bool) : ipOffset vpn g = ipOffset vpn f := by
  unfold ipOffset
  have hf : f.length ≥ 14 := Nat.le_trans hn h.lf
  have hg : g.length ≥ 14 := Nat.le_trans hn h.lg
  simp only [h.u16 (show 12 + 1 < n by omega), hf, hg, true_and]

theorem ipOffset_le {vpn : Bool} {o : Nat} (ho : ipOffset vpn f = some o) : o ≤ 14 := by
  rcases ipOffset_some ho with ⟨-, rfl⟩ | ⟨-, rfl, -, -⟩ <;> omega

/-- the IPv4 view of the two frames: same header length and protocol; the datagram ends at the same place, or
    beyond the common head in both -/
theorem ipv4At_sameHead (h : SameHead n f g) {o : Nat} (hn : o + 120 ≤ n)
    (hwf : ¬ (u16 f (o + 2) = some 0 ∧ 65536 ≤ f.length - o))
    (hwg : ¬ (u16 g (o + 2) = some 0 ∧ 65536 ≤ g.length - o))
    {ip : IPv4View} (hip : ipv4At f o = some ip) :
    ∃ ip', ipv4At g o = some ip' ∧ ip'.hlen = ip.hlen ∧ ip'.proto = ip.proto ∧ ip.hlen ≤ 60 ∧
      (ip'.dgEnd = ip.dgEnd ∨ (n ≤ ip.dgEnd ∧ n ≤ ip'.dgEnd)) := by
  obtain ⟨h20, b0, tl0, ff, proto, tl, hb0, htl0, hff, hproto, htl, hv, hihl, htl20, h1, h2, hfrag, hopts, rfl⟩ :=
    ipv4At_some hip
  have hlf := h.lf
  have hlg := h.lg
  have gb0 : u8 g o = some b0 := by rw [h.u8 (by omega)]; exact hb0
  have gtl0 : u16 g (o + 2) = some tl0 := by rw [h.u16 (by omega)]; exact htl0
  have gff : u16 g (o + 6) = some ff := by rw [h.u16 (by omega)]; exact hff
  have gproto : u8 g (o + 9) = some proto := by rw [h.u8 (by omega)]; exact hproto
  have hb16 : b0 % 16 < 16 := Nat.mod_lt _ (by decide)
  have gopts : optionsOK (((g.drop (o + 20)).take (b0 % 16 * 4 - 20)).length + 1)
      ((g.drop (o + 20)).take (b0 % 16 * 4 - 20)) = true := by
    rw [h.window (show o + 20 + (b0 % 16 * 4 - 20) ≤ n by omega)]; exact hopts
  by_cases hz : tl0 = 0
  · subst hz
    have hfl : f.length - o < 65536 := Nat.lt_of_not_le (fun c => hwf ⟨htl0, c⟩)
    have hgl : g.length - o < 65536 := Nat.lt_of_not_le (fun c => hwg ⟨gtl0, c⟩)
    simp only [if_true, Nat.mod_eq_of_lt hfl] at htl
    subst htl
    have gtl : g.length - o = if (0 : Nat) = 0 then (g.length - o) % 65536 else 0 := by
      simp only [if_true, Nat.mod_eq_of_lt hgl]
    refine ⟨_, ipv4At_intro (by omega) gb0 gtl0 gff gproto gtl hv hihl (by omega) (by omega) (by omega) hfrag gopts,
      rfl, rfl, by simp only; omega, .inr ⟨by simp only; omega, by simp only; omega⟩⟩
  · simp only [hz, if_false] at htl
    subst htl
    have gtl : tl = if tl = 0 then (g.length - o) % 65536 else tl := by simp only [hz, if_false]
    refine ⟨_, ipv4At_intro (by omega) gb0 gtl0 gff gproto gtl hv hihl htl20 h1 (by omega) hfrag gopts,
      rfl, rfl, by simp only; omega, ?_⟩
    simp only
    omega

/-- the hypothesis of the chain lemmas in the form `ipv4At_sameHead` wants -/
theorem noWrap_of {k : Kind} (hk : k ≠ .arp) {vpn : Bool} {o : Nat} (ho : ipOffset vpn f = some o)
    (hw : offloadWrap k vpn f = false) : ¬ (u16 f (o + 2) = some 0 ∧ 65536 ≤ f.length - o) := by
  unfold offloadWrap at hw
  rintro ⟨a, b⟩
  cases k with
  | arp => exact hk rfl
  | tcp s => simp [ho, a, b] at hw
  | icmp => simp [ho, a, b] at hw

theorem tcpChain_sameHead (h : SameHead n f g) (hn : 134 ≤ n) {vpn : Bool} {s : Bool}
    (hwf : offloadWrap (.tcp s) vpn f = false) (hwg : offloadWrap (.tcp s) vpn g = false)
    {v : TcpView} (hc : tcpChain vpn f = some v) : tcpChain vpn g = some v := by
  obtain ⟨o, ip, b12, b13, sport, ho, hip, hproto, hseg, hb12, hb13, hsp, hdoff, hdoff', hopts, rfl⟩ := tcpChain_some hc
  have ho14 := ipOffset_le ho
  have ho' : ipOffset vpn g = some o := by rw [ipOffset_sameHead h (by omega)]; exact ho
  obtain ⟨ip', hip', hh, hp, h60, hdg⟩ :=
    ipv4At_sameHead h (by omega) (noWrap_of (by simp) ho hwf) (noWrap_of (by simp) ho' hwg) hip
  have hb12lt := u8_lt hb12
  have hd16 : b12 / 16 < 16 := by omega
  have key := tcpChain_intro (vpn := vpn) (f := g) (b12 := b12) (b13 := b13) (sport := sport) ho' hip'
    (by rw [hp]; exact hproto) (by rw [hh]; omega)
    (by rw [hh, h.u8 (by omega)]; exact hb12) (by rw [hh, h.u8 (by omega)]; exact hb13)
    (by rw [hh, h.u16 (by omega)]; exact hsp) hdoff (by rw [hh]; omega)
    (by rw [hh, h.window (show o + ip.hlen + 20 + (b12 / 16 * 4 - 20) ≤ n by omega)]; exact hopts)
  rw [key, h.window (show o + 12 + 4 ≤ n by omega)]

theorem icmpChain_sameHead (h : SameHead n f g) (hn : 134 ≤ n) {vpn : Bool}
    (hwf : offloadWrap .icmp vpn f = false) (hwg : offloadWrap .icmp vpn g = false)
    {v : IcmpView} (hc : icmpChain vpn f = some v) : icmpChain vpn g = some v := by
  obtain ⟨o, ip, ttl, typ, code, ho, hip, hproto, hseg, httl, htyp, hcode, rfl⟩ := icmpChain_some hc
  have ho14 := ipOffset_le ho
  have ho' : ipOffset vpn g = some o := by rw [ipOffset_sameHead h (by omega)]; exact ho
  obtain ⟨ip', hip', hh, hp, h60, hdg⟩ :=
    ipv4At_sameHead h (by omega) (noWrap_of (by simp) ho hwf) (noWrap_of (by simp) ho' hwg) hip
  have key := icmpChain_intro (vpn := vpn) (f := g) (ttl := ttl) (typ := typ) (code := code) ho' hip'
    (by rw [hp]; exact hproto) (by rw [hh]; omega)
    (by rw [h.u8 (by omega)]; exact httl) (by rw [hh, h.u8 (by omega)]; exact htyp)
    (by rw [hh, h.u8 (by omega)]; exact hcode)
  rw [key, h.window (show o + 12 + 4 ≤ n by omega)]

theorem arpChain_sameHead (h : SameHead n f g) (hn : 42 ≤ n) : arpChain g = arpChain f := by
  unfold arpChain
  have hf : f.length ≥ 42 := Nat.le_trans hn h.lf
  have hg : g.length ≥ 42 := Nat.le_trans hn h.lg
  simp only [h.u16 (show 12 + 1 < n by omega), h.u16 (show 14 + 1 < n by omega), h.u16 (show 16 + 1 < n by omega),
    h.u8 (show 18 < n by omega), h.u8 (show 19 < n by omega), h.window (show 22 + 6 ≤ n by omega),
    h.window (show 28 + 4 ≤ n by omega), hf, hg, true_and]

theorem ipOptsWF_sameHead (h : SameHead n f g) (hn : 74 ≤ n) (vpn : Bool) : ipOptsWF vpn g = ipOptsWF vpn f := by
  unfold ipOptsWF
  rw [ipOffset_sameHead h (by omega)]
  cases ho : ipOffset vpn f with
  | none => rfl
  | some o =>
    have := ipOffset_le ho
    simp only [h.u8 (show o < n by omega)]
    cases hb : Frame.u8 f o with
    | none => rfl
    | some b0 =>
      have hb16 : b0 % 16 < 16 := Nat.mod_lt _ (by decide)
      simp only [h.window (show o + 20 + (b0 % 16 * 4 - 20) ≤ n by omega)]

/-- how many leading bytes of a frame the reply shape of a kind depends on: the longest header chain
    (Ethernet 14 + IPv4 60 + TCP 60; Ethernet 14 + ARP 28) -/
def kindCapture : Kind → Nat
  | .arp => 42
  | _ => 134

/-- the reply shape and the record of a frame are those of any frame with the same first 134 (ARP: 42) bytes -/
theorem replyRecord_sameHead (h : SameHead n f g) (name : String) (k : Kind) (r : SxVerif.Bpf.Range) (vpn : Bool)
    (hn : kindCapture k ≤ n)
    (hwf : offloadWrap k vpn f = false) (hwg : offloadWrap k vpn g = false) :
    replyRecord name k r vpn g = replyRecord name k r vpn f := by
  unfold replyRecord ReplyShape WellFormedUnfragmented Shape fieldsOf
  cases k with
  | tcp s =>
    simp only [kindCapture] at hn
    have hc : tcpChain vpn g = tcpChain vpn f :=
      opt_eq_of_imp (fun _ hv => tcpChain_sameHead h.symm hn hwg hwf hv) (fun _ hv => tcpChain_sameHead h hn hwf hwg hv)
    simp only [hc, ipOptsWF_sameHead h (by omega)]
  | icmp =>
    simp only [kindCapture] at hn
    have hc : icmpChain vpn g = icmpChain vpn f :=
      opt_eq_of_imp (fun _ hv => icmpChain_sameHead h.symm hn hwg hwf hv) (fun _ hv => icmpChain_sameHead h hn hwf hwg hv)
    simp only [hc, ipOptsWF_sameHead h (by omega)]
  | arp =>
    simp only [kindCapture] at hn
    simp only [arpChain_sameHead h hn]

/-- a prefix of at most 65535 bytes is never an offload-wrapped frame -/
theorem offloadWrap_take (k : Kind) (vpn : Bool) (f : Bytes) {n : Nat} (hn : n ≤ 65535) :
    offloadWrap k vpn (f.take n) = false := by
  unfold offloadWrap
  cases k <;> try rfl
  all_goals
    cases ipOffset vpn (f.take n) with
    | none => rfl
    | some o =>
      have hlt : ¬ (65536 ≤ (f.take n).length - o) := by rw [List.length_take]; omega
      simp only [hlt, decide_false, Bool.and_false]

/-- **truncation to the capture length is harmless**: the reply shape and record of the first `n` bytes of a frame
    are those of the frame, for every frame of any length that is not offload-wrapped -/
theorem replyRecord_take (name : String) (k : Kind) (r : SxVerif.Bpf.Range) (vpn : Bool) (f : Bytes) {n : Nat}
    (hn : kindCapture k ≤ n) (hn' : n ≤ 65535) (hw : offloadWrap k vpn f = false) :
    replyRecord name k r vpn (f.take n) = replyRecord name k r vpn f := by
  by_cases hl : n ≤ f.length
  · exact replyRecord_sameHead (SameHead.of_take hl) name k r vpn hn hw (offloadWrap_take k vpn f hn')
  · rw [List.take_of_length_le (by omega)]

end SxVerif.Proofs.Snap
