/-
Lemmas for C14, part 1: the Spec string reader undoes both string escapers, for every Go string.
-/
import SxVerif.Model.Json
import SxVerif.Spec.Json

namespace SxVerif.Proofs.Json
open SxVerif.Json SxVerif.Spec.Json

theorem hexVal_hexChar (n : Nat) (h : n < 16) : hexVal (hexChar n) = some n := by
  have : n = 0 ∨ n = 1 ∨ n = 2 ∨ n = 3 ∨ n = 4 ∨ n = 5 ∨ n = 6 ∨ n = 7 ∨ n = 8 ∨ n = 9 ∨ n = 10 ∨ n = 11 ∨
      n = 12 ∨ n = 13 ∨ n = 14 ∨ n = 15 := by omega
  rcases this with h | h | h | h | h | h | h | h | h | h | h | h | h | h | h | h <;> subst h <;> decide

theorem hexVal_zero : hexVal '0' = some 0 := by decide

theorem map_consFst_some (c : Char) (o : Option (List Char × List Char)) (s r) (h : o = some (s, r)) :
    o.map (consFst c) = some (c :: s, r) := by subst h; rfl

/-- reading `\u00XY` gives back the character, for every character below 256 -/
theorem read_u00 (c : Char) (hc : c.toNat < 256) (t : List Char) :
    readStrBody none (u00 c ++ t) = (readStrBody none t).map (consFst c) := by
  have h1 : hexVal (hexChar (c.toNat / 16)) = some (c.toNat / 16) := hexVal_hexChar _ (by omega)
  have h2 : hexVal (hexChar (c.toNat % 16)) = some (c.toNat % 16) := hexVal_hexChar _ (by omega)
  have h4 : hex4 '0' '0' (hexChar (c.toNat / 16)) (hexChar (c.toNat % 16)) = some c.toNat := by
    simp only [hex4, hexVal_zero, h1, h2]; congr 1; omega
  have hne1 : ¬ ('\\' = '"') := by decide
  simp only [u00, List.cons_append, List.nil_append, readStrBody, hne1, if_false, if_true, h4]
  have a1 : ¬ (0xD800 ≤ c.toNat ∧ c.toNat ≤ 0xDBFF) := by omega
  have a2 : ¬ (0xDC00 ≤ c.toNat ∧ c.toNat ≤ 0xDFFF) := by omega
  simp only [a1, a2, if_false, Char.ofNat_toNat]


/-- a two-character escape `\e` -/
theorem read_simple (e ch : Char) (he : e ≠ 'u') (hs : simpleEsc e = some ch) (t : List Char) :
    readStrBody none ('\\' :: e :: t) = (readStrBody none t).map (consFst ch) := by
  have hne1 : ¬ ('\\' = '"') := by decide
  rw [readStrBody.eq_def]
  simp only [hne1, if_false, if_true]
  split
  · rename_i heq; simp only [List.cons.injEq] at heq; exact absurd heq.1 he
  · rename_i heq; simp only [List.cons.injEq] at heq; obtain ⟨rfl, rfl⟩ := heq; simp [hs]
  · rename_i heq; simp at heq

theorem read_u202x (d : Char) (n : Nat) (hd : hexVal d = some n) (hn : n < 16) (t : List Char) :
    readStrBody none ('\\' :: 'u' :: '2' :: '0' :: '2' :: d :: t)
      = (readStrBody none t).map (consFst (Char.ofNat (0x2020 + n))) := by
  have hne1 : ¬ ('\\' = '"') := by decide
  have h2 : hexVal '2' = some 2 := by decide
  have h4 : hex4 '2' '0' '2' d = some (0x2020 + n) := by
    simp only [hex4, hexVal_zero, h2, hd]
  simp only [readStrBody, hne1, if_false, if_true, h4]
  have a1 : ¬ (0xD800 ≤ 0x2020 + n ∧ 0x2020 + n ≤ 0xDBFF) := by omega
  have a2 : ¬ (0xDC00 ≤ 0x2020 + n ∧ 0x2020 + n ≤ 0xDFFF) := by omega
  simp only [a1, a2, if_false]

theorem read_ufffd (t : List Char) :
    readStrBody none (ufffd ++ t) = (readStrBody none t).map (consFst '�') := by
  have hne1 : ¬ ('\\' = '"') := by decide
  have h4 : hex4 'f' 'f' 'f' 'd' = some 0xFFFD := by decide
  simp only [ufffd, List.cons_append, List.nil_append, readStrBody, hne1, if_false, if_true, h4]
  simp

/-- a character that needs no escape is read as itself -/
theorem read_plain (c : Char) (h : needsEsc c = false) (t : List Char) :
    readStrBody none (c :: t) = (readStrBody none t).map (consFst c) := by
  simp only [needsEsc, Bool.or_eq_false_iff, decide_eq_false_iff_not, beq_eq_false_iff_ne, ne_eq] at h
  obtain ⟨⟨⟨⟨⟨h1, h2⟩, h3⟩, _⟩, _⟩, _⟩ := h
  rw [readStrBody.eq_def]
  simp only [h2, h3, h1, if_false]

theorem needsEsc_lt (c : Char) (h : needsEsc c = true) : c.toNat < 256 := by
  simp only [needsEsc, Bool.or_eq_true, decide_eq_true_eq, beq_iff_eq] at h
  rcases h with ((((h | h) | h) | h) | h) | h
  · omega
  all_goals (subst h; decide)

theorem read_escEasyCh (c : Char) (t : List Char) :
    readStrBody none (escEasyCh c ++ t) = (readStrBody none t).map (consFst c) := by
  unfold escEasyCh
  split
  · rename_i h; subst h; exact read_simple 't' '\t' (by decide) (by decide) t
  split
  · rename_i h; subst h; exact read_simple 'r' '\r' (by decide) (by decide) t
  split
  · rename_i h; subst h; exact read_simple 'n' '\n' (by decide) (by decide) t
  split
  · rename_i h; subst h; exact read_simple '\\' '\\' (by decide) (by decide) t
  split
  · rename_i h; subst h; exact read_simple '"' '"' (by decide) (by decide) t
  split
  · rename_i h; exact read_u00 c (needsEsc_lt c h) t
  split
  · rename_i h; subst h; exact read_u202x '8' 8 (by decide) (by decide) t
  split
  · rename_i h; subst h; exact read_u202x '9' 9 (by decide) (by decide) t
  · rename_i h _ _; exact read_plain c (by simpa using h) t

theorem read_escStdCh (c : Char) (t : List Char) :
    readStrBody none (escStdCh c ++ t) = (readStrBody none t).map (consFst c) := by
  unfold escStdCh
  split
  · rename_i h; subst h; exact read_simple '\\' '\\' (by decide) (by decide) t
  split
  · rename_i h; subst h; exact read_simple '"' '"' (by decide) (by decide) t
  split
  · rename_i h; subst h; exact read_simple 'b' '\x08' (by decide) (by decide) t
  split
  · rename_i h; subst h; exact read_simple 'f' '\x0c' (by decide) (by decide) t
  split
  · rename_i h; subst h; exact read_simple 'n' '\n' (by decide) (by decide) t
  split
  · rename_i h; subst h; exact read_simple 'r' '\r' (by decide) (by decide) t
  split
  · rename_i h; subst h; exact read_simple 't' '\t' (by decide) (by decide) t
  split
  · rename_i h; exact read_u00 c (needsEsc_lt c h) t
  split
  · rename_i h; subst h; exact read_u202x '8' 8 (by decide) (by decide) t
  split
  · rename_i h; subst h; exact read_u202x '9' 9 (by decide) (by decide) t
  · rename_i h _ _; exact read_plain c (by simpa using h) t

theorem map_consFst (c : Char) (o : Option (List Char × List Char)) (s r) (h : o = some (s, r)) :
    o.map (consFst c) = some (c :: s, r) := by subst h; rfl

/-- **string round trip, easyjson**: for every Go string (valid or not) the reader, started after the
    opening quote, returns the sanitised string and stops right after the closing quote -/
theorem read_escEasy (s : GoStr) (rest : List Char) :
    readStrBody none (escEasy s ++ '"' :: rest) = some (sanitize s, rest) := by
  induction s with
  | nil => rw [readStrBody.eq_def]; simp [escEasy, sanitize]
  | cons p t ih =>
    cases p with
    | ch c =>
      simp only [escEasy, escEasyPiece, sanitize, List.append_assoc]
      rw [read_escEasyCh, ih]; rfl
    | bad b =>
      simp only [escEasy, escEasyPiece, sanitize, List.append_assoc]
      rw [read_ufffd, ih]; rfl

theorem read_escStd (s : GoStr) (rest : List Char) :
    readStrBody none (escStd s ++ '"' :: rest) = some (sanitize s, rest) := by
  induction s with
  | nil => rw [readStrBody.eq_def]; simp [escStd, sanitize]
  | cons p t ih =>
    cases p with
    | ch c =>
      simp only [escStd, escStdPiece, sanitize, List.append_assoc]
      rw [read_escStdCh, ih]; rfl
    | bad b =>
      simp only [escStd, escStdPiece, sanitize, List.append_assoc]
      rw [read_ufffd, ih]; rfl

theorem sanitize_ofChars (s : List Char) : sanitize (ofChars s) = s := by
  induction s with
  | nil => rfl
  | cons c t ih => simp only [ofChars, List.map_cons, sanitize] at *; rw [ih]

end SxVerif.Proofs.Json
