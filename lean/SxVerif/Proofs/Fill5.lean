/-
Lemmas for C05, part 5: the ICMP probe and the ARP request (`icmp_ok`, `vpn_same_icmp`, `arp_ok`).
-/
import SxVerif.Proofs.Fill4
namespace SxVerif.Proofs.Fill
open SxVerif.Frame (Bytes u8 u16 u32)
open SxVerif.Fill SxVerif.Spec.Fill

/-- the ICMP message `icmp.PacketFiller.Fill` serializes -/
def icmpMsg (typ code rndIcmpId : Nat) (payload : Bytes) : Bytes :=
  let pre : Bytes := [b8 typ, b8 code]
  let post := be16 (1 + rndIcmpId) ++ be16 1 ++ payload
  pre ++ be16 (finish (sumWords (pre ++ [0, 0] ++ post))) ++ post

theorem fillICMP_eq (o : IPOpts) (typ code : Nat) (r : Req) (a b : Nat) (hs : r.srcIP.length = 4) (hd : r.dstIP.length = 4) :
    fillICMP o typ code r a b =
      withLink o.vpn r (ipv4Header 5 (if o.len = 0 then (20 + (icmpMsg typ code b o.payload).length) % 65536 else o.len)
        (1 + a) o.flags o.ttl o.proto r.srcIP r.dstIP ++ icmpMsg typ code b o.payload) := by
  simp only [fillICMP, to4_of_len4 hs, to4_of_len4 hd, icmpMsg]

theorem icmpMsg_length (typ code i : Nat) (payload : Bytes) : (icmpMsg typ code i payload).length = 8 + payload.length := by
  simp [icmpMsg, be16]; omega

theorem icmpMsg_fields (typ code i : Nat) (payload : Bytes) (ht : typ < 256) (hc : code < 256) (hi : i < 65535) :
    icmpFields (icmpMsg typ code i payload) = some {
      typ := typ, code := code, id := 1 + i, seq := 1, payload := payload } := by
  simp [icmpMsg, icmpFields, be16, u8, u16, b8_toNat]
  omega

theorem icmpMsg_csum (typ code i : Nat) (payload : Bytes) (hl : payload.length ≤ 65507) :
    csumValid (icmpMsg typ code i payload) := by
  have key : ∀ pre post : Bytes, pre.length = 2 → post.length = 4 + payload.length →
      csumValid (pre ++ be16 (finish (sumWords (pre ++ [0, 0] ++ post))) ++ post) := by
    intro pre post h1 h2
    have b1 := wordSum_le pre
    have b2 := wordSum_le post
    rw [h1] at b1; rw [h2] at b2
    have := csum_insert pre post 0 (by omega) (by omega)
    simpa using this
  exact key _ _ rfl (by simp [be16]; omega)

theorem icmp_ok (o : IPOpts) (typ code : Nat) (r : Req) (rndId rndIcmpId : Nat)
    (hr : ReqOK o.vpn r.srcIP r.dstIP r.srcMAC r.dstMAC r.dstPort)
    (ho : o.ttl < 256 ∧ o.len < 65536 ∧ o.proto < 256 ∧ o.flags < 8 ∧ o.payload.length ≤ 65507)
    (ht : typ < 256 ∧ code < 256) (hid : rndId < 65535) (hi : rndIcmpId < 65535) :
    ∃ frame, fillICMP o typ code r rndId rndIcmpId = .ok frame ∧
      let n := 28 + o.payload.length
      let dg := datagram o.vpn frame n
      (o.vpn = false → LinkOK frame r.dstMAC r.srcMAC 0x0800 n) ∧
      dg.length = n ∧
      ipFields dg = some {
        version := 4, ihl := 5, totalLen := if o.len = 0 then n else o.len, id := 1 + rndId,
        flags := o.flags, fragOff := 0, ttl := o.ttl, proto := o.proto, src := r.srcIP, dst := r.dstIP } ∧
      csumValid (dg.take 20) ∧
      icmpFields (dg.drop 20) = some {
        typ := typ, code := code, id := 1 + rndIcmpId, seq := 1, payload := o.payload } ∧
      csumValid (dg.drop 20) ∧
      1 ≤ 1 + rndId ∧ 1 + rndId ≤ 65535 ∧ 1 ≤ 1 + rndIcmpId ∧ 1 + rndIcmpId ≤ 65535 := by
  obtain ⟨h1, h2, h3, h4, h5⟩ := ho
  rw [fillICMP_eq o typ code r rndId rndIcmpId hr.src4 hr.dst4]
  have hl := icmpMsg_length typ code rndIcmpId o.payload
  obtain ⟨frame, hok, hlink, d1, hip, hc, d3⟩ := ip_probe_ok o r rndId (28 + o.payload.length)
    (icmpMsg typ code rndIcmpId o.payload) hr ⟨h1, h2, h3, h4⟩ hid (by omega) (by omega)
  refine ⟨frame, hok, hlink, d1, hip, hc, ?_, ?_, by omega, by omega, by omega, by omega⟩
  · rw [d3]; exact icmpMsg_fields _ _ _ _ ht.1 ht.2 hi
  · rw [d3]; exact icmpMsg_csum _ _ _ _ h5

theorem vpn_same_icmp (o : IPOpts) (t c : Nat) (r : Req) (a b : Nat)
    (hr : ReqOK false r.srcIP r.dstIP r.srcMAC r.dstMAC r.dstPort) :
    ∃ dg frame, fillICMP { o with vpn := true } t c r a b = .ok dg ∧ fillICMP { o with vpn := false } t c r a b = .ok frame ∧
      (frame.drop 14).take dg.length = dg := by
  rw [fillICMP_eq _ t c r a b hr.src4 hr.dst4, fillICMP_eq _ t c r a b hr.src4 hr.dst4]
  obtain ⟨frame, hok, -, hdg⟩ := withLink_ok false r
    (ipv4Header 5 (if o.len = 0 then (20 + (icmpMsg t c b o.payload).length) % 65536 else o.len)
        (1 + a) o.flags o.ttl o.proto r.srcIP r.dstIP ++ icmpMsg t c b o.payload) hr.macs
  exact ⟨_, frame, rfl, hok, by simpa [datagram] using hdg⟩

theorem arp_ok (r : Req) (hr : ArpReqOK r.srcIP r.dstIP r.srcMAC) :
    ∃ frame, fillARP r = .ok frame ∧
      LinkOK frame [0xff, 0xff, 0xff, 0xff, 0xff, 0xff] r.srcMAC 0x0806 28 ∧
      arpFields (frame.drop 14) = some {
        htype := 1, ptype := 0x0800, hlen := 6, plen := 4, oper := 1,
        sha := r.srcMAC, spa := r.srcIP, tha := [0, 0, 0, 0, 0, 0], tpa := r.dstIP } := by
  obtain ⟨hs, hd, hm⟩ := hr
  have hbody : (be16 1 ++ be16 0x0800 ++ [6, 4] ++ be16 1 ++ r.srcMAC ++ r.srcIP ++ [0, 0, 0, 0, 0, 0] ++ r.dstIP).length = 28 := by
    simp [be16, hs, hd, hm]
  refine ⟨_, by simp only [fillARP, hm, to4_of_len4 hd]; rfl, ?_, ?_⟩
  · have := ethFrame_link [0xff, 0xff, 0xff, 0xff, 0xff, 0xff] r.srcMAC 0x0806
      (be16 1 ++ be16 0x0800 ++ [6, 4] ++ be16 1 ++ r.srcMAC ++ r.srcIP ++ [0, 0, 0, 0, 0, 0] ++ r.dstIP) rfl hm (by omega)
    rw [hbody] at this
    exact this
  · obtain ⟨s0, s1, s2, s3, hs'⟩ := len4 hs
    obtain ⟨d0, d1, d2, d3, hd'⟩ := len4 hd
    obtain ⟨m0, m1, m2, m3, m4, m5, hm'⟩ := len6 hm
    simp [hs', hd', hm', ethFrame, arpFields, be16, u8, u16, b8_toNat]

end SxVerif.Proofs.Fill
