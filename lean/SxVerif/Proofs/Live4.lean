/-
Lemmas for C19, part 4 (liveness): with every pass starting and nobody cancelling, under any fair
infinite schedule (the goroutine is scheduled again and again, time keeps flowing) the number of
passes grows beyond every bound.  Core Lean only.
-/
import SxVerif.Proofs.Live2

namespace SxVerif.Proofs.Live
open SxVerif.Live

variable {α : Type} (rescan : Nat) (passes : Nat → Option (List α))

/-- first `n` events of an infinite schedule -/
def prefixOf (sched : Nat → Ev) (n : Nat) : List Ev := (List.range n).map sched

/-- nobody cancels; the generator goroutine is scheduled infinitely often; time keeps flowing -/
structure Fair (sched : Nat → Ev) : Prop where
  noCancel : ∀ i, sched i ≠ .cancel
  procOften : ∀ i, ∃ j, i ≤ j ∧ ∃ c, sched j = .proc c
  timeFlows : ∀ i, ∃ j, i ≤ j ∧ ∃ n, 0 < n ∧ sched j = .tick n

theorem prefixOf_succ (sched : Nat → Ev) (n : Nat) : prefixOf sched (n + 1) = prefixOf sched n ++ [sched n] := by
  simp [prefixOf, List.range_succ]

theorem run_prefix_succ (sched : Nat → Ev) (n : Nat) (s : State α) :
    run rescan passes (prefixOf sched (n + 1)) s =
      step rescan passes (sched n) (run rescan passes (prefixOf sched n) s) := by
  rw [prefixOf_succ, run_append]; rfl

/-- states of a run that nobody cancels and in which every pass starts -/
structure LiveInv (s : State α) : Prop where
  notCancelled : s.cancelled = false
  curSome : s.cur.isSome = true
  waiting : ∀ d, s.pc = .wait d → s.clock < d
  pcOK : s.pc ≠ .both ∧ s.pc ≠ .wokenCtx ∧ s.pc ≠ .done

/-- steps of the goroutine still to go before the next call of the delegate -/
def rho (s : State α) : Nat :=
  match s.pc with
  | .read => 2 * (s.cur.getD []).length + 4
  | .write _ => 2 * (s.cur.getD []).length + 5
  | .wait _ => 2
  | .wokenTimer => 1
  | _ => 0

theorem liveInv_init (t0 : Nat) (s0 : State α) (h : init passes t0 = some s0) : LiveInv s0 := by
  unfold init at h
  split at h
  · cases h
  · cases h; exact ⟨rfl, rfl, by simp, by simp⟩

/-- what one non-cancel event does to a live state -/
structure LStep (e : Ev) (s s' : State α) : Prop where
  inv : LiveInv s'
  mono : s'.next = s.next + 1 ∨ (s'.next = s.next ∧ rho s' ≤ rho s)
  prog : isProc e = true → (∀ d, s.pc ≠ .wait d) → s'.next = s.next + 1 ∨ (s'.next = s.next ∧ rho s' < rho s)
  idle : isProc e = false → (∀ d, s.pc ≠ .wait d) → s'.next = s.next ∧ rho s' = rho s ∧ ∀ d, s'.pc ≠ .wait d
  wait : ∀ d, s.pc = .wait d → s'.next = s.next ∧
    (s'.pc = .wokenTimer ∨ (s'.pc = .wait d ∧ s.clock ≤ s'.clock)) ∧ (∀ n, e = .tick n → s'.clock = s.clock + n)

theorem pc_cases (s : State α) :
    s.pc = .read ∨ (∃ x, s.pc = .write x) ∨ (∃ d, s.pc = .wait d) ∨ s.pc = .both ∨ s.pc = .wokenTimer ∨
      s.pc = .wokenCtx ∨ s.pc = .done := by
  cases s.pc <;> simp

theorem lstep (hall : ∀ k, (passes k).isSome = true) (e : Ev) (he : e ≠ .cancel) (s : State α) (h : LiveInv s) :
    LStep e s (step rescan passes e s) := by
  obtain ⟨hc, hcs, hw, hb, hx, hd⟩ := h
  rcases pc_cases s with hpc | ⟨x, hpc⟩ | ⟨d, hpc⟩ | hpc | hpc | hpc | hpc
  case inr.inr.inr.inl => exact absurd hpc hb
  case inr.inr.inr.inr.inr.inl => exact absurd hpc hx
  case inr.inr.inr.inr.inr.inr => exact absurd hpc hd
  · -- read
    cases e with
    | cancel => exact absurd rfl he
    | tick n =>
      have : step rescan passes (.tick n) s = { s with clock := s.clock + n } := by simp [step, hpc]
      rw [this]
      exact ⟨⟨hc, hcs, by simp [hpc], by simp [hpc]⟩, Or.inr ⟨rfl, by simp [rho, hpc]⟩, by simp [isProc],
        fun _ _ => ⟨rfl, by simp [rho, hpc], by simp [hpc]⟩, by simp [hpc]⟩
    | drop =>
      have : step rescan passes .drop s = s := by simp [step, hc]
      rw [this]
      exact ⟨⟨hc, hcs, hw, hb, hx, hd⟩, Or.inr ⟨rfl, Nat.le_refl _⟩, by simp [isProc],
        fun _ h => ⟨rfl, rfl, h⟩, by simp [hpc]⟩
    | proc c =>
      have hcc : (s.cancelled && c) = false := by simp [hc]
      cases hcur : s.cur with
      | none => simp [hcur] at hcs
      | some l =>
        cases l with
        | cons x xs =>
          have : step rescan passes (.proc c) s = { s with cur := some xs, pc := .write x } := by
            simp only [step, hpc, hcur, hcc]; simp
          rw [this]
          exact ⟨⟨hc, by simp, by simp, by simp⟩, Or.inr ⟨rfl, by simp [rho, hpc, hcur]; omega⟩,
            fun _ _ => Or.inr ⟨rfl, by simp [rho, hpc, hcur]; omega⟩, by simp [isProc], by simp [hpc]⟩
        | nil =>
          have : step rescan passes (.proc c) s = arm rescan s := by simp [step, hpc, hcur]
          rw [this]
          have hpc' : armPc rescan s = .wokenTimer ∨ armPc rescan s = .wait (s.clock + rescan) ∧ 0 < rescan := by
            simp only [armPc, hc]
            by_cases h0 : rescan = 0
            · simp [h0]
            · simp [h0]; omega
          have hrho : rho (arm rescan s) < rho s := by
            rcases hpc' with h | ⟨h, _⟩ <;> simp [rho, h, hpc] <;> omega
          refine ⟨⟨hc, hcs, ?_, ?_⟩, Or.inr ⟨rfl, Nat.le_of_lt hrho⟩,
            fun _ _ => Or.inr ⟨rfl, hrho⟩, by simp [isProc], by simp [hpc]⟩
          · intro d hd'
            rcases hpc' with h | ⟨h, hr⟩
            · rw [arm_pc, h] at hd'; cases hd'
            · rw [arm_pc, h] at hd'; cases hd'; simp only [arm_clock]; omega
          · rcases hpc' with h | ⟨h, _⟩ <;> simp [h]
  · -- write x
    cases e with
    | cancel => exact absurd rfl he
    | tick n =>
      have : step rescan passes (.tick n) s = { s with clock := s.clock + n } := by simp [step, hpc]
      rw [this]
      exact ⟨⟨hc, hcs, by simp [hpc], by simp [hpc]⟩, Or.inr ⟨rfl, by simp [rho, hpc]⟩, by simp [isProc],
        fun _ _ => ⟨rfl, by simp [rho, hpc], by simp [hpc]⟩, by simp [hpc]⟩
    | drop =>
      have : step rescan passes .drop s = s := by simp [step, hc]
      rw [this]
      exact ⟨⟨hc, hcs, hw, hb, hx, hd⟩, Or.inr ⟨rfl, Nat.le_refl _⟩, by simp [isProc],
        fun _ h => ⟨rfl, rfl, h⟩, by simp [hpc]⟩
    | proc c =>
      have hcc : (s.cancelled && c) = false := by simp [hc]
      have : step rescan passes (.proc c) s = { s with pc := .read, out := s.out ++ [x] } := by
        simp only [step, hpc, hcc]; simp
      rw [this]
      exact ⟨⟨hc, hcs, by simp, by simp⟩, Or.inr ⟨rfl, by simp [rho, hpc]⟩,
        fun _ _ => Or.inr ⟨rfl, by simp [rho, hpc]⟩, by simp [isProc], by simp [hpc]⟩
  · -- wait d
    have hlt := hw d hpc
    cases e with
    | cancel => exact absurd rfl he
    | tick n =>
      by_cases hdn : d ≤ s.clock + n
      · have : step rescan passes (.tick n) s = { s with clock := s.clock + n, pc := .wokenTimer } := by
          simp [step, hpc, hdn]
        rw [this]
        refine ⟨⟨hc, hcs, by simp, by simp⟩, Or.inr ⟨rfl, by simp [rho, hpc]⟩, by simp [isProc],
          fun _ h => absurd hpc (h d), ?_⟩
        intro d' hd'; exact ⟨rfl, Or.inl rfl, fun n' hn' => by cases hn'; rfl⟩
      · have : step rescan passes (.tick n) s = { s with clock := s.clock + n } := by
          simp [step, hpc, hdn]
        rw [this]
        refine ⟨⟨hc, hcs, ?_, by simp [hpc]⟩, Or.inr ⟨rfl, by simp [rho, hpc]⟩, by simp [isProc],
          fun _ h => absurd hpc (h d), ?_⟩
        · intro d' hd'
          have : d' = d := by simpa [hpc] using hd'.symm
          subst this; simp; omega
        · intro d' hd'
          exact ⟨rfl, Or.inr ⟨hd', by simp⟩, fun n' hn' => by cases hn'; rfl⟩
    | drop =>
      have : step rescan passes .drop s = s := by simp [step, hc]
      rw [this]
      exact ⟨⟨hc, hcs, hw, hb, hx, hd⟩, Or.inr ⟨rfl, Nat.le_refl _⟩, by simp [isProc],
        fun _ h => ⟨rfl, rfl, h⟩, fun d' hd' => ⟨rfl, Or.inr ⟨hd', Nat.le_refl _⟩, by simp⟩⟩
    | proc c =>
      have : step rescan passes (.proc c) s = s := by simp [step, hpc]
      rw [this]
      exact ⟨⟨hc, hcs, hw, hb, hx, hd⟩, Or.inr ⟨rfl, Nat.le_refl _⟩, fun _ h => absurd hpc (h d),
        by simp [isProc], fun d' hd' => ⟨rfl, Or.inr ⟨hd', Nat.le_refl _⟩, by simp⟩⟩
  · -- wokenTimer
    cases e with
    | cancel => exact absurd rfl he
    | tick n =>
      have : step rescan passes (.tick n) s = { s with clock := s.clock + n } := by simp [step, hpc]
      rw [this]
      exact ⟨⟨hc, hcs, by simp [hpc], by simp [hpc]⟩, Or.inr ⟨rfl, by simp [rho, hpc]⟩, by simp [isProc],
        fun _ _ => ⟨rfl, by simp [rho, hpc], by simp [hpc]⟩, by simp [hpc]⟩
    | drop =>
      have : step rescan passes .drop s = s := by simp [step, hc]
      rw [this]
      exact ⟨⟨hc, hcs, hw, hb, hx, hd⟩, Or.inr ⟨rfl, Nat.le_refl _⟩, by simp [isProc],
        fun _ h => ⟨rfl, rfl, h⟩, by simp [hpc]⟩
    | proc c =>
      have : step rescan passes (.proc c) s = regen passes s := by simp [step, hpc]
      rw [this]
      exact ⟨⟨hc, by simpa using hall s.next, by simp, by simp⟩, Or.inl rfl,
        fun _ _ => Or.inl rfl, by simp [isProc], by simp [hpc]⟩

section Infinite
variable (sched : Nat → Ev) (s0 : State α)

/-- state after the first `i` events -/
abbrev S (i : Nat) : State α := run rescan passes (prefixOf sched i) s0

theorem S_succ (i : Nat) : S rescan passes sched s0 (i + 1) = step rescan passes (sched i) (S rescan passes sched s0 i) :=
  run_prefix_succ rescan passes sched i s0

theorem liveInv_S (hall : ∀ k, (passes k).isSome = true) (hf : Fair sched) (h0 : LiveInv s0) (i : Nat) :
    LiveInv (S rescan passes sched s0 i) := by
  induction i with
  | zero => exact h0
  | succ i ih => rw [S_succ]; exact (lstep rescan passes hall _ (hf.noCancel i) _ ih).1

/-- parked on the timer: time flows, so the timer fires -/
theorem wait_fires (hall : ∀ k, (passes k).isSome = true) (hf : Fair sched) (h0 : LiveInv s0) :
    ∀ (M i d : Nat), (S rescan passes sched s0 i).pc = .wait d → d - (S rescan passes sched s0 i).clock ≤ M →
      ∃ j, i ≤ j ∧ (S rescan passes sched s0 j).pc = .wokenTimer ∧
        (S rescan passes sched s0 j).next = (S rescan passes sched s0 i).next := by
  intro M
  induction M with
  | zero =>
    intro i d hpc hM
    have := (liveInv_S rescan passes sched s0 hall hf h0 i).waiting d hpc
    omega
  | succ M ih =>
    intro i d hpc hM
    obtain ⟨j0, hij, n, hn, hj0⟩ := hf.timeFlows i
    -- walk to the positive tick
    have walk : ∀ g i, (S rescan passes sched s0 i).pc = .wait d → sched (i + g) = .tick n →
        d - (S rescan passes sched s0 i).clock ≤ M + 1 →
        ∃ j, i ≤ j ∧ (S rescan passes sched s0 j).next = (S rescan passes sched s0 i).next ∧
          ((S rescan passes sched s0 j).pc = .wokenTimer ∨
            ((S rescan passes sched s0 j).pc = .wait d ∧ d - (S rescan passes sched s0 j).clock ≤ M)) := by
      intro g
      induction g with
      | zero =>
        intro i hpc hs hM
        have hl := liveInv_S rescan passes sched s0 hall hf h0 i
        have hwt := (lstep rescan passes hall _ (hf.noCancel i) _ hl).wait
        obtain ⟨hnx, hcase, hclk⟩ := hwt d hpc
        have hclk' := hclk n (by simpa using hs)
        refine ⟨i + 1, by omega, by rw [S_succ]; exact hnx, ?_⟩
        rw [S_succ]
        rcases hcase with h | ⟨h, _⟩
        · exact Or.inl h
        · exact Or.inr ⟨h, by rw [hclk']; omega⟩
      | succ g ihg =>
        intro i hpc hs hM
        have hl := liveInv_S rescan passes sched s0 hall hf h0 i
        have hwt := (lstep rescan passes hall _ (hf.noCancel i) _ hl).wait
        obtain ⟨hnx, hcase, _⟩ := hwt d hpc
        rw [← S_succ] at hnx hcase
        rcases hcase with h | ⟨h, hle⟩
        · exact ⟨i + 1, by omega, hnx, Or.inl h⟩
        · obtain ⟨j, hj, hjn, hjc⟩ := ihg (i + 1) h (by rw [← hs]; congr 1; omega) (by omega)
          exact ⟨j, by omega, by rw [hjn, hnx], hjc⟩
    obtain ⟨j, hj, hjn, hjc⟩ := walk (j0 - i) i hpc (by rw [← hj0]; congr 1; omega) hM
    rcases hjc with h | ⟨h, hle⟩
    · exact ⟨j, hj, h, hjn⟩
    · obtain ⟨j', hj', hpc', hn'⟩ := ih j d h hle
      exact ⟨j', by omega, hpc', by rw [hn', hjn]⟩

/-- not parked on the timer: the goroutine is scheduled, so it makes progress -/
theorem proc_progress (hall : ∀ k, (passes k).isSome = true) (hf : Fair sched) (h0 : LiveInv s0) :
    ∀ (g i : Nat) (c : Bool), sched (i + g) = .proc c → (∀ d, (S rescan passes sched s0 i).pc ≠ .wait d) →
      ∃ j, i < j ∧ ((S rescan passes sched s0 j).next = (S rescan passes sched s0 i).next + 1 ∨
        ((S rescan passes sched s0 j).next = (S rescan passes sched s0 i).next ∧
          rho (S rescan passes sched s0 j) < rho (S rescan passes sched s0 i))) := by
  intro g
  induction g with
  | zero =>
    intro i c hs hnw
    have hl := liveInv_S rescan passes sched s0 hall hf h0 i
    have hp := (lstep rescan passes hall _ (hf.noCancel i) _ hl).prog
    have := hp (by rw [show sched i = .proc c by simpa using hs]; rfl) hnw
    rw [← S_succ] at this
    exact ⟨i + 1, by omega, this⟩
  | succ g ih =>
    intro i c hs hnw
    have hl := liveInv_S rescan passes sched s0 hall hf h0 i
    have hp := (lstep rescan passes hall _ (hf.noCancel i) _ hl).prog
    have hnp := (lstep rescan passes hall _ (hf.noCancel i) _ hl).idle
    by_cases hip : isProc (sched i) = true
    · have := hp hip hnw
      rw [← S_succ] at this
      exact ⟨i + 1, by omega, this⟩
    · have := hnp (by simpa using hip) hnw
      rw [← S_succ] at this
      obtain ⟨hn1, hr1, hw1⟩ := this
      obtain ⟨j, hj, hjc⟩ := ih (i + 1) c (by rw [← hs]; congr 1; omega) hw1
      exact ⟨j, by omega, by rw [hn1, hr1] at hjc; exact hjc⟩

/-- from every point of a fair run the next call of the delegate comes -/
theorem next_call_comes (hall : ∀ k, (passes k).isSome = true) (hf : Fair sched) (h0 : LiveInv s0) :
    ∀ (N i : Nat), rho (S rescan passes sched s0 i) ≤ N →
      ∃ j, i ≤ j ∧ (S rescan passes sched s0 j).next = (S rescan passes sched s0 i).next + 1 := by
  intro N
  induction N with
  | zero =>
    intro i hN
    have hl := liveInv_S rescan passes sched s0 hall hf h0 i
    obtain ⟨_, _, _, hb, hx, hd⟩ := hl
    cases hpc : (S rescan passes sched s0 i).pc <;> simp_all [rho]
  | succ N ih =>
    intro i hN
    by_cases hw : ∃ d, (S rescan passes sched s0 i).pc = .wait d
    · obtain ⟨d, hpc⟩ := hw
      obtain ⟨j, hj, hpcj, hnj⟩ := wait_fires rescan passes sched s0 hall hf h0 _ i d hpc (Nat.le_refl _)
      have hrj : rho (S rescan passes sched s0 j) ≤ N := by
        have : rho (S rescan passes sched s0 i) = 2 := by simp [rho, hpc]
        simp [rho, hpcj]; omega
      obtain ⟨j', hj', hn'⟩ := ih j hrj
      exact ⟨j', by omega, by rw [hn', hnj]⟩
    · have hnw : ∀ d, (S rescan passes sched s0 i).pc ≠ .wait d := fun d h => hw ⟨d, h⟩
      obtain ⟨j0, hij, c, hj0⟩ := hf.procOften i
      obtain ⟨j, hj, hjc⟩ := proc_progress rescan passes sched s0 hall hf h0 (j0 - i) i c
        (by rw [← hj0]; congr 1; omega) hnw
      rcases hjc with h | ⟨hn, hr⟩
      · exact ⟨j, by omega, h⟩
      · obtain ⟨j', hj', hn'⟩ := ih j (by omega)
        exact ⟨j', by omega, by rw [hn', hn]⟩

end Infinite

/-- **passes keep coming**: every pass starts and nobody cancels ⇒ in every fair infinite schedule the
    number of delegate calls exceeds every bound -/
theorem passes_unbounded (hall : ∀ k, (passes k).isSome = true) (t0 : Nat) (s0 : State α)
    (h0 : init passes t0 = some s0) (sched : Nat → Ev) (hf : Fair sched) (n : Nat) :
    ∃ m, n ≤ (run rescan passes (prefixOf sched m) s0).next := by
  have hl := liveInv_init passes t0 s0 h0
  induction n with
  | zero => exact ⟨0, Nat.zero_le _⟩
  | succ n ih =>
    obtain ⟨m, hm⟩ := ih
    obtain ⟨j, _, hj⟩ := next_call_comes rescan passes sched s0 hall hf hl _ m (Nat.le_refl _)
    exact ⟨j, by simp only [S] at hj; omega⟩

end SxVerif.Proofs.Live
