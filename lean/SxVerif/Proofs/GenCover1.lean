/-
Lemmas for C01 / C02, part 1: the building blocks — iterator facts in the shape the generators use
them, `ipGen`, `portGen`, the exclusion test, the chunk loop, the target-file readers.
-/
import SxVerif.Spec.Gen
import SxVerif.Proofs.RangeIter

namespace SxVerif.Proofs.Gen
open SxVerif.Gen SxVerif.Spec.Gen SxVerif.RangeIter

/-! ### the iterator, as the generators call it -/

/-- every size `1 ≤ n ≤ 2^32` is served with a permutation of `1..n` -/
theorem run_ok_perm (tbl : List Group) (htbl : ∀ r ∈ tbl, SxVerif.Pratt.RowOK r)
    (hsorted : List.Pairwise (fun a b : Group => a.P < b.P) tbl)
    (hpmax : (tbl.map (·.P)).foldl max 0 = 2 ^ 32 + 61)
    (n r1 r2 : Nat) (h1 : 1 ≤ n) (h2 : n ≤ 2 ^ 32) :
    ∃ l, run tbl (n : Int) r1 r2 = .ok l ∧ l.Perm (List.range' 1 n) :=
  run_perm tbl htbl hsorted n r1 r2 h1 (by rw [hpmax]; omega)

/-- whatever the size, a successful run only hands out values of `1..n` -/
theorem run_ok_mem (tbl : List Group) (htbl : ∀ r ∈ tbl, SxVerif.Pratt.RowOK r)
    (hsorted : List.Pairwise (fun a b : Group => a.P < b.P) tbl)
    (n : Int) (r1 r2 : Nat) (l : List Nat) (h : run tbl n r1 r2 = .ok l) :
    ∀ i ∈ l, 1 ≤ i ∧ (i : Int) ≤ n := by
  by_cases hn : n ≤ 0
  · rw [run_reject tbl n r1 r2 (Or.inl hn)] at h
    exact absurd h (by simp)
  · by_cases hm : (((tbl.map (·.P)).foldl max 0 : Nat) : Int) ≤ n
    · rw [run_reject tbl n r1 r2 (Or.inr hm)] at h
      exact absurd h (by simp)
    · obtain ⟨m, rfl⟩ : ∃ m : Nat, n = (m : Int) := ⟨n.toNat, by omega⟩
      obtain ⟨l', hl', hp⟩ := run_perm tbl htbl hsorted m r1 r2 (by omega) (by omega)
      rw [hl'] at h
      obtain rfl : l' = l := by simpa using h
      intro i hi
      have := (hp.mem_iff.mp hi)
      rw [List.mem_range'_1] at this
      omega

/-! ### ipGenerator -/

theorem shl1_small (k : Nat) (h : k < 63) : shl1 k = ((2 ^ k : Nat) : Int) := by
  simp [shl1, h]

theorem map_base_range' (base n : Nat) :
    (List.range' 1 n).map (fun i => base + i - 1) = List.range' base n := by
  have : (fun i => base + i - 1) = (fun x => x - 1) ∘ (fun x => base + x) := by
    funext i; rfl
  rw [this, ← List.map_map, List.map_add_range', List.map_sub_range' (by omega)]
  congr 1

/-- the subnet generator hands out every address of the network exactly once -/
theorem ipGen_perm (tbl : List Group) (htbl : ∀ r ∈ tbl, SxVerif.Pratt.RowOK r)
    (hsorted : List.Pairwise (fun a b : Group => a.P < b.P) tbl)
    (hpmax : (tbl.map (·.P)).foldl max 0 = 2 ^ 32 + 61)
    (net : Net) (hnet : NetOK net) (d : Nat × Nat) :
    ∃ l, ipGen tbl (some net) d = .ok l ∧ l.Perm ((addrsOfNet net).map IpItem.ip) := by
  obtain ⟨_, hbits, hones, _, hfit⟩ := hnet
  have hk : 2 ^ (32 - net.ones) ≤ 2 ^ 32 := Nat.pow_le_pow_right (by omega) (by omega)
  obtain ⟨l, hl, hp⟩ := run_ok_perm tbl htbl hsorted hpmax (2 ^ (32 - net.ones)) d.1 d.2
    (Nat.one_le_two_pow) hk
  have hrun : run tbl (shl1 (net.bits - net.ones)) d.1 d.2 = .ok l := by
    rw [hbits, shl1_small _ (by omega)]; exact hl
  refine ⟨_, by simp only [ipGen, hrun]; rfl, ?_⟩
  have hmap : l.map (fun i =>
        let v := net.base + i - 1
        if v < 2 ^ 32 then IpItem.ip (.v4 v false) else IpItem.err .panic)
      = l.map (fun i => IpItem.ip (.v4 (net.base + i - 1) false)) := by
    apply List.map_congr_left
    intro i hi
    have := hp.mem_iff.mp hi
    rw [List.mem_range'_1] at this
    have : net.base + i - 1 < 2 ^ 32 := by omega
    show (if net.base + i - 1 < 2 ^ 32 then _ else _) = _
    rw [if_pos this]
  rw [hmap]
  have h2 := hp.map (fun i => IpItem.ip (.v4 (net.base + i - 1) false))
  refine h2.trans ?_
  have : (fun i => IpItem.ip (.v4 (net.base + i - 1) false))
      = (fun a => IpItem.ip (Addr.v4 a false)) ∘ (fun i => net.base + i - 1) := rfl
  rw [this, ← List.map_map, map_base_range', addrsOfNet, List.map_map]
  exact List.Perm.refl _

theorem mem_addrsOfNet (net : Net) (hnet : NetOK net) (a : Addr) (h : a ∈ addrsOfNet net) :
    ∃ v, a = .v4 v false ∧ v < 2 ^ 32 := by
  simp only [addrsOfNet, List.mem_map, List.mem_range'_1] at h
  obtain ⟨v, hv, rfl⟩ := h
  exact ⟨v, rfl, by have := hnet.2.2.2.2; omega⟩

/-- **never a crash**: on a well-formed network the generator neither fails nor reaches `FillBytes`'s
    panic branch -/
theorem ipGen_ok (tbl : List Group) (htbl : ∀ r ∈ tbl, SxVerif.Pratt.RowOK r)
    (hsorted : List.Pairwise (fun a b : Group => a.P < b.P) tbl)
    (hpmax : (tbl.map (·.P)).foldl max 0 = 2 ^ 32 + 61)
    (net : Net) (hnet : NetOK net) (d : Nat × Nat) :
    ∃ l, ipGen tbl (some net) d = .ok l ∧ ∀ it ∈ l, ∃ a, it = .ip (.v4 a false) ∧ a < 2 ^ 32 := by
  obtain ⟨l, hl, hp⟩ := ipGen_perm tbl htbl hsorted hpmax net hnet d
  refine ⟨l, hl, fun it hit => ?_⟩
  have := hp.mem_iff.mp hit
  rw [List.mem_map] at this
  obtain ⟨a, ha, rfl⟩ := this
  obtain ⟨v, rfl, hv⟩ := mem_addrsOfNet net hnet a ha
  exact ⟨v, rfl, hv⟩

/-! ### portGenerator -/

theorem portsOf_append (a b : List PortRange) : portsOf (a ++ b) = portsOf a ++ portsOf b := by
  simp [portsOf, List.flatMap_append]

theorem portsOf_cons (r : PortRange) (rs : List PortRange) :
    portsOf (r :: rs) = List.range' r.lo (r.hi + 1 - r.lo) ++ portsOf rs := by
  simp [portsOf, List.flatMap_cons]

theorem portsOf_flatten (cs : List (List PortRange)) : portsOf cs.flatten = cs.flatMap portsOf := by
  induction cs with
  | nil => rfl
  | cons c cs ih => simp [portsOf_append, ih, List.flatMap_cons]

/-- one valid range: each of its ports exactly once -/
theorem portRangeItems_perm (tbl : List Group) (htbl : ∀ r ∈ tbl, SxVerif.Pratt.RowOK r)
    (hsorted : List.Pairwise (fun a b : Group => a.P < b.P) tbl)
    (hpmax : (tbl.map (·.P)).foldl max 0 = 2 ^ 32 + 61)
    (r : PortRange) (hr : r.lo ≤ r.hi ∧ r.hi ≤ 65535) (d : Nat × Nat) :
    (portRangeItems tbl r d).Perm ((List.range' r.lo (r.hi + 1 - r.lo)).map PortItem.port) := by
  have hcast : (r.hi : Int) - (r.lo : Int) + 1 = ((r.hi + 1 - r.lo : Nat) : Int) := by omega
  obtain ⟨l, hl, hp⟩ := run_ok_perm tbl htbl hsorted hpmax (r.hi + 1 - r.lo) d.1 d.2
    (by omega) (by omega)
  have hrun : run tbl ((r.hi : Int) - (r.lo : Int) + 1) d.1 d.2 = .ok l := by rw [hcast]; exact hl
  simp only [portRangeItems, hrun]
  have h2 := hp.map (fun i => PortItem.port (r.lo + i - 1))
  refine h2.trans ?_
  have : (fun i => PortItem.port (r.lo + i - 1)) = PortItem.port ∘ (fun i => r.lo + i - 1) := rfl
  rw [this, ← List.map_map, map_base_range']

/-- one range, valid or not: only ports of the range -/
theorem portRangeItems_mem (tbl : List Group) (htbl : ∀ r ∈ tbl, SxVerif.Pratt.RowOK r)
    (hsorted : List.Pairwise (fun a b : Group => a.P < b.P) tbl)
    (r : PortRange) (d : Nat × Nat) (p : Nat) (h : PortItem.port p ∈ portRangeItems tbl r d) :
    p ∈ List.range' r.lo (r.hi + 1 - r.lo) := by
  unfold portRangeItems at h
  split at h
  · rename_i l hl
    rw [List.mem_map] at h
    obtain ⟨i, hi, hip⟩ := h
    have := run_ok_mem tbl htbl hsorted _ _ _ l hl i hi
    injection hip with hip
    rw [List.mem_range'_1]
    omega
  · simp at h

theorem portItemsFrom_perm (tbl : List Group) (htbl : ∀ r ∈ tbl, SxVerif.Pratt.RowOK r)
    (hsorted : List.Pairwise (fun a b : Group => a.P < b.P) tbl)
    (hpmax : (tbl.map (·.P)).foldl max 0 = 2 ^ 32 + 61) (draws : Draws) :
    ∀ (ports : List PortRange) (k : Nat), (∀ r ∈ ports, r.lo ≤ r.hi ∧ r.hi ≤ 65535) →
      (portItemsFrom tbl draws k ports).Perm ((portsOf ports).map PortItem.port)
  | [], _, _ => by simp [portItemsFrom, portsOf]
  | r :: rs, k, h => by
    rw [portItemsFrom, portsOf_cons, List.map_append]
    exact (portRangeItems_perm tbl htbl hsorted hpmax r (h r (by simp)) _).append
      (portItemsFrom_perm tbl htbl hsorted hpmax draws rs (k + 1)
        (fun r' hr' => h r' (List.mem_cons_of_mem _ hr')))

theorem portItemsFrom_mem (tbl : List Group) (htbl : ∀ r ∈ tbl, SxVerif.Pratt.RowOK r)
    (hsorted : List.Pairwise (fun a b : Group => a.P < b.P) tbl) (draws : Draws) (p : Nat) :
    ∀ (ports : List PortRange) (k : Nat), PortItem.port p ∈ portItemsFrom tbl draws k ports →
      p ∈ portsOf ports
  | [], _, h => by simp [portItemsFrom] at h
  | r :: rs, k, h => by
    rw [portItemsFrom, List.mem_append] at h
    rw [portsOf_cons, List.mem_append]
    rcases h with h | h
    · exact Or.inl (portRangeItems_mem tbl htbl hsorted r _ p h)
    · exact Or.inr (portItemsFrom_mem tbl htbl hsorted draws p rs (k + 1) h)

/-- **port coverage**: for valid, non-empty ranges the port generator starts and hands out every
    denoted port exactly once (with multiplicity for overlapping ranges) -/
theorem portGen_perm (tbl : List Group) (htbl : ∀ r ∈ tbl, SxVerif.Pratt.RowOK r)
    (hsorted : List.Pairwise (fun a b : Group => a.P < b.P) tbl)
    (hpmax : (tbl.map (·.P)).foldl max 0 = 2 ^ 32 + 61)
    (ports : List PortRange) (hok : PortsOK ports) (hne : ports ≠ []) (draws : Draws) :
    ∃ items, portGen tbl ports draws = some items ∧
      items.Perm ((portsOf ports).map PortItem.port) := by
  have hv : validatePorts ports = true := by
    simp only [validatePorts, Bool.and_eq_true, Bool.not_eq_true', List.isEmpty_eq_false_iff,
      List.all_eq_true, decide_eq_true_eq]
    exact ⟨hne, fun r hr => (hok r hr).2.1⟩
  refine ⟨portItemsFrom tbl draws 0 ports, by simp [portGen, hv], ?_⟩
  exact portItemsFrom_perm tbl htbl hsorted hpmax draws ports 0
    (fun r hr => ⟨(hok r hr).2.1, (hok r hr).2.2⟩)

theorem portGen_mem (tbl : List Group) (htbl : ∀ r ∈ tbl, SxVerif.Pratt.RowOK r)
    (hsorted : List.Pairwise (fun a b : Group => a.P < b.P) tbl)
    (ports : List PortRange) (draws : Draws) (items : List PortItem)
    (h : portGen tbl ports draws = some items) (p : Nat) (hp : PortItem.port p ∈ items) :
    p ∈ portsOf ports := by
  unfold portGen at h
  split at h
  · obtain rfl : portItemsFrom tbl draws 0 ports = items := by simpa using h
    exact portItemsFrom_mem tbl htbl hsorted draws p ports 0 hp
  · simp at h

/-! ### the exclusion test -/

theorem div_eq_iff_block (a b size : Nat) (h : 0 < size) :
    a / size = b / size ↔ b / size * size ≤ a ∧ a < b / size * size + size := by
  constructor
  · intro e
    have h1 : b / size ≤ a / size := by omega
    have h2 : a / size < b / size + 1 := by omega
    rw [Nat.le_div_iff_mul_le h] at h1
    rw [Nat.div_lt_iff_lt_mul h, Nat.add_mul, Nat.one_mul] at h2
    exact ⟨h1, h2⟩
  · intro ⟨h1, h2⟩
    have h1' : b / size ≤ a / size := (Nat.le_div_iff_mul_le h).mpr h1
    have h2' : a / size < b / size + 1 := by
      rw [Nat.div_lt_iff_lt_mul h, Nat.add_mul, Nat.one_mul]; exact h2
    omega

theorem excluded_eq_isExcluded (excl : List (Nat × Nat)) (a : Addr) :
    excluded excl a = isExcluded (some excl) a := by
  cases a with
  | v6 _ => rfl
  | v4 a w =>
    simp only [excluded, isExcluded]
    apply List.any_congr rfl
    intro ⟨b, ones⟩
    have hs : 0 < 2 ^ (32 - ones) := Nat.pos_of_ne_zero (by simp)
    have := div_eq_iff_block a b (2 ^ (32 - ones)) hs
    rw [Bool.eq_iff_iff]
    simp only [beq_iff_eq, decide_eq_true_eq]
    exact this

/-- **exclusion is exact**: the division test of the model is block membership -/
theorem excluded_iff_covered (excl : List (Nat × Nat)) (a : Nat) (w : Bool) :
    excluded excl (.v4 a w) = isExcluded (some excl) (.v4 a w) :=
  excluded_eq_isExcluded excl (.v4 a w)

theorem isExcluded_none (a : Addr) : isExcluded none a = false := by
  cases a <;> rfl

/-! ### the chunk loop -/

theorem chunks_go_spec (size : Nat) (hsize : 0 < size) :
    ∀ (fuel : Nat) (ps : List PortRange), ps.length ≤ fuel →
      (chunks.go size fuel ps).flatten = ps ∧
      ∀ c ∈ chunks.go size fuel ps, c.length ≤ size ∧ c ≠ []
  | 0, ps, h => by
    have : ps = [] := List.length_eq_zero_iff.mp (by omega)
    subst this
    simp [chunks.go]
  | fuel + 1, ps, h => by
    unfold chunks.go
    by_cases hps : ps = []
    · subst hps; simp
    · have hlen : 0 < ps.length := List.length_pos_iff.mpr hps
      have hdrop : (ps.drop size).length ≤ fuel := by rw [List.length_drop]; omega
      obtain ⟨ih1, ih2⟩ := chunks_go_spec size hsize fuel (ps.drop size) hdrop
      have hemp : ps.isEmpty = false := by simpa using hps
      simp only [hemp, Bool.false_eq_true, if_false, List.flatten_cons, ih1,
        List.take_append_drop, List.mem_cons, true_and]
      rintro c (rfl | hc)
      · refine ⟨by rw [List.length_take]; omega, ?_⟩
        intro h0
        have := congrArg List.length h0
        rw [List.length_take, List.length_nil] at this
        omega
      · exact ih2 c hc

theorem chunks_go_mem (size : Nat) :
    ∀ (fuel : Nat) (ps : List PortRange), ∀ c ∈ chunks.go size fuel ps, ∀ r ∈ c, r ∈ ps
  | 0, ps => by simp [chunks.go]
  | fuel + 1, ps => by
    intro c hc r hr
    unfold chunks.go at hc
    split at hc
    · simp at hc
    · rw [List.mem_cons] at hc
      rcases hc with rfl | hc
      · exact List.mem_of_mem_take hr
      · exact List.mem_of_mem_drop (chunks_go_mem size fuel (ps.drop size) c hc r hr)

/-- whatever the chunk size, a chunk only holds ranges of the list -/
theorem chunks_mem (size : Nat) (e : Bool) (ports : List PortRange) :
    ∀ c ∈ chunks size e ports, ∀ r ∈ c, r ∈ ports := by
  unfold chunks
  split
  · split <;> simp
  · exact chunks_go_mem size ports.length ports

/-- **the chunk loop neither loses nor repeats a range** -/
theorem chunks_spec (size : Nat) (emptyRunsOnce : Bool) (hsize : 0 < size)
    (hempty : emptyRunsOnce = true) (ports : List PortRange) :
    (chunks size emptyRunsOnce ports).flatten = ports ∧
    (∀ c ∈ chunks size emptyRunsOnce ports, c.length ≤ size ∧ (c = [] → ports = [])) ∧
    (ports = [] → chunks size emptyRunsOnce ports = [[]]) := by
  subst hempty
  by_cases hp : ports = []
  · subst hp
    simp [chunks]
  · have hemp : ports.isEmpty = false := by simpa using hp
    obtain ⟨h1, h2⟩ := chunks_go_spec size hsize ports.length ports (Nat.le_refl _)
    simp only [chunks, hemp, Bool.false_eq_true, if_false]
    exact ⟨h1, fun c hc => ⟨(h2 c hc).1, fun h0 => absurd h0 (h2 c hc).2⟩, fun h => absurd h hp⟩

/-- non-empty list: every chunk is non-empty (for a positive size) -/
theorem chunks_ne_nil (size : Nat) (e : Bool) (hsize : 0 < size) (ports : List PortRange)
    (hp : ports ≠ []) : ∀ c ∈ chunks size e ports, c ≠ [] := by
  have hemp : ports.isEmpty = false := by simpa using hp
  simp only [chunks, hemp, Bool.false_eq_true, if_false]
  exact fun c hc => ((chunks_go_spec size hsize ports.length ports (Nat.le_refl _)).2 c hc).2

theorem chunks_flatten (size : Nat) (e : Bool) (hsize : 0 < size) (ports : List PortRange)
    (hp : ports ≠ []) : (chunks size e ports).flatten = ports := by
  have hemp : ports.isEmpty = false := by simpa using hp
  simp only [chunks, hemp, Bool.false_eq_true, if_false]
  exact (chunks_go_spec size hsize ports.length ports (Nat.le_refl _)).1

/-! ### target files -/

theorem fileIPs_ok : ∀ (content : List Line), AddrsOK content →
    fileIPs content = (content.filterMap lineAddr).map IpItem.ip
  | [], _ => rfl
  | l :: rest, h => by
    have hl := h l (by simp)
    have hrest : AddrsOK rest := fun x hx => h x (List.mem_cons_of_mem _ hx)
    match l, hl with
    | .entry (some a) p, _ =>
      simp [fileIPs, lineAddr, fileIPs_ok rest hrest]

theorem fileIPs_mem (a : Addr) : ∀ (ls : List Line), IpItem.ip a ∈ fileIPs ls →
    a ∈ ls.filterMap lineAddr
  | [], h => by simp [fileIPs] at h
  | .badJson :: _, h => by simp [fileIPs] at h
  | .tooLong :: _, h => by simp [fileIPs] at h
  | .entry none _ :: _, h => by simp [fileIPs] at h
  | .entry (some b) _ :: rest, h => by
    simp only [fileIPs, List.mem_cons, IpItem.ip.injEq] at h
    rw [List.filterMap_cons]
    simp only [lineAddr, List.mem_cons]
    rcases h with h | h
    · exact Or.inl h
    · exact Or.inr (fileIPs_mem a rest h)

/-- the probe request for an (address, port) pair -/
def mk (ap : Addr × Nat) : Req := { dst := some ap.1, port := ap.2 }

theorem validPort_iff (p : Int) : validPort p = true ↔ (0 < p ∧ p ≤ 65535) := by
  simp [validPort]

theorem filePairs_ok : ∀ (content : List Line), PairsOK content →
    filePairs content = (content.filterMap linePair).map mk
  | [], _ => rfl
  | l :: rest, h => by
    have hl := h l (by simp)
    have hrest : PairsOK rest := fun x hx => h x (List.mem_cons_of_mem _ hx)
    match l, hl with
    | .entry (some a) p, hl =>
      have hp : 0 < p ∧ p ≤ 65535 := by
        by_contra hc
        simp [linePair, hc] at hl
      have hv : validPort p = true := (validPort_iff p).mpr hp
      simp [filePairs, linePair, hp, hv, mk, filePairs_ok rest hrest]

theorem filePairs_mem (ap : Addr × Nat) : ∀ (ls : List Line), ap ∈ probes (filePairs ls) →
    ap ∈ ls.filterMap linePair ∧ ap.1 ∈ ls.filterMap lineAddr
  | [], h => by simp [filePairs, probes] at h
  | .badJson :: _, h => by simp [filePairs, probes] at h
  | .tooLong :: _, h => by simp [filePairs, probes] at h
  | .entry none _ :: rest, h => by
    have h' : ap ∈ probes (filePairs rest) := by simpa [filePairs, probes] using h
    have ih := filePairs_mem ap rest h'
    simpa [linePair, lineAddr] using ih
  | .entry (some b) p :: rest, h => by
    by_cases hv : validPort p = true
    · have hp := (validPort_iff p).mp hv
      simp only [filePairs, hv, if_true, probes, List.filterMap_cons, List.mem_cons] at h
      rw [List.filterMap_cons, List.filterMap_cons]
      simp only [linePair, hp, and_self, if_true, lineAddr, List.mem_cons]
      rcases h with h | h
      · subst h; exact ⟨Or.inl rfl, Or.inl rfl⟩
      · have ih := filePairs_mem ap rest h
        exact ⟨Or.inr ih.1, Or.inr ih.2⟩
    · have hp : ¬ (0 < p ∧ p ≤ 65535) := fun hp => hv ((validPort_iff p).mpr hp)
      have h' : ap ∈ probes (filePairs rest) := by simpa [filePairs, hv, probes] using h
      have ih := filePairs_mem ap rest h'
      rw [List.filterMap_cons, List.filterMap_cons]
      simp only [linePair, hp, if_false, lineAddr, List.mem_cons]
      exact ⟨ih.1, Or.inr ih.2⟩

end SxVerif.Proofs.Gen
