/-
Safety of the packet pipeline under EVERY schedule, cancellation included: no send on a closed channel,
no close of a closed channel (`panic` is never set).  Invariant `Safe`, by induction over `Reachable`.
-/
import SxVerif.Proofs.ConcPacketBase

namespace SxVerif.Pipe
open Desc

/-- the sender has closed `which` exactly when it is past the corresponding deferred close -/
def closedBy (cfg : Cfg) (which : SCh) (st : SState) : Prop :=
  if which = firstClose cfg then st = .exit2 ∨ st = .finished else st = .finished

def live (m : MState) : Bool := m ≠ .finished

structure Safe (cfg : Cfg) (s : Sys) : Prop where
  noPanic : s.panic = false
  outClosed : ∀ l ∈ s.lanes, l.out.closed = true → l.w = .finished
  wgCount : s.wg = s.lanes.countP (fun l => live l.m)
  closerWg : s.closer ≠ .waiting → s.wg = 0
  mergedClosed : s.merged.closed = true → s.closer = .finished
  doneClosed : s.done = true → closedBy cfg .done s.snd
  errc1Closed : s.errc1.closed = true → closedBy cfg .errc s.snd
  errc2Closed : s.errc2.closed = true → s.rcvTodo = []
  inpClosed : s.inp.closed = true → s.todo = []
  ewgCount : s.ewg = (if live s.em1 then 1 else 0) + (if live s.em2 then 1 else 0)
  ecloserWg : s.ecloser ≠ .waiting → s.ewg = 0
  merrClosed : s.merr.closed = true → s.ecloser = .finished
  ecloserFin : s.ecloser = .finished → s.merr.closed = true

/-! local facts -/

theorem workerStep_safe {cfg ctx w out inp pool nid mem e r}
    (h : workerStep cfg ctx w out inp pool nid mem e = some r) (hc : out.closed = true → w = .finished) :
    r.panic = false ∧ (r.out.closed = true → r.w = .finished) ∧ r.inp.closed = inp.closed := by
  cases e <;> cases w <;> simp [workerStep] at h
  all_goals try (subst h; simp_all; done)
  · -- recv
    split at h
    · simp at h; subst h; simp_all
    · split at h <;> simp at h; subst h; simp_all
  · split at h
    · simp at h; subst h; simp_all
    · split at h <;> simp at h; subst h; simp_all
  · split at h <;> simp at h <;> subst h <;> simp_all
  · -- send
    rename_i p
    cases hs : sendOn (some cfg.capOut) out p with
    | none => simp [hs] at h
    | some x =>
      obtain ⟨c', pn⟩ := x
      simp [hs] at h; subst h
      have := sendOn_some hs
      cases hcl : out.closed <;> simp_all
  · obtain ⟨_, h⟩ := h; subst h; simp_all
  · obtain ⟨_, h⟩ := h; subst h; simp_all
  · simp [closeCh] at h; subst h
    cases hcl : out.closed <;> simp_all

theorem muxStep_safe {gr gs rd cap ctx m src dst e r}
    (h : muxStep gr gs rd cap ctx m src dst e = some r) :
    r.src.closed = src.closed ∧ r.dst.closed = dst.closed ∧
    (r.panic = true → dst.closed = true ∧ ∃ p, m = .holding p) ∧
    (r.wgDone = true → m = .exiting ∧ r.m = .finished) ∧
    (r.wgDone = false → (live r.m = live m)) := by
  cases e <;> cases m <;> simp [muxStep] at h
  all_goals try (subst h; simp_all [live]; done)
  · split at h
    · simp at h; subst h; simp_all [live]
    · split at h <;> simp at h; subst h; simp_all [live]
  · rename_i p
    cases hs : sendOn (some cap) dst p with
    | none => simp [hs] at h
    | some x =>
      obtain ⟨c', pn⟩ := x
      simp [hs] at h; subst h
      have := sendOn_some hs
      cases hcl : dst.closed <;> simp_all [live]
  · obtain ⟨_, h⟩ := h; subst h; cases rd <;> simp_all [live]
  · obtain ⟨_, h⟩ := h; subst h; simp_all [live]

theorem closerStep_safe {waits wg c out e c' out' pn}
    (h : closerStep waits wg c out e = some (c', out', pn)) (hw : waits = true)
    (hc : out.closed = true → c = .finished) :
    (c' ≠ .waiting → (c ≠ .waiting ∨ wg = 0)) ∧
    (out'.closed = true → c' = .finished) ∧
    (pn = true → out.closed = true ∧ c = .closing) ∧
    (c' = .finished → out'.closed = true) := by
  cases e <;> cases c <;> simp [closerStep, closeCh, hw] at h
  · obtain ⟨h0, h1, h2, h3⟩ := h; subst h1 h2 h3; simp_all
  · obtain ⟨h1, h2, h3⟩ := h; subst h1 h2 h3; simp_all


theorem afterCalls_cases (b r rest) : afterCalls b r rest = .idle ∨ ∃ t, afterCalls b r rest = .work b r t := by
  cases rest <;> simp [afterCalls]

theorem first_ne_second (cfg : Cfg) : firstClose cfg ≠ secondClose cfg := by
  unfold firstClose secondClose; cases cfg.doneFirst <;> simp

theorem safe_init (cfg : Cfg) (inp : Input) : Safe cfg (init inp) := by
  constructor <;> simp [init, live, closedBy]
  · simp [List.countP_replicate]

set_option maxHeartbeats 1000000 in
theorem safe_sender {cfg inp s s' e} (hs : Safe cfg s) (h : senderStep cfg inp s e = some s') : Safe cfg s' := by
  obtain ⟨h1, h2, h3, h4, h5, h6, h7, h8, h9, h10, h11, h12, h13⟩ := hs
  have hne := first_ne_second cfg
  cases e <;> simp only [senderStep] at h <;> split at h <;> try (simp at h; done)
  · -- recv
    split at h
    · simp at h; subst h; constructor <;> simp_all [closedBy]
    · simp at h; subst h
      rename_i b r rest _
      rcases afterCalls_cases b r cfg.senderCalls with hk | ⟨t, hk⟩ <;>
        constructor <;> simp_all [closedBy]
    · split at h <;> simp at h; subst h; constructor <;> simp_all [closedBy]
  · -- call write
    simp at h; subst h
    rename_i b r rest _
    rcases afterCalls_cases b r rest with hk | ⟨t, hk⟩ <;>
      constructor <;> simp_all [closedBy] <;> split <;> simp_all
  · simp at h; subst h
    rename_i b r rest _
    rcases afterCalls_cases b r rest with hk | ⟨t, hk⟩ <;>
      constructor <;> simp_all [closedBy]
  · -- report
    rename_i e k hsnd
    cases hso : sendOn (some cfg.capErrc) s.errc1 (Pkt.err e) with
    | none => simp [hso] at h
    | some x =>
      obtain ⟨c', pn⟩ := x
      simp [hso] at h; subst h
      have hh := sendOn_some hso
      have hcl : s.errc1.closed = false := by
        cases hcl : s.errc1.closed
        · rfl
        · have := h7 hcl; simp [closedBy, hsnd] at this
      constructor <;> simp_all [closedBy]
  · -- drop
    split at h <;> simp at h; subst h
    constructor <;> simp_all [closedBy]
  · split at h <;> simp at h; subst h
    constructor <;> simp_all [closedBy]
  · -- close1
    simp at h; subst h
    cases hf : firstClose cfg <;> constructor <;> simp_all [closedBy, senderClose]
  · simp at h; subst h
    cases hf : secondClose cfg <;> constructor <;> simp_all [closedBy, senderClose]
    · cases hd : s.done with
      | false => rfl
      | true => exact absurd (h6 hd).symm hne
    · cases hd : s.errc1.closed with
      | false => rfl
      | true => exact absurd (h7 hd).symm hne


theorem live_of_holding {p} : live (.holding p) = true := by simp [live]

set_option maxHeartbeats 1000000 in
theorem safe_step {cfg inp s s' ev} (hwf : cfg.WF) (hs : Safe cfg s) (h : step cfg inp s ev = some s') :
    Safe cfg s' := by
  cases ev with
  | sender e => exact safe_sender hs h
  | envSend =>
    obtain ⟨h1, h2, h3, h4, h5, h6, h7, h8, h9, h10, h11, h12, h13⟩ := hs
    simp only [step] at h
    split at h <;> try (simp at h; done)
    rename_i r rest htodo
    cases hso : sendOn none s.inp r with
    | none => simp [hso] at h
    | some x =>
      obtain ⟨c', pn⟩ := x
      simp [hso] at h; subst h
      have hh := sendOn_some hso
      have hcl : s.inp.closed = false := by
        cases hcl : s.inp.closed
        · rfl
        · simp [h9 hcl] at htodo
      constructor <;> simp_all
  | envSkip =>
    obtain ⟨h1, h2, h3, h4, h5, h6, h7, h8, h9, h10, h11, h12, h13⟩ := hs
    simp only [step] at h
    split at h <;> try (simp at h; done)
    split at h <;> simp at h; subst h
    constructor <;> simp_all
  | envClose =>
    obtain ⟨h1, h2, h3, h4, h5, h6, h7, h8, h9, h10, h11, h12, h13⟩ := hs
    simp only [step] at h
    split at h <;> try (simp at h; done)
    split at h <;> simp at h; subst h
    constructor <;> simp_all
  | rcvSend =>
    obtain ⟨h1, h2, h3, h4, h5, h6, h7, h8, h9, h10, h11, h12, h13⟩ := hs
    simp only [step] at h
    split at h <;> try (simp at h; done)
    rename_i r rest htodo
    cases hso : sendOn (some cfg.capErrc) s.errc2 (Pkt.err r) with
    | none => simp [hso] at h
    | some x =>
      obtain ⟨c', pn⟩ := x
      simp [hso] at h; subst h
      have hh := sendOn_some hso
      have hcl : s.errc2.closed = false := by
        cases hcl : s.errc2.closed
        · rfl
        · simp [h8 hcl] at htodo
      constructor <;> simp_all
  | rcvSkip =>
    obtain ⟨h1, h2, h3, h4, h5, h6, h7, h8, h9, h10, h11, h12, h13⟩ := hs
    simp only [step] at h
    split at h <;> try (simp at h; done)
    split at h <;> simp at h; subst h
    constructor <;> simp_all
  | rcvClose =>
    obtain ⟨h1, h2, h3, h4, h5, h6, h7, h8, h9, h10, h11, h12, h13⟩ := hs
    simp only [step] at h
    split at h <;> try (simp at h; done)
    split at h <;> simp at h; subst h
    constructor <;> simp_all
  | consume =>
    obtain ⟨h1, h2, h3, h4, h5, h6, h7, h8, h9, h10, h11, h12, h13⟩ := hs
    simp only [step] at h
    split at h <;> simp at h; subst h
    constructor <;> simp_all
  | cancel =>
    obtain ⟨h1, h2, h3, h4, h5, h6, h7, h8, h9, h10, h11, h12, h13⟩ := hs
    simp only [step] at h
    simp at h; subst h
    constructor <;> simp_all
  | gc b =>
    obtain ⟨h1, h2, h3, h4, h5, h6, h7, h8, h9, h10, h11, h12, h13⟩ := hs
    simp only [step] at h
    split at h <;> simp at h; subst h
    constructor <;> simp_all
  | closer e =>
    obtain ⟨h1, h2, h3, h4, h5, h6, h7, h8, h9, h10, h11, h12, h13⟩ := hs
    simp only [step] at h
    split at h <;> try (simp at h; done)
    rename_i c o pn hst
    simp at h; subst h
    have hh := closerStep_safe hst hwf.closerWaits h5
    have hpn : pn = false := by
      cases hp : pn
      · rfl
      · have := hh.2.2.1 hp; simp_all
    constructor <;> simp_all
    intro hc; rcases hh.1 hc with h | h
    · exact h4 h
    · exact h
  | ecloser e =>
    obtain ⟨h1, h2, h3, h4, h5, h6, h7, h8, h9, h10, h11, h12, h13⟩ := hs
    simp only [step] at h
    split at h <;> try (simp at h; done)
    rename_i c o pn hst
    simp at h; subst h
    have hh := closerStep_safe hst hwf.ecloserWaits h12
    have hpn : pn = false := by
      cases hp : pn
      · rfl
      · have := hh.2.2.1 hp
        rw [h12 this.1] at this; simp at this
    constructor <;> simp <;> try assumption
    · simp [h1, hpn]
    · intro hc; rcases hh.1 hc with h | h
      · exact h11 h
      · exact h
    · exact hh.2.1
    · exact hh.2.2.2
  | worker i e =>
    obtain ⟨h1, h2, h3, h4, h5, h6, h7, h8, h9, h10, h11, h12, h13⟩ := hs
    simp only [step] at h
    split at h <;> try (simp at h; done)
    split at h <;> try (simp at h; done)
    rename_i ln hln _ r hst
    simp at h; subst h
    have hh := workerStep_safe hst (h2 ln (List.mem_of_getElem? hln))
    have hcnt := countP_set' (fun l : Lane => live l.m) { ln with w := r.w, out := r.out } hln
    constructor <;> simp <;> try assumption
    · simp [h1, hh.1]
    · exact forall_mem_set h2 hh.2.1
    · simp at hcnt; omega
    · rw [hh.2.2]; exact h9
  | mux i e =>
    obtain ⟨h1, h2, h3, h4, h5, h6, h7, h8, h9, h10, h11, h12, h13⟩ := hs
    simp only [step] at h
    split at h <;> try (simp at h; done)
    split at h <;> try (simp at h; done)
    rename_i ln hln _ r hst
    simp at h; subst h
    have hh := muxStep_safe hst
    have hmem := List.mem_of_getElem? hln
    have hcnt := countP_set' (fun l : Lane => live l.m) { ln with m := r.m, out := r.src } hln
    have hpn : r.panic = false := by
      cases hp : r.panic
      · rfl
      · obtain ⟨hc, p, hm⟩ := hh.2.2.1 hp
        have h0 := h4 (by rw [h5 hc]; simp)
        rw [h3, List.countP_eq_zero] at h0
        have := h0 ln hmem
        simp [hm, live] at this
    constructor <;> simp <;> try assumption
    · simp [h1, hpn]
    · apply forall_mem_set h2
      simp [hh.1]; exact h2 ln hmem
    · dsimp only at hcnt
      cases hd : r.wgDone
      · have := hh.2.2.2.2 hd; simp only [this] at hcnt; simp; omega
      · have := hh.2.2.2.1 hd
        have e1 : live ln.m = true := by rw [this.1]; rfl
        have e2 : live r.m = false := by rw [this.2]; rfl
        simp only [e1, e2] at hcnt; simp at hcnt ⊢; omega
    · intro hc
      have h0 := h4 hc
      cases hd : r.wgDone
      · simp; exact h0
      · simp; omega
    · rw [hh.2.1]; exact h5
  | emux j e =>
    obtain ⟨h1, h2, h3, h4, h5, h6, h7, h8, h9, h10, h11, h12, h13⟩ := hs
    cases j
    · simp only [step] at h
      split at h <;> try (simp at h; done)
      rename_i r hst
      simp at h; subst h
      have hh := muxStep_safe hst
      have hpn : r.panic = false := by
        cases hp : r.panic
        · rfl
        · obtain ⟨hc, p, hm⟩ := hh.2.2.1 hp
          have h0 := h11 (by rw [h12 hc]; simp)
          rw [h10, hm] at h0; simp [live] at h0
      constructor <;> simp <;> try assumption
      · simp [h1, hpn]
      · rw [hh.1]; exact h7
      · cases hd : r.wgDone
        · have := hh.2.2.2.2 hd; simp [this]; exact h10
        · have := hh.2.2.2.1 hd
          have e1 : live s.em1 = true := by rw [this.1]; rfl
          have e2 : live r.m = false := by rw [this.2]; rfl
          simp [e1, e2] at h10 ⊢; omega
      · intro hc
        have h0 := h11 hc
        cases hd : r.wgDone
        · simp; exact h0
        · simp; omega
      · rw [hh.2.1]; exact h12
      · rw [hh.2.1]; exact h13
    · simp only [step] at h
      split at h <;> try (simp at h; done)
      rename_i r hst
      simp at h; subst h
      have hh := muxStep_safe hst
      have hpn : r.panic = false := by
        cases hp : r.panic
        · rfl
        · obtain ⟨hc, p, hm⟩ := hh.2.2.1 hp
          have h0 := h11 (by rw [h12 hc]; simp)
          rw [h10, hm] at h0; simp [live] at h0
      constructor <;> simp <;> try assumption
      · simp [h1, hpn]
      · rw [hh.1]; exact h8
      · cases hd : r.wgDone
        · have := hh.2.2.2.2 hd; simp [this]; exact h10
        · have := hh.2.2.2.1 hd
          have e1 : live s.em2 = true := by rw [this.1]; rfl
          have e2 : live r.m = false := by rw [this.2]; rfl
          simp [e1, e2] at h10 ⊢; omega
      · intro hc
        have h0 := h11 hc
        cases hd : r.wgDone
        · simp; exact h0
        · simp; omega
      · rw [hh.2.1]; exact h12
      · rw [hh.2.1]; exact h13

theorem reachable_safe {cfg inp s} (hwf : cfg.WF) (h : Reachable cfg inp s) : Safe cfg s := by
  induction h with
  | init => exact safe_init cfg inp
  | step _ hst ih => obtain ⟨ev, hev⟩ := hst; exact safe_step hwf ih hev

theorem reachableNC_reachable {cfg inp s} (h : ReachableNC cfg inp s) : Reachable cfg inp s := by
  induction h with
  | init => exact .init
  | step _ hst ih => obtain ⟨ev, _, hev⟩ := hst; exact .step ih ⟨ev, hev⟩

/-- **no panic under cancellation**: in every state reachable by any interleaving of the processes'
    steps and `cancel` (enabled everywhere), no send on a closed channel and no close of a closed channel
    has happened. -/
theorem packet_no_panic_under_cancel {cfg inp s} (hwf : cfg.WF) (h : Reachable cfg inp s) : s.panic = false :=
  (reachable_safe hwf h).noPanic

end SxVerif.Pipe
