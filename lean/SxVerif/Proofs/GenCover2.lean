/-
Lemmas for C01 / C02, part 2: the (address × port) loop, the optional stages (exclusion filter,
ARP cache) and one engine run, both as a coverage statement (valid specification) and as a
confinement statement (any specification).
-/
import SxVerif.Proofs.GenCover1

namespace SxVerif.Proofs.Gen
open SxVerif.Gen SxVerif.Spec.Gen SxVerif.RangeIter

/-- destination and port of a request -/
def tgt (r : Req) : Option Addr × Nat := (r.dst, r.port)

/-- ports × addresses, port-major (the order of `denotePairs`) -/
def cross (ps : List Nat) (A : List Addr) : List (Addr × Nat) :=
  ps.flatMap (fun p => A.map (fun a => (a, p)))

theorem cross_append (p q : List Nat) (A : List Addr) : cross (p ++ q) A = cross p A ++ cross q A := by
  simp [cross, List.flatMap_append]

theorem cross_cons (p : Nat) (ps : List Nat) (A : List Addr) :
    cross (p :: ps) A = A.map (fun a => (a, p)) ++ cross ps A := by
  simp [cross, List.flatMap_cons]

theorem mem_cross (ap : Addr × Nat) (ps : List Nat) (A : List Addr) :
    ap ∈ cross ps A ↔ ap.2 ∈ ps ∧ ap.1 ∈ A := by
  obtain ⟨a, p⟩ := ap
  simp only [cross, List.mem_flatMap, List.mem_map, Prod.mk.injEq]
  constructor
  · rintro ⟨p', hp', a', ha', rfl, rfl⟩; exact ⟨hp', ha'⟩
  · rintro ⟨hp, ha⟩; exact ⟨p, hp, a, ha, rfl, rfl⟩

/-! ### probes -/

theorem probes_append (a b : List Req) : probes (a ++ b) = probes a ++ probes b := by
  simp [probes, List.filterMap_append]

theorem probes_cons_err (c : Cause) (r : Req) (h : r.err = some c) (rs : List Req) :
    probes (r :: rs) = probes rs := by
  simp [probes, h]

theorem mem_probes (ap : Addr × Nat) (rs : List Req) :
    ap ∈ probes rs ↔ ∃ r ∈ rs, r.err = none ∧ r.dst = some ap.1 ∧ r.port = ap.2 := by
  simp only [probes, List.mem_filterMap]
  constructor
  · rintro ⟨r, hr, h⟩
    refine ⟨r, hr, ?_⟩
    split at h
    · rename_i a he hd
      obtain rfl : (a, r.port) = ap := by simpa using h
      exact ⟨he, hd, rfl⟩
    · simp at h
  · rintro ⟨r, hr, he, hd, hp⟩
    refine ⟨r, hr, ?_⟩
    simp [he, hd, hp]

theorem probes_map_mk (L : List (Addr × Nat)) : probes (L.map mk) = L := by
  induction L with
  | nil => rfl
  | cons ap L ih =>
    have : probes (mk ap :: L.map mk) = ap :: probes (L.map mk) := by
      simp [probes, mk]
    rw [List.map_cons, this, ih]

/-! ### the (address × port) loop -/

theorem reqsForPort_ips (p : Nat) (A : List Addr) :
    reqsForPort p (A.map IpItem.ip) = (A.map (fun a => (a, p))).map mk := by
  simp [reqsForPort, List.map_map, mk, Function.comp_def]

theorem reqsForPort_perm (p : Nat) (ips : List IpItem) (A : List Addr)
    (h : ips.Perm (A.map IpItem.ip)) :
    (reqsForPort p ips).Perm ((A.map (fun a => (a, p))).map mk) := by
  rw [← reqsForPort_ips]
  exact h.map _

/-- the ports among port items -/
def portVals (items : List PortItem) : List Nat :=
  items.filterMap (fun | .port p => some p | .err _ => none)

theorem portVals_map_port (ps : List Nat) : portVals (ps.map PortItem.port) = ps := by
  induction ps with
  | nil => rfl
  | cons p ps ih =>
    have : portVals (PortItem.port p :: ps.map PortItem.port) = p :: portVals (ps.map PortItem.port) := by
      simp [portVals]
    rw [List.map_cons, this, ih]

theorem portVals_perm (items : List PortItem) (ps : List Nat)
    (h : items.Perm (ps.map PortItem.port)) : (portVals items).Perm ps := by
  have := h.filterMap (fun | .port p => some p | .err _ => none)
  rw [← portVals_map_port ps]
  exact this

/-- **loop coverage**: every pass yields the same addresses (in any order), no item is an error —
    then the loop requests every (address, port) combination exactly once and nothing else -/
theorem ipPortLoop_perm (pass : Nat → Except Cause (List IpItem)) (A : List Addr)
    (hpass : ∀ k, ∃ l, pass k = .ok l ∧ l.Perm (A.map IpItem.ip)) :
    ∀ (items : List PortItem) (k : Nat) (ips : List IpItem),
      (∀ it ∈ items, ∃ p, it = PortItem.port p) → ips.Perm (A.map IpItem.ip) →
      (ipPortLoop pass items k ips).Perm ((cross (portVals items) A).map mk)
  | [], _, _, _, _ => by simp [ipPortLoop, portVals, cross]
  | .err c :: ps, _, _, hit, _ => by
    obtain ⟨p, hp⟩ := hit (.err c) (by simp)
    cases hp
  | .port p :: ps, k, ips, hit, hips => by
    obtain ⟨l, hl, hlp⟩ := hpass (k + 1)
    have hv : portVals (PortItem.port p :: ps) = p :: portVals ps := by
      simp [portVals]
    rw [hv, cross_cons, List.map_append]
    simp only [ipPortLoop, hl]
    exact (reqsForPort_perm p ips A hips).append
      (ipPortLoop_perm pass A hpass ps (k + 1) l
        (fun it h => hit it (List.mem_cons_of_mem _ h)) hlp)

theorem probes_reqsForPort (ap : Addr × Nat) (p : Nat) (ips : List IpItem)
    (h : ap ∈ probes (reqsForPort p ips)) : ap.2 = p ∧ IpItem.ip ap.1 ∈ ips := by
  rw [mem_probes] at h
  obtain ⟨r, hr, he, hd, hp⟩ := h
  simp only [reqsForPort, List.mem_map] at hr
  obtain ⟨it, hit, rfl⟩ := hr
  cases it with
  | ip a =>
    simp only [Option.some.injEq] at hd hp
    subst hd
    exact ⟨hp.symm, hit⟩
  | err c => simp at he

/-- **loop confinement**: whatever the passes and the items, a probe pairs an address that some
    pass handed out with a port that is a port item -/
theorem ipPortLoop_mem (pass : Nat → Except Cause (List IpItem)) (A : List Addr)
    (hpass : ∀ k l, pass k = .ok l → ∀ a, IpItem.ip a ∈ l → a ∈ A) (ap : Addr × Nat) :
    ∀ (items : List PortItem) (k : Nat) (ips : List IpItem),
      (∀ a, IpItem.ip a ∈ ips → a ∈ A) → ap ∈ probes (ipPortLoop pass items k ips) →
      ap.1 ∈ A ∧ PortItem.port ap.2 ∈ items
  | [], _, _, _, h => by simp [ipPortLoop, probes] at h
  | .err c :: ps, k, ips, hips, h => by
    rw [ipPortLoop, probes_cons_err c _ rfl] at h
    have ih := ipPortLoop_mem pass A hpass ap ps k ips hips h
    exact ⟨ih.1, List.mem_cons_of_mem _ ih.2⟩
  | .port p :: ps, k, ips, hips, h => by
    rw [ipPortLoop, probes_append, List.mem_append] at h
    rcases h with h | h
    · obtain ⟨h2, h1⟩ := probes_reqsForPort ap p ips h
      exact ⟨hips _ h1, by rw [h2]; simp⟩
    · cases hk : pass (k + 1) with
      | error c =>
        rw [hk] at h
        simp [probes] at h
      | ok l =>
        rw [hk] at h
        have ih := ipPortLoop_mem pass A hpass ap ps (k + 1) l (hpass (k + 1) l hk) h
        exact ⟨ih.1, List.mem_cons_of_mem _ ih.2⟩

/-- `ipPortGenerator` on valid ranges and uniform passes -/
theorem ipPortGen_perm (tbl : List Group) (htbl : ∀ r ∈ tbl, SxVerif.Pratt.RowOK r)
    (hsorted : List.Pairwise (fun a b : Group => a.P < b.P) tbl)
    (hpmax : (tbl.map (·.P)).foldl max 0 = 2 ^ 32 + 61)
    (c : List PortRange) (hok : PortsOK c) (hne : c ≠ []) (dp : Draws)
    (pass : Nat → Except Cause (List IpItem)) (A : List Addr)
    (hpass : ∀ k, ∃ l, pass k = .ok l ∧ l.Perm (A.map IpItem.ip)) :
    ∃ b, ipPortGen (portGen tbl c dp) pass = .ok b ∧ b.Perm ((cross (portsOf c) A).map mk) := by
  obtain ⟨items, hitems, hperm⟩ := portGen_perm tbl htbl hsorted hpmax c hok hne dp
  obtain ⟨l, hl, hlp⟩ := hpass 0
  refine ⟨ipPortLoop pass items 0 l, by simp [ipPortGen, hitems, hl], ?_⟩
  have hall : ∀ it ∈ items, ∃ p, it = PortItem.port p := by
    intro it hit
    have := hperm.mem_iff.mp hit
    rw [List.mem_map] at this
    obtain ⟨p, _, rfl⟩ := this
    exact ⟨p, rfl⟩
  refine (ipPortLoop_perm pass A hpass items 0 l hall hlp).trans ?_
  have hv := portVals_perm items _ hperm
  exact (hv.flatMap_right (fun p => A.map (fun a => (a, p)))).map mk

/-- `ipPortGenerator`, any ranges, any passes: confinement -/
theorem ipPortGen_mem (tbl : List Group) (htbl : ∀ r ∈ tbl, SxVerif.Pratt.RowOK r)
    (hsorted : List.Pairwise (fun a b : Group => a.P < b.P) tbl)
    (c : List PortRange) (dp : Draws) (pass : Nat → Except Cause (List IpItem)) (A : List Addr)
    (hpass : ∀ k l, pass k = .ok l → ∀ a, IpItem.ip a ∈ l → a ∈ A)
    (b : List Req) (h : ipPortGen (portGen tbl c dp) pass = .ok b) (ap : Addr × Nat)
    (hap : ap ∈ probes b) : ap.1 ∈ A ∧ ap.2 ∈ portsOf c := by
  unfold ipPortGen at h
  cases hg : portGen tbl c dp with
  | none => rw [hg] at h; simp at h
  | some items =>
    rw [hg] at h
    cases h0 : pass 0 with
    | error e => rw [h0] at h; simp at h
    | ok l =>
      rw [h0] at h
      obtain rfl : ipPortLoop pass items 0 l = b := by simpa using h
      have := ipPortLoop_mem pass A hpass ap items 0 l (hpass 0 l h0) hap
      exact ⟨this.1, portGen_mem tbl htbl hsorted c dp items hg ap.2 this.2⟩

/-! ### the optional stages -/

/-- the two optional stages on the outcome of a generator call -/
def stages (excl : Option (List (Nat × Nat))) (cache : Option (List (Addr × Nat) × Option Nat))
    (base : Except Cause (List Req)) : Except Cause (List Req) :=
  let filtered := match excl with
    | some e => base.map (filterStage e)
    | none => base
  match cache with
  | some (c, gw) => filtered.map (cacheStage c gw)
  | none => filtered

/-- … and on the request list -/
def stageList (excl : Option (List (Nat × Nat))) (cache : Option (List (Addr × Nat) × Option Nat))
    (b : List Req) : List Req :=
  let filtered := match excl with
    | some e => filterStage e b
    | none => b
  match cache with
  | some (c, gw) => cacheStage c gw filtered
  | none => filtered

theorem stages_ok (excl cache) (b : List Req) :
    stages excl cache (.ok b) = .ok (stageList excl cache b) := by
  cases excl <;> cases cache <;> rfl

theorem stages_error (excl cache) (c : Cause) : stages excl cache (.error c) = .error c := by
  cases excl <;> cases cache <;> rfl

theorem stages_eq_ok (excl cache) (base : Except Cause (List Req)) (rs : List Req)
    (h : stages excl cache base = .ok rs) : ∃ b, base = .ok b ∧ rs = stageList excl cache b := by
  cases base with
  | error c => rw [stages_error] at h; cases h
  | ok b => rw [stages_ok] at h; exact ⟨b, rfl, by injection h with h; exact h.symm⟩

theorem filterStage_append (e) (a b : List Req) :
    filterStage e (a ++ b) = filterStage e a ++ filterStage e b := by
  simp [filterStage, List.filter_append]

theorem cacheStage_append (c gw) (a b : List Req) :
    cacheStage c gw (a ++ b) = cacheStage c gw a ++ cacheStage c gw b := by
  simp [cacheStage, List.map_append]

theorem stageList_append (excl cache) (a b : List Req) :
    stageList excl cache (a ++ b) = stageList excl cache a ++ stageList excl cache b := by
  cases excl <;> cases cache <;>
    simp [stageList, filterStage_append, cacheStage_append]

theorem stageList_nil (excl cache) : stageList excl cache [] = [] := by
  cases excl <;> cases cache <;> rfl

theorem stageList_perm (excl cache) (a b : List Req) (h : a.Perm b) :
    (stageList excl cache a).Perm (stageList excl cache b) := by
  cases excl <;> cases cache <;> simp only [stageList, filterStage, cacheStage]
  · exact h
  · exact h.map _
  · exact h.filter _
  · exact (h.filter _).map _

/-- the filter keeps exactly the non-excluded probes -/
theorem filterStage_map_mk (e : List (Nat × Nat)) (L : List (Addr × Nat)) :
    filterStage e (L.map mk) = (L.filter (fun ap => !isExcluded (some e) ap.1)).map mk := by
  rw [filterStage, List.filter_map]
  congr 1
  apply List.filter_congr
  intro ap _
  simp [mk, excluded_eq_isExcluded]

/-- the ARP-cache stage never changes a destination or a port -/
theorem cacheStage_tgt (c : List (Addr × Nat)) (gw : Option Nat) (rs : List Req) :
    (cacheStage c gw rs).map tgt = rs.map tgt := by
  rw [cacheStage, List.map_map]
  apply List.map_congr_left
  intro r _
  simp only [Function.comp, tgt]
  split
  · rfl
  · rfl
  · split
    · rfl
    · split <;> rfl

theorem cacheStage_err (c : List (Addr × Nat)) (gw : Option Nat) (rs : List Req)
    (h : ∀ r ∈ rs, r.err = none) :
    ∀ r ∈ cacheStage c gw rs, r.err = none ∨ r.err = some .noMAC := by
  intro r' hr'
  rw [cacheStage, List.mem_map] at hr'
  obtain ⟨r, hr, rfl⟩ := hr'
  have he := h r hr
  split
  · exact Or.inl he
  · exact Or.inr rfl
  · split
    · exact Or.inl he
    · split
      · exact Or.inl he
      · exact Or.inr rfl

theorem cacheStage_noerr (c : List (Addr × Nat)) (g : Nat) (rs : List Req)
    (h : ∀ r ∈ rs, r.err = none ∧ r.dst ≠ none) :
    ∀ r ∈ cacheStage c (some g) rs, r.err = none := by
  intro r' hr'
  rw [cacheStage, List.mem_map] at hr'
  obtain ⟨r, hr, rfl⟩ := hr'
  obtain ⟨he, hd⟩ := h r hr
  split
  · exact he
  · rename_i hd'; exact absurd hd' hd
  · split <;> exact he

/-- what the cache stage does to one request -/
theorem cacheStage_mem (c : List (Addr × Nat)) (gw : Option Nat) (rs : List Req) (r' : Req)
    (h : r' ∈ cacheStage c gw rs) :
    ∃ r ∈ rs, r'.dst = r.dst ∧ r'.port = r.port ∧ (r'.err = none → r.err = none) := by
  rw [cacheStage, List.mem_map] at h
  obtain ⟨r, hr, rfl⟩ := h
  refine ⟨r, hr, ?_⟩
  obtain ⟨dst, port, mac, err⟩ := r
  cases err with
  | some e => exact ⟨rfl, rfl, fun h => h⟩
  | none =>
    cases dst with
    | none => exact ⟨rfl, rfl, fun h => by cases h⟩
    | some a =>
      dsimp only
      split
      · exact ⟨rfl, rfl, fun _ => rfl⟩
      · split
        · exact ⟨rfl, rfl, fun _ => rfl⟩
        · exact ⟨rfl, rfl, fun h => by cases h⟩

/-- a probe after the cache stage was a probe before -/
theorem probes_cacheStage (c : List (Addr × Nat)) (gw : Option Nat) (rs : List Req)
    (ap : Addr × Nat) (h : ap ∈ probes (cacheStage c gw rs)) : ap ∈ probes rs := by
  rw [mem_probes] at h ⊢
  obtain ⟨r', hr', he, hd, hp⟩ := h
  obtain ⟨r, hr, h1, h2, h3⟩ := cacheStage_mem c gw rs r' hr'
  exact ⟨r, hr, h3 he, h1 ▸ hd, h2 ▸ hp⟩

/-- a probe after the filter was a probe before, and is not excluded -/
theorem probes_filterStage (e : List (Nat × Nat)) (rs : List Req) (ap : Addr × Nat)
    (h : ap ∈ probes (filterStage e rs)) : ap ∈ probes rs ∧ isExcluded (some e) ap.1 = false := by
  rw [mem_probes] at h
  obtain ⟨r, hr, he, hd, hp⟩ := h
  rw [filterStage, List.mem_filter] at hr
  obtain ⟨hr, hk⟩ := hr
  refine ⟨(mem_probes ap rs).mpr ⟨r, hr, he, hd, hp⟩, ?_⟩
  rw [he, hd] at hk
  rw [← excluded_eq_isExcluded]
  simpa using hk

theorem probes_stageList (excl cache) (rs : List Req) (ap : Addr × Nat)
    (h : ap ∈ probes (stageList excl cache rs)) : ap ∈ probes rs ∧ isExcluded excl ap.1 = false := by
  have hf : ∀ ap, ap ∈ probes (match excl with | some e => filterStage e rs | none => rs) →
      ap ∈ probes rs ∧ isExcluded excl ap.1 = false := by
    intro ap h
    cases excl with
    | none => exact ⟨h, isExcluded_none _⟩
    | some e => exact probes_filterStage e rs ap h
  cases cache with
  | none => exact hf ap h
  | some cg => exact hf ap (probes_cacheStage cg.1 cg.2 _ ap h)

/-- what the stages make of a list of plain probes -/
structure Good (excl : Option (List (Nat × Nat))) (cache : Option (List (Addr × Nat) × Option Nat))
    (L : List (Addr × Nat)) (rs : List Req) : Prop where
  tgts : (rs.map tgt).Perm ((L.filter (fun ap => !isExcluded excl ap.1)).map (fun ap => (some ap.1, ap.2)))
  errs : ∀ r ∈ rs, r.err = none ∨ r.err = some .noMAC
  noerr : (cache = none ∨ ∃ c g, cache = some (c, some g)) → ∀ r ∈ rs, r.err = none

theorem map_mk_facts (L : List (Addr × Nat)) : ∀ r ∈ L.map mk, r.err = none ∧ r.dst ≠ none := by
  intro r hr
  rw [List.mem_map] at hr
  obtain ⟨ap, _, rfl⟩ := hr
  exact ⟨rfl, by simp [mk]⟩

theorem filtered_map_mk (excl : Option (List (Nat × Nat))) (L : List (Addr × Nat)) :
    (match excl with | some e => filterStage e (L.map mk) | none => L.map mk)
      = (L.filter (fun ap => !isExcluded excl ap.1)).map mk := by
  cases excl with
  | none => simp [isExcluded_none]
  | some e => exact filterStage_map_mk e L

theorem map_tgt_map_mk (L : List (Addr × Nat)) :
    (L.map mk).map tgt = L.map (fun ap => (some ap.1, ap.2)) := by
  rw [List.map_map]; rfl

theorem good_map_mk (excl cache) (L : List (Addr × Nat)) :
    Good excl cache L (stageList excl cache (L.map mk)) := by
  have hf := filtered_map_mk excl L
  cases cache with
  | none =>
    simp only [stageList, hf]
    have hn := map_mk_facts (L.filter (fun ap => !isExcluded excl ap.1))
    exact ⟨by rw [map_tgt_map_mk], fun r hr => Or.inl (hn r hr).1, fun _ r hr => (hn r hr).1⟩
  | some cg =>
    obtain ⟨c, gw⟩ := cg
    simp only [stageList, hf]
    have hn := map_mk_facts (L.filter (fun ap => !isExcluded excl ap.1))
    refine ⟨by rw [cacheStage_tgt, map_tgt_map_mk], cacheStage_err c gw _ (fun r hr => (hn r hr).1), ?_⟩
    rintro (h | ⟨c', g, h⟩)
    · cases h
    · obtain ⟨rfl, rfl⟩ : c = c' ∧ gw = some g := by simpa using h
      exact cacheStage_noerr c g _ hn

/-- the stages commute with permuting the input -/
theorem good_of_perm (excl cache) (L : List (Addr × Nat)) (b : List Req) (h : b.Perm (L.map mk)) :
    Good excl cache L (stageList excl cache b) := by
  have hp := stageList_perm excl cache b _ h
  have hg := good_map_mk excl cache L
  exact ⟨(hp.map tgt).trans hg.tgts, fun r hr => hg.errs r (hp.mem_iff.mp hr),
    fun hc r hr => hg.noerr hc r (hp.mem_iff.mp hr)⟩

/-- probes of a request list without errors, from its targets -/
theorem probes_of_noerr (rs : List Req) (h : ∀ r ∈ rs, r.err = none) :
    probes rs = (rs.map tgt).filterMap (fun dp => dp.1.map (fun a => (a, dp.2))) := by
  induction rs with
  | nil => rfl
  | cons r rs ih =>
    have he := h r (by simp)
    have ih' := ih (fun r' hr' => h r' (List.mem_cons_of_mem _ hr'))
    rw [List.map_cons, List.filterMap_cons, ← ih']
    cases hd : r.dst with
    | none => simp [probes, he, hd, tgt]
    | some a => simp [probes, he, hd, tgt]

theorem Good.probes_perm {excl cache} {L : List (Addr × Nat)} {rs : List Req}
    (hg : Good excl cache L rs) (hne : ∀ r ∈ rs, r.err = none) :
    (probes rs).Perm (L.filter (fun ap => !isExcluded excl ap.1)) := by
  rw [probes_of_noerr rs hne]
  refine (hg.tgts.filterMap _).trans ?_
  rw [List.filterMap_map]
  have : ((fun dp : Option Addr × Nat => dp.1.map (fun a => (a, dp.2))) ∘
      (fun ap : Addr × Nat => (some ap.1, ap.2))) = some := by
    funext ap; rfl
  rw [this, List.filterMap_some]

end SxVerif.Proofs.Gen
