/-
Lemmas for C03, part 6 (capture length): the installed filter reads only a bounded prefix of the frame, so it
gives the same verdict on a frame and on any prefix of it that is long enough (`accepts_take`).
-/
import SxVerif.Proofs.Bpf
import SxVerif.Proofs.Frame1

namespace SxVerif.Proofs.Snap
open SxVerif.Frame SxVerif.Bpf SxVerif.Proofs.Frame SxVerif.Proofs.Bpf

theorem u32_take (f : Bytes) {n i : Nat} (h : i + 3 < n) : u32 (f.take n) i = u32 f i := by
  simp [u32, u16_take f (show i + 1 < n by omega), u16_take f (show i + 2 + 1 < n by omega)]

theorem linkLen_le (m : LinkMode) : linkLen m ≤ 14 := by cases m <;> simp [linkLen]

/-- an upper bound on the end offset of every packet load of the program for `e`, on either link type -/
def loadEnd : Expr → Nat
  | .tcp => 55
  | .icmp => 24
  | .arp => 14
  | .ipSrcNet _ => 30
  | .arpSrcNet _ => 32
  | .srcPortrange _ _ => 76
  | .tcpByteEq off _ => 75 + off
  | .icmpByteNe off _ => 75 + off
  | .and a b => max (loadEnd a) (loadEnd b)
  | .or a b => max (loadEnd a) (loadEnd b)
  | .paren e => loadEnd e

section
variable (m : LinkMode) (f : Bytes) {n : Nat}

theorem linkIs_take (hn : 14 ≤ n) (et : Nat) (b : Bool) : linkIs m (f.take n) et b = linkIs m f et b := by
  cases m with
  | rawIPv4 => rfl
  | ethernet => simp only [linkIs, u16_take f (show 12 + 1 < n by omega)]

theorem byteIs_take {i : Nat} (h : 14 + i < n) (v : Nat) : byteIs m (f.take n) i v = byteIs m f i v := by
  have := linkLen_le m
  simp only [byteIs, u8_take f (show linkLen m + i < n by omega)]

theorem byteIn_take {i : Nat} (h : 14 + i < n) (vs : List Nat) : byteIn m (f.take n) i vs = byteIn m f i vs := by
  have := linkLen_le m
  simp only [byteIn, u8_take f (show linkLen m + i < n by omega)]

theorem notLaterFragment_take (h : 22 ≤ n) : notLaterFragment m (f.take n) = notLaterFragment m f := by
  have := linkLen_le m
  simp only [notLaterFragment, u16_take f (show linkLen m + 6 + 1 < n by omega)]

theorem ipHdrLen_take (h : 15 ≤ n) : ipHdrLen m (f.take n) = ipHdrLen m f := by
  have := linkLen_le m
  simp only [ipHdrLen, u8_take f (show linkLen m < n by omega)]

theorem ipHdrLen_le {x : Nat} (h : ipHdrLen m f = some x) : x ≤ 60 := by
  unfold ipHdrLen at h
  cases hb : u8 f (linkLen m) with
  | none => simp [hb] at h
  | some b => simp [hb] at h; omega

theorem netMatch_take {off : Nat} (h : off + 3 < n) (nt : Net) : netMatch (f.take n) off nt = netMatch f off nt := by
  simp only [netMatch, u32_take f h]

end

/-- the program reads nothing beyond `loadEnd e`: on a prefix at least that long it computes the same value -/
theorem eval_take (m : LinkMode) (f : Bytes) (n : Nat) : ∀ e : Expr, loadEnd e ≤ n → eval m (f.take n) e = eval m f e
  | .tcp, h => by
    simp only [loadEnd] at h
    simp only [eval, isIP, isIP6, linkIs_take m f (show 14 ≤ n by omega), byteIs_take m f (show 14 + 9 < n by omega),
      byteIs_take m f (show 14 + 6 < n by omega), byteIs_take m f (show 14 + 40 < n by omega)]
  | .icmp, h => by
    simp only [loadEnd] at h
    simp only [eval, isIP, linkIs_take m f (show 14 ≤ n by omega), byteIs_take m f (show 14 + 9 < n by omega)]
  | .arp, h => by
    simp only [loadEnd] at h
    simp only [eval, isARP, linkIs_take m f h]
  | .ipSrcNet nt, h => by
    simp only [loadEnd] at h
    have := linkLen_le m
    simp only [eval, isIP, linkIs_take m f (show 14 ≤ n by omega),
      netMatch_take f (show linkLen m + 12 + 3 < n by omega)]
  | .arpSrcNet nt, h => by
    simp only [loadEnd] at h
    have := linkLen_le m
    simp only [eval, isARP, linkIs_take m f (show 14 ≤ n by omega),
      netMatch_take f (show linkLen m + 14 + 3 < n by omega)]
  | .srcPortrange lo hi, h => by
    simp only [loadEnd] at h
    have := linkLen_le m
    simp only [eval, isIP, isIP6, linkIs_take m f (show 14 ≤ n by omega), byteIn_take m f (show 14 + 9 < n by omega),
      byteIn_take m f (show 14 + 6 < n by omega), notLaterFragment_take m f (show 22 ≤ n by omega),
      ipHdrLen_take m f (show 15 ≤ n by omega), u16_take f (show linkLen m + 40 + 1 < n by omega)]
    cases hx : ipHdrLen m f with
    | none => rfl
    | some x =>
      have := ipHdrLen_le m f hx
      simp only [u16_take f (show linkLen m + x + 1 < n by omega)]
  | .tcpByteEq off val, h => by
    simp only [loadEnd] at h
    have := linkLen_le m
    simp only [eval, isIP, linkIs_take m f (show 14 ≤ n by omega), byteIs_take m f (show 14 + 9 < n by omega),
      notLaterFragment_take m f (show 22 ≤ n by omega), ipHdrLen_take m f (show 15 ≤ n by omega)]
    cases hx : ipHdrLen m f with
    | none => rfl
    | some x =>
      have := ipHdrLen_le m f hx
      simp only [u8_take f (show linkLen m + x + off < n by omega)]
  | .icmpByteNe off val, h => by
    simp only [loadEnd] at h
    have := linkLen_le m
    simp only [eval, isIP, linkIs_take m f (show 14 ≤ n by omega), byteIs_take m f (show 14 + 9 < n by omega),
      notLaterFragment_take m f (show 22 ≤ n by omega), ipHdrLen_take m f (show 15 ≤ n by omega)]
    cases hx : ipHdrLen m f with
    | none => rfl
    | some x =>
      have := ipHdrLen_le m f hx
      simp only [u8_take f (show linkLen m + x + off < n by omega)]
  | .and a b, h => by
    simp only [loadEnd] at h
    rw [eval_and', eval_and', eval_take m f n a (by omega), eval_take m f n b (by omega)]
  | .or a b, h => by
    simp only [loadEnd] at h
    rw [eval_or', eval_or', eval_take m f n a (by omega), eval_take m f n b (by omega)]
  | .paren e, h => by
    simp only [loadEnd] at h
    rw [eval_paren', eval_paren', eval_take m f n e h]

theorem accepts_take (m : LinkMode) (f : Bytes) (n : Nat) (e : Expr) (h : loadEnd e ≤ n) :
    accepts e m (f.take n) = accepts e m f := by
  unfold accepts
  rw [eval_take m f n e h]

/-! ### how far the four filter functions read -/

theorem loadEnd_orList (mk : Nat × Nat → Expr) (b : Nat) (hmk : ∀ p, loadEnd (mk p) ≤ b) :
    ∀ (ps : List (Nat × Nat)) (p : Nat × Nat), loadEnd (orList mk p ps) ≤ b
  | [], p => by simpa [orList] using hmk p
  | q :: rest, p => by
    have := loadEnd_orList mk b hmk rest q
    have := hmk p
    simp only [orList, loadEnd]
    omega

theorem loadEnd_tcp (r : Range) : loadEnd (tcpBPFFilter r) ≤ 76 := by
  obtain ⟨subnet, ports⟩ := r
  have hor : ∀ ps p, loadEnd (orList (fun pr => .srcPortrange pr.1 pr.2) p ps) ≤ 76 :=
    loadEnd_orList _ 76 (fun _ => by simp [loadEnd])
  cases subnet <;> cases ports <;> simp only [tcpBPFFilter, loadEnd] <;> first | omega | (have := hor ‹_› ‹_›; omega)

theorem loadEnd_synack (r : Range) : loadEnd (synackBPFFilter r) ≤ 88 := by
  have := loadEnd_tcp r
  simp only [synackBPFFilter, loadEnd]
  omega

theorem loadEnd_icmp (r : Range) : loadEnd (icmpBPFFilter r) ≤ 75 := by
  obtain ⟨subnet, ports⟩ := r
  cases subnet <;> simp only [icmpBPFFilter, loadEnd] <;> omega

theorem loadEnd_arp (r : Range) : loadEnd (arpBPFFilter r) ≤ 32 := by
  obtain ⟨subnet, ports⟩ := r
  cases subnet <;> simp only [arpBPFFilter, loadEnd] <;> omega

/-- the shortest capture length with which the theorems of this part hold: the longest header chain the
    processors and the reply shape read (Ethernet 14 + IPv4 60 + TCP 60; Ethernet 14 + ARP 28) -/
def minCapture : FilterFn → Nat
  | .arp => 42
  | _ => 134

theorem loadEnd_filterOf (fn : FilterFn) (r : Range) : loadEnd (filterOf fn r) ≤ minCapture fn := by
  cases fn
  · have := loadEnd_tcp r; simp only [filterOf, minCapture]; omega
  · have := loadEnd_synack r; simp only [filterOf, minCapture]; omega
  · have := loadEnd_icmp r; simp only [filterOf, minCapture]; omega
  · have := loadEnd_arp r; simp only [filterOf, minCapture]; omega

end SxVerif.Proofs.Snap
