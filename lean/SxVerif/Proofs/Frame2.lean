/-
Lemmas for C06, part 2: the layer loop (chain of successful decodes, fuel independence), introduction
lemmas for the flat spec, and the bridge from the IPv4 decoder to `ipv4At`.
-/
import SxVerif.Proofs.Frame1
namespace SxVerif.Proofs.Frame
open SxVerif.Frame SxVerif.Proc SxVerif.Spec.Frame

/-! ### the layer loop -/

/-- the sequence of successful `decodeLayer` calls behind a decoded-layer list -/
inductive Chain : LT → State → Bytes → State → List LT → Prop
  | last {t st d st' next p} : decodeLayer t st d = .ok st' next p → Chain t st d st' [t]
  | cons {t st d st1 next p st' rest} : decodeLayer t st d = .ok st1 next p →
      Chain next st1 p st' rest → Chain t st d st' (t :: rest)

theorem decodeLoop_chain (reg : List LT) : ∀ (fuel : Nat) (t : LT) (st : State) (d : Bytes) (acc : List LT)
    (st' : State) (dec : List LT), decodeLoop reg fuel t st d acc = .ok st' dec →
    ∃ rest, dec = acc ++ rest ∧ Chain t st d st' rest
  | 0, _, _, _, _, _, _, h => by simp [decodeLoop] at h
  | fuel + 1, t, st, d, acc, st', dec, h => by
    unfold decodeLoop at h
    split at h
    · cases h
    · cases h
    · rename_i st1 next p hdl
      simp only at h
      split at h
      · injection h with e1 e2
        subst e1 e2
        exact ⟨[t], rfl, .last hdl⟩
      · split at h
        · obtain ⟨rest, hr, hc⟩ := decodeLoop_chain reg fuel next st1 p _ st' dec h
          exact ⟨t :: rest, by simp [hr], .cons hdl hc⟩
        · injection h with e1 e2
          subst e1 e2
          exact ⟨[t], rfl, .last hdl⟩

theorem decodeLoop_fuel_gen (reg : List LT) : ∀ (n m : Nat) (t : LT) (st : State) (d : Bytes) (acc : List LT),
    d.length < n → d.length < m → decodeLoop reg n t st d acc = decodeLoop reg m t st d acc
  | 0, _, _, _, _, _, h, _ => by omega
  | _ + 1, 0, _, _, _, _, _, h => by omega
  | n + 1, m + 1, t, st, d, acc, hn, hm => by
    simp only [decodeLoop]
    cases hdl : decodeLayer t st d with
    | err _ => rfl
    | panic _ => rfl
    | ok st1 next p =>
      simp only
      have := decodeLayer_shorter hdl
      rw [decodeLoop_fuel_gen reg n m next st1 p _ (by omega) (by omega)]

theorem decodeLoop_fuel (registered : List LT) (first : LT) (st : State) (d : Bytes) (extra : Nat) :
    decodeLoop registered (d.length + 1 + extra) first st d [] = decodeLoop registered (d.length + 1) first st d [] :=
  decodeLoop_fuel_gen registered _ _ first st d [] (by omega) (by omega)

/-! ### spec introduction lemmas -/

theorem ipv4At_intro {f : Bytes} {o b0 tl0 ff proto tl : Nat}
    (h20 : o + 20 ≤ f.length) (hb0 : u8 f o = some b0) (htl0 : u16 f (o + 2) = some tl0)
    (hff : u16 f (o + 6) = some ff) (hproto : u8 f (o + 9) = some proto)
    (htl : tl = if tl0 = 0 then (f.length - o) % 65536 else tl0)
    (hv : b0 / 16 = 4) (hihl : 5 ≤ b0 % 16) (htl20 : 20 ≤ tl) (h1 : b0 % 16 * 4 ≤ tl)
    (h2 : b0 % 16 * 4 ≤ f.length - o) (hfrag : ¬ ((ff / 8192) % 2 = 1 ∨ ff % 8192 ≠ 0))
    (hopts : optionsOK (((f.drop (o + 20)).take (b0 % 16 * 4 - 20)).length + 1)
      ((f.drop (o + 20)).take (b0 % 16 * 4 - 20)) = true) :
    ipv4At f o = some { hlen := b0 % 16 * 4, dgEnd := o + min tl (f.length - o), proto := proto } := by
  unfold ipv4At
  subst htl
  have c1 : ¬ (o + 20 > f.length) := by omega
  have c2 : ¬ (b0 / 16 ≠ 4 ∨ b0 % 16 < 5 ∨ (if tl0 = 0 then (f.length - o) % 65536 else tl0) < 20 ∨
      b0 % 16 * 4 > (if tl0 = 0 then (f.length - o) % 65536 else tl0) ∨ b0 % 16 * 4 > f.length - o) := by omega
  simp only [hb0, htl0, hff, hproto, c1, c2, hfrag, hopts, if_false, Option.bind_eq_bind, Option.bind_some,
    Bool.not_true, Option.pure_def, Bool.false_eq_true]

theorem tcpChain_intro {vpn : Bool} {f : Bytes} {o : Nat} {ip : IPv4View} {b12 b13 sport : Nat}
    (ho : ipOffset vpn f = some o) (hip : ipv4At f o = some ip) (hproto : ip.proto = 6)
    (hseg : 20 ≤ ip.dgEnd - (o + ip.hlen))
    (hb12 : u8 f (o + ip.hlen + 12) = some b12) (hb13 : u8 f (o + ip.hlen + 13) = some b13)
    (hsport : u16 f (o + ip.hlen) = some sport)
    (hdoff : 5 ≤ b12 / 16) (hdoff' : b12 / 16 * 4 ≤ ip.dgEnd - (o + ip.hlen))
    (hopts : optionsOK (((f.drop (o + ip.hlen + 20)).take (b12 / 16 * 4 - 20)).length + 1)
      ((f.drop (o + ip.hlen + 20)).take (b12 / 16 * 4 - 20)) = true) :
    tcpChain vpn f = some { src := (f.drop (o + 12)).take 4, sport := sport, flags := (b12 % 2) * 256 + b13 } := by
  unfold tcpChain
  have c1 : ¬ (ip.dgEnd - (o + ip.hlen) < 20) := by omega
  have c2 : ¬ (b12 / 16 < 5 ∨ b12 / 16 * 4 > ip.dgEnd - (o + ip.hlen)) := by omega
  simp only [ho, hip, hproto, hb12, hb13, hsport, c1, c2, hopts, if_false, Option.bind_eq_bind, Option.bind_some,
    Bool.not_true, Option.pure_def, Bool.false_eq_true, ne_eq, not_true_eq_false]

theorem icmpChain_intro {vpn : Bool} {f : Bytes} {o : Nat} {ip : IPv4View} {ttl typ code : Nat}
    (ho : ipOffset vpn f = some o) (hip : ipv4At f o = some ip) (hproto : ip.proto = 1)
    (hseg : 8 ≤ ip.dgEnd - (o + ip.hlen))
    (httl : u8 f (o + 8) = some ttl) (htyp : u8 f (o + ip.hlen) = some typ)
    (hcode : u8 f (o + ip.hlen + 1) = some code) :
    icmpChain vpn f = some { src := (f.drop (o + 12)).take 4, ttl := ttl, typ := typ, code := code } := by
  unfold icmpChain
  have c1 : ¬ (ip.dgEnd - (o + ip.hlen) < 8) := by omega
  simp only [ho, hip, hproto, httl, htyp, hcode, c1, if_false, Option.bind_eq_bind, Option.bind_some,
    Option.pure_def, ne_eq, not_true_eq_false]

/-! ### next-layer tables -/

theorem ethNext_ipv4 {et : Nat} (h : ethNext et = .ipv4) : et = 0x0800 := by
  unfold ethNext at h
  split at h; · cases h
  split at h; · assumption
  split at h; · cases h
  split at h <;> cases h

theorem ethNext_arp {et : Nat} (h : ethNext et = .arp) : et = 0x0806 := by
  unfold ethNext at h
  split at h; · cases h
  split at h; · cases h
  split at h; · assumption
  split at h <;> cases h

theorem ipNext_tcp {p : Nat} (h : ipNext p = .tcp) : p = 6 := by
  unfold ipNext at h
  split at h; · cases h
  split at h; · assumption
  split at h <;> cases h

theorem ipNext_icmp {p : Nat} (h : ipNext p = .icmpv4) : p = 1 := by
  unfold ipNext at h
  split at h; · cases h
  split at h; · cases h
  split at h; · assumption
  cases h

/-! ### windows of the frame -/

theorem window_drop (f : Bytes) (t k j : Nat) : ((f.drop t).take k).drop j = (f.drop (t + j)).take (k - j) := by
  rw [List.drop_take, List.drop_drop]

theorem window_u8 (f : Bytes) {t s i : Nat} (h : i < s) : u8 ((f.drop t).take s) i = u8 f (t + i) := by
  rw [u8_take _ h, u8_drop]

theorem window_u16 (f : Bytes) {t s i : Nat} (h : i + 1 < s) : u16 ((f.drop t).take s) i = u16 f (t + i) := by
  rw [u16_take _ h, u16_drop]

theorem src_length {f : Bytes} {o : Nat} (h : o + 20 ≤ f.length) : ((f.drop (o + 12)).take 4).length = 4 := by
  simp only [List.length_take, List.length_drop]; omega

/-- the IPv4 decoder succeeding on `f.drop o` with version 4 and a non-fragment next layer is `ipv4At f o` -/
theorem ipv4_bridge {f : Bytes} {o : Nat} {st st' : State} {next : LT} {p : Bytes}
    (h : decodeIPv4 st (f.drop o) = .ok st' next p) (hv : st'.ipVersion = 4) (hnext : next ≠ .other 3) :
    o + 20 ≤ f.length ∧ ∃ ip ttl, ipv4At f o = some ip ∧ next = ipNext ip.proto ∧
      p = (f.drop (o + ip.hlen)).take (ip.dgEnd - (o + ip.hlen)) ∧
      o + ip.hlen ≤ ip.dgEnd ∧ ip.dgEnd ≤ f.length ∧
      u8 f (o + 8) = some ttl ∧
      st' = { st with ipVersion := 4, ipSrc := (f.drop (o + 12)).take 4, ipTTL := ttl } := by
  obtain ⟨h20, b0, tl0, ff, proto, ttl, tl, hb0, htl0, hff, hproto, httl, htl, htl20, hihl, h1, h2, hopts, hst,
    hnx, hp⟩ := decodeIPv4_ok h
  simp only [List.length_drop] at h20 htl h2
  simp only [u8_drop, u16_drop, Nat.add_zero] at hb0 htl0 hff hproto httl
  have hfrag : ¬ ((ff / 8192) % 2 = 1 ∨ ff % 8192 ≠ 0) := by
    intro hc; rw [if_pos hc] at hnx; exact hnext hnx
  rw [if_neg hfrag] at hnx
  have hv4 : b0 / 16 = 4 := by rw [hst] at hv; exact hv
  rw [window_drop] at hopts
  have hip := ipv4At_intro (f := f) (o := o) (by omega) hb0 htl0 hff hproto htl hv4 hihl htl20 h1 h2 hfrag
    (ipOptionsOK_imp _ _ hopts)
  refine ⟨by omega, _, ttl, hip, hnx, ?_, ?_, ?_, httl, ?_⟩
  · rw [hp, List.length_drop, window_drop]
    simp only
    congr 1
    omega
  · simp only; omega
  · simp only; omega
  · rw [hst, hv4, List.drop_drop]

end SxVerif.Proofs.Frame
