/-
C13 at the error streams: C13's per-entry statement (Proofs/GenC13: each bad entry ↦ one error request with its
cause, stages pass errors through untouched) composed with the engines — packet side `packet_final_bytes`
(an error request ↦ exactly one record on the merged error stream, no frame), generic side `errs_final` /
`scans_perm` (an error entry ↦ exactly one error sent, no `Scan` call).
-/
import SxVerif.Proofs.ComposeWire
import SxVerif.Proofs.ComposeScan
import SxVerif.Proofs.GenC13

namespace SxVerif.Proofs.Compose
open SxVerif.Frame (Bytes)
open SxVerif.Gen SxVerif.Spec.Gen SxVerif.RangeIter SxVerif.Proofs.Gen SxVerif.Compose SxVerif.Spec.Compose
open SxVerif.Pipe (okFrames failErrs writeErrs)
open SxVerif.Engine (isOk isFail)

/-! ### generator side: what survives the stages -/

def realErr (r : Req) : Bool := r.err.isSome && r.err != some .noMAC

theorem errors_filter (rs : List Req) :
    (errors rs).filter (· != .noMAC) = errors (rs.filter realErr) := by
  induction rs with
  | nil => rfl
  | cons r rs ih =>
    cases he : r.err with
    | none => simpa [errors, realErr, he, List.filter_cons] using ih
    | some c =>
      by_cases hc : c = .noMAC
      · subst hc; simpa [errors, realErr, he, List.filter_cons] using ih
      · have hb : (c != Cause.noMAC) = true := by simpa using hc
        have hr : realErr r = true := by simp [realErr, he, hc]
        simp only [errors, List.filterMap_cons, he, List.filter_cons, hb, hr, if_true] at ih ⊢
        rw [ih]

/-- the causes that come out of any stack of stages, other than the cache stage's own `noMAC`, are the causes
    that went in, in order (C13_errors_survive) -/
theorem errors_stage (stage : List Req → List Req) (h : stageOK stage) (base : List Req)
    (hb : ∀ r ∈ base, r.err ≠ some .noMAC) :
    (errors (stage base)).filter (· != .noMAC) = errors base := by
  rw [errors_filter]
  have := (errors_survive stage h base).1
  have h2 : (stage base).filter realErr = base.filter realErr := this
  rw [h2, ← errors_filter]
  apply List.filter_eq_self.mpr
  intro c hc
  simp only [errors, List.mem_filterMap] at hc
  obtain ⟨r, hr, he⟩ := hc
  have := hb r hr
  rw [he] at this
  simpa using this

/-! ### packet side -/

theorem failErrs_cons (q : Pipe.Req) (qs : List Pipe.Req) :
    failErrs (q :: qs) = (match q.kind with
      | .reqErr => [Pipe.Err.req q] | .fillErr => [Pipe.Err.fill q] | .ok => []) ++ failErrs qs := by
  unfold failErrs
  cases hk : q.kind <;> simp [hk]

theorem reqCauses_append (rs : List Req) (a b : List Pipe.Pkt) :
    reqCauses rs (a ++ b) = reqCauses rs a ++ reqCauses rs b := by
  simp [reqCauses, List.filterMap_append]

/-- one record, with its cause, per error request of the embedded stream; none for the other requests -/
theorem reqCauses_failErrs (l : Link) (fl : Filler) (rnd : Nat → Rnd) :
    ∀ (rs pre : List Req),
      reqCauses (pre ++ rs) ((failErrs (pipeReqsFrom l fl rnd pre.length rs)).map Pipe.Pkt.err)
        = (errors rs).map some
  | [], _ => rfl
  | r :: rs, pre => by
    have ih := reqCauses_failErrs l fl rnd rs (pre ++ [r])
    rw [List.length_append, List.length_singleton, List.append_assoc, List.singleton_append] at ih
    rw [pipeReqsFrom, failErrs_cons, List.map_append, reqCauses_append, ih]
    cases he : r.err with
    | some c =>
      rw [pipeReq_err l fl rnd _ r c he]
      simp [reqCauses, causeAt, errors, he]
    | none =>
      cases hf : fill l fl (fillReq l r) (rnd pre.length) with
      | ok f =>
        rw [pipeReq_ok l fl rnd _ r f he hf]
        simp [reqCauses, errors, he]
      | error e =>
        have : pipeReq l fl rnd pre.length r = { id := pre.length, kind := .fillErr, frame := [] } := by
          simp [pipeReq, he, hf]
        rw [this]
        simp [reqCauses, errors, he]

theorem reqCauses_writeErrs (rs : List Req) (w : List (Bytes × Bool)) :
    reqCauses rs ((writeErrs w).map Pipe.Pkt.err) = [] := by
  simp [reqCauses, writeErrs, List.filterMap_map, Function.comp_def]

theorem reqCauses_rcv (rs : List Req) (es : List Pipe.Err) (h : ∀ e ∈ es, ∃ k, e = Pipe.Err.rcv k) :
    reqCauses rs (es.map Pipe.Pkt.err) = [] := by
  simp only [reqCauses, List.filterMap_map, List.filterMap_eq_nil_iff]
  intro e he
  obtain ⟨k, rfl⟩ := h e he
  rfl

/-- frames are built for the error-free requests only -/
theorem okFrames_probeFrames (l : Link) (fl : Filler) (rnd : Nat → Rnd) :
    ∀ (rs : List Req) (i : Nat), okFrames (pipeReqsFrom l fl rnd i rs) = probeFramesFrom l fl rnd i rs
  | [], _ => rfl
  | r :: rs, i => by
    rw [pipeReqsFrom, okFrames_cons, probeFramesFrom, okFrames_probeFrames l fl rnd rs (i + 1)]
    congr 1
    cases he : r.err with
    | some c => rw [pipeReq_err l fl rnd i r c he]; simp
    | none =>
      cases hf : fill l fl (fillReq l r) (rnd i) with
      | ok f => rw [pipeReq_ok l fl rnd i r f he hf]; simp
      | error e => simp [pipeReq, he, hf]

/-- **one terminated, uncancelled run of the packet pipeline over ANY request list**: the request-error records
    the error consumer received carry exactly the causes of the stream's error requests (one each), and the
    frames handed to the writer are exactly those built for its error-free requests -/
theorem packet_run_errors {cfg : Pipe.Cfg} (hwf : cfg.WF) (l : Link) (fl : Filler) (rs : List Req) (o : PacketRun)
    (hreqs : o.inp.reqs = pipeReqs l fl o.rnd rs) (hn : 0 < o.inp.n) (hreach : Pipe.ReachableNC cfg o.inp o.st)
    (ht : Pipe.Terminated o.st) (hrcv : RcvErrsOK o.inp) :
    (reqCauses rs o.st.errsOut).Perm ((errors rs).map some) ∧
    (handed o.st).Perm (probeFrames l fl o.rnd rs) := by
  obtain ⟨hw, he⟩ := Pipe.packet_final_bytes hwf hreach hn ht
  constructor
  · have := he.filterMap (fun p => match p with
      | .err (.req q) => some (causeAt rs q.id)
      | _ => none)
    refine (List.Perm.trans this (List.Perm.of_eq ?_))
    show reqCauses rs _ = _
    rw [List.map_append, List.map_append, reqCauses_append, reqCauses_append, reqCauses_writeErrs,
      reqCauses_rcv rs _ hrcv, hreqs, pipeReqs]
    simpa using reqCauses_failErrs l fl o.rnd rs []
  · rw [hreqs, pipeReqs, okFrames_probeFrames] at hw
    exact hw

/-- … over the output of a stack of stages on a base list -/
theorem packet_stage_errors {cfg : Pipe.Cfg} (hwf : cfg.WF) (l : Link) (fl : Filler)
    (stage : List Req → List Req) (hst : stageOK stage) (base : List Req)
    (hb : ∀ r ∈ base, r.err ≠ some .noMAC) (o : PacketRun)
    (hreqs : o.inp.reqs = pipeReqs l fl o.rnd (stage base)) (hn : 0 < o.inp.n)
    (hreach : Pipe.ReachableNC cfg o.inp o.st) (ht : Pipe.Terminated o.st) (hrcv : RcvErrsOK o.inp) :
    ((reqCauses (stage base) o.st.errsOut).filter (· != some .noMAC)).Perm ((errors base).map some) ∧
    (handed o.st).Perm (probeFrames l fl o.rnd (stage base)) ∧
    List.Sublist (probes (stage base)) (probes base) := by
  obtain ⟨h1, h2⟩ := packet_run_errors hwf l fl (stage base) o hreqs hn hreach ht hrcv
  refine ⟨?_, h2, (errors_survive stage hst base).2⟩
  refine (h1.filter _).trans (List.Perm.of_eq ?_)
  rw [← errors_stage stage hst base hb]
  generalize errors (stage base) = cs
  induction cs with
  | nil => rfl
  | cons c cs ih => by_cases hc : c = .noMAC <;> simp [hc, ih]

/-! ### generic side -/

/-- an ok request of the embedded stream is an error-free request of the stream -/
theorem engReqs_ok_lookup (orc : Nat → Engine.Outcome) (rs : List Req) :
    ∀ e ∈ (engReqs orc rs).filter isOk, ∃ r, rs[e.id]? = some r ∧ r.err = none := by
  have h := engReqs_lookup orc isOk (·.err.isNone) (fun i r => by cases h : r.err <;> simp [isOk, engReq, h]) rs
  intro e he
  have hmem : rs[e.id]? ∈ ((engReqs orc rs).filter isOk).map (fun e => rs[e.id]?) :=
    List.mem_map_of_mem (f := fun e => rs[e.id]?) he
  rw [h, List.mem_map] at hmem
  obtain ⟨r, hr, heq⟩ := hmem
  refine ⟨r, heq.symm, ?_⟩
  have := (List.mem_filter.mp hr).2
  cases hre : r.err with
  | none => rfl
  | some c => simp [hre] at this

theorem filterMap_err_filter (rs : List Req) :
    ((rs.filter (·.err.isSome)).map (·.err)).filterMap id = errors rs := by
  induction rs with
  | nil => rfl
  | cons r rs ih => cases he : r.err <;> simp [errors, he] at ih ⊢ <;> exact ih

/-- **the generic engine over ANY request list**, every worker count, oracle and schedule without Ctrl-C: no
    `Scan` call is ever made for a request that carries an error; at `done` the errors sent carry exactly the
    causes of the stream's error requests, one each (failed scans are other records) -/
theorem engine_run_errors (rs : List Req) (c : Engine.Cfg) (orc : Nat → Engine.Outcome) (st : Engine.Sys)
    (hW : 0 < c.W) (hr : Engine.Reachable c (Engine.init (engReqs orc rs) []) st) (hnc : st.cmdCtx = false) :
    (∀ e ∈ st.scans, ∃ r, rs[e.id]? = some r ∧ r.err = none) ∧
    (st.doneClosed = true → (sentCauses rs st.errSent).Perm (errors rs) ∧
      (st.drain = .exited → st.errLogged = st.errSent)) := by
  have h2 := Engine.inv2 hW hr hnc
  constructor
  · intro e he
    apply engReqs_ok_lookup orc rs e
    have h1 : e ∈ st.recvd.filter isOk :=
      (Engine.scans_perm h2).mem_iff.mp (List.mem_append_left _ he)
    have : List.Sublist st.recvd (engReqs orc rs) := by rw [← h2.handoff]; exact List.sublist_append_left _ _
    exact (this.filter _).subset h1
  · intro hd
    refine ⟨?_, Engine.errLogged_all hr⟩
    have hp := (Engine.errs_final hW (Engine.inv0 hr) h2 hd).filterMap (causeAt rs)
    refine hp.trans (List.Perm.of_eq ?_)
    rw [List.filterMap_append, List.filterMap_map, List.filterMap_map]
    have h1 : ((engReqs orc rs).filter (·.isErr)).filterMap (causeAt rs ∘ (·.id)) = errors rs := by
      have := congrArg (List.filterMap id) (engReqs_causes orc rs)
      rw [List.filterMap_map, filterMap_err_filter] at this
      exact this
    have h3 : ((engReqs orc rs).filter (fun r => isOk r && isFail r)).filterMap (causeAt rs ∘ (·.id)) = [] := by
      rw [List.filterMap_eq_nil_iff]
      intro e he
      obtain ⟨hm, hk⟩ := List.mem_filter.mp he
      have hok : isOk e = true := by
        cases h : isOk e with
        | true => rfl
        | false => simp [h] at hk
      exact engReqs_ok_cause orc rs e (List.mem_filter.mpr ⟨hm, hok⟩)
    rw [h1, h3, List.append_nil]

/-! ### the commands' pipelines over a target file -/

theorem base_pairs_noMAC (ls : List Line) : ∀ r ∈ ls.map expectPair, r.err ≠ some .noMAC := by
  intro r hr
  rw [List.mem_map] at hr
  obtain ⟨l, _, rfl⟩ := hr
  cases l with
  | badJson => simp [expectPair]
  | tooLong => simp [expectPair]
  | entry ip p =>
    cases ip with
    | none => simp [expectPair]
    | some a => simp only [expectPair]; split <;> simp

theorem base_addrs_noMAC (ls : List Line) :
    ∀ r ∈ (ls.map expectAddr).map (fun
        | .ip a => ({ dst := some a } : Req)
        | .err c => { err := some c }), r.err ≠ some .noMAC := by
  intro r hr
  simp only [List.map_map, List.mem_map, Function.comp] at hr
  obtain ⟨l, _, rfl⟩ := hr
  cases l with
  | badJson => simp [expectAddr]
  | tooLong => simp [expectAddr]
  | entry ip p => cases ip <;> simp [expectAddr]

/-- **C13 at the error stream, packet commands over a pairs file** (tcp / udp with `-f`) -/
theorem error_stream_pairs {cfg : Pipe.Cfg} (hwf : cfg.WF) (ls : List Line) (excl : Option (List (Nat × Nat)))
    (cache : Option (List (Addr × Nat) × Option Nat)) (tbl : List Group) (dp di : Draws) (l : Link) (fl : Filler) :
    ∃ rs, ipPortRequests tbl { src := .file (fun _ => some ls), ports := [], excl := excl, cache := cache }
        [] dp di 0 = .ok rs ∧
      List.Sublist (probes rs) (probes ((ls.take (handled stopsPairs ls)).map expectPair)) ∧
      ∀ o : PacketRun, o.inp.reqs = pipeReqs l fl o.rnd rs → 0 < o.inp.n → Pipe.ReachableNC cfg o.inp o.st →
        Pipe.Terminated o.st → RcvErrsOK o.inp →
        ((reqCauses rs o.st.errsOut).filter (· != some .noMAC)).Perm
          ((errors ((ls.take (handled stopsPairs ls)).map expectPair)).map some) ∧
        (handed o.st).Perm (probeFrames l fl o.rnd rs) := by
  obtain ⟨stage, hst, hrun⟩ := pipeline_pairs ls excl cache tbl dp di
  refine ⟨_, hrun, (errors_survive stage hst _).2, fun o h1 h2 h3 h4 h5 => ?_⟩
  obtain ⟨a, b, _⟩ := packet_stage_errors hwf l fl stage hst _ (base_pairs_noMAC _) o h1 h2 h3 h4 h5
  exact ⟨a, b⟩

/-- **C13 at the error stream, icmp over an address file** -/
theorem error_stream_addrs {cfg : Pipe.Cfg} (hwf : cfg.WF) (ls : List Line) (excl : Option (List (Nat × Nat)))
    (cache : Option (List (Addr × Nat) × Option Nat)) (tbl : List Group) (d : Nat × Nat) (l : Link) (fl : Filler) :
    ∃ rs, ipRequests tbl { src := .file (fun _ => some ls), ports := [], excl := excl, cache := cache } d = .ok rs ∧
      List.Sublist (probes rs) (probes (((ls.take (handled stopsAddrs ls)).map expectAddr).map (fun
            | .ip a => ({ dst := some a } : Req)
            | .err c => { err := some c }))) ∧
      ∀ o : PacketRun, o.inp.reqs = pipeReqs l fl o.rnd rs → 0 < o.inp.n → Pipe.ReachableNC cfg o.inp o.st →
        Pipe.Terminated o.st → RcvErrsOK o.inp →
        ((reqCauses rs o.st.errsOut).filter (· != some .noMAC)).Perm
          ((errors (((ls.take (handled stopsAddrs ls)).map expectAddr).map (fun
            | .ip a => ({ dst := some a } : Req)
            | .err c => { err := some c }))).map some) ∧
        (handed o.st).Perm (probeFrames l fl o.rnd rs) := by
  obtain ⟨stage, hst, hrun⟩ := pipeline_addrs ls excl cache tbl d
  refine ⟨_, hrun, (errors_survive stage hst _).2, fun o h1 h2 h3 h4 h5 => ?_⟩
  obtain ⟨a, b, _⟩ := packet_stage_errors hwf l fl stage hst _ (base_addrs_noMAC _) o h1 h2 h3 h4 h5
  exact ⟨a, b⟩

theorem errors_filter_keep (p : Req → Bool) (hp : ∀ r, r.err ≠ none → p r = true) (rs : List Req) :
    errors (rs.filter p) = errors rs := by
  induction rs with
  | nil => rfl
  | cons r rs ih =>
    rw [List.filter_cons]
    by_cases h : p r = true
    · rw [if_pos h]
      simp only [errors, List.filterMap_cons] at ih ⊢
      rw [ih]
    · rw [if_neg h]
      have : r.err = none := by
        by_contra hc; exact h (hp r hc)
      simp only [errors, List.filterMap_cons, this] at ih ⊢
      exact ih

theorem errors_filterStage (e : List (Nat × Nat)) (b : List Req) : errors (filterStage e b) = errors b := by
  apply errors_filter_keep
  intro r hr
  cases he : r.err with
  | none => exact absurd he hr
  | some c => rfl

/-- **C13 at the error stream, application scans over a pairs file** (socks / docker / elastic with `-f`) -/
theorem error_stream_generic (ls : List Line) (excl : Option (List (Nat × Nat)))
    (cache : Option (List (Addr × Nat) × Option Nat)) (tbl : List Group) (dp di : Draws) :
    ∃ rs, genericRun tbl { src := .file (fun _ => some ls), ports := [], excl := excl, cache := cache } dp di = .ok rs ∧
      errors rs = errors ((ls.take (handled stopsPairs ls)).map expectPair) ∧
      List.Sublist (probes rs) (probes ((ls.take (handled stopsPairs ls)).map expectPair)) ∧
      ∀ (c : Engine.Cfg) (orc : Nat → Engine.Outcome) (st : Engine.Sys), 0 < c.W →
        Engine.Reachable c (Engine.init (engReqs orc rs) []) st → st.cmdCtx = false →
        (∀ e ∈ st.scans, ∃ r, rs[e.id]? = some r ∧ r.err = none) ∧
        (st.doneClosed = true →
          (sentCauses rs st.errSent).Perm (errors ((ls.take (handled stopsPairs ls)).map expectPair)) ∧
          (st.drain = .exited → st.errLogged = st.errSent)) := by
  obtain ⟨stage, hst, hrun⟩ := pipeline_pairs ls excl none tbl dp di
  have herr : errors (stage ((ls.take (handled stopsPairs ls)).map expectPair))
      = errors ((ls.take (handled stopsPairs ls)).map expectPair) := by
    rw [← filePairs_spec] at hrun ⊢
    cases excl with
    | none =>
      have : stage (filePairs ls) = filePairs ls := by
        have h : (Except.ok (filePairs ls) : Except Cause (List Req)) = .ok (stage (filePairs ls)) := hrun
        injection h with h; exact h.symm
      rw [this]
    | some e =>
      have : stage (filePairs ls) = filterStage e (filePairs ls) := by
        have h : (Except.ok (filterStage e (filePairs ls)) : Except Cause (List Req)) = .ok (stage (filePairs ls)) := hrun
        injection h with h; exact h.symm
      rw [this, errors_filterStage]
  refine ⟨_, hrun, herr, (errors_survive stage hst _).2, fun c orc st hW hr hnc => ?_⟩
  obtain ⟨h1, h2⟩ := engine_run_errors _ c orc st hW hr hnc
  refine ⟨h1, fun hd => ?_⟩
  rw [← herr]
  exact h2 hd

end SxVerif.Proofs.Compose
