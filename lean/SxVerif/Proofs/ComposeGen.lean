/-
Composition lemmas, generator side: what the composed statements need to know about the request lists of
M-gen beyond C01's coverage statement — the runs of a pass as a list of request lists, the MAC the ARP-cache stage
leaves on every probe, the 16-bit range of every denoted port, IPv4-ness of subnet targets.
-/
import SxVerif.Spec.Compose
import SxVerif.Proofs.GenCover

namespace SxVerif.Proofs.Compose
open SxVerif.Gen SxVerif.Spec.Gen SxVerif.RangeIter SxVerif.Proofs.Gen SxVerif.Compose SxVerif.Spec.Compose

/-- all engine runs of a pass succeeded: their requests, concatenated in run order (= `C01.allOk`) -/
def allOk : List (Except Cause (List Req)) → Option (List Req)
  | [] => some []
  | .ok rs :: rest => (allOk rest).map (rs ++ ·)
  | .error _ :: _ => none

theorem allOk_some : ∀ (runs : List (Except Cause (List Req))) (rs : List Req), allOk runs = some rs →
    ∃ rss : List (List Req), runs = rss.map Except.ok ∧ rss.flatten = rs
  | [], rs, h => ⟨[], rfl, by simpa [allOk] using h⟩
  | .error _ :: _, _, h => by simp [allOk] at h
  | .ok r0 :: rest, rs, h => by
    simp only [allOk, Option.map_eq_some_iff] at h
    obtain ⟨rs', h', rfl⟩ := h
    obtain ⟨rss, hr, hf⟩ := allOk_some rest rs' h'
    exact ⟨r0 :: rss, by simp [hr], by simp [hf]⟩

theorem probes_eq (rs : List Req) : probes rs = rs.filterMap probeOf := by
  unfold probes probeOf; rfl

theorem probes_flatten (rss : List (List Req)) : probes rss.flatten = rss.flatMap probes := by
  induction rss with
  | nil => rfl
  | cons a t ih => rw [List.flatten_cons, Proofs.Gen.probes_append, ih, List.flatMap_cons]

/-! ### the ARP-cache stage leaves a MAC on every probe -/

theorem cacheStage_mac (c : List (Addr × Nat)) (gw : Option Nat) (rs : List Req) (r' : Req)
    (h : r' ∈ cacheStage c gw rs) (he : r'.err = none) : r'.dstMAC.isSome = true := by
  rw [cacheStage, List.mem_map] at h
  obtain ⟨r, _, rfl⟩ := h
  obtain ⟨dst, port, mac, err⟩ := r
  cases err with
  | some e => simp at he
  | none =>
    cases dst with
    | none => simp at he
    | some a =>
      dsimp only at he ⊢
      split
      · rfl
      · split
        · rfl
        · simp [*] at he

theorem stages_mac (excl) (c : List (Addr × Nat)) (gw : Option Nat) (base : Except Cause (List Req))
    (rs : List Req) (h : stages excl (some (c, gw)) base = .ok rs) :
    ∀ r ∈ rs, r.err = none → r.dstMAC.isSome = true := by
  obtain ⟨b, -, rfl⟩ := stages_eq_ok excl _ base rs h
  intro r hr he
  exact cacheStage_mac c gw _ r hr he

/-- every probe of every engine run of an (address, port) pass over a range with an ARP-cache stage has a MAC -/
theorem port_scan_mac (tbl : List Group) (s : Spec) (size : Nat) (e : Bool) (dp di : Nat → Draws)
    (hc : s.cache.isSome = true) (rs : List Req)
    (h : Except.ok rs ∈ portScanRuns tbl s size e dp di) : ∀ r ∈ rs, r.err = none → r.dstMAC.isSome = true := by
  obtain ⟨c, -, j, o, hrun⟩ := go_mem tbl s dp di (chunks size e s.ports) 0 0 _ h
  rw [ipPortRequests_eq] at hrun
  cases hcache : s.cache with
  | none => simp [hcache] at hc
  | some cg =>
    obtain ⟨c', gw⟩ := cg
    rw [hcache] at hrun
    exact stages_mac _ c' gw _ rs hrun.symm

theorem ip_scan_mac (tbl : List Group) (s : Spec) (d : Nat × Nat) (hc : s.cache.isSome = true) (rs : List Req)
    (h : ipRequests tbl s d = .ok rs) : ∀ r ∈ rs, r.err = none → r.dstMAC.isSome = true := by
  rw [ipRequests_eq] at h
  cases hcache : s.cache with
  | none => simp [hcache] at hc
  | some cg =>
    obtain ⟨c', gw⟩ := cg
    rw [hcache] at h
    exact stages_mac _ c' gw _ rs h

/-! ### every denoted port fits 16 bits -/

theorem mem_portsOf_le (ports : List PortRange) (hp : PortsOK ports) (p : Nat) (h : p ∈ portsOf ports) :
    p ≤ 65535 := by
  simp only [portsOf, List.mem_flatMap, List.mem_range'_1] at h
  obtain ⟨r, hr, _, h2⟩ := h
  have := hp r hr
  omega

theorem linePair_port (l : Line) (ap : Addr × Nat) (h : linePair l = some ap) : ap.2 ≤ 65535 := by
  cases l with
  | badJson => simp [linePair] at h
  | tooLong => simp [linePair] at h
  | entry ip p =>
    cases ip with
    | none => simp [linePair] at h
    | some a =>
      simp only [linePair] at h
      split at h
      · rename_i hp
        obtain rfl : (a, p.toNat) = ap := by simpa using h
        show p.toNat ≤ 65535
        omega
      · simp at h

theorem denotePairs_port (s : Spec) (content : List Line) (h : PairSpecOK s content) (ap : Addr × Nat)
    (hm : ap ∈ denotePairs s content) : ap.2 < 65536 := by
  obtain ⟨src, ports, excl, cache⟩ := s
  have hports : PortsOK ports := h.ports
  have hcross : ∀ A : List Addr, ap ∈ (portsOf ports).flatMap (fun p => A.map (fun a => (a, p))) → ap.2 < 65536 := by
    intro A hm
    simp only [List.mem_flatMap, List.mem_map] at hm
    obtain ⟨p, hp, a, _, rfl⟩ := hm
    have := mem_portsOf_le ports hports p hp
    show p < 65536
    omega
  cases src with
  | subnet net =>
    cases net with
    | none => simp [denotePairs] at hm
    | some n => exact hcross _ hm
  | file f =>
    simp only [denotePairs] at hm
    split at hm
    · simp only [List.mem_filterMap] at hm
      obtain ⟨l, _, hl⟩ := hm
      have := linePair_port l ap hl
      omega
    · exact hcross _ hm

theorem expectedPairs_port (s : Spec) (content : List Line) (h : PairSpecOK s content) (ap : Addr × Nat)
    (hm : ap ∈ expectedPairs s content) : ap.2 < 65536 :=
  denotePairs_port s content h ap (List.mem_filter.mp hm).1

/-! ### subnet targets are IPv4 -/

theorem subnet_pairs_ipv4 (s : Spec) (content : List Line) (h : PairSpecOK s content) (net : Option Net)
    (hs : s.src = .subnet net) : ∀ ap ∈ denotePairs s content, IsIPv4 ap.1 := by
  obtain ⟨src, ports, excl, cache⟩ := s
  subst hs
  obtain ⟨⟨n, rfl, hn⟩, _⟩ := h.src
  intro ap hm
  simp only [denotePairs, List.mem_flatMap, List.mem_map] at hm
  obtain ⟨p, _, a, ha, rfl⟩ := hm
  obtain ⟨v, rfl, hv⟩ := mem_addrsOfNet n hn a ha
  exact hv

theorem subnet_addrs_ipv4 (s : Spec) (content : List Line) (h : AddrSpecOK s content) (net : Option Net)
    (hs : s.src = .subnet net) : ∀ a ∈ denoteAddrs s content, IsIPv4 a := by
  obtain ⟨src, ports, excl, cache⟩ := s
  subst hs
  obtain ⟨n, rfl, hn⟩ := h.src
  intro a ha
  obtain ⟨v, rfl, hv⟩ := mem_addrsOfNet n hn a ha
  exact hv

/-! ### probes of a request list whose targets are known -/

/-- without errors, the probes are the targets -/
theorem probes_perm_of_targets (rs : List Req) (L : List (Addr × Nat))
    (ht : (rs.map tgt).Perm (L.map (fun ap => (some ap.1, ap.2)))) (hne : ∀ r ∈ rs, r.err = none) :
    (probes rs).Perm L := by
  rw [probes_of_noerr rs hne]
  refine (ht.filterMap _).trans ?_
  rw [List.filterMap_map]
  have : ((fun dp : Option Addr × Nat => dp.1.map (fun a => (a, dp.2))) ∘
      (fun ap : Addr × Nat => (some ap.1, ap.2))) = some := by
    funext ap; rfl
  rw [this, List.filterMap_some]

/-- a request that is a probe has one of the listed targets -/
theorem probe_target_mem (rs : List Req) (L : List (Addr × Nat))
    (ht : (rs.map tgt).Perm (L.map (fun ap => (some ap.1, ap.2)))) (r : Req) (hr : r ∈ rs) :
    ∃ ap ∈ L, r.dst = some ap.1 ∧ r.port = ap.2 := by
  have : tgt r ∈ L.map (fun ap => (some ap.1, ap.2)) := ht.mem_iff.mp (List.mem_map_of_mem hr)
  rw [List.mem_map] at this
  obtain ⟨ap, hap, heq⟩ := this
  have h1 : some ap.1 = r.dst := congrArg Prod.fst heq
  have h2 : ap.2 = r.port := congrArg Prod.snd heq
  exact ⟨ap, hap, h1.symm, h2.symm⟩

theorem probes_fst_noerr : ∀ (rs : List Req), (∀ r ∈ rs, r.err = none) →
    (probes rs).map Prod.fst = rs.filterMap (·.dst)
  | [], _ => rfl
  | r :: rs, hne => by
    have he := hne r (by simp)
    have ih := probes_fst_noerr rs (fun r' hr' => hne r' (List.mem_cons_of_mem _ hr'))
    cases hd : r.dst with
    | none => simpa [probes, he, hd] using ih
    | some a => simpa [probes, he, hd] using ih

/-- port-less form: destinations only -/
theorem probes_fst_perm (rs : List Req) (A : List Addr)
    (ht : (rs.map (·.dst)).Perm (A.map some)) (hne : ∀ r ∈ rs, r.err = none) :
    ((probes rs).map Prod.fst).Perm A := by
  have h1 : (probes rs).map Prod.fst = (rs.map (·.dst)).filterMap id := by
    rw [List.filterMap_map]; exact probes_fst_noerr rs hne
  rw [h1]
  refine (ht.filterMap id).trans ?_
  rw [List.filterMap_map]
  simp

theorem dst_mem (rs : List Req) (A : List Addr) (ht : (rs.map (·.dst)).Perm (A.map some)) (r : Req)
    (hr : r ∈ rs) : ∃ a ∈ A, r.dst = some a := by
  have : r.dst ∈ A.map some := ht.mem_iff.mp (List.mem_map_of_mem hr)
  rw [List.mem_map] at this
  obtain ⟨a, ha, heq⟩ := this
  exact ⟨a, ha, heq.symm⟩

end SxVerif.Proofs.Compose
